#!/bin/bash
# sweep.sh <seed...> : runs every registered quick check at each seed, one line per run (not part of any registered command)
cd "$(dirname "$0")"
ids=$(python3 -c "import json;print(' '.join(c['property_id'] for c in json.load(open('MANIFEST.json'))['checks']))")
for seed in "$@"; do
  for id in $ids; do
    t0=$(date +%s)
    out=$(VERIF_SEED=$seed ./check $id --tier ${TIER:-quick} 2>&1)
    rc=$?
    echo "seed=$seed $id rc=$rc $(( $(date +%s) - t0 ))s $(echo "$out" | grep -c '^VIOLATION') viol $(echo "$out" | grep '^  \[' | sed 's/\].*/]/' | sort | uniq -c | tr '\n' ' ') $(echo "$out" | grep '^INCONCLUSIVE\|^HARNESS-BUG' | head -2 | tr '\n' ' ')"
  done
done
