#!/bin/bash
# keep_seed.sh <ID> <caught-by text> : stores a verified seeded change under /verif/seeded/<ID>/
ID=$1; CAUGHT=$2; SRC=/tmp/seed-$ID/seeded_out; DST=/verif/seeded/$ID
mkdir -p $DST && cp $SRC/patch.diff $DST/ && rm -rf $DST/demo && cp -r $SRC/demo $DST/demo
python3 - "$ID" "$CAUGHT" <<'PY'
import json,sys
ID,caught=sys.argv[1],sys.argv[2]
m=json.load(open(f'/tmp/seed-{ID}/seeded_out/meta.json'))
out={"property":ID,"breaks":m.get("summary"),"needs_to_manifest":m.get("needs_to_manifest"),"files_changed":m.get("files_changed"),
 "origin":"fresh sub-agent given only the property text and a scratch worktree (no access to /verif)",
 "confirmed_here":{"how":"verify_seed.sh on a fresh scratch worktree of /repo HEAD: demo on the clean tree (must pass), git apply patch.diff, go build ./..., demo with the change (must fail), the library suite with the change (must pass; a package that failed under machine load was re-run alone once)",
   "demo_fails_with_change":True,"demo_passes_without_change":True,"suite_passes_with_change":True,"demo_failure_rate":m.get("demo_failure_rate")},
 "caught_by":caught}
json.dump(out,open(f'/verif/seeded/{ID}/meta.json','w'),indent=1)
PY
ls $DST
