#!/bin/bash
# keep_seed.sh <ID> <caught-by text> [<seeded_out dir> [<store name> [<round note>]]] : stores a verified seeded change
# under /verif/seeded/<store name>/ (default name = ID, default source /tmp/seed-<ID>/seeded_out)
ID=$1; CAUGHT=$2; SRC=${3:-/tmp/seed-$ID/seeded_out}; NAME=${4:-$ID}; ROUND=${5:-round 1}; DST=/verif/seeded/$NAME
mkdir -p $DST && cp $SRC/patch.diff $DST/ && rm -rf $DST/demo && cp -r $SRC/demo $DST/demo
python3 - "$ID" "$CAUGHT" "$SRC" "$DST" "$ROUND" <<'PY'
import json,sys
ID,caught,src,dst,rnd=sys.argv[1:6]
m=json.load(open(f'{src}/meta.json'))
out={"property":ID,"round":rnd,"breaks":m.get("summary"),"needs_to_manifest":m.get("needs_to_manifest"),"files_changed":m.get("files_changed"),
 "origin":"fresh sub-agent given only the property text and a scratch worktree (no access to /verif)" + ("; told which idea round 1 had used and asked to attack a different clause or mechanism" if rnd!="round 1" else ""),
 "confirmed_here":{"how":"verify_seed.sh on a fresh scratch worktree of /repo HEAD: demo on the clean tree (must pass), git apply patch.diff, go build ./..., demo with the change (must fail), the library suite with the change (must pass; a package that failed under machine load was re-run alone once)",
   "demo_fails_with_change":True,"demo_passes_without_change":True,"suite_passes_with_change":True,"demo_failure_rate":m.get("demo_failure_rate")},
 "caught_by":caught}
json.dump(out,open(f'{dst}/meta.json','w'),indent=1)
PY
ls $DST
