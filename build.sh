#!/bin/bash
# builds bin/vcheck and bin/vcheck-race from harness/, build tag verif, against $VERIF_REPO (default /repo)
set -eu
ROOT="$(cd "$(dirname "$0")" && pwd)"
export VERIF_ROOT="$ROOT"
. "$ROOT/env.sh"
cd "$ROOT/harness"
MODARGS=()
REPO="${VERIF_REPO:-/repo}"
if [ "$REPO" != "/repo" ]; then
  sed "s#=> /repo#=> $REPO#" go.mod > "$ROOT/out/alt.mod"
  cp go.sum "$ROOT/out/alt.sum"
  MODARGS=(-modfile="$ROOT/out/alt.mod")
fi
go build "${MODARGS[@]}" -tags verif -gcflags=all=-d=checkptr -o "$ROOT/bin/vcheck" ./cmd/vcheck &
P1=$!
go build "${MODARGS[@]}" -tags verif -race -o "$ROOT/bin/vcheck-race" ./cmd/vcheck &
P2=$!
wait $P1
wait $P2
