#!/bin/bash
# regress_seeds.sh [<seed dir name>...] : applies every stored seeded change (default: all of /verif/seeded/*) to a fresh
# scratch worktree of /repo HEAD and runs the quick check of its property against it (seedrun.sh: private copy of /verif).
# Prints one line per seed; a seed whose check exits 0 is reported as MISSED. Not part of any registered command.
cd "$(dirname "$0")"
names=("$@")
[ ${#names[@]} -eq 0 ] && names=($(ls seeded))
missed=0
for n in "${names[@]}"; do
  id=${n%%-*}
  wt=/tmp/rs-$n
  git -C /repo worktree remove --force $wt >/dev/null 2>&1; rm -rf $wt
  git -C /repo worktree add --detach $wt >/dev/null 2>&1 || { echo "$n worktree failed"; continue; }
  if ! git -C $wt apply /verif/seeded/$n/patch.diff 2>/dev/null; then
    echo "$n PATCH-DOES-NOT-APPLY (the library moved on under it)"
  else
    # a seed whose refuting observation belongs to another property's check names it in meta.json ("regress_check")
    rc_id=$(python3 -c "import json,sys;print(json.load(open(sys.argv[1])).get('regress_check') or sys.argv[2])" /verif/seeded/$n/meta.json $id)
    out=$(./seedrun.sh $wt $rc_id)
    case "$out" in
      *"rc=1"*) echo "$n caught: $(echo "$out" | sed 's/.*keys: *//' | cut -c1-160)";;
      *) echo "$n MISSED: $out"; missed=$((missed+1));;
    esac
  fi
  git -C /repo worktree remove --force $wt >/dev/null 2>&1; rm -rf $wt
done
echo "missed=$missed of ${#names[@]}"
