# sourced by check/build.sh/setup.sh: offline Go environment (do NOT set GOSUMDB=off: toolchain
# selection for go 1.26.0 then fails).
export GOFLAGS=-mod=mod GOPROXY=off
export VERIF_ROOT="${VERIF_ROOT:-/verif}"
mkdir -p "$VERIF_ROOT/out" "$VERIF_ROOT/bin" "$VERIF_ROOT/evidence"
# pick a Go that is 1.26.x
if ! (cd "$VERIF_ROOT/harness" && go version 2>/dev/null | grep -q 'go1\.26'); then
  if command -v go1.26 >/dev/null 2>&1; then
    export GOTOOLCHAIN=local
    go() { command go1.26 "$@"; }
    export -f go
  fi
fi
