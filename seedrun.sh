#!/bin/bash
# seedrun.sh <worktree-with-change> <check-id>... : runs the given quick checks against a scratch tree from a private
# copy of /verif (so it can run next to other work). Prints one line per check. Not part of any registered command.
WT="$1"; shift
COPY=/tmp/vseed-$(basename "$WT")
rsync -a --delete --exclude .git --exclude out --exclude bin --exclude evidence /verif/ "$COPY"/
cd "$COPY" || exit 9
for id in "$@"; do
  out=$(VERIF_ROOT="$COPY" VERIF_REPO="$WT" ./check "$id" --tier ${TIER:-quick} 2>&1); rc=$?
  echo "$(basename "$WT") $id rc=$rc keys: $(echo "$out" | grep '^  \[' | sed 's/\].*/]/' | sort | uniq -c | tr '\n' ' ') $(echo "$out" | grep '^INCONCLUSIVE\|^HARNESS-BUG' | head -2 | tr '\n' ' ') known: $(echo "$out" | grep -c '^KNOWN-FINDING')"
  [ -n "${SEEDRUN_SAVE:-}" ] && echo "$out" > "$SEEDRUN_SAVE.$id.txt"
done
rm -rf "$COPY"
