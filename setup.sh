#!/bin/bash
# one-time setup after a fresh restore: build both harness binaries (warms the -race std build)
set -eu
ROOT="$(cd "$(dirname "$0")" && pwd)"
"$ROOT/build.sh"
echo "setup ok: $(ls -la "$ROOT/bin")"
