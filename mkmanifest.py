#!/usr/bin/env python3
"""Regenerates MANIFEST.json from the table below (kept valid at all times)."""
import json, subprocess
props = [json.loads(l) for l in open('/verif/properties.jsonl')]
ids = [p['id'] for p in props]

# id -> dict(level, text, note, technique, design)
claimed = {
 "C01": dict(level="exploration",
   text="Runtime monitoring of the real constructors/encoder/decoder on 44k (quick) / 1.6M (thorough) generated trees per run: an independent SEMI E5 reference encoder supplies the expected bytes, and the item is compared to its logical value through every public accessor before and after a decode round trip; -race/checkptr slice included. Held means no divergence on the cases listed in evidence, not a proof.",
   note="Trusts harness/ref/e5 as the reading of SEMI E5; F4 NaN payloads are compared as NaN only. Known finding (list with EmptyItem child) is reported as KNOWN-FINDING.",
   technique="differential runtime monitor: reference E5 encoder + accessor-level oracle over generated constructor recipes; race detector/checkptr slice",
   design="DESIGN.md §5 C01"),
 "C02": dict(level="exploration",
   text="Runtime monitoring of secs2.Decode/DecodeOwned on ~1.2M (quick) / ~20M (thorough) byte strings per run: exhaustive short inputs, systematic truncations/mutations/length-field rewrites of generated valid encodings, length-claim bombs, deep nesting, random bytes. An independent total E5 reference decoder decides accept/reject and the decoded values (compared through every accessor), re-encoding must equal the consumed prefix, the two entry points must agree, and an allocation meter bounds TotalAlloc per input. Half of the inputs run under the race build (checkptr).",
   note="Trusts harness/ref/e5 as the reading of the SEMI E5 item grammar (depth limit 64). The allocation constant (96 B per input byte + 4 KiB per call + 256 KiB slack per metered batch) is a stated assumption for 'constant multiple of the input length'.",
   technique="differential runtime monitor: total reference E5 decoder + accessor-level oracle + allocation meter over exhaustive-short/mutated/bomb inputs; checkptr via -race build",
   design="DESIGN.md §5 C02"),
}

hooks_commits = []
try:
    out = subprocess.run(['git','-C','/repo','log','--format=%H %s'],capture_output=True,text=True).stdout
    for l in out.splitlines():
        h, s = l.split(' ',1)
        if s.startswith('verif:') :
            hooks_commits.append(h)
except Exception:
    pass

m = {
 "version": 1,
 "setup_cmd": "./setup.sh",
 "hooks": {
  "guard": "verif",
  "enable": "go build -tags verif (harness module /verif/harness, replace github.com/arloliu/go-secs/v2 => /repo)",
  "baseline_off_cmd": "cd /repo && GOFLAGS=-mod=mod GOPROXY=off go test -vet=off -count=1 -timeout 25m ./...",
  "source_commits": hooks_commits,
  "add_only": True,
 },
 "engines": [
  {"name": "vcheck", "path": "/verif/harness", "serves_properties": sorted(claimed),
   "kind_free_text": "Go harness: parent runner + per-shard child processes (plain and -race builds, tag verif); reference models in harness/ref; monitors in harness/mon; per-property drivers in harness/checks"}
 ],
 "checks": [],
 "not_applicable": [],
 "notes": "Every check: ./check <id> [--tier quick|thorough]; exit 0 held / 1 VIOLATION / 2 INCONCLUSIVE / 3 harness bug. VERIF_SEED and VERIF_TIER are honoured. See DESIGN.md.",
}
for i in ids:
    if i in claimed:
        c = claimed[i]
        m["checks"].append({
          "property_id": i,
          "quick_cmd": f"./check {i} --tier quick",
          "thorough_cmd": f"./check {i} --tier thorough",
          "evidence_file": f"/verif/evidence/{i}.json",
          "replay_cmd_template": f"./check {i} --replay {{path}}",
          "engine": "vcheck",
          "level_claimed": {"category": c["level"], "text": c["text"], "design_ref": c["design"]},
          "level_note": c["note"],
          "technique": c["technique"],
        })
    else:
        m["not_applicable"].append({"property_id": i, "reason": "check not built yet in this session (runtime-monitoring design in DESIGN.md §5); not claimed until its monitor exists and has been validated"})
json.dump(m, open('/verif/MANIFEST.json','w'), indent=1)
print("claimed:", sorted(claimed), "not_applicable:", len(m["not_applicable"]))
