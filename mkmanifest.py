#!/usr/bin/env python3
"""Regenerates MANIFEST.json from the table below (kept valid at all times).
Only checks whose driver file exists in harness/checks AND that are listed in `claimed` are claimed."""
import json, subprocess, os
props = [json.loads(l) for l in open('/verif/properties.jsonl')]
ids = [p['id'] for p in props]

E = "exploration"
F = "fault_enumeration"
HELD = " Held means no divergence on the executions listed in evidence, not a proof."

# id -> dict(level, text, note, technique)
claimed = {
 "C01": dict(level=E,
   text="Runtime monitoring of the real constructors/encoder/decoder on 44k (quick) / 1.6M (thorough) generated trees per run (leaves at every length boundary, random trees, list chains of every depth 1..64, slab- and count-boundary lists, many empty lists before and next to a deep part, giants; ~1500 numeric items built from arguments wider than the item in every argument shape, whose bytes must decode to what their accessors report): an independent SEMI E5 reference encoder supplies the expected bytes, and the item is compared to its logical value through every public accessor before and after a decode round trip; -race/checkptr slice included." + HELD,
   note="Trusts harness/ref/e5 as the reading of SEMI E5; F4 NaN payloads are compared as NaN only. Known finding (list with EmptyItem child) is reported as KNOWN-FINDING.",
   technique="differential runtime monitor: reference E5 encoder + accessor-level oracle over generated constructor recipes; race detector/checkptr slice"),
 "C02": dict(level=E,
   text="Runtime monitoring of secs2.Decode/DecodeOwned on ~1.2M (quick) / ~20M (thorough) byte strings per run: exhaustive short inputs, systematic truncations/mutations/length-field rewrites of generated valid encodings, length-claim bombs, deep nesting, random bytes. An independent total E5 reference decoder decides accept/reject and the decoded values (compared through every accessor), re-encoding must equal the consumed prefix, the two entry points must agree, and an allocation meter bounds TotalAlloc per input. Half of the inputs run under the race build (checkptr)." + HELD,
   note="Trusts harness/ref/e5 as the reading of the SEMI E5 item grammar (depth limit 64). The allocation constant (96 B per input byte + 4 KiB per call + 256 KiB slack per metered batch) is a stated assumption for 'constant multiple of the input length'.",
   technique="differential runtime monitor: total reference E5 decoder + accessor-level oracle + allocation meter over exhaustive-short/mutated/bomb inputs; checkptr via -race build"),
 "C05": dict(level=E,
   text="Two runtime monitors over the real code. (a) The real supervisor (verif-tagged driver, no goroutines) is executed under a controlled scheduler: DFS over all schedules of transport calls, queued-event steps and commits interposed at step's load/store seam to depth 12 (quick) / 18 (thorough) with visited-state hashing, plus 20k / 1M random walks; an online monitor checks every observed State() change against the E37 edges, its cause, staleness across generations, the notification chain and the after-Close state. (b) End-to-end: Open/Close/reconnect histories on real hsmsss connections against a scripted peer under the race detector with a StateChangeHandler chain monitor and after-Close checks (also fed by the C10 lifecycle programs), a T7 scenario, a connect-arriving-inside-Close scenario and a wedged-handler straggler scenario (a receive loop of a dead generation reporting its TCP-down late)." + HELD,
   note="The environment model of (a) (which transport calls are possible when) is stated in c05_driver.go and DESIGN.md; schedules outside it are not explored. Real-goroutine interleavings in (b) are sampled, widened by vhook delays. Three genuine defects found by (a) were repaired (fix: commits in known_findings.json).",
   technique="controlled-scheduler execution of the real FSM with an online trace monitor (edges, causes, notification chain) + e2e history monitor under the race detector"),
 "C06": dict(level=E,
   text="40 (quick) / 1500 (thorough) concurrent request/reply histories per run on real connections (1..64 senders) against a scripted peer that replies now/late/permuted/twice/never, rejects, collides system bytes with primaries and control responses, sends undecodable and unsolicited messages (primaries, orphan secondaries, orphan SxF0 aborts), with random caller cancellation, caller deadlines shorter than T3 and link drops; call/return events and the peer's read/write logs are joined by unique tokens and scanned offline for ownership (own reply only), exactly-once delivery to handlers in arrival order, outcome class, T3 lower bound and system-bytes uniqueness; plus slow-write scenarios (the peer stops reading mid-frame, or the send queues behind such a write) in which the T3 error must come no earlier than T3 after the instant the write returned (afterWrite hook), and a sequential sender next to an every-interval linktest with a peer-side monitor of the open set (system bytes unique across data and control transactions). Race build." + HELD,
   note="Unique tokens make the history unambiguous, so the scan is exact for the histories produced; interleavings are sampled (vhook delays at send.afterRegister/afterWrite, recv.beforeDispatch). The genuine (nil,nil) defect it found is repaired (fix: commit).",
   technique="offline history checker over call/return + peer frame logs (ownership, exactly-once, order) under the race detector with delay injection"),
 "C07": dict(level=F,
   text="Complete product of 10 not-selected situations (incl. after an orphan Select.rsp status 0, and deselected by a Deselect.req the peer wrote in one segment with its Select frame) x 8 data-send entry points x 2 roles on real connections (error class, exactly one counted drop, nothing on the wire, control traffic unaffected, inbound data answered Reject(4) with echoed ids and not delivered); a racing variant with the peer toggling Deselect/Select and the write-lock seam forcing the write-boundary window, decided by conservation; a deterministic one-send window scenario (a send parked at the write-lock seam while the link is closed / separated / deselected by the peer must not put data on a not-selected link); and every 1-cut segmentation of select + pipelined data in both roles. Race build." + HELD,
   note="The enumerated axes are complete; timing inside each case is sampled (vhook delays). 'Connecting' is modelled as refused port (active) / no peer (passive).",
   technique="enumerated situation x API product with wire/peer/metric observers; conservation monitor under racing select/deselect; exhaustive cut-point segmentation"),
 "C08": dict(level=E,
   text="1600 (quick) / 24k (thorough) peer frame sequences (length 1..12 over every SType 0..255, PType, body, arbitrary ids/status bytes incl. session ids one bit off the configured one and Linktest.req carrying a session id; active and passive, validation on/off, host/equipment, coalesced or per-frame writes, supervisor-step delays, second TCP connections, frames pipelined behind a session-ending Separate.req) each played against a fresh real connection; the exact FIFO outbound frame list fenced by a Linktest barrier, State() and handler deliveries are compared with an independent E37 responder state machine (responses also on session id and header byte 2); plus the complete 72-case product (x6 thorough) of a control response carrying the system bytes of a data transaction the library itself has open, sent while its sender is parked right behind the write or already waiting (exactly one Reject.req reason 3, link stays Selected, the genuine secondary still completes the send). Race build." + HELD,
   note="Trusts the responder table in c08Model (from the property text / E37). Two scheduling-dependent answers are accepted either way and documented (duplicate Select.rsp racing transaction close; S9F1 gated at write time).",
   technique="reference-model monitor: independent E37 responder FSM vs barrier-fenced outbound frame log of a real connection"),
 "C09": dict(level=F,
   text="40 (quick) / 480 (thorough) multi-generation histories: each generation ended by one of the 7 drop kinds (peer FIN, RST, stall+write timeout, Close+reopen, linktest failure, T7, T8 - all kinds in every shard) while 8 senders keep sending sync/async/W-bit messages with unique tokens; every frame read by generation G's peer must belong to a call that was open while G existed, replies must carry the tag of the generation that read the primary, waiters must be released (never T3=30 s), and the previous generation's open system bytes replayed by the next peer must not complete anything; senders stalled right after their write (hook) are followed across the drop, and a primary observed on an older generation's peer log while its caller is still waiting is a dead-generation waiter. A SECS-I phase parks a sender behind the line engine's inline handler (contention yield) and ends the generation by Close: the sender must be released with the connection-closed error; its HSMS-SS counterpart wedges the receive path in a data handler while a W-bit sender waits and ends the generation by Close or by a linktest failure; and fire-and-forget senders parked on a full 2-slot send queue (peer not reading, receive loop parked on the same queue) must be released when the generation's teardown starts; a waiter on a generation that Close ends while the socket accepts no write (farewell write blocked) must come back within the farewell's own bound; senders queued on the write lock when Close ends the generation must get the connection-closed error; a multi-block SECS-I message whose first block arrived on one TCP generation must not be completed by blocks sent on the next (neither delivered to handlers nor taken as the reply to a send made there; both roles). Race build." + HELD,
   note="The hsmsss phase carries the generation-tag oracle; the SECS-I phase covers only the parked-waiter release (SECS-I line faults are C17/C18). The drop instant relative to each send is sampled, not enumerated.",
   technique="generation-tagged token monitor over per-generation peer logs under the race detector with delay injection"),
 "C10": dict(level=E,
   text="360 (quick) / 4000 (thorough) hsmsss lifecycle programs plus 96 / 2000 SECS-I programs against a raw TCP peer , a refused-Open-while-connect-pending scenario , Close on a socket whose writes block (write timeout disabled / 30 s / 200 ms x idle / sender blocked) , Close while a dial is in flight with nothing coming back (both transports, cold open and reconnect) Close right after the reconnect loop published the next generation (loop parked at a hook) and Close while two teardown phases run into their bound at once (a data handler and an async-send-error callback that both return 20 s later, close timeout 8 s: one close timeout, not two): 2..5 goroutines of Open/Close/send/UpdateConfig operations concurrent with a hostile peer script (serve, connect-only, drop, reset, stall, refuse, connect inside Close through gated Accept / delayed dial), then Close twice and leak meters (goroutine dump filtered to library frames, Close() on every harness-owned socket/listener, /proc fd count, no dial/listen after Close), double-Open guard, reopen + round trip. Race build; a hang is caught by the shard watchdog with a goroutine dump." + HELD,
   note="hsmsss and secs1 transports; data handlers always return (the property's premise): immediately, after 5-80 ms, or after replying and sending from inside the handler. Close latency bound is close timeout + 5 s. ErrCloseTimeout as a return value is counted, not judged.",
   technique="randomized lifecycle programs with leak meters (goroutines, sockets, fds), latency bound and race detector"),
 "C20": dict(level=E,
   text="80 (quick) / 1200 (thorough) histories of 1..32 concurrent senders whose calls end in every outcome (reply, reject, T3, cancel, refused, disconnect, write error, write timeout against a peer that stops reading, asynchronous write failure), peer data inside a Deselect window and unsolicited peer primaries, session-id validation with foreign-session frames, equipment role (S9F9 per T3), cold opens (initial connect retried in the background), with a drop, a forced streak of refused dials and a reconnect; an accountant derives every counter from the per-call outcomes and the peer's own frame counts and compares at quiescent points; a sampler watches both gauges (never negative; Reconnecting()>0 inside the refusal streak). Race build." + HELD,
   note="hsmsss transport. Exact equality with the peer's counts is required only at fault-free quiescent points; across a drop Send is bounded (a successful write may die in the socket buffer).",
   technique="conservation monitor: independent accountant vs library counters at quiescent points + gauge sampler"),
 "C03": dict(level=E,
   text="Codec half: ~145k (quick) / 1.5M (thorough) constructor/serialise/decode cases (all streams 0..255 x function classes x W, all nine control constructors x all 256 status/reason/type bytes exhaustively (responses built from pristine, re-stamped and junk-header requests, Linktest.req with a session id), NewRejectReqRaw 256x256 exhaustively, re-stamp/derive chains) against an independent E37 frame model (harness/ref/e37 + ref/e5 bodies). Wire half: a real hsmsss connection sends generated messages through all six send entry points and the raw peer's bytes are compared with Message.ToBytes() and the reference frame; the control frames the library emits (Select, Linktest.rsp, Reject, Separate) are compared byte for byte." + HELD,
   note="Trusts harness/ref/e37 and ref/e5 as the reading of E37/E5. Known finding: a valid message whose frame exceeds 2^24-1 bytes cannot be decoded by the library itself (documented limitation M6) - reported as KNOWN-FINDING.",
   technique="differential runtime monitor: independent E37 frame model vs constructors/ToBytes/decoders; socket-byte capture by a raw peer vs ToBytes"),
 "C04": dict(level=E,
   text="Decode half: ~390k (quick) / 6.8M (thorough) byte strings to the three frame decode entry points (length-field x size x PType x all 256 STypes x 14 body classes, truncations, mutations, 16 MiB cap-boundary inputs) judged by the reference acceptor; lazy body decode shared across holders incl. barrier-released concurrent first calls under the race detector. Stream half: a byte-level peer feeds a real connection with valid streams cut at every position of the first 14 bytes, random k-way splits and 1-byte dribble, idle gaps of 4xT8, in-frame stalls of 6xT8 at 10 offsets (also with local writes going out while the receiver sits in the stalled frame), slow-but-steady delivery, a short gap followed by a long one (each inside T8, their sum beyond it), 8 adversarial length fields with an allocation meter, too-short length fields (0,1,2,4,9) followed by that many bytes and a valid frame, and frames whose length field is cap-1 and exactly cap on a live link." + HELD,
   note="Timing clauses decided one-sidedly: idle gaps and stalls are many multiples of T8; 'slow but steady' and segmentation cases carry a measured max-gap premise and are discarded when the harness itself stalled.",
   technique="differential runtime monitor (reference frame acceptor) + segmenting/stalling raw peer with delivery oracle and allocation meter; race detector"),
 "C11": dict(level=F,
   text="380 (quick) / ~2620 (thorough: both TCP roles for every role-agnostic fault, and every fault once more with delays injected at the recovery machinery's suspension points) single link faults, each on a fresh real connection: FIN and RST cuts after exactly k bytes read/written for every k of the 14-byte prefix of every exchange (select both ways, data primary/reply/peer primary, linktest both ways) plus body offsets; stalls covered by T6/T7/T8/write timeout/linktest (the linktest stall also with local traffic going out; the write-timeout stall also for a control frame on a socket that takes no bytes, and with every call carrying a deadline shorter than the write timeout), each to be ended by the covering timer and not by a longer one, the T8 stall placed after every K=1..16 bytes of a frame; Select.rsp status 2..255; 0..8 refused dials / failed listens over a back-off configuration grid, also with a redundant (refused) Open in the middle of the outage. Recovery to Selected + round trip within 6 connection opportunities; requested reconnect delays (hook) vs the reference sequence; re-dial gaps (sound direction); Reconnects(); no dial after Close. Pure back-off function over a grid incl. overflow/Inf/NaN." + HELD,
   note="'Eventually' is decided as bounded progress (6 opportunities). hsmsss transport; SECS-I line cuts are exercised by C18's middlebox, not here.",
   technique="fault enumeration by a byte-exact cutting/stalling peer + hook-reported back-off delays vs reference sequence"),
 "C12": dict(level=E,
   text="17k (quick) / 330k (thorough) snapshot-mutate-resnapshot cases over 11 provenances (constructed, decoded by every copying/owning entry point, re-stamped, derived, control messages): every public accessor/serializer is observed, every slice passed in and every slice handed out (up to capacity) is scribbled on, and the object must still equal an untouched twin; a race phase releases 16 first-call readers by a barrier while a 17th goroutine mutates inputs/outputs (every second case cold: nothing is called on the object before the barrier) (race detector = aliasing witness; shared decode identity checked). Encode-at-most-once of a constructed body is observed through a delegating secs2.Item wrapper that counts AppendTo/ToBytes calls while ToBytes / MarshalBinary / AppendBodyTo run on the message and its With* copies (body lengths around 255/256, around 64 KiB, random to 300 kB; one or 8 concurrent first callers; both phases)." + HELD,
   note="An encoder that bypassed the public Item interface would not be counted by the encode-once wrapper. Documented ownership transfer (DecodeOwned*) is exempt from input-mutation checks.",
   technique="snapshot/mutate/compare monitor against a pristine twin + race detector under barrier-released concurrent readers"),
 "C13": dict(level=E,
   text="36k (quick) / 600k (thorough) messages over the stated item grammar (ASCII items over all 256 byte values incl. every single byte and every ordered pair of grammar-relevant bytes, numeric extremes, empty items, nesting to 64, 63..365 empty lists next to each other and around deep chains, permitted JIS-8/localized text) x all 72 encoder option combinations: strict encode -> strict parse must give one message with the same S/F/W and an Equal body (also compared accessor by accessor); conversely 20k / 300k grammar-generated texts the strict parser accepts are re-encoded under every option set and re-parsed." + HELD,
   note="'Control characters' is read as Unicode Cc / bytes 00-1F,7F-9F. One genuine defect was repaired ('>' unescaped); two remain as known findings (localized text is rendered with Go quoting that the parser never unescapes).",
   technique="round-trip runtime monitor over grammar-hostile generated messages and parser-accepted texts x all option combinations"),
 "C14": dict(level=E,
   text="118k (quick) / 4M (thorough) inputs (exhaustive 1-2 symbol strings over a 40-symbol alphabet, grammar-directed mutations of valid SML, size hints of every form, nesting ladders to 10^7 in seven shapes incl. levels that close a sibling before descending, size hints at the int32/int64 edges, unterminated strings/comments, multi-byte runes, random bytes) to Parse/ParseStrict/ParseMessage/ParseHeader in memory-capped child processes that log each risky input first (a process death is attributed to it), error positions recomputed from the offset, a live allocation meter for size hints, a CPU-time scaling probe over 12 families, and a race phase with 16 goroutines each owning parser/encoder instances." + HELD,
   note="Memory cap 4 GiB and the allocation bound for size hints are stated assumptions for 'resource-bounded'. Four genuine defects found here were repaired (panic, size-hint pre-allocation x2 keys, unbounded recursion). Quick-tier danger shards run with a 128 MiB max stack.",
   technique="crash-contained child processes with per-input attribution + allocation/CPU meters + error-position oracle; race detector for instance isolation"),
 "C15": dict(level=E,
   text="95k (quick) / 1.8M (thorough) error-free item trees (constructed, decoded from the canonical encoding, and decoded from an equivalent non-canonical encoding - TRUE as any non-zero byte, wide length fields; all types, 0/1/many elements, nesting, empty-item children, numeric extremes): sml.Encode(item) must be byte-identical to item.ToSML(), and every numeric/boolean/binary leaf rendered by either must parse back (wrapped as a message body) to the same value." + HELD,
   note="Parse-back is judged per leaf (the property claims it for elements); NaN payload bits excluded.",
   technique="differential runtime monitor between the two renderers + parse-back oracle"),
 "C16": dict(level=E,
   text="~100k (quick) / ~12M (thorough) recover-wrapped constructor calls over Go types x byte sizes (incl. invalid ones that truncate to a valid width) x values at/beyond every bound x call shapes, judged by a reference clamp model (no panic, clamp not wrap, errors for unsupported/unparsable, cross-shape equality), an errored-item battery (never Equal, refused by NewDataMessage / NewDataMessageFromHeader / Derive.Build, nested to depth 5), and a wire half: 864 (quick) sends of errored items through every send call of live connections with the peer's log proving that no byte left." + HELD,
   note="Where the docs explicitly document an error instead of a clamp both are accepted (never another value). Typed-nil item pointers are outside the statement (noted, not judged). Wire half: hsmsss.",
   technique="reference clamp model + recover-wrapped constructor fuzzing; wire observer (scripted peer log) for refused sends"),
 "C17": dict(level=E,
   text="Outbound: a real secs1 connection transmits ~7k (quick) / 75k (thorough) messages (every body length 0..500/1000 plus block boundaries and 10-100 KiB bodies, every stream/function/W, both roles, device ids 0/1/0x7FFF, NAK-then-retransmit) to an independent SEMI E4 reference peer over loopback TCP; every transmission must parse as blocks 1..N of <=244 bytes with the right E-bit, device id, R-bit, header fields and 16-bit checksum, bodies concatenating to the SECS-II encoding. Inbound: 1024 / 24000 block sequences (one fault from 20 classes per message, incl. a retransmitted first block after a T4 gap, a length character lowered so that the rest of the transmission - holding an ENQ and a valid block image - must be drained, incl. blocks paced just inside T4 and foreign blocks inserted inside an open message, each followed by a clean sentinel) fed by the reference peer; handler deliveries must equal those of the reference E4 receiver model, the link must stay Selected, and every delivered message, retained by the handler, must still read the same at the end. Race build." + HELD,
   note="Trusts harness/ref/e4 as the reading of SEMI E4 (block format, 9.4.4 receiver algorithm, handshake). 'Within T4'/'expired' rest on measured gaps (premise; forked model, discarded only when the branches disagree).",
   technique="reference-implementation peer: independent E4 codec + receiver model on the other end of a real secs1 link; delivery/byte oracle under the race detector"),
 "C18": dict(level=F,
   text="Two real secs1 connections (host, equipment) joined by a fault-injecting middlebox that parses the character stream with the reference E4 model and applies 324 (quick) / ~3490 (thorough) fault plans: one flipped character at EVERY position of a block transmission, dropped/truncated blocks, every handshake character dropped or replaced, delays beyond T1/T2, persistent faults exhausting the retry limit, a length character corrupted downwards on a character-paced line (the rest of the block, containing an ENQ and a valid block image, follows inside T1), forced contention, random compositions; retry limits 0..3, 1-4 block messages, unique tokens. Offline scan of the recorded history: exactly-once intact in-order delivery of every successful send, attempts <= retry limit + 1, master-first contention resolution, no hang (watchdog + dump). Race build." + HELD,
   note="Two genuine defects found: a block ACKed during link teardown whose message was then dropped is repaired (fix: commit); stale control characters consumed as handshake answers after a late grant remains a known finding (not a small repair). Overlaps of simultaneous sends are sampled; liveness is bounded (45 s send watchdog).",
   technique="fault-injecting middlebox between two real endpoints + offline exactly-once/order/retry-bound checker over the recorded line history"),
 "C19": dict(level=E,
   text="Pure half: the two linktest decision functions (verif export) vs a reference written from the documented rules, exhaustive over a small ordered domain, and the whole failure-accounting loop folded over ALL ~300k (quick) / ~19M (thorough) observation histories of length <=6/8 x threshold 1..4 x suppression on/off, plus two reducer-independent invariants. E2E half: scripted peers (silent, answering, alive-but-not-answering with suppression on/off, chatty, withheld reply, silent peer while the local side keeps sending, life shown by a frame whose inline handler outlasts T6, life shown by frames the local side answers, a dead peer right after a slow transaction, after a rejected probe and on the connection that followed a W-bit send that failed at the socket, with upper bounds on the drop time; T6 longer than the interval with a slowly answering and a silent peer) on real connections; probe counts seen by the peer, still-connected checks, sound lower bound on the drop time, ControlMetrics vs peer counts." + HELD,
   note="E2E timing is decided one-sidedly (counts and sound lower bounds); the chatty scenario needs a measured premise and is discarded otherwise.",
   technique="exhaustive reference-fold comparison of the real reducer + scripted-peer scenario monitors under the race detector"),
}

hooks_commits = []
fix_commits = []
try:
    out = subprocess.run(['git','-C','/repo','log','--format=%H %s'],capture_output=True,text=True).stdout
    for l in out.splitlines():
        h, s = l.split(' ',1)
        if s.startswith('verif:'):
            hooks_commits.append(h)
        if s.startswith('fix:'):
            fix_commits.append(h)
except Exception:
    pass

na_reason = {
}
DEFAULT_NA = "check not integrated yet in this session (runtime-monitoring design in DESIGN.md §5); not claimed until its monitor exists and has been validated"

m = {
 "version": 1,
 "setup_cmd": "./setup.sh",
 "hooks": {
  "guard": "verif",
  "enable": "go build -tags verif (harness module /verif/harness, replace github.com/arloliu/go-secs/v2 => /repo)",
  "baseline_off_cmd": "cd /repo && GOFLAGS=-mod=mod GOPROXY=off go test -vet=off -count=1 -timeout 25m ./...",
  "source_commits": hooks_commits,
  "add_only": True,
 },
 "engines": [
  {"name": "vcheck", "path": "/verif/harness", "serves_properties": sorted(claimed),
   "kind_free_text": "Go harness: parent runner + per-shard child processes (plain and -race builds, tag verif); reference models in harness/ref; scripted byte-level peer and tracking sockets in harness/peer; monitors in harness/mon; per-property drivers in harness/checks"}
 ],
 "checks": [],
 "not_applicable": [],
 "notes": "Every check: ./check <id> [--tier quick|thorough]; exit 0 held / 1 VIOLATION / 2 INCONCLUSIVE / 3 harness bug. VERIF_SEED and VERIF_TIER are honoured. Genuine defects repaired in /repo (fix: commits): " + ", ".join(h[:7] for h in fix_commits) + ". See DESIGN.md and known_findings.json.",
}
for i in ids:
    if i in claimed and os.path.exists(f'/verif/harness/checks/{i.lower()}.go'):
        c = claimed[i]
        m["checks"].append({
          "property_id": i,
          "quick_cmd": f"./check {i} --tier quick",
          "thorough_cmd": f"./check {i} --tier thorough",
          "evidence_file": f"/verif/evidence/{i}.json",
          "replay_cmd_template": f"./check {i} --replay {{path}}",
          "engine": "vcheck",
          "level_claimed": {"category": c["level"], "text": c["text"], "design_ref": f"DESIGN.md §5 {i}"},
          "level_note": c["note"],
          "technique": c["technique"],
        })
    else:
        m["not_applicable"].append({"property_id": i, "reason": na_reason.get(i, DEFAULT_NA)})
json.dump(m, open('/verif/MANIFEST.json','w'), indent=1)
print("claimed:", [c["property_id"] for c in m["checks"]], "not_applicable:", len(m["not_applicable"]))
