package smltext

import (
	"math/rand/v2"
	"strings"
)

// HostileSizes are size-hint bodies (the text between '[' and ']') that a total parser must
// survive: zero, one, large, beyond int32/uint32/uint64, negative, malformed ranges, non-numbers.
// None of them claims more than 10^5 elements, so no parser may need more than a few MB for them.
var HostileSizes = []string{
	"0", "1", "65535", "100000", "2147483648", "4294967295", "4294967296", "18446744073709551615", "18446744073709551616",
	"99999999999999999999999999", "-1", "-0", "+1", "1..0", "0..30000", "..30000", "30000..", "..", "...", "1...2", "1..2..3", "",
	" ", "0x10", "1e3", "1.5", "a", "[", "]", "1 2", "..-1", "٣", "\x00",
	// the edges of the signed 64-bit range (the width of Go's int): index arithmetic on a hint overflows here first
	"9223372036854775806", "9223372036854775807", "9223372036854775808", "..9223372036854775807", "0..9223372036854775807", "0009223372036854775807",
}

// Inserts are byte strings dropped at structural positions: NUL, multi-byte runes (valid and
// invalid UTF-8), comment openers that never close, quote and escape characters, brackets.
var Inserts = []string{
	"\x00", "é", "日", "\ufeff", "\xff", "\xc3", "\xe6\x97", "\U0001F600", "/*", "//", "*/", "\\", "\"", "'", "<", ">", "[", "]", ".", "..", ":", "\r", "\v", "\x7f", " ",
}

// Mutations calls each(kind, input) for a deterministic family of mutations of t:
// every truncation (sampled when long), token drops / duplications / swaps, unbalanced brackets,
// unterminated strings per item type, hostile size hints on every item, inserts at token
// boundaries, byte flips. r only drives the sampling of large families.
func Mutations(r *rand.Rand, t *Text, each func(kind, in string)) {
	base := t.String()
	toks := t.Toks
	each("base", base)

	// truncations
	if len(base) <= 160 {
		for n := 0; n < len(base); n++ {
			each("truncate", base[:n])
		}
	} else {
		for k := 0; k < 96; k++ {
			each("truncate", base[:r.IntN(len(base))])
		}
	}
	render := func(ts []Tok) string {
		var sb strings.Builder
		for _, k := range ts {
			sb.WriteString(k.S)
		}

		return sb.String()
	}
	without := func(i int) string {
		var sb strings.Builder
		for j, k := range toks {
			if j != i {
				sb.WriteString(k.S)
			}
		}

		return sb.String()
	}
	replaced := func(i int, s string) string {
		var sb strings.Builder
		for j, k := range toks {
			if j == i {
				sb.WriteString(s)
			} else {
				sb.WriteString(k.S)
			}
		}

		return sb.String()
	}
	// truncation at every token boundary (sampled)
	{
		var sb strings.Builder
		for i, k := range toks {
			if len(toks) <= 80 || r.IntN(len(toks)) < 80 {
				each("truncate-at-token", sb.String())
			}
			_ = i
			sb.WriteString(k.S)
		}
	}
	sample := func(n, cap int) []int {
		if n <= cap {
			out := make([]int, n)
			for i := range out {
				out[i] = i
			}

			return out
		}
		out := make([]int, cap)
		for i := range out {
			out[i] = r.IntN(n)
		}

		return out
	}
	// token drop / duplicate / swap
	for _, i := range sample(len(toks), 64) {
		each("drop-token", without(i))
	}
	for _, i := range sample(len(toks), 32) {
		each("dup-token", replaced(i, toks[i].S+toks[i].S))
	}
	for _, i := range sample(len(toks)-1, 32) {
		if i+1 < len(toks) {
			ts := append([]Tok{}, toks...)
			ts[i], ts[i+1] = ts[i+1], ts[i]
			each("swap-tokens", render(ts))
		}
	}
	// brackets
	var closes, opens, strs, types, sizes []int
	for i, k := range toks {
		switch k.K {
		case KClose:
			closes = append(closes, i)
		case KOpen:
			opens = append(opens, i)
		case KString:
			strs = append(strs, i)
		case KType:
			types = append(types, i)
		case KSize:
			sizes = append(sizes, i)
		}
	}
	if len(closes) > 0 {
		var sb strings.Builder
		for _, k := range toks {
			if k.K != KClose {
				sb.WriteString(k.S)
			}
		}
		each("no-closing-brackets", sb.String())
		sb.Reset()
		for _, k := range toks {
			if k.K != KOpen {
				sb.WriteString(k.S)
			}
		}
		each("no-opening-brackets", sb.String())
		for _, j := range sample(len(closes), 24) {
			each("extra-close", replaced(closes[j], ">>"))
			each("close-to-open", replaced(closes[j], "<"))
		}
		for _, j := range sample(len(opens), 24) {
			each("extra-open", replaced(opens[j], "<<"))
			each("open-to-close", replaced(opens[j], ">"))
		}
	}
	// unterminated / broken strings, per item type (the token carries its item's format code)
	for _, j := range sample(len(strs), 24) {
		s := toks[strs[j]].S
		if len(s) >= 2 {
			each("string-no-closing-quote", replaced(strs[j], s[:len(s)-1]))
			each("string-no-opening-quote", replaced(strs[j], s[1:]))
			each("string-other-closing-quote", replaced(strs[j], s[:len(s)-1]+map[byte]string{'"': "'", '\'': "\""}[s[0]]))
			each("string-trailing-backslash", replaced(strs[j], s[:len(s)-1]+"\\"+s[len(s)-1:]))
			each("string-then-space", replaced(strs[j], s+" "))
			each("string-then-newline", replaced(strs[j], s+"\n"))
			// everything after the closing quote removed: quote at end of input
			var sb strings.Builder
			for i := 0; i <= strs[j]; i++ {
				sb.WriteString(toks[i].S)
			}
			each("string-then-eof", sb.String())
			each("string-then-spaces-eof", sb.String()+"  \n")
		}
	}
	// size hints on every item (sampled): replace an existing hint or add one after the type token
	for _, j := range sample(len(types), 4) {
		ti := types[j]
		for _, h := range HostileSizes {
			each("size-hint", replaced(ti, toks[ti].S+"["+h+"]"))
		}
		each("size-hint-unclosed", replaced(ti, toks[ti].S+"[3"))
		each("size-hint-unopened", replaced(ti, toks[ti].S+"3]"))
	}
	for _, j := range sample(len(sizes), 4) {
		for _, h := range HostileSizes {
			each("size-hint", replaced(sizes[j], h))
		}
	}
	// inserts at token boundaries: every boundary gets a multi-byte rune and a NUL when the text
	// is small; the other inserts are sampled
	if len(toks) <= 60 {
		for i := range toks {
			each("insert-rune", replaced(i, "é"+toks[i].S))
			each("insert-nul", replaced(i, "\x00"+toks[i].S))
			each("insert-invalid-utf8", replaced(i, "\xff"+toks[i].S))
		}
	}
	for k := 0; k < 64 && len(toks) > 0; k++ {
		i := r.IntN(len(toks))
		ins := Inserts[r.IntN(len(Inserts))]
		if r.IntN(2) == 0 {
			each("insert", replaced(i, ins+toks[i].S))
		} else {
			each("replace-token", replaced(i, ins))
		}
	}
	each("append-unterminated-block-comment", base+"/* never closed")
	each("append-unterminated-line-comment", base+"// no newline")
	each("prepend-unterminated-block-comment", "/* never closed "+base)
	each("append-header-only", base+"S1F1")
	each("append-garbage", base+"\x00\xff")
	// byte flips
	b := []byte(base)
	for k := 0; k < 32 && len(b) > 0; k++ {
		m := append([]byte{}, b...)
		m[r.IntN(len(m))] = byte(r.IntN(256))
		each("byte-flip", string(m))
	}
	for k := 0; k < 16 && len(b) > 0; k++ {
		m := append([]byte{}, b...)
		const structural = "<>[]\"'\\. \n/*:"
		m[r.IntN(len(m))] = structural[r.IntN(len(structural))]
		each("structural-byte-flip", string(m))
	}
}

// Symbols is the alphabet of the exhaustive short-string enumeration: every structural character
// of the grammar, one representative of every token class, and hostile bytes.
var Symbols = []string{
	"S", "1", "F", "2", "W", " ", "\n", "\t", "<", ">", "[", "]", ".", "..", "\"", "'", "\\", ":", "/", "*",
	"L", "A", "B", "J", "U1", "I8", "F4", "BOOLEAN", "0", "9", "0x", "-", "T", "a", "\x00", "\x80", "é", "2147483648", "//", "/*",
}

// Contexts are (prefix, suffix) pairs the enumerated strings are embedded in, so that they reach
// every sub-grammar: message start, header, after the header, inside a list, inside each leaf kind,
// inside a size hint, inside a quoted string.
var Contexts = [][2]string{
	{"", ""},
	{"", "\n."},
	{"S1F1 W\n", ""},
	{"S1F1 W\n", "\n."},
	{"S1F1 W\n<L ", ">\n."},
	{"S1F1 W\n<L ", ""},
	{"S1F1 W\n<A ", ">\n."},
	{"S1F1 W\n<A ", ""},
	{"S1F1 W\n<A[2] ", ">\n."},
	{"S1F1 W\n<A \"", "\">\n."},
	{"S1F1 W\n<A \"", ""},
	{"S1F1 W\n<J \"", "\">\n."},
	{"S1F1 W\n<J ", ""},
	{"S1F1 W\n<W '", ""},
	{"S1F1 W\n<U1 ", ">\n."},
	{"S1F1 W\n<F8 1 ", ""},
	{"S1F1 W\n<B[", "]>\n."},
	{"S1F1 W\n<L[", ""},
	{"S1F1 W\n<", " 1>\n."},
	{"S1F1 W\n<L <A \"a\"> ", ">\n."},
	{"S1F1 W\n<BOOLEAN T ", ""},
	{"x: 'S", "' W\n."},
}
