// Package smltext is a grammar-directed generator and mutator of SML (SECS Message Language) text.
//
// It is written from the SML grammar as documented in the sml package docs (header line
// `[name:] ['|"]SxFy['|"] [W]`, items `<TYPE[size] values>`, size hints `[n]`, `[n..m]`, `[..m]`,
// `[n..]`, `//` and `/* */` comments, message terminator `.`), shares no code with the library, and
// produces a token list so that mutations can aim at structural positions (brackets, size hints,
// string delimiters, token boundaries).
package smltext

import (
	"fmt"
	"math"
	"math/rand/v2"
	"strconv"
	"strings"
	"unicode"
	"unicode/utf8"

	"verif/ref/e5"
)

// Kind is the structural role of a token.
type Kind uint8

// Token kinds.
const (
	KName      Kind = iota // "name:"
	KHeader                // SxFy incl. optional quotes
	KWbit                  // "W"
	KOpen                  // "<"
	KType                  // item type name
	KSizeOpen              // "["
	KSize                  // "3", "1..3", "..3", "3.."
	KSizeClose             // "]"
	KValue                 // numeric / boolean / 0xHH token
	KString                // one complete quoted run incl. both quotes
	KClose                 // ">"
	KDot                   // "."
	KSpace                 // whitespace
	KComment               // comment
)

// Tok is one token. FC is the format code of the item the token belongs to (0xFF outside items).
type Tok struct {
	K  Kind
	S  string
	FC uint8
}

// Text is a token list.
type Text struct{ Toks []Tok }

// String renders the text.
func (t *Text) String() string {
	var sb strings.Builder
	for _, k := range t.Toks {
		sb.WriteString(k.S)
	}

	return sb.String()
}

// Msg describes one message to render. Body nil = empty body.
type Msg struct {
	Name     string
	Stream   int
	Function int
	W        bool
	Body     *e5.Node
}

// Style tunes rendering.
type Style struct {
	// Strict renders ASCII items in the strict-parser form: quoted runs (with \-escapes for the
	// quote, the backslash and '>') interleaved with numeric byte tokens. Otherwise ASCII is one
	// raw quoted string.
	Strict bool
	// Plain disables optional decoration (comments, odd whitespace, alternative numeric bases, case).
	Plain bool
}

// G is a generator instance.
type G struct {
	R     *rand.Rand
	Style Style
	T     *Text
	fc    uint8
}

// New returns a generator.
func New(r *rand.Rand, st Style) *G { return &G{R: r, Style: st, T: &Text{}, fc: 0xFF} }

func (g *G) tok(k Kind, s string) { g.T.Toks = append(g.T.Toks, Tok{K: k, S: s, FC: g.fc}) }

// ws appends whitespace; min is the minimum number of characters.
func (g *G) ws(min int) {
	r := g.R
	if g.Style.Plain {
		if min > 0 {
			g.tok(KSpace, " ")
		}

		return
	}
	n := min
	switch r.IntN(8) {
	case 0:
		n += 1
	case 1:
		n += r.IntN(4)
	}
	if n == 0 {
		return
	}
	var sb strings.Builder
	for i := 0; i < n; i++ {
		switch r.IntN(10) {
		case 0:
			sb.WriteByte('\t')
		case 1:
			sb.WriteByte('\n')
		case 2:
			sb.WriteString("\r\n")
		default:
			sb.WriteByte(' ')
		}
	}
	g.tok(KSpace, sb.String())
}

// comment maybe appends one comment (the parser skips at most one comment at each place).
func (g *G) comment() {
	if g.Style.Plain || g.R.IntN(12) != 0 {
		return
	}
	body := []string{"c", "note", "x y z", "", "1 2 3", "a-b", "item 4"}[g.R.IntN(7)]
	if g.R.IntN(2) == 0 {
		g.tok(KComment, "// "+body+"\n")
	} else {
		g.tok(KComment, "/* "+body+" */")
	}
}

// Message appends one message.
func (g *G) Message(m Msg) {
	r := g.R
	g.fc = 0xFF
	if !g.Style.Plain && r.IntN(10) == 0 {
		g.comment()
		g.ws(0)
	}
	if m.Name != "" {
		g.tok(KName, m.Name+":")
		g.ws(0)
	}
	q := ""
	if !g.Style.Plain || r.IntN(2) == 0 {
		q = []string{"", "", "'", "\""}[r.IntN(4)]
	}
	g.tok(KHeader, fmt.Sprintf("%sS%dF%d%s", q, m.Stream, m.Function, q))
	if m.W {
		if g.Style.Plain || r.IntN(4) != 0 {
			g.tok(KSpace, " ")
		}
		g.tok(KWbit, "W")
	}
	// header line end: newline (the encoder's form) mostly; sometimes only a space
	if g.Style.Plain || r.IntN(6) != 0 {
		g.tok(KSpace, "\n")
	} else {
		g.tok(KSpace, " ")
	}
	if m.Body != nil {
		g.comment()
		g.Item(m.Body)
		g.ws(0)
	}
	g.fc = 0xFF
	g.tok(KDot, ".")
	if g.Style.Plain || r.IntN(3) != 0 {
		g.tok(KSpace, "\n")
	}
}

var typeNames = map[uint8]string{
	e5.List: "L", e5.Binary: "B", e5.Boolean: "BOOLEAN", e5.ASCII: "A", e5.JIS8: "J", e5.Localized: "W",
	e5.I1: "I1", e5.I2: "I2", e5.I4: "I4", e5.I8: "I8", e5.U1: "U1", e5.U2: "U2", e5.U4: "U4", e5.U8: "U8", e5.F4: "F4", e5.F8: "F8",
}

// TypeName returns the SML type token of a format code.
func TypeName(fc uint8) string { return typeNames[fc] }

func (g *G) sizeHint(count int) {
	r := g.R
	if r.IntN(3) == 0 {
		return // no hint
	}
	var s string
	switch r.IntN(8) {
	case 0:
		s = fmt.Sprintf("%d..%d", r.IntN(count+1), count+r.IntN(3))
	case 1:
		s = fmt.Sprintf("..%d", count+r.IntN(3))
	case 2:
		s = fmt.Sprintf("%d..", count)
	case 3:
		s = strconv.Itoa(r.IntN(count + 4)) // a hint that does not match the content
	default:
		s = strconv.Itoa(count)
	}
	if !g.Style.Plain && r.IntN(8) == 0 {
		g.ws(1)
	}
	g.tok(KSizeOpen, "[")
	if !g.Style.Plain && r.IntN(8) == 0 {
		g.tok(KSpace, " ")
	}
	g.tok(KSize, s)
	if !g.Style.Plain && r.IntN(8) == 0 {
		g.tok(KSpace, " ")
	}
	g.tok(KSizeClose, "]")
}

// Item appends one item (recursively).
func (g *G) Item(n *e5.Node) {
	r := g.R
	saved := g.fc
	g.fc = n.FC
	defer func() { g.fc = saved }()
	g.tok(KOpen, "<")
	if !g.Style.Plain && r.IntN(10) == 0 {
		g.tok(KSpace, " ")
	}
	name := typeNames[n.FC]
	if !g.Style.Plain && r.IntN(5) == 0 {
		name = strings.ToLower(name)
	}
	g.tok(KType, name)
	cnt := n.Count()
	if n.FC == e5.Localized {
		cnt = len(n.Bytes)
	}
	if g.Style.Plain {
		if n.FC != e5.Localized {
			g.tok(KSizeOpen, "[")
			g.tok(KSize, strconv.Itoa(cnt))
			g.tok(KSizeClose, "]")
		}
	} else {
		g.sizeHint(cnt)
	}
	switch n.FC {
	case e5.List:
		if len(n.Kids) == 0 {
			g.ws(0)
		} else {
			g.ws(1)
			g.comment()
		}
		for _, k := range n.Kids {
			g.ws(0)
			g.Item(k)
			if !g.Style.Plain && r.IntN(3) != 0 {
				g.ws(1)
			}
			g.comment()
		}
		g.ws(0)
	case e5.ASCII:
		g.tok(KSpace, " ") // "<B" / "<A" must be followed by a space or '['
		if g.Style.Strict {
			g.asciiStrict(n.Bytes)
		} else {
			g.quoted(n.Bytes)
		}
	case e5.JIS8, e5.Localized:
		g.tok(KSpace, " ")
		if len(n.Bytes) == 0 && r.IntN(2) == 0 {
			break // <J> / <W>
		}
		g.quoted(n.Bytes)
	default:
		// numeric / boolean / binary values separated by whitespace
		g.tok(KSpace, " ")
		for i := 0; i < n.Count(); i++ {
			if i > 0 {
				g.ws(1)
			}
			g.tok(KValue, g.value(n, i))
		}
		g.ws(0)
	}
	g.tok(KClose, ">")
}

// quoted appends one raw quoted string; the closing quote is directly followed by '>' as the
// JIS-8 / localized grammar of the parser requires.
func (g *G) quoted(b []byte) {
	q := "\""
	if !g.Style.Plain && g.R.IntN(3) == 0 {
		q = "'"
	}
	g.tok(KString, q+string(b)+q)
}

func (g *G) byteToken(c byte) string {
	if g.Style.Plain {
		return fmt.Sprintf("0x%02X", c)
	}
	switch g.R.IntN(6) {
	case 0:
		return strconv.Itoa(int(c))
	case 1:
		return fmt.Sprintf("0x%02x", c)
	case 2:
		return "0b" + strconv.FormatUint(uint64(c), 2)
	case 3:
		return "0o" + strconv.FormatUint(uint64(c), 8)
	}

	return fmt.Sprintf("0x%02X", c)
}

// asciiStrict renders bytes as quoted printable runs and numeric byte tokens, separated by single
// spaces (the only separator the strict grammar knows inside an ASCII item).
func (g *G) asciiStrict(b []byte) {
	r := g.R
	q := byte('"')
	if !g.Style.Plain && r.IntN(3) == 0 {
		q = '\''
	}
	if len(b) == 0 {
		switch {
		case g.Style.Plain || r.IntN(2) == 0:
			g.tok(KString, string([]byte{q, q}))
		default:
			// <A > : nothing
		}

		return
	}
	first := true
	sep := func() {
		if !first {
			g.tok(KSpace, " ")
		}
		first = false
	}
	i := 0
	for i < len(b) {
		c := b[i]
		printable := c >= 0x20 && c < 0x7f
		asToken := !printable || (!g.Style.Plain && r.IntN(12) == 0)
		if asToken {
			sep()
			g.tok(KValue, g.byteToken(c))
			i++

			continue
		}
		// a run of printable bytes; sometimes split early
		var sb strings.Builder
		sb.WriteByte(q)
		for i < len(b) && b[i] >= 0x20 && b[i] < 0x7f {
			c = b[i]
			switch {
			case c == q || c == '\\' || c == '>':
				sb.WriteByte('\\')
				sb.WriteByte(c)
			case !g.Style.Plain && c >= 'a' && c <= 'z' && r.IntN(40) == 0:
				sb.WriteByte('\\') // gratuitous escape: the backslash is dropped by the grammar
				sb.WriteByte(c)
			default:
				sb.WriteByte(c)
			}
			i++
			if !g.Style.Plain && r.IntN(10) == 0 {
				break
			}
		}
		sb.WriteByte(q)
		sep()
		g.tok(KString, sb.String())
	}
	if !g.Style.Plain && r.IntN(4) == 0 {
		g.tok(KSpace, " ")
	}
}

func (g *G) value(n *e5.Node, i int) string {
	r := g.R
	plain := g.Style.Plain
	switch n.FC {
	case e5.Binary:
		return g.byteToken(n.Bytes[i])
	case e5.Boolean:
		t := n.Bytes[i] != 0
		if plain {
			if t {
				return "True"
			}

			return "False"
		}
		if t {
			return []string{"True", "T", "true", "TRUE", "t"}[r.IntN(5)]
		}

		return []string{"False", "F", "false", "FALSE", "f"}[r.IntN(5)]
	case e5.I1, e5.I2, e5.I4, e5.I8:
		v := n.Ints[i]
		if plain {
			return strconv.FormatInt(v, 10)
		}
		mag := uint64(v)
		sign := ""
		if v < 0 {
			mag = uint64(-(v + 1)) + 1
			sign = "-"
		} else if r.IntN(10) == 0 {
			sign = "+"
		}

		return sign + g.ubase(mag)
	case e5.U1, e5.U2, e5.U4, e5.U8:
		if plain {
			return strconv.FormatUint(n.Uints[i], 10)
		}

		return g.ubase(n.Uints[i])
	case e5.F4, e5.F8:
		bits := 64
		var f float64
		if n.FC == e5.F4 {
			bits = 32
			f = float64(math.Float32frombits(uint32(n.Bits[i])))
		} else {
			f = math.Float64frombits(n.Bits[i])
		}
		if f != f {
			if plain {
				return "NaN"
			}

			return []string{"NaN", "nan", "NAN"}[r.IntN(3)]
		}
		if math.IsInf(f, 1) {
			if plain {
				return "+Inf"
			}

			return []string{"+Inf", "Inf", "inf", "+infinity", "Infinity"}[r.IntN(5)]
		}
		if math.IsInf(f, -1) {
			if plain {
				return "-Inf"
			}

			return []string{"-Inf", "-inf", "-Infinity"}[r.IntN(3)]
		}
		if plain {
			return strconv.FormatFloat(f, 'g', -1, bits)
		}
		switch r.IntN(6) {
		case 0:
			return strconv.FormatFloat(f, 'e', -1, bits)
		case 1:
			return strconv.FormatFloat(f, 'x', -1, bits)
		case 2:
			if bits == 64 {
				return strconv.FormatFloat(f, 'G', 17, bits)
			}

			return strconv.FormatFloat(f, 'G', 9, bits)
		case 3:
			if f == math.Trunc(f) && math.Abs(f) < 1e15 {
				return strconv.FormatFloat(f, 'f', 1, bits)
			}
		}

		return strconv.FormatFloat(f, 'g', -1, bits)
	}

	return "?"
}

func (g *G) ubase(v uint64) string {
	switch g.R.IntN(9) {
	case 0:
		return "0x" + strconv.FormatUint(v, 16)
	case 1:
		return "0X" + strings.ToUpper(strconv.FormatUint(v, 16))
	case 2:
		return "0o" + strconv.FormatUint(v, 8)
	case 3:
		return "0b" + strconv.FormatUint(v, 2)
	case 4:
		if v >= 1000 {
			s := strconv.FormatUint(v, 10)
			return s[:len(s)-3] + "_" + s[len(s)-3:]
		}
	}

	return strconv.FormatUint(v, 10)
}

// ---------------------------------------------------------------------------------------------
// text alphabets of C13

// PermittedJIS8 reports whether c belongs to the JIS-8 alphabet the round-trip property permits:
// no quote, backslash, angle bracket or control character. Bytes 0x80..0x9F (C1 controls in the
// ISO 8-bit code structure, unassigned in JIS X 0201) are treated as control characters.
func PermittedJIS8(c byte) bool {
	switch c {
	case '"', '\'', '\\', '<', '>':
		return false
	}

	return (c >= 0x20 && c < 0x7f) || c >= 0xa0
}

// PermittedRune reports whether r is permitted in localized text: no quote, backslash, angle
// bracket or control character (Unicode category Cc).
func PermittedRune(r rune) bool {
	switch r {
	case '"', '\'', '\\', '<', '>':
		return false
	}

	return !unicode.IsControl(r)
}

// PermittedLocalized reports whether the byte string is permitted localized text. Bytes that are
// not valid UTF-8 are judged as 8-bit characters (a localized string may be in any character set
// named by its header) with the JIS-8 rule above.
func PermittedLocalized(s []byte) bool {
	for len(s) > 0 {
		r, n := utf8.DecodeRune(s)
		if r == utf8.RuneError && n == 1 {
			if !PermittedJIS8(s[0]) {
				return false
			}
		} else if !PermittedRune(r) {
			return false
		}
		s = s[n:]
	}

	return true
}

// PermittedJIS8Text reports whether every byte is permitted JIS-8 text.
func PermittedJIS8Text(s []byte) bool {
	for _, c := range s {
		if !PermittedJIS8(c) {
			return false
		}
	}

	return true
}

// printable runes for localized text (all satisfy strconv.IsPrint)
var printableRunes = []rune("abcxyzABC019 _-+=.,:;!?#$%&()*/@[]^`{|}~éßñÅøĀžΩπЖяאبहกあア日本語中文한국어€£¥©®±×÷√∞≈≠…—“”‘’•★😀🚀𝒜")

// nonPrintableRunes: NOT control characters (category Cc) but not printable either in the sense of
// strconv.IsPrint: no-break space, soft hyphen, zero-width space/joiner, BOM, line/paragraph
// separator, other Unicode spaces, private use, unassigned, tag characters, non-characters.
var nonPrintableRunes = []rune{0x00A0, 0x00AD, 0x200B, 0x200D, 0xFEFF, 0x2028, 0x2029, 0x2003, 0x3000, 0xE000, 0x0378, 0xE0001, 0xFFFE, 0x061C, 0x2060}

// NonPrintableRunes returns the non-control, non-printable runes used by the generator.
func NonPrintableRunes() []rune { return nonPrintableRunes }

// LocalizedText draws n runes of permitted localized text. class 0: printable runes only;
// class 1: also non-control runes that Go's strconv.IsPrint rejects; class 2: also 8-bit bytes
// 0xA0..0xFF that are not valid UTF-8 (text in a non-UTF-8 character set).
func LocalizedText(r *rand.Rand, n, class int) []byte {
	var out []byte
	for i := 0; i < n; i++ {
		switch {
		case class == 1 && r.IntN(4) == 0:
			out = utf8.AppendRune(out, nonPrintableRunes[r.IntN(len(nonPrintableRunes))])
		case class == 2 && r.IntN(4) == 0:
			out = append(out, byte(0xa0+r.IntN(0x60)))
			// keep it invalid: follow with an ASCII byte so that it cannot start a valid sequence
			out = append(out, byte('a'+r.IntN(26)))
		default:
			out = utf8.AppendRune(out, printableRunes[r.IntN(len(printableRunes))])
		}
	}

	return out
}

// JIS8Text draws n bytes of permitted JIS-8 text.
func JIS8Text(r *rand.Rand, n int) []byte {
	out := make([]byte, n)
	for i := range out {
		for {
			var c byte
			switch r.IntN(4) {
			case 0:
				c = byte(0xa0 + r.IntN(0x60))
			case 1:
				const punct = " .,:;[]/*-+0x9"
				c = punct[r.IntN(len(punct))]
			default:
				c = byte(0x20 + r.IntN(0x5f))
			}
			if PermittedJIS8(c) {
				out[i] = c

				break
			}
		}
	}

	return out
}

// Sanitize rewrites (in place) every JIS-8 / localized leaf of the tree whose text is outside the
// permitted alphabet with freshly drawn permitted text of the same length class.
func Sanitize(r *rand.Rand, n *e5.Node, locClass int) {
	switch n.FC {
	case e5.List:
		for _, k := range n.Kids {
			Sanitize(r, k, locClass)
		}
	case e5.JIS8:
		if !PermittedJIS8Text(n.Bytes) {
			n.Bytes = JIS8Text(r, len(n.Bytes))
		}
	case e5.Localized:
		if !PermittedLocalized(n.Bytes) || !printableOnly(n.Bytes) {
			n.Bytes = LocalizedText(r, (len(n.Bytes)+1)/2, locClass)
		}
	}
}

func printableOnly(s []byte) bool {
	for len(s) > 0 {
		r, n := utf8.DecodeRune(s)
		if (r == utf8.RuneError && n == 1) || !strconv.IsPrint(r) {
			return false
		}
		s = s[n:]
	}

	return true
}
