// Package gen holds the seeded case generators shared by the checks: SECS-II value trees
// (as reference-model nodes) together with randomly chosen *construction recipes* that build
// the same logical value through the library's public constructors in every argument shape.
package gen

import (
	"fmt"
	"math"
	"math/rand/v2"
	"strconv"

	"github.com/arloliu/go-secs/v2/secs2"

	"verif/ref/e5"
)

// LeafCodes are the 15 non-list format codes.
var LeafCodes = []uint8{e5.Binary, e5.Boolean, e5.ASCII, e5.JIS8, e5.Localized, e5.I1, e5.I2, e5.I4, e5.I8, e5.U1, e5.U2, e5.U4, e5.U8, e5.F4, e5.F8}

func intBounds(w int) (int64, int64) {
	if w == 8 {
		return math.MinInt64, math.MaxInt64
	}
	s := uint(w*8 - 1)

	return -1 << s, 1<<s - 1
}

func uintMax(w int) uint64 {
	if w == 8 {
		return math.MaxUint64
	}

	return 1<<uint(w*8) - 1
}

// IntValue draws a signed value that fits width w, biased to the edges.
func IntValue(r *rand.Rand, w int) int64 {
	lo, hi := intBounds(w)
	switch r.IntN(12) {
	case 0:
		return lo
	case 1:
		return hi
	case 2:
		return lo + 1
	case 3:
		return hi - 1
	case 4:
		return 0
	case 5:
		return -1
	case 6:
		return 1
	case 7:
		return int64(r.IntN(256)) - 128
	}
	if w == 8 {
		return int64(r.Uint64())
	}
	span := uint64(hi-lo) + 1

	return lo + int64(r.Uint64N(span))
}

// UintValue draws an unsigned value that fits width w, biased to the edges.
func UintValue(r *rand.Rand, w int) uint64 {
	hi := uintMax(w)
	switch r.IntN(10) {
	case 0:
		return 0
	case 1:
		return hi
	case 2:
		return hi - 1
	case 3:
		return 1
	case 4:
		return hi/2 + 1 // sign-bit set
	case 5:
		return hi / 2
	case 6:
		return uint64(r.IntN(256)) & hi
	}
	if w == 8 {
		return r.Uint64()
	}

	return r.Uint64N(hi + 1)
}

var f64Edges = []uint64{
	0, 1 << 63, // ±0
	0x7FF0000000000000, 0xFFF0000000000000, // ±Inf
	0x7FF8000000000000, 0x7FF8000000000001, 0xFFF8000000000000, 0x7FF0000000000001, // NaNs (quiet, payload, negative, signalling)
	1, 0x000FFFFFFFFFFFFF, 0x0010000000000000, // subnormals, min normal
	0x7FEFFFFFFFFFFFFF, 0xFFEFFFFFFFFFFFFF, // ±max
	0x3FF0000000000000, 0xBFF0000000000000, 0x3FB999999999999A, 0x4340000000000000, 0x4340000000000001,
}

var f32Edges = []uint32{
	0, 1 << 31, 0x7F800000, 0xFF800000, 0x7FC00000, 0x7FC00001, 0xFFC00000, 0x7F800001,
	1, 0x007FFFFF, 0x00800000, 0x7F7FFFFF, 0xFF7FFFFF, 0x3F800000, 0xBF800000, 0x3DCCCCCD, 0x4B800000,
}

// F8Bits draws float64 bits.
func F8Bits(r *rand.Rand) uint64 {
	if r.IntN(3) == 0 {
		return f64Edges[r.IntN(len(f64Edges))]
	}
	if r.IntN(3) == 0 {
		return math.Float64bits(float64(r.IntN(2000)-1000) / 8)
	}

	return r.Uint64()
}

// F4Bits draws float32 bits.
func F4Bits(r *rand.Rand) uint32 {
	if r.IntN(3) == 0 {
		return f32Edges[r.IntN(len(f32Edges))]
	}
	if r.IntN(3) == 0 {
		return math.Float32bits(float32(r.IntN(2000)-1000) / 8)
	}

	return r.Uint32()
}

const hostileBytes = "\"'\\<>[]. \n\t\x00\x7f\x80\xffaZ09"

// Text draws n arbitrary bytes, biased to printable ASCII with hostile bytes mixed in.
func Text(r *rand.Rand, n int) []byte {
	b := make([]byte, n)
	mode := r.IntN(4)
	for i := range b {
		switch mode {
		case 0:
			b[i] = byte(0x20 + r.IntN(0x5f))
		case 1:
			b[i] = byte(r.IntN(256))
		case 2:
			b[i] = hostileBytes[r.IntN(len(hostileBytes))]
		default:
			if r.IntN(5) == 0 {
				b[i] = byte(r.IntN(256))
			} else {
				b[i] = byte('a' + r.IntN(26))
			}
		}
	}

	return b
}

// Leaf builds a random leaf node of format fc with count elements (for Localized: count text bytes).
func Leaf(r *rand.Rand, fc uint8, count int) *e5.Node {
	n := &e5.Node{FC: fc}
	w := e5.Width(fc)
	switch fc {
	case e5.Binary:
		n.Bytes = Text(r, count)
		if r.IntN(2) == 0 {
			for i := range n.Bytes {
				n.Bytes[i] = byte(r.IntN(256))
			}
		}
	case e5.Boolean:
		n.Bytes = make([]byte, count)
		for i := range n.Bytes {
			n.Bytes[i] = byte(r.IntN(2))
		}
	case e5.ASCII, e5.JIS8:
		n.Bytes = Text(r, count)
	case e5.Localized:
		n.Bytes = Text(r, count)
		switch r.IntN(4) {
		case 0:
			n.LSH = 2
		case 1:
			n.LSH = uint16(r.IntN(15))
		case 2:
			n.LSH = uint16(r.IntN(65536))
		default:
			n.LSH = []uint16{0, 1, 0x00FF, 0xFF00, 0x0102, 0xFFFF}[r.IntN(6)]
		}
	case e5.I1, e5.I2, e5.I4, e5.I8:
		n.Ints = make([]int64, count)
		for i := range n.Ints {
			n.Ints[i] = IntValue(r, w)
		}
	case e5.U1, e5.U2, e5.U4, e5.U8:
		n.Uints = make([]uint64, count)
		for i := range n.Uints {
			n.Uints[i] = UintValue(r, w)
		}
	case e5.F4:
		n.Bits = make([]uint64, count)
		for i := range n.Bits {
			n.Bits[i] = uint64(F4Bits(r))
		}
	case e5.F8:
		n.Bits = make([]uint64, count)
		for i := range n.Bits {
			n.Bits[i] = F8Bits(r)
		}
	}

	return n
}

// SmallCount draws an element count: 0,1,2 heavily, sometimes up to 40.
func SmallCount(r *rand.Rand) int {
	switch r.IntN(8) {
	case 0:
		return 0
	case 1, 2:
		return 1
	case 3:
		return 2
	case 4:
		return 3 + r.IntN(6)
	case 5:
		return r.IntN(40)
	}

	return r.IntN(5)
}

// BoundaryCounts returns the element counts that put the payload byte length of format fc at
// the length-field boundaries 255/256 and 65535/65536 (the nearest counts on both sides).
func BoundaryCounts(fc uint8) []int {
	w := e5.Width(fc)
	var out []int
	for _, b := range []int{255, 256, 65535, 65536} {
		adj := 0
		if fc == e5.Localized {
			adj = 2 // payload = text + 2
		}
		lo := (b - adj) / w
		out = append(out, lo, lo+1)
		if lo > 0 {
			out = append(out, lo-1)
		}
	}

	return out
}

// Tree draws a random tree. budget bounds the number of nodes; maxDepth the list nesting.
func Tree(r *rand.Rand, budget *int, depth, maxDepth int) *e5.Node {
	*budget--
	if depth >= maxDepth || *budget <= 0 || r.IntN(3) != 0 {
		return Leaf(r, LeafCodes[r.IntN(len(LeafCodes))], SmallCount(r))
	}
	n := &e5.Node{FC: e5.List}
	k := SmallCount(r)
	if r.IntN(6) == 0 {
		k = 5 + r.IntN(30)
	}
	for i := 0; i < k && *budget > 0; i++ {
		n.Kids = append(n.Kids, Tree(r, budget, depth+1, maxDepth))
	}

	return n
}

// Chain builds a list nested exactly depth deep (depth>=1) with a leaf at the bottom; each level
// gets a few sibling leaves with probability.
func Chain(r *rand.Rand, depth int) *e5.Node {
	var cur *e5.Node
	if r.IntN(2) == 0 {
		cur = Leaf(r, LeafCodes[r.IntN(len(LeafCodes))], SmallCount(r))
	}
	for d := 0; d < depth; d++ {
		l := &e5.Node{FC: e5.List}
		if cur != nil {
			l.Kids = append(l.Kids, cur)
		}
		if r.IntN(4) == 0 {
			l.Kids = append(l.Kids, Leaf(r, LeafCodes[r.IntN(len(LeafCodes))], SmallCount(r)))
		}
		cur = l
	}

	return cur
}

// ManyLeaves builds a flat list of k single-element leaves of the same format (decoder slab
// boundary crossing: 1,5,21,85,213,341 per type).
func ManyLeaves(r *rand.Rand, fc uint8, k int) *e5.Node {
	l := &e5.Node{FC: e5.List}
	for i := 0; i < k; i++ {
		c := 1
		if fc == e5.ASCII || fc == e5.JIS8 || fc == e5.Binary || fc == e5.Localized {
			c = r.IntN(4)
		}
		l.Kids = append(l.Kids, Leaf(r, fc, c))
	}

	return l
}

// ---------------------------------------------------------------------------------------------
// construction recipes

// Build constructs n through the public constructors with randomly chosen argument shapes and
// returns the item plus a textual recipe. It never produces out-of-range arguments (clamping is
// a different property), so the logical value of the item must be exactly n.
func Build(r *rand.Rand, n *e5.Node) (secs2.Item, string) {
	switch n.FC {
	case e5.List:
		kids := make([]secs2.Item, 0, len(n.Kids)+2)
		rec := "L("
		for i, k := range n.Kids {
			if r.IntN(16) == 0 {
				kids = append(kids, nil) // documented: nil children are skipped
				rec += "nil,"
			}
			it, kr := Build(r, k)
			kids = append(kids, it)
			if i < 4 {
				rec += kr + ","
			}
		}
		if len(n.Kids) > 4 {
			rec += "…"
		}
		if r.IntN(2) == 0 {
			return secs2.L(kids...), rec + ")"
		}

		return secs2.NewListItem(kids...), "New" + rec + ")"
	case e5.ASCII:
		if r.IntN(2) == 0 {
			return secs2.A(string(n.Bytes)), "A(str)"
		}

		return secs2.NewASCIIItem(string(n.Bytes)), "NewASCIIItem(str)"
	case e5.JIS8:
		if r.IntN(2) == 0 {
			return secs2.J(string(n.Bytes)), "J(str)"
		}

		return secs2.NewJIS8Item(string(n.Bytes)), "NewJIS8Item(str)"
	case e5.Localized:
		if n.LSH == 2 && r.IntN(2) == 0 {
			if r.IntN(2) == 0 {
				return secs2.W(string(n.Bytes)), "W(str)"
			}

			return secs2.NewUTF8StrItem(string(n.Bytes)), "NewUTF8StrItem(str)"
		}

		return secs2.NewLocalizedStrItem(n.LSH, string(n.Bytes)), fmt.Sprintf("NewLocalizedStrItem(%d,str)", n.LSH)
	case e5.Binary:
		args, rec := binaryArgs(r, n.Bytes)
		if r.IntN(2) == 0 {
			return secs2.B(args...), "B(" + rec + ")"
		}

		return secs2.NewBinaryItem(args...), "NewBinaryItem(" + rec + ")"
	case e5.Boolean:
		args, rec := boolArgs(r, n.Bytes)
		if r.IntN(2) == 0 {
			return secs2.BOOLEAN(args...), "BOOLEAN(" + rec + ")"
		}

		return secs2.NewBooleanItem(args...), "NewBooleanItem(" + rec + ")"
	case e5.I1, e5.I2, e5.I4, e5.I8:
		w := e5.Width(n.FC)
		args, rec := IntArgs(r, n.Ints)
		if r.IntN(2) == 0 {
			return []func(...any) secs2.Item{1: secs2.I1, 2: secs2.I2, 4: secs2.I4, 8: secs2.I8}[w](args...), fmt.Sprintf("I%d(%s)", w, rec)
		}

		return secs2.NewIntItem(w, args...), fmt.Sprintf("NewIntItem(%d,%s)", w, rec)
	case e5.U1, e5.U2, e5.U4, e5.U8:
		w := e5.Width(n.FC)
		args, rec := UintArgs(r, n.Uints)
		if r.IntN(2) == 0 {
			return []func(...any) secs2.Item{1: secs2.U1, 2: secs2.U2, 4: secs2.U4, 8: secs2.U8}[w](args...), fmt.Sprintf("U%d(%s)", w, rec)
		}

		return secs2.NewUintItem(w, args...), fmt.Sprintf("NewUintItem(%d,%s)", w, rec)
	case e5.F4, e5.F8:
		w := e5.Width(n.FC)
		args, rec := floatArgs(r, n)
		if r.IntN(2) == 0 {
			if w == 4 {
				return secs2.F4(args...), "F4(" + rec + ")"
			}

			return secs2.F8(args...), "F8(" + rec + ")"
		}

		return secs2.NewFloatItem(w, args...), fmt.Sprintf("NewFloatItem(%d,%s)", w, rec)
	}
	panic("gen.Build: bad node")
}

func fitsI(v int64, bits uint) bool {
	return v >= -(1<<(bits-1)) && v <= 1<<(bits-1)-1
}

func fitsU(v uint64, bits uint) bool { return bits == 64 || v < 1<<bits }

// intScalar renders v as a randomly chosen Go scalar type (or numeric string) that holds it exactly.
func intScalar(r *rand.Rand, v int64) (any, string) {
	for {
		switch r.IntN(14) {
		case 0:
			return int(v), "int"
		case 1:
			return v, "int64"
		case 2:
			if fitsI(v, 8) {
				return int8(v), "int8"
			}
		case 3:
			if fitsI(v, 16) {
				return int16(v), "int16"
			}
		case 4:
			if fitsI(v, 32) {
				return int32(v), "int32"
			}
		case 5:
			if v >= 0 {
				return uint(v), "uint"
			}
		case 6:
			if v >= 0 {
				return uint64(v), "uint64"
			}
		case 7:
			if v >= 0 && fitsU(uint64(v), 8) {
				return uint8(v), "uint8"
			}
		case 8:
			if v >= 0 && fitsU(uint64(v), 16) {
				return uint16(v), "uint16"
			}
		case 9:
			if v >= 0 && fitsU(uint64(v), 32) {
				return uint32(v), "uint32"
			}
		case 10:
			return strconv.FormatInt(v, 10), "dec-str"
		case 11:
			return signedBase(v, 16, "0x"), "hex-str"
		case 12:
			if r.IntN(2) == 0 {
				return signedBase(v, 8, "0o"), "0o-str"
			}

			return signedBase(v, 8, "0"), "oct-str"
		case 13:
			return signedBase(v, 2, "0b"), "bin-str"
		}
	}
}

func signedBase(v int64, base int, prefix string) string {
	if v < 0 {
		// magnitude via uint64 to cover MinInt64
		return "-" + prefix + strconv.FormatUint(uint64(-(v+1))+1, base)
	}

	return prefix + strconv.FormatUint(uint64(v), base)
}

// IntArgs renders values as a constructor argument list in a random shape.
func IntArgs(r *rand.Rand, vals []int64) ([]any, string) {
	if len(vals) == 0 {
		switch r.IntN(4) {
		case 0:
			return nil, "no-args"
		case 1:
			return []any{[]int64{}}, "[]int64{}"
		case 2:
			return []any{[]int{}}, "[]int{}"
		default:
			return []any{[]string{}}, "[]string{}"
		}
	}
	switch r.IntN(3) {
	case 0: // all scalars
		args := make([]any, len(vals))
		rec := "scalars:"
		for i, v := range vals {
			var t string
			args[i], t = intScalar(r, v)
			if i < 3 {
				rec += t + ","
			}
		}

		return args, rec
	case 1: // one slice
		a, t := intSlice(r, vals)

		return []any{a}, t
	default: // mixed
		var args []any
		rec := "mixed:"
		for i := 0; i < len(vals); {
			if r.IntN(2) == 0 {
				a, t := intScalar(r, vals[i])
				args = append(args, a)
				rec += t + ","
				i++
			} else {
				k := 1 + r.IntN(len(vals)-i)
				a, t := intSlice(r, vals[i:i+k])
				args = append(args, a)
				rec += t + ","
				i += k
			}
			if len(rec) > 80 {
				rec = rec[:80]
			}
		}

		return args, rec
	}
}

func intSlice(r *rand.Rand, vals []int64) (any, string) {
	allFitI := func(b uint) bool {
		for _, v := range vals {
			if !fitsI(v, b) {
				return false
			}
		}

		return true
	}
	allFitU := func(b uint) bool {
		for _, v := range vals {
			if v < 0 || !fitsU(uint64(v), b) {
				return false
			}
		}

		return true
	}
	for {
		switch r.IntN(11) {
		case 0:
			out := make([]int, len(vals))
			for i, v := range vals {
				out[i] = int(v)
			}

			return out, "[]int"
		case 1:
			return append([]int64{}, vals...), "[]int64"
		case 2:
			if allFitI(8) {
				out := make([]int8, len(vals))
				for i, v := range vals {
					out[i] = int8(v)
				}

				return out, "[]int8"
			}
		case 3:
			if allFitI(16) {
				out := make([]int16, len(vals))
				for i, v := range vals {
					out[i] = int16(v)
				}

				return out, "[]int16"
			}
		case 4:
			if allFitI(32) {
				out := make([]int32, len(vals))
				for i, v := range vals {
					out[i] = int32(v)
				}

				return out, "[]int32"
			}
		case 5:
			if allFitU(64) {
				out := make([]uint, len(vals))
				for i, v := range vals {
					out[i] = uint(v)
				}

				return out, "[]uint"
			}
		case 6:
			if allFitU(64) {
				out := make([]uint64, len(vals))
				for i, v := range vals {
					out[i] = uint64(v)
				}

				return out, "[]uint64"
			}
		case 7:
			if allFitU(8) {
				out := make([]uint8, len(vals))
				for i, v := range vals {
					out[i] = uint8(v)
				}

				return out, "[]uint8"
			}
		case 8:
			if allFitU(16) {
				out := make([]uint16, len(vals))
				for i, v := range vals {
					out[i] = uint16(v)
				}

				return out, "[]uint16"
			}
		case 9:
			if allFitU(32) {
				out := make([]uint32, len(vals))
				for i, v := range vals {
					out[i] = uint32(v)
				}

				return out, "[]uint32"
			}
		case 10:
			out := make([]string, len(vals))
			for i, v := range vals {
				s, _ := intScalarString(r, v)
				out[i] = s
			}

			return out, "[]string"
		}
	}
}

func intScalarString(r *rand.Rand, v int64) (string, string) {
	switch r.IntN(4) {
	case 0:
		return strconv.FormatInt(v, 10), "dec"
	case 1:
		return signedBase(v, 16, "0x"), "hex"
	case 2:
		return signedBase(v, 8, "0"), "oct"
	}

	return signedBase(v, 2, "0b"), "bin"
}

func uintScalar(r *rand.Rand, v uint64) (any, string) {
	for {
		switch r.IntN(13) {
		case 0:
			return uint(v), "uint"
		case 1:
			return v, "uint64"
		case 2:
			if fitsU(v, 8) {
				return uint8(v), "uint8"
			}
		case 3:
			if fitsU(v, 16) {
				return uint16(v), "uint16"
			}
		case 4:
			if fitsU(v, 32) {
				return uint32(v), "uint32"
			}
		case 5:
			if v <= math.MaxInt64 {
				return int(v), "int"
			}
		case 6:
			if v <= math.MaxInt64 {
				return int64(v), "int64"
			}
		case 7:
			if v <= math.MaxInt8 {
				return int8(v), "int8"
			}
		case 8:
			if v <= math.MaxInt16 {
				return int16(v), "int16"
			}
		case 9:
			if v <= math.MaxInt32 {
				return int32(v), "int32"
			}
		case 10:
			return strconv.FormatUint(v, 10), "dec-str"
		case 11:
			return "0x" + strconv.FormatUint(v, 16), "hex-str"
		case 12:
			if r.IntN(2) == 0 {
				return "0" + strconv.FormatUint(v, 8), "oct-str"
			}

			return "0b" + strconv.FormatUint(v, 2), "bin-str"
		}
	}
}

// UintArgs renders values as a constructor argument list in a random shape.
func UintArgs(r *rand.Rand, vals []uint64) ([]any, string) {
	if len(vals) == 0 {
		switch r.IntN(3) {
		case 0:
			return nil, "no-args"
		case 1:
			return []any{[]uint64{}}, "[]uint64{}"
		default:
			return []any{[]uint8{}}, "[]uint8{}"
		}
	}
	switch r.IntN(3) {
	case 0:
		args := make([]any, len(vals))
		rec := "scalars:"
		for i, v := range vals {
			var t string
			args[i], t = uintScalar(r, v)
			if i < 3 {
				rec += t + ","
			}
		}

		return args, rec
	case 1:
		a, t := uintSlice(r, vals)

		return []any{a}, t
	default:
		var args []any
		rec := "mixed:"
		for i := 0; i < len(vals); {
			if r.IntN(2) == 0 {
				a, t := uintScalar(r, vals[i])
				args = append(args, a)
				rec += t + ","
				i++
			} else {
				k := 1 + r.IntN(len(vals)-i)
				a, t := uintSlice(r, vals[i:i+k])
				args = append(args, a)
				rec += t + ","
				i += k
			}
			if len(rec) > 80 {
				rec = rec[:80]
			}
		}

		return args, rec
	}
}

func uintSlice(r *rand.Rand, vals []uint64) (any, string) {
	allFit := func(max uint64) bool {
		for _, v := range vals {
			if v > max {
				return false
			}
		}

		return true
	}
	for {
		switch r.IntN(11) {
		case 0:
			out := make([]uint, len(vals))
			for i, v := range vals {
				out[i] = uint(v)
			}

			return out, "[]uint"
		case 1:
			return append([]uint64{}, vals...), "[]uint64"
		case 2:
			if allFit(math.MaxUint8) {
				out := make([]uint8, len(vals))
				for i, v := range vals {
					out[i] = uint8(v)
				}

				return out, "[]uint8"
			}
		case 3:
			if allFit(math.MaxUint16) {
				out := make([]uint16, len(vals))
				for i, v := range vals {
					out[i] = uint16(v)
				}

				return out, "[]uint16"
			}
		case 4:
			if allFit(math.MaxUint32) {
				out := make([]uint32, len(vals))
				for i, v := range vals {
					out[i] = uint32(v)
				}

				return out, "[]uint32"
			}
		case 5:
			if allFit(math.MaxInt64) {
				out := make([]int, len(vals))
				for i, v := range vals {
					out[i] = int(v)
				}

				return out, "[]int"
			}
		case 6:
			if allFit(math.MaxInt64) {
				out := make([]int64, len(vals))
				for i, v := range vals {
					out[i] = int64(v)
				}

				return out, "[]int64"
			}
		case 7:
			if allFit(math.MaxInt8) {
				out := make([]int8, len(vals))
				for i, v := range vals {
					out[i] = int8(v)
				}

				return out, "[]int8"
			}
		case 8:
			if allFit(math.MaxInt16) {
				out := make([]int16, len(vals))
				for i, v := range vals {
					out[i] = int16(v)
				}

				return out, "[]int16"
			}
		case 9:
			if allFit(math.MaxInt32) {
				out := make([]int32, len(vals))
				for i, v := range vals {
					out[i] = int32(v)
				}

				return out, "[]int32"
			}
		case 10:
			out := make([]string, len(vals))
			for i, v := range vals {
				switch r.IntN(3) {
				case 0:
					out[i] = strconv.FormatUint(v, 10)
				case 1:
					out[i] = "0x" + strconv.FormatUint(v, 16)
				default:
					out[i] = "0o" + strconv.FormatUint(v, 8)
				}
			}

			return out, "[]string"
		}
	}
}

// floatScalar renders element i of n as a Go scalar that yields exactly that wire value.
func floatScalar(r *rand.Rand, n *e5.Node, i int) (any, string) {
	if n.FC == e5.F4 {
		f32 := math.Float32frombits(uint32(n.Bits[i]))
		f64 := float64(f32)
		for {
			switch r.IntN(5) {
			case 0:
				return f32, "float32"
			case 1:
				return f64, "float64(widened)"
			case 2:
				if f32 == f32 && !math.IsInf(f64, 0) {
					// exact decimal of the widened value: parses back to exactly f64, so the
					// float32 narrowing at encode time is exact (no double rounding)
					return strconv.FormatFloat(f64, 'g', -1, 64), "str"
				}
			case 3:
				if f64 == math.Trunc(f64) && math.Abs(f64) <= 1<<24 && !math.Signbit(f64) || (f64 < 0 && f64 == math.Trunc(f64) && f64 >= -(1<<24)) {
					return int(f64), "int"
				}
			case 4:
				if f64 == math.Trunc(f64) && f64 >= 0 && f64 <= 255 && !math.Signbit(f64) {
					return uint8(f64), "uint8"
				}
			}
		}
	}
	f64 := math.Float64frombits(n.Bits[i])
	for {
		switch r.IntN(7) {
		case 0, 1:
			return f64, "float64"
		case 2:
			if f64 == f64 && float64(float32(f64)) == f64 {
				return float32(f64), "float32"
			}
		case 3:
			if f64 == f64 && !math.IsInf(f64, 0) {
				return strconv.FormatFloat(f64, 'g', -1, 64), "str"
			}
		case 4:
			if f64 == math.Trunc(f64) && math.Abs(f64) <= 1<<53 && !(f64 == 0 && math.Signbit(f64)) {
				return int64(f64), "int64"
			}
		case 5:
			if f64 == math.Trunc(f64) && f64 >= 0 && f64 <= 1<<53 && !math.Signbit(f64) {
				return uint64(f64), "uint64"
			}
		case 6:
			if f64 == math.Trunc(f64) && math.Abs(f64) <= 127 && !(f64 == 0 && math.Signbit(f64)) {
				return int8(f64), "int8"
			}
		}
	}
}

func floatArgs(r *rand.Rand, n *e5.Node) ([]any, string) {
	cnt := len(n.Bits)
	if cnt == 0 {
		switch r.IntN(3) {
		case 0:
			return nil, "no-args"
		case 1:
			return []any{[]float64{}}, "[]float64{}"
		default:
			return []any{[]float32{}}, "[]float32{}"
		}
	}
	f64s := func(lo, hi int) []float64 {
		out := make([]float64, hi-lo)
		for i := lo; i < hi; i++ {
			out[i-lo] = n.Float(i)
		}

		return out
	}
	f32ok := func(lo, hi int) bool {
		for i := lo; i < hi; i++ {
			v := n.Float(i)
			if v != v || float64(float32(v)) != v {
				return false
			}
		}

		return true
	}
	f32s := func(lo, hi int) []float32 {
		out := make([]float32, hi-lo)
		for i := lo; i < hi; i++ {
			out[i-lo] = float32(n.Float(i))
		}

		return out
	}
	slice := func(lo, hi int) (any, string) {
		if n.FC == e5.F4 {
			// float32 slice is exact incl. NaN payloads as far as the conversion allows
			if r.IntN(2) == 0 {
				out := make([]float32, hi-lo)
				for i := lo; i < hi; i++ {
					out[i-lo] = math.Float32frombits(uint32(n.Bits[i]))
				}

				return out, "[]float32"
			}

			return f64s(lo, hi), "[]float64"
		}
		if r.IntN(3) == 0 && f32ok(lo, hi) {
			return f32s(lo, hi), "[]float32"
		}

		return f64s(lo, hi), "[]float64"
	}
	switch r.IntN(3) {
	case 0:
		args := make([]any, cnt)
		rec := "scalars:"
		for i := range args {
			var t string
			args[i], t = floatScalar(r, n, i)
			if i < 3 {
				rec += t + ","
			}
		}

		return args, rec
	case 1:
		a, t := slice(0, cnt)

		return []any{a}, t
	default:
		var args []any
		rec := "mixed:"
		for i := 0; i < cnt; {
			if r.IntN(2) == 0 {
				a, t := floatScalar(r, n, i)
				args = append(args, a)
				rec += t + ","
				i++
			} else {
				k := 1 + r.IntN(cnt-i)
				a, t := slice(i, i+k)
				args = append(args, a)
				rec += t + ","
				i += k
			}
			if len(rec) > 80 {
				rec = rec[:80]
			}
		}

		return args, rec
	}
}

func binaryArgs(r *rand.Rand, b []byte) ([]any, string) {
	if len(b) == 0 {
		if r.IntN(2) == 0 {
			return nil, "no-args"
		}

		return []any{[]byte{}}, "[]byte{}"
	}
	scalar := func(v byte) (any, string) {
		switch r.IntN(5) {
		case 0:
			return v, "byte"
		case 1:
			return int(v), "int"
		case 2:
			return strconv.Itoa(int(v)), "dec-str"
		case 3:
			return fmt.Sprintf("0x%02X", v), "hex-str"
		}

		return "0b" + strconv.FormatUint(uint64(v), 2), "bin-str"
	}
	switch r.IntN(3) {
	case 0:
		return []any{append([]byte{}, b...)}, "[]byte"
	case 1:
		if len(b) > 4096 {
			return []any{append([]byte{}, b...)}, "[]byte"
		}
		args := make([]any, len(b))
		rec := "scalars:"
		for i, v := range b {
			var t string
			args[i], t = scalar(v)
			if i < 3 {
				rec += t + ","
			}
		}

		return args, rec
	default:
		var args []any
		rec := "mixed:"
		for i := 0; i < len(b); {
			if r.IntN(2) == 0 && len(b) < 4096 {
				a, t := scalar(b[i])
				args = append(args, a)
				rec += t + ","
				i++
			} else {
				k := 1 + r.IntN(len(b)-i)
				args = append(args, append([]byte{}, b[i:i+k]...))
				rec += "[]byte,"
				i += k
			}
			if len(rec) > 80 {
				rec = rec[:80]
			}
		}

		return args, rec
	}
}

func boolArgs(r *rand.Rand, b []byte) ([]any, string) {
	if len(b) == 0 {
		if r.IntN(2) == 0 {
			return nil, "no-args"
		}

		return []any{[]bool{}}, "[]bool{}"
	}
	bs := func(lo, hi int) []bool {
		out := make([]bool, hi-lo)
		for i := lo; i < hi; i++ {
			out[i-lo] = b[i] != 0
		}

		return out
	}
	switch r.IntN(3) {
	case 0:
		return []any{bs(0, len(b))}, "[]bool"
	case 1:
		if len(b) > 4096 {
			return []any{bs(0, len(b))}, "[]bool"
		}
		args := make([]any, len(b))
		for i := range b {
			args[i] = b[i] != 0
		}

		return args, "scalars:bool"
	default:
		var args []any
		for i := 0; i < len(b); {
			if r.IntN(2) == 0 && len(b) < 4096 {
				args = append(args, b[i] != 0)
				i++
			} else {
				k := 1 + r.IntN(len(b)-i)
				args = append(args, bs(i, i+k))
				i += k
			}
		}

		return args, "mixed:bool"
	}
}
