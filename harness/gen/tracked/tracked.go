// Package tracked builds library items from reference-model trees through the public
// constructors (like gen.Build) while REMEMBERING every slice it hands to a constructor, so that
// a check can mutate exactly those slices afterwards: the []T numeric/bool/byte/string argument
// slices and the []secs2.Item child slices passed variadically to L/NewListItem.
//
// Build is a pure function of its PRNG: two calls with equally seeded generators yield two
// equal items built from two disjoint sets of argument slices (object and pristine twin).
package tracked

import (
	"fmt"
	"math"
	"math/rand/v2"
	"reflect"

	"github.com/arloliu/go-secs/v2/secs2"

	"verif/gen"
	"verif/ref/e5"
)

// Inputs are the slices passed to constructors.
type Inputs struct {
	Slices []any
}

// Add records a slice passed to a library entry point (ignored when it has no capacity).
func (in *Inputs) Add(s any) {
	v := reflect.ValueOf(s)
	if v.Kind() == reflect.Slice && v.Cap() > 0 {
		in.Slices = append(in.Slices, s)
	}
}

func (in *Inputs) addArgs(args []any) {
	for _, a := range args {
		in.Add(a)
	}
	// the []any holding the variadic arguments is itself a slice the constructor received
	if cap(args) > 0 {
		in.Slices = append(in.Slices, args)
	}
}

// Sentinel replaces the elements of recorded []secs2.Item child slices.
var Sentinel = secs2.U1(0xEE)

// Mutate overwrites every element (up to capacity) of every recorded slice and returns the
// number of slices touched.
func (in *Inputs) Mutate() int {
	n := 0
	for _, s := range in.Slices {
		if MutateSlice(s) {
			n++
		}
	}

	return n
}

// MutateSlice overwrites every element of s (a slice of any numeric, bool, string, byte,
// interface or secs2.Item element type) up to its capacity with a different value.
func MutateSlice(s any) bool {
	switch t := s.(type) {
	case []byte:
		t = t[:cap(t)]
		for i := range t {
			t[i] ^= 0xFF
		}

		return len(t) > 0
	case []secs2.Item:
		t = t[:cap(t)]
		for i := range t {
			t[i] = Sentinel
		}

		return len(t) > 0
	case []any:
		t = t[:cap(t)]
		for i := range t {
			t[i] = "mutated-argument"
		}

		return len(t) > 0
	}
	v := reflect.ValueOf(s)
	if v.Kind() != reflect.Slice || v.Cap() == 0 {
		return false
	}
	v = v.Slice(0, v.Cap())
	for i := 0; i < v.Len(); i++ {
		e := v.Index(i)
		switch e.Kind() { //nolint:exhaustive
		case reflect.Int, reflect.Int8, reflect.Int16, reflect.Int32, reflect.Int64:
			e.SetInt(^e.Int())
		case reflect.Uint, reflect.Uint8, reflect.Uint16, reflect.Uint32, reflect.Uint64, reflect.Uintptr:
			e.SetUint(^e.Uint())
		case reflect.Float32, reflect.Float64:
			f := e.Float()
			if f != f || math.IsInf(f, 0) {
				e.SetFloat(1.5)
			} else {
				e.SetFloat(-f*3 - 7)
			}
		case reflect.Bool:
			e.SetBool(!e.Bool())
		case reflect.String:
			e.SetString("7" + e.String() + "1")
		default:
			e.Set(reflect.Zero(e.Type()))
		}
	}

	return true
}

// Build constructs n through the public constructors, recording every slice argument in in.
func Build(r *rand.Rand, n *e5.Node, in *Inputs) (secs2.Item, string) { //nolint:gocyclo
	switch n.FC {
	case e5.List:
		kids := make([]secs2.Item, 0, len(n.Kids)+r.IntN(4))
		rec := "L("
		for i, k := range n.Kids {
			if r.IntN(16) == 0 {
				kids = append(kids, nil)
				rec += "nil,"
			}
			it, kr := Build(r, k, in)
			kids = append(kids, it)
			if i < 3 {
				rec += kr + ","
			}
		}
		if len(n.Kids) > 3 {
			rec += "…"
		}
		in.Add(kids)
		if r.IntN(2) == 0 {
			return secs2.L(kids...), rec + ")"
		}

		return secs2.NewListItem(kids...), "New" + rec + ")"
	case e5.ASCII:
		if r.IntN(2) == 0 {
			return secs2.A(string(n.Bytes)), "A(str)"
		}

		return secs2.NewASCIIItem(string(n.Bytes)), "NewASCIIItem(str)"
	case e5.JIS8:
		if r.IntN(2) == 0 {
			return secs2.J(string(n.Bytes)), "J(str)"
		}

		return secs2.NewJIS8Item(string(n.Bytes)), "NewJIS8Item(str)"
	case e5.Localized:
		if n.LSH == 2 && r.IntN(2) == 0 {
			if r.IntN(2) == 0 {
				return secs2.W(string(n.Bytes)), "W(str)"
			}

			return secs2.NewUTF8StrItem(string(n.Bytes)), "NewUTF8StrItem(str)"
		}

		return secs2.NewLocalizedStrItem(n.LSH, string(n.Bytes)), fmt.Sprintf("NewLocalizedStrItem(%d,str)", n.LSH)
	case e5.Binary:
		args, rec := binaryArgs(r, n.Bytes)
		in.addArgs(args)
		if r.IntN(2) == 0 {
			return secs2.B(args...), "B(" + rec + ")"
		}

		return secs2.NewBinaryItem(args...), "NewBinaryItem(" + rec + ")"
	case e5.Boolean:
		args, rec := boolArgs(r, n.Bytes)
		in.addArgs(args)
		if r.IntN(2) == 0 {
			return secs2.BOOLEAN(args...), "BOOLEAN(" + rec + ")"
		}

		return secs2.NewBooleanItem(args...), "NewBooleanItem(" + rec + ")"
	case e5.I1, e5.I2, e5.I4, e5.I8:
		w := e5.Width(n.FC)
		args, rec := gen.IntArgs(r, n.Ints)
		in.addArgs(args)
		if r.IntN(2) == 0 {
			return []func(...any) secs2.Item{1: secs2.I1, 2: secs2.I2, 4: secs2.I4, 8: secs2.I8}[w](args...), fmt.Sprintf("I%d(%s)", w, rec)
		}

		return secs2.NewIntItem(w, args...), fmt.Sprintf("NewIntItem(%d,%s)", w, rec)
	case e5.U1, e5.U2, e5.U4, e5.U8:
		w := e5.Width(n.FC)
		args, rec := gen.UintArgs(r, n.Uints)
		in.addArgs(args)
		if r.IntN(2) == 0 {
			return []func(...any) secs2.Item{1: secs2.U1, 2: secs2.U2, 4: secs2.U4, 8: secs2.U8}[w](args...), fmt.Sprintf("U%d(%s)", w, rec)
		}

		return secs2.NewUintItem(w, args...), fmt.Sprintf("NewUintItem(%d,%s)", w, rec)
	case e5.F4, e5.F8:
		w := e5.Width(n.FC)
		args, rec := floatArgs(r, n)
		in.addArgs(args)
		if r.IntN(2) == 0 {
			if w == 4 {
				return secs2.F4(args...), "F4(" + rec + ")"
			}

			return secs2.F8(args...), "F8(" + rec + ")"
		}

		return secs2.NewFloatItem(w, args...), fmt.Sprintf("NewFloatItem(%d,%s)", w, rec)
	}
	panic("tracked.Build: bad node")
}

// split cuts [0,n) into a random mix of single positions and runs.
func split(r *rand.Rand, n int, f func(lo, hi int, single bool)) {
	for i := 0; i < n; {
		if r.IntN(2) == 0 && n < 4096 {
			f(i, i+1, true)
			i++
		} else {
			k := 1 + r.IntN(n-i)
			f(i, i+k, false)
			i += k
		}
	}
}

// spare returns a copy of b of the same length with random extra capacity.
func spareBytes(r *rand.Rand, b []byte) []byte {
	out := make([]byte, len(b), len(b)+r.IntN(9))
	copy(out, b)

	return out
}

func binaryArgs(r *rand.Rand, b []byte) ([]any, string) {
	if len(b) == 0 {
		if r.IntN(2) == 0 {
			return nil, "no-args"
		}

		return []any{make([]byte, 0, r.IntN(5))}, "[]byte{}"
	}
	switch r.IntN(3) {
	case 0:
		return []any{spareBytes(r, b)}, "[]byte"
	case 1:
		if len(b) > 4096 {
			return []any{spareBytes(r, b)}, "[]byte"
		}
		args := make([]any, len(b))
		for i, v := range b {
			if r.IntN(2) == 0 {
				args[i] = v
			} else {
				args[i] = int(v)
			}
		}

		return args, "scalars"
	default:
		var args []any
		split(r, len(b), func(lo, hi int, single bool) {
			if single {
				args = append(args, b[lo])
			} else {
				args = append(args, spareBytes(r, b[lo:hi]))
			}
		})

		return args, "mixed"
	}
}

func boolArgs(r *rand.Rand, b []byte) ([]any, string) {
	bs := func(lo, hi int) []bool {
		out := make([]bool, hi-lo, hi-lo+r.IntN(5))
		for i := lo; i < hi; i++ {
			out[i-lo] = b[i] != 0
		}

		return out
	}
	if len(b) == 0 {
		if r.IntN(2) == 0 {
			return nil, "no-args"
		}

		return []any{bs(0, 0)}, "[]bool{}"
	}
	switch r.IntN(3) {
	case 0:
		return []any{bs(0, len(b))}, "[]bool"
	case 1:
		if len(b) > 4096 {
			return []any{bs(0, len(b))}, "[]bool"
		}
		args := make([]any, len(b))
		for i := range b {
			args[i] = b[i] != 0
		}

		return args, "scalars"
	default:
		var args []any
		split(r, len(b), func(lo, hi int, single bool) {
			if single {
				args = append(args, b[lo] != 0)
			} else {
				args = append(args, bs(lo, hi))
			}
		})

		return args, "mixed"
	}
}

func floatArgs(r *rand.Rand, n *e5.Node) ([]any, string) {
	cnt := len(n.Bits)
	slice := func(lo, hi int) any {
		if n.FC == e5.F4 && r.IntN(2) == 0 {
			out := make([]float32, hi-lo, hi-lo+r.IntN(5))
			for i := lo; i < hi; i++ {
				out[i-lo] = math.Float32frombits(uint32(n.Bits[i]))
			}

			return out
		}
		out := make([]float64, hi-lo, hi-lo+r.IntN(5))
		for i := lo; i < hi; i++ {
			out[i-lo] = n.Float(i)
		}

		return out
	}
	scalar := func(i int) any {
		if n.FC == e5.F4 && r.IntN(2) == 0 {
			return math.Float32frombits(uint32(n.Bits[i]))
		}

		return n.Float(i)
	}
	if cnt == 0 {
		if r.IntN(2) == 0 {
			return nil, "no-args"
		}

		return []any{slice(0, 0)}, "empty-slice"
	}
	switch r.IntN(3) {
	case 0:
		return []any{slice(0, cnt)}, "slice"
	case 1:
		if cnt > 4096 {
			return []any{slice(0, cnt)}, "slice"
		}
		args := make([]any, cnt)
		for i := range args {
			args[i] = scalar(i)
		}

		return args, "scalars"
	default:
		var args []any
		split(r, cnt, func(lo, hi int, single bool) {
			if single {
				args = append(args, scalar(lo))
			} else {
				args = append(args, slice(lo, hi))
			}
		})

		return args, "mixed"
	}
}
