// Package peer is the scripted, byte-level HSMS peer and the harness-owned socket plumbing
// (tracking dialer / listener / conn wrappers) used by the end-to-end monitors. It contains its own
// tiny E37 frame codec (written from the standard) and shares no code with go-secs.
package peer

import (
	"encoding/binary"
	"errors"
	"fmt"
)

// SType values (SEMI E37 §8.2.6.6).
const (
	STData        = 0
	STSelectReq   = 1
	STSelectRsp   = 2
	STDeselectReq = 3
	STDeselectRsp = 4
	STLinktestReq = 5
	STLinktestRsp = 6
	STRejectReq   = 7
	STSeparateReq = 9
)

// Frame is one HSMS message: the 10-byte header fields plus the body.
type Frame struct {
	Session uint16
	B2, B3  byte // header byte 2 (W-bit|stream, or 0 / reject type) and byte 3 (function, status, reason)
	PType   byte
	SType   byte
	Sys     uint32
	Body    []byte
}

// Bytes returns the on-wire form (4-byte length, header, body).
func (f Frame) Bytes() []byte {
	out := make([]byte, 14+len(f.Body))
	binary.BigEndian.PutUint32(out[0:4], uint32(10+len(f.Body)))
	binary.BigEndian.PutUint16(out[4:6], f.Session)
	out[6], out[7], out[8], out[9] = f.B2, f.B3, f.PType, f.SType
	binary.BigEndian.PutUint32(out[10:14], f.Sys)
	copy(out[14:], f.Body)

	return out
}

// ParseFrame parses header||body (without the length prefix).
func ParseFrame(b []byte) (Frame, error) {
	if len(b) < 10 {
		return Frame{}, errors.New("short frame")
	}

	return Frame{
		Session: binary.BigEndian.Uint16(b[0:2]), B2: b[2], B3: b[3], PType: b[4], SType: b[5],
		Sys: binary.BigEndian.Uint32(b[6:10]), Body: append([]byte(nil), b[10:]...),
	}, nil
}

// IsData reports a data message (PType 0, SType 0).
func (f Frame) IsData() bool { return f.PType == 0 && f.SType == STData }

// Stream is the stream code of a data message.
func (f Frame) Stream() byte { return f.B2 & 0x7f }

// Function is the function code of a data message.
func (f Frame) Function() byte { return f.B3 }

// WBit is the W-bit of a data message.
func (f Frame) WBit() bool { return f.B2&0x80 != 0 }

// Kind names the frame class.
func (f Frame) Kind() string {
	if f.PType != 0 {
		return fmt.Sprintf("ptype%d", f.PType)
	}
	switch f.SType {
	case STData:
		return "data"
	case STSelectReq:
		return "select.req"
	case STSelectRsp:
		return "select.rsp"
	case STDeselectReq:
		return "deselect.req"
	case STDeselectRsp:
		return "deselect.rsp"
	case STLinktestReq:
		return "linktest.req"
	case STLinktestRsp:
		return "linktest.rsp"
	case STRejectReq:
		return "reject.req"
	case STSeparateReq:
		return "separate.req"
	}

	return fmt.Sprintf("stype%d", f.SType)
}

func (f Frame) String() string {
	if f.IsData() {
		w := ""
		if f.WBit() {
			w = "W"
		}

		return fmt.Sprintf("S%dF%d%s sess=%04x sys=%08x body=%dB", f.Stream(), f.Function(), w, f.Session, f.Sys, len(f.Body))
	}

	return fmt.Sprintf("%s sess=%04x b2=%d b3=%d sys=%08x body=%dB", f.Kind(), f.Session, f.B2, f.B3, f.Sys, len(f.Body))
}

// Data builds a data message frame.
func Data(stream, function byte, w bool, session uint16, sys uint32, body []byte) Frame {
	b2 := stream & 0x7f
	if w {
		b2 |= 0x80
	}

	return Frame{Session: session, B2: b2, B3: function, Sys: sys, Body: body}
}

// Control builds a header-only control frame.
func Control(stype byte, session uint16, b2, b3 byte, sys uint32) Frame {
	return Frame{Session: session, B2: b2, B3: b3, SType: stype, Sys: sys}
}

// SelectReq / SelectRsp / ... are the standard control frames.
func SelectReq(session uint16, sys uint32) Frame { return Control(STSelectReq, session, 0, 0, sys) }

// SelectRsp builds a Select.rsp with the given status.
func SelectRsp(session uint16, status byte, sys uint32) Frame {
	return Control(STSelectRsp, session, 0, status, sys)
}

// DeselectReq builds a Deselect.req.
func DeselectReq(session uint16, sys uint32) Frame { return Control(STDeselectReq, session, 0, 0, sys) }

// DeselectRsp builds a Deselect.rsp.
func DeselectRsp(session uint16, status byte, sys uint32) Frame {
	return Control(STDeselectRsp, session, 0, status, sys)
}

// LinktestReq builds a Linktest.req.
func LinktestReq(sys uint32) Frame { return Control(STLinktestReq, 0xFFFF, 0, 0, sys) }

// LinktestRsp builds a Linktest.rsp.
func LinktestRsp(sys uint32) Frame { return Control(STLinktestRsp, 0xFFFF, 0, 0, sys) }

// SeparateReq builds a Separate.req.
func SeparateReq(session uint16, sys uint32) Frame { return Control(STSeparateReq, session, 0, 0, sys) }

// RejectReq builds a Reject.req (b2 = offending SType or PType, b3 = reason).
func RejectReq(session uint16, typ, reason byte, sys uint32) Frame {
	return Control(STRejectReq, session, typ, reason, sys)
}

// SplitStream splits a byte stream into complete frames (header||body each) and the unconsumed rest.
// A length field < 10 stops the split (rest starts at that length field).
func SplitStream(b []byte) (frames [][]byte, rest []byte) {
	for len(b) >= 4 {
		n := int(binary.BigEndian.Uint32(b[0:4]))
		if n < 10 || len(b) < 4+n {
			break
		}
		frames = append(frames, b[4:4+n])
		b = b[4+n:]
	}

	return frames, b
}
