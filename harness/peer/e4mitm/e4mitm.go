// Package e4mitm is a fault-injecting middlebox for a SECS-I (SEMI E4) line carried over TCP. It sits
// between two real endpoints, splits the character stream each of them EMITS into handshake
// characters and block transmissions with verif/ref/e4, applies a fault plan to what it forwards and
// records the history of everything that crossed.
//
// Side 0 is the endpoint that dials the middlebox (the TCP-active end); side 1 is the endpoint the
// middlebox dials (the TCP-passive end). The caller says which of them is the equipment (master).
package e4mitm

import (
	"fmt"
	"net"
	"sync"
	"sync/atomic"
	"time"

	"verif/ref/e4"
)

// Class of an emitted unit a rule can target.
const (
	OnBlock = "BLOCK"
	OnENQ   = "ENQ"
	OnEOT   = "EOT"
	OnACK   = "ACK"
	OnNAK   = "NAK"
)

// Fault operations.
const (
	OpFlip     = "flip"      // block: change one character (Pos, Mask); Pos 0 = length byte, only upward
	OpDropK    = "dropchars" // block: remove K characters starting at Pos
	OpTruncate = "truncate"  // block: forward only the first Pos characters
	OpDrop     = "drop"      // block or char: forward nothing
	OpReplace  = "replace"   // char: forward With instead
	OpDelay    = "delay"     // block or char: stall this direction for Delay before forwarding it
	OpDelayMid = "delaymid"  // block: forward Pos characters, stall for Delay, forward the rest
	// block: the length character is LOWERED to K (10 <= K < its value); the 1+K+2 characters a receiver will take for
	// the block are forwarded, the rest follows after Delay (a character-paced line). SplitGaps reports the measured
	// time between the two writes.
	OpShorten = "shorten"
)

// Rule is one entry of a fault plan.
type Rule struct {
	From  int           `json:"from"` // emitting side
	On    string        `json:"on"`
	Nth   int           `json:"nth"`             // 1-based occurrence (per From/On, counted over the whole run)
	Count int           `json:"count,omitempty"` // occurrences Nth..Nth+Count-1; 0 = 1; <0 = every one from Nth on
	Op    string        `json:"op"`
	Pos   int           `json:"pos,omitempty"`
	Mask  byte          `json:"mask,omitempty"`
	K     int           `json:"k,omitempty"`
	With  byte          `json:"with,omitempty"`
	Delay time.Duration `json:"delay,omitempty"`
}

func (r Rule) String() string {
	s := fmt.Sprintf("side%d %s#%d", r.From, r.On, r.Nth)
	if r.Count < 0 {
		s += "+"
	} else if r.Count > 1 {
		s += fmt.Sprintf("..%d", r.Nth+r.Count-1)
	}
	switch r.Op {
	case OpFlip:
		s += fmt.Sprintf(" flip@%d^%02x", r.Pos, r.Mask)
	case OpDropK:
		s += fmt.Sprintf(" drop%d@%d", r.K, r.Pos)
	case OpTruncate:
		s += fmt.Sprintf(" truncate@%d", r.Pos)
	case OpDrop:
		s += " drop"
	case OpReplace:
		s += fmt.Sprintf(" ->%02x", r.With)
	case OpDelay:
		s += fmt.Sprintf(" delay %s", r.Delay)
	case OpDelayMid:
		s += fmt.Sprintf(" delay %s @%d", r.Delay, r.Pos)
	case OpShorten:
		s += fmt.Sprintf(" length->%d, rest after %s", r.K, r.Delay)
	}

	return s
}

// Plan is the fault plan of one run.
type Plan struct {
	Rules []Rule `json:"rules"`
	// Gate > 0: the first ENQ seen (from either side) is held back up to Gate, waiting for an ENQ from
	// the other side; both are then released together so the two requests cross (line contention).
	Gate  time.Duration `json:"gate,omitempty"`
	Gates int           `json:"gates,omitempty"` // how many times the gate re-arms (default 1)
}

// Ev is one history entry: a unit emitted by one side and what was done with it.
type Ev struct {
	Seq   int           `json:"seq"`
	T     time.Duration `json:"t"`
	Gen   int           `json:"gen"`
	From  int           `json:"from"`
	Kind  string        `json:"kind"` // ENQ EOT ACK NAK BLOCK JUNK OPEN CLOSE
	Char  byte          `json:"char,omitempty"`
	Raw   []byte        `json:"-"`
	Hdr   e4.Header     `json:"hdr"`
	Valid bool          `json:"valid,omitempty"` // BLOCK: the emission itself is a valid E4 block
	Occ   int           `json:"occ"`
	Fault string        `json:"fault,omitempty"`
	Fwd   int           `json:"fwd"`           // characters forwarded
	Out   byte          `json:"out,omitempty"` // control character events: the character actually forwarded (when Fwd == 1)
	Gated bool          `json:"gated,omitempty"`
}

func (e Ev) String() string {
	s := fmt.Sprintf("%d@%dms g%d s%d %s", e.Seq, e.T.Milliseconds(), e.Gen, e.From, e.Kind)
	if e.Kind == OnBlock {
		s += fmt.Sprintf("#%d[sys=%x blk=%d E=%t %dB]", e.Occ, e.Hdr.System, e.Hdr.Block, e.Hdr.E, len(e.Raw))
	} else if e.Kind != "OPEN" && e.Kind != "CLOSE" {
		s += fmt.Sprintf("#%d", e.Occ)
	}
	if e.Kind == "JUNK" {
		s += fmt.Sprintf("(%02x)", e.Char)
	}
	if e.Gated {
		s += " gated"
	}
	if e.Fault != "" {
		s += " {" + e.Fault + "}"
	}

	return s
}

type wItem struct {
	b         []byte
	notBefore time.Time
	mark      int // 1: head of a shortened block, 2: its tail
}

// Mitm is the middlebox.
type Mitm struct {
	host   string
	plan   Plan
	target func() int // current port of the TCP-passive endpoint
	ln     net.Listener
	port   int
	base   time.Time

	mu              sync.Mutex
	hist            []Ev
	occ             map[string]int
	applied         map[int]int // rule index -> times applied
	gen             int
	gatesLeft       int
	contentionsMade int

	splitHead time.Time
	splitGaps []time.Duration

	closed  atomic.Int64 // sessions that have ended
	lastAct atomic.Int64 // unix nanos of the last character seen
	stop    atomic.Bool
	wg      sync.WaitGroup
	curMu   sync.Mutex
	cur     [2]net.Conn
}

// New creates a middlebox listening on an ephemeral port of the loopback address host; the
// TCP-passive endpoint is dialled on the same address.
func New(host string, plan Plan, target func() int) (*Mitm, error) {
	ln, err := net.Listen("tcp", host+":0")
	if err != nil {
		return nil, err
	}
	m := &Mitm{host: host, plan: plan, target: target, ln: ln, port: ln.Addr().(*net.TCPAddr).Port, base: time.Now(),
		occ: map[string]int{}, applied: map[int]int{}}
	m.gatesLeft = plan.Gates
	if plan.Gate > 0 && m.gatesLeft == 0 {
		m.gatesLeft = 1
	}
	m.lastAct.Store(time.Now().UnixNano())
	m.wg.Add(1)
	go m.acceptLoop()

	return m, nil
}

// Port is the port the TCP-active endpoint must dial.
func (m *Mitm) Port() int { return m.port }

// IdleFor reports how long no character has crossed.
func (m *Mitm) IdleFor() time.Duration {
	return time.Duration(time.Now().UnixNano() - m.lastAct.Load())
}

// History returns a copy of the history so far.
func (m *Mitm) History() []Ev {
	m.mu.Lock()
	defer m.mu.Unlock()

	return append([]Ev(nil), m.hist...)
}

// Applied returns how many times each rule was applied, and the contentions the gate produced.
func (m *Mitm) Applied() (map[int]int, int) {
	m.mu.Lock()
	defer m.mu.Unlock()
	out := map[int]int{}
	for k, v := range m.applied {
		out[k] = v
	}

	return out, m.contentionsMade
}

// SplitGaps returns, for every shortened block, the measured time between the write of its head and of its tail.
func (m *Mitm) SplitGaps() []time.Duration {
	m.mu.Lock()
	defer m.mu.Unlock()

	return append([]time.Duration(nil), m.splitGaps...)
}

// Base is the zero point of the Ev.T timestamps.
func (m *Mitm) Base() time.Time { return m.base }

// Closed returns how many TCP generations have ended so far.
func (m *Mitm) Closed() int { return int(m.closed.Load()) }

// Close stops the middlebox and closes its sockets.
func (m *Mitm) Close() {
	m.stop.Store(true)
	_ = m.ln.Close()
	m.curMu.Lock()
	for _, c := range m.cur {
		if c != nil {
			_ = c.Close()
		}
	}
	m.curMu.Unlock()
	m.wg.Wait()
}

func (m *Mitm) acceptLoop() {
	defer m.wg.Done()
	for !m.stop.Load() {
		a, err := m.ln.Accept()
		if err != nil {
			return
		}
		var b net.Conn
		deadline := time.Now().Add(8 * time.Second)
		for !m.stop.Load() && time.Now().Before(deadline) {
			c, err := net.DialTimeout("tcp", fmt.Sprintf("%s:%d", m.host, m.target()), time.Second)
			if err == nil && c.LocalAddr().String() == c.RemoteAddr().String() {
				// TCP self-connection to the passive end's old, now unbound port (see peer.IsSelfConn): not a link
				_ = c.Close()
				err = fmt.Errorf("self-connect")
			}
			if err == nil {
				b = c

				break
			}
			time.Sleep(5 * time.Millisecond)
		}
		if b == nil {
			_ = a.Close()

			continue
		}
		for _, c := range []net.Conn{a, b} {
			if tc, ok := c.(*net.TCPConn); ok {
				_ = tc.SetNoDelay(true)
			}
		}
		m.session(a, b)
	}
}

type rxc struct {
	side int
	b    []byte
	eof  bool
}

func (m *Mitm) record(e Ev) {
	m.mu.Lock()
	e.Seq = len(m.hist)
	e.T = time.Since(m.base)
	e.Gen = m.gen
	m.hist = append(m.hist, e)
	m.mu.Unlock()
}

func (m *Mitm) session(a, b net.Conn) {
	m.mu.Lock()
	m.gen++
	m.mu.Unlock()
	m.curMu.Lock()
	m.cur = [2]net.Conn{a, b}
	m.curMu.Unlock()
	conns := [2]net.Conn{a, b}
	m.record(Ev{Kind: "OPEN"})

	rx := make(chan rxc, 1024)
	var rwg sync.WaitGroup
	for s := 0; s < 2; s++ {
		rwg.Add(1)
		go func(s int) {
			defer rwg.Done()
			for {
				buf := make([]byte, 2048)
				n, err := conns[s].Read(buf)
				if n > 0 {
					rx <- rxc{side: s, b: buf[:n]}
				}
				if err != nil {
					rx <- rxc{side: s, eof: true}

					return
				}
			}
		}(s)
	}
	// one FIFO writer per direction; out[s] carries what is delivered TO side s
	var out [2]chan wItem
	var wwg sync.WaitGroup
	for s := 0; s < 2; s++ {
		out[s] = make(chan wItem, 4096)
		wwg.Add(1)
		go func(s int) {
			defer wwg.Done()
			dead := false
			for it := range out[s] {
				if dead {
					continue
				}
				if d := time.Until(it.notBefore); d > 0 {
					time.Sleep(d)
				}
				_ = conns[s].SetWriteDeadline(time.Now().Add(5 * time.Second))
				if _, err := conns[s].Write(it.b); err != nil {
					dead = true
				}
				if it.mark != 0 {
					m.mu.Lock()
					if it.mark == 1 {
						m.splitHead = time.Now()
					} else {
						m.splitGaps = append(m.splitGaps, time.Since(m.splitHead))
					}
					m.mu.Unlock()
				}
			}
		}(s)
	}

	var parsers [2]e4.EmitParser
	send := func(to int, b []byte, delay time.Duration) {
		if len(b) == 0 && delay == 0 {
			return
		}
		it := wItem{b: append([]byte(nil), b...)}
		if delay > 0 {
			it.notBefore = time.Now().Add(delay)
		}
		out[to] <- it
	}

	// contention gate state
	var held *Ev
	gateTimer := time.NewTimer(time.Hour)
	gateTimer.Stop()
	release := func() {
		if held != nil {
			send(1-held.From, []byte{e4.ENQ}, 0)
			held = nil
		}
	}

	handleChar := func(side int, c byte, kind string) {
		ev := Ev{From: side, Kind: kind, Char: c}
		fwd, delay := []byte{c}, time.Duration(0)
		if kind != "JUNK" {
			ev.Occ = m.bump(side, kind)
			if ri, r := m.match(side, kind, ev.Occ); r != nil {
				switch r.Op {
				case OpDrop:
					fwd = nil
				case OpReplace:
					fwd = []byte{r.With}
				case OpDelay:
					delay = r.Delay
				}
				ev.Fault = r.String()
				m.markApplied(ri)
			}
		}
		ev.Fwd = len(fwd)
		if len(fwd) == 1 {
			ev.Out = fwd[0]
		}
		// contention gate: only an ENQ that is forwarded unmodified takes part
		if kind == OnENQ && len(fwd) == 1 && fwd[0] == e4.ENQ && delay == 0 {
			if held != nil && held.From != side {
				ev.Gated = true
				m.record(ev)
				m.mu.Lock()
				m.contentionsMade++
				m.mu.Unlock()
				gateTimer.Stop()
				release()
				send(1-side, fwd, 0)

				return
			}
			if held == nil && m.takeGate() {
				ev.Gated = true
				m.record(ev)
				h := ev
				held = &h
				gateTimer.Reset(m.plan.Gate)

				return
			}
		}
		m.record(ev)
		send(1-side, fwd, delay)
	}

	handleBlock := func(side int, raw []byte) {
		ev := Ev{From: side, Kind: OnBlock, Raw: raw}
		if blk, perr := e4.Parse(raw); perr == e4.OK {
			ev.Valid, ev.Hdr = true, blk.Header
		}
		ev.Occ = m.bump(side, OnBlock)
		fwd := raw
		var delay time.Duration
		var second []byte
		var secondDelay time.Duration
		shortened := false
		if ri, r := m.match(side, OnBlock, ev.Occ); r != nil {
			cp := append([]byte(nil), raw...)
			switch r.Op {
			case OpFlip:
				p := r.Pos % len(cp)
				if p == 0 {
					room := 255 - int(cp[0])
					cp[0] += byte(1 + int(r.Mask)%room)
				} else {
					mask := r.Mask
					if mask == 0 {
						mask = 1
					}
					cp[p] ^= mask
				}
				fwd = cp
			case OpDropK:
				p := r.Pos % len(cp)
				k := r.K
				if k < 1 {
					k = 1
				}
				if p+k > len(cp) {
					k = len(cp) - p
				}
				fwd = append(cp[:p:p], cp[p+k:]...)
			case OpTruncate:
				fwd = cp[:r.Pos%len(cp)]
			case OpDrop:
				fwd = nil
			case OpDelay:
				delay = r.Delay
			case OpDelayMid:
				p := 1 + r.Pos%(len(cp)-1)
				fwd, second, secondDelay = cp[:p], cp[p:], r.Delay
			case OpShorten:
				if r.K >= e4.MinLen && r.K < int(cp[0]) {
					cp[0] = byte(r.K)
					shortened = true
					fwd, second, secondDelay = cp[:1+r.K+2], cp[1+r.K+2:], r.Delay
				}
			}
			ev.Fault = r.String()
			m.markApplied(ri)
		}
		ev.Fwd = len(fwd) + len(second)
		m.record(ev)
		if shortened {
			out[1-side] <- wItem{b: append([]byte(nil), fwd...), mark: 1}
			out[1-side] <- wItem{b: append([]byte(nil), second...), notBefore: time.Now().Add(secondDelay), mark: 2}

			return
		}
		send(1-side, fwd, delay)
		if second != nil {
			send(1-side, second, secondDelay)
		}
	}

	closed := false
	for !closed {
		select {
		case <-gateTimer.C:
			release()
		case c := <-rx:
			if c.eof {
				m.record(Ev{From: c.side, Kind: "CLOSE"})
				m.closed.Add(1)
				closed = true

				break
			}
			m.lastAct.Store(time.Now().UnixNano())
			for _, ch := range c.b {
				em := parsers[c.side].Feed(ch)
				switch em.Kind {
				case e4.EmitChar:
					handleChar(c.side, ch, map[byte]string{e4.ENQ: OnENQ, e4.EOT: OnEOT, e4.ACK: OnACK, e4.NAK: OnNAK}[ch])
				case e4.EmitJunk:
					handleChar(c.side, ch, "JUNK")
				case e4.EmitStart, e4.EmitData:
					if em.Last {
						handleBlock(c.side, em.Raw)
					}
				}
			}
		}
	}
	gateTimer.Stop()
	release()
	// let queued characters drain briefly, then tear the session down
	close(out[0])
	close(out[1])
	done := make(chan struct{})
	go func() { wwg.Wait(); close(done) }()
	select {
	case <-done:
	case <-time.After(300 * time.Millisecond):
	}
	_ = a.Close()
	_ = b.Close()
	<-done
	go func() { // drain readers
		for range rx {
		}
	}()
	rwg.Wait()
	close(rx)
	m.curMu.Lock()
	m.cur = [2]net.Conn{}
	m.curMu.Unlock()
}

func (m *Mitm) bump(side int, kind string) int {
	m.mu.Lock()
	defer m.mu.Unlock()
	k := fmt.Sprintf("%d/%s", side, kind)
	m.occ[k]++

	return m.occ[k]
}

func (m *Mitm) match(side int, kind string, occ int) (int, *Rule) {
	for i := range m.plan.Rules {
		r := &m.plan.Rules[i]
		if r.From != side || r.On != kind || occ < r.Nth {
			continue
		}
		n := r.Count
		if n == 0 {
			n = 1
		}
		if n < 0 || occ < r.Nth+n {
			return i, r
		}
	}

	return -1, nil
}

func (m *Mitm) markApplied(i int) {
	m.mu.Lock()
	m.applied[i]++
	m.mu.Unlock()
}

func (m *Mitm) takeGate() bool {
	if m.plan.Gate <= 0 {
		return false
	}
	m.mu.Lock()
	defer m.mu.Unlock()
	if m.gatesLeft <= 0 {
		return false
	}
	m.gatesLeft--

	return true
}
