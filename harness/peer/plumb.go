package peer

import (
	"context"
	"errors"
	"net"
	"os"
	"strings"
	"sync"
	"sync/atomic"
	"time"

	"github.com/arloliu/go-secs/v2/logger"
)

// TrackConn wraps the socket handed to the library. Embedding *net.TCPConn keeps net.Buffers on
// the writev fast path; Close is recorded.
type TrackConn struct {
	*net.TCPConn
	closed atomic.Bool
	owner  *Tracker
}

// Close records and closes.
func (t *TrackConn) Close() error {
	if t.closed.CompareAndSwap(false, true) {
		t.owner.connCloses.Add(1)
	}

	return t.TCPConn.Close()
}

// Closed reports whether the library closed this socket.
func (t *TrackConn) Closed() bool { return t.closed.Load() }

// Tracker owns every socket / listener the library is given and records dial / listen / accept /
// close events with monotonic timestamps.
type Tracker struct {
	mu        sync.Mutex
	conns     []*TrackConn
	listeners []*TrackListener
	dials     []DialEvent

	connCloses atomic.Int64

	// FailDial, when non-nil, is consulted per dial attempt (attempt index from 0); a non-nil error is returned to the library.
	FailDial func(attempt int) error
	// DialDelay delays the return of a successful dial (to land a connect inside Close).
	DialDelay func(attempt int) time.Duration
	// FailListen, when non-nil, is consulted per listen attempt.
	FailListen func(attempt int) error
	// AcceptGate, when non-nil, is called after Accept returned a connection and before it is handed to the library.
	AcceptGate func()
	// Wrap, when non-nil, wraps every (tracked) connection before it is handed to the library.
	Wrap func(net.Conn) net.Conn
	// HoldDial, when non-nil, is called with the library's dial context before the dial is made; it may block (a
	// black-holed SYN: nothing comes back until the context ends). A non-nil error fails the dial with it.
	HoldDial func(ctx context.Context, attempt int) error

	listens atomic.Int64
}

// DialEvent is one dial attempt by the library.
type DialEvent struct {
	Attempt int
	Start   time.Duration
	End     time.Duration
	Err     string
	Target  string
}

// SetFailDial installs the per-attempt dial failure policy (race-free against concurrent dials).
func (t *Tracker) SetFailDial(f func(attempt int) error) {
	t.mu.Lock()
	t.FailDial = f
	t.mu.Unlock()
}

// SetHoldDial installs (or with nil removes) the dial hold.
func (t *Tracker) SetHoldDial(f func(ctx context.Context, attempt int) error) {
	t.mu.Lock()
	t.HoldDial = f
	t.mu.Unlock()
}

// SetFailListen installs the per-attempt listen failure policy.
func (t *Tracker) SetFailListen(f func(attempt int) error) {
	t.mu.Lock()
	t.FailListen = f
	t.mu.Unlock()
}

// SetDialDelay installs the per-attempt delay of successful dials.
func (t *Tracker) SetDialDelay(f func(attempt int) time.Duration) {
	t.mu.Lock()
	t.DialDelay = f
	t.mu.Unlock()
}

// Dials returns a copy of the dial log.
func (t *Tracker) Dials() []DialEvent {
	t.mu.Lock()
	defer t.mu.Unlock()

	return append([]DialEvent(nil), t.dials...)
}

// DialCount is the number of dial attempts so far.
func (t *Tracker) DialCount() int {
	t.mu.Lock()
	defer t.mu.Unlock()

	return len(t.dials)
}

// ListenCount is the number of listen calls so far.
func (t *Tracker) ListenCount() int { return int(t.listens.Load()) }

// DialFunc is the hsmsss/secs1 DialFunc.
func (t *Tracker) DialFunc(ctx context.Context, network, address string) (net.Conn, error) {
	t.mu.Lock()
	n := len(t.dials)
	t.dials = append(t.dials, DialEvent{Attempt: n, Start: Now(), Target: address})
	fail, delay, hold := t.FailDial, t.DialDelay, t.HoldDial
	t.mu.Unlock()
	finish := func(err error) {
		t.mu.Lock()
		t.dials[n].End = Now()
		if err != nil {
			t.dials[n].Err = err.Error()
		}
		t.mu.Unlock()
	}
	if fail != nil {
		if err := fail(n); err != nil {
			finish(err)
			return nil, err
		}
	}
	if hold != nil {
		if err := hold(ctx, n); err != nil {
			finish(err)
			return nil, err
		}
	}
	var d net.Dialer
	c, err := d.DialContext(ctx, network, address)
	if err == nil && IsSelfConn(c) { // see IsSelfConn: a refused port must stay refused
		_ = c.Close()
		err = &net.OpError{Op: "dial", Net: network, Err: ErrSelfConnect}
	}
	if err != nil {
		finish(err)
		return nil, err
	}
	if delay != nil {
		if dl := delay(n); dl > 0 {
			time.Sleep(dl)
		}
	}
	tc := &TrackConn{TCPConn: c.(*net.TCPConn), owner: t} //nolint:forcetypeassert // tcp dial
	t.mu.Lock()
	t.conns = append(t.conns, tc)
	wrap := t.Wrap
	t.mu.Unlock()
	finish(nil)
	if wrap != nil {
		return wrap(tc), nil
	}

	return tc, nil
}

// GateConn is a net.Conn handed to the library whose writes can be made to BLOCK, the way a socket behaves whose
// peer has a zero window and whose send buffer is full — without depending on kernel buffer sizes. It embeds the
// net.Conn INTERFACE, so net.Buffers.WriteTo cannot take the writev fast path around Write. A blocked Write ends
// with os.ErrDeadlineExceeded at the write deadline the library armed (if any) and with net.ErrClosed when the
// library closes the connection; without either it blocks for as long as the gate is shut.
type GateConn struct {
	net.Conn
	block  atomic.Bool
	wdl    atomic.Int64 // write deadline, unix nanos; 0 = none
	closed chan struct{}
	once   sync.Once
	// BlockedWrites counts Write calls that found the gate shut.
	BlockedWrites atomic.Int64
}

// NewGateConn wraps c.
func NewGateConn(c net.Conn) *GateConn { return &GateConn{Conn: c, closed: make(chan struct{})} }

// BlockWrites shuts (true) or opens (false) the gate.
func (g *GateConn) BlockWrites(on bool) { g.block.Store(on) }

// Write blocks while the gate is shut.
func (g *GateConn) Write(b []byte) (int, error) {
	first := true
	for g.block.Load() {
		if first {
			g.BlockedWrites.Add(1)
			first = false
		}
		select {
		case <-g.closed:
			return 0, net.ErrClosed
		default:
		}
		if dl := g.wdl.Load(); dl != 0 && time.Now().UnixNano() >= dl {
			return 0, os.ErrDeadlineExceeded
		}
		time.Sleep(time.Millisecond)
	}

	return g.Conn.Write(b)
}

// SetWriteDeadline records the deadline for blocked writes and passes it on.
func (g *GateConn) SetWriteDeadline(t time.Time) error {
	if t.IsZero() {
		g.wdl.Store(0)
	} else {
		g.wdl.Store(t.UnixNano())
	}

	return g.Conn.SetWriteDeadline(t)
}

// SetDeadline covers both directions.
func (g *GateConn) SetDeadline(t time.Time) error {
	if t.IsZero() {
		g.wdl.Store(0)
	} else {
		g.wdl.Store(t.UnixNano())
	}

	return g.Conn.SetDeadline(t)
}

// Close releases blocked writers and closes the wrapped connection.
func (g *GateConn) Close() error {
	g.once.Do(func() { close(g.closed) })

	return g.Conn.Close()
}

// TrackListener wraps the listener handed to a passive library.
type TrackListener struct {
	*net.TCPListener
	owner  *Tracker
	closed atomic.Bool
}

// Accept hands out tracked connections.
func (l *TrackListener) Accept() (net.Conn, error) {
	c, err := l.TCPListener.AcceptTCP()
	if err != nil {
		return nil, err
	}
	if g := l.owner.AcceptGate; g != nil {
		g()
	}
	tc := &TrackConn{TCPConn: c, owner: l.owner}
	l.owner.mu.Lock()
	l.owner.conns = append(l.owner.conns, tc)
	wrap := l.owner.Wrap
	l.owner.mu.Unlock()
	if wrap != nil {
		return wrap(tc), nil
	}

	return tc, nil
}

// Close records and closes.
func (l *TrackListener) Close() error {
	l.closed.Store(true)

	return l.TCPListener.Close()
}

// ListenFunc is the hsmsss/secs1 ListenFunc: it ignores the configured port and binds the address
// in lastAddr's port if one was bound before (so the scripted peer can redial), else 127.0.0.1:0.
func (t *Tracker) ListenFunc(ctx context.Context, network, address string) (net.Listener, error) {
	n := int(t.listens.Add(1)) - 1
	t.mu.Lock()
	f := t.FailListen
	t.mu.Unlock()
	if f != nil {
		if err := f(n); err != nil {
			return nil, err
		}
	}
	t.mu.Lock()
	port := 0
	if len(t.listeners) > 0 {
		port = t.listeners[0].Addr().(*net.TCPAddr).Port //nolint:forcetypeassert // tcp listener
	}
	t.mu.Unlock()
	var lc net.ListenConfig
	var l net.Listener
	var err error
	for try := 0; try < 50; try++ {
		l, err = lc.Listen(ctx, "tcp4", net.JoinHostPort(LoopHost, itoa(port)))
		if err == nil || port == 0 {
			break
		}
		time.Sleep(10 * time.Millisecond) // previous generation's listener may still be closing
	}
	if err != nil {
		return nil, err
	}
	tl := &TrackListener{TCPListener: l.(*net.TCPListener), owner: t} //nolint:forcetypeassert // tcp listener
	t.mu.Lock()
	t.listeners = append(t.listeners, tl)
	t.mu.Unlock()

	return tl, nil
}

func itoa(n int) string {
	if n == 0 {
		return "0"
	}
	var b [8]byte
	i := len(b)
	for n > 0 {
		i--
		b[i] = byte('0' + n%10)
		n /= 10
	}

	return string(b[i:])
}

// ListenAddr returns the address of the most recent listener (for the scripted peer to dial), waiting
// up to d for a listener to exist.
func (t *Tracker) ListenAddr(d time.Duration) (string, error) {
	deadline := time.Now().Add(d)
	for {
		t.mu.Lock()
		if n := len(t.listeners); n > 0 {
			a := t.listeners[n-1].Addr().String()
			t.mu.Unlock()

			return a, nil
		}
		t.mu.Unlock()
		if time.Now().After(deadline) {
			return "", errors.New("peer: library never listened")
		}
		time.Sleep(time.Millisecond)
	}
}

// Unclosed returns how many sockets and listeners given to the library have not seen Close.
func (t *Tracker) Unclosed() (conns, listeners int) {
	t.mu.Lock()
	defer t.mu.Unlock()
	for _, c := range t.conns {
		if !c.Closed() {
			conns++
		}
	}
	for _, l := range t.listeners {
		if !l.closed.Load() {
			listeners++
		}
	}

	return conns, listeners
}

// ConnCount is the number of sockets handed to the library so far.
func (t *Tracker) ConnCount() int {
	t.mu.Lock()
	defer t.mu.Unlock()

	return len(t.conns)
}

// ---------------------------------------------------------------------------------------------

// CapLogger is a logger.Logger that discards everything except Warn/Error lines, which it keeps
// (bounded) so monitors can look for the library's own diagnostics (e.g. the coalescing Warn).
type CapLogger struct {
	mu    sync.Mutex
	lines []LogLine
	warns atomic.Int64
}

// LogLine is one captured Warn/Error.
type LogLine struct {
	At    time.Duration
	Level string
	Msg   string
	KV    []any
}

var _ logger.Logger = (*CapLogger)(nil)

func (l *CapLogger) keep(level, msg string, kv []any) {
	l.warns.Add(1)
	l.mu.Lock()
	if len(l.lines) < 2000 {
		l.lines = append(l.lines, LogLine{At: Now(), Level: level, Msg: msg, KV: append([]any(nil), kv...)})
	}
	l.mu.Unlock()
}

// Debug discards.
func (l *CapLogger) Debug(string, ...any) {}

// Info discards.
func (l *CapLogger) Info(string, ...any) {}

// Warn keeps.
func (l *CapLogger) Warn(msg string, kv ...any) { l.keep("warn", msg, kv) }

// Error keeps.
func (l *CapLogger) Error(msg string, kv ...any) { l.keep("error", msg, kv) }

// Fatal keeps (and does NOT exit).
func (l *CapLogger) Fatal(msg string, kv ...any) { l.keep("fatal", msg, kv) }

// With returns the same logger.
func (l *CapLogger) With(...any) logger.Logger { return l }

// Level reports WarnLevel.
func (l *CapLogger) Level() logger.LogLevel { return logger.WarnLevel }

// SetLevel is a no-op.
func (l *CapLogger) SetLevel(logger.LogLevel) {}

// Lines returns the captured lines whose message contains sub.
func (l *CapLogger) Lines(sub string) []LogLine {
	l.mu.Lock()
	defer l.mu.Unlock()
	var out []LogLine
	for _, ln := range l.lines {
		if strings.Contains(ln.Msg, sub) {
			out = append(out, ln)
		}
	}

	return out
}
