// Package e4peer is a reference SEMI E4 endpoint that talks to a real secs1 connection over a real
// loopback TCP socket. The protocol logic is verif/ref/e4 (independent of go-secs); this package
// only binds it to a socket and records what crossed it.
package e4peer

import (
	"context"
	"net"
	"sync"
	"time"

	"verif/ref/e4"
)

type chunk struct {
	b   []byte
	err error
}

// Peer is one TCP generation of the reference endpoint. The protocol methods (Line.Attempt,
// Line.Idle, Serve) must be driven from one goroutine at a time.
type Peer struct {
	Line *e4.Line

	conn net.Conn
	rx   chan chunk
	buf  []byte
	err  error

	mu       sync.Mutex
	received []e4.Rx
	decide   func(rx *e4.Rx) bool
	bytesIn  int64
	bytesOut int64
}

// New wraps an established connection. master = this end is the equipment.
func New(conn net.Conn, master bool, t1, t2 time.Duration) *Peer {
	if tc, ok := conn.(*net.TCPConn); ok {
		_ = tc.SetNoDelay(true)
	}
	p := &Peer{conn: conn, rx: make(chan chunk, 4096)}
	p.Line = &e4.Line{IO: p, Master: master, T1: t1, T2: t2, OnRx: p.onRx}
	go p.reader()

	return p
}

func (p *Peer) reader() {
	for {
		tmp := make([]byte, 4096)
		n, err := p.conn.Read(tmp)
		if n > 0 {
			p.rx <- chunk{b: tmp[:n]}
		}
		if err != nil {
			p.rx <- chunk{err: err}
			close(p.rx)

			return
		}
	}
}

// Next implements e4.IO.
func (p *Peer) Next(d time.Duration) (byte, bool, error) {
	if len(p.buf) == 0 {
		if p.err != nil {
			return 0, false, p.err
		}
		if d <= 0 {
			d = time.Microsecond
		}
		t := time.NewTimer(d)
		select {
		case c, ok := <-p.rx:
			t.Stop()
			if !ok {
				p.err = e4.ErrLineClosed

				return 0, false, p.err
			}
			if c.err != nil {
				p.err = e4.ErrLineClosed

				return 0, false, p.err
			}
			p.buf = c.b
			p.mu.Lock()
			p.bytesIn += int64(len(c.b))
			p.mu.Unlock()
		case <-t.C:
			return 0, false, nil
		}
	}
	c := p.buf[0]
	p.buf = p.buf[1:]

	return c, true, nil
}

// Write implements e4.IO.
func (p *Peer) Write(b []byte) error {
	_ = p.conn.SetWriteDeadline(time.Now().Add(10 * time.Second))
	_, err := p.conn.Write(b)
	p.mu.Lock()
	p.bytesOut += int64(len(b))
	p.mu.Unlock()

	return err
}

func (p *Peer) onRx(rx *e4.Rx) bool {
	p.mu.Lock()
	defer p.mu.Unlock()
	ack := rx.Err == e4.OK
	if ack && p.decide != nil {
		ack = p.decide(rx)
	}
	cp := *rx
	cp.Raw = append([]byte(nil), rx.Raw...)
	cp.Acked = ack
	p.received = append(p.received, cp)

	return ack
}

// SetDecide installs the ACK/NAK decision for valid inbound blocks (nil = always ACK).
func (p *Peer) SetDecide(f func(rx *e4.Rx) bool) {
	p.mu.Lock()
	p.decide = f
	p.mu.Unlock()
}

// TakeReceived returns and clears the transmissions received so far.
func (p *Peer) TakeReceived() []e4.Rx {
	p.mu.Lock()
	defer p.mu.Unlock()
	r := p.received
	p.received = nil

	return r
}

// Serve services the line until ctx is done or the line closes.
func (p *Peer) Serve(ctx context.Context) error {
	for ctx.Err() == nil {
		if _, err := p.Line.Idle(20 * time.Millisecond); err != nil {
			return err
		}
	}

	return nil
}

// Err reports a closed line.
func (p *Peer) Err() error { return p.err }

// Close closes the socket.
func (p *Peer) Close() { _ = p.conn.Close() }

// Listen opens a listener on an ephemeral port of the given loopback address.
func Listen(host string) (net.Listener, int, error) {
	ln, err := net.Listen("tcp", host+":0")
	if err != nil {
		return nil, 0, err
	}

	return ln, ln.Addr().(*net.TCPAddr).Port, nil
}
