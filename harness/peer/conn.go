package peer

import (
	"encoding/binary"
	"errors"
	"fmt"
	"io"
	"net"
	"os"
	"sync"
	"sync/atomic"
	"time"
)

// Base is the monotonic clock origin shared by every recorder of a process.
var Base = time.Now()

// Now returns the monotonic time since Base.
func Now() time.Duration { return time.Since(Base) }

// RecvEvent is one frame the peer read, with its arrival time and index on this connection.
type RecvEvent struct {
	Idx   int
	At    time.Duration
	Frame Frame
}

// Conn is one TCP connection of the scripted peer. A reader goroutine parses every inbound frame,
// appends it to the log, optionally hands it to OnFrame (the behaviour program; runs on the reader
// goroutine, so answers leave in arrival order) and queues it for Recv/Expect.
type Conn struct {
	C   *net.TCPConn
	Gen int // connection generation (assigned by the owner)

	// OnFrame, when set BEFORE Start, is called for every inbound frame on the reader goroutine.
	// Return true to also queue the frame for Recv.
	OnFrame func(c *Conn, f Frame) (queue bool)

	wmu sync.Mutex

	mu      sync.Mutex
	log     []RecvEvent
	rawRead int64
	sentLog []SentEvent
	readErr error

	q      chan Frame
	closed chan struct{} // closed when the reader ends
	once   sync.Once
	sent   atomic.Int64 // frames written via Send

	stallRead atomic.Bool // when set the reader stops reading (peer stalls)
	noReader  bool
}

// NewConn wraps an established TCP connection. Call Start to launch the reader.
func NewConn(c *net.TCPConn, gen int) *Conn {
	_ = c.SetNoDelay(true)

	return &Conn{C: c, Gen: gen, q: make(chan Frame, 8192), closed: make(chan struct{})}
}

// Start launches the reader goroutine.
func (p *Conn) Start() *Conn {
	go p.reader()

	return p
}

func (p *Conn) reader() {
	defer close(p.closed)
	var lenBuf [4]byte
	for {
		for p.stallRead.Load() {
			time.Sleep(2 * time.Millisecond)
		}
		if _, err := io.ReadFull(p.C, lenBuf[:]); err != nil {
			p.setErr(err)
			return
		}
		n := binary.BigEndian.Uint32(lenBuf[:])
		if n < 10 || n > 64<<20 {
			p.setErr(fmt.Errorf("peer: bad length %d from library", n))
			return
		}
		buf := make([]byte, n)
		// the body is read in chunks so that StallReads also takes effect in the middle of a (large) frame — the
		// reader is usually already parked in the read of the length prefix when the stall is requested
		for off := 0; off < len(buf); {
			for p.stallRead.Load() {
				time.Sleep(2 * time.Millisecond)
			}
			end := min(off+32<<10, len(buf))
			if _, err := io.ReadFull(p.C, buf[off:end]); err != nil {
				p.setErr(err)
				return
			}
			off = end
		}
		f, _ := ParseFrame(buf)
		p.mu.Lock()
		p.rawRead += int64(4 + n)
		p.log = append(p.log, RecvEvent{Idx: len(p.log), At: Now(), Frame: f})
		p.mu.Unlock()
		queue := true
		if p.OnFrame != nil {
			queue = p.OnFrame(p, f)
		}
		if queue {
			select {
			case p.q <- f:
			default: // queue full: the log still has it
			}
		}
	}
}

func (p *Conn) setErr(err error) {
	p.mu.Lock()
	if p.readErr == nil {
		p.readErr = err
	}
	p.mu.Unlock()
}

// ReadErr returns the error that ended the reader (nil while it runs).
func (p *Conn) ReadErr() error {
	p.mu.Lock()
	defer p.mu.Unlock()

	return p.readErr
}

// Done is closed when the reader has ended (EOF / reset / local close).
func (p *Conn) Done() <-chan struct{} { return p.closed }

// WaitClosed waits until the library side closed the connection (reader ended).
func (p *Conn) WaitClosed(d time.Duration) bool {
	select {
	case <-p.closed:
		return true
	case <-time.After(d):
		return false
	}
}

// Log returns a copy of everything read so far.
func (p *Conn) Log() []RecvEvent {
	p.mu.Lock()
	defer p.mu.Unlock()

	return append([]RecvEvent(nil), p.log...)
}

// LogLen is the number of frames read so far.
func (p *Conn) LogLen() int {
	p.mu.Lock()
	defer p.mu.Unlock()

	return len(p.log)
}

// StallReads makes the reader stop consuming (the library's writes then back up).
func (p *Conn) StallReads(on bool) { p.stallRead.Store(on) }

// SentEvent is one frame the peer wrote, in write order.
type SentEvent struct {
	Idx   int
	At    time.Duration
	Frame Frame
}

// Send writes the frames back-to-back in ONE write call and records them in the sent log (write order).
func (p *Conn) Send(frames ...Frame) error {
	var b []byte
	for _, f := range frames {
		b = append(b, f.Bytes()...)
	}
	p.sent.Add(int64(len(frames)))
	p.wmu.Lock()
	defer p.wmu.Unlock()
	_ = p.C.SetWriteDeadline(time.Now().Add(20 * time.Second))
	_, err := p.C.Write(b)
	now := Now()
	p.mu.Lock()
	for _, f := range frames {
		p.sentLog = append(p.sentLog, SentEvent{Idx: len(p.sentLog), At: now, Frame: f})
	}
	p.mu.Unlock()

	return err
}

// SentLog returns a copy of the frames written through Send, in write order.
func (p *Conn) SentLog() []SentEvent {
	p.mu.Lock()
	defer p.mu.Unlock()

	return append([]SentEvent(nil), p.sentLog...)
}

// SendRaw writes raw bytes in one write call.
func (p *Conn) SendRaw(b []byte) error {
	p.wmu.Lock()
	defer p.wmu.Unlock()
	_ = p.C.SetWriteDeadline(time.Now().Add(20 * time.Second))
	_, err := p.C.Write(b)

	return err
}

// SendSegments writes b cut at the given offsets (ascending, within len(b)), sleeping gap between
// segments; it returns the largest gap actually measured between two segment writes.
func (p *Conn) SendSegments(b []byte, cuts []int, gap time.Duration) (maxGap time.Duration, err error) {
	p.wmu.Lock()
	defer p.wmu.Unlock()
	prev := 0
	var last time.Time
	write := func(seg []byte) error {
		if len(seg) == 0 {
			return nil
		}
		now := time.Now()
		if !last.IsZero() {
			if g := now.Sub(last); g > maxGap {
				maxGap = g
			}
		}
		_ = p.C.SetWriteDeadline(now.Add(20 * time.Second))
		_, e := p.C.Write(seg)
		last = time.Now()

		return e
	}
	for _, c := range cuts {
		if c <= prev || c >= len(b) {
			continue
		}
		if err = write(b[prev:c]); err != nil {
			return maxGap, err
		}
		prev = c
		if gap > 0 {
			time.Sleep(gap)
		}
	}
	err = write(b[prev:])

	return maxGap, err
}

// Recv returns the next queued frame.
func (p *Conn) Recv(d time.Duration) (Frame, error) {
	t := time.NewTimer(d)
	defer t.Stop()
	select {
	case f := <-p.q:
		return f, nil
	default:
	}
	select {
	case f := <-p.q:
		return f, nil
	case <-p.closed:
		select {
		case f := <-p.q:
			return f, nil
		default:
		}

		return Frame{}, ErrPeerClosed
	case <-t.C:
		return Frame{}, ErrTimeout
	}
}

// ErrTimeout and ErrPeerClosed are Recv/Expect outcomes.
var (
	ErrTimeout    = errors.New("peer: timeout")
	ErrPeerClosed = errors.New("peer: connection closed by library")
)

// Expect reads queued frames until pred matches; skipped frames are returned too.
func (p *Conn) Expect(d time.Duration, pred func(Frame) bool) (match Frame, skipped []Frame, err error) {
	deadline := time.Now().Add(d)
	for {
		rem := time.Until(deadline)
		if rem <= 0 {
			return Frame{}, skipped, ErrTimeout
		}
		f, e := p.Recv(rem)
		if e != nil {
			return Frame{}, skipped, e
		}
		if pred(f) {
			return f, skipped, nil
		}
		skipped = append(skipped, f)
	}
}

var barrierSeq atomic.Uint32

// Barrier sends a Linktest.req with a unique system-bytes value and reads until its Linktest.rsp.
// Because the library's receive loop is serial and every response leaves through one FIFO sender,
// everything the library did for frames written before the barrier is on the wire before that rsp.
// It returns the frames that arrived before the rsp.
func (p *Conn) Barrier(d time.Duration) (before []Frame, err error) {
	sys := 0xBA000000 | (barrierSeq.Add(1) & 0xFFFFFF)
	if err = p.Send(LinktestReq(sys)); err != nil {
		return nil, err
	}
	_, before, err = p.Expect(d, func(f Frame) bool { return f.SType == STLinktestRsp && f.PType == 0 && f.Sys == sys })

	return before, err
}

// Close closes the peer side gracefully (FIN).
func (p *Conn) Close() {
	p.once.Do(func() { _ = p.C.Close() })
}

// Reset closes the peer side abortively (RST).
func (p *Conn) Reset() {
	p.once.Do(func() {
		_ = p.C.SetLinger(0)
		_ = p.C.Close()
	})
}

// Listener is the scripted peer in the passive TCP role (the library dials it).
type Listener struct {
	L    *net.TCPListener
	gen  atomic.Int32
	Addr *net.TCPAddr
}

// LoopHost is a loopback address unique to this process (every 127/8 address is local on Linux).
// Other workloads on the machine use 127.0.0.1; with a private address a dial to a port whose listener
// has just gone away is refused instead of reaching a foreign listener that picked up the same
// ephemeral port, and a re-listen on a fixed port cannot lose it to another process.
var LoopHost = fmt.Sprintf("127.%d.%d.%d", 64+(os.Getpid()>>16)&63, 1+(os.Getpid()>>8)&0xFF%254, 1+os.Getpid()&0xFF%254)

// Listen binds LoopHost:0.
func Listen() (*Listener, error) {
	l, err := net.ListenTCP("tcp4", &net.TCPAddr{IP: net.ParseIP(LoopHost)})
	if err != nil {
		return nil, err
	}

	return &Listener{L: l, Addr: l.Addr().(*net.TCPAddr)}, nil //nolint:forcetypeassert // tcp listener
}

// Port returns the bound port.
func (l *Listener) Port() int { return l.Addr.Port }

// Accept waits for the next connection from the library; the Conn is NOT started.
func (l *Listener) Accept(d time.Duration) (*Conn, error) {
	_ = l.L.SetDeadline(time.Now().Add(d))
	c, err := l.L.AcceptTCP()
	if err != nil {
		return nil, err
	}

	return NewConn(c, int(l.gen.Add(1))), nil
}

// Drain accepts and closes every connection already queued on the listener (connections the library
// dialed that the peer never accepted). It stops after three consecutive 40 ms polls found nothing: a
// single short accept deadline can expire spuriously on a loaded machine although connections are queued.
func (l *Listener) Drain() (n int) {
	for idle := 0; idle < 3; {
		c, err := l.Accept(40 * time.Millisecond)
		if err != nil {
			idle++
			continue
		}
		idle = 0
		n++
		c.Close()
	}

	return n
}

// Close closes the listener.
func (l *Listener) Close() { _ = l.L.Close() }

// ErrSelfConnect is returned instead of a TCP self-connection.
var ErrSelfConnect = errors.New("peer: dial produced a TCP self-connection (no listener on the port); treated as refused")

// IsSelfConn reports a TCP self-connection: dialling a local port in the ephemeral range that nobody listens on can
// make the kernel pick that very port as the source port, and the socket then connects to ITSELF (simultaneous
// open). Everything written comes back as input. A harness that re-dials a just-closed loopback port in a loop hits
// this about once in 10^4..10^5 dials (seen once: a middlebox "connected" to the passive end's old port and echoed
// the active end's own characters back at it). A remote peer can never do this, so every harness dial rejects it.
func IsSelfConn(c net.Conn) bool {
	la, ra := c.LocalAddr(), c.RemoteAddr()

	return la != nil && ra != nil && la.String() == ra.String()
}

// Dial connects the scripted peer to a library that listens on addr; the Conn is NOT started.
func Dial(addr string, gen int, d time.Duration) (*Conn, error) {
	c, err := net.DialTimeout("tcp4", addr, d)
	if err != nil {
		return nil, err
	}
	if IsSelfConn(c) {
		_ = c.Close()

		return nil, ErrSelfConnect
	}

	return NewConn(c.(*net.TCPConn), gen), nil //nolint:forcetypeassert // tcp dial
}
