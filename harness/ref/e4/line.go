package e4

import (
	"errors"
	"time"
)

// IO is the character stream a Line drives.
type IO interface {
	// Next waits up to d for the next character; ok=false means nothing arrived in time.
	Next(d time.Duration) (c byte, ok bool, err error)
	Write(p []byte) error
}

// ErrLineClosed is returned when the underlying stream ended.
var ErrLineClosed = errors.New("e4: line closed")

// Rx is one transmission the Line received after granting the line.
type Rx struct {
	Raw   []byte // everything read for this transmission, length byte first
	Block Block
	Err   ParseErr // OK = valid block
	Acked bool
	At    time.Time
}

// Line is the E4 §7.8 half-duplex block transfer protocol for one end (either role).
type Line struct {
	IO     IO
	Master bool          // equipment: wins contention
	T1, T2 time.Duration // this end's own timers
	// OnRx is called for every received transmission BEFORE the ACK/NAK is written. For a valid
	// block the return value decides ACK (true) or NAK (false); invalid ones are always NAKed.
	OnRx func(rx *Rx) bool
}

// Resp classifies the outcome of one send attempt.
type Resp int

// Outcomes of Attempt.
const (
	RespACK   Resp = iota // ACK received
	RespNAK               // NAK received
	RespOther             // some other character received instead of ACK
	RespNone              // nothing within the wait
	RespNoEOT             // the line was never granted (no EOT within T2)
)

func (r Resp) String() string {
	return [...]string{"ACK", "NAK", "OTHER", "NONE", "NO-EOT"}[r]
}

// Attempt is the record of one send attempt.
type Attempt struct {
	Resp     Resp
	Char     byte
	TEnq     time.Time // just before the (last) ENQ was written
	TEot     time.Time // EOT read
	TWritten time.Time // block written
	TResp    time.Time // response read
	Yields   int       // contention yields performed (slave only)
}

// Attempt performs one ENQ/EOT/block/response exchange. segs are written one after the other with
// gaps[i] slept before segs[i] (gaps may be nil). respWait bounds the wait for the response.
func (l *Line) Attempt(segs [][]byte, gaps []time.Duration, respWait time.Duration) (Attempt, error) {
	var a Attempt
	a.TEnq = time.Now()
	if err := l.IO.Write([]byte{ENQ}); err != nil {
		return a, err
	}
	deadline := time.Now().Add(l.T2)
	for {
		rem := time.Until(deadline)
		if rem <= 0 {
			a.Resp = RespNoEOT

			return a, nil
		}
		c, ok, err := l.IO.Next(rem)
		if err != nil {
			return a, err
		}
		if !ok {
			a.Resp = RespNoEOT

			return a, nil
		}
		if c == EOT {
			break
		}
		if c == ENQ && !l.Master {
			// contention: the slave postpones its send, takes the master's block, then starts over
			a.Yields++
			if err := l.Receive(); err != nil {
				return a, err
			}
			a.TEnq = time.Now()
			if err := l.IO.Write([]byte{ENQ}); err != nil {
				return a, err
			}
			deadline = time.Now().Add(l.T2)
		}
		// anything else is ignored while waiting for EOT
	}
	a.TEot = time.Now()
	for i, s := range segs {
		if i < len(gaps) && gaps[i] > 0 {
			time.Sleep(gaps[i])
		}
		if len(s) == 0 {
			continue
		}
		if err := l.IO.Write(s); err != nil {
			return a, err
		}
	}
	a.TWritten = time.Now()
	c, ok, err := l.IO.Next(respWait)
	if err != nil {
		return a, err
	}
	a.TResp = time.Now()
	switch {
	case !ok:
		a.Resp = RespNone
	case c == ACK:
		a.Resp = RespACK
	case c == NAK:
		a.Resp = RespNAK
	default:
		a.Resp = RespOther
	}
	a.Char = c

	return a, nil
}

// Receive grants the line (EOT) and receives one transmission per E4 §7.8.5, answering ACK or NAK.
func (l *Line) Receive() error {
	if err := l.IO.Write([]byte{EOT}); err != nil {
		return err
	}
	rx := &Rx{}
	nak := func() error {
		rx.At = time.Now()
		if l.OnRx != nil {
			l.OnRx(rx)
		}

		return l.IO.Write([]byte{NAK})
	}
	c, ok, err := l.IO.Next(l.T2)
	if err != nil {
		return err
	}
	if !ok {
		rx.Err = ErrEmpty

		return nak()
	}
	rx.Raw = append(rx.Raw, c)
	n := int(c)
	if n < MinLen || n > MaxLen {
		rx.Err = ErrLenRange
		if err := l.drain(rx); err != nil {
			return err
		}

		return nak()
	}
	for len(rx.Raw) < 1+n+2 {
		c, ok, err := l.IO.Next(l.T1)
		if err != nil {
			return err
		}
		if !ok {
			rx.Err = ErrLenActual

			return nak()
		}
		rx.Raw = append(rx.Raw, c)
	}
	rx.Block, rx.Err = Parse(rx.Raw)
	if rx.Err != OK {
		if err := l.drain(rx); err != nil {
			return err
		}

		return nak()
	}
	rx.At = time.Now()
	rx.Acked = true
	if l.OnRx != nil && !l.OnRx(rx) {
		rx.Acked = false

		return l.IO.Write([]byte{NAK})
	}

	return l.IO.Write([]byte{ACK})
}

// drain keeps listening until the line has been silent for T1.
func (l *Line) drain(rx *Rx) error {
	for {
		c, ok, err := l.IO.Next(l.T1)
		if err != nil {
			return err
		}
		if !ok {
			return nil
		}
		if len(rx.Raw) < 4096 {
			rx.Raw = append(rx.Raw, c)
		}
	}
}

// Idle services the line for d: every ENQ is answered with a receive; other characters are ignored.
// It returns the number of transmissions received.
func (l *Line) Idle(d time.Duration) (int, error) {
	n := 0
	deadline := time.Now().Add(d)
	for {
		rem := time.Until(deadline)
		if rem <= 0 {
			return n, nil
		}
		c, ok, err := l.IO.Next(rem)
		if err != nil {
			return n, err
		}
		if !ok {
			return n, nil
		}
		if c == ENQ {
			n++
			if err := l.Receive(); err != nil {
				return n, err
			}
		}
	}
}

// ---------------------------------------------------------------------------------------------

// EmitKind classifies one character emitted by a well-formed E4 endpoint.
type EmitKind int

// Emission kinds.
const (
	EmitChar  EmitKind = iota // ENQ/EOT/ACK/NAK outside a block
	EmitStart                 // length byte of a block
	EmitData                  // header/body/checksum byte of a block
	EmitJunk                  // a character no well-formed endpoint emits outside a block
)

// Emit is the classification of one emitted character.
type Emit struct {
	Kind EmitKind
	Char byte
	Pos  int    // position within the block transmission (0 = length byte)
	Size int    // total size of the block transmission
	Last bool   // this is the final checksum byte
	Raw  []byte // set when Last: the whole transmission
}

// EmitParser splits the character stream EMITTED by one E4 endpoint into handshake characters and
// block transmissions. A well-formed endpoint emits a block as LEN followed by exactly LEN+2
// characters, and LEN (10..254) can be confused with a handshake character only for LEN=0x15;
// senders in this harness never produce an 11-byte block body, so the parse is unambiguous.
type EmitParser struct {
	cur  []byte
	size int
}

// InBlock reports whether the parser is inside a block transmission.
func (p *EmitParser) InBlock() bool { return p.size > 0 }

// Feed classifies the next emitted character.
func (p *EmitParser) Feed(c byte) Emit {
	if p.size > 0 {
		p.cur = append(p.cur, c)
		e := Emit{Kind: EmitData, Char: c, Pos: len(p.cur) - 1, Size: p.size}
		if len(p.cur) == p.size {
			e.Last, e.Raw = true, p.cur
			p.cur, p.size = nil, 0
		}

		return e
	}
	switch {
	case c == ENQ || c == EOT || c == ACK || c == NAK:
		return Emit{Kind: EmitChar, Char: c}
	case int(c) >= MinLen && int(c) <= MaxLen:
		p.size = 1 + int(c) + 2
		p.cur = append(make([]byte, 0, p.size), c)

		return Emit{Kind: EmitStart, Char: c, Pos: 0, Size: p.size}
	default:
		return Emit{Kind: EmitJunk, Char: c}
	}
}
