// Package e4 is an independent reference model of the SEMI E4 (SECS-I) block layer, written from
// the rules as restated in properties C17/C18 and the secs1 package documentation. It shares no code
// with github.com/arloliu/go-secs and does not import it.
//
// Block on the line:  LEN | 10-byte header | body (0..244) | checksum hi | checksum lo
//
//	LEN      = 10 + len(body)                       (10..254)
//	header   = R|device(15) , W|stream(7) , function , E|block(15) , system bytes(4)
//	checksum = 16-bit arithmetic sum of header and body bytes (the length byte is NOT included)
//
// R = 1 means "equipment to host": the equipment (master) transmits R=1, the host (slave) R=0.
package e4

import (
	"bytes"
	"fmt"
)

// Line control characters.
const (
	ENQ byte = 0x05
	EOT byte = 0x04
	ACK byte = 0x06
	NAK byte = 0x15
)

// Size limits.
const (
	MaxBody   = 244
	HeaderLen = 10
	MinLen    = 10
	MaxLen    = 254
)

// Header is one decoded 10-byte block header.
type Header struct {
	Device   uint16  `json:"dev"`
	R        bool    `json:"r"`
	W        bool    `json:"w"`
	Stream   uint8   `json:"s"`
	Function uint8   `json:"f"`
	E        bool    `json:"e"`
	Block    uint16  `json:"blk"`
	System   [4]byte `json:"sys"`
}

// Pack serializes the header.
func (h Header) Pack() [10]byte {
	var b [10]byte
	b[0] = byte(h.Device>>8) & 0x7F
	if h.R {
		b[0] |= 0x80
	}
	b[1] = byte(h.Device)
	b[2] = h.Stream & 0x7F
	if h.W {
		b[2] |= 0x80
	}
	b[3] = h.Function
	b[4] = byte(h.Block>>8) & 0x7F
	if h.E {
		b[4] |= 0x80
	}
	b[5] = byte(h.Block)
	copy(b[6:], h.System[:])

	return b
}

// Unpack decodes 10 header bytes.
func Unpack(b []byte) Header {
	var h Header
	h.R = b[0]&0x80 != 0
	h.Device = uint16(b[0]&0x7F)<<8 | uint16(b[1])
	h.W = b[2]&0x80 != 0
	h.Stream = b[2] & 0x7F
	h.Function = b[3]
	h.E = b[4]&0x80 != 0
	h.Block = uint16(b[4]&0x7F)<<8 | uint16(b[5])
	copy(h.System[:], b[6:10])

	return h
}

// Msg returns the message-invariant part of the header (block number and E-bit cleared).
func (h Header) Msg() Header {
	h.Block, h.E = 0, false

	return h
}

func (h Header) String() string {
	return fmt.Sprintf("dev=%d R=%t S%dF%d W=%t blk=%d E=%t sys=%x", h.Device, h.R, h.Stream, h.Function, h.W, h.Block, h.E, h.System)
}

// Block is a header plus body.
type Block struct {
	Header
	Body []byte
}

// Sum is the E4 checksum of p.
func Sum(p []byte) uint16 {
	var s uint32
	for _, c := range p {
		s += uint32(c)
	}

	return uint16(s)
}

// Wire returns the complete transmission of the block (length byte first).
func (b Block) Wire() []byte {
	h := b.Header.Pack()
	out := make([]byte, 0, 1+HeaderLen+len(b.Body)+2)
	out = append(out, byte(HeaderLen+len(b.Body)))
	out = append(out, h[:]...)
	out = append(out, b.Body...)
	cs := Sum(out[1:])

	return append(out, byte(cs>>8), byte(cs))
}

// ParseErr classifies a transmission that is not a valid block.
type ParseErr string

// Parse failure classes.
const (
	OK           ParseErr = ""
	ErrEmpty     ParseErr = "empty"
	ErrLenRange  ParseErr = "length-byte-out-of-range"
	ErrLenActual ParseErr = "length-byte-disagrees-with-data"
	ErrChecksum  ParseErr = "checksum"
)

// Parse decodes one complete transmission (length byte, header, body, checksum).
func Parse(raw []byte) (Block, ParseErr) {
	if len(raw) == 0 {
		return Block{}, ErrEmpty
	}
	n := int(raw[0])
	if n < MinLen || n > MaxLen {
		return Block{}, ErrLenRange
	}
	if len(raw) != 1+n+2 {
		return Block{}, ErrLenActual
	}
	if Sum(raw[1:1+n]) != uint16(raw[1+n])<<8|uint16(raw[2+n]) {
		return Block{}, ErrChecksum
	}

	return Block{Header: Unpack(raw[1:11]), Body: append([]byte(nil), raw[11:1+n]...)}, OK
}

// ReceiverView says what a receiver following E4 §7.8.5 makes of a transmission when nothing
// else follows it on the line: it reads the length byte, then LEN+2 further characters.
// "accept" = ACK; everything else = NAK.
func ReceiverView(raw []byte) (Block, ParseErr) {
	if len(raw) == 0 {
		return Block{}, ErrEmpty
	}
	n := int(raw[0])
	if n < MinLen || n > MaxLen {
		return Block{}, ErrLenRange
	}
	if len(raw) < 1+n+2 {
		return Block{}, ErrLenActual // T1 expires waiting for the missing characters
	}

	return Parse(raw[:1+n+2]) // surplus characters are drained
}

// Split is the reference splitter: blocks 1..N of at most 244 body bytes, E-bit on the last, an
// empty body gives one header-only block.
func Split(msg Header, body []byte) []Block {
	msg = msg.Msg()
	var out []Block
	if len(body) == 0 {
		h := msg
		h.Block, h.E = 1, true

		return []Block{{Header: h}}
	}
	for off, n := 0, uint16(1); off < len(body); off, n = off+MaxBody, n+1 {
		end := off + MaxBody
		if end > len(body) {
			end = len(body)
		}
		h := msg
		h.Block, h.E = n, end == len(body)
		out = append(out, Block{Header: h, Body: body[off:end]})
	}

	return out
}

// CheckMessage verifies that blocks (as parsed off the line, in order of first acceptance) are a
// well-formed E4 rendering of the message (want, body). It returns "" or a description of the first
// rule that is broken together with a stable rule name.
func CheckMessage(blocks []Block, want Header, body []byte) (rule, detail string) {
	want = want.Msg()
	if len(blocks) == 0 {
		return "no-blocks", "no block was transmitted for the message"
	}
	var cat []byte
	for i, b := range blocks {
		if len(b.Body) > MaxBody {
			return "body-over-244", fmt.Sprintf("block at position %d carries %d body bytes", i+1, len(b.Body))
		}
		if int(b.Block) != i+1 {
			return "block-number", fmt.Sprintf("block at position %d is numbered %d", i+1, b.Block)
		}
		if b.E != (i == len(blocks)-1) {
			return "e-bit", fmt.Sprintf("block %d of %d has E=%t", i+1, len(blocks), b.E)
		}
		if b.Device != want.Device {
			return "device-id", fmt.Sprintf("block %d carries device %d, configured %d", i+1, b.Device, want.Device)
		}
		if b.R != want.R {
			return "r-bit", fmt.Sprintf("block %d carries R=%t, role requires R=%t", i+1, b.R, want.R)
		}
		if b.Stream != want.Stream || b.Function != want.Function || b.W != want.W {
			return "stream-function-w", fmt.Sprintf("block %d carries S%dF%d W=%t, message is S%dF%d W=%t", i+1, b.Stream, b.Function, b.W, want.Stream, want.Function, want.W)
		}
		if b.System != want.System {
			return "system-bytes", fmt.Sprintf("block %d carries system bytes %x, message has %x", i+1, b.System, want.System)
		}
		if i < len(blocks)-1 && len(b.Body) == 0 {
			return "empty-nonfinal-block", fmt.Sprintf("non-final block %d has an empty body", i+1)
		}
		cat = append(cat, b.Body...)
	}
	if !bytes.Equal(cat, body) {
		return "body-concat", fmt.Sprintf("block bodies concatenate to %d bytes, SECS-II encoding has %d (first difference at %d)", len(cat), len(body), firstDiff(cat, body))
	}
	wantN := (len(body) + MaxBody - 1) / MaxBody
	if wantN == 0 {
		wantN = 1
	}
	if len(blocks) != wantN {
		return "block-count", fmt.Sprintf("%d blocks for a %d-byte body, want %d", len(blocks), len(body), wantN)
	}

	return "", ""
}

func firstDiff(a, b []byte) int {
	n := len(a)
	if len(b) < n {
		n = len(b)
	}
	for i := 0; i < n; i++ {
		if a[i] != b[i] {
			return i
		}
	}

	return n
}

// Gap classifies the time since the previous accepted block of an open message.
type Gap int

// Gap classes.
const (
	Within  Gap = iota // certainly less than T4
	Expired            // certainly more than T4
)

// Delivered is a message handed to the application by the receiver model.
type Delivered struct {
	Header Header // Block=0, E=false
	Body   []byte
}

// Receiver is the E4 §9.4 message-receive algorithm for one end of the line.
type Receiver struct {
	Device  uint16
	IsEquip bool // this end is the equipment: it accepts R=0 blocks only

	open     bool
	msg      Header
	expected uint16
	body     []byte

	haveLast bool
	last     [10]byte
}

// Key summarises the complete state of the receiver (two receivers with equal keys behave alike).
func (r *Receiver) Key() string {
	return fmt.Sprintf("%t|%v|%d|%x|%t|%x", r.open, r.msg, r.expected, r.body, r.haveLast, r.last)
}

// Clone returns an independent copy.
func (r *Receiver) Clone() *Receiver {
	c := *r
	c.body = append([]byte(nil), r.body...)

	return &c
}

// Open reports whether a partial message is being accumulated.
func (r *Receiver) Open() bool { return r.open }

// Resync forces the state "no open message, last accepted block = h" (used after a case whose
// timing premise failed but whose sentinel was seen delivered).
func (r *Receiver) Resync(h Header) {
	r.open, r.body = false, nil
	r.haveLast, r.last = true, h.Pack()
}

// Accept feeds one correctly received (ACKed) block. It returns the message completed by it, if
// any, and the disposition of the block.
func (r *Receiver) Accept(b Block, gap Gap) (*Delivered, string) {
	if b.Device != r.Device {
		return nil, "ignored:wrong-device"
	}
	if b.R == r.IsEquip { // equipment receives R=0, host receives R=1
		return nil, "ignored:wrong-direction"
	}
	note := ""
	if r.open && gap == Expired {
		r.open, r.body = false, nil
		note = "t4-discarded-partial;"
	}
	hp := b.Header.Pack()
	if r.haveLast && hp == r.last {
		return nil, note + "ignored:duplicate"
	}
	if r.open {
		if b.Block == r.expected && b.Header.Msg() == r.msg {
			r.body = append(r.body, b.Body...)
			r.expected++
			r.haveLast, r.last = true, hp
			if b.E {
				return r.finish(), note + "appended:complete"
			}

			return nil, note + "appended"
		}
		r.open, r.body = false, nil
		note += "aborted-partial;"
	}
	first := b.Block == 1 || (b.Block == 0 && b.E)
	if !first {
		return nil, note + "ignored:not-a-first-block"
	}
	r.open = true
	r.msg = b.Header.Msg()
	r.expected = b.Block + 1
	r.body = append([]byte(nil), b.Body...)
	r.haveLast, r.last = true, hp
	if b.E {
		return r.finish(), note + "started:complete"
	}

	return nil, note + "started"
}

func (r *Receiver) finish() *Delivered {
	d := &Delivered{Header: r.msg, Body: r.body}
	if d.Body == nil {
		d.Body = []byte{}
	}
	r.open, r.body = false, nil

	return d
}
