// Package e37 is an independent reference model of the SEMI E37 (HSMS) message frame, written
// from the standard's message-format section. It shares no code with go-secs and imports nothing
// but the standard library.
//
// A frame on the TCP stream is
//
//	| 4-byte message length, big-endian, = 10 + len(text) | 10-byte header | text (SECS-II body) |
//
// and the header is
//
//	byte 0-1  session id (device id), big-endian
//	byte 2    data message:    W-bit (0x80) | stream (0..127)
//	          control message: 0, except Reject.req: the PType (reason 2) or SType (any other
//	          reason) of the message being rejected
//	byte 3    data message:    function
//	          Select.rsp / Deselect.rsp: status;  Reject.req: reason code;  other control: 0
//	byte 4    PType (0 = SECS-II; anything else is not supported)
//	byte 5    SType (0 data, 1 Select.req, 2 Select.rsp, 3 Deselect.req, 4 Deselect.rsp,
//	          5 Linktest.req, 6 Linktest.rsp, 7 Reject.req, 9 Separate.req; 8 and 10..255 undefined)
//	byte 6-9  system bytes
//
// Linktest.req/.rsp always carry session id 0xFFFF. A response (.rsp) carries the session id
// and the system bytes of its request. A Reject.req carries the session id and system bytes of
// the message being rejected.
package e37

import "fmt"

// HeaderLen is the length of the message header.
const HeaderLen = 10

// PrefixLen is the length of the message-length field.
const PrefixLen = 4

// DefaultCap is the largest message length (header + text) the implementation under test
// documents as acceptable: 2^24-1 bytes. The standard itself allows any 32-bit value; the cap is
// an implementation parameter, which is why every acceptor here also exists in a ...Cap form.
const DefaultCap = 1<<24 - 1

// SType values.
const (
	STData        uint8 = 0
	STSelectReq   uint8 = 1
	STSelectRsp   uint8 = 2
	STDeselectReq uint8 = 3
	STDeselectRsp uint8 = 4
	STLinktestReq uint8 = 5
	STLinktestRsp uint8 = 6
	STRejectReq   uint8 = 7
	STSeparateReq uint8 = 9
)

// ControlSTypes lists the eight control STypes in numeric order.
var ControlSTypes = []uint8{STSelectReq, STSelectRsp, STDeselectReq, STDeselectRsp, STLinktestReq, STLinktestRsp, STRejectReq, STSeparateReq}

// Reject.req reason codes.
const (
	ReasonSTypeNotSupported  uint8 = 1
	ReasonPTypeNotSupported  uint8 = 2
	ReasonTransactionNotOpen uint8 = 3
	ReasonNotSelected        uint8 = 4
)

// LinktestSession is the session id of every Linktest message.
const LinktestSession uint16 = 0xFFFF

// DefinedSType reports whether s is one of the nine STypes the standard defines.
func DefinedSType(s uint8) bool { return s <= 7 || s == 9 }

// STypeName is a readable SType name.
func STypeName(s uint8) string {
	switch s {
	case STData:
		return "Data"
	case STSelectReq:
		return "Select.req"
	case STSelectRsp:
		return "Select.rsp"
	case STDeselectReq:
		return "Deselect.req"
	case STDeselectRsp:
		return "Deselect.rsp"
	case STLinktestReq:
		return "Linktest.req"
	case STLinktestRsp:
		return "Linktest.rsp"
	case STRejectReq:
		return "Reject.req"
	case STSeparateReq:
		return "Separate.req"
	}

	return fmt.Sprintf("SType(%d)", s)
}

// Frame is the logical content of one HSMS message: the six header fields and the text.
type Frame struct {
	SessionID uint16
	Byte2     uint8 // data: W|stream; Reject.req: offending PType/SType; other control: 0
	Byte3     uint8 // data: function; .rsp: status; Reject.req: reason; other control: 0
	PType     uint8
	SType     uint8
	System    [4]byte
	Body      []byte // message text (SECS-II item encoding); empty for control messages
}

// Header packs the 10-byte header.
func (f Frame) Header() [HeaderLen]byte {
	return [HeaderLen]byte{
		byte(f.SessionID >> 8), byte(f.SessionID), f.Byte2, f.Byte3, f.PType, f.SType,
		f.System[0], f.System[1], f.System[2], f.System[3],
	}
}

// Length is the value of the message-length field: 10 + len(text).
func (f Frame) Length() uint32 { return uint32(HeaderLen + len(f.Body)) }

// Payload is header || text (the message without its length field).
func (f Frame) Payload() []byte {
	h := f.Header()
	out := make([]byte, 0, HeaderLen+len(f.Body))
	out = append(out, h[:]...)

	return append(out, f.Body...)
}

// Encode is the frame as it appears on the TCP stream: length field, header, text.
func (f Frame) Encode() []byte {
	l := f.Length()
	h := f.Header()
	out := make([]byte, 0, PrefixLen+HeaderLen+len(f.Body))
	out = append(out, byte(l>>24), byte(l>>16), byte(l>>8), byte(l))
	out = append(out, h[:]...)

	return append(out, f.Body...)
}

// IsData reports SType 0.
func (f Frame) IsData() bool { return f.SType == STData }

// W is the wait bit of a data message.
func (f Frame) W() bool { return f.Byte2&0x80 != 0 }

// Stream is the stream code of a data message.
func (f Frame) Stream() uint8 { return f.Byte2 & 0x7F }

// Function is the function code of a data message.
func (f Frame) Function() uint8 { return f.Byte3 }

// Status is the status byte of a Select.rsp / Deselect.rsp.
func (f Frame) Status() uint8 { return f.Byte3 }

// Reason is the reason code of a Reject.req.
func (f Frame) Reason() uint8 { return f.Byte3 }

// RejectedType is the PType/SType echoed by a Reject.req.
func (f Frame) RejectedType() uint8 { return f.Byte2 }

// SystemU32 is the system bytes read as a big-endian integer.
func (f Frame) SystemU32() uint32 {
	return uint32(f.System[0])<<24 | uint32(f.System[1])<<16 | uint32(f.System[2])<<8 | uint32(f.System[3])
}

// SystemOf converts an integer to system bytes (big-endian).
func SystemOf(id uint32) [4]byte {
	return [4]byte{byte(id >> 24), byte(id >> 16), byte(id >> 8), byte(id)}
}

// Equal compares two frames field by field (nil and empty text are the same).
func (f Frame) Equal(g Frame) bool {
	if f.Header() != g.Header() || len(f.Body) != len(g.Body) {
		return false
	}
	for i := range f.Body {
		if f.Body[i] != g.Body[i] {
			return false
		}
	}

	return true
}

func (f Frame) String() string {
	if f.IsData() && f.PType == 0 {
		w := ""
		if f.W() {
			w = " W"
		}

		return fmt.Sprintf("S%dF%d%s session=%#04x sys=%x body=%dB", f.Stream(), f.Function(), w, f.SessionID, f.System, len(f.Body))
	}

	return fmt.Sprintf("%s session=%#04x b2=%#02x b3=%#02x ptype=%d sys=%x body=%dB", STypeName(f.SType), f.SessionID, f.Byte2, f.Byte3, f.PType, f.System, len(f.Body))
}

// ---------------------------------------------------------------------------------------------
// constructors

// DataInvalid says why (stream, function, W) is not a legal data-message head, or "" if it is:
// the stream code has 7 bits, and a reply may not be requested for a reply (W only on odd functions).
func DataInvalid(stream, function uint8, w bool) string {
	switch {
	case stream > 127:
		return "stream>127"
	case w && function%2 == 0:
		return "W-on-even-function"
	}

	return ""
}

// Data builds a data-message frame. The stream is packed as given in the low 7 bits; callers
// that want the validity rule use DataInvalid.
func Data(session uint16, stream, function uint8, w bool, system [4]byte, body []byte) Frame {
	b2 := stream & 0x7F
	if w {
		b2 |= 0x80
	}

	return Frame{SessionID: session, Byte2: b2, Byte3: function, SType: STData, System: system, Body: body}
}

// SelectReq builds a Select.req.
func SelectReq(session uint16, system [4]byte) Frame {
	return Frame{SessionID: session, SType: STSelectReq, System: system}
}

// SelectRsp builds the Select.rsp answering req with the given status.
func SelectRsp(req Frame, status uint8) Frame {
	return Frame{SessionID: req.SessionID, Byte3: status, SType: STSelectRsp, System: req.System}
}

// DeselectReq builds a Deselect.req.
func DeselectReq(session uint16, system [4]byte) Frame {
	return Frame{SessionID: session, SType: STDeselectReq, System: system}
}

// DeselectRsp builds the Deselect.rsp answering req with the given status.
func DeselectRsp(req Frame, status uint8) Frame {
	return Frame{SessionID: req.SessionID, Byte3: status, SType: STDeselectRsp, System: req.System}
}

// LinktestReq builds a Linktest.req (session id 0xFFFF).
func LinktestReq(system [4]byte) Frame {
	return Frame{SessionID: LinktestSession, SType: STLinktestReq, System: system}
}

// LinktestRsp builds the Linktest.rsp answering req (session id 0xFFFF, same system bytes).
func LinktestRsp(req Frame) Frame {
	return Frame{SessionID: LinktestSession, SType: STLinktestRsp, System: req.System}
}

// SeparateReq builds a Separate.req.
func SeparateReq(session uint16, system [4]byte) Frame {
	return Frame{SessionID: session, SType: STSeparateReq, System: system}
}

// RejectReq builds the Reject.req for a message whose header fields are given: byte 2 echoes the
// PType when the reason is "PType not supported", the SType for every other reason; byte 3 is the
// reason; session id and system bytes are those of the rejected message.
func RejectReq(session uint16, ptype, stype uint8, system [4]byte, reason uint8) Frame {
	b2 := stype
	if reason == ReasonPTypeNotSupported {
		b2 = ptype
	}

	return Frame{SessionID: session, Byte2: b2, Byte3: reason, SType: STRejectReq, System: system}
}

// RejectFor builds the Reject.req for a rejected frame.
func RejectFor(rejected Frame, reason uint8) Frame {
	return RejectReq(rejected.SessionID, rejected.PType, rejected.SType, rejected.System, reason)
}

// ---------------------------------------------------------------------------------------------
// acceptors

// RejectClass says why a byte string is not a well-formed frame ("" = well-formed).
type RejectClass string

const (
	Accept           RejectClass = ""
	RejShortPrefix   RejectClass = "fewer-than-4-length-bytes"
	RejLenBelow10    RejectClass = "length-field-below-10"
	RejLenAboveCap   RejectClass = "length-field-above-cap"
	RejLenMismatch   RejectClass = "length-field-not-equal-remaining-bytes"
	RejPayloadShort  RejectClass = "payload-shorter-than-header"
	RejPayloadTooBig RejectClass = "payload-above-cap"
	RejPType         RejectClass = "ptype-not-0"
	RejSType         RejectClass = "undefined-stype"
)

// ParseHeader unpacks a 10-byte header (no validation).
func ParseHeader(h [HeaderLen]byte) Frame {
	return Frame{
		SessionID: uint16(h[0])<<8 | uint16(h[1]), Byte2: h[2], Byte3: h[3], PType: h[4], SType: h[5],
		System: [4]byte{h[6], h[7], h[8], h[9]},
	}
}

// Decode is the total acceptor for ONE complete frame with its length field, using DefaultCap.
func Decode(b []byte) (Frame, RejectClass) { return DecodeCap(b, DefaultCap) }

// DecodeCap is Decode with an explicit size cap. A byte string is a well-formed frame iff its
// length field equals the number of bytes that follow it, lies in [10, maxLen], the PType is 0
// and the SType is defined. The returned Frame's Body is a copy.
func DecodeCap(b []byte, maxLen uint32) (Frame, RejectClass) {
	if len(b) < PrefixLen {
		return Frame{}, RejShortPrefix
	}
	l := uint64(b[0])<<24 | uint64(b[1])<<16 | uint64(b[2])<<8 | uint64(b[3])
	switch {
	case l < HeaderLen:
		return Frame{}, RejLenBelow10
	case l > uint64(maxLen):
		return Frame{}, RejLenAboveCap
	case uint64(len(b)-PrefixLen) != l:
		return Frame{}, RejLenMismatch
	}

	return DecodePayloadCap(b[PrefixLen:], maxLen)
}

// DecodePayload is the acceptor for header||text without a length field, using DefaultCap.
func DecodePayload(p []byte) (Frame, RejectClass) { return DecodePayloadCap(p, DefaultCap) }

// DecodePayloadCap accepts header||text iff 10 <= len <= maxLen, PType 0, SType defined.
func DecodePayloadCap(p []byte, maxLen uint32) (Frame, RejectClass) {
	if len(p) < HeaderLen {
		return Frame{}, RejPayloadShort
	}
	if uint64(len(p)) > uint64(maxLen) {
		return Frame{}, RejPayloadTooBig
	}
	var h [HeaderLen]byte
	copy(h[:], p)
	f := ParseHeader(h)
	if f.PType != 0 {
		return f, RejPType
	}
	if !DefinedSType(f.SType) {
		return f, RejSType
	}
	f.Body = append([]byte{}, p[HeaderLen:]...)

	return f, Accept
}

// Split cuts a received byte stream into complete frames purely by the length fields (no
// validation of the value): frames[i] includes its 4 length bytes; rest is the incomplete tail
// (fewer than 4 bytes, or a length field whose message has not fully arrived).
func Split(stream []byte) (frames [][]byte, rest []byte) {
	for {
		if len(stream) < PrefixLen {
			return frames, stream
		}
		l := uint64(stream[0])<<24 | uint64(stream[1])<<16 | uint64(stream[2])<<8 | uint64(stream[3])
		if uint64(len(stream)-PrefixLen) < l {
			return frames, stream
		}
		n := PrefixLen + int(l)
		frames = append(frames, stream[:n:n])
		stream = stream[n:]
	}
}

// SplitStrict is Split for a receiver that must drop the link at the first length field outside
// [10, maxLen]: it stops there and reports the class; rest then starts at the offending length field.
func SplitStrict(stream []byte, maxLen uint32) (frames [][]byte, rest []byte, bad RejectClass) {
	for {
		if len(stream) < PrefixLen {
			return frames, stream, Accept
		}
		l := uint64(stream[0])<<24 | uint64(stream[1])<<16 | uint64(stream[2])<<8 | uint64(stream[3])
		if l < HeaderLen {
			return frames, stream, RejLenBelow10
		}
		if l > uint64(maxLen) {
			return frames, stream, RejLenAboveCap
		}
		if uint64(len(stream)-PrefixLen) < l {
			return frames, stream, Accept
		}
		n := PrefixLen + int(l)
		frames = append(frames, stream[:n:n])
		stream = stream[n:]
	}
}

// DecodeStream splits a stream with Split and decodes every complete frame.
func DecodeStream(stream []byte) (out []Frame, classes []RejectClass, rest []byte) {
	frames, rest := Split(stream)
	for _, fb := range frames {
		f, c := Decode(fb)
		out = append(out, f)
		classes = append(classes, c)
	}

	return out, classes, rest
}
