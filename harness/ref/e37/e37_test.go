package e37

import (
	"bytes"
	"testing"
)

func TestHeaderPositions(t *testing.T) {
	f := Data(0x1234, 0x45, 0x67, true, [4]byte{0xA1, 0xA2, 0xA3, 0xA4}, []byte{0x01, 0x00})
	want := []byte{0, 0, 0, 12, 0x12, 0x34, 0xC5, 0x67, 0, 0, 0xA1, 0xA2, 0xA3, 0xA4, 0x01, 0x00}
	if got := f.Encode(); !bytes.Equal(got, want) {
		t.Fatalf("got %x want %x", got, want)
	}
	g, c := Decode(want)
	if c != Accept || !g.Equal(f) || !g.W() || g.Stream() != 0x45 || g.Function() != 0x67 || g.SystemU32() != 0xA1A2A3A4 {
		t.Fatalf("decode: %v %s", g, c)
	}
	if DataInvalid(128, 1, false) == "" || DataInvalid(5, 2, true) == "" || DataInvalid(127, 255, true) != "" {
		t.Fatal("DataInvalid")
	}
}

func TestControl(t *testing.T) {
	sys := [4]byte{1, 2, 3, 4}
	req := SelectReq(0x0102, sys)
	if got := SelectRsp(req, 3).Encode(); !bytes.Equal(got, []byte{0, 0, 0, 10, 1, 2, 0, 3, 0, 2, 1, 2, 3, 4}) {
		t.Fatalf("select.rsp %x", got)
	}
	if got := LinktestRsp(LinktestReq(sys)).Encode(); !bytes.Equal(got, []byte{0, 0, 0, 10, 0xFF, 0xFF, 0, 0, 0, 6, 1, 2, 3, 4}) {
		t.Fatalf("linktest.rsp %x", got)
	}
	if r := RejectReq(7, 0x55, 0x66, sys, ReasonPTypeNotSupported); r.RejectedType() != 0x55 || r.Reason() != 2 {
		t.Fatalf("reject ptype %v", r)
	}
	if r := RejectReq(7, 0x55, 0x66, sys, ReasonNotSelected); r.RejectedType() != 0x66 {
		t.Fatalf("reject stype %v", r)
	}
	if got := SeparateReq(9, sys).Header(); got != [10]byte{0, 9, 0, 0, 0, 9, 1, 2, 3, 4} {
		t.Fatalf("separate %x", got)
	}
}

func TestAcceptor(t *testing.T) {
	h := SelectReq(1, [4]byte{}).Payload()
	frame := func(l uint32, p []byte) []byte {
		return append([]byte{byte(l >> 24), byte(l >> 16), byte(l >> 8), byte(l)}, p...)
	}
	cases := []struct {
		in   []byte
		want RejectClass
	}{
		{nil, RejShortPrefix}, {[]byte{0, 0, 0}, RejShortPrefix}, {frame(9, h[:9]), RejLenBelow10}, {frame(10, h), Accept},
		{frame(11, h), RejLenMismatch}, {frame(10, append(h, 0)), RejLenMismatch}, {frame(DefaultCap+1, h), RejLenAboveCap}, {frame(1<<32-1, h), RejLenAboveCap},
	}
	for i, c := range cases {
		if _, got := Decode(c.in); got != c.want {
			t.Errorf("case %d: %q want %q", i, got, c.want)
		}
	}
	bad := append([]byte{}, h...)
	bad[4] = 1
	if _, c := Decode(frame(10, bad)); c != RejPType {
		t.Error(c)
	}
	bad[4], bad[5] = 0, 8
	if _, c := DecodePayload(bad); c != RejSType {
		t.Error(c)
	}
	for s := 0; s < 256; s++ {
		if DefinedSType(uint8(s)) != (s <= 7 || s == 9) {
			t.Error(s)
		}
	}
}

func TestSplit(t *testing.T) {
	a := Data(1, 1, 1, true, [4]byte{0, 0, 0, 1}, []byte{0xA5, 0x01, 0x07}).Encode()
	b := LinktestReq([4]byte{0, 0, 0, 2}).Encode()
	stream := append(append(append([]byte{}, a...), b...), a[:9]...)
	frames, rest := Split(stream)
	if len(frames) != 2 || !bytes.Equal(frames[0], a) || !bytes.Equal(frames[1], b) || !bytes.Equal(rest, a[:9]) {
		t.Fatalf("split: %d frames rest %x", len(frames), rest)
	}
	for cut := 0; cut <= len(a)+len(b); cut++ {
		fs, r := Split(stream[:cut])
		n := 0
		for _, f := range fs {
			n += len(f)
		}
		if n+len(r) != cut {
			t.Fatalf("cut %d loses bytes", cut)
		}
	}
	badStream := append(append([]byte{}, b...), 0, 0, 0, 5, 1, 2, 3)
	fs, r, c := SplitStrict(badStream, DefaultCap)
	if len(fs) != 1 || c != RejLenBelow10 || len(r) != 7 {
		t.Fatalf("strict: %d %s %x", len(fs), c, r)
	}
	out, classes, _ := DecodeStream(stream)
	if len(out) != 2 || classes[0] != Accept || classes[1] != Accept || out[1].SType != STLinktestReq {
		t.Fatal("DecodeStream")
	}
}
