// Package e5 is an independent reference model of SEMI E5 (SECS-II) item encoding, written from
// the standard's item grammar. It shares no code with go-secs.
//
// Item header: one format byte (format code in bits 7..2, number of length bytes 1..3 in bits
// 1..0), then the length bytes (big-endian). For a list the length is the number of child items;
// for every other format it is the payload length in bytes. Numeric payloads are big-endian,
// two's complement / IEEE-754. A localized string payload starts with a 2-byte character-set
// header.
package e5

import (
	"encoding/binary"
	"fmt"
	"math"
)

// Format codes (octal, as in the standard).
const (
	List      = 0o00
	Binary    = 0o10
	Boolean   = 0o11
	ASCII     = 0o20
	JIS8      = 0o21
	Localized = 0o22
	I8        = 0o30
	I1        = 0o31
	I2        = 0o32
	I4        = 0o34
	F8        = 0o40
	F4        = 0o44
	U8        = 0o50
	U1        = 0o51
	U2        = 0o52
	U4        = 0o54
)

// AllCodes lists the 16 defined format codes.
var AllCodes = []uint8{List, Binary, Boolean, ASCII, JIS8, Localized, I8, I1, I2, I4, F8, F4, U8, U1, U2, U4}

// MaxLen is the largest value a 3-byte length field can carry.
const MaxLen = 1<<24 - 1

// MaxDepth is the list nesting limit the decoder under test documents (64).
const MaxDepth = 64

// Node is the logical value of one item.
type Node struct {
	FC    uint8
	Bytes []byte   // Binary payload / ASCII, JIS8 text / Localized text (without LSH) / Boolean raw bytes
	LSH   uint16   // Localized only
	Ints  []int64  // I1..I8
	Uints []uint64 // U1..U8
	Bits  []uint64 // F4 (low 32 bits) / F8 raw IEEE bits
	Kids  []*Node  // List
}

// Defined reports whether fc is one of the 16 defined format codes.
func Defined(fc uint8) bool {
	for _, c := range AllCodes {
		if c == fc {
			return true
		}
	}

	return false
}

// Width is the element width in bytes of a format code (1 for byte/char formats, 0 for list).
func Width(fc uint8) int {
	switch fc {
	case I1, U1, Binary, Boolean, ASCII, JIS8, Localized:
		return 1
	case I2, U2:
		return 2
	case I4, U4, F4:
		return 4
	case I8, U8, F8:
		return 8
	}

	return 0
}

// Name is a readable format name.
func Name(fc uint8) string {
	switch fc {
	case List:
		return "L"
	case Binary:
		return "B"
	case Boolean:
		return "BOOLEAN"
	case ASCII:
		return "A"
	case JIS8:
		return "J"
	case Localized:
		return "W"
	case I1:
		return "I1"
	case I2:
		return "I2"
	case I4:
		return "I4"
	case I8:
		return "I8"
	case U1:
		return "U1"
	case U2:
		return "U2"
	case U4:
		return "U4"
	case U8:
		return "U8"
	case F4:
		return "F4"
	case F8:
		return "F8"
	}

	return fmt.Sprintf("fc%o", fc)
}

// Count is the element count of a leaf / child count of a list (Localized: text bytes + 2, as the
// payload length — the convention the library documents for Size()).
func (n *Node) Count() int {
	switch n.FC {
	case List:
		return len(n.Kids)
	case Binary, Boolean, ASCII, JIS8:
		return len(n.Bytes)
	case Localized:
		return len(n.Bytes) + 2
	case I1, I2, I4, I8:
		return len(n.Ints)
	case U1, U2, U4, U8:
		return len(n.Uints)
	case F4, F8:
		return len(n.Bits)
	}

	return 0
}

// PayloadLen is the value of the length field.
func (n *Node) PayloadLen() int {
	if n.FC == List {
		return len(n.Kids)
	}
	if n.FC == Localized {
		return len(n.Bytes) + 2
	}

	return n.Count() * Width(n.FC)
}

func header(dst []byte, fc uint8, length int, nlb int) []byte {
	dst = append(dst, fc<<2|uint8(nlb))
	switch nlb {
	case 3:
		dst = append(dst, byte(length>>16), byte(length>>8), byte(length))
	case 2:
		dst = append(dst, byte(length>>8), byte(length))
	default:
		dst = append(dst, byte(length))
	}

	return dst
}

// MinLenBytes is the minimal number of length bytes for a length value.
func MinLenBytes(length int) int {
	switch {
	case length > 0xFFFF:
		return 3
	case length > 0xFF:
		return 2
	}

	return 1
}

// EncodedLen is the canonical encoded length of n.
func (n *Node) EncodedLen() int {
	l := n.PayloadLen()
	total := 1 + MinLenBytes(l)
	if n.FC == List {
		for _, k := range n.Kids {
			total += k.EncodedLen()
		}

		return total
	}

	return total + l
}

// Encode appends the canonical (minimal length-byte count) E5 encoding of n.
func (n *Node) Encode(dst []byte) []byte {
	l := n.PayloadLen()
	dst = header(dst, n.FC, l, MinLenBytes(l))
	switch n.FC {
	case List:
		for _, k := range n.Kids {
			dst = k.Encode(dst)
		}
	case Binary, Boolean, ASCII, JIS8:
		dst = append(dst, n.Bytes...)
	case Localized:
		dst = append(dst, byte(n.LSH>>8), byte(n.LSH))
		dst = append(dst, n.Bytes...)
	case I1:
		for _, v := range n.Ints {
			dst = append(dst, byte(int8(v)))
		}
	case I2:
		for _, v := range n.Ints {
			dst = binary.BigEndian.AppendUint16(dst, uint16(int16(v)))
		}
	case I4:
		for _, v := range n.Ints {
			dst = binary.BigEndian.AppendUint32(dst, uint32(int32(v)))
		}
	case I8:
		for _, v := range n.Ints {
			dst = binary.BigEndian.AppendUint64(dst, uint64(v))
		}
	case U1:
		for _, v := range n.Uints {
			dst = append(dst, byte(v))
		}
	case U2:
		for _, v := range n.Uints {
			dst = binary.BigEndian.AppendUint16(dst, uint16(v))
		}
	case U4:
		for _, v := range n.Uints {
			dst = binary.BigEndian.AppendUint32(dst, uint32(v))
		}
	case U8:
		for _, v := range n.Uints {
			dst = binary.BigEndian.AppendUint64(dst, v)
		}
	case F4:
		for _, v := range n.Bits {
			dst = binary.BigEndian.AppendUint32(dst, uint32(v))
		}
	case F8:
		for _, v := range n.Bits {
			dst = binary.BigEndian.AppendUint64(dst, v)
		}
	}

	return dst
}

// Reject classes of the total decoder.
type Reject string

const (
	RejEmptyInput    Reject = "empty-input"
	RejUnknownFormat Reject = "unknown-format-code"
	RejZeroLenBytes  Reject = "zero-length-byte-count"
	RejTruncHeader   Reject = "truncated-header"
	RejTruncPayload  Reject = "truncated-payload"
	RejWidth         Reject = "payload-not-multiple-of-width"
	RejShortLSH      Reject = "localized-shorter-than-header"
	RejDepth         Reject = "nesting-too-deep"
)

// DecodeError is a grammar rejection.
type DecodeError struct {
	Class Reject
	Pos   int
}

func (e *DecodeError) Error() string { return fmt.Sprintf("e5: %s at %d", e.Class, e.Pos) }

// Decode parses ONE item from the front of b (non-canonical length fields are legal; bytes after
// the item are not consumed). Lists deeper than MaxDepth are rejected (depth of a top-level list is 1).
func Decode(b []byte) (*Node, int, *DecodeError) {
	if len(b) == 0 {
		return nil, 0, &DecodeError{RejEmptyInput, 0}
	}

	return decode(b, 0, 0, MaxDepth)
}

// DecodeAnyDepth is Decode without the nesting limit (used only to compare encodings of deep trees).
func DecodeAnyDepth(b []byte) (*Node, int, *DecodeError) {
	if len(b) == 0 {
		return nil, 0, &DecodeError{RejEmptyInput, 0}
	}

	return decode(b, 0, 0, 1<<30)
}

func decode(b []byte, pos, depth, maxDepth int) (*Node, int, *DecodeError) {
	if pos >= len(b) {
		return nil, pos, &DecodeError{RejTruncHeader, pos}
	}
	fb := b[pos]
	fc, nlb := fb>>2, int(fb&3)
	// Header validity is judged field by field, in wire order: length-byte count, then the
	// length bytes must be present, then the format code.
	if nlb == 0 {
		return nil, pos, &DecodeError{RejZeroLenBytes, pos}
	}
	if pos+1+nlb > len(b) {
		return nil, pos, &DecodeError{RejTruncHeader, pos}
	}
	length := 0
	for i := 0; i < nlb; i++ {
		length = length<<8 | int(b[pos+1+i])
	}
	p := pos + 1 + nlb
	if !Defined(fc) {
		return nil, pos, &DecodeError{RejUnknownFormat, pos}
	}
	n := &Node{FC: fc}
	if fc == List {
		depth++
		if depth > maxDepth {
			return nil, pos, &DecodeError{RejDepth, pos}
		}
		// every child needs at least 2 bytes; no allocation proportional to the claim
		for i := 0; i < length; i++ {
			k, np, err := decode(b, p, depth, maxDepth)
			if err != nil {
				return nil, pos, err
			}
			n.Kids = append(n.Kids, k)
			p = np
		}

		return n, p, nil
	}
	w := Width(fc)
	if fc == Localized && length < 2 {
		return nil, pos, &DecodeError{RejShortLSH, pos}
	}
	if length%w != 0 {
		return nil, pos, &DecodeError{RejWidth, pos}
	}
	if p+length > len(b) {
		return nil, pos, &DecodeError{RejTruncPayload, pos}
	}
	pay := b[p : p+length]
	switch fc {
	case Binary, Boolean, ASCII, JIS8:
		n.Bytes = append([]byte{}, pay...)
	case Localized:
		n.LSH = uint16(pay[0])<<8 | uint16(pay[1])
		n.Bytes = append([]byte{}, pay[2:]...)
	case I1:
		for _, c := range pay {
			n.Ints = append(n.Ints, int64(int8(c)))
		}
	case I2:
		for i := 0; i < length; i += 2 {
			n.Ints = append(n.Ints, int64(int16(binary.BigEndian.Uint16(pay[i:]))))
		}
	case I4:
		for i := 0; i < length; i += 4 {
			n.Ints = append(n.Ints, int64(int32(binary.BigEndian.Uint32(pay[i:]))))
		}
	case I8:
		for i := 0; i < length; i += 8 {
			n.Ints = append(n.Ints, int64(binary.BigEndian.Uint64(pay[i:])))
		}
	case U1:
		for _, c := range pay {
			n.Uints = append(n.Uints, uint64(c))
		}
	case U2:
		for i := 0; i < length; i += 2 {
			n.Uints = append(n.Uints, uint64(binary.BigEndian.Uint16(pay[i:])))
		}
	case U4:
		for i := 0; i < length; i += 4 {
			n.Uints = append(n.Uints, uint64(binary.BigEndian.Uint32(pay[i:])))
		}
	case U8:
		for i := 0; i < length; i += 8 {
			n.Uints = append(n.Uints, binary.BigEndian.Uint64(pay[i:]))
		}
	case F4:
		for i := 0; i < length; i += 4 {
			n.Bits = append(n.Bits, uint64(binary.BigEndian.Uint32(pay[i:])))
		}
	case F8:
		for i := 0; i < length; i += 8 {
			n.Bits = append(n.Bits, binary.BigEndian.Uint64(pay[i:]))
		}
	}
	if n.Bytes == nil && (fc == Binary || fc == Boolean || fc == ASCII || fc == JIS8 || fc == Localized) {
		n.Bytes = []byte{}
	}

	return n, p + length, nil
}

// Float returns element i of an F4/F8 node widened to float64.
func (n *Node) Float(i int) float64 {
	if n.FC == F4 {
		return float64(math.Float32frombits(uint32(n.Bits[i])))
	}

	return math.Float64frombits(n.Bits[i])
}

// Depth is the list nesting depth of n (a leaf is 0, an empty list 1).
func (n *Node) Depth() int {
	if n.FC != List {
		return 0
	}
	d := 0
	for _, k := range n.Kids {
		if kd := k.Depth(); kd > d {
			d = kd
		}
	}

	return d + 1
}

// Leaves counts leaf items.
func (n *Node) Leaves() int {
	if n.FC != List {
		return 1
	}
	c := 0
	for _, k := range n.Kids {
		c += k.Leaves()
	}

	return c
}

// String renders a short description.
func (n *Node) String() string {
	return n.render(0)
}

func (n *Node) render(d int) string {
	if n.FC == List {
		if d > 3 || len(n.Kids) > 6 {
			return fmt.Sprintf("L[%d]{…depth %d, %d leaves}", len(n.Kids), n.Depth(), n.Leaves())
		}
		s := fmt.Sprintf("L[%d]{", len(n.Kids))
		for i, k := range n.Kids {
			if i > 0 {
				s += " "
			}
			s += k.render(d + 1)
		}

		return s + "}"
	}
	switch n.FC {
	case I1, I2, I4, I8:
		return fmt.Sprintf("%s%v", Name(n.FC), clipI(n.Ints))
	case U1, U2, U4, U8:
		return fmt.Sprintf("%s%v", Name(n.FC), clipU(n.Uints))
	case F4, F8:
		return fmt.Sprintf("%s[%d]bits%x", Name(n.FC), len(n.Bits), clipU(n.Bits))
	case Localized:
		return fmt.Sprintf("W(lsh=%d)[%d]%q", n.LSH, len(n.Bytes), clipB(n.Bytes))
	}

	return fmt.Sprintf("%s[%d]%q", Name(n.FC), len(n.Bytes), clipB(n.Bytes))
}

func clipI(v []int64) []int64 {
	if len(v) > 6 {
		return v[:6]
	}

	return v
}

func clipU(v []uint64) []uint64 {
	if len(v) > 6 {
		return v[:6]
	}

	return v
}

func clipB(v []byte) []byte {
	if len(v) > 24 {
		return v[:24]
	}

	return v
}
