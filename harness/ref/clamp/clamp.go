// Package clamp is the reference model of what the go-secs item constructors must produce for an
// arbitrary Go argument list. It is written from the property text ("clamp, never wrap; an
// unsupported or unparsable argument yields an errored item; valid arguments yield exactly the
// supplied values in order, identically as scalars, slices or numeric strings") and from the
// constructor doc comments (which Go types each constructor accepts, and the few places where the
// documentation says an out-of-range argument is an ERROR rather than a clamp). It shares no code
// with go-secs and does not import it.
package clamp

import (
	"math"
	"math/big"
	"reflect"
	"regexp"
	"strconv"
	"strings"
)

// Family is a constructor family.
type Family int

// Constructor families.
const (
	Int Family = iota
	Uint
	Float
	Binary
	Boolean
)

func (f Family) String() string {
	return [...]string{"int", "uint", "float", "binary", "boolean"}[f]
}

// Want is the expected outcome of one constructor call.
type Want struct {
	// MustErr: Error() must be non-nil (Why says which documented rule applies).
	MustErr bool
	// MayErr: the documentation allows an errored item for this argument list (e.g. a negative
	// value for an unsigned item, an integer beyond 2^53 for a float item, an out-of-range byte);
	// if the item is NOT errored its values must be the clamp values below.
	MayErr bool
	// Unknown: the argument list contains a string whose reading the documentation does not
	// settle (underscores, inf/nan, hex floats, ...): only "no panic" is judged.
	Unknown bool
	Why     string

	Ints   []int64
	Uints  []uint64
	Floats []float64 // F4: compare after narrowing to float32; NaN matches any NaN
	Bytes  []byte
	Bools  []bool
	// Clamped[i]: the i-th supplied value was outside the target range (the expectation is a bound).
	Clamped []bool
	// Raw[i]: the i-th supplied value when it was an integer (wrap detection), else nil.
	Raw []*big.Int
	// ArgType[i]: Go type of the argument element i came from.
	ArgType []string
}

// ValidByteSize reports the documented byte sizes of a family.
func ValidByteSize(f Family, bs int) bool {
	switch f {
	case Int, Uint:
		return bs == 1 || bs == 2 || bs == 4 || bs == 8
	case Float:
		return bs == 4 || bs == 8
	}

	return true
}

var builtinInts = map[reflect.Kind]bool{
	reflect.Int: true, reflect.Int8: true, reflect.Int16: true, reflect.Int32: true, reflect.Int64: true,
	reflect.Uint: true, reflect.Uint8: true, reflect.Uint16: true, reflect.Uint32: true, reflect.Uint64: true,
}

// elemKind classifies a Go type that the docs could be talking about: only UNNAMED builtin types
// count ("int", "[]uint16", "string", ...); named types (type myInt int, time.Duration) are other types.
func builtin(t reflect.Type) bool { return t.PkgPath() == "" && t.Name() != "" }

type strClass int

const (
	strValid strClass = iota
	strLenient
	strGarbage
	strUnknown
)

var (
	reIntLit   = regexp.MustCompile(`^([-+]?)(0[xX][0-9a-fA-F]+|0[oO][0-7]+|0[0-7]*|[1-9][0-9]*)$`)
	reBinLit   = regexp.MustCompile(`^([-+]?)0[bB]([01]+)$`)
	reFloatLit = regexp.MustCompile(`^([-+]?)([0-9]+(\.[0-9]*)?|\.[0-9]+)([eE][-+]?[0-9]+)?$`)
	reUnknown  = regexp.MustCompile(`(?i)_|inf|nan|^[-+]?0x[0-9a-f.]*p|^[-+]?0[0-9]*[89]|^[-+]?0b`)
)

// parseIntLiteral reads a decimal / hex (0x) / octal (0o or leading 0) integer literal with an
// optional sign; allowBinary additionally admits 0b literals (documented for binary items only).
func parseIntLiteral(s string, allowBinary bool) (*big.Int, strClass) {
	if m := reIntLit.FindStringSubmatch(s); m != nil {
		body := m[2]
		v := new(big.Int)
		switch {
		case len(body) > 1 && (body[1] == 'x' || body[1] == 'X'):
			v.SetString(body[2:], 16)
		case len(body) > 1 && (body[1] == 'o' || body[1] == 'O'):
			v.SetString(body[2:], 8)
		case len(body) > 1 && body[0] == '0':
			v.SetString(body[1:], 8)
		default:
			v.SetString(body, 10)
		}
		if m[1] == "-" {
			v.Neg(v)
		}
		if m[1] == "+" {
			return v, strLenient // Go literals carry no '+'; the docs do not say
		}

		return v, strValid
	}
	if m := reBinLit.FindStringSubmatch(s); m != nil {
		v := new(big.Int)
		v.SetString(m[2], 2)
		if m[1] == "-" {
			v.Neg(v)
		}
		if allowBinary && m[1] != "+" {
			return v, strValid
		}

		return v, strLenient
	}
	if reUnknown.MatchString(s) {
		return nil, strUnknown
	}

	return nil, strGarbage
}

// parseFloatLiteral reads a decimal floating-point literal. over is the sign of an overflow of
// the float64 range (the literal is numeric but beyond every float width).
func parseFloatLiteral(s string) (v float64, over int, c strClass) {
	m := reFloatLit.FindStringSubmatch(s)
	if m == nil {
		if reUnknown.MatchString(s) {
			return 0, 0, strUnknown
		}

		return 0, 0, strGarbage
	}
	f, err := strconv.ParseFloat(strings.TrimPrefix(s, "+"), 64)
	if err != nil { // out of range: ±Inf
		if f > 0 {
			over = 1
		} else {
			over = -1
		}
	}
	c = strValid
	if m[1] == "+" {
		c = strLenient
	}

	return f, over, c
}

type acc struct {
	w   *Want
	f   Family
	bs  int
	end bool
}

func (a *acc) mustErr(why string) {
	if !a.w.MustErr {
		a.w.MustErr, a.w.Why = true, why
	}
}

func (a *acc) mayErr(why string) {
	if !a.w.MayErr {
		a.w.MayErr = true
		if a.w.Why == "" {
			a.w.Why = why
		}
	}
}

func intBounds(bs int) (lo, hi *big.Int) {
	hi = new(big.Int).Lsh(big.NewInt(1), uint(8*bs-1))
	lo = new(big.Int).Neg(hi)
	hi.Sub(hi, big.NewInt(1))

	return lo, hi
}

func uintMax(bs int) *big.Int {
	hi := new(big.Int).Lsh(big.NewInt(1), uint(8*bs))

	return hi.Sub(hi, big.NewInt(1))
}

var two53 = new(big.Int).Lsh(big.NewInt(1), 53)

// integer feeds one integer-valued supplied value.
func (a *acc) integer(v *big.Int, typ string) {
	w := a.w
	w.Raw = append(w.Raw, v)
	w.ArgType = append(w.ArgType, typ)
	switch a.f {
	case Int:
		lo, hi := intBounds(a.bs)
		c := v
		cl := false
		if v.Cmp(lo) < 0 {
			c, cl = lo, true
		} else if v.Cmp(hi) > 0 {
			c, cl = hi, true
		}
		w.Ints = append(w.Ints, c.Int64())
		w.Clamped = append(w.Clamped, cl)
	case Uint:
		hi := uintMax(a.bs)
		c := v
		cl := false
		if v.Sign() < 0 {
			// NewUintItem: "Negative signed integer values produce a deferred error."
			c, cl = big.NewInt(0), true
			a.mayErr("negative value for an unsigned item (documented: deferred error)")
		} else if v.Cmp(hi) > 0 {
			c, cl = hi, true
		}
		w.Uints = append(w.Uints, c.Uint64())
		w.Clamped = append(w.Clamped, cl)
	case Float:
		f, _ := new(big.Float).SetInt(v).Float64()
		if new(big.Int).Abs(v).Cmp(two53) > 0 {
			// NewFloatItem: "integer values whose magnitude exceeds 2^53 produce a deferred error"
			a.mayErr("integer magnitude beyond 2^53 for a float item (documented: deferred error)")
		}
		w.Floats = append(w.Floats, f)
		w.Clamped = append(w.Clamped, false)
	case Binary:
		c := v
		cl := false
		if v.Sign() < 0 {
			c, cl = big.NewInt(0), true
		} else if v.Cmp(big.NewInt(255)) > 0 {
			c, cl = big.NewInt(255), true
		}
		if cl {
			// NewBinaryItem: "If any argument is out of range ... a deferred error is stored"
			a.mayErr("byte value outside [0,255] (documented: deferred error)")
		}
		w.Bytes = append(w.Bytes, byte(c.Uint64()))
		w.Clamped = append(w.Clamped, cl)
	}
}

func (a *acc) float(v float64, typ string) {
	w := a.w
	cl := false
	if a.bs == 4 && !math.IsNaN(v) && !math.IsInf(v, 0) {
		// NewFloatItem: "float64 values whose magnitude exceeds math.MaxFloat32 are clamped to
		// ±math.MaxFloat32. NaN and ±Inf pass through unclamped."
		if v > math.MaxFloat32 {
			v, cl = math.MaxFloat32, true
		} else if v < -math.MaxFloat32 {
			v, cl = -math.MaxFloat32, true
		}
	}
	w.Floats = append(w.Floats, v)
	w.Clamped = append(w.Clamped, cl)
	w.Raw = append(w.Raw, nil)
	w.ArgType = append(w.ArgType, typ)
}

func (a *acc) str(s, typ string) {
	switch a.f {
	case Int, Uint, Binary:
		v, c := parseIntLiteral(s, a.f == Binary)
		switch c {
		case strGarbage:
			a.mustErr("unparsable string for " + a.f.String() + " item")
		case strUnknown:
			a.w.Unknown = true
		case strLenient:
			a.mayErr("string form the documentation does not settle")
			a.integer(v, typ)
		default:
			if a.f == Uint && v.Sign() < 0 || a.f == Uint && strings.HasPrefix(s, "-") {
				a.mayErr("negative literal for an unsigned item")
			}
			a.integer(v, typ)
		}
	case Float:
		v, over, c := parseFloatLiteral(s)
		switch c {
		case strGarbage:
			a.mustErr("unparsable string for float item")
		case strUnknown:
			a.w.Unknown = true
		default:
			if c == strLenient {
				a.mayErr("string form the documentation does not settle")
			}
			if over != 0 {
				// numeric, but beyond float64: clamp bound of the target width, or (it cannot be
				// converted to the carrier type at all) an errored item
				a.mayErr("decimal literal beyond the float64 range")
				lim := math.MaxFloat64
				if a.bs == 4 {
					lim = math.MaxFloat32
				}
				a.w.Floats = append(a.w.Floats, float64(over)*lim)
				a.w.Clamped = append(a.w.Clamped, true)
				a.w.Raw = append(a.w.Raw, nil)
				a.w.ArgType = append(a.w.ArgType, typ)
			} else {
				a.float(v, typ)
			}
		}
	case Boolean:
		a.mustErr("unsupported argument type " + typ + " for boolean item")
	}
}

// supported says whether the documentation of family f lists Go type t (scalar or slice form).
func supported(f Family, t reflect.Type) bool {
	el := t
	slice := false
	if t.Kind() == reflect.Slice && t.PkgPath() == "" {
		el, slice = t.Elem(), true
	}
	if !builtin(el) {
		return false
	}
	k := el.Kind()
	switch f {
	case Int, Uint:
		return builtinInts[k] || k == reflect.String
	case Float:
		return builtinInts[k] || k == reflect.String || k == reflect.Float32 || k == reflect.Float64
	case Binary:
		// "A byte (uint8). A []byte slice. An int in the range [0, 255]. A string containing a numeric literal"
		if slice {
			return k == reflect.Uint8
		}

		return k == reflect.Uint8 || k == reflect.Int || k == reflect.String
	case Boolean:
		return k == reflect.Bool
	}

	return false
}

func (a *acc) element(v reflect.Value, typ string) {
	switch v.Kind() { //nolint:exhaustive
	case reflect.Int, reflect.Int8, reflect.Int16, reflect.Int32, reflect.Int64:
		a.integer(big.NewInt(v.Int()), typ)
	case reflect.Uint, reflect.Uint8, reflect.Uint16, reflect.Uint32, reflect.Uint64:
		a.integer(new(big.Int).SetUint64(v.Uint()), typ)
	case reflect.Float32, reflect.Float64:
		a.float(v.Float(), typ)
	case reflect.String:
		a.str(v.String(), typ)
	case reflect.Bool:
		a.w.Bools = append(a.w.Bools, v.Bool())
		a.w.Clamped = append(a.w.Clamped, false)
		a.w.Raw = append(a.w.Raw, nil)
		a.w.ArgType = append(a.w.ArgType, typ)
	}
}

// TypeName renders the Go type of an argument ("<nil>" for a nil interface).
func TypeName(arg any) string {
	if arg == nil {
		return "<nil>"
	}

	return reflect.TypeOf(arg).String()
}

// Expect computes the expected outcome of NewXxxItem(byteSize, args...).
func Expect(f Family, byteSize int, args []any) Want {
	w := Want{}
	a := &acc{w: &w, f: f, bs: byteSize}
	if !ValidByteSize(f, byteSize) {
		a.mustErr("invalid byte size")

		return w
	}
	for _, arg := range args {
		typ := TypeName(arg)
		if arg == nil {
			a.mustErr("unsupported argument type <nil>")
			continue
		}
		t := reflect.TypeOf(arg)
		if !supported(f, t) {
			a.mustErr("unsupported argument type " + typ)
			continue
		}
		v := reflect.ValueOf(arg)
		if t.Kind() == reflect.Slice {
			for i := 0; i < v.Len(); i++ {
				a.element(v.Index(i), typ)
			}

			continue
		}
		a.element(v, typ)
	}
	// canonical empties
	if !w.MustErr {
		switch f {
		case Int:
			if w.Ints == nil {
				w.Ints = []int64{}
			}
		case Uint:
			if w.Uints == nil {
				w.Uints = []uint64{}
			}
		case Float:
			if w.Floats == nil {
				w.Floats = []float64{}
			}
		case Binary:
			if w.Bytes == nil {
				w.Bytes = []byte{}
			}
		case Boolean:
			if w.Bools == nil {
				w.Bools = []bool{}
			}
		}
	}

	return w
}

// Wrapped returns the value a careless width conversion of raw would produce for family f
// (two's-complement truncation to byteSize bytes), for classifying a wrong value as a wrap.
func Wrapped(f Family, byteSize int, raw *big.Int) (int64, uint64) {
	if raw == nil {
		return 0, 0
	}
	bits := uint(8 * byteSize)
	if f == Binary {
		bits = 8
	}
	mod := new(big.Int).Lsh(big.NewInt(1), bits)
	u := new(big.Int).Mod(raw, mod) // non-negative residue
	uv := u.Uint64()
	s := new(big.Int).Set(u)
	if u.Bit(int(bits-1)) == 1 {
		s.Sub(s, mod)
	}

	return s.Int64(), uv
}
