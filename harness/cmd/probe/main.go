// probe: scratch program for ad-hoc experiments against the real library (not part of any check).
package main

import (
	"context"
	"fmt"
	"time"

	"github.com/arloliu/go-secs/v2/hsms"
	"github.com/arloliu/go-secs/v2/hsmsss"

	"verif/peer"
)

func main() {
	trk := &peer.Tracker{}
	lg := &peer.CapLogger{}
	l, _ := peer.Listen()
	cfg, err := hsmsss.NewConfig("127.0.0.1", l.Port(), hsmsss.WithActive(), hsmsss.WithDialer(trk.DialFunc),
		hsmsss.WithConnectionOption(hsms.WithSessionID(0x1234)), hsmsss.WithConnectionOption(hsms.WithSessionIDValidation(true)),
		hsmsss.WithConnectionOption(hsms.WithLogger(lg)))
	fmt.Println(err)
	c, _ := hsmsss.New(cfg)
	c.AddDataMessageHandler(func(m *hsms.DataMessage, _ hsms.SECS2Endpoint) { fmt.Println("delivered", m.Stream(), m.Function()) })
	fmt.Println(c.Open(context.Background(), hsms.OpenBackground))
	pc, _ := l.Accept(time.Second)
	pc.Start()
	f, _ := pc.Recv(time.Second)
	fmt.Println("got", f)
	_ = pc.Send(peer.SelectReq(0x1234, 0x0a0a0a0a), peer.SelectRsp(f.Session, 1, f.Sys))
	time.Sleep(50 * time.Millisecond)
	fmt.Println("state", c.State())
	_ = pc.Send(peer.Data(42, 137, false, 0xffff, 0x1000015c, []byte{0x41, 0x01, 'x'}))
	fs, err := pc.Barrier(time.Second)
	fmt.Println(fs, err)
	fmt.Println(lg.Lines(""))
	fmt.Println(c.Metrics().DataMsgRecvCount(), c.Metrics().DataMsgSendCount(), c.Metrics().AsyncSendErrCount())
	_ = c.Close()
}
