// probe: scratch program for ad-hoc experiments against the real library (not part of any check).
package main

import (
	"context"
	"fmt"
	"time"

	"github.com/arloliu/go-secs/v2/hsms"
	"github.com/arloliu/go-secs/v2/hsmsss"
	"github.com/arloliu/go-secs/v2/secs2"

	"verif/peer"
)

func main() {
	trk := &peer.Tracker{}
	lg := &peer.CapLogger{}
	l, _ := peer.Listen()
	cfg, err := hsmsss.NewConfig(peer.LoopHost, l.Port(), hsmsss.WithActive(), hsmsss.WithDialer(trk.DialFunc),
		hsmsss.WithConnectionOption(hsms.WithSessionID(0x1234)), hsmsss.WithConnectionOption(hsms.WithWriteTimeout(200*time.Millisecond)),
		hsmsss.WithConnectionOption(hsms.WithLogger(lg)))
	fmt.Println(err)
	c, _ := hsmsss.New(cfg)
	fmt.Println(c.Open(context.Background(), hsms.OpenBackground))
	pc, _ := l.Accept(time.Second)
	pc.Start()
	f, _ := pc.Recv(time.Second)
	_ = pc.Send(peer.SelectRsp(f.Session, 0, f.Sys))
	time.Sleep(50 * time.Millisecond)
	pc.StallReads(true)
	big := secs2.B(make([]byte, 8<<20))
	fmt.Println("item err", big.Error())
	for n := 0; n < 16; n++ {
		t0 := time.Now()
		_, err := c.SendDataMessage(context.Background(), 1, 15, false, big)
		fmt.Println(n, time.Since(t0), err, c.State())
		if err != nil {
			break
		}
	}
	fmt.Println(lg.Lines(""))
	_ = c.Close()
}
