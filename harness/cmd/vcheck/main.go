// vcheck is the runner (parent) and worker (child) of the go-secs runtime-monitoring harness.
//
//	vcheck run <id> [--tier quick|thorough] [--seed n] [--replay path]
//	vcheck worker <id> --tier T --seed S --phase P --shard i --shards n --out dir [--replay-index k]
package main

import (
	"flag"
	"fmt"
	"os"
	"strconv"

	_ "verif/checks"
	"verif/fw"
)

func main() {
	if len(os.Args) < 3 {
		fmt.Println("usage: vcheck run|worker <id> [flags]; checks:", fw.IDs())
		os.Exit(fw.ExitHarnessBug)
	}
	mode, id := os.Args[1], os.Args[2]
	fs := flag.NewFlagSet(mode, flag.ExitOnError)
	tier := fs.String("tier", envOr("VERIF_TIER", "quick"), "quick|thorough")
	seedDef, _ := strconv.ParseUint(envOr("VERIF_SEED", "1"), 10, 64)
	seed := fs.Uint64("seed", seedDef, "seed")
	replay := fs.String("replay", "", "replay file")
	phase := fs.String("phase", "", "phase")
	shard := fs.Int("shard", 0, "shard")
	shards := fs.Int("shards", 1, "shards")
	out := fs.String("out", "", "out dir")
	ridx := fs.Int64("replay-index", -1, "replay index")
	_ = fs.Parse(os.Args[3:])

	switch mode {
	case "run":
		os.Exit(fw.RunCheck(id, *tier, *seed, *replay))
	case "worker":
		chk := fw.Lookup(id)
		if chk == nil {
			fmt.Println("unknown check", id)
			os.Exit(fw.ExitHarnessBug)
		}
		env := fw.NewEnv(id, *tier, *seed, *phase, *shard, *shards, *out, raceEnabled)
		env.ReplayIndex = *ridx
		chk.Worker(env)
		if err := env.Finish(); err != nil {
			fmt.Println("finish:", err)
			os.Exit(fw.ExitHarnessBug)
		}
	default:
		fmt.Println("unknown mode", mode)
		os.Exit(fw.ExitHarnessBug)
	}
}

func envOr(k, d string) string {
	if v := os.Getenv(k); v != "" {
		return v
	}

	return d
}
