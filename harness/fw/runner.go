package fw

import (
	"bufio"
	"bytes"
	"context"
	"encoding/binary"
	"encoding/json"
	"fmt"
	"os"
	"os/exec"
	"path/filepath"
	"regexp"
	"runtime"
	"sort"
	"strings"
	"sync"
	"syscall"
	"time"
)

// VerifRoot is where MANIFEST, evidence, out and bin live.
func VerifRoot() string {
	if r := os.Getenv("VERIF_ROOT"); r != "" {
		return r
	}

	return "/verif"
}

const libMarker = "github.com/arloliu/go-secs/v2/"

type knownFinding struct {
	Property string `json:"property"`
	Key      string `json:"key"`
	Status   string `json:"status"` // known | fixed
	Commit   string `json:"commit,omitempty"`
	What     string `json:"what"`
}

func loadKnown() []knownFinding {
	b, err := os.ReadFile(filepath.Join(VerifRoot(), "known_findings.json"))
	if err != nil {
		return nil
	}
	var f struct {
		Findings []knownFinding `json:"findings"`
	}
	if json.Unmarshal(b, &f) != nil {
		return nil
	}

	return f.Findings
}

type shardOutcome struct {
	phase    Phase
	shard    int
	res      *ShardResult
	hashes   []uint64
	exitErr  error
	timedOut bool
	logPath  string
	curCase  json.RawMessage
}

// RunCheck is the parent: it runs every phase of the check in child processes, merges what the
// monitors observed, writes evidence and returns the exit code.
func RunCheck(id, tier string, seed uint64, replayPath string) int {
	chk := Lookup(id)
	if chk == nil {
		fmt.Printf("unknown check %q (have %v)\n", id, IDs())
		return ExitHarnessBug
	}
	start := time.Now()
	root := VerifRoot()
	outDir := filepath.Join(root, "out", id)
	_ = os.RemoveAll(outDir)
	if err := os.MkdirAll(outDir, 0o755); err != nil {
		fmt.Println("mkdir:", err)
		return ExitHarnessBug
	}
	_ = os.MkdirAll(filepath.Join(root, "out", "replays"), 0o755)
	_ = os.MkdirAll(filepath.Join(root, "evidence"), 0o755)

	var rp *Replay
	if replayPath != "" {
		b, err := os.ReadFile(replayPath)
		if err != nil {
			fmt.Println("replay:", err)
			return ExitHarnessBug
		}
		rp = &Replay{}
		if err := json.Unmarshal(b, rp); err != nil {
			fmt.Println("replay:", err)
			return ExitHarnessBug
		}
		tier, seed = rp.Tier, rp.Seed
	}

	phases := chk.Phases(tier)
	var outcomes []*shardOutcome
	for _, ph := range phases {
		if rp != nil && ph.Name != rp.Phase {
			continue
		}
		outcomes = append(outcomes, runPhase(chk, ph, tier, seed, outDir, rp)...)
	}

	// ---- merge ----
	var (
		evals, discarded int64
		events           = map[string]int64{}
		samples          []any
		viols            []Violation
		notes            []string
		inconclusive     []string
		harnessBugs      []string
		distinct         = map[uint64]struct{}{}
		crashes          int
	)
	for _, o := range outcomes {
		if o.res != nil {
			evals += o.res.Evaluations
			discarded += o.res.Discarded
			for k, v := range o.res.Events {
				events[k] += v
			}
			for _, s := range o.res.Samples {
				if len(samples) < 6 {
					samples = append(samples, s)
				}
			}
			viols = append(viols, o.res.Violations...)
			notes = append(notes, o.res.Notes...)
			for _, h := range o.hashes {
				distinct[h] = struct{}{}
			}
		}
		if o.res != nil && o.res.Done && o.exitErr == nil {
			continue
		}
		// abnormal end
		tail, dump := readLogTail(o.logPath)
		switch {
		case o.timedOut:
			if o.phase.HangIsViolation && strings.Contains(dump, libMarker) {
				viols = append(viols, Violation{Property: id, Key: "hang", Phase: o.phase.Name, Shard: o.shard,
					Msg:  fmt.Sprintf("watchdog (%s) expired with library goroutines blocked; dump in %s", o.phase.Timeout, o.logPath),
					Case: o.curCase})
			} else {
				inconclusive = append(inconclusive, fmt.Sprintf("phase %s shard %d: watchdog %s expired (log %s)", o.phase.Name, o.shard, o.phase.Timeout, o.logPath))
			}
		default:
			crashes++
			origin, headline := classifyCrash(tail)
			switch origin {
			case "lib":
				// the case the child announced (env.Begin) may name its own crash class ("crash_key"): the key is
				// then specific to that input class, so a death of the same KIND on any other input is a
				// different (unknown) violation instead of silently matching a known finding
				var cur struct {
					Index int64 `json:"index"`
					Case  struct {
						CrashKey string `json:"crash_key"`
					} `json:"case"`
				}
				_ = json.Unmarshal(o.curCase, &cur)
				key := "crash:" + crashKey(headline)
				if cur.Case.CrashKey != "" {
					kind := crashKey(headline)
					switch {
					case strings.Contains(headline, "stack overflow") || strings.Contains(headline, "stack exceeds"):
						kind = "stack-overflow"
					case strings.Contains(headline, "out of memory"):
						kind = "out-of-memory"
					}
					key = "crash:" + cur.Case.CrashKey + ":" + kind
				}
				viols = append([]Violation{{Property: id, Key: key, Phase: o.phase.Name, Shard: o.shard, Index: cur.Index,
					Msg: "child process died in library code: " + headline + " (log " + o.logPath + ")", Case: o.curCase}}, viols...)
			default:
				harnessBugs = append(harnessBugs, fmt.Sprintf("phase %s shard %d: child ended abnormally (%v): %s (log %s)", o.phase.Name, o.shard, o.exitErr, headline, o.logPath))
			}
		}
	}
	events["child_crashes"] = int64(crashes)

	// ---- race logs ----
	raceBlocks, raceHarnessOnly := collectRaces(outDir)
	events["race_blocks_lib"] = int64(len(raceBlocks))
	for sig, blk := range raceBlocks {
		viols = append(viols, Violation{Property: id, Key: "race:" + sig, Msg: "DATA RACE involving library code:\n" + blk})
	}
	for sig := range raceHarnessOnly {
		harnessBugs = append(harnessBugs, "data race with only harness frames: "+sig)
	}

	// ---- required observations ----
	if rp == nil {
		for _, k := range chk.RequiredEvents {
			if events[k] <= 0 {
				inconclusive = append(inconclusive, "monitors observed no event of kind "+k)
			}
		}
	}

	// ---- known findings ----
	known := loadKnown()
	var unknownViols []Violation
	printedKnown := map[string]bool{}
	for _, v := range viols {
		matched := false
		for _, k := range known {
			if k.Status == "known" && k.Property == v.Property && k.Key == v.Key {
				matched = true
				if !printedKnown[k.Key] {
					printedKnown[k.Key] = true
					fmt.Printf("KNOWN-FINDING: property=%s %s [%s]\n", k.Property, k.What, k.Key)
				}
			}
		}
		if !matched {
			unknownViols = append(unknownViols, v)
		}
	}

	// ---- evidence ----
	exhaustive := chk.Exhaustive != nil && chk.Exhaustive(tier)
	cov := map[string]any{
		"evaluations":         evals,
		"distinct_nontrivial": len(distinct),
		"rule":                chk.Rule,
		"samples":             samples,
		"events":              events,
		"discarded":           discarded,
		"exhaustive":          exhaustive,
		"phases":              phaseSummary(phases),
		"known_findings_seen": len(printedKnown),
	}
	if len(notes) > 0 {
		if len(notes) > 20 {
			notes = notes[:20]
		}
		cov["notes"] = notes
	}
	if len(inconclusive) > 0 {
		cov["inconclusive"] = inconclusive
	}
	ev := map[string]any{
		"property_id": id, "tier": tierName(tier), "seed": seed, "level": chk.Level, "coverage": cov,
		"assumptions": chk.Assumptions, "wall_s": time.Since(start).Seconds(), "violations": len(unknownViols),
	}
	if rp == nil {
		b, _ := json.MarshalIndent(ev, "", " ")
		_ = os.WriteFile(filepath.Join(root, "evidence", id+".json"), b, 0o644)
	}

	fmt.Printf("%s tier=%s seed=%d evaluations=%d distinct_nontrivial=%d discarded=%d crashes=%d race_blocks=%d wall=%.1fs\n",
		id, tier, seed, evals, len(distinct), discarded, crashes, len(raceBlocks), time.Since(start).Seconds())
	keys := make([]string, 0, len(events))
	for k := range events {
		keys = append(keys, k)
	}
	sort.Strings(keys)
	var sb strings.Builder
	for _, k := range keys {
		fmt.Fprintf(&sb, " %s=%d", k, events[k])
	}
	fmt.Println("observed:" + sb.String())

	// ---- verdict ----
	if len(unknownViols) > 0 {
		for i, v := range unknownViols {
			if i >= 10 {
				break
			}
			p := filepath.Join(root, "out", "replays", fmt.Sprintf("%s-%d-%d.json", id, seed, i))
			r := Replay{Property: v.Property, Tier: tier, Seed: seed, Phase: v.Phase, Shard: v.Shard, Index: v.Index, Key: v.Key, Msg: v.Msg, Case: v.Case}
			for _, ph := range phases {
				if ph.Name == v.Phase {
					r.Shards = ph.Shards
				}
			}
			b, _ := json.MarshalIndent(r, "", " ")
			_ = os.WriteFile(p, b, 0o644)
			fmt.Printf("  [%s] %s\n", v.Key, firstLines(v.Msg, 12))
			fmt.Printf("VIOLATION property=%s replay=%s\n", v.Property, p)
		}
		return ExitViolation
	}
	if len(harnessBugs) > 0 {
		for _, h := range harnessBugs {
			fmt.Println("HARNESS-BUG:", h)
		}
		return ExitHarnessBug
	}
	if len(inconclusive) > 0 {
		for _, r := range inconclusive {
			fmt.Printf("INCONCLUSIVE property=%s reason=%s\n", id, r)
		}
		return ExitInconclusive
	}

	return ExitHeld
}

func tierName(t string) string {
	if t == "thorough" {
		return "thorough"
	}

	return "quick"
}

func phaseSummary(ps []Phase) []map[string]any {
	var out []map[string]any
	for _, p := range ps {
		out = append(out, map[string]any{"name": p.Name, "race": p.Race, "shards": p.Shards})
	}

	return out
}

func firstLines(s string, n int) string {
	lines := strings.Split(s, "\n")
	if len(lines) > n {
		lines = append(lines[:n], "…")
	}

	return strings.Join(lines, "\n    ")
}

func runPhase(chk *Check, ph Phase, tier string, seed uint64, outDir string, rp *Replay) []*shardOutcome {
	par := ph.Parallel
	if par <= 0 {
		par = runtime.NumCPU()
	}
	if par > ph.Shards {
		par = ph.Shards
	}
	sem := make(chan struct{}, par)
	outs := make([]*shardOutcome, ph.Shards)
	var wg sync.WaitGroup
	for i := 0; i < ph.Shards; i++ {
		if rp != nil && i != rp.Shard {
			continue
		}
		wg.Add(1)
		sem <- struct{}{}
		go func(i int) {
			defer wg.Done()
			defer func() { <-sem }()
			outs[i] = runShard(chk, ph, tier, seed, outDir, i, rp)
		}(i)
	}
	wg.Wait()
	var res []*shardOutcome
	for _, o := range outs {
		if o != nil {
			res = append(res, o)
		}
	}

	return res
}

func runShard(chk *Check, ph Phase, tier string, seed uint64, outDir string, shard int, rp *Replay) *shardOutcome {
	bin := filepath.Join(VerifRoot(), "bin", "vcheck")
	if ph.Race {
		bin += "-race"
	}
	if d := os.Getenv("VERIF_BIN_DIR"); d != "" {
		bin = filepath.Join(d, filepath.Base(bin))
	}
	args := []string{"worker", chk.ID, "--tier", tier, "--seed", fmt.Sprint(seed), "--phase", ph.Name,
		"--shard", fmt.Sprint(shard), "--shards", fmt.Sprint(ph.Shards), "--out", outDir}
	if rp != nil {
		args = append(args, "--replay-index", fmt.Sprint(rp.Index))
	}
	base := filepath.Join(outDir, fmt.Sprintf("%s-%d", ph.Name, shard))
	logPath := base + ".log"
	logF, _ := os.Create(logPath)
	defer logF.Close()

	timeout := ph.Timeout
	if timeout <= 0 {
		timeout = 30 * time.Minute
	}
	ctx, cancel := context.WithCancel(context.Background())
	defer cancel()
	var cmd *exec.Cmd
	if ph.MemLimitKB > 0 && !ph.Race {
		sh := fmt.Sprintf("ulimit -v %d; exec \"$0\" \"$@\"", ph.MemLimitKB)
		cmd = exec.CommandContext(ctx, "sh", append([]string{"-c", sh, bin}, args...)...)
	} else {
		cmd = exec.CommandContext(ctx, bin, args...)
	}
	cmd.Stdout, cmd.Stderr = logF, logF
	cmd.Env = append(os.Environ(), "GOTRACEBACK=all")
	if ph.Race {
		cmd.Env = append(cmd.Env, fmt.Sprintf("GORACE=halt_on_error=0 history_size=5 log_path=%s/race.%s.%d", outDir, ph.Name, shard))
	}
	cmd.Env = append(cmd.Env, ph.Env...)
	o := &shardOutcome{phase: ph, shard: shard, logPath: logPath}
	if err := cmd.Start(); err != nil {
		o.exitErr = err
		return o
	}
	done := make(chan error, 1)
	go func() { done <- cmd.Wait() }()
	select {
	case err := <-done:
		o.exitErr = err
	case <-time.After(timeout):
		o.timedOut = true
		_ = cmd.Process.Signal(syscall.SIGQUIT)
		select {
		case err := <-done:
			o.exitErr = err
		case <-time.After(10 * time.Second):
			_ = cmd.Process.Kill()
			o.exitErr = <-done
		}
	}
	if b, err := os.ReadFile(base + ".json"); err == nil {
		var r ShardResult
		if json.Unmarshal(b, &r) == nil {
			o.res = &r
		}
	}
	if b, err := os.ReadFile(base + ".hashes"); err == nil {
		for i := 0; i+8 <= len(b); i += 8 {
			o.hashes = append(o.hashes, binary.LittleEndian.Uint64(b[i:]))
		}
		_ = os.Remove(base + ".hashes")
	}
	if b, err := os.ReadFile(base + ".current"); err == nil {
		if len(b) > 1<<20 {
			b, _ = json.Marshal(map[string]any{"truncated_case_file": base + ".current", "bytes": len(b)})
		}
		o.curCase = b
	}

	return o
}

// readLogTail returns the last part of a child log and (if present) the goroutine dump.
func readLogTail(path string) (tail, dump string) {
	b, err := os.ReadFile(path)
	if err != nil {
		return "", ""
	}
	const max = 256 << 10
	if len(b) > max {
		// keep the head of the crash report: find the first panic/fatal marker
		idx := bytes.Index(b, []byte("\nfatal error:"))
		if j := bytes.Index(b, []byte("\npanic:")); j >= 0 && (idx < 0 || j < idx) {
			idx = j
		}
		if j := bytes.Index(b, []byte("SIGQUIT")); j >= 0 && (idx < 0 || j < idx) {
			idx = j
		}
		if idx < 0 {
			idx = len(b) - max
		}
		end := idx + max
		if end > len(b) {
			end = len(b)
		}
		b = b[idx:end]
	}

	return string(b), string(b)
}

var frameRe = regexp.MustCompile(`^([\w./\-()*\[\]{},· ]+)\(.*\)$|^([\w./\-()*\[\]{},· ]+)\.func\d+`)

// classifyCrash decides whether a child crash originated in library code ("lib") or in the
// harness ("harness"): the first frame of the crashing goroutine that belongs to either decides.
func classifyCrash(log string) (origin, headline string) {
	sc := bufio.NewScanner(strings.NewReader(log))
	sc.Buffer(make([]byte, 1<<20), 1<<20)
	seenHead := false
	inFirst := false
	for sc.Scan() {
		ln := sc.Text()
		if !seenHead {
			if strings.HasPrefix(ln, "panic:") || strings.HasPrefix(ln, "fatal error:") || strings.HasPrefix(ln, "runtime: out of memory") || strings.HasPrefix(ln, "runtime: goroutine stack exceeds") {
				seenHead = true
				headline = ln
			}
			continue
		}
		if strings.HasPrefix(ln, "goroutine ") {
			if inFirst {
				break // second goroutine: stop
			}
			inFirst = true
			continue
		}
		if !inFirst {
			if strings.HasPrefix(ln, "fatal error:") && !strings.Contains(headline, "fatal error") {
				headline += " / " + ln
			}
			continue
		}
		t := strings.TrimSpace(ln)
		if strings.HasPrefix(t, libMarker) {
			return "lib", headline
		}
		if strings.HasPrefix(t, "verif/") || strings.HasPrefix(t, "main.") {
			return "harness", headline
		}
	}
	if !seenHead {
		return "harness", "no panic/fatal marker in child log"
	}

	return "harness", headline
}

func crashKey(headline string) string {
	h := headline
	if i := strings.Index(h, "\n"); i >= 0 {
		h = h[:i]
	}
	h = regexp.MustCompile(`0x[0-9a-f]+|\d+`).ReplaceAllString(h, "N")
	if len(h) > 80 {
		h = h[:80]
	}

	return h
}

var (
	lineNoRe  = regexp.MustCompile(`:\d+( \+0x[0-9a-f]+)?$`)
	addrRe    = regexp.MustCompile(`0x[0-9a-f]+`)
	goidRe    = regexp.MustCompile(`goroutine \d+`)
	raceSplit = "WARNING: DATA RACE"
)

// collectRaces parses race logs, splits them into blocks and dedupes them by the function-name
// stack pair (line numbers stripped). It returns blocks that involve library frames and the
// signatures of blocks that involve only harness frames.
func collectRaces(outDir string) (lib map[string]string, harnessOnly map[string]string) {
	lib, harnessOnly = map[string]string{}, map[string]string{}
	files, _ := filepath.Glob(filepath.Join(outDir, "race.*"))
	for _, f := range files {
		b, err := os.ReadFile(f)
		if err != nil {
			continue
		}
		parts := strings.Split(string(b), raceSplit)
		for _, p := range parts[1:] {
			if i := strings.Index(p, "=================="); i >= 0 {
				p = p[:i]
			}
			sig := raceSignature(p)
			if strings.Contains(p, libMarker) {
				if _, ok := lib[sig]; !ok {
					if len(p) > 6000 {
						p = p[:6000]
					}
					lib[sig] = p
				}
			} else {
				harnessOnly[sig] = p
			}
		}
	}

	return lib, harnessOnly
}

// raceSignature: the first two function names of each of the two access stacks.
func raceSignature(block string) string {
	var funcs []string
	sc := bufio.NewScanner(strings.NewReader(block))
	stack := 0
	inStack := false
	for sc.Scan() {
		ln := sc.Text()
		t := strings.TrimSpace(ln)
		switch {
		case strings.HasPrefix(t, "Read at") || strings.HasPrefix(t, "Write at") || strings.HasPrefix(t, "Previous read at") || strings.HasPrefix(t, "Previous write at") ||
			strings.HasPrefix(t, "Atomic") || strings.HasPrefix(t, "Previous atomic"):
			stack++
			inStack = true
			n := 0
			_ = n
			funcs = append(funcs, "|")
		case t == "" || strings.HasPrefix(t, "Goroutine "):
			inStack = false
		case inStack && !strings.HasPrefix(ln, "      ") && strings.HasSuffix(t, ")"):
			// function line
			name := t
			if i := strings.Index(name, "("); i > 0 {
				name = name[:i]
			}
			cnt := 0
			for j := len(funcs) - 1; j >= 0 && funcs[j] != "|"; j-- {
				cnt++
			}
			if cnt < 3 {
				funcs = append(funcs, name)
			}
		}
		if stack > 2 {
			break
		}
	}
	s := strings.Join(funcs, ">")
	s = addrRe.ReplaceAllString(s, "")
	s = goidRe.ReplaceAllString(s, "")
	_ = lineNoRe
	if len(s) > 300 {
		s = s[:300]
	}

	return s
}
