// Package fw is the shared runner/recorder framework of the go-secs runtime-monitoring harness.
//
// A check is a set of phases; each phase is executed as N child processes ("shards") of the
// vcheck (or vcheck-race) binary, so that one panic / fatal error / deadlock in library code
// cannot take the monitors down. Every shard records what its monitors observed (evaluations,
// distinct non-trivial case hashes, event counters, samples, violations) into a JSON file that
// the parent merges into /verif/evidence/<id>.json.
package fw

import (
	"encoding/binary"
	"encoding/json"
	"fmt"
	"hash/fnv"
	"math/rand/v2"
	"os"
	"path/filepath"
	"sort"
	"sync"
	"sync/atomic"
	"time"
)

// Exit codes of `vcheck run`.
const (
	ExitHeld         = 0
	ExitViolation    = 1
	ExitInconclusive = 2
	ExitHarnessBug   = 3
)

// Phase describes one group of child processes of a check.
type Phase struct {
	Name     string
	Race     bool          // run under the -race build (race detector + checkptr)
	Shards   int           // number of child processes (case streams are partitioned by shard)
	Parallel int           // max shards running at once (0 = min(Shards, NumCPU))
	Timeout  time.Duration // per-shard watchdog
	// HangIsViolation: a watchdog expiry whose goroutine dump shows library frames is a
	// violation (properties that state "does not hang"); otherwise it is inconclusive.
	HangIsViolation bool
	// MemLimitKB, when >0, runs the child under `ulimit -v` (plain build only).
	MemLimitKB int64
	// RaceOwner is the property a go-secs race block in this phase is attributed to ("" = check's own id).
	RaceOwner string
	// Env is extra environment for the child.
	Env []string
}

// Check is a registered property check.
type Check struct {
	ID          string
	Level       string // exploration | fault_enumeration
	Rule        string // how cases are generated and what makes one distinct/non-trivial
	Assumptions []string
	Phases      func(tier string) []Phase
	Worker      func(env *Env)
	// RequiredEvents: event kinds that must have a positive total, otherwise the run observed
	// nothing of that kind and is inconclusive.
	RequiredEvents []string
	// Exhaustive is set when the check enumerates a finite space completely in every tier.
	Exhaustive func(tier string) bool
}

var registry = map[string]*Check{}

// Register adds a check to the registry.
func Register(c *Check) { registry[c.ID] = c }

// Lookup returns a registered check.
func Lookup(id string) *Check { return registry[id] }

// IDs lists registered check ids.
func IDs() []string {
	var ids []string
	for id := range registry {
		ids = append(ids, id)
	}
	sort.Strings(ids)

	return ids
}

// Violation is one refutation of a property found by a monitor.
type Violation struct {
	Property string `json:"property"`
	Key      string `json:"key"` // classification used to match known_findings.json
	Msg      string `json:"msg"`
	Case     any    `json:"case,omitempty"`
	Phase    string `json:"phase,omitempty"`
	Shard    int    `json:"shard"`
	Index    int64  `json:"index"`
}

// ShardResult is what one child process reports.
type ShardResult struct {
	Phase       string           `json:"phase"`
	Shard       int              `json:"shard"`
	Evaluations int64            `json:"evaluations"`
	Nontrivial  int64            `json:"nontrivial"`
	Events      map[string]int64 `json:"events"`
	Samples     []any            `json:"samples"`
	Violations  []Violation      `json:"violations"`
	Discarded   int64            `json:"discarded"`
	Notes       []string         `json:"notes,omitempty"`
	Done        bool             `json:"done"`
	WallS       float64          `json:"wall_s"`
}

// Replay identifies one case of one shard.
type Replay struct {
	Property string `json:"property"`
	Tier     string `json:"tier"`
	Seed     uint64 `json:"seed"`
	Phase    string `json:"phase"`
	Shard    int    `json:"shard"`
	Shards   int    `json:"shards"`
	Index    int64  `json:"index"`
	Key      string `json:"key"`
	Msg      string `json:"msg"`
	Case     any    `json:"case,omitempty"`
}

// Env is the per-shard execution environment handed to a check's Worker.
type Env struct {
	Property string
	Tier     string
	Seed     uint64
	Phase    string
	Shard    int
	Shards   int
	OutDir   string
	Race     bool
	// ReplayIndex >= 0 restricts the worker to that single case index.
	ReplayIndex int64

	start time.Time

	mu         sync.Mutex
	hashes     map[uint64]struct{}
	events     map[string]int64
	samples    []any
	violations []Violation
	notes      []string
	evals      atomic.Int64
	discarded  atomic.Int64
	curIndex   atomic.Int64
	maxViol    int
	casePath   string
}

// NewEnv builds a worker environment.
func NewEnv(prop, tier string, seed uint64, phase string, shard, shards int, outDir string, race bool) *Env {
	e := &Env{
		Property: prop, Tier: tier, Seed: seed, Phase: phase, Shard: shard, Shards: shards,
		OutDir: outDir, Race: race, ReplayIndex: -1, start: time.Now(),
		hashes: map[uint64]struct{}{}, events: map[string]int64{}, maxViol: 20,
	}
	e.casePath = filepath.Join(outDir, fmt.Sprintf("%s-%d.current", phase, shard))

	return e
}

// Quick reports whether the tier is "quick".
func (e *Env) Quick() bool { return e.Tier != "thorough" }

// Pick returns q in the quick tier and t in the thorough tier.
func (e *Env) Pick(q, t int) int {
	if e.Quick() {
		return q
	}

	return t
}

// Rand returns a PCG stream that is a pure function of (seed, property, phase, shard, stream).
func (e *Env) Rand(stream string) *rand.Rand {
	h := fnv.New64a()
	fmt.Fprintf(h, "%s|%s|%d|%s", e.Property, e.Phase, e.Shard, stream)

	return rand.New(rand.NewPCG(e.Seed, h.Sum64()))
}

// RandAt returns a PCG stream for one case index (so a case can be replayed in isolation).
func (e *Env) RandAt(stream string, index int64) *rand.Rand {
	h := fnv.New64a()
	fmt.Fprintf(h, "%s|%s|%d|%s|%d", e.Property, e.Phase, e.Shard, stream, index)

	return rand.New(rand.NewPCG(e.Seed, h.Sum64()))
}

// Want reports whether case index i should run (replay filter).
func (e *Env) Want(i int64) bool {
	e.curIndex.Store(i)

	return e.ReplayIndex < 0 || e.ReplayIndex == i
}

// Mine reports whether global case number i belongs to this shard.
func (e *Env) Mine(i int64) bool { return int(i%int64(e.Shards)) == e.Shard }

// Begin records the case about to run on disk (crash attribution). Use for calls that can kill
// the process (panic in another goroutine, fatal error, OOM, stack overflow).
func (e *Env) Begin(index int64, c any) {
	e.curIndex.Store(index)
	b, _ := json.Marshal(map[string]any{"index": index, "case": c})
	_ = os.WriteFile(e.casePath, b, 0o644)
}

// Eval counts one evaluated case. hash identifies the case; nontrivial says whether it meets the
// property's non-triviality rule. Distinct non-trivial hashes are what evidence reports.
func (e *Env) Eval(hash uint64, nontrivial bool) {
	e.evals.Add(1)
	if !nontrivial {
		return
	}
	e.mu.Lock()
	e.hashes[hash] = struct{}{}
	e.mu.Unlock()
}

// EvalN counts n evaluations that share no per-case hash (bulk exhaustive enumeration); the
// caller passes the number of distinct non-trivial cases among them via hashes of its own.
func (e *Env) EvalN(n int64) { e.evals.Add(n) }

// Discard counts a generated case whose premise failed (not judged).
func (e *Env) Discard() { e.discarded.Add(1) }

// Event adds n to an observation counter.
func (e *Env) Event(kind string, n int64) {
	e.mu.Lock()
	e.events[kind] += n
	e.mu.Unlock()
}

// Sample keeps the first few cases as written-out samples.
func (e *Env) Sample(v any) {
	e.mu.Lock()
	if len(e.samples) < 4 {
		e.samples = append(e.samples, v)
	}
	e.mu.Unlock()
}

// Note attaches a free-text note to the shard result.
func (e *Env) Note(format string, a ...any) {
	e.mu.Lock()
	if len(e.notes) < 50 {
		e.notes = append(e.notes, fmt.Sprintf(format, a...))
	}
	e.mu.Unlock()
}

// Violate records a violation (capped per shard, further ones are only counted).
func (e *Env) Violate(key, msg string, c any) {
	e.ViolateFor(e.Property, key, msg, c)
}

// ViolateFor records a violation attributed to another property id.
func (e *Env) ViolateFor(prop, key, msg string, c any) {
	e.mu.Lock()
	defer e.mu.Unlock()
	e.events["violations_total"]++
	// keep at most maxViol, but at most 3 per key so distinct keys stay visible
	n := 0
	for _, v := range e.violations {
		if v.Key == key {
			n++
		}
	}
	if n >= 3 || len(e.violations) >= e.maxViol {
		return
	}
	if len(msg) > 2000 {
		msg = msg[:2000] + "…"
	}
	e.violations = append(e.violations, Violation{
		Property: prop, Key: key, Msg: msg, Case: c, Phase: e.Phase, Shard: e.Shard, Index: e.curIndex.Load(),
	})
}

// Stop reports whether the worker should stop early: enough violations have been recorded that
// further cases add nothing (a broken tree may make every further case slow or huge).
func (e *Env) Stop() bool {
	e.mu.Lock()
	defer e.mu.Unlock()

	return e.events["violations_total"] >= 6
}

// Violations returns the number of recorded violations so far.
func (e *Env) Violations() int {
	e.mu.Lock()
	defer e.mu.Unlock()

	return len(e.violations)
}

// Finish writes the shard result files.
func (e *Env) Finish() error {
	e.mu.Lock()
	defer e.mu.Unlock()
	res := ShardResult{
		Phase: e.Phase, Shard: e.Shard, Evaluations: e.evals.Load(), Nontrivial: int64(len(e.hashes)),
		Events: e.events, Samples: e.samples, Violations: e.violations, Discarded: e.discarded.Load(),
		Notes: e.notes, Done: true, WallS: time.Since(e.start).Seconds(),
	}
	b, err := json.Marshal(res)
	if err != nil {
		return err
	}
	base := filepath.Join(e.OutDir, fmt.Sprintf("%s-%d", e.Phase, e.Shard))
	hb := make([]byte, 0, 8*len(e.hashes))
	for h := range e.hashes {
		hb = binary.LittleEndian.AppendUint64(hb, h)
	}
	if err := os.WriteFile(base+".hashes", hb, 0o644); err != nil {
		return err
	}
	_ = os.Remove(e.casePath)

	return os.WriteFile(base+".json", b, 0o644)
}

// Hash64 hashes byte strings into a case hash.
func Hash64(parts ...[]byte) uint64 {
	h := fnv.New64a()
	var l [4]byte
	for _, p := range parts {
		binary.LittleEndian.PutUint32(l[:], uint32(len(p)))
		h.Write(l[:])
		h.Write(p)
	}

	return h.Sum64()
}

// HashStr hashes strings into a case hash.
func HashStr(parts ...string) uint64 {
	h := fnv.New64a()
	for _, p := range parts {
		fmt.Fprintf(h, "%d:", len(p))
		h.Write([]byte(p))
	}

	return h.Sum64()
}
