package checks

import (
	"context"
	"errors"
	"fmt"
	"io"
	"strings"
	"sync"
	"sync/atomic"
	"time"

	"github.com/arloliu/go-secs/v2/hsms"
	"github.com/arloliu/go-secs/v2/secs1"
	"github.com/arloliu/go-secs/v2/secs2"

	"verif/fw"
	"verif/peer"
)

// C10 on the SECS-I transport: the same lifecycle programs and post-conditions as c10One, against a raw
// TCP peer (SECS-I has no select procedure: the link is usable as soon as TCP is up; the peer holds, drops,
// resets, refuses or connects inside Close, and never answers an ENQ, so sends end in line errors).

func c10S1Worker(env *fw.Env) {
	total := int64(env.Pick(96, 2000))
	for i := int64(0); i < total; i++ {
		if !env.Mine(i) || !env.Want(i) {
			continue
		}
		if env.Stop() {
			return
		}
		c10S1One(env, i)
	}
}

var c10S1PeerOps = []string{"connect", "connect", "drop", "reset", "refuse", "late-connect", "garbage", "pause"}

//nolint:gocyclo,cyclop // one lifecycle program with its post-conditions
func c10S1One(env *fw.Env, i int64) {
	r := env.RandAt("s1prog", i)
	cs := c10Case{Index: i, Active: i%2 == 0, Delays: r.IntN(2) == 0}
	nthreads := 2 + r.IntN(4)
	hasClose := false
	for t := 0; t < nthreads; t++ {
		var ops []string
		for k, n := 0, 4+r.IntN(7); k < n; k++ {
			op := c10Ops[r.IntN(len(c10Ops))]
			if op == "close" {
				hasClose = true
			}
			ops = append(ops, op)
		}
		cs.Threads = append(cs.Threads, ops)
	}
	for k, n := 0, 3+r.IntN(6); k < n; k++ {
		cs.Peer = append(cs.Peer, c10S1PeerOps[r.IntN(len(c10S1PeerOps))])
	}
	env.Begin(i, cs)
	env.Sample(cs)
	env.Eval(fw.HashStr("c10s1", fmt.Sprint(cs)), hasClose)
	env.Event("s1_programs", 1)
	fdBefore := socketFDs()
	closeTimeout := 500 * time.Millisecond
	trk := &peer.Tracker{}
	lg := &peer.CapLogger{}
	var l *peer.Listener
	port := 1
	if cs.Active {
		var err error
		if l, err = peer.Listen(); err != nil {
			env.Discard()
			return
		}
		port = l.Port()
		defer l.Close()
	}
	opts := []secs1.Option{
		secs1.WithT1(40 * time.Millisecond), secs1.WithT2(80 * time.Millisecond), secs1.WithT4(200 * time.Millisecond), secs1.WithRetryLimit(r.IntN(2)),
		secs1.WithDialer(trk.DialFunc), secs1.WithListener(trk.ListenFunc), secs1.WithConnectTimeout(300 * time.Millisecond),
		secs1.WithConnectionOption(hsms.WithT3(300 * time.Millisecond)), secs1.WithConnectionOption(hsms.WithT5(30 * time.Millisecond)),
		secs1.WithConnectionOption(hsms.WithReconnectBackoff(5*time.Millisecond, 2)), secs1.WithConnectionOption(hsms.WithCloseTimeout(closeTimeout)),
		secs1.WithConnectionOption(hsms.WithLogger(lg)),
	}
	if cs.Active {
		opts = append(opts, secs1.WithActive())
	} else {
		opts = append(opts, secs1.WithPassive())
	}
	if i%4 < 2 {
		opts = append(opts, secs1.WithEquipment())
	} else {
		opts = append(opts, secs1.WithHost())
	}
	cfg, err := secs1.NewConfig(peer.LoopHost, port, opts...)
	if err != nil {
		env.Note("secs1.NewConfig: %v", err)
		env.Discard()
		return
	}
	conn, err := secs1.New(cfg)
	if err != nil {
		env.Discard()
		return
	}
	conn.AddDataMessageHandler(func(*hsms.DataMessage, hsms.SECS2Endpoint) {})
	conn.AddConnStateChangeHandler(func(_, _ hsms.ConnState) {})
	if cs.Delays {
		undo := installDelays(env.Seed+uint64(i)*29, 800*time.Microsecond, 3, "hsms.teardown.afterCancel", "hsms.connectLoop.afterPublish", "hsms.react.beforeTeardown", "hsms.sup.beforeStep", "hsms.send.afterLoadEpoch")
		defer func() { env.Event("delays_injected", undo()) }()
	}
	violate := func(key, msg string) { env.Violate("secs1:"+key, msg, cs) }

	var stopPeer, refuse, lateGate atomic.Bool
	var closing atomic.Int32
	trk.SetFailDial(func(int) error {
		if refuse.Load() {
			return errors.New("harness: refused")
		}

		return nil
	})
	hold := func() {
		if lateGate.CompareAndSwap(true, false) {
			if waitFor(200*time.Millisecond, func() bool { return closing.Load() > 0 }) {
				env.Event("s1_connect_during_close", 1)
			}
		}
	}
	trk.SetDialDelay(func(int) time.Duration { hold(); return 0 })
	trk.AcceptGate = hold
	var pmu sync.Mutex
	var peerConns []*peer.Conn
	connectPeer := func() *peer.Conn {
		var pc *peer.Conn
		var err error
		if cs.Active {
			pc, err = l.Accept(60 * time.Millisecond)
		} else {
			addr, e := trk.ListenAddr(20 * time.Millisecond)
			if e != nil {
				return nil
			}
			pc, err = peer.Dial(addr, 0, 100*time.Millisecond)
		}
		if err != nil {
			return nil
		}
		go func() { _, _ = io.Copy(io.Discard, pc.C) }() // read and ignore everything the library writes
		pmu.Lock()
		peerConns = append(peerConns, pc)
		pmu.Unlock()

		return pc
	}
	var pwg sync.WaitGroup
	pwg.Add(1)
	go func() {
		defer pwg.Done()
		var cur *peer.Conn
		for k := 0; !stopPeer.Load(); k++ {
			switch cs.Peer[k%len(cs.Peer)] {
			case "connect":
				if c := connectPeer(); c != nil {
					cur = c
				}
			case "drop":
				if cur != nil {
					cur.Close()
				}
			case "reset":
				if cur != nil {
					cur.Reset()
				}
			case "refuse":
				refuse.Store(true)
				time.Sleep(time.Duration(2+k%7) * time.Millisecond)
				refuse.Store(false)
			case "late-connect":
				lateGate.Store(true)
				if c := connectPeer(); c != nil {
					cur = c
				}
			case "garbage":
				if cur != nil {
					_ = cur.SendRaw([]byte{0x05, 0x04, 0x15, 0x06, 0xFF, 0x0A, 1, 2, 3})
				}
			default:
				time.Sleep(time.Duration(1+k%5) * time.Millisecond)
			}
			time.Sleep(time.Duration(500+splitmix(uint64(i)*37+uint64(k))%4000) * time.Microsecond)
		}
	}()

	var inOps atomic.Int32
	var lastCloseErr atomic.Pointer[error]
	doClose := func(tag string) {
		overlapping := inOps.Load() > 1
		closing.Add(1)
		t0 := time.Now()
		err := conn.Close()
		el := time.Since(t0)
		closing.Add(-1)
		env.Event("s1_close_calls", 1)
		if overlapping {
			env.Event("s1_close_overlapping_ops", 1)
		}
		if el > closeTimeout+5*time.Second {
			violate("close-too-slow", fmt.Sprintf("%s: Close took %v (close timeout %v + 5 s slack)", tag, el, closeTimeout))
		}
		if err != nil && !errors.Is(err, hsms.ErrNotOpen) && !errors.Is(err, hsms.ErrCloseTimeout) {
			violate("close-unexpected-error", fmt.Sprintf("%s: Close returned %v", tag, err))
		}
		lastCloseErr.Store(&err)
	}
	var wg sync.WaitGroup
	for t := range cs.Threads {
		wg.Add(1)
		go func(t int) {
			defer wg.Done()
			for k, op := range cs.Threads[t] {
				inOps.Add(1)
				env.Event("s1_ops", 1)
				ctx, cancel := context.WithTimeout(context.Background(), 3*time.Second)
				t0 := time.Now()
				var err error
				switch op {
				case "open-bg":
					err = conn.Open(ctx, hsms.OpenBackground)
					if err != nil && !errors.Is(err, hsms.ErrAlreadyOpen) && !strings.Contains(err.Error(), "listen") && !strings.Contains(err.Error(), "dial") && !strings.Contains(err.Error(), "stopping") {
						violate("open-unexpected-error", fmt.Sprintf("Open(background) returned %v", err))
					}
				case "open-wait":
					octx, ocancel := context.WithTimeout(ctx, 80*time.Millisecond)
					_ = conn.Open(octx, hsms.OpenWaitSelected)
					ocancel()
				case "close":
					doClose(fmt.Sprintf("thread %d op %d", t, k))
				case "send-w":
					_, _ = conn.SendDataMessage(ctx, 1, 1, true, secs2.A("c10s1"))
				case "send":
					_, _ = conn.SendDataMessage(ctx, 1, 3, false, secs2.U4(uint32(k)))
				case "send-async":
					_ = conn.SendDataMessageAsync(ctx, 1, 5, false, secs2.L())
				case "update-config":
					if err := conn.UpdateConfigOptions(hsms.WithT3(time.Duration(250+10*k) * time.Millisecond)); err != nil {
						violate("update-config-error", err.Error())
					}
				default:
					time.Sleep(time.Duration(200+splitmix(uint64(i)*7+uint64(t*100+k))%3000) * time.Microsecond)
				}
				cancel()
				if el := time.Since(t0); el > 8*time.Second {
					violate("api-call-blocked", fmt.Sprintf("%s blocked for %v", op, el))
				}
				inOps.Add(-1)
			}
		}(t)
	}
	wg.Wait()
	stopPeer.Store(true)
	pwg.Wait()

	doClose("final")
	if st := conn.State(); st != hsms.NotConnectedState {
		env.ViolateFor("C05", "e2e-secs1-state-after-close-"+st.String(), fmt.Sprintf("SECS-I: State()==%v right after Close returned", st), cs)
	}
	err2 := conn.Close()
	if first := *lastCloseErr.Load(); (err2 == nil) != (first == nil) || (err2 != nil && err2.Error() != first.Error()) {
		violate("close-not-idempotent", fmt.Sprintf("the final Close returned %v, a second Close returned %v", first, err2))
	}
	dials, listens := trk.DialCount(), trk.ListenCount()
	var leaked []string
	if !waitFor(10*time.Second, func() bool { leaked = libGoroutines(); return len(leaked) == 0 }) {
		violate("goroutine-leak", fmt.Sprintf("%d goroutine(s) with library frames are still alive 10 s after Close returned, e.g.\n%s", len(leaked), firstN(leaked[0], 1200)))
	} else {
		env.Event("s1_leak_checks_clean", 1)
	}
	pmu.Lock()
	for _, c := range peerConns {
		c.Close()
	}
	pmu.Unlock()
	if c, ls := trk.Unclosed(); c != 0 || ls != 0 {
		if !waitFor(3*time.Second, func() bool { c, ls = trk.Unclosed(); return c == 0 && ls == 0 }) {
			violate("socket-leak", fmt.Sprintf("after Close returned %d socket(s) and %d listener(s) handed to the library were never closed", c, ls))
		}
	}
	time.Sleep(60 * time.Millisecond)
	if d, ls := trk.DialCount(), trk.ListenCount(); d != dials || ls != listens {
		violate("reconnect-after-close", fmt.Sprintf("after Close returned the library dialed/listened again (dials %d->%d, listens %d->%d)", dials, d, listens, ls))
	}

	// ---- reopen ----
	trk.SetFailDial(nil)
	trk.SetDialDelay(nil)
	trk.AcceptGate = nil
	if l != nil {
		env.Event("s1_stale_backlog_connections_drained", int64(l.Drain()))
	}
	seen := trk.ListenCount()
	if err := conn.Open(context.Background(), hsms.OpenBackground); err != nil {
		violate("reopen-failed", "Open after Close: "+err.Error())
		return
	}
	var pc *peer.Conn
	for attempt := 0; attempt < 5 && pc == nil; attempt++ {
		if cs.Active {
			pc, _ = l.Accept(3 * time.Second)
		} else if waitFor(5*time.Second, func() bool { return trk.ListenCount() > seen }) {
			if addr, e := trk.ListenAddr(time.Second); e == nil {
				pc, _ = peer.Dial(addr, 0, time.Second)
			}
		}
	}
	if pc == nil || !waitFor(10*time.Second, func() bool { return conn.State() == hsms.SelectedState }) {
		violate("reopen-failed", fmt.Sprintf("after the program and Close, Open + a TCP connection did not yield a usable (Selected) SECS-I link; State()=%v", conn.State()))
		_ = conn.Close()
		return
	}
	d0, l0 := trk.DialCount(), trk.ListenCount()
	if err := conn.Open(context.Background(), hsms.OpenBackground); !errors.Is(err, hsms.ErrAlreadyOpen) {
		violate("double-open-not-refused", fmt.Sprintf("Open on an open connection returned %v, want ErrAlreadyOpen", err))
	} else {
		env.Event("s1_double_open_refused", 1)
	}
	if d, ls := trk.DialCount(), trk.ListenCount(); d != d0 || ls != l0 {
		violate("double-open-side-effects", fmt.Sprintf("the refused second Open caused a dial/listen (dials %d->%d, listens %d->%d)", d0, d, l0, ls))
	}
	// a send on the reopened link must put an ENQ (0x05) on the line. The peer never grants the line, so the
	// send fails after its retries and the library re-establishes the link (by design): when the connection
	// at hand has already been replaced, take the next one — up to three times — before judging.
	enq := false
	var lastErr error
	one := make([]byte, 1)
	for attempt := 0; attempt < 3 && !enq; attempt++ {
		if attempt > 0 {
			pc.Close()
			pc = nil
			if cs.Active {
				pc, _ = l.Accept(5 * time.Second)
			} else if addr, e := trk.ListenAddr(time.Second); e == nil {
				waitFor(3*time.Second, func() bool { a2, _ := trk.ListenAddr(time.Second); return a2 != "" })
				pc, _ = peer.Dial(addr, 0, time.Second)
			}
			if pc == nil {
				break
			}
		}
		waitFor(10*time.Second, func() bool { return conn.State() == hsms.SelectedState })
		go func() {
			ctx, cancel := context.WithTimeout(context.Background(), time.Second)
			defer cancel()
			_, _ = conn.SendDataMessage(ctx, 1, 3, false, secs2.A("after-reopen"))
		}()
		_ = pc.C.SetReadDeadline(time.Now().Add(5 * time.Second))
		_, lastErr = io.ReadFull(pc.C, one)
		enq = lastErr == nil && one[0] == 0x05
	}
	if !enq {
		violate("reopened-connection-broken", fmt.Sprintf("three sends on the reopened SECS-I link put no ENQ on the line (last read %x err %v); State()=%v dials %d->%d listens %d->%d warns=%v",
			one, lastErr, conn.State(), d0, trk.DialCount(), l0, trk.ListenCount(), lg.Lines("")))
	} else {
		env.Event("s1_reopen_enq_seen", 1)
	}
	if pc == nil {
		_ = conn.Close()
		return
	}
	doClose("after-reopen")
	pc.Close()
	if l != nil {
		l.Close()
	}
	if !waitFor(10*time.Second, func() bool { leaked = libGoroutines(); return len(leaked) == 0 }) {
		violate("goroutine-leak", fmt.Sprintf("%d library goroutine(s) alive 10 s after the last Close, e.g.\n%s", len(leaked), firstN(leaked[0], 1200)))
	}
	if fdAfter := socketFDs(); fdBefore >= 0 && fdAfter > fdBefore {
		if !waitFor(3*time.Second, func() bool { fdAfter = socketFDs(); return fdAfter <= fdBefore }) {
			violate("fd-leak", fmt.Sprintf("socket file descriptors: %d before the program, %d after the last Close", fdBefore, fdAfter))
		}
	}
}
