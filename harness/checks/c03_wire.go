package checks

import (
	"bytes"
	"context"
	"fmt"
	"time"

	"github.com/arloliu/go-secs/v2/hsms"
	"github.com/arloliu/go-secs/v2/secs2"

	"verif/fw"
	"verif/gen"
	"verif/peer"
	"verif/ref/e37"
)

// C03 wire half: the bytes a real connection writes to the socket equal Message.ToBytes() (and the
// independent reference encoding), for data messages sent through every send entry point and for the
// control frames the library emits itself.
func init() { c03ExtraPhases["wire"] = c03Wire }

type c03WireCase struct {
	Index  int64  `json:"index"`
	Active bool   `json:"active"`
	API    string `json:"api"`
	Tree   string `json:"body_tree"`
	Hdr    string `json:"stream_function_w"`
}

var c03WireAPIs = []string{"ForwardDataMessage", "ForwardDataMessageAsync", "SendDataMessage", "SendDataMessageAsync", "SendSECS2Message", "ReplyDataMessage"}

func c03Wire(env *fw.Env) {
	perConn := env.Pick(50, 400)
	conns := env.Pick(1, 4)
	for ci := 0; ci < conns; ci++ {
		active := (env.Shard+ci)%2 == 0
		c03WireConn(env, int64(env.Shard*1000+ci), active, perConn)
		if env.Stop() {
			return
		}
	}
}

func c03WireConn(env *fw.Env, connIdx int64, active bool, n int) {
	const session = 0x2B47
	rg, err := newRig(rigOpts{Active: active, SessionID: session})
	if err != nil {
		env.Discard()
		return
	}
	if err := rg.Open(); err != nil {
		env.Violate("wire-open-failed", err.Error(), nil)
		return
	}
	closed := false
	defer func() {
		if !closed {
			_ = rg.Shutdown()
		}
	}()
	pc, err := rg.PeerConnect(10 * time.Second)
	if err != nil {
		env.Discard()
		return
	}
	defer pc.Close()
	pc.Start()
	// ---- control frames of the select procedure, byte for byte ----
	if active {
		f, err := pc.Recv(10 * time.Second)
		if err != nil {
			env.Violate("wire-no-select-req", err.Error(), nil)
			return
		}
		want := e37.SelectReq(session, e37.SystemOf(f.Sys)).Encode()
		if !bytes.Equal(f.Bytes(), want) {
			env.Violate("wire-control-bytes:select.req", fmt.Sprintf("Select.req on the wire %x, reference %x", f.Bytes(), want), nil)
		}
		env.Event("wire_control_frames_compared", 1)
		_ = pc.Send(peer.SelectRsp(session, 0, f.Sys))
	} else {
		req := e37.SelectReq(session, e37.SystemOf(0xA1B2C3D4))
		_ = pc.SendRaw(req.Encode())
		f, err := pc.Recv(10 * time.Second)
		if err != nil {
			env.Violate("wire-no-select-rsp", err.Error(), nil)
			return
		}
		if want := e37.SelectRsp(req, 0).Encode(); !bytes.Equal(f.Bytes(), want) {
			env.Violate("wire-control-bytes:select.rsp", fmt.Sprintf("Select.rsp on the wire %x, reference %x", f.Bytes(), want), nil)
		}
		env.Event("wire_control_frames_compared", 1)
	}
	if !waitState(rg.Conn, hsms.SelectedState, 10*time.Second) {
		env.Discard()
		return
	}
	// linktest.rsp and a reject for an undefined SType
	lt := e37.LinktestReq(e37.SystemOf(0x0BADF00D))
	bad := e37.Frame{SessionID: 0x0102, Byte2: 3, Byte3: 4, PType: 0, SType: 77, System: e37.SystemOf(0x0000BEEF)}
	_ = pc.SendRaw(append(lt.Encode(), bad.Encode()...))
	for k, want := range [][]byte{e37.LinktestRsp(lt).Encode(), e37.RejectFor(bad, e37.ReasonSTypeNotSupported).Encode()} {
		f, err := pc.Recv(10 * time.Second)
		if err != nil {
			env.Violate("wire-control-missing", fmt.Sprintf("control answer %d: %v", k, err), nil)
			return
		}
		if !bytes.Equal(f.Bytes(), want) {
			env.Violate("wire-control-bytes:"+f.Kind(), fmt.Sprintf("%s on the wire %x, reference %x", f.Kind(), f.Bytes(), want), nil)
		}
		env.Event("wire_control_frames_compared", 1)
	}

	// ---- data messages ----
	for k := 0; k < n; k++ {
		i := connIdx*100000 + int64(k)
		if !env.Want(i) {
			continue
		}
		r := env.RandAt("wire", i)
		budget := 1 + r.IntN(30)
		node := gen.Tree(r, &budget, 0, 1+r.IntN(4))
		if r.IntN(6) == 0 {
			node = gen.Leaf(r, gen.LeafCodes[r.IntN(len(gen.LeafCodes))], []int{255, 256, 65535, 65536}[r.IntN(4)])
		}
		item, _ := gen.Build(r, node)
		body := node.Encode(nil)
		if r.IntN(10) == 0 {
			item, body = secs2.NewEmptyItem(), nil
		}
		stream := byte(r.IntN(128))
		fn := byte(r.IntN(256))
		w := fn%2 == 1 && r.IntN(2) == 0
		sys := uint32(0x40000000) + uint32(r.Uint32()>>4)
		api := c03WireAPIs[k%len(c03WireAPIs)]
		cs := c03WireCase{Index: i, Active: active, API: api, Tree: clip(node.String(), 200), Hdr: fmt.Sprintf("S%dF%d W=%v", stream, fn, w)}
		env.Begin(i, cs)
		env.Sample(cs)
		before := pc.LogLen()
		// a W-bit call waits for a reply nobody sends: its own short deadline ends it; every other call gets a
		// generous one (building/encoding a 64K-element body under the race detector takes a while)
		_ = item.ToBytes()
		timeout := 5 * time.Second
		if w && (api == "SendDataMessage" || api == "SendSECS2Message") {
			timeout = 40 * time.Millisecond
		}
		ctx, cancel := context.WithTimeout(context.Background(), timeout)
		var libBytes []byte // Message.ToBytes() when the harness built the message itself
		var callErr error
		verbatim := false
		switch api {
		case "ForwardDataMessage", "ForwardDataMessageAsync":
			m, err := hsms.NewDataMessage(stream, fn, w, session, e37.SystemOf(sys), item)
			if err != nil {
				cancel()
				env.Violate("wire-construct", err.Error(), cs)
				continue
			}
			libBytes, verbatim = m.ToBytes(), true
			if api == "ForwardDataMessage" {
				callErr = rg.Conn.ForwardDataMessage(ctx, m)
			} else {
				callErr = rg.Conn.ForwardDataMessageAsync(ctx, m)
			}
		case "SendDataMessage":
			_, callErr = rg.Conn.SendDataMessage(ctx, stream, fn, w, item) // W: nobody replies; the 50 ms ctx ends the wait
			if w && callErr != nil {
				callErr = nil
			}
		case "SendDataMessageAsync":
			callErr = rg.Conn.SendDataMessageAsync(ctx, stream, fn, w, item)
		case "SendSECS2Message":
			_, callErr = rg.Conn.SendSECS2Message(ctx, secs2.NewMessage(stream, fn, w, item))
			if w && callErr != nil {
				callErr = nil
			}
		case "ReplyDataMessage":
			fn |= 1 // the reply function is primary+1
			prim, err := hsms.NewDataMessage(stream, fn, true, 0x7777, e37.SystemOf(sys), secs2.A("primary"))
			if err != nil {
				cancel()
				continue
			}
			callErr = rg.Conn.ReplyDataMessage(ctx, prim, item)
			fn, w, verbatim = fn+1, false, false
		}
		cancel()
		if callErr != nil {
			env.Violate("wire-send-error:"+api, fmt.Sprintf("%s of a valid message on a Selected link: %v", api, callErr), cs)
			continue
		}
		if !waitFor(10*time.Second, func() bool { return pc.LogLen() > before }) {
			env.Violate("wire-frame-missing:"+api, "the message never reached the peer", cs)
			return
		}
		got := pc.Log()[before].Frame
		gotBytes := got.Bytes()
		wantSys := got.Sys
		if verbatim || api == "ReplyDataMessage" {
			wantSys = sys
		}
		ref := e37.Data(session, stream, fn, w, e37.SystemOf(wantSys), body).Encode()
		env.Eval(fw.Hash64(ref, []byte(api)), true)
		env.Event("wire_data_frames_compared", 1)
		env.Event("wire_api_"+api, 1)
		if same := bytes.Equal(gotBytes[:14], ref[:14]) && (bytes.Equal(gotBytes[14:], ref[14:]) || equalModF4NaN(gotBytes[14:], ref[14:])); !same {
			env.Violate("wire-bytes-differ:"+api, fmt.Sprintf("socket bytes differ from the reference frame\n got %s\nwant %s", hexClip(gotBytes), hexClip(ref)), cs)
			continue
		}
		if libBytes != nil && !bytes.Equal(gotBytes, libBytes) {
			env.Violate("wire-bytes-differ-from-tobytes:"+api, fmt.Sprintf("socket bytes differ from Message.ToBytes()\n got %s\nwant %s", hexClip(gotBytes), hexClip(libBytes)), cs)
		}
	}
	// ---- farewell: a graceful Close from Selected sends Separate.req ----
	closed = true
	_ = rg.Shutdown()
	if f, _, err := pc.Expect(5*time.Second, func(f peer.Frame) bool { return f.SType == peer.STSeparateReq }); err == nil {
		if want := e37.SeparateReq(session, e37.SystemOf(f.Sys)).Encode(); !bytes.Equal(f.Bytes(), want) {
			env.Violate("wire-control-bytes:separate.req", fmt.Sprintf("Separate.req on the wire %x, reference %x", f.Bytes(), want), nil)
		}
		env.Event("wire_control_frames_compared", 1)
	}
}

func clip(s string, n int) string {
	if len(s) > n {
		return s[:n] + "…"
	}

	return s
}
