package checks

import (
	"bytes"
	"fmt"
	"math/rand/v2"
	"sync"

	"github.com/arloliu/go-secs/v2/hsms"
	"github.com/arloliu/go-secs/v2/secs2"

	"verif/fw"
	"verif/gen"
	"verif/mon/itemcmp"
	"verif/ref/e37"
	"verif/ref/e5"
)

// C04 — frame decoding and stream framing are robust to arbitrary bytes and segmentation.
//
// This file holds the decode half (phases "decode" and "decode-race"): byte strings offered to
// DecodeHSMSMessage / DecodeHSMSPayload / DecodeOwnedHSMSPayload, and the shared lazy body decode.
// The stream half (segmentation over a socket) is a separate phase dispatched from c04Worker.
func init() {
	fw.Register(&fw.Check{
		ID:    "C04",
		Level: "exploration",
		Rule: "decode phases, input i (pure function of seed,i), each input offered to all three entry points (the two payload entry points get the bytes after the length field): " +
			"(A) length field 0..11 x actual size {shorter, equal, longer} x PType {0,1,128,255} x ALL 256 STypes; (B) length field {cap-1,cap,cap+1,2^31,2^32-1} with 10..18 bytes actually present x PType x ALL STypes; " +
			"(C) 16 MiB inputs: length field {cap-1,cap,cap+1} x actual {-1,equal,+1} x 12 (PType,SType) pairs (plain build only; 'equal' for 2^31 and 2^32-1 is not constructed); " +
			"(D) body classes {empty, leaf, tree, non-canonical length bytes, item+trailing bytes, unknown format code, zero length-byte count, truncated header, truncated payload, width mismatch, short localized header, " +
			"nesting 65, list with missing/invalid child, byte soup} x length field {actual-1, actual, actual+1} x PType x ALL STypes; (E) every truncation, 1..3 byte extensions, header-byte mutations of valid frames, random strings; " +
			"(H) accepted data frames of every body class: Item()/DecodeErr() through original + WithSessionID + WithSystemBytes + WithID-of-copy holders, copies made before or after the first decode, call order shuffled, " +
			"and (concurrent variant) 8 goroutines released by one barrier making the FIRST calls. Oracle: ref/e37 acceptor for accept/reject and header fields, ref/e5 for body validity and value; " +
			"holders must report the same error text, the same error VALUE and the same item VALUE (identity: the body is decoded once and shared). " +
			"distinct = hash(input bytes) (family C: hash of the varying fields); non-trivial = the input has at least the 4 length bytes",
		Assumptions: []string{
			"size cap = 2^24-1 (hsms.maxHSMSMsgLen, documented in hsms/decode.go) counts header+text; for the payload entry points (no length field) 'length field equal to remaining bytes' is vacuous and the cap applies to len(payload)",
			"a control frame whose length field exceeds 10 (text after a control header) is well-formed by the property's definition; it is accepted and counted (event control_frame_with_text), not judged further",
			"identity of the shared decode result (same error value / same item value for every holder) is the observable form of the anchor 'body decoded at most once, shared by re-stamped copies'",
			"harness/ref/e37 and harness/ref/e5 are faithful readings of SEMI E37 / E5",
		},
		Phases: func(tier string) []fw.Phase {
			return []fw.Phase{
				// mostly single-goroutine work; 4 Ps keep the barrier-released first calls genuinely parallel
				{Name: "decode", Shards: 16, Timeout: tierDur(tier, 6, 40), Env: []string{"GOMAXPROCS=4"}},
				{Name: "decode-race", Race: true, Shards: 8, Timeout: tierDur(tier, 6, 40), Env: []string{"GOMAXPROCS=4"}},
				// stream half (c04_stream.go): segmentation / idle gaps / in-frame stalls / bad lengths on a real socket
				{Name: "stream", Race: true, Shards: 12, Parallel: 6, Timeout: tierDur(tier, 6, 40), HangIsViolation: true},
			}
		},
		Worker: c04Worker,
		RequiredEvents: []string{"accepted_data", "accepted_control", "rejected_" + string(e37.RejLenBelow10), "rejected_" + string(e37.RejLenAboveCap),
			"rejected_" + string(e37.RejLenMismatch), "rejected_" + string(e37.RejPType), "rejected_" + string(e37.RejSType), "rejected_" + string(e37.RejShortPrefix),
			"payload_accepted", "payload_rejected", "invalid_body_frames_accepted", "holders_checked", "holder_calls", "concurrent_first_call_groups", "huge_inputs",
			"segmentations_checked", "stream_messages_delivered_identical", "idle_gaps_survived", "in_frame_stalls_dropped", "slow_steady_frames_delivered", "bad_lengths_dropped"},
	})
}

func c04Worker(env *fw.Env) {
	switch env.Phase {
	case "decode", "decode-race":
		c04Decode(env)
	default:
		if f := c04ExtraPhases[env.Phase]; f != nil {
			f(env)
			return
		}
		env.Note("C04: no worker for phase %q", env.Phase)
	}
}

// c04ExtraPhases lets other files of this package add phases (the stream half).
var c04ExtraPhases = map[string]func(*fw.Env){}

const (
	c04ABase = int64(0)           // 12*3*4*256 = 36864
	c04BBase = int64(100_000)     // 5*2*4*256 = 10240
	c04CBase = int64(200_000)     // 3*3*12 = 108
	c04DBase = int64(1_000_000)   // rounds*14*3*4*256
	c04EBase = int64(500_000_000) // units
	c04HBase = int64(600_000_000) // holder cases (sequential)
	c04GBase = int64(700_000_000) // holder cases (concurrent first calls)

	c04BodyClasses = 14
	c04PerRound    = c04BodyClasses * 3 * 4 * 256
)

var c04PTypes = [4]uint8{0, 1, 128, 255}

var c04BodyClassNames = [c04BodyClasses]string{"empty", "leaf", "tree", "noncanonical-length", "trailing-bytes", "unknown-format", "zero-length-bytes",
	"truncated-header", "truncated-payload", "width-mismatch", "short-localized", "nesting-65", "list-bad-child", "soup"}

type c04Case struct {
	Index     int64  `json:"index"`
	Family    string `json:"family"`
	LenField  uint32 `json:"length_field"`
	Actual    int    `json:"actual_bytes_after_length_field"`
	PType     int    `json:"ptype"`
	SType     int    `json:"stype"`
	BodyClass string `json:"body_class,omitempty"`
	Input     string `json:"input_hex,omitempty"`
	Detail    string `json:"detail,omitempty"`
}

type c04State struct {
	env    *fw.Env
	bodies map[int64][]byte
	huge   []byte
}

func c04Decode(env *fw.Env) {
	st := &c04State{env: env, bodies: map[int64][]byte{}}
	race := env.Phase == "decode-race"
	rounds := int64(env.Pick(5, 110))
	nE := int64(env.Pick(260, 6000))
	nH := int64(env.Pick(24000, 400_000))
	nG := int64(env.Pick(4000, 60_000))
	aStep, dStep := int64(1), int64(1)
	if race {
		rounds = int64(env.Pick(1, 6))
		nE = int64(env.Pick(40, 600))
		nH = int64(env.Pick(3000, 40_000))
		nG = int64(env.Pick(12000, 160_000))
		aStep, dStep = 5, 3 // co-prime with the grid dimensions: a thinned, still complete-per-axis slice
	}
	run := func(base, n, step int64, f func(i, k int64)) {
		for k := int64(0); k < n; k += step {
			i := base + k
			if !env.Mine(i) || !env.Want(i) {
				continue
			}
			if env.Stop() {
				return
			}
			f(i, k)
		}
	}
	run(c04ABase, 12*3*4*256, aStep, st.familyA)
	run(c04BBase, 5*2*4*256, aStep, st.familyB)
	if !race {
		run(c04CBase, 3*3*12, 1, st.familyC)
	}
	run(c04DBase, rounds*c04PerRound, dStep, st.familyD)
	run(c04EBase, nE, 1, st.familyE)
	run(c04HBase, nH, 1, func(i, k int64) { st.familyH(i, k, false) })
	run(c04GBase, nG, 1, func(i, k int64) { st.familyH(i, k, true) })
}

func c04Header(r *rand.Rand, pt, stype uint8) [10]byte {
	s := c03Session(r)
	sys := c03System(r)

	return [10]byte{byte(s >> 8), byte(s), byte(r.IntN(256)), byte(r.IntN(256)), pt, stype, sys[0], sys[1], sys[2], sys[3]}
}

func c04Prefix(f uint32) []byte { return []byte{byte(f >> 24), byte(f >> 16), byte(f >> 8), byte(f)} }

// (A) small length fields
func (st *c04State) familyA(i, k int64) {
	r := st.env.RandAt("A", i)
	stype := uint8(k % 256)
	pt := c04PTypes[(k/256)%4]
	rel := int((k / 1024) % 3)
	f := uint32(k / 3072)
	h := c04Header(r, pt, stype)
	material := append(h[:], byte(r.IntN(256)), byte(r.IntN(256)), byte(r.IntN(256)), byte(r.IntN(256)), 0x01, 0x00, 0xA5, 0x01)
	actual := int(f)
	switch rel {
	case 0:
		actual = int(f) - 1 - r.IntN(3)
		if actual < 0 {
			actual = 0
		}
	case 2:
		actual = int(f) + 1 + r.IntN(3)
	}
	in := append(c04Prefix(f), material[:actual]...)
	st.judge(in, c04Case{Index: i, Family: "A:small-length-field", LenField: f, Actual: actual, PType: int(pt), SType: int(stype)}, r)
}

var c04HugeFields = [5]uint32{e37.DefaultCap - 1, e37.DefaultCap, e37.DefaultCap + 1, 1 << 31, 1<<32 - 1}

// (B) huge length fields, few bytes present
func (st *c04State) familyB(i, k int64) {
	r := st.env.RandAt("B", i)
	stype := uint8(k % 256)
	pt := c04PTypes[(k/256)%4]
	withBody := (k/1024)%2 == 1
	f := c04HugeFields[k/2048]
	h := c04Header(r, pt, stype)
	in := append(c04Prefix(f), h[:]...)
	if withBody {
		in = append(in, gen.Leaf(r, e5.U1, 1+r.IntN(6)).Encode(nil)...)
	}
	st.judge(in, c04Case{Index: i, Family: "B:huge-length-field-short-input", LenField: f, Actual: len(in) - 4, PType: int(pt), SType: int(stype)}, r)
}

var c04HugePairs = [12][2]uint8{{0, 0}, {0, 1}, {0, 2}, {0, 5}, {0, 7}, {0, 9}, {0, 8}, {0, 10}, {0, 255}, {1, 0}, {255, 0}, {128, 6}}

// (C) inputs as large as the cap
func (st *c04State) familyC(i, k int64) {
	r := st.env.RandAt("C", i)
	pair := c04HugePairs[k%12]
	rel := int((k / 12) % 3)
	f := c04HugeFields[k/36]
	actual := int(f) + rel - 1
	if st.huge == nil {
		st.huge = make([]byte, 4+e37.DefaultCap+8)
		for j := range st.huge {
			st.huge[j] = byte(j*7 + 3)
		}
	}
	in := st.huge[: 4+actual : 4+actual]
	copy(in, c04Prefix(f))
	h := c04Header(r, pair[0], pair[1])
	copy(in[4:], h[:])
	// text: one binary item with a 3-byte length that fills the text exactly
	n := actual - 10 - 4
	in[14], in[15], in[16], in[17] = e5.Binary<<2|3, byte(n>>16), byte(n>>8), byte(n)
	st.env.Event("huge_inputs", 1)
	st.judge(in, c04Case{Index: i, Family: "C:cap-sized-input", LenField: f, Actual: actual, PType: int(pair[0]), SType: int(pair[1])}, r)
}

// c04Body builds a message text of the given class.
func c04Body(r *rand.Rand, class int) []byte {
	leaf := func() *e5.Node { return gen.Leaf(r, gen.LeafCodes[r.IntN(len(gen.LeafCodes))], gen.SmallCount(r)) }
	switch class {
	case 0:
		return nil
	case 1:
		return leaf().Encode(nil)
	case 2:
		budget := 3 + r.IntN(40)
		return gen.Tree(r, &budget, 0, 1+r.IntN(5)).Encode(nil)
	case 3:
		widen := func(n *e5.Node, enc []byte) []byte {
			nlb := int(enc[0] & 3)
			l := n.PayloadLen()
			wide := nlb + 1 + r.IntN(3-nlb+1)
			if wide > 3 {
				wide = 3
			}
			out := []byte{enc[0]&^3 | byte(wide)}
			for j := wide - 1; j >= 0; j-- {
				out = append(out, byte(l>>(8*j)))
			}

			return append(out, enc[1+nlb:]...)
		}
		if r.IntN(3) == 0 { // a list whose child count (and some children) use over-long length fields
			l := &e5.Node{FC: e5.List}
			var kids []byte
			for j := 1 + r.IntN(3); j > 0; j-- {
				k := leaf()
				l.Kids = append(l.Kids, k)
				if r.IntN(2) == 0 {
					kids = append(kids, widen(k, k.Encode(nil))...)
				} else {
					kids = k.Encode(kids)
				}
			}

			hdr := widen(l, l.Encode(nil))
			hdr = hdr[:1+int(hdr[0]&3)]

			return append(append([]byte{}, hdr...), kids...)
		}
		n := leaf()

		return widen(n, n.Encode(nil))
	case 4:
		out := leaf().Encode(nil)
		for j := 1 + r.IntN(4); j > 0; j-- {
			out = append(out, byte(r.IntN(256)))
		}

		return out
	case 5:
		for {
			fc := uint8(r.IntN(64))
			if !e5.Defined(fc) {
				n := r.IntN(4)
				out := []byte{fc<<2 | 1, byte(n)}
				for j := 0; j < n; j++ {
					out = append(out, byte(r.IntN(256)))
				}

				return out
			}
		}
	case 6:
		out := []byte{e5.AllCodes[r.IntN(16)] << 2}
		for j := r.IntN(4); j > 0; j-- {
			out = append(out, byte(r.IntN(3)))
		}

		return out
	case 7:
		nlb := 2 + r.IntN(2)
		out := []byte{e5.AllCodes[r.IntN(16)]<<2 | byte(nlb)}
		for j := r.IntN(nlb); j > 0; j-- {
			out = append(out, 0)
		}

		return out
	case 8:
		n := gen.Leaf(r, []uint8{e5.Binary, e5.ASCII, e5.U1, e5.I4, e5.F8, e5.Boolean}[r.IntN(6)], 1+r.IntN(8))
		enc := n.Encode(nil)

		return enc[:len(enc)-1-r.IntN(n.PayloadLen())]
	case 9:
		fc := []uint8{e5.I2, e5.I4, e5.I8, e5.U2, e5.U4, e5.U8, e5.F4, e5.F8}[r.IntN(8)]
		w := e5.Width(fc)
		l := w*r.IntN(3) + 1 + r.IntN(w-1)
		out := []byte{fc<<2 | 1, byte(l)}
		for j := 0; j < l; j++ {
			out = append(out, byte(r.IntN(256)))
		}

		return out
	case 10:
		if r.IntN(2) == 0 {
			return []byte{e5.Localized<<2 | 1, 0}
		}

		return []byte{e5.Localized<<2 | 1, 1, byte(r.IntN(256))}
	case 11:
		var out []byte
		for j := 0; j < 65; j++ {
			out = append(out, 0x01, 0x01)
		}

		return append(out, leaf().Encode(nil)...)
	case 12:
		if r.IntN(2) == 0 {
			return append([]byte{0x01, byte(2 + r.IntN(3))}, leaf().Encode(nil)...) // fewer children than claimed
		}
		bad := c04Body(r, 5+r.IntN(6))

		return append(append([]byte{0x01, 0x02}, leaf().Encode(nil)...), bad...)
	}
	out := make([]byte, 1+r.IntN(24))
	for j := range out {
		if r.IntN(2) == 0 {
			out[j] = byte(r.IntN(256))
		} else {
			out[j] = []byte{0x01, 0x02, 0x00, 0xA5, 0x41, 0x21, 0x25, 0x49, 0xB1, 0x03}[r.IntN(10)]
		}
	}

	return out
}

// (D) body classes x length relation x PType x SType
func (st *c04State) familyD(i, k int64) {
	env := st.env
	stype := uint8(k % 256)
	pt := c04PTypes[(k/256)%4]
	rel := int((k / 1024) % 3)
	bk := k / 3072 // round*classes + class
	class := int(bk % c04BodyClasses)
	body, ok := st.bodies[bk]
	if !ok {
		body = c04Body(env.RandAt("Dbody", bk), class)
		if len(st.bodies) > 64 {
			st.bodies = map[int64][]byte{}
		}
		st.bodies[bk] = body
	}
	r := env.RandAt("D", i)
	h := c04Header(r, pt, stype)
	actual := 10 + len(body)
	f := uint32(actual + rel - 1)
	in := append(append(c04Prefix(f), h[:]...), body...)
	st.judge(in, c04Case{Index: i, Family: "D:body-class", LenField: f, Actual: actual, PType: int(pt), SType: int(stype), BodyClass: c04BodyClassNames[class]}, r)
}

// (E) truncations / extensions / mutations of valid frames, random strings
func (st *c04State) familyE(i, k int64) {
	env := st.env
	r := env.RandAt("E", i)
	var base []byte
	kind := "data"
	if k%3 == 2 {
		kind = "control"
		stype := e37.ControlSTypes[r.IntN(len(e37.ControlSTypes))]
		h := c04Header(r, 0, stype)
		base = append(c04Prefix(10), h[:]...)
	} else {
		body := c04Body(r, []int{0, 1, 2, 1, 8, 5}[r.IntN(6)])
		h := c04Header(r, 0, 0)
		base = append(append(c04Prefix(uint32(10+len(body))), h[:]...), body...)
	}
	cs := c04Case{Index: i, Family: "E:mutations-of-" + kind}
	add := func(in []byte, detail string) {
		if env.Stop() {
			return
		}
		c := cs
		c.Detail = detail
		if len(in) >= 4 {
			c.LenField = uint32(in[0])<<24 | uint32(in[1])<<16 | uint32(in[2])<<8 | uint32(in[3])
			c.Actual = len(in) - 4
		}
		if len(in) >= 10 {
			c.PType, c.SType = int(in[8]), int(in[9])
		}
		st.judge(in, c, r)
	}
	add(base, "valid frame")
	for n := 0; n < len(base) && n < 80; n++ {
		add(base[:n:n], "truncation")
	}
	for e := 1; e <= 3; e++ {
		x := append([]byte{}, base...)
		for j := 0; j < e; j++ {
			x = append(x, byte(r.IntN(256)))
		}
		add(x, "extension")
	}
	for p := 0; p < 14; p++ {
		for _, v := range []byte{0, 1, 9, 10, 0x7f, 0x80, 0xff, base[p] + 1, base[p] - 1, byte(r.IntN(256))} {
			if v == base[p] {
				continue
			}
			x := append([]byte{}, base...)
			x[p] = v
			add(x, fmt.Sprintf("byte %d := %#02x", p, v))
		}
	}
	for j := 0; j < 40; j++ {
		x := make([]byte, r.IntN(40))
		for q := range x {
			x[q] = byte(r.IntN(256))
			if q < 3 && r.IntN(3) > 0 {
				x[q] = 0 // plausible length fields
			}
			if (q == 8 || q == 9) && r.IntN(2) == 0 {
				x[q] = byte(r.IntN(11))
			}
		}
		if len(x) >= 4 && r.IntN(2) == 0 {
			x[3] = byte(len(x) - 4)
		}
		add(x, "random string")
	}
	env.Event("mutation_units", 1)
}

// judge offers one input to the three entry points and compares with the reference acceptor.
func (st *c04State) judge(in []byte, cs c04Case, r *rand.Rand) {
	env := st.env
	cs.Input = hexClip(in)
	switch {
	case len(in) <= 64:
		env.Sample(cs)
		env.Eval(fw.Hash64(in), len(in) >= 4)
	case len(in) <= 1<<16:
		env.Eval(fw.Hash64(in), true)
	default: // cap-sized inputs differ only in their first bytes and their length
		env.Eval(fw.Hash64(in[:48], []byte(fmt.Sprint(len(in)))), true)
	}
	if len(in) > 1<<20 {
		env.Begin(cs.Index, cs) // large allocations ahead: attribute an OOM kill to this case
	}
	ref, class := e37.Decode(in)
	var msg hsms.Message
	var err error
	if p := catch(func() { msg, err = hsms.DecodeHSMSMessage(in) }); p != nil {
		env.Violate("panic:DecodeHSMSMessage", fmt.Sprintf("DecodeHSMSMessage panicked: %v", p), cs)
		return
	}
	if class != e37.Accept {
		env.Event("rejected_"+string(class), 1)
		if err == nil {
			env.Violate("accepts-malformed:"+string(class), fmt.Sprintf("DecodeHSMSMessage accepted a frame the E37 acceptor rejects (%s): %d bytes follow a length field of %d, PType %d, SType %d",
				class, len(in)-4, cs.LenField, cs.PType, cs.SType), cs)
		}
	} else {
		if err != nil || msg == nil {
			env.Violate(c04RejectKey(ref), fmt.Sprintf("DecodeHSMSMessage refused a well-formed frame (%s): %v", ref, err), cs)
		} else {
			st.accepted("DecodeHSMSMessage", msg, ref, cs, r)
		}
	}
	if len(in) < 4 {
		return
	}
	// the payload entry points see header||text without the length field
	pay := in[4:]
	pref, pclass := e37.DecodePayload(pay)
	for _, name := range []string{"DecodeHSMSPayload", "DecodeOwnedHSMSPayload"} {
		buf := pay
		if name == "DecodeOwnedHSMSPayload" {
			buf = append([]byte(nil), pay...) // ownership is transferred
		}
		var pm hsms.Message
		var perr error
		if p := catch(func() {
			if name == "DecodeHSMSPayload" {
				pm, perr = hsms.DecodeHSMSPayload(buf)
			} else {
				pm, perr = hsms.DecodeOwnedHSMSPayload(buf)
			}
		}); p != nil {
			env.Violate("panic:"+name, fmt.Sprintf("%s panicked: %v", name, p), cs)
			return
		}
		if pclass != e37.Accept {
			env.Event("payload_rejected", 1)
			if perr == nil {
				env.Violate("payload-accepts-malformed:"+string(pclass), fmt.Sprintf("%s accepted a %d-byte payload the E37 acceptor rejects (%s), PType %d SType %d", name, len(pay), pclass, cs.PType, cs.SType), cs)
			}

			continue
		}
		env.Event("payload_accepted", 1)
		if perr != nil || pm == nil {
			env.Violate("payload-"+c04RejectKey(pref), fmt.Sprintf("%s refused a well-formed %d-byte payload (%s): %v", name, len(pay), pref, perr), cs)
			continue
		}
		st.accepted(name, pm, pref, cs, r)
	}
}

func c04RejectKey(ref e37.Frame) string {
	if !ref.IsData() {
		return "rejects-wellformed:control"
	}
	if len(ref.Body) == 0 {
		return "rejects-wellformed:data-empty-body"
	}
	if _, _, e := e5.Decode(ref.Body); e != nil {
		return "rejects-wellformed:data-invalid-body"
	}

	return "rejects-wellformed:data"
}

// accepted: an accepted frame carries the header fields and text that were in the bytes.
func (st *c04State) accepted(entry string, msg hsms.Message, ref e37.Frame, cs c04Case, r *rand.Rand) {
	env := st.env
	bad := ""
	var dm *hsms.DataMessage
	if p := catch(func() {
		switch {
		case msg.HeaderBytes() != ref.Header():
			bad = fmt.Sprintf("HeaderBytes()=%x, bytes in the frame %x", msg.HeaderBytes(), ref.Header())
		case msg.Type() != hsms.MsgType(ref.SType):
			bad = fmt.Sprintf("Type()=%v, SType in the frame %d", msg.Type(), ref.SType)
		case msg.SessionID() != ref.SessionID:
			bad = fmt.Sprintf("SessionID()=%#04x, frame %#04x", msg.SessionID(), ref.SessionID)
		case msg.SystemBytes() != ref.System:
			bad = fmt.Sprintf("SystemBytes()=%x, frame %x", msg.SystemBytes(), ref.System)
		}
		if bad != "" {
			return
		}
		d, ok := msg.ToDataMessage()
		if ok != ref.IsData() || (ok && d == nil) {
			bad = fmt.Sprintf("ToDataMessage() ok=%v for SType %d", ok, ref.SType)
			return
		}
		if !ok {
			ctl := ref
			ctl.Body = nil
			if b := msg.ToBytes(); !bytes.Equal(b, ctl.Encode()) {
				bad = fmt.Sprintf("control ToBytes()=%x want %x", b, ctl.Encode())
			}

			return
		}
		dm = d
		if d.Stream() != ref.Stream() || d.Function() != ref.Function() || d.WaitBit() != ref.W() {
			bad = fmt.Sprintf("S%dF%d W=%v, frame says S%dF%d W=%v", d.Stream(), d.Function(), d.WaitBit(), ref.Stream(), ref.Function(), ref.W())
			return
		}
		if d.BodyLen() != len(ref.Body) {
			bad = fmt.Sprintf("BodyLen()=%d, frame text is %d bytes", d.BodyLen(), len(ref.Body))
			return
		}
		if b := d.ToBytes(); !bytes.Equal(b, ref.Encode()) {
			bad = fmt.Sprintf("re-serialised frame differs: %s want %s", hexClip(b), hexClip(ref.Encode()))
		}
	}); p != nil {
		env.Violate("panic:accessor", fmt.Sprintf("%s: accessor of an accepted message panicked: %v", entry, p), cs)
		return
	}
	if bad != "" {
		env.Violate("accepted-frame-fields", entry+": "+bad, cs)
		return
	}
	if dm == nil {
		env.Event("accepted_control", 1)
		if len(ref.Body) > 0 {
			env.Event("control_frame_with_text", 1)
		}

		return
	}
	env.Event("accepted_data", 1)
	c04Holders(env, entry, dm, ref.Body, r, false, false, cs)
}

type c04Result struct {
	holder string
	call   string
	item   secs2.Item
	err    error
	first  bool
}

// c04Holders exercises the shared lazy decode of one accepted data message through several
// holders and judges: error iff the text is not valid SECS-II, same error text, same error value
// and same item value for every holder and call.
func c04Holders(env *fw.Env, entry string, dm *hsms.DataMessage, body []byte, r *rand.Rand, full, concurrent bool, cs c04Case) {
	var node *e5.Node
	var rej *e5.DecodeError
	if len(body) > 0 {
		node, _, rej = e5.Decode(body)
	}
	type holder struct {
		name string
		m    *hsms.DataMessage
	}
	var results []c04Result
	var panicked any
	switch {
	case concurrent:
		hs := []holder{{"original", dm}, {"WithSessionID", dm.WithSessionID(c03Session(r))}, {"WithSystemBytes", dm.WithSystemBytes(c03System(r))}}
		hs = append(hs, holder{"WithSessionID.WithID", hs[1].m.WithID(r.Uint32())})
		const perHolder = 2
		n := len(hs) * perHolder
		slots := make([][]c04Result, n)
		panics := make([]any, n)
		start := make(chan struct{})
		var ready, done sync.WaitGroup
		ready.Add(n)
		done.Add(n)
		for g := 0; g < n; g++ {
			h := hs[g/perHolder]
			itemFirst := (g+int(cs.Index))%2 == 0
			go func(g int) {
				defer done.Done()
				defer func() {
					if p := recover(); p != nil {
						panics[g] = p
					}
				}()
				ready.Done()
				<-start
				for c := 0; c < 2; c++ {
					if (c == 0) == itemFirst {
						it, err := h.m.Item()
						slots[g] = append(slots[g], c04Result{h.name, "Item", it, err, c == 0})
					} else {
						slots[g] = append(slots[g], c04Result{h.name, "DecodeErr", nil, h.m.DecodeErr(), c == 0})
					}
				}
			}(g)
		}
		ready.Wait()
		close(start)
		done.Wait()
		for g := range slots {
			results = append(results, slots[g]...)
			if panics[g] != nil {
				panicked = panics[g]
			}
		}
		env.Event("concurrent_first_call_groups", 1)
		env.Event("concurrent_first_calls", int64(n))
	default:
		panicked = catch(func() {
			hs := []holder{{"original", dm}}
			call := func(h holder, which int) {
				if which == 0 {
					it, err := h.m.Item()
					results = append(results, c04Result{h.name, "Item", it, err, len(results) == 0})
				} else {
					results = append(results, c04Result{h.name, "DecodeErr", nil, h.m.DecodeErr(), len(results) == 0})
				}
			}
			if !full {
				call(hs[0], r.IntN(2))
				call(holder{"WithSystemBytes", dm.WithSystemBytes(c03System(r))}, r.IntN(2))
				call(hs[0], 0)

				return
			}
			// copies made before the first decode
			nBefore := r.IntN(4)
			mk := func(k int) holder {
				switch k % 3 {
				case 0:
					return holder{"WithSessionID", hs[r.IntN(len(hs))].m.WithSessionID(c03Session(r))}
				case 1:
					return holder{"WithSystemBytes", hs[r.IntN(len(hs))].m.WithSystemBytes(c03System(r))}
				}

				return holder{"WithID", hs[r.IntN(len(hs))].m.WithID(r.Uint32())}
			}
			for k := 0; k < nBefore; k++ {
				hs = append(hs, mk(k+int(cs.Index)))
			}
			call(hs[r.IntN(len(hs))], r.IntN(2)) // the first decode, through any holder, by either method
			for k := nBefore; k < 3; k++ {
				hs = append(hs, mk(k+int(cs.Index)))
			}
			for _, h := range hs {
				order := r.IntN(2)
				call(h, order)
				call(h, 1-order)
				call(h, 0)
			}
		})
	}
	if panicked != nil {
		env.Violate("panic:item", fmt.Sprintf("%s: Item()/DecodeErr() panicked: %v", entry, panicked), cs)
		return
	}
	env.Event("holders_checked", 1)
	env.Event("holder_calls", int64(len(results)))
	if rej != nil {
		env.Event("invalid_body_frames_accepted", 1)
		env.Event("invalid_body_"+string(rej.Class), 1)
	}
	// judge
	var firstErr error
	var firstItem secs2.Item
	haveErr, haveItem := false, false
	for _, res := range results {
		who := fmt.Sprintf("%s.%s()", res.holder, res.call)
		if rej != nil && res.err == nil {
			env.Violate("invalid-body-no-error:"+string(rej.Class), fmt.Sprintf("%s: %s reports no error although the text is not valid SECS-II (%v): %s", entry, who, rej, hexClip(body)), cs)
			return
		}
		if rej == nil && res.err != nil {
			env.Violate("valid-body-error", fmt.Sprintf("%s: %s reports %v for a valid text %s", entry, who, res.err, hexClip(body)), cs)
			return
		}
		if !haveErr {
			firstErr, haveErr = res.err, true
		} else if (res.err == nil) != (firstErr == nil) || (res.err != nil && res.err.Error() != firstErr.Error()) {
			env.Violate("holders-disagree:error", fmt.Sprintf("%s: %s reports %q, an earlier holder/call reported %q", entry, who, errText(res.err), errText(firstErr)), cs)
			return
		} else if !sameValue(res.err, firstErr) {
			env.Violate("decode-not-shared:error", fmt.Sprintf("%s: %s returned a different error VALUE (same text %q) than an earlier holder/call: the text was decoded more than once", entry, who, errText(res.err)), cs)
			return
		}
		if res.call != "Item" {
			continue
		}
		if rej == nil {
			if res.item == nil {
				env.Violate("valid-body-nil-item", fmt.Sprintf("%s: %s returned a nil item for a valid text", entry, who), cs)
				return
			}
			if len(body) == 0 && !res.item.IsEmpty() {
				env.Violate("empty-body-item", fmt.Sprintf("%s: %s: empty text gave non-empty item %s", entry, who, safeSML(res.item)), cs)
				return
			}
		}
		if !haveItem {
			firstItem, haveItem = res.item, true
			if rej == nil && node != nil {
				if cerr := itemcmp.Compare(res.item, node, itemcmp.Decoded); cerr != nil {
					env.Violate("body-value", fmt.Sprintf("%s: %s: item differs from the text's value: %v", entry, who, cerr), cs)
					return
				}
			}
		} else if !sameValue(res.item, firstItem) {
			env.Violate("decode-not-shared:item", fmt.Sprintf("%s: %s returned a different item VALUE than an earlier holder/call: the text was decoded more than once", entry, who), cs)
			return
		}
	}
}

func errText(e error) string {
	if e == nil {
		return "<nil>"
	}

	return e.Error()
}

// sameValue is interface identity (pointer identity for the pointer-typed items and errors the
// library returns); a non-comparable dynamic type counts as "same" (cannot be decided).
func sameValue(a, b any) (same bool) {
	defer func() {
		if recover() != nil {
			same = true
		}
	}()

	return a == b
}

// (H)/(G) accepted data frames of every body class, through every entry point
func (st *c04State) familyH(i, k int64, concurrent bool) {
	env := st.env
	r := env.RandAt("H", i)
	class := int(k % c04BodyClasses)
	if class == 0 && k%5 != 0 {
		class = 5 + int(k/c04BodyClasses)%8 // empty text is cheap and uninteresting: mostly replace by an invalid class
	}
	body := c04Body(r, class)
	h := c04Header(r, 0, 0)
	payload := append(h[:], body...)
	frame := append(c04Prefix(uint32(len(payload))), payload...)
	fam := "H:holders"
	if concurrent {
		fam = "G:concurrent-first-calls"
	}
	cs := c04Case{Index: i, Family: fam, LenField: uint32(len(payload)), Actual: len(payload), BodyClass: c04BodyClassNames[class], Input: hexClip(frame)}
	env.Eval(fw.Hash64(frame, []byte(fam)), true)
	env.Sample(cs)
	entry := []string{"DecodeHSMSMessage", "DecodeHSMSPayload", "DecodeOwnedHSMSPayload"}[(k/c04BodyClasses)%3]
	var msg hsms.Message
	var err error
	if p := catch(func() {
		switch entry {
		case "DecodeHSMSMessage":
			msg, err = hsms.DecodeHSMSMessage(frame)
		case "DecodeHSMSPayload":
			msg, err = hsms.DecodeHSMSPayload(payload)
		default:
			msg, err = hsms.DecodeOwnedHSMSPayload(append([]byte(nil), payload...))
		}
	}); p != nil {
		env.Violate("panic:"+entry, fmt.Sprintf("%s panicked: %v", entry, p), cs)
		return
	}
	ref, _ := e37.DecodePayload(payload)
	if err != nil || msg == nil {
		env.Violate(c04RejectKey(ref), fmt.Sprintf("%s refused a well-formed data frame with %s text: %v", entry, c04BodyClassNames[class], err), cs)
		return
	}
	dm, ok := msg.ToDataMessage()
	if !ok || dm == nil {
		env.Violate("accepted-frame-fields", fmt.Sprintf("%s: a data frame decoded to %T", entry, msg), cs)
		return
	}
	env.Event("accepted_data", 1)
	c04Holders(env, entry, dm, body, r, true, concurrent, cs)
}
