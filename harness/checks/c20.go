package checks

import (
	"context"
	"errors"
	"fmt"
	"strings"
	"sync"
	"sync/atomic"
	"time"

	"github.com/arloliu/go-secs/v2/hsms"
	"github.com/arloliu/go-secs/v2/secs2"

	"verif/fw"
	"verif/peer"
)

// C20 — connection metrics conserve.
func init() {
	fw.Register(&fw.Check{
		ID:    "C20",
		Level: "exploration",
		Rule: "history i = (role, 1..32 concurrent senders x 4..10 calls of random shape {W sync, no-W sync, async, forward}; per-token peer outcome {reply, Reject.req, never (T3), reply after the caller cancelled}; " +
			"refusals produced by Deselect windows; then a link drop with calls in flight, a forced streak of refused dials (active) and a reconnect; then Close). An accountant derives the expected value of every counter " +
			"from the per-call outcomes and the peer's own frame counts and compares at three quiescent points (after the fault-free part, after recovery, after Close); a sampler goroutine watches both gauges for " +
			"negative values throughout and for Reconnecting()>0 while the dialer is inside the refusal streak. distinct = hash(history descriptor); non-trivial = the history produced at least 3 different call outcomes.",
		Assumptions: []string{
			"exact equality of DataMsgSendCount/DataMsgRecvCount with the peer's counts is required only at quiescent points of the fault-free part; across a link drop a successful write may die in the socket buffer, so there Send is bounded by peer-received <= Send <= accepted calls",
			"quiescent point = every call has returned and a Linktest barrier has completed after the peer's last write",
		},
		Phases: func(tier string) []fw.Phase {
			return []fw.Phase{{Name: "accounting", Race: true, Shards: 10, Timeout: tierDur(tier, 8, 45), HangIsViolation: true}}
		},
		Worker:         c20Worker,
		RequiredEvents: []string{"histories", "calls", "outcome_reply", "outcome_reject", "outcome_t3", "outcome_cancel", "outcome_refused", "quiescent_points", "gauge_samples", "reconnecting_positive_in_streak"},
	})
}

type c20Case struct {
	Index   int64 `json:"index"`
	Active  bool  `json:"active"`
	Senders int   `json:"senders"`
	Per     int   `json:"calls_per_sender"`
	Streak  int   `json:"refused_dials"`
	Delays  bool  `json:"delay_injection"`
	Valid   bool  `json:"session_id_validation,omitempty"`
	Equip   bool  `json:"equipment_role,omitempty"`
}

type c20Call struct {
	token string
	shape int // 0 W, 1 noW, 2 async, 3 forward
	err   error
	reply bool
}

func c20Worker(env *fw.Env) {
	total := int64(env.Pick(80, 1200))
	for i := int64(0); i < total; i++ {
		if !env.Mine(i) || !env.Want(i) {
			continue
		}
		if env.Stop() {
			return
		}
		c20One(env, i)
	}
}

//nolint:gocyclo,cyclop // one history with three accounting points
func c20One(env *fw.Env, i int64) {
	r := env.RandAt("hist", i)
	cs := c20Case{Index: i, Active: i%2 == 0, Senders: []int{1, 2, 4, 8, 16, 32}[r.IntN(6)], Per: 4 + r.IntN(7), Streak: r.IntN(5), Delays: r.IntN(2) == 0}
	cs.Valid = i%3 == 1 // the optional session-id validation: a foreign-session data frame is still a received data frame
	cs.Equip = i%5 == 2 // equipment role: every T3 timeout also puts one S9F9 (a data frame of ours) on the wire
	env.Begin(i, cs)
	env.Sample(cs)
	env.Event("histories", 1)
	t3 := 200 * time.Millisecond
	var asyncErrCallbacks atomic.Int64
	rg, err := newRig(rigOpts{Active: cs.Active, T3: t3, T5: 40 * time.Millisecond, BackoffInit: 10 * time.Millisecond, ValidateSession: cs.Valid, Equip: cs.Equip,
		Extra: []hsms.ConnOption{hsms.WithAsyncSendErrorHandler(func(hsms.Message, error) { asyncErrCallbacks.Add(1) })}})
	if err != nil {
		env.Discard()
		return
	}
	if cs.Delays {
		undo := installDelays(env.Seed+uint64(i)*17, 500*time.Microsecond, 3, "hsms.send.afterRegister", "hsms.send.afterWrite", "hsmsss.recv.beforeDispatch", "hsms.drain.beforeWrite")
		defer func() { env.Event("delays_injected", undo()) }()
	}
	mt := rg.Conn.Metrics()

	// gauge sampler
	var stopSampler atomic.Bool
	var negInflight, negReconn atomic.Int64
	var samples atomic.Int64
	var inStreak atomic.Bool
	var streakSamples, streakZero atomic.Int64
	var swg sync.WaitGroup
	swg.Add(1)
	go func() {
		defer swg.Done()
		for !stopSampler.Load() {
			if mt.DataMsgInflightCount() < 0 {
				negInflight.Add(1)
			}
			rc := mt.Reconnecting()
			if rc < 0 {
				negReconn.Add(1)
			}
			if inStreak.Load() {
				streakSamples.Add(1)
				if rc <= 0 && inStreak.Load() {
					streakZero.Add(1)
				}
			}
			samples.Add(1)
			time.Sleep(50 * time.Microsecond)
		}
	}()
	defer func() {
		stopSampler.Store(true)
		swg.Wait()
		env.Event("gauge_samples", samples.Load())
		if n := negInflight.Load(); n > 0 {
			env.Violate("inflight-gauge-negative", fmt.Sprintf("DataMsgInflightCount() was negative in %d samples", n), cs)
		}
		if n := negReconn.Load(); n > 0 {
			env.Violate("reconnecting-gauge-negative", fmt.Sprintf("Reconnecting() was negative in %d samples", n), cs)
		}
	}()

	outcomeOf := func(tok string) int { return int(fw.HashStr("o", tok, fmt.Sprint(env.Seed)) % 4) } // 0 reply 1 reject 2 never 3 reply (caller may cancel)
	var peerDataWritten atomic.Int64
	onFrame := func(c *peer.Conn, f peer.Frame) bool {
		if !f.IsData() {
			return true
		}
		tok := c06Token(f)
		if f.WBit() && strings.HasPrefix(tok, "c20-") {
			switch outcomeOf(tok) {
			case 0, 3:
				peerDataWritten.Add(1)
				_ = c.Send(peer.Data(f.Stream(), f.Function()+1, false, f.Session, f.Sys, c06Body("r:"+tok)))
			case 1:
				_ = c.Send(peer.RejectReq(f.Session, 0, 3, f.Sys))
			}
		}

		return false
	}
	// cold open (active only): the first dials of OpenBackground are refused, so the initial connect is retried by
	// the same loop that reconnects later — "positive while a reconnect loop runs" covers it (the gauge is documented
	// to be held at 1 for that retry), and it must be back at 0 once the link is selected
	coldOpen := cs.Active && i%4 == 2
	if coldOpen {
		const refuse = 4
		rg.Trk.SetFailDial(func(attempt int) error {
			if attempt < refuse {
				if attempt > 0 { // one attempt has already failed: the retry loop is certainly running
					inStreak.Store(true)
				}

				return errors.New("harness: dial refused (cold open)")
			}
			inStreak.Store(false)

			return nil
		})
	}
	pc, err := rg.Establish(onFrame)
	inStreak.Store(false)
	if err != nil {
		env.Note("establish: %v", err)
		env.Discard()
		_ = rg.Shutdown()
		return
	}
	if coldOpen {
		rg.Trk.SetFailDial(nil)
		if n := streakSamples.Load(); n > 0 {
			if z := streakZero.Load(); z > 0 {
				env.Violate("reconnecting-zero-in-cold-open-retry", fmt.Sprintf("Reconnecting() was <= 0 in %d of %d samples taken while the background Open was retrying refused dials", z, n), cs)
			} else {
				env.Event("reconnecting_positive_in_cold_open_retry", 1)
			}
		}
		streakSamples.Store(0)
		streakZero.Store(0)
	}
	closedLib := false
	defer func() {
		pc.Close()
		if !closedLib {
			_ = rg.Shutdown()
		}
	}()

	// ---- part A: fault-free, with one Deselect window to produce refusals ----
	runCalls := func(part string, n int) []*c20Call {
		var mu sync.Mutex
		var out []*c20Call
		var wg sync.WaitGroup
		for s := 0; s < cs.Senders; s++ {
			wg.Add(1)
			go func(s int) {
				defer wg.Done()
				rr := env.RandAt(fmt.Sprintf("%s-sender-%d", part, s), i)
				for k := 0; k < n; k++ {
					c := &c20Call{token: fmt.Sprintf("c20-%d-%s-%d-%d", i, part, s, k), shape: rr.IntN(4)}
					ctx, cancel := context.WithCancel(context.Background())
					if c.shape == 0 && outcomeOf(c.token) == 3 && rr.IntN(2) == 0 {
						time.AfterFunc(time.Duration(rr.IntN(500))*time.Microsecond, cancel)
					}
					item := secs2.A(c.token)
					switch c.shape {
					case 0:
						var rep *hsms.DataMessage
						rep, c.err = rg.Conn.SendDataMessage(ctx, 2, 1, true, item)
						c.reply = rep != nil
					case 1:
						_, c.err = rg.Conn.SendDataMessage(ctx, 2, 3, false, item)
					case 2:
						c.err = rg.Conn.SendDataMessageAsync(ctx, 2, 5, false, item)
					default:
						m, e := hsms.NewDataMessage(2, 7, false, 0x1234, sysb(uint32(0x20000000+s*4096+k)), item)
						if e != nil {
							c.err = e
						} else {
							c.err = rg.Conn.ForwardDataMessage(ctx, m)
						}
					}
					cancel()
					mu.Lock()
					out = append(out, c)
					mu.Unlock()
				}
			}(s)
		}
		wg.Wait()

		return out
	}
	type tally struct{ reply, reject, t3, cancel, refused, accepted, closed, other int64 }
	count := func(cl []*c20Call, t *tally) {
		for _, c := range cl {
			env.Event("calls", 1)
			var re *hsms.RejectError
			switch {
			case errors.Is(c.err, hsms.ErrNotSelectedState):
				t.refused++
				env.Event("outcome_refused", 1)
				continue
			case c.err == nil:
				if c.shape == 0 {
					t.reply++
					env.Event("outcome_reply", 1)
				}
			case errors.As(c.err, &re):
				t.reject++
				env.Event("outcome_reject", 1)
			case errors.Is(c.err, hsms.ErrT3Timeout):
				t.t3++
				env.Event("outcome_t3", 1)
			case errors.Is(c.err, context.Canceled):
				t.cancel++
				env.Event("outcome_cancel", 1)
			case errors.Is(c.err, hsms.ErrConnClosed):
				t.closed++
				env.Event("outcome_conn_closed", 1)
			default:
				t.other++
				env.Event("outcome_write_error", 1)
			}
			t.accepted++
		}
	}
	dataAt := func(conns ...*peer.Conn) int64 {
		var n int64
		for _, c := range conns {
			for _, ev := range c.Log() {
				if ev.Frame.IsData() {
					n++
				}
			}
		}

		return n
	}

	// quiesce: wait (never a verdict) until the peer has read as many data frames as calls were accepted,
	// so that every reply the peer will ever write has been written, then fence with Linktest barriers
	// (the barrier response travels through the async queue behind any queued data frame).
	accepted := func(cl []*c20Call) int64 {
		var n int64
		for _, c := range cl {
			if !errors.Is(c.err, hsms.ErrNotSelectedState) {
				n++
			}
		}

		return n
	}
	quiesce := func(want int64, conns ...*peer.Conn) bool {
		waitFor(5*time.Second, func() bool { return dataAt(conns...) >= want })
		p := conns[len(conns)-1]
		if _, err := p.Barrier(10 * time.Second); err != nil {
			return false
		}
		_, err := p.Barrier(10 * time.Second)

		return err == nil
	}

	var tA tally
	callsA := runCalls("a1", cs.Per)
	if !quiesce(accepted(callsA), pc) {
		env.Violate("link-dropped", "the fault-free part lost the link", cs)
		return
	}
	// one reply-expected transaction is left open ACROSS the Deselect (the peer never answers it): its T3 expires while
	// the link is not selected — still a timed-out send (error counter +1). Host role only: an equipment would also
	// attempt an S9F9 here, which the not-selected gate refuses and counts.
	var held *c20Call
	var hwg sync.WaitGroup
	if !cs.Equip && i%2 == 0 {
		held = &c20Call{token: fmt.Sprintf("c20x-%d-held-across-deselect", i), shape: 0}
		hwg.Add(1)
		go func() {
			defer hwg.Done()
			rep, err := rg.Conn.SendDataMessage(context.Background(), 2, 1, true, secs2.A(held.token))
			held.err, held.reply = err, rep != nil
		}()
		waitFor(3*time.Second, func() bool {
			for _, ev := range pc.Log() {
				if ev.Frame.IsData() && c06Token(ev.Frame) == held.token {
					return true
				}
			}

			return false
		})
	}
	// a Deselect window: calls here are refused (drop+1 each), none reaches the wire
	_ = pc.Send(peer.DeselectReq(0x1234, 0xDE5E0001))
	if !waitState(rg.Conn, hsms.NotSelectedState, 10*time.Second) {
		env.Violate("deselect-ignored", "Deselect.req did not deselect", cs)
		return
	}
	callsA = append(callsA, runCalls("a2", 2)...)
	if held != nil {
		hwg.Wait() // T3 (200 ms) runs out inside the window
		callsA = append(callsA, held)
		env.Event("t3_expired_while_not_selected", 1)
	}
	// data frames the peer sends while the link is NOT selected are answered Reject(4): they are not "received"
	for k := 0; k < 1+int(i%3); k++ {
		_ = pc.Send(peer.Data(5, 1, false, 0x1234, 0xD5000000|uint32(k), c06Body("while-deselected")))
		env.Event("peer_data_while_not_selected", 1)
	}
	_ = pc.Send(peer.SelectReq(0x1234, 0xDE5E0002))
	if !waitState(rg.Conn, hsms.SelectedState, 10*time.Second) {
		env.Violate("reselect-failed", "Select.req after Deselect did not select", cs)
		return
	}
	callsA = append(callsA, runCalls("a3", 2)...)
	// unsolicited primaries from the peer while Selected: each well-formed one is "received" exactly once
	for k := 0; k < int(i%5); k++ {
		peerDataWritten.Add(1)
		_ = pc.Send(peer.Data(5, 1, false, 0x1234, 0xD5100000|uint32(k), c06Body("unsolicited")))
		env.Event("peer_unsolicited_primaries", 1)
	}
	// session-id validation on: a well-formed data frame with a foreign session id is dropped AND answered with one
	// S9F1 (a data frame of ours); it was still received
	var s9 int64
	if cs.Valid {
		for k := 0; k < 1+int(i%4); k++ {
			peerDataWritten.Add(1)
			s9++
			_ = pc.Send(peer.Data(5, 3, false, 0x4321, 0xD5200000|uint32(k), c06Body("foreign-session")))
			env.Event("peer_foreign_session_frames", 1)
		}
	}
	count(callsA, &tA)
	if cs.Equip {
		s9 += tA.t3 // one S9F9 per T3 timeout (all of them happened while Selected and fault-free)
		env.Event("s9f9_expected_for_t3_timeouts", tA.t3)
	}
	if !quiesce(accepted(callsA)+s9, pc) {
		env.Violate("link-dropped", "the fault-free part lost the link", cs)
		return
	}
	env.Event("quiescent_points", 1)
	kinds := 0
	for _, v := range []int64{tA.reply, tA.reject, tA.t3, tA.cancel, tA.refused} {
		if v > 0 {
			kinds++
		}
	}
	env.Eval(fw.HashStr("c20", fmt.Sprint(cs)), kinds >= 3)
	check := func(where, name string, got, want int64) {
		if name == "Reconnecting" && got != want {
			// "positive while a reconnect loop runs": the point is quiescent only once no goroutine is inside the
			// loop any more (it returns a moment after the generation it established was selected)
			loopRunning := func() bool {
				for _, g := range libGoroutines() {
					if strings.Contains(g, ".connectLoop(") {
						return true
					}
				}

				return false
			}
			if waitFor(3*time.Second, func() bool { return !loopRunning() }) {
				env.Event("reconnect_loop_seen_returning_after_selected", 1)
				got = mt.Reconnecting()
			} else {
				env.Note("history %d (%s): a goroutine is still inside connectLoop 3 s after the link was selected and fenced:\n%s", i, where, strings.Join(libGoroutines(), "\n\n"))
			}
		}
		if got != want {
			env.Violate("counter-"+name+"-"+where, fmt.Sprintf("%s: %s = %d, accountant expects %d (tally %+v)", where, name, got, want, tA), cs)
		}
	}
	check("fault-free", "DataMsgInflightCount", mt.DataMsgInflightCount(), 0)
	check("fault-free", "DataMsgSendCount", int64(mt.DataMsgSendCount()), dataAt(pc))
	check("fault-free", "DataMsgSendCount-vs-accepted-calls-and-S9F1", int64(mt.DataMsgSendCount()), tA.accepted+s9)
	check("fault-free", "DataMsgRecvCount", int64(mt.DataMsgRecvCount()), peerDataWritten.Load())
	check("fault-free", "DataMsgErrCount", int64(mt.DataMsgErrCount()), tA.t3)
	check("fault-free", "DataMsgDropNotSelectedCount", int64(mt.DataMsgDropNotSelectedCount()), tA.refused)
	check("fault-free", "AsyncSendErrCount", int64(mt.AsyncSendErrCount()), 0)
	check("fault-free", "AsyncSendErrorHandler-calls", asyncErrCallbacks.Load(), 0)
	check("fault-free", "Reconnecting", mt.Reconnecting(), 0)
	check("fault-free", "Reconnects", int64(mt.Reconnects()), 0)

	// ---- part B: drop with calls in flight, refusal streak, recovery ----
	errBefore := int64(mt.DataMsgErrCount())
	dialsBefore := rg.Trk.DialCount()
	if cs.Active && cs.Streak > 0 {
		streakEnd := dialsBefore + cs.Streak
		rg.Trk.SetFailDial(func(attempt int) error {
			if attempt < streakEnd {
				if attempt > dialsBefore { // the loop has already failed at least once: it is certainly running
					inStreak.Store(true)
				}

				return errors.New("harness: dial refused (streak)")
			}
			inStreak.Store(false)

			return nil
		})
	}
	var bwg sync.WaitGroup
	var callsB []*c20Call
	bwg.Add(1)
	go func() { defer bwg.Done(); callsB = runCalls("b", 3) }()
	time.Sleep(time.Duration(r.IntN(1500)) * time.Microsecond)
	pc.Reset()
	bwg.Wait()
	inStreak.Store(false)
	pc2, err := rg.NextGen(onFrame)
	if err != nil {
		env.Violate("no-recovery", fmt.Sprintf("after a reset and %d refused dials the connection did not come back: %v", cs.Streak, err), cs)
		return
	}
	defer pc2.Close()
	var tB tally
	count(callsB, &tB)
	if !quiesce(0, pc2) {
		env.Violate("link-dropped", "the recovered link does not answer", cs)
		return
	}
	env.Event("quiescent_points", 1)
	check("recovered", "DataMsgInflightCount", mt.DataMsgInflightCount(), 0)
	check("recovered", "Reconnecting", mt.Reconnecting(), 0)
	check("recovered", "Reconnects", int64(mt.Reconnects()), 1)
	if got, lo, hi := int64(mt.DataMsgSendCount()), dataAt(pc, pc2), tA.accepted+tB.accepted+s9+tB.t3; got < lo || got > hi { // (+T3s of part B: an equipment may have got an S9F9 out)
		env.Violate("counter-DataMsgSendCount-recovered", fmt.Sprintf("DataMsgSendCount=%d outside [frames the peer received=%d, accepted calls=%d]", got, lo, hi), cs)
	}
	if got, want := int64(mt.DataMsgErrCount())-errBefore, tB.t3+tB.other; got != want {
		env.Violate("counter-DataMsgErrCount-recovered", fmt.Sprintf("DataMsgErrCount moved by %d across the drop, accountant expects %d (T3=%d, write errors=%d; cancel/closed/refused must not count) tally %+v", got, want, tB.t3, tB.other, tB), cs)
	}
	if got, want := int64(mt.DataMsgDropNotSelectedCount()), tA.refused+tB.refused; got < want {
		env.Violate("counter-DataMsgDropNotSelectedCount-recovered", fmt.Sprintf("drop counter %d < refused calls %d", got, want), cs)
	}
	if cs.Active && cs.Streak > 0 {
		if streakSamples.Load() > 0 {
			if z := streakZero.Load(); z > 0 {
				env.Violate("reconnecting-zero-in-streak", fmt.Sprintf("Reconnecting() was <= 0 in %d of %d samples taken while the reconnect loop was inside a streak of refused dials", z, streakSamples.Load()), cs)
			} else {
				env.Event("reconnecting_positive_in_streak", 1)
			}
		}
	}

	// ---- part B2: a write that fails on the write timeout (peer stops reading) is a failed send: err+1 ----
	if i%4 == 0 {
		_ = rg.Conn.UpdateConfigOptions(hsms.WithWriteTimeout(250 * time.Millisecond))
		err0, send0 := int64(mt.DataMsgErrCount()), int64(mt.DataMsgSendCount())
		big := secs2.B(make([]byte, 1<<20))
		_ = big.ToBytes()
		pc2.StallReads(true)
		var okCalls, failed int64
		var failErr error
		for n := 0; n < 200 && failed == 0; n++ {
			ctx, cancel := context.WithTimeout(context.Background(), 10*time.Second)
			_, err := rg.Conn.SendDataMessage(ctx, 3, 1, false, big)
			cancel()
			switch {
			case err == nil:
				okCalls++
			case errors.Is(err, hsms.ErrNotSelectedState), errors.Is(err, hsms.ErrConnClosed):
				n = 1000 // the link went away for another reason: not the outcome under test
			default:
				failed++
				failErr = err
			}
		}
		pc2.StallReads(false)
		if failed == 1 {
			waitFor(5*time.Second, func() bool { return rg.Conn.State() != hsms.SelectedState })
			if got := int64(mt.DataMsgErrCount()) - err0; got != 1 {
				env.Violate("counter-DataMsgErrCount-write-timeout", fmt.Sprintf("a synchronous data send failed with %q (write to a peer that stopped reading, write timeout 250 ms) and DataMsgErrCount moved by %d, want 1", failErr, got), cs)
			}
			if got := int64(mt.DataMsgSendCount()) - send0; got != okCalls {
				env.Violate("counter-DataMsgSendCount-write-timeout", fmt.Sprintf("%d sends returned nil before the write timeout and DataMsgSendCount moved by %d", okCalls, got), cs)
			}
			env.Event("outcome_write_timeout", 1)
			pc3, _, err := rg.NextGenRetry(onFrame, 6)
			if err != nil {
				env.Violate("no-recovery", fmt.Sprintf("after a write timeout the connection did not come back: %v", err), cs)
				return
			}
			defer pc3.Close()
			if !quiesce(0, pc3) {
				return
			}
			check("after-write-timeout", "DataMsgInflightCount", mt.DataMsgInflightCount(), 0)
			check("after-write-timeout", "Reconnecting", mt.Reconnecting(), 0)
		}
	}

	// ---- part B3: an ASYNC data send whose write fails (peer stops reading): async-error counter and callback,
	// never the synchronous error counter ----
	if i%4 == 2 {
		_ = rg.Conn.UpdateConfigOptions(hsms.WithWriteTimeout(250 * time.Millisecond))
		quiesce(0, pc2)
		err0, send0, async0, cb0 := int64(mt.DataMsgErrCount()), int64(mt.DataMsgSendCount()), int64(mt.AsyncSendErrCount()), asyncErrCallbacks.Load()
		big := secs2.B(make([]byte, 1<<20))
		_ = big.ToBytes()
		pc2.StallReads(true)
		var enqueued int64
		for n := 0; n < 400 && int64(mt.AsyncSendErrCount()) == async0 && rg.Conn.State() == hsms.SelectedState; n++ {
			ctx, cancel := context.WithTimeout(context.Background(), time.Second)
			if err := rg.Conn.SendDataMessageAsync(ctx, 3, 3, false, big); err == nil {
				enqueued++
			}
			cancel()
			time.Sleep(2 * time.Millisecond)
		}
		waitFor(5*time.Second, func() bool { return int64(mt.AsyncSendErrCount()) > async0 })
		pc2.StallReads(false)
		if int64(mt.AsyncSendErrCount()) > async0 {
			waitFor(5*time.Second, func() bool { return rg.Conn.State() != hsms.SelectedState })
			pc3, _, err := rg.NextGenRetry(onFrame, 6)
			if err != nil {
				env.Violate("no-recovery", fmt.Sprintf("after a failed async write the connection did not come back: %v", err), cs)
				return
			}
			defer pc3.Close()
			if !quiesce(0, pc3) {
				return
			}
			env.Event("outcome_async_write_failure", 1)
			asyncD, cbD, sendD := int64(mt.AsyncSendErrCount())-async0, asyncErrCallbacks.Load()-cb0, int64(mt.DataMsgSendCount())-send0
			if got := int64(mt.DataMsgErrCount()) - err0; got != 0 {
				env.Violate("counter-DataMsgErrCount-async-write-failure", fmt.Sprintf("only asynchronous sends failed (write to a peer that stopped reading) and the synchronous-send error counter moved by %d", got), cs)
			}
			if asyncD != cbD {
				env.Violate("counter-AsyncSendErrCount-vs-handler", fmt.Sprintf("AsyncSendErrCount moved by %d, the async-send-error handler was called %d times", asyncD, cbD), cs)
			}
			if sendD+asyncD > enqueued {
				env.Violate("counter-async-conservation", fmt.Sprintf("%d async sends were accepted; DataMsgSendCount moved by %d and AsyncSendErrCount by %d (sum exceeds what was accepted)", enqueued, sendD, asyncD), cs)
			}
			check("after-async-write-failure", "DataMsgInflightCount", mt.DataMsgInflightCount(), 0)
			check("after-async-write-failure", "Reconnecting", mt.Reconnecting(), 0)
		}
	}

	// ---- part C: Close ----
	closedLib = true
	if err := rg.Shutdown(); err != nil {
		env.Violate("close-error", err.Error(), cs)
	}
	env.Event("quiescent_points", 1)
	check("closed", "DataMsgInflightCount", mt.DataMsgInflightCount(), 0)
	check("closed", "Reconnecting", mt.Reconnecting(), 0)
}
