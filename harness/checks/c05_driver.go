package checks

import (
	"fmt"
	"math/rand/v2"
	"strings"

	"github.com/arloliu/go-secs/v2/hsms"

	"verif/fw"
)

// ---------------------------------------------------------------------------------------------
// C05 (a): controlled-scheduler exploration of the REAL supervisor (hsms.VerifSupervisor, no
// goroutines). One schedule = a sequence of atomic actions; every change of State() is observed
// between two atomic actions (and at the load/store seam of step) by an online monitor.
// ---------------------------------------------------------------------------------------------

type c05Act uint8

const (
	aTCPUp c05Act = iota
	aCommitSel
	aCommitLost
	aDiscRecv
	aDiscOther
	aT7
	aClose
	aJoin
	aStep
	aStepISel  // step with CommitSelected interposed between step's load and store
	aStepILost // step with CommitSelectLost interposed
	aStepIUp   // step with TCPUp (CommitConnected) interposed
	aNumActs
)

var c05ActNames = [...]string{"TCPUp", "CommitSelected", "CommitSelectLost", "TCPDown(recv)", "TCPDown(other)", "T7Expired", "Close",
	"JoinComplete", "Step", "Step[CommitSelected]", "Step[CommitSelectLost]", "Step[TCPUp]"}

func (a c05Act) String() string { return c05ActNames[a] }

var c05EvNames = map[hsms.VerifEvent]string{
	hsms.VerifEvTCPUp: "evTCPUp", hsms.VerifEvSelectAccepted: "evSelectAccepted", hsms.VerifEvSelectLost: "evSelectLost",
	hsms.VerifEvDisconnect: "evDisconnect", hsms.VerifEvClose: "evClose", hsms.VerifEvT7Timeout: "evT7Timeout",
}

// c05Env is the environment model: which calls a transport can make now. It mirrors how the real
// transports drive TransportRuntime (one receive path per generation; TCPUp of generation g+1 only
// after generation g's teardown has been joined; writers/linktest/select-procedure may add further
// TCPDown calls; a T7 timer per NotSelected entry; Close once; one Start may still be in flight
// when Close is requested).
type c05Env struct {
	gen         int  // generations started (TCPUp calls)
	live        bool // TCPUp(gen) done, join of gen not complete
	tdBegun     bool // teardown of the live generation has begun (NotConnected reaction or evClose processed)
	joined      bool // the last generation has been fully joined
	loopPending bool // a reconnect loop exists (an involuntary NotConnected reaction fired before Close)
	recvAlive   bool // the live generation's receive goroutine has not yet reported its own TCPDown
	otherDisc   int  // TCPDown calls by non-receive goroutines in this generation
	t7Budget    int  // T7 timers armed and possibly still able to fire
	closeReq    bool
	upAfterCl   bool // the one in-flight Start allowed to land after Close was requested has landed
	commits     int  // receive-path commits in this generation (bounds the space)
}

type c05Sim struct {
	v       *hsms.VerifSupervisor
	env     c05Env
	tags    []int // generation tag of each queued event (mirror of the FIFO)
	evs     []hsms.VerifEvent
	lastN   hsms.ConnState // next state of the last delivered notification (NotConnected initially)
	dropped uint64
	lazy    int // drain notifications only every lazy actions (0/1 = always)
	sinceDr int
	steps   int
	viol    []c05Viol
	edges   map[string]int
	interp  int
}

type c05Viol struct {
	Key string
	Msg string
}

func newC05Sim(lazy int) *c05Sim {
	return &c05Sim{v: hsms.NewVerifSupervisor(128), lastN: hsms.NotConnectedState, lazy: lazy, edges: map[string]int{}}
}

func (s *c05Sim) violate(key, msg string) { s.viol = append(s.viol, c05Viol{key, msg}) }

var c05LegalEdges = map[[2]hsms.ConnState]bool{
	{hsms.NotConnectedState, hsms.NotSelectedState}: true,
	{hsms.NotSelectedState, hsms.SelectedState}:     true,
	{hsms.SelectedState, hsms.NotSelectedState}:     true,
	{hsms.NotSelectedState, hsms.NotConnectedState}: true,
	{hsms.SelectedState, hsms.NotConnectedState}:    true,
}

// observe checks one observed state change (from -> to) attributed to cause.
func (s *c05Sim) observe(from, to hsms.ConnState, cause string, allowed map[[2]hsms.ConnState]bool) {
	if from == to {
		return
	}
	e := [2]hsms.ConnState{from, to}
	s.edges[from.String()+"->"+to.String()]++
	if !c05LegalEdges[e] {
		s.violate("illegal-edge-"+from.String()+"-to-"+to.String(), fmt.Sprintf("State() changed %v -> %v (during %s): not an edge of the E37 diagram", from, to, cause))
		return
	}
	if !allowed[e] {
		s.violate(cause+"-changed-state-"+from.String()+"-to-"+to.String(),
			fmt.Sprintf("State() changed %v -> %v during %s, which is not the cause of such a change", from, to, cause))
	}
}

var (
	edgeUp   = map[[2]hsms.ConnState]bool{{hsms.NotConnectedState, hsms.NotSelectedState}: true}
	edgeSel  = map[[2]hsms.ConnState]bool{{hsms.NotSelectedState, hsms.SelectedState}: true}
	edgeLost = map[[2]hsms.ConnState]bool{{hsms.SelectedState, hsms.NotSelectedState}: true}
	edgeDisc = map[[2]hsms.ConnState]bool{{hsms.NotSelectedState, hsms.NotConnectedState}: true, {hsms.SelectedState, hsms.NotConnectedState}: true}
	edgeT7   = map[[2]hsms.ConnState]bool{{hsms.NotSelectedState, hsms.NotConnectedState}: true}
	edgeNone = map[[2]hsms.ConnState]bool{}
)

func (s *c05Sim) enabled(a c05Act) bool {
	e := &s.env
	switch a {
	case aTCPUp, aStepIUp:
		ok := !e.live && (e.gen == 0 || (e.joined && e.loopPending)) && !(e.closeReq && e.upAfterCl) && e.gen < 4
		if a == aStepIUp {
			return ok && s.v.QueueLen() > 0
		}

		return ok
	case aCommitSel, aCommitLost:
		return e.live && e.recvAlive && e.commits < 4
	case aDiscRecv:
		return e.live && e.recvAlive
	case aDiscOther:
		return e.live && e.otherDisc < 1
	case aT7:
		return e.live && e.t7Budget > 0
	case aClose:
		return !e.closeReq
	case aJoin:
		return e.live && e.tdBegun
	case aStep:
		return s.v.QueueLen() > 0
	case aStepISel, aStepILost:
		return s.v.QueueLen() > 0 && e.live && e.recvAlive && e.commits < 4
	}

	return false
}

func (s *c05Sim) push(ev hsms.VerifEvent) {
	s.tags = append(s.tags, s.env.gen)
	s.evs = append(s.evs, ev)
}

// envCall performs one environment call (a transport -> core call) and monitors it.
func (s *c05Sim) envCall(a c05Act) {
	e := &s.env
	before := s.v.State()
	switch a {
	case aTCPUp:
		if e.closeReq {
			e.upAfterCl = true
		}
		e.gen++
		e.live, e.joined, e.loopPending = true, false, false
		e.recvAlive, e.otherDisc, e.t7Budget, e.commits = true, 0, 1, 0
		e.tdBegun = s.v.Closed() // a generation adopted after evClose was processed is already being torn down
		if s.v.CommitConnected() {
			s.push(hsms.VerifEvTCPUp)
		}
		s.observe(before, s.v.State(), "TCPUp", edgeUp)
	case aCommitSel:
		e.commits++
		if s.v.CommitSelected() {
			s.push(hsms.VerifEvSelectAccepted)
		}
		s.observe(before, s.v.State(), "CommitSelected", edgeSel)
	case aCommitLost:
		e.commits++
		if s.v.CommitSelectLost() {
			s.push(hsms.VerifEvSelectLost)
			if e.t7Budget < 2 {
				e.t7Budget++
			}
		}
		s.observe(before, s.v.State(), "CommitSelectLost", edgeLost)
	case aDiscRecv:
		e.recvAlive = false
		s.v.InjectDisconnect()
		s.push(hsms.VerifEvDisconnect)
		s.observe(before, s.v.State(), "TCPDown", edgeNone)
	case aDiscOther:
		e.otherDisc++
		s.v.InjectDisconnect()
		s.push(hsms.VerifEvDisconnect)
		s.observe(before, s.v.State(), "TCPDown", edgeNone)
	case aT7:
		e.t7Budget--
		s.v.InjectT7()
		s.push(hsms.VerifEvT7Timeout)
		s.observe(before, s.v.State(), "T7Expired", edgeNone)
	case aClose:
		e.closeReq = true
		s.v.RequestClose()
		s.push(hsms.VerifEvClose)
		s.observe(before, s.v.State(), "Close-request", edgeNone)
	case aJoin:
		e.live, e.joined = false, true
	}
}

// do executes one scheduler action.
func (s *c05Sim) do(a c05Act) {
	s.steps++
	switch a {
	case aStep, aStepISel, aStepILost, aStepIUp:
		s.step(a)
	default:
		s.envCall(a)
	}
	s.afterAction()
}

func (s *c05Sim) step(a c05Act) {
	if len(s.evs) == 0 {
		return
	}
	ev, tag := s.evs[0], s.tags[0]
	before := s.v.State()
	wasClosed := s.v.Closed()
	var mid hsms.ConnState
	interposed := false
	var ip func()
	switch a {
	case aStepISel:
		ip = func() { s.envCall(aCommitSel); mid = s.v.State(); interposed = true }
	case aStepILost:
		ip = func() { s.envCall(aCommitLost); mid = s.v.State(); interposed = true }
	case aStepIUp:
		ip = func() { s.envCall(aTCPUp); mid = s.v.State(); interposed = true }
	}
	got, ok := s.v.StepOne(ip)
	if !ok || got != ev {
		s.violate("driver-queue-mismatch", fmt.Sprintf("harness mirror expected %v at the queue head, StepOne returned %v ok=%v", c05EvNames[ev], c05EvNames[got], ok))
		return
	}
	// pop AFTER the step: an interposed commit appends behind
	s.evs, s.tags = s.evs[1:], s.tags[1:]
	from := before
	if interposed {
		from = mid
		s.interp++
	}
	// (when step returns before reaching the seam — latched closed, or a stale generation-tagged event
	// dropped up front — the interposed call simply did not happen; the action degenerates to Step)
	_ = wasClosed
	after := s.v.State()
	name := "step-" + c05EvNames[ev]
	var allowed map[[2]hsms.ConnState]bool
	switch ev {
	case hsms.VerifEvTCPUp, hsms.VerifEvSelectAccepted, hsms.VerifEvSelectLost:
		allowed = edgeNone // pure reaction carriers of an EARLIER synchronous commit
	case hsms.VerifEvDisconnect:
		allowed = edgeDisc
	case hsms.VerifEvT7Timeout:
		allowed = edgeT7
	case hsms.VerifEvClose:
		allowed = edgeDisc
	}
	if from != after && (ev == hsms.VerifEvDisconnect || ev == hsms.VerifEvT7Timeout) && tag < s.env.gen && c05LegalEdges[[2]hsms.ConnState{from, after}] {
		s.edges[from.String()+"->"+after.String()]++
		s.violate("stale-"+c05EvNames[ev]+"-crosses-generation",
			fmt.Sprintf("%s queued by generation %d was processed after generation %d committed TCP-up and changed State() %v -> %v", c05EvNames[ev], tag, s.env.gen, from, after))
	} else {
		s.observe(from, after, name, allowed)
	}
	// "each change takes effect exactly when its cause does": a cause that is processed must HAVE its
	// effect. A disconnect reported by the CURRENT generation leaves the connection NotConnected whatever
	// commit lands in step's load/store window (the commit comes from the dying generation's own receive
	// path); a T7 expiry processed while NotSelected (after any interposed commit) drops the link; Close
	// always ends NotConnected. Stale events and events behind the closed latch are exempt.
	if !wasClosed {
		switch {
		case ev == hsms.VerifEvDisconnect && tag == s.env.gen && after != hsms.NotConnectedState:
			s.violate("disconnect-without-effect-"+after.String(), fmt.Sprintf("evDisconnect of the current generation %d was processed (state before %v, at the seam %v) and State() is %v afterwards", tag, before, from, after))
		case ev == hsms.VerifEvT7Timeout && !interposed && tag == s.env.gen && from == hsms.NotSelectedState && after != hsms.NotConnectedState:
			s.violate("t7-without-effect-"+after.String(), fmt.Sprintf("evT7Timeout was processed while NotSelected and State() is %v afterwards", after))
		case ev == hsms.VerifEvClose && after != hsms.NotConnectedState && !interposed:
			s.violate("close-without-effect-"+after.String(), fmt.Sprintf("evClose was processed and State() is %v afterwards", after))
		}
	}
	if ev == hsms.VerifEvClose && !wasClosed {
		if !s.v.Closed() {
			s.violate("close-not-latched", "evClose was processed but the supervisor is not latched closed")
		}
		if s.env.live {
			s.env.tdBegun = true
		}
	}
}

func (s *c05Sim) afterAction() {
	// reactions: a NotConnected reaction begins teardown of the live generation, and (when Close has
	// not been requested) starts the reconnect loop
	for _, r := range s.v.DrainReactions() {
		if r.Next == hsms.NotConnectedState {
			if s.env.live {
				s.env.tdBegun = true
			}
			if !s.env.closeReq {
				s.env.loopPending = true
			}
		}
	}
	s.sinceDr++
	if s.lazy <= 1 || s.sinceDr >= s.lazy || s.v.QueueLen() == 0 {
		s.drain()
	}
	// after-close invariant at terminal points
	if s.v.Closed() && s.v.QueueLen() == 0 && !s.env.live && !s.enabled(aTCPUp) {
		if st := s.v.State(); st != hsms.NotConnectedState {
			s.violate("state-after-close-"+st.String(), fmt.Sprintf("after evClose was processed and every in-flight transport call finished, State()==%v (must be NotConnected)", st))
		}
	}
}

func (s *c05Sim) drain() {
	s.sinceDr = 0
	ns := s.v.DrainNotifications()
	d := s.v.Dropped()
	gapOK := d > s.dropped
	s.dropped = d
	for _, n := range ns {
		if n.Prev == n.Next {
			s.violate("self-transition-notification", fmt.Sprintf("notification %v -> %v", n.Prev, n.Next))
		}
		if n.Prev != s.lastN && !gapOK {
			s.violate("notification-chain-broken", fmt.Sprintf("notification prev=%v but the preceding notification's next was %v and no coalescing was reported", n.Prev, s.lastN))
		}
		s.lastN = n.Next
	}
	if s.v.QueueLen() == 0 && !s.v.Closed() && s.lastN != s.v.State() {
		s.violate("last-notification-not-current-state", fmt.Sprintf("queue drained: last notification's next=%v but State()=%v", s.lastN, s.v.State()))
	}
}

// key identifies the abstract state for visited-set pruning.
func (s *c05Sim) key() string {
	var sb strings.Builder
	e := &s.env
	fmt.Fprintf(&sb, "%d%d%t|%d%t%t%t%t%t%d%d%t%t%d|%d|", s.v.State(), s.v.LastReacted(), s.v.Closed(),
		e.gen, e.live, e.tdBegun, e.joined, e.loopPending, e.recvAlive, e.otherDisc, e.t7Budget, e.closeReq, e.upAfterCl, e.commits, s.lastN)
	for i, ev := range s.evs {
		fmt.Fprintf(&sb, "%d.%d,", ev, s.env.gen-s.tags[i])
	}

	return sb.String()
}

func c05Replay(sched []c05Act, lazy int) *c05Sim {
	s := newC05Sim(lazy)
	for _, a := range sched {
		s.do(a)
	}

	return s
}

func c05SchedString(sched []c05Act) string {
	parts := make([]string, len(sched))
	for i, a := range sched {
		parts[i] = a.String()
	}

	return strings.Join(parts, " ; ")
}

type c05Case struct {
	Mode     string `json:"mode"`
	Schedule string `json:"schedule"`
	Len      int    `json:"len"`
}

type c05Explorer struct {
	env      *fw.Env
	visited  map[string]struct{}
	maxDepth int
	nodes    int64
	seenKeys map[string]bool
	budget   int64
}

func (x *c05Explorer) report(s *c05Sim, sched []c05Act, mode string) {
	for _, v := range s.viol {
		if x.seenKeys[v.Key] {
			continue
		}
		x.seenKeys[v.Key] = true
		x.env.Violate(v.Key, v.Msg+"\nschedule: "+c05SchedString(sched), c05Case{Mode: mode, Schedule: c05SchedString(sched), Len: len(sched)})
	}
}

// dfs explores all schedules from sched (already known to reach an unvisited state).
func (x *c05Explorer) dfs(sched []c05Act) {
	if len(sched) >= x.maxDepth || x.nodes >= x.budget {
		return
	}
	cur := c05Replay(sched, 0)
	for a := c05Act(0); a < aNumActs; a++ {
		if !cur.enabled(a) {
			continue
		}
		next := append(append(make([]c05Act, 0, len(sched)+1), sched...), a)
		s := c05Replay(next, 0)
		x.nodes++
		x.env.EvalN(1)
		x.env.Event("dfs_transitions", 1)
		if a >= aStepISel {
			x.env.Event("interposed_steps", 1)
		}
		if len(s.viol) > 0 {
			x.report(s, next, "dfs")
			x.env.Event("dfs_violating_schedules", 1)

			continue // prune below a violating action
		}
		k := s.key()
		if _, ok := x.visited[k]; ok {
			continue
		}
		x.visited[k] = struct{}{}
		x.env.Eval(fw.HashStr("state", k), true)
		x.dfs(next)
	}
}

func c05DriverWorker(env *fw.Env) {
	x := &c05Explorer{env: env, visited: map[string]struct{}{}, seenKeys: map[string]bool{}}
	switch env.Phase {
	case "driver-dfs":
		x.maxDepth = env.Pick(12, 18)
		x.budget = int64(env.Pick(400_000, 6_000_000))
		// partition by the first three actions: enumerate depth-3 prefixes deterministically
		var prefixes [][]c05Act
		var gen func(p []c05Act, d int)
		gen = func(p []c05Act, d int) {
			if d == 0 {
				prefixes = append(prefixes, append([]c05Act{}, p...))
				return
			}
			cur := c05Replay(p, 0)
			any := false
			for a := c05Act(0); a < aNumActs; a++ {
				if cur.enabled(a) {
					any = true
					gen(append(p, a), d-1)
				}
			}
			if !any {
				prefixes = append(prefixes, append([]c05Act{}, p...))
			}
		}
		gen(nil, 3)
		for i, p := range prefixes {
			if !env.Mine(int64(i)) || !env.Want(int64(i)) {
				continue
			}
			s := c05Replay(p, 0)
			env.EvalN(1)
			if len(s.viol) > 0 {
				x.report(s, p, "dfs")
				// still explore the non-violating siblings: handled by other prefixes
				continue
			}
			k := s.key()
			x.visited[k] = struct{}{}
			env.Eval(fw.HashStr("state", k), true)
			env.Sample(c05Case{Mode: "dfs-prefix", Schedule: c05SchedString(p), Len: len(p)})
			x.dfs(p)
		}
		env.Event("dfs_distinct_states", int64(len(x.visited)))
	case "driver-walk":
		total := int64(env.Pick(20_000, 1_000_000))
		for i := int64(0); i < total; i++ {
			if !env.Mine(i) || !env.Want(i) {
				continue
			}
			r := env.RandAt("walk", i)
			lazy := 0
			if r.IntN(3) == 0 {
				lazy = 2 + r.IntN(30)
			}
			sched, s := c05Walk(r, 60, lazy)
			env.Eval(fw.HashStr("walk", c05SchedString(sched)), len(sched) >= 6)
			env.Event("walk_steps", int64(len(sched)))
			env.Event("interposed_steps", int64(s.interp))
			if s.dropped > 0 {
				env.Event("walks_with_coalesced_notifications", 1)
			}
			for e, n := range s.edges {
				env.Event("edge_"+e, int64(n))
			}
			if i < 64 {
				env.Sample(c05Case{Mode: "walk", Schedule: c05SchedString(sched), Len: len(sched)})
			}
			if len(s.viol) > 0 {
				x.report(s, sched, "walk")
			}
		}
	}
}

// c05Walk runs one random schedule; step actions are favoured so queues drain, and when lazy>16 the
// notifications are drained rarely so that the drop-oldest path is exercised.
func c05Walk(r *rand.Rand, maxLen, lazy int) ([]c05Act, *c05Sim) {
	s := newC05Sim(lazy)
	var sched []c05Act
	stepBias := 1 + r.IntN(4)
	for len(sched) < maxLen {
		var en []c05Act
		for a := c05Act(0); a < aNumActs; a++ {
			if !s.enabled(a) {
				continue
			}
			w := 1
			if a >= aStep {
				w = stepBias
			}
			if a == aClose {
				if len(sched) < 8 && r.IntN(4) != 0 {
					continue
				}
			}
			for k := 0; k < w; k++ {
				en = append(en, a)
			}
		}
		if len(en) == 0 {
			break
		}
		a := en[r.IntN(len(en))]
		sched = append(sched, a)
		s.do(a)
		if len(s.viol) > 0 {
			break
		}
	}
	if len(s.viol) == 0 {
		s.drain()
	}

	return sched, s
}
