package checks

import (
	"context"
	"fmt"
	"sync/atomic"
	"time"

	"github.com/arloliu/go-secs/v2/hsms"
	"github.com/arloliu/go-secs/v2/secs2"

	"verif/fw"
	"verif/peer"
)

// C08, "a response with no open transaction is answered with Reject.req reason 3": a control RESPONSE whose system
// bytes equal those of a DATA transaction the library itself has open is such a response (a Select/Deselect/
// Linktest.rsp can never be the answer to a data primary). The peer sends it the instant it has read the primary;
// in half of the cases the library's sender is still parked right behind its write (hsms.send.afterWrite, outside
// the write lock), i.e. it has not yet reached whatever it does after the write. Expected, exactly: one
// Reject.req(reason 3, the response's SType, those system bytes), the link stays up and Selected, and the genuine
// secondary sent afterwards still completes the caller's transaction.

type c08TxCase struct {
	Index    int64  `json:"index"`
	Active   bool   `json:"active"`
	Equip    bool   `json:"equip"`
	RspSType byte   `json:"colliding_response_stype"`
	Status   byte   `json:"status_byte"`
	Timing   string `json:"timing"`
}

func c08OpenDataTx(env *fw.Env, i int64, k int) {
	stypes := []byte{peer.STSelectRsp, peer.STDeselectRsp, peer.STLinktestRsp}
	cs := c08TxCase{Index: i, Active: k%2 == 0, Equip: (k/2)%2 == 0, RspSType: stypes[(k/4)%3], Status: []byte{0, 1, 3}[(k/12)%3], Timing: []string{"sender-parked-behind-its-write", "sender-waiting-for-the-reply"}[(k/36)%2]}
	env.Begin(i, cs)
	env.Sample(cs)
	env.Eval(fw.HashStr("c08tx", fmt.Sprint(cs.Active, cs.Equip, cs.RspSType, cs.Status, cs.Timing)), true)
	env.Event("open_data_tx_cases", 1)
	rg, err := newRig(rigOpts{Active: cs.Active, Equip: cs.Equip, T3: 20 * time.Second, SessionID: c08Session})
	if err != nil {
		env.Discard()
		return
	}
	pc, err := rg.Establish(nil)
	if err != nil {
		env.Note("open-data-tx case %d: establish: %v", i, err)
		env.Discard()
		_ = rg.Shutdown()
		return
	}
	defer pc.Close()
	defer func() { _ = rg.Shutdown() }()

	var armed atomic.Bool
	parked := make(chan struct{}, 4)
	release := make(chan struct{})
	if cs.Timing == "sender-parked-behind-its-write" {
		hsms.VerifSetHook("hsms.send.afterWrite", func(time.Duration) {
			if !armed.Load() {
				return
			}
			select {
			case parked <- struct{}{}:
			default:
			}
			select {
			case <-release:
			case <-time.After(15 * time.Second):
			}
		})
		defer hsms.VerifSetHook("hsms.send.afterWrite", nil)
	}
	type result struct {
		reply *hsms.DataMessage
		err   error
	}
	res := make(chan result, 1)
	armed.Store(true)
	go func() {
		m, err := rg.Conn.SendDataMessage(context.Background(), 3, 17, true, secs2.A("c08tx"))
		res <- result{m, err}
	}()
	released := false
	unpark := func() {
		if !released {
			released = true
			armed.Store(false)
			close(release)
		}
	}
	defer unpark()
	prim, _, err := pc.Expect(10*time.Second, func(f peer.Frame) bool { return f.IsData() && f.Stream() == 3 && f.Function() == 17 })
	if err != nil {
		env.Violate("open-data-tx-primary-not-sent", fmt.Sprintf("the library's W-bit primary did not reach the peer: %v", err), cs)
		return
	}
	if cs.Timing == "sender-parked-behind-its-write" {
		select {
		case <-parked:
		case <-time.After(10 * time.Second):
			env.Note("open-data-tx case %d: the sender never reached the afterWrite point", i)
			env.Discard()
			return
		}
	} else {
		time.Sleep(15 * time.Millisecond)
	}
	sess := prim.Session
	if cs.RspSType == peer.STLinktestRsp {
		sess = 0xFFFF
	}
	cf := peer.Control(cs.RspSType, sess, 0, cs.Status, prim.Sys)
	if err := pc.Send(cf); err != nil {
		env.Discard()
		return
	}
	got, err := pc.Barrier(10 * time.Second)
	if err != nil {
		env.Violate("open-data-tx-link-dropped", fmt.Sprintf("after a %s carrying the system bytes of the library's open data transaction the library no longer answers a Linktest (%v): a response with no open transaction must be rejected, never answered by a disconnect", cf.Kind(), err), cs)
		return
	}
	exp := []c08Exp{{SType: peer.STRejectReq, B2: cs.RspSType, B3: 3, Sys: prim.Sys, Why: "control response whose system bytes belong to an open DATA transaction: no open transaction for it"}}
	m := &c08Model{}
	c08Compare(env, c08Case{Index: i, Active: cs.Active, Equip: cs.Equip, SecondAt: -1, Frames: []string{"(library: S3F17 W)", cf.String()}, AnswerSel: cs.Timing}, exp, got, m)
	if st := rg.Conn.State(); st != hsms.SelectedState {
		env.Violate("open-data-tx-state-changed", fmt.Sprintf("State()=%v after an orphan %s status %d; the session was Selected and nothing deselected it", st, cf.Kind(), cs.Status), cs)
	}
	unpark()
	// the data transaction itself is still open: the genuine secondary completes it
	select {
	case r := <-res:
		env.Violate("open-data-tx-completed-by-control-response", fmt.Sprintf("SendDataMessage returned (reply=%v, err=%v) before the peer sent any secondary: the colliding %s completed the data transaction", r.reply != nil, r.err, cf.Kind()), cs)
		return
	case <-time.After(30 * time.Millisecond):
	}
	_ = pc.Send(peer.Data(3, 18, false, prim.Session, prim.Sys, []byte{0x41, 0x02, 'o', 'k'}))
	select {
	case r := <-res:
		if r.err != nil || r.reply == nil || r.reply.Function() != 18 {
			env.Violate("open-data-tx-reply-lost", fmt.Sprintf("after the rejected control response the genuine S3F18 did not complete the transaction: reply=%v err=%v", r.reply != nil, r.err), cs)
			return
		}
		env.Event("open_data_tx_completed_by_secondary", 1)
	case <-time.After(10 * time.Second):
		env.Violate("open-data-tx-reply-lost", "the genuine S3F18 sent after the rejected control response did not complete SendDataMessage within 10 s", cs)
	}
}
