package checks

import (
	"bytes"
	"context"
	"fmt"
	"hash/fnv"
	"math/rand/v2"
	"os"
	"path/filepath"
	"runtime"
	"strings"
	"sync"
	"time"

	"github.com/arloliu/go-secs/v2/hsms"
	"github.com/arloliu/go-secs/v2/secs2"

	"verif/fw"
	"verif/peer/e4mitm"
	"verif/ref/e4"
)

// C18 — SECS-I delivers each successfully sent message exactly once over a faulty line.
//
// Two real secs1 connections (host = slave, equipment = master) are joined through the
// fault-injecting middlebox verif/peer/e4mitm. Every message body carries a unique token. The oracle
// reads only logical facts: the results of the send calls, the handler deliveries, and the history of
// characters and blocks that crossed the middlebox.
func init() {
	fw.Register(&fw.Check{
		ID:    "C18",
		Level: "fault_enumeration",
		Rule: "plan i (pure function of seed, tier, i) = workload (1-4 messages per role, 1-4 blocks each, retry limit 0..3, either TCP role) + fault plan from the families: " +
			"flip (ENUMERATED: every character position of a block transmission, length byte only upward, both directions), dropchars/truncate/drop-block, " +
			"handshake (drop or replace each of ENQ/EOT/ACK, and of a provoked NAK, with every other control character or 0x00; never NAK->ACK), delay (handshake character or block held 1.6xT2, block split and held 3xT1), " +
			"persistent (every transmission of one block corrupted / every ACK / every EOT dropped until the retry limit is exhausted), contention (both roles start sending together, the middlebox holds the first ENQ until the " +
			"other side's ENQ arrives and releases both), compose (2-4 random rules, optionally with contention). Oracle: every send that returned nil is delivered exactly once, intact, in per-direction send order; nothing is " +
			"delivered twice, altered or unknown; per endpoint and TCP generation no block is requested (ENQ) or transmitted more than retry-limit+1 times since that endpoint last emitted EOT; after a contention with no other " +
			"fault the next block on the line is the equipment's; no send call hangs; after a failed send both ends return to Selected. distinct = hash(plan); non-trivial = at least one fault rule was applied or a contention was produced",
		Assumptions: []string{
			"the middlebox models a FIFO line: a delay stalls one direction, it never reorders characters",
			"faults are restricted to those the property's quantifier lists; NAK->ACK substitution and downward length-byte changes are excluded",
			"library-end timers T1=50ms T2=250ms T4=10s (T4 > (RTY+1)xT2 as E4 requires); liveness bounds (send watchdog 45s, re-establishment 15s, delivery poll) are orders of magnitude above the protocol times",
			"block bodies of exactly 11 bytes are never generated (their length byte equals NAK), so the split of an endpoint's emissions into control characters and blocks is unambiguous",
		},
		Phases: func(tier string) []fw.Phase {
			return []fw.Phase{{Name: "mitm", Race: true, Shards: 12, Timeout: tierDur(tier, 8, 30), HangIsViolation: true}}
		},
		Worker: c18Worker,
		RequiredEvents: []string{"scenarios", "sends_ok", "sends_failed", "deliveries_intact", "rules_applied", "retransmissions_seen", "lib_dup_drops", "contentions_observed",
			"lib_contention_yields", "retry_exhaustions_seen", "reconnects", "flip_positions_covered"},
	})
}

const (
	c18T1 = 50 * time.Millisecond
	c18T2 = 250 * time.Millisecond
	c18T4 = 10 * time.Second
)

const (
	roleH = 0
	roleE = 1
)

type c18Plan struct {
	Idx        int64     `json:"idx"`
	Family     string    `json:"family"`
	Retry      int       `json:"retry_limit"`
	HostActive bool      `json:"host_tcp_active"`
	Msgs       [2][]int  `json:"blocks_per_message"` // [role] -> block count of each message
	Simul      bool      `json:"simultaneous_start"`
	Skew       int       `json:"skew_ms"` // equipment starts this many ms after the host (negative: before)
	Rules      []c18Rule `json:"rules"`
	Gate       bool      `json:"gate"`
	Gates      int       `json:"gates,omitempty"`
	Small      bool      `json:"small_blocks,omitempty"`
	T4ms       int       `json:"t4_ms,omitempty"` // 0: the default c18T4 (10 s, never in play)
	T1ms       int       `json:"t1_ms,omitempty"` // 0: the default c18T1
	T2ms       int       `json:"t2_ms,omitempty"` // 0: the default c18T2
	Phantom    bool      `json:"embedded_block_image,omitempty"`
	Desc       string    `json:"desc"`
}

// c18Rule is an e4mitm.Rule with the emitting side given as a role.
type c18Rule struct {
	Role string `json:"role"`
	e4mitm.Rule
}

func c18PlanRand(seed uint64, what string) *rand.Rand {
	h := fnv.New64a()
	h.Write([]byte("C18|" + what))

	return rand.New(rand.NewPCG(seed, h.Sum64()))
}

func roleName(r int) string {
	if r == roleH {
		return "H"
	}

	return "E"
}

// c18SmallSize is the size of a block transmission of a "small" single-block message
// (B item with 12 payload bytes: 1 length + 10 header + 14 body + 2 checksum).
const c18SmallSize = 27

// c18Plans enumerates the plan list (identical in every shard).
func c18Plans(seed uint64, quick bool) []c18Plan {
	r := c18PlanRand(seed, "plans")
	var ps []c18Plan
	add := func(p c18Plan) {
		p.Idx = int64(len(ps))
		var sb strings.Builder
		for i, ru := range p.Rules {
			if i > 0 {
				sb.WriteString("; ")
			}
			sb.WriteString(ru.Role + " emits " + strings.TrimPrefix(ru.Rule.String(), fmt.Sprintf("side%d ", ru.Rule.From)))
		}
		if p.Gate {
			sb.WriteString(" +gate")
		}
		p.Desc = sb.String()
		ps = append(ps, p)
	}
	rule := func(role int, on string, nth int, op string) c18Rule {
		return c18Rule{Role: roleName(role), Rule: e4mitm.Rule{From: role, On: on, Nth: nth, Op: op}}
	}
	msgsFor := func(role int, mine, other []int) [2][]int {
		var m [2][]int
		m[role], m[1-role] = mine, other

		return m
	}
	chars := map[string]byte{e4mitm.OnENQ: e4.ENQ, e4mitm.OnEOT: e4.EOT, e4mitm.OnACK: e4.ACK, e4mitm.OnNAK: e4.NAK}

	// A. flip: every position of a small block transmission, both directions (the faulted transmission is
	// the first transmission of the sender's 2nd message)
	retries := []int{-1}
	if !quick {
		retries = []int{0, 1, 2, 3}
	}
	for _, rt := range retries {
		for role := 0; role < 2; role++ {
			for pos := 0; pos < c18SmallSize; pos++ {
				ru := rule(role, e4mitm.OnBlock, 2, e4mitm.OpFlip)
				ru.Pos, ru.Mask = pos, byte(1+r.IntN(255))
				p := c18Plan{Family: "flip", Retry: rt, HostActive: (pos+role)%2 == 0, Small: true,
					Msgs: msgsFor(role, []int{1, 1, 1}, []int{1}), Rules: []c18Rule{ru}}
				if rt < 0 {
					p.Retry = (pos + role) % 4
				}
				add(p)
			}
		}
	}
	if !quick {
		// every position of a full-size first block and of the last block of a 2-block message
		for role := 0; role < 2; role++ {
			for occ := 1; occ <= 2; occ++ {
				for pos := 0; pos < 257; pos++ {
					ru := rule(role, e4mitm.OnBlock, occ, e4mitm.OpFlip)
					ru.Pos, ru.Mask = pos, byte(1+r.IntN(255))
					add(c18Plan{Family: "flip-big", Retry: 1 + pos%3, HostActive: pos%2 == 0, Msgs: msgsFor(role, []int{2, 1}, []int{1}), Rules: []c18Rule{ru}})
				}
			}
		}
	}
	// B. dropped characters / truncation / dropped block
	for role := 0; role < 2; role++ {
		for _, k := range []int{1, 2, 3} {
			for _, pos := range []int{0, 1, 11, c18SmallSize - 3, c18SmallSize - 1} {
				if quick && (k+pos+role)%3 != 0 {
					continue
				}
				ru := rule(role, e4mitm.OnBlock, 2, e4mitm.OpDropK)
				ru.Pos, ru.K = pos, k
				add(c18Plan{Family: "dropchars", Retry: (k + pos) % 4, HostActive: k%2 == 0, Small: true, Msgs: msgsFor(role, []int{1, 1, 1}, []int{1}), Rules: []c18Rule{ru}})
			}
		}
		for _, pos := range []int{1, 5, 13, c18SmallSize - 1} {
			ru := rule(role, e4mitm.OnBlock, 2, e4mitm.OpTruncate)
			ru.Pos = pos
			add(c18Plan{Family: "truncate", Retry: pos % 4, HostActive: pos%2 == 0, Small: true, Msgs: msgsFor(role, []int{1, 1, 1}, []int{1}), Rules: []c18Rule{ru}})
		}
		for _, occ := range []int{1, 2, 3} {
			add(c18Plan{Family: "dropblock", Retry: occ, HostActive: occ%2 == 0, Msgs: msgsFor(role, []int{2, 1, 1}, []int{1}), Rules: []c18Rule{rule(role, e4mitm.OnBlock, occ, e4mitm.OpDrop)}})
		}
	}
	// C. handshake characters: drop / replace. role = the side that EMITS the character. ENQ is emitted
	// by the sender, EOT/ACK/NAK by the receiver, so the sending workload belongs to the other role for those.
	hsRetries := []int{-1}
	if !quick {
		hsRetries = []int{1, 2, 3}
	}
	for _, rt := range hsRetries {
		for role := 0; role < 2; role++ {
			for _, on := range []string{e4mitm.OnENQ, e4mitm.OnEOT, e4mitm.OnACK, e4mitm.OnNAK} {
				sender := role
				if on != e4mitm.OnENQ {
					sender = 1 - role
				}
				var ops []c18Rule
				ops = append(ops, rule(role, on, 2, e4mitm.OpDrop))
				for _, with := range []byte{e4.ENQ, e4.EOT, e4.ACK, e4.NAK, 0x00} {
					if with == chars[on] || (on == e4mitm.OnNAK && with == e4.ACK) {
						continue
					}
					ru := rule(role, on, 2, e4mitm.OpReplace)
					ru.With = with
					ops = append(ops, ru)
				}
				for oi, op := range ops {
					rules := []c18Rule{op}
					if on == e4mitm.OnNAK {
						// provoke NAKs: corrupt the first transmission of the sender's 1st and 2nd message
						rules[0].Nth = 1
						fl := rule(sender, e4mitm.OnBlock, 1, e4mitm.OpFlip)
						fl.Pos, fl.Mask = 12, 0x40
						rules = append([]c18Rule{fl}, rules...)
					}
					p := c18Plan{Family: "handshake-" + on, Retry: rt, HostActive: (oi+role)%2 == 0, Msgs: msgsFor(sender, []int{1, 2, 1}, []int{1}), Rules: rules}
					if rt < 0 {
						p.Retry = 1 + (oi+role)%3
					}
					add(p)
				}
			}
		}
	}
	// D. delays beyond T2 / T1
	for role := 0; role < 2; role++ {
		for _, on := range []string{e4mitm.OnENQ, e4mitm.OnEOT, e4mitm.OnACK, e4mitm.OnBlock} {
			sender := role
			if on == e4mitm.OnEOT || on == e4mitm.OnACK {
				sender = 1 - role
			}
			for _, nth := range []int{1, 2} {
				ru := rule(role, on, nth, e4mitm.OpDelay)
				ru.Delay = c18T2 * 16 / 10
				add(c18Plan{Family: "delay-" + on, Retry: 1 + (nth+role)%3, HostActive: role == 0, Msgs: msgsFor(sender, []int{2, 3, 1}, []int{1}), Rules: []c18Rule{ru}})
			}
		}
		for _, pos := range []int{0, 100} {
			ru := rule(role, e4mitm.OnBlock, 2, e4mitm.OpDelayMid)
			ru.Pos, ru.Delay = pos, 3*c18T1
			add(c18Plan{Family: "delay-midblock", Retry: 2, HostActive: pos == 0, Msgs: msgsFor(role, []int{2, 2, 1}, []int{1}), Rules: []c18Rule{ru}})
		}
	}
	// D2. a late grant followed by one corrupted block: the receiver's EOT for the sender's n-th request
	// is held 1.6xT2, and one later block transmission of the same multi-block message is corrupted
	for role := 0; role < 2; role++ {
		for _, nth := range []int{1, 2} {
			for _, occ := range []int{3, 4, 5} {
				if false && quick {
					continue
				}
				de := rule(1-role, e4mitm.OnEOT, nth, e4mitm.OpDelay)
				de.Delay = c18T2 * 16 / 10
				fl := rule(role, e4mitm.OnBlock, occ, e4mitm.OpFlip)
				fl.Pos, fl.Mask = 20+occ, 0x10
				add(c18Plan{Family: "late-grant+corrupt", Retry: 2 + (nth+occ)%2, HostActive: (nth+role)%2 == 0, Msgs: msgsFor(role, []int{4, 2}, nil), Rules: []c18Rule{de, fl}})
			}
		}
	}
	// E. persistent faults: exhaust the retry limit
	for role := 0; role < 2; role++ {
		for rt := 0; rt < 4; rt++ {
			if quick && (rt+role)%2 == 1 {
				continue
			}
			fl := rule(role, e4mitm.OnBlock, 2, e4mitm.OpFlip)
			fl.Pos, fl.Mask, fl.Count = 3+rt, 0x21, -1
			add(c18Plan{Family: "persist-corrupt", Retry: rt, HostActive: rt%2 == 0, Msgs: msgsFor(role, []int{1, 2, 1}, []int{1, 1}), Rules: []c18Rule{fl}})
			da := rule(1-role, e4mitm.OnACK, 2, e4mitm.OpDrop)
			da.Count = -1
			add(c18Plan{Family: "persist-drop-ack", Retry: rt, HostActive: rt%2 == 1, Msgs: msgsFor(role, []int{1, 2, 1}, []int{1}), Rules: []c18Rule{da}})
			de := rule(1-role, e4mitm.OnEOT, 2, e4mitm.OpDrop)
			de.Count = rt + 1
			add(c18Plan{Family: "persist-drop-eot", Retry: rt, HostActive: rt%2 == 0, Msgs: msgsFor(role, []int{1, 1, 1}, []int{1}), Rules: []c18Rule{de}})
		}
	}
	// E2. a contention yield in which the master's block is lost, inside a run of NAKed transmissions of the host's
	// own block: the failed yield must not hand the host a fresh retry budget
	for _, rt := range []int{1, 2, 3} {
		for _, ecount := range []int{1, 2} {
			// the equipment starts late, so that the host has had NAKed transmissions of its own when the contention comes
			for _, skew := range []int{30, 60, 90, 0} {
				if quick && (rt == 1 || skew == 0) {
					continue
				}
				hf := rule(roleH, e4mitm.OnBlock, 1, e4mitm.OpFlip)
				hf.Pos, hf.Mask, hf.Count = 14, 0x21, -1
				ef := rule(roleE, e4mitm.OnBlock, 1, e4mitm.OpFlip)
				ef.Pos, ef.Mask, ef.Count = 15, 0x12, ecount
				p := c18Plan{Family: "failed-yield", Retry: rt, HostActive: (rt+ecount)%2 == 0, Simul: true, Skew: skew, Rules: []c18Rule{hf, ef}}
				p.Msgs[roleH], p.Msgs[roleE] = []int{1}, []int{1}
				add(p)
			}
		}
	}
	// E3. a slow line: every request of the sender is forwarded 100 ms late (well inside T2 = 250 ms, nothing times
	// out, nothing is retransmitted), T4 = 400 ms. A 6-block message then takes > T4 from its first to its last block
	// while every inter-block gap stays near 100 ms: T4 is an INTER-block timer, the message must arrive.
	for role := 0; role < 2; role++ {
		for _, ha := range []bool{true, false} {
			de := rule(role, e4mitm.OnENQ, 1, e4mitm.OpDelay)
			de.Delay, de.Count = 100*time.Millisecond, -1
			p := c18Plan{Family: "slow-line", Retry: 2, HostActive: ha, T4ms: 400, Rules: []c18Rule{de}}
			p.Msgs[role] = []int{6, 1}
			add(p)
		}
	}
	// E4. a character-paced line and a length character corrupted DOWNWARDS: the receiver takes a prefix of the block
	// for the block, finds the checksum wrong and must keep listening until the line has been silent for T1 before it
	// answers NAK. The rest of the block follows 10 ms later (T1 = 400 ms here, T2 = 1.5 s): it is still part of the
	// bad transmission, not line traffic - although it contains an ENQ followed by the image of a valid block.
	for role := 0; role < 2; role++ {
		for ki, k := range []int{126, 60, 200} {
			sh := rule(role, e4mitm.OnBlock, 1, e4mitm.OpShorten)
			sh.K, sh.Delay = k, 10*time.Millisecond
			p := c18Plan{Family: "shorten-length", Retry: 2 + ki%2, HostActive: (role+ki)%2 == 0, T1ms: 400, T2ms: 1500, Phantom: true, Rules: []c18Rule{sh}}
			p.Msgs = msgsFor(role, []int{2, 1}, []int{1})
			add(p)
		}
	}
	// F. contention without any other fault
	nCont := 32
	if !quick {
		nCont = 200
	}
	for i := 0; i < nCont; i++ {
		p := c18Plan{Family: "contention", Retry: i % 4, HostActive: i%2 == 0, Simul: true, Gate: true, Gates: 1 + r.IntN(3)}
		p.Msgs[roleH] = []int{1 + i%4, 1 + r.IntN(4)}
		p.Msgs[roleE] = []int{1 + (i/4)%4, 1 + r.IntN(4)}
		p.Skew = []int{0, 0, 1, -1, 3, -3}[r.IntN(6)]
		add(p)
	}
	// G. compositions
	nComp := 110
	if !quick {
		nComp = 1800
	}
	for i := 0; i < nComp; i++ {
		p := c18Plan{Family: "compose", Retry: r.IntN(4), HostActive: r.IntN(2) == 0, Simul: r.IntN(2) == 0}
		for role := 0; role < 2; role++ {
			n := 1 + r.IntN(3)
			for j := 0; j < n; j++ {
				p.Msgs[role] = append(p.Msgs[role], 1+r.IntN(4))
			}
		}
		if r.IntN(3) == 0 {
			p.Gate, p.Gates = true, 1+r.IntN(2)
		}
		nr := 2 + r.IntN(3)
		for j := 0; j < nr; j++ {
			role := r.IntN(2)
			on := []string{e4mitm.OnBlock, e4mitm.OnBlock, e4mitm.OnENQ, e4mitm.OnEOT, e4mitm.OnACK}[r.IntN(5)]
			ru := rule(role, on, 1+r.IntN(4), "")
			if on == e4mitm.OnBlock {
				ru.Op = []string{e4mitm.OpFlip, e4mitm.OpFlip, e4mitm.OpDropK, e4mitm.OpTruncate, e4mitm.OpDrop, e4mitm.OpDelay, e4mitm.OpDelayMid}[r.IntN(7)]
				ru.Pos, ru.Mask, ru.K = r.IntN(257), byte(1+r.IntN(255)), 1+r.IntN(4)
				ru.Delay = c18T2 * 16 / 10
				if ru.Op == e4mitm.OpDelayMid {
					ru.Delay = 3 * c18T1
				}
				if ru.Op == e4mitm.OpTruncate && ru.Pos == 0 {
					ru.Pos = 1
				}
			} else {
				ru.Op = []string{e4mitm.OpDrop, e4mitm.OpReplace, e4mitm.OpDelay}[r.IntN(3)]
				ru.Delay = c18T2 * 16 / 10
				for {
					ru.With = []byte{e4.ENQ, e4.EOT, e4.ACK, e4.NAK, 0x00, 0xFF}[r.IntN(6)]
					if ru.With != chars[on] {
						break
					}
				}
			}
			if r.IntN(6) == 0 {
				ru.Count = 2
			}
			p.Rules = append(p.Rules, ru)
		}
		add(p)
	}

	return ps
}

func c18Worker(env *fw.Env) {
	s1Quiet()
	plans := c18Plans(env.Seed, env.Quick())
	for i := range plans {
		idx := int64(i)
		if !env.Mine(idx) || !env.Want(idx) {
			continue
		}
		if env.Stop() {
			return
		}
		p := plans[i]
		env.Begin(idx, p)
		sc := c18Run(env, &p)
		if sc.setupErr != "" {
			env.Note("plan %d: setup failed: %s", idx, sc.setupErr)
			env.Discard()

			continue
		}
		// A send that fails in a contention scenario WITHOUT any injected fault means the contention did
		// not resolve — unless the machine was so loaded that T2 expired (retry limit+1) times. The two are
		// told apart by re-execution: a defect reproduces, a load spike does not (no clock in the verdict).
		final := true
		if p.Family == "contention" && c18FailedSends(sc) > 0 && !sc.hung {
			for rep := 0; rep < 2; rep++ {
				c18Judge(env, &p, sc, false)
				env.Event("contention_reruns", 1)
				sc = c18Run(env, &p)
				if sc.setupErr != "" {
					final = false

					break
				}
				if c18FailedSends(sc) == 0 {
					break
				}
			}
		}
		if final {
			c18Judge(env, &p, sc, true)
		}
	}
}

// ---------------------------------------------------------------------------------------------

type c18Send struct {
	Role     int
	Idx      int
	Blocks   int
	S, F     uint8
	Body     []byte // expected SECS-II body
	Token    string
	Returned bool
	Err      string
	Call     time.Duration
	Ret      time.Duration
	Reestab  bool // after a failed send the connection came back to Selected
}

type c18Scenario struct {
	setupErr string
	sends    [2][]*c18Send
	got      [2][]s1Delivery // deliveries AT role
	hist     []e4mitm.Ev
	applied  map[int]int
	gateHits int
	hung     bool
	dump     string
	side     [2]int // role -> mitm side
	metrics  [2]string
	yields   uint64
	dupDrops uint64
	sendFail uint64
	finalSel [2]bool
	altered  []string // delivered messages that no longer say what they said in the handler
	splitGaps []time.Duration // shorten plans: measured time between the head and the tail of the shortened block
	off      time.Duration // c18Send.Call/Ret + off = the same instant on the history's clock (Ev.T)
}

func c18Payload(r *rand.Rand, idx int64, role, n, blocks int, small bool) (payload, body []byte) {
	var total int
	if small {
		total = 14 // B header (2) + 12 payload bytes -> block transmission of c18SmallSize characters
	} else {
		last := 12 + r.IntN(e4.MaxBody-11) // 12..244: never 11 (length byte would equal NAK)
		if r.IntN(4) == 0 {
			last = e4.MaxBody
		}
		total = (blocks-1)*e4.MaxBody + last
		if total == 258 { // no Binary item encodes to exactly 258 bytes
			total = 259
		}
	}
	hdr := 2
	if total > 257 {
		hdr = 3
	}
	payload = make([]byte, total-hdr)
	for i := range payload {
		switch {
		case small:
			payload[i] = byte(0x30 + i)
		default:
			payload[i] = byte(r.IntN(256))
		}
	}
	tok := fmt.Sprintf("%05x%c%02x", idx&0xFFFFF, "HE"[role], n) // 8 characters, unique per message
	copy(payload, tok)
	if hdr == 2 {
		body = append([]byte{0x21, byte(len(payload))}, payload...)
	} else {
		body = append([]byte{0x22, byte(len(payload) >> 8), byte(len(payload))}, payload...)
	}

	return payload, body
}

func c18Run(env *fw.Env, p *c18Plan) *c18Scenario {
	sc := &c18Scenario{}
	r := env.RandAt("c18", p.Idx)
	// role -> mitm side: side 0 is the TCP-active end
	if p.HostActive {
		sc.side = [2]int{roleH: 0, roleE: 1}
	} else {
		sc.side = [2]int{roleH: 1, roleE: 0}
	}
	activeRole, passiveRole := roleH, roleE
	if !p.HostActive {
		activeRole, passiveRole = roleE, roleH
	}
	var ends [2]*s1End
	mk := func(role int, active bool, port int) (*s1End, error) {
		t4 := c18T4
		if p.T4ms > 0 {
			t4 = time.Duration(p.T4ms) * time.Millisecond
		}

		t1, t2 := c18T1, c18T2
		if p.T1ms > 0 {
			t1 = time.Duration(p.T1ms) * time.Millisecond
		}
		if p.T2ms > 0 {
			t2 = time.Duration(p.T2ms) * time.Millisecond
		}

		return s1New(s1Opts{Equip: role == roleE, Dev: 7, Active: active, Port: port, T1: t1, T2: t2, T4: t4, Retry: p.Retry})
	}
	pe, err := mk(passiveRole, false, 0)
	if err != nil {
		sc.setupErr = err.Error()

		return sc
	}
	ends[passiveRole] = pe
	if err := pe.Open(); err != nil {
		sc.setupErr = "open passive: " + err.Error()
		pe.Close()

		return sc
	}
	mp := e4mitm.Plan{}
	for _, ru := range p.Rules {
		mr := ru.Rule
		mr.From = sc.side[ru.Rule.From]
		mp.Rules = append(mp.Rules, mr)
	}
	if p.Gate {
		mp.Gate, mp.Gates = c18T2/3, p.Gates
	}
	mitm, err := e4mitm.New(s1Loop, mp, pe.ListenPort)
	if err != nil {
		sc.setupErr = "mitm: " + err.Error()
		pe.Close()

		return sc
	}
	ae, err := mk(activeRole, true, mitm.Port())
	if err == nil {
		ends[activeRole] = ae
		err = ae.Open()
	}
	if err != nil || !pe.WaitSelected(15*time.Second) || !ae.WaitSelected(15*time.Second) {
		sc.setupErr = fmt.Sprintf("open active / select: %v", err)
		if ae != nil {
			ae.Close()
		}
		pe.Close()
		mitm.Close()

		return sc
	}

	// workload
	base := time.Now()
	sc.off = base.Sub(mitm.Base())
	for role := 0; role < 2; role++ {
		for n, blocks := range p.Msgs[role] {
			payload, body := c18Payload(r, p.Idx, role, n, blocks, p.Small)
			if p.Phantom && n == 0 && len(p.Rules) > 0 && p.Rules[0].Role == roleName(role) && len(body) > 230 {
				// an ENQ and the image of a valid single-block S5F1 for the receiver, inside the first block's body
				ph := e4.Block{Header: e4.Header{Device: 7, R: role == roleE, Stream: 5, Function: 1, E: true, Block: 1, System: [4]byte{0xFA, 0x17, byte(p.Idx >> 8), byte(p.Idx)}}, Body: []byte{0x41, 0x01, 'P'}}
				copy(body[210:], append([]byte{e4.ENQ}, ph.Wire()...))
			}
			_ = payload
			sc.sends[role] = append(sc.sends[role], &c18Send{Role: role, Idx: n, Blocks: blocks, S: uint8(1 + r.IntN(100)), F: uint8(1 + 2*r.IntN(100)), Body: body, Token: string(body[len(body)-len(payload):][:8])})
		}
	}
	start := make(chan struct{})
	var wg sync.WaitGroup
	var smu sync.Mutex
	for role := 0; role < 2; role++ {
		wg.Add(1)
		go func(role int) {
			defer wg.Done()
			<-start
			if p.Simul {
				if role == roleE && p.Skew > 0 {
					time.Sleep(time.Duration(p.Skew) * time.Millisecond)
				}
				if role == roleH && p.Skew < 0 {
					time.Sleep(time.Duration(-p.Skew) * time.Millisecond)
				}
			} else if role == roleE {
				time.Sleep(2 * time.Millisecond)
			}
			for _, s := range sc.sends[role] {
				hdrLen := 2
				if len(s.Body) > 257 {
					hdrLen = 3
				}
				item := secs2.B(s.Body[hdrLen:])
				ctx, cancel := context.WithTimeout(context.Background(), 40*time.Second)
				closedBefore := mitm.Closed()
				call := time.Since(base)
				_, err := ends[role].Conn.SendDataMessage(ctx, s.S, s.F, false, item)
				cancel()
				smu.Lock()
				s.Call, s.Ret, s.Returned = call, time.Since(base), true
				if err != nil {
					s.Err = err.Error()
				}
				smu.Unlock()
				if err != nil {
					if strings.Contains(err.Error(), "retries exhausted") {
						// the library now tears this TCP generation down; wait for that (best effort) so the
						// next send is not squeezed into the dying generation
						for t0 := time.Now(); mitm.Closed() == closedBefore && time.Since(t0) < 5*time.Second; {
							time.Sleep(2 * time.Millisecond)
						}
					}
					ok := ends[role].WaitSelected(15 * time.Second)
					if !ok {
						buf := make([]byte, 1<<20)
						buf = buf[:runtime.Stack(buf, true)]
						info := fmt.Sprintf("role %s not Selected 15 s after a failed send; states: H=%v E=%v; passive listen port now %d (listeners created %d)\n\n",
							roleName(role), ends[roleH].Conn.State(), ends[roleE].Conn.State(), pe.ListenPort(), pe.lns.Load())
						_ = os.WriteFile(filepath.Join(env.OutDir, fmt.Sprintf("c18-noreestab-%d-%s.txt", p.Idx, roleName(role))), append([]byte(info), buf...), 0o644)
					}
					smu.Lock()
					s.Reestab = ok
					smu.Unlock()
				}
			}
		}(role)
	}
	close(start)
	done := make(chan struct{})
	go func() { wg.Wait(); close(done) }()
	select {
	case <-done:
	case <-time.After(45 * time.Second):
		sc.hung = true
		buf := make([]byte, 1<<20)
		buf = buf[:runtime.Stack(buf, true)]
		sc.dump = filepath.Join(env.OutDir, fmt.Sprintf("c18-hang-%d.txt", p.Idx))
		_ = os.WriteFile(sc.dump, buf, 0o644)
	}

	// quiescence: no character crossing for T2+T1+margin and every successful send delivered, or a generous bound
	quiet := c18T2 + c18T1 + 100*time.Millisecond
	if p.T1ms > 0 || p.T2ms > 0 {
		quiet = time.Duration(max(p.T1ms, int(c18T1/time.Millisecond))+max(p.T2ms, int(c18T2/time.Millisecond)))*time.Millisecond + 100*time.Millisecond
	}
	allDelivered := func() bool {
		for role := 0; role < 2; role++ {
			got := ends[1-role].Deliveries(0)
			smu.Lock()
			for _, s := range sc.sends[role] {
				if s.Returned && s.Err == "" {
					found := false
					for _, d := range got {
						if bytes.Equal(d.Body, s.Body) {
							found = true

							break
						}
					}
					if !found {
						smu.Unlock()

						return false
					}
				}
			}
			smu.Unlock()
		}

		return true
	}
	qStart := time.Now()
	for {
		idle := mitm.IdleFor()
		if idle >= quiet && allDelivered() {
			break
		}
		if idle >= quiet+1500*time.Millisecond || time.Since(qStart) > 15*time.Second {
			break
		}
		time.Sleep(10 * time.Millisecond)
	}
	for role := 0; role < 2; role++ {
		sc.finalSel[role] = ends[role].Conn.State() == hsms.SelectedState
	}
	smu.Lock()
	for role := 0; role < 2; role++ {
		sc.got[role] = ends[role].Deliveries(0)
		sc.altered = append(sc.altered, ends[role].AlteredLater()...)
		m := ends[role].Conn.BlockMetrics()
		sc.metrics[role] = s1MetricsLine(m)
		sc.dupDrops += m.BlockDupDropCount()
		sc.sendFail += m.BlockSendFailedCount()
		if role == roleH {
			sc.yields = m.ContentionYieldCount()
		}
	}
	smu.Unlock()
	sc.hist = mitm.History()
	sc.applied, sc.gateHits = mitm.Applied()
	sc.splitGaps = mitm.SplitGaps()
	ae.Close()
	pe.Close()
	mitm.Close()
	if sc.hung {
		// the senders are released by Close; give them a moment
		select {
		case <-done:
		case <-time.After(10 * time.Second):
		}
	}
	// judge a snapshot (a sender that is still stuck keeps its own records)
	smu.Lock()
	for role := 0; role < 2; role++ {
		snap := make([]*c18Send, len(sc.sends[role]))
		for i, s := range sc.sends[role] {
			cp := *s
			snap[i] = &cp
		}
		sc.sends[role] = snap
	}
	smu.Unlock()

	return sc
}

func c18HistTail(h []e4mitm.Ev, n int) string {
	var sb strings.Builder
	if len(h) > n {
		fmt.Fprintf(&sb, "…(%d earlier) ", len(h)-n)
		h = h[len(h)-n:]
	}
	for _, e := range h {
		sb.WriteString(e.String())
		sb.WriteString(" | ")
	}

	return sb.String()
}

func c18FailedSends(sc *c18Scenario) int {
	n := 0
	for role := 0; role < 2; role++ {
		for _, s := range sc.sends[role] {
			if s.Returned && s.Err != "" {
				n++
			}
		}
	}

	return n
}

// c18Judge evaluates one executed scenario. final=false (an execution that is going to be repeated)
// suppresses only the contention-send-failed verdict.
func c18Judge(env *fw.Env, p *c18Plan, sc *c18Scenario, final bool) {
	nApplied := 0
	for _, n := range sc.applied {
		nApplied += n
	}
	env.Eval(fw.HashStr("c18", fmt.Sprint(p.Idx), p.Family, p.Desc, fmt.Sprint(p.Retry), fmt.Sprint(p.Msgs), fmt.Sprint(p.HostActive)), nApplied > 0 || sc.gateHits > 0)
	env.Sample(p)
	env.Event("scenarios", 1)
	env.Event("scenarios_"+p.Family, 1)
	env.Event("rules_applied", int64(nApplied))
	for i, n := range sc.applied {
		if n > 0 && i < len(p.Rules) {
			env.Event("applied_"+p.Rules[i].Op, int64(n))
			if p.Family == "flip" || p.Family == "flip-big" {
				env.Event("flip_positions_covered", 1)
			}
		}
	}
	if p.Family == "shorten-length" {
		// premise: the rest of the block reached the receiver well inside its T1
		for _, g := range sc.splitGaps {
			if 2*g >= time.Duration(p.T1ms)*time.Millisecond {
				env.Note("plan %d [shorten-length]: the tail followed the head after %v (T1 %d ms): premise not met", p.Idx, g, p.T1ms)
				env.Discard()

				return
			}
		}
		env.Event("shortened_blocks_with_tail_inside_t1", int64(len(sc.splitGaps)))
	}
	env.Event("gate_contentions_made", int64(sc.gateHits))
	env.Event("lib_dup_drops", int64(sc.dupDrops))
	env.Event("lib_contention_yields", int64(sc.yields))
	env.Event("lib_block_send_failed", int64(sc.sendFail))

	ctxMsg := func() string {
		return fmt.Sprintf("\nplan %d [%s] retry=%d hostActive=%t msgs(H,E)=%v rules: %s\nmetrics H: %s\nmetrics E: %s\nhistory: %s",
			p.Idx, p.Family, p.Retry, p.HostActive, p.Msgs, p.Desc, sc.metrics[roleH], sc.metrics[roleE], c18HistTail(sc.hist, 70))
	}
	viol := func(key, msg string) {
		env.Violate(key, msg+ctxMsg(), p)
	}

	// --- liveness: no send call hangs
	if sc.hung {
		var stuck []string
		for role := 0; role < 2; role++ {
			for _, s := range sc.sends[role] {
				if !s.Returned {
					stuck = append(stuck, fmt.Sprintf("%s#%d(%d blocks)", roleName(role), s.Idx, s.Blocks))
				}
			}
		}
		viol("send-hang", fmt.Sprintf("send call(s) %v did not return within 45 s (goroutine dump: %s)", stuck, sc.dump))
	}

	// --- exactly once, intact, in order
	for role := 0; role < 2; role++ { // role = sender; deliveries at 1-role
		got := sc.got[1-role]
		byBody := map[string]*c18Send{}
		byTok := map[string]*c18Send{}
		for _, s := range sc.sends[role] {
			byBody[string(s.Body)] = s
			byTok[s.Token] = s
		}
		count := map[*c18Send]int{}
		lastIdx := -1
		for _, d := range got {
			s := byBody[string(d.Body)]
			if s == nil && role == roleE && d.Hdr[2]&0x7F == 9 && len(d.Body) == 12 && d.Body[0] == 0x21 && d.Body[1] == 10 {
				// the equipment's documented S9Fx notification (body = B[10] header of the offending block)
				env.Event("s9_notifications_from_equipment", 1)

				continue
			}
			if s == nil {
				// altered or unknown
				var owner *c18Send
				for tok, cand := range byTok {
					if bytes.Contains(d.Body, []byte(tok)) {
						owner = cand
					}
				}
				if owner != nil {
					viol("delivered-altered", fmt.Sprintf("%s received message %s#%d with an altered body: %d bytes delivered, %d bytes sent (first difference at %d)",
						roleName(1-role), roleName(role), owner.Idx, len(d.Body), len(owner.Body), c18FirstDiff(d.Body, owner.Body)))
				} else {
					viol("unknown-message-delivered", fmt.Sprintf("%s received a message nobody sent: S%dF%d body %s", roleName(1-role), d.Hdr[2]&0x7F, d.Hdr[3], hexClip(d.Body)))
				}

				continue
			}
			if d.Hdr[2]&0x7F != s.S || d.Hdr[3] != s.F || d.Hdr[2]&0x80 != 0 {
				viol("delivered-altered", fmt.Sprintf("%s received %s#%d as S%dF%d W=%t, sent S%dF%d W=false", roleName(1-role), roleName(role), s.Idx, d.Hdr[2]&0x7F, d.Hdr[3], d.Hdr[2]&0x80 != 0, s.S, s.F))
			}
			count[s]++
			if count[s] == 2 {
				viol("delivered-twice", fmt.Sprintf("message %s#%d (%d blocks, token %s) was delivered to %s's handlers twice", roleName(role), s.Idx, s.Blocks, s.Token, roleName(1-role)))
			}
			if count[s] == 1 {
				if s.Idx < lastIdx {
					viol("delivered-out-of-order", fmt.Sprintf("message %s#%d was delivered after %s#%d although it was sent before it", roleName(role), s.Idx, roleName(role), lastIdx))
				}
				lastIdx = s.Idx
				env.Event("deliveries_intact", 1)
			}
		}
		for _, s := range sc.sends[role] {
			switch {
			case !s.Returned:
			case s.Err == "":
				env.Event("sends_ok", 1)
				if count[s] == 0 && p.Family == "slow-line" {
					// premise of the slow-line plans: every inter-block gap stayed clearly inside T4 (a loaded machine
					// may stretch one: then the receiver discards the partial message legitimately)
					var lastT, maxGap time.Duration
					for _, ev := range sc.hist {
						if ev.Kind == e4mitm.OnBlock && ev.From == sc.side[role] {
							if lastT > 0 && ev.T-lastT > maxGap {
								maxGap = ev.T - lastT
							}
							lastT = ev.T
						}
					}
					if maxGap*2 >= time.Duration(p.T4ms)*time.Millisecond {
						env.Note("plan %d [slow-line]: an inter-block gap of %v (T4 %d ms): premise not met", p.Idx, maxGap, p.T4ms)
						env.Discard()

						return
					}
				}
				if count[s] == 0 {
					key, why := "successful-send-not-delivered", ""
					if shape := c18UnackedBlock(sc, role, s); shape != "" {
						// the known finding (F12) is about characters ALREADY IN FLIGHT: it needs a late character on the
						// line (an applied delay that can outlast a wait, or a re-request after a forwarded grant).
						// Without one, a block that was never acknowledged and still counted as sent is something else.
						if late := c18LateCharacters(p, sc); late != "" {
							key, why = "successful-send-not-delivered:stale-control-character", " — "+shape+" ["+late+"]"
						} else {
							key, why = "successful-send-not-delivered:block-never-acknowledged", " — "+strings.Replace(shape, "(a control character that was already in flight was taken as this block's ACK)", "(and no character was late on this line: what the sender took for the ACK was not one)", 1)
						}
					} else if td := c18AckedThenClosed(sc, role, s); td != "" {
						key, why = "successful-send-not-delivered:acked-during-link-teardown", " — "+td
					} else if late := c18LateCharacters(p, sc); late != "" {
						key, why = "successful-send-not-delivered:stale-control-character", " — the line carried late characters before the loss ("+late+"); a control character that was already in flight was taken as the answer to a later handshake step"
					}
					viol(key, fmt.Sprintf("send of %s#%d (%d blocks, token %s) returned nil at %s but the message never reached %s's handlers%s",
						roleName(role), s.Idx, s.Blocks, s.Token, s.Ret.Round(time.Millisecond), roleName(1-role), why))
				}
			default:
				env.Event("sends_failed", 1)
				if count[s] > 0 {
					env.Event("failed_sends_delivered_once", 1)
				}
				if strings.Contains(s.Err, "retries exhausted") {
					env.Event("send_failed_retries_exhausted", 1)
				}
				if p.Family == "contention" && final {
					viol("contention-send-failed", fmt.Sprintf("no fault was injected, yet send %s#%d failed (%s) in three consecutive executions of this contention scenario: the contention did not resolve", roleName(role), s.Idx, s.Err))
				}
				if !s.Reestab {
					viol("link-not-reestablished", fmt.Sprintf("after send %s#%d failed (%s) the connection did not return to Selected within 15 s (state and goroutine dump: %s)", roleName(role), s.Idx, s.Err,
						filepath.Join(env.OutDir, fmt.Sprintf("c18-noreestab-%d-%s.txt", p.Idx, roleName(role)))))
				}
			}
		}
	}

	// "no message is ever ... altered": a delivered message that the application retained still says what it said
	for k, a := range sc.altered {
		if k == 0 {
			viol("delivered-message-altered-later", fmt.Sprintf("%d delivered message(s) changed after delivery (the receiver re-used memory that a delivered message still refers to); first: %s", len(sc.altered), a))
		}
	}

	// --- history oracles
	gens := 0
	type sideState struct {
		pending  int    // ENQs emitted since the last block emission / EOT emission
		attempts int    // ENQs that preceded the emissions of the current block
		cur      string // identity of the block emitted last
		haveCur  bool
		distinct int // distinct blocks emitted in this generation
		acks     int // ACK characters handed to this end in this generation
		// a contention yield is open (this end emitted EOT while its own block was unacknowledged); the counts it
		// interrupted are kept: the postponed send starts over only if the yield RECEIVED the other end's block
		yieldOpen                    bool
		savedPending, savedAttempts int
	}
	var st [2]sideState // by mitm side
	roleOfSide := func(side int) int {
		if sc.side[roleH] == side {
			return roleH
		}

		return roleE
	}
	seenBlocks := map[string]int{}
	limit := p.Retry + 1
	// A send that failed is followed by a teardown, but a further send call may still be squeezed into
	// the dying generation: an ENQ-only run may therefore span (failed sends + 1) send calls.
	var enqLimit [2]int // by side
	for role := 0; role < 2; role++ {
		f := 0
		for _, s := range sc.sends[role] {
			if s.Returned && s.Err != "" {
				f++
			}
		}
		// (only a send call that FOLLOWS a failed one can be squeezed in: at most len-1 of them)
		enqLimit[sc.side[role]] = limit * (min(f, max(len(sc.sends[role])-1, 0)) + 1)
	}
	flagged := false
	var granted [2]bool // by side: this end has emitted EOT and not yet answered the block it asked for
	for i, ev := range sc.hist {
		// An end can only have finished as many blocks as it was handed ACK characters. While it has
		// emitted more distinct blocks than that, its current block is certainly still unacknowledged.
		if ev.Fwd == 1 && ev.Out == e4.ACK && (ev.Kind == e4mitm.OnENQ || ev.Kind == e4mitm.OnEOT || ev.Kind == e4mitm.OnACK || ev.Kind == e4mitm.OnNAK) {
			st[1-ev.From].acks++
		}
		// A block transmission that reaches an end which has NOT granted the line (a collision: late or delayed
		// characters made both ends transmit) is a run of arbitrary characters to that end: every 06 in it may be
		// taken as the ACK it is waiting for. (Seen once in a thorough run: the equipment went on to its next block
		// on a 06 inside the host's colliding block.) Delivery order is only known for undelayed forwards.
		if ev.Kind == e4mitm.OnBlock && ev.Fwd > 0 && (!granted[1-ev.From] || strings.Contains(ev.Fault, "delay")) {
			n := bytes.Count(ev.Raw, []byte{e4.ACK})
			if ev.Fault != "" {
				n++ // a changed character may have become one
			}
			st[1-ev.From].acks += n
			if n > 0 {
				env.Event("colliding_blocks_with_ack_characters", 1)
			}
		}
		switch ev.Kind {
		case "OPEN":
			granted = [2]bool{}
		case e4mitm.OnEOT:
			granted[ev.From] = true
		case e4mitm.OnACK, e4mitm.OnNAK:
			granted[ev.From] = false
		}
		switch ev.Kind {
		case "OPEN":
			gens++
			st = [2]sideState{}
		case "JUNK":
			viol("unexpected-character-emitted", fmt.Sprintf("%s emitted character %02x outside a block transmission (event %d)", roleName(roleOfSide(ev.From)), ev.Char, ev.Seq))
		case e4mitm.OnENQ:
			s := &st[ev.From]
			s.pending++
			over := s.pending > enqLimit[ev.From]
			if s.haveCur && s.acks < s.distinct && s.attempts+s.pending > enqLimit[ev.From] {
				over = true
			}
			if over && !flagged {
				flagged = true
				viol("attempts-exceed-retry-limit", fmt.Sprintf("%s requested the line %d time(s) (after %d transmission attempt(s) of the current block) without an intervening ACK or yield; retry limit %d allows %d attempts (event %d)",
					roleName(roleOfSide(ev.From)), s.pending, s.attempts, p.Retry, limit, ev.Seq))
			}
		case e4mitm.OnEOT:
			// a yield (or an idle grant): the postponed send starts over as a new request. The block it
			// re-sends counts as a new distinct block only if it differs from the current one, so give
			// the ACK bookkeeping the benefit of the doubt.
			s := &st[ev.From]
			if s.pending > 0 && s.haveCur && s.acks < s.distinct { // its own ENQ is outstanding: a contention yield, not an idle grant
				s.yieldOpen, s.savedPending, s.savedAttempts = true, s.pending, s.attempts
			}
			s.pending, s.attempts = 0, 0
		case e4mitm.OnACK:
			st[ev.From].yieldOpen = false // the block taken during the yield was received: the restart stands
		case e4mitm.OnNAK:
			// the yield received nothing (lost or corrupted block): it was one more attempt of the postponed block,
			// not a new beginning (E4 7.8.2.1 restarts the count for a block that was POSTPONED by a completed receive)
			if s := &st[ev.From]; s.yieldOpen {
				s.yieldOpen = false
				s.pending += s.savedPending
				s.attempts += s.savedAttempts
				env.Event("failed_contention_yields_seen", 1)
			}
		case e4mitm.OnBlock:
			s := &st[ev.From]
			if !ev.Valid {
				viol("invalid-block-emitted", fmt.Sprintf("%s emitted a block transmission that is not a valid E4 block: %s (event %d)", roleName(roleOfSide(ev.From)), hexClip(ev.Raw), ev.Seq))

				continue
			}
			h := ev.Hdr.Pack()
			id := fmt.Sprintf("%d/%x", ev.From, h)
			if seenBlocks[id] > 0 {
				env.Event("retransmissions_seen", 1)
			}
			seenBlocks[id]++
			if s.haveCur && s.cur == id {
				s.attempts += s.pending
			} else {
				s.cur, s.haveCur, s.attempts = id, true, s.pending
				s.distinct++
			}
			s.pending = 0
			if s.attempts > limit && !flagged {
				flagged = true
				viol("attempts-exceed-retry-limit", fmt.Sprintf("%s made %d attempts for block %d of message sys=%x since its last yield; retry limit %d allows %d (event %d)",
					roleName(roleOfSide(ev.From)), s.attempts, ev.Hdr.Block, ev.Hdr.System, p.Retry, limit, ev.Seq))
			}
			if s.attempts == limit {
				env.Event("blocks_at_attempt_limit", 1)
			}
		}
		_ = i
	}
	if gens > 1 {
		env.Event("reconnects", int64(gens-1))
	}
	if sc.sendFail > 0 {
		env.Event("retry_exhaustions_seen", int64(sc.sendFail))
	}

	// contention: ENQ outstanding from both ends before any EOT -> the next block on the line is the equipment's
	if len(p.Rules) == 0 {
		var out [2]bool // by side: an ENQ was emitted and not yet answered/abandoned
		eSide := sc.side[roleE]
		for i, ev := range sc.hist {
			switch ev.Kind {
			case "OPEN":
				out = [2]bool{}
			case e4mitm.OnENQ:
				out[ev.From] = true
				if out[1-ev.From] {
					env.Event("contentions_observed", 1)
					for _, nx := range sc.hist[i+1:] {
						if nx.Kind == "OPEN" || nx.Kind == "CLOSE" {
							break
						}
						if nx.Kind == e4mitm.OnBlock {
							if nx.From != eSide {
								viol("contention-host-block-first", fmt.Sprintf("after ENQ from both ends (event %d) the next block on the line came from the host (event %d), not from the equipment (master)", ev.Seq, nx.Seq))
							} else {
								env.Event("contentions_master_first", 1)
							}

							break
						}
					}
					out = [2]bool{}
				}
			case e4mitm.OnEOT:
				out = [2]bool{}
			case e4mitm.OnBlock:
				out[ev.From] = false
			}
		}
	}
}

// c18UnackedBlock looks for the history shape "the sender went on after a block transmission that
// the receiver never acknowledged": for the message carrying s.Token, some block's LAST transmission
// is followed (before the sender's next block transmission) by no ACK emitted by the receiver.
func c18UnackedBlock(sc *c18Scenario, role int, s *c18Send) string {
	side := sc.side[role]
	var sys [4]byte
	found := false
	for _, ev := range sc.hist {
		if ev.Kind == e4mitm.OnBlock && ev.From == side && ev.Valid && ev.Hdr.Block == 1 && bytes.Contains(ev.Raw, []byte(s.Token)) {
			sys, found = ev.Hdr.System, true
		}
	}
	if !found {
		return ""
	}
	last := map[uint16]int{}
	intact := map[uint16]int{} // transmissions the middlebox forwarded unharmed
	total := map[uint16]int{}
	for i, ev := range sc.hist {
		if ev.Kind == e4mitm.OnBlock && ev.From == side && ev.Valid && ev.Hdr.System == sys {
			last[ev.Hdr.Block] = i
			total[ev.Hdr.Block]++
			if ev.Fault == "" || strings.Contains(ev.Fault, "delay") {
				intact[ev.Hdr.Block]++
			}
		}
	}
	// shape A: no intact copy of some block ever reached the receiver, so it cannot have ACKed it
	for blk, n := range total {
		if intact[blk] == 0 {
			return fmt.Sprintf("all %d transmission(s) of block %d were corrupted or dropped by the middlebox, so the receiver cannot have acknowledged that block, yet the sender went on and the send returned nil (a control character that was already in flight was taken as this block's ACK)", n, blk)
		}
	}
	// shape B: the receiver's next answer after the last transmission of some block is not an ACK
	for blk, i := range last {
		resp := "nothing"
		for _, nx := range sc.hist[i+1:] {
			if nx.Kind == "CLOSE" || nx.Kind == "OPEN" || (nx.Kind == e4mitm.OnBlock && nx.From == side) {
				break
			}
			if nx.From != side && (nx.Kind == e4mitm.OnACK || nx.Kind == e4mitm.OnNAK) {
				resp = nx.Kind

				break
			}
		}
		if resp != e4mitm.OnACK {
			return fmt.Sprintf("the receiver answered the last transmission of block %d (event %d) with %s, yet the sender treated the block as acknowledged (a control character that was already in flight was taken as this block's ACK)", blk, sc.hist[i].Seq, resp)
		}
	}

	return ""
}

// c18AckedThenClosed looks for the history shape "the receiver ACKed the final block of the message
// on the line and the TCP generation was torn down right afterwards": the block-level ACK told the
// sender the message had arrived, but the receiving connection was already tearing the link down
// (for instance after its own send exhausted the retry limit) and dropped the completed message.
func c18AckedThenClosed(sc *c18Scenario, role int, s *c18Send) string {
	side := sc.side[role]
	lastTx := -1
	for i, ev := range sc.hist {
		if ev.Kind == e4mitm.OnBlock && ev.From == side && ev.Valid && ev.Hdr.E && ev.Fault == "" {
			// the E-bit block of the message: for a single-block message it carries the token, otherwise match by system bytes
			if bytes.Contains(ev.Raw, []byte(s.Token)) {
				lastTx = i
			}
		}
	}
	if lastTx < 0 { // multi-block: find the system bytes through block 1, then the E-bit block
		var sys [4]byte
		found := false
		for _, ev := range sc.hist {
			if ev.Kind == e4mitm.OnBlock && ev.From == side && ev.Valid && ev.Hdr.Block == 1 && bytes.Contains(ev.Raw, []byte(s.Token)) {
				sys, found = ev.Hdr.System, true
			}
		}
		for i, ev := range sc.hist {
			if found && ev.Kind == e4mitm.OnBlock && ev.From == side && ev.Valid && ev.Hdr.E && ev.Hdr.System == sys && ev.Fault == "" {
				lastTx = i
			}
		}
	}
	if lastTx < 0 {
		return ""
	}
	acked := -1
	for i := lastTx + 1; i < len(sc.hist); i++ {
		ev := sc.hist[i]
		if ev.Kind == "OPEN" {
			return ""
		}
		if acked < 0 && ev.From != side && ev.Kind == e4mitm.OnACK && ev.Fwd == 1 && ev.Out == e4.ACK {
			acked = i
		}
		if ev.Kind == "CLOSE" {
			if acked < 0 {
				return ""
			}
			// this shape names ONE mechanism: the receiving connection had already begun to tear its link down
			// (its own send had exhausted the retries) when it ACKed the block. A close that merely follows
			// later in the history is not that.
			tearing := false
			for _, rs := range sc.sends[1-role] {
				if rs.Returned && strings.Contains(rs.Err, "retries exhausted") && rs.Ret+sc.off <= sc.hist[acked].T+100*time.Millisecond {
					tearing = true
				}
			}
			if !tearing {
				return ""
			}
			closer := "receiver"
			if ev.From == side {
				closer = "sender"
			}

			return fmt.Sprintf("the receiver ACKed the final block (event %d, ACK event %d) and the TCP generation was closed by the %s's end %d ms later (event %d): the message was acknowledged on the line but dropped inside the receiving connection, which was tearing the link down",
				sc.hist[lastTx].Seq, sc.hist[acked].Seq, closer, (ev.T - sc.hist[acked].T).Milliseconds(), ev.Seq)
		}
	}

	return ""
}

// c18LateCharacters reports evidence that control characters reached an endpoint later than that
// endpoint was prepared to wait for them: a delay rule that was applied, or an endpoint that
// re-requested the line (ENQ, ENQ without a block or a yield in between) although the other end had
// emitted a grant that the middlebox forwarded.
func c18LateCharacters(p *c18Plan, sc *c18Scenario) string {
	for i, n := range sc.applied {
		// a delay makes a character LATE only if it can outlast the wait it falls into: T2 for a handshake character or
		// a whole block (two delays may add up inside one round trip, hence the factor 2), T1 inside a block
		late := i < len(p.Rules) && ((p.Rules[i].Op == e4mitm.OpDelay && 2*p.Rules[i].Delay > c18T2) || (p.Rules[i].Op == e4mitm.OpDelayMid && p.Rules[i].Delay > c18T1))
		if n > 0 && late {
			return "rule: " + p.Rules[i].Role + " " + p.Rules[i].Rule.String()
		}
	}
	var enq, grant [2]bool // by side: an ENQ is outstanding / a grant for it was forwarded
	for _, ev := range sc.hist {
		switch ev.Kind {
		case "OPEN":
			enq, grant = [2]bool{}, [2]bool{}
		case e4mitm.OnENQ:
			if enq[ev.From] && grant[ev.From] {
				return fmt.Sprintf("event %d: side %d requested the line again although a grant for its previous request had been forwarded", ev.Seq, ev.From)
			}
			enq[ev.From], grant[ev.From] = true, false
		case e4mitm.OnBlock:
			enq[ev.From], grant[ev.From] = false, false
		case e4mitm.OnEOT:
			enq[ev.From], grant[ev.From] = false, false // a yield abandons the own request
			if ev.Fwd == 1 && ev.Out == e4.EOT && enq[1-ev.From] {
				grant[1-ev.From] = true
			}
		}
	}

	return ""
}

func c18FirstDiff(a, b []byte) int {
	n := len(a)
	if len(b) < n {
		n = len(b)
	}
	for i := 0; i < n; i++ {
		if a[i] != b[i] {
			return i
		}
	}

	return n
}
