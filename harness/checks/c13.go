package checks

import (
	"bytes"
	"fmt"
	"math"
	"sort"
	"strconv"
	"strings"
	"unicode/utf8"

	"github.com/arloliu/go-secs/v2/hsms"
	"github.com/arloliu/go-secs/v2/secs2"
	"github.com/arloliu/go-secs/v2/sml"

	"verif/fw"
	"verif/gen"
	"verif/gen/smltext"
	"verif/mon/itemcmp"
	"verif/ref/e5"
)

// C13 — strict SML encode and strict parse are mutual inverses on messages.
func init() {
	for _, r := range []rune(smltext.NonPrintableRunes()) {
		if !smltext.PermittedRune(r) || strconv.IsPrint(r) {
			panic(fmt.Sprintf("c13: rune %U is not in the intended class", r))
		}
	}
	fw.Register(&fw.Check{
		ID:    "C13",
		Level: "exploration",
		Rule: "phase encode-parse: case i (pure function of seed,i) = one data message (stream (7i+3)%128, function, W only on odd functions, random session id / system bytes) whose body comes from: " +
			"every single byte 0..255 as an ASCII item alone and embedded; every ordered pair of 40 grammar-relevant bytes alone and embedded; random ASCII strings over all 256 values; " +
			"all numeric edge values (NaN with payloads, +-Inf, -0, subnormals, max/min of every width); random trees; list chains of depth 1..64; every empty item, empty list, empty body; " +
			"JIS-8 / localized text over the permitted alphabet (no quote, backslash, angle bracket, control character) incl. 8-bit bytes, non-UTF-8 bytes, every Unicode class; " +
			"each message is rendered by the strict encoder under ALL 72 option combinations (ASCII quote double/single/none x S/F quote none/single/double x indent none/2sp/tab/4sp x binary hex/literal) " +
			"and parsed back by ParseStrict (and Parser.ParseMessage); oracle: exactly one message, same stream/function/W, hsms Equal to the message rebuilt from the model with NaN payloads and the localized header canonicalised " +
			"(the two stated exclusions), and accessor-level compare (every public accessor; on every third option combination) of the parsed body against the model. phase parse-encode: texts from a grammar-directed generator (names, quoted headers, all size-hint forms, comments, " +
			"both quote styles, numeric byte tokens and escapes in ASCII, all numeric bases, case variants) plus token-level mutations; every message of every text ParseStrict accepts (J/W text inside the permitted alphabet) is " +
			"re-encoded under all 72 combinations and re-parsed; oracle as above against the first parse. distinct = hash(case family, body encoding, header) resp. hash(text); non-trivial = every message case; a text only if the strict parser accepted it",
		Assumptions: []string{
			"'control character' = Unicode category Cc (U+0000-001F, U+007F-009F); for 8-bit text bytes 0x00-0x1F and 0x7F-0x9F. Everything else except quote, backslash and angle brackets is inside the permitted JIS-8 / localized alphabet",
			"'every combination of encoder options' = the finite option values sml/options.go defines, with four whitespace indent units; an indent unit containing non-whitespace is not considered",
			"harness/ref/e5 model trees are the logical values; mon/itemcmp reads the parsed body through every public accessor",
		},
		Phases: func(tier string) []fw.Phase {
			return []fw.Phase{
				{Name: "encode-parse", Shards: 16, Timeout: tierDur(tier, 6, 40)},
				{Name: "parse-encode", Shards: 16, Timeout: tierDur(tier, 6, 40)},
			}
		},
		Worker:         c13Worker,
		RequiredEvents: []string{"roundtrips", "single_byte_cases", "byte_pair_cases", "numeric_edge_cases", "depth64_roundtrips", "empty_body_roundtrips", "texts_accepted", "reencoded_messages", "option_combinations_used"},
	})
}

var c13PairBytes = []byte{
	'"', '\'', '\\', '<', '>', '[', ']', '.', '/', '*', '0', 'x', ' ', '\n', '\t', '\r', 0x00, 0x7f, 0x80, 0xff,
	0x1f, '~', 'a', 'A', '9', ':', ',', '-', 'W', 'S', 'L', '1', 'b', '(', 0xc3, 0xa9, 0x0b, '=', '{', '|',
}

type c13Case struct {
	Index  int64  `json:"index"`
	Family string `json:"family"`
	Header string `json:"header"`
	Body   string `json:"body"`
	Option string `json:"option,omitempty"`
	Text   string `json:"sml,omitempty"`
}

type c13State struct {
	env  *fw.Env
	opts []smlOpt
	once onceKeys
	cmp  itemcmp.Mode
}

func c13Worker(env *fw.Env) {
	st := &c13State{env: env, opts: smlStrictOptions(), once: onceKeys{}, cmp: itemcmp.Mode{F4AtFloat32: true, NaNLoose: true}}
	env.Event("option_combinations_used", 0)
	if env.Phase == "parse-encode" {
		total := int64(env.Pick(20000, 300000))
		for i := int64(0); i < total; i++ {
			if !env.Mine(i) || !env.Want(i) {
				continue
			}
			if env.Stop() {
				break
			}
			st.textCase(i)
		}

		return
	}
	fixed := int64(512 + 2*len(c13PairBytes)*len(c13PairBytes))
	total := fixed + int64(env.Pick(32000, 600000))
	for i := int64(0); i < total; i++ {
		if !env.Mine(i) || !env.Want(i) {
			continue
		}
		if env.Stop() {
			break
		}
		st.msgCase(i, fixed)
	}
	if env.Shard == 0 {
		env.Event("option_combinations_used", int64(len(st.opts)))
	}
}

// c13Body returns the model body (nil = empty body) and the family of case i.
func (st *c13State) c13Body(i, fixed int64) (*e5.Node, string) {
	env := st.env
	r := env.RandAt("body", i)
	ascii := func(b []byte, embed bool) *e5.Node {
		n := &e5.Node{FC: e5.ASCII, Bytes: b}
		if embed {
			return &e5.Node{FC: e5.List, Kids: []*e5.Node{{FC: e5.U1, Uints: []uint64{7}}, n, {FC: e5.ASCII, Bytes: []byte("tail")}}}
		}

		return n
	}
	np := int64(len(c13PairBytes))
	switch {
	case i < 256:
		env.Event("single_byte_cases", 1)
		return ascii([]byte{byte(i)}, false), "ascii-single-byte"
	case i < 512:
		env.Event("single_byte_cases", 1)
		return ascii([]byte{'a', byte(i - 256), 'z'}, true), "ascii-single-byte-embedded"
	case i < 512+np*np:
		k := i - 512
		env.Event("byte_pair_cases", 1)
		return ascii([]byte{c13PairBytes[k/np], c13PairBytes[k%np]}, false), "ascii-byte-pair"
	case i < fixed:
		k := i - 512 - np*np
		env.Event("byte_pair_cases", 1)
		return ascii([]byte{'q', c13PairBytes[k/np], c13PairBytes[k%np], 'q'}, true), "ascii-byte-pair-embedded"
	}
	j := i - fixed
	switch j % 10 {
	case 0:
		n := r.IntN(40)
		if r.IntN(16) == 0 {
			n = r.IntN(400)
		}
		b := gen.Text(r, n)
		if r.IntN(3) == 0 {
			for k := range b {
				b[k] = byte(r.IntN(256))
			}
		}

		return ascii(b, r.IntN(3) == 0), "ascii-random"
	case 1:
		env.Event("numeric_edge_cases", 1)
		return c13Edges(int(j / 10)), "numeric-edges"
	case 2, 3:
		budget := 3 + r.IntN(60)
		n := gen.Tree(r, &budget, 0, 1+r.IntN(6))
		smltext.Sanitize(r, n, 0)

		return n, "random-tree"
	case 4:
		d := 1 + int(j/10)%64
		n := gen.Chain(r, d)
		smltext.Sanitize(r, n, 0)
		if d == 64 {
			return n, "chain-depth-64"
		}

		return n, "chain"
	case 5:
		k := int(j/10) % (len(gen.LeafCodes) + 12)
		if k >= len(gen.LeafCodes)+4 {
			// MANY empty lists in one message: next to each other, before a deep chain, and at the bottom of one
			// (whatever a parser keeps per opened list must be given back per closed list, also for empty ones)
			empties := func(n int) []*e5.Node {
				out := make([]*e5.Node, n)
				for x := range out {
					out[x] = &e5.Node{FC: e5.List}
				}

				return out
			}
			chain := func(depth int, bottom []*e5.Node) *e5.Node {
				n := &e5.Node{FC: e5.List, Kids: bottom}
				for d := 1; d < depth; d++ {
					n = &e5.Node{FC: e5.List, Kids: []*e5.Node{n}}
				}

				return n
			}
			env.Event("many_empty_lists_cases", 1)
			switch k - len(gen.LeafCodes) - 4 {
			case 0:
				return &e5.Node{FC: e5.List, Kids: empties(63)}, "many-empty-lists"
			case 1:
				return &e5.Node{FC: e5.List, Kids: empties(64)}, "many-empty-lists"
			case 2:
				return &e5.Node{FC: e5.List, Kids: empties(65 + r.IntN(300))}, "many-empty-lists"
			case 3:
				return &e5.Node{FC: e5.List, Kids: append(empties(40), chain(30, []*e5.Node{{FC: e5.U1, Uints: []uint64{1}}}))}, "many-empty-lists"
			case 4:
				return &e5.Node{FC: e5.List, Kids: append(empties(1+r.IntN(70)), chain(2+r.IntN(62), nil))}, "many-empty-lists"
			case 5:
				return chain(40, empties(40)), "many-empty-lists"
			case 6:
				return chain(63, empties(2+r.IntN(8))), "many-empty-lists"
			default:
				kids := empties(30)
				kids = append(kids, chain(20, empties(20)))
				kids = append(kids, empties(30)...)
				kids = append(kids, chain(10, []*e5.Node{{FC: e5.ASCII, Bytes: []byte("x")}}))

				return &e5.Node{FC: e5.List, Kids: kids}, "many-empty-lists"
			}
		}
		switch {
		case k < len(gen.LeafCodes):
			n := gen.Leaf(r, gen.LeafCodes[k], 0)
			if r.IntN(2) == 0 {
				return &e5.Node{FC: e5.List, Kids: []*e5.Node{n, gen.Leaf(r, gen.LeafCodes[(k+1)%len(gen.LeafCodes)], 0)}}, "empty-items"
			}

			return n, "empty-items"
		case k == len(gen.LeafCodes):
			return &e5.Node{FC: e5.List}, "empty-list"
		case k == len(gen.LeafCodes)+1:
			return &e5.Node{FC: e5.List, Kids: []*e5.Node{{FC: e5.List}, {FC: e5.List, Kids: []*e5.Node{{FC: e5.List}}}}}, "empty-list"
		default:
			return nil, "empty-body"
		}
	case 6, 9:
		fc := uint8(e5.JIS8)
		if (j/10)%2 == 0 {
			fc = e5.Localized
		}
		n := &e5.Node{FC: fc}
		ln := r.IntN(24)
		fam := "jis8-text"
		if fc == e5.JIS8 {
			n.Bytes = smltext.JIS8Text(r, ln)
		} else {
			class := 0
			if j%10 == 9 {
				class = int(j/20) % 3
			}
			n.Bytes = smltext.LocalizedText(r, ln, class)
			n.LSH = []uint16{2, 2, 0, 1, 4, 8, 0xFFFF, uint16(r.IntN(65536))}[r.IntN(8)]
			fam = []string{"localized-printable", "localized-nonprintable-runes", "localized-8bit-bytes"}[class]
		}
		if r.IntN(3) == 0 {
			return &e5.Node{FC: e5.List, Kids: []*e5.Node{n, {FC: e5.Boolean, Bytes: []byte{1}}}}, fam
		}

		return n, fam
	case 7:
		n := gen.Leaf(r, gen.LeafCodes[int(j/10)%len(gen.LeafCodes)], gen.SmallCount(r))
		smltext.Sanitize(r, n, 0)

		return n, "leaf"
	default:
		fc := gen.LeafCodes[int(j/10)%len(gen.LeafCodes)]
		n := gen.ManyLeaves(r, fc, 1+r.IntN(24))
		smltext.Sanitize(r, n, 0)

		return n, "flat-list"
	}
}

// c13Edges: one item holding every edge value of one numeric type (k selects type and shape).
func c13Edges(k int) *e5.Node {
	f64 := []uint64{0, 1 << 63, 0x7FF0000000000000, 0xFFF0000000000000, 0x7FF8000000000000, 0x7FF8000000000001, 0xFFF8000000000000, 0x7FF0000000000001, 0xFFFFFFFFFFFFFFFF,
		1, 0x8000000000000001, 0x000FFFFFFFFFFFFF, 0x0010000000000000, 0x7FEFFFFFFFFFFFFF, 0xFFEFFFFFFFFFFFFF, 0x3FF0000000000000, 0x3FB999999999999A, 0x3FD5555555555555, 0x4340000000000001, 0x7FE0000000000001, 0x0000000000000002}
	f32 := []uint64{0, 1 << 31, 0x7F800000, 0xFF800000, 0x7FC00000, 0x7FC00001, 0xFFC00000, 0x7F800001, 0xFFFFFFFF, 1, 0x80000001, 0x007FFFFF, 0x00800000, 0x7F7FFFFF, 0xFF7FFFFF, 0x3F800000, 0x3DCCCCCD, 0x3EAAAAAB, 0x4B800001, 0x00000002}
	types := []uint8{e5.F8, e5.F4, e5.I1, e5.I2, e5.I4, e5.I8, e5.U1, e5.U2, e5.U4, e5.U8}
	fc := types[k%len(types)]
	n := &e5.Node{FC: fc}
	w := e5.Width(fc)
	switch fc {
	case e5.F8:
		n.Bits = f64
	case e5.F4:
		n.Bits = f32
	case e5.I1, e5.I2, e5.I4, e5.I8:
		lo, hi := int64(math.MinInt64), int64(math.MaxInt64)
		if w < 8 {
			lo, hi = -1<<uint(w*8-1), 1<<uint(w*8-1)-1
		}
		n.Ints = []int64{lo, hi, lo + 1, hi - 1, 0, -1, 1, lo / 2, hi / 2}
	default:
		hi := uint64(math.MaxUint64)
		if w < 8 {
			hi = 1<<uint(w*8) - 1
		}
		n.Uints = []uint64{0, hi, hi - 1, 1, hi/2 + 1, hi / 2}
	}
	// shape: all values in one item / one value per item in a list / a single value
	switch (k / len(types)) % 3 {
	case 1:
		l := &e5.Node{FC: e5.List}
		for i := 0; i < n.Count(); i++ {
			c := &e5.Node{FC: fc}
			switch {
			case n.Bits != nil:
				c.Bits = []uint64{n.Bits[i]}
			case n.Ints != nil:
				c.Ints = []int64{n.Ints[i]}
			default:
				c.Uints = []uint64{n.Uints[i]}
			}
			l.Kids = append(l.Kids, c)
		}

		return l
	case 2:
		i := (k / len(types) / 3) % n.Count()
		c := &e5.Node{FC: fc}
		switch {
		case n.Bits != nil:
			c.Bits = []uint64{n.Bits[i]}
		case n.Ints != nil:
			c.Ints = []int64{n.Ints[i]}
		default:
			c.Uints = []uint64{n.Uints[i]}
		}

		return c
	}

	return n
}

func c13Header(i int64) (stream, function uint8, w bool) {
	stream = uint8((i*7 + 3) % 128)
	function = uint8((i*13 + i/256) % 256)
	w = function%2 == 1 && (i/3)%2 == 0

	return
}

func (st *c13State) msgCase(i, fixed int64) {
	env := st.env
	node, family := st.c13Body(i, fixed)
	stream, function, w := c13Header(i)
	r := env.RandAt("build", i)
	var item, normItem secs2.Item
	var norm *e5.Node
	bodyStr, bodyEnc := "(empty body)", []byte{}
	if node != nil {
		item, _ = gen.Build(r, node)
		norm = normalizeNode(node)
		normItem = plainBuild(norm)
		bodyStr = node.String()
		bodyEnc = node.Encode(nil)
	}
	var sys [4]byte
	for k := range sys {
		sys[k] = byte(r.IntN(256))
	}
	msg, err := hsms.NewDataMessage(stream, function, w, uint16(r.IntN(65536)), sys, item)
	hdr := fmt.Sprintf("S%dF%d W=%v", stream, function, w)
	cs := c13Case{Index: i, Family: family, Header: hdr, Body: clipStr(bodyStr, 300)}
	env.Eval(fw.Hash64([]byte(family), bodyEnc, []byte(hdr)), true)
	env.Sample(cs)
	env.Event("family_"+family, 1)
	if err != nil {
		env.Violate("message-construction", fmt.Sprintf("hsms.NewDataMessage refused a valid message: %v", err), cs)
		return
	}
	want, err := hsms.NewDataMessage(stream, function, w, 0, [4]byte{}, normItem)
	if err != nil {
		env.Violate("message-construction", fmt.Sprintf("hsms.NewDataMessage refused the canonicalised message: %v", err), cs)
		return
	}
	opts := st.opts
	if len(bodyEnc) > 6000 {
		// big bodies: a spread of 12 combinations that still covers every value of every option
		var sub []smlOpt
		for k := 0; k < 12; k++ {
			sub = append(sub, opts[(int(i)+k*7)%len(opts)])
		}
		opts = sub
	}
	for oi, o := range opts {
		viaParser := (int(i)+oi)%4 == 0
		keys, msgTxt, sml1 := st.roundtrip(msg, want, norm, o, viaParser, (int(i)+oi)%3 == 0)
		env.Event("roundtrips", 1)
		if len(keys) == 0 {
			if oi == 0 {
				switch {
				case family == "chain-depth-64":
					env.Event("depth64_roundtrips", 1)
				case node == nil:
					env.Event("empty_body_roundtrips", 1)
				}
			}

			continue
		}
		// classify by the failing component(s)
		ckeys := st.classify(stream, function, w, node, o)
		if len(ckeys) == 0 {
			ckeys = keys
		}
		c := cs
		c.Option = o.Name
		c.Text = clipStr(sml1, 400)
		for _, k := range ckeys {
			env.Event("violation_"+k, 1)
			if st.once.first(k) {
				env.Violate(k, msgTxt, c)
			}
		}

		break // the other option combinations of the same message add nothing new
	}
}

// roundtrip renders msg under o and parses it back; it returns the generic failure keys (empty =
// held), a description, and the SML text.
func (st *c13State) roundtrip(msg, want *hsms.DataMessage, norm *e5.Node, o smlOpt, viaParser, deep bool) (keys []string, desc, text string) {
	var txt string
	var err error
	if p, stack := catchStack(func() { txt, err = o.encoder().EncodeMessage(msg) }); p != nil {
		return []string{"panic-encode:" + panicSite(stack)}, fmt.Sprintf("EncodeMessage panicked: %v", p), ""
	}
	if err != nil {
		return []string{"encode-error"}, fmt.Sprintf("EncodeMessage(%s) returned %v", o.Name, err), ""
	}
	var msgs []*hsms.DataMessage
	if p, stack := catchStack(func() {
		if viaParser {
			var m *hsms.DataMessage
			m, err = sml.NewParser(sml.WithParserStrictMode(true)).ParseMessage(txt)
			if m != nil {
				msgs = []*hsms.DataMessage{m}
			}
		} else {
			msgs, err = sml.ParseStrict(txt)
		}
	}); p != nil {
		return []string{"panic-parse:" + panicSite(stack)}, fmt.Sprintf("strict parse of the strict encoder's output panicked: %v\nSML: %q", p, clipStr(txt, 300)), txt
	}
	if err != nil {
		return []string{"parse-error"}, fmt.Sprintf("strict parser rejects the strict encoder's output (%s): %v\nSML: %q", o.Name, err, clipStr(txt, 300)), txt
	}
	if len(msgs) != 1 {
		return []string{"message-count"}, fmt.Sprintf("strict parse of one encoded message (%s) yields %d messages\nSML: %q", o.Name, len(msgs), clipStr(txt, 300)), txt
	}
	got := msgs[0]
	if got.Stream() != want.Stream() || got.Function() != want.Function() || got.WaitBit() != want.WaitBit() {
		return []string{"header-mismatch"}, fmt.Sprintf("header changed in the round trip (%s): sent S%dF%d W=%v, parsed S%dF%d W=%v\nSML: %q", o.Name,
			want.Stream(), want.Function(), want.WaitBit(), got.Stream(), got.Function(), got.WaitBit(), clipStr(txt, 200)), txt
	}
	gi, gerr := got.Item()
	if gerr != nil || gi == nil {
		return []string{"parsed-body-error"}, fmt.Sprintf("parsed message has no readable body: %v", gerr), txt
	}
	if norm == nil {
		if !gi.IsEmpty() || !got.Equal(want) {
			return []string{"empty-body-mismatch"}, fmt.Sprintf("empty body came back as %s (%s)\nSML: %q", safeSML(gi), o.Name, txt), txt
		}

		return nil, "", txt
	}
	if gi.IsEmpty() {
		return []string{"body-lost"}, fmt.Sprintf("non-empty body came back empty (%s)\nSML: %q", o.Name, clipStr(txt, 300)), txt
	}
	if !got.Equal(want) || !want.Equal(got) {
		return []string{"body-not-equal"}, fmt.Sprintf("parsed message is not Equal to the encoded one (%s)\n sent body: %s\n parsed body: %s\nSML: %q", o.Name, clipStr(norm.String(), 300), clipStr(safeSML(gi), 300), clipStr(txt, 300)), txt
	}
	if !deep {
		return nil, "", txt
	}
	if cerr := itemcmp.Compare(gi, norm, st.cmp); cerr != nil {
		return []string{"body-accessor-mismatch"}, fmt.Sprintf("parsed body differs from the encoded value at accessor level (%s): %v\nSML: %q", o.Name, cerr, clipStr(txt, 300)), txt
	}

	return nil, "", txt
}

// bodyOK reports whether a message S1F1 with the given body round-trips under o.
func (st *c13State) bodyOK(stream, function uint8, w bool, node *e5.Node, o smlOpt) bool {
	var item, normItem secs2.Item
	var norm *e5.Node
	if node != nil {
		item = plainBuild(node)
		norm = normalizeNode(node)
		normItem = plainBuild(norm)
	}
	msg, err1 := hsms.NewDataMessage(stream, function, w, 0, [4]byte{}, item)
	want, err2 := hsms.NewDataMessage(stream, function, w, 0, [4]byte{}, normItem)
	if err1 != nil || err2 != nil {
		return false
	}
	keys, _, _ := st.roundtrip(msg, want, norm, o, false, true)

	return len(keys) == 0
}

// classify narrows a failing message down to the component that fails on its own and names the
// failure by that component's class. Every failing component contributes a key, so a second
// defect hiding behind a known one still surfaces.
func (st *c13State) classify(stream, function uint8, w bool, node *e5.Node, o smlOpt) []string {
	set := map[string]bool{}
	if !st.bodyOK(stream, function, w, nil, o) {
		k := "header-sfquote-" + quoteName(o.SQ)
		if w {
			k += "-wbit"
		}
		set[k] = true
		// judge the body components under a header form that works, else every leaf looks broken
		o.SQ = sml.QuoteNone
		if !st.bodyOK(1, 1, false, nil, o) {
			return []string{k}
		}
	}
	if node != nil {
		seen := map[string]bool{}
		for _, lf := range nodeLeaves(node, nil) {
			id := string(lf.Encode(nil))
			if seen[id] {
				continue
			}
			seen[id] = true
			if st.bodyOK(1, 1, false, lf, o) {
				continue
			}
			for _, k := range st.leafKeys(lf, o) {
				set[k] = true
			}
		}
		if len(set) == 0 && node.FC == e5.List {
			// every leaf is fine on its own: the list structure / nesting / indentation is at fault
			skeleton := c13Skeleton(node)
			if !st.bodyOK(1, 1, false, skeleton, o) {
				set["list-structure"] = true
			} else {
				set["list-with-leaves"] = true
			}
		}
	}
	var out []string
	for k := range set {
		out = append(out, k)
	}
	sort.Strings(out)

	return out
}

func c13Skeleton(n *e5.Node) *e5.Node {
	c := &e5.Node{FC: e5.List}
	for _, k := range n.Kids {
		if k.FC == e5.List {
			c.Kids = append(c.Kids, c13Skeleton(k))
		} else {
			c.Kids = append(c.Kids, &e5.Node{FC: e5.U1, Uints: []uint64{1}})
		}
	}

	return c
}

func (st *c13State) leafKeys(lf *e5.Node, o smlOpt) []string {
	ok := func(n *e5.Node) bool { return st.bodyOK(1, 1, false, n, o) }
	name := strings.ToLower(e5.Name(lf.FC))
	switch lf.FC {
	case e5.ASCII:
		var keys []string
		bad := map[byte]bool{}
		for c := 0; c < 256; c++ {
			if bytes.IndexByte(lf.Bytes, byte(c)) < 0 {
				continue
			}
			if !ok(&e5.Node{FC: e5.ASCII, Bytes: []byte{byte(c)}}) {
				bad[byte(c)] = true
				if c == '>' {
					keys = append(keys, "strict-ascii-unescaped-gt")
				} else {
					keys = append(keys, fmt.Sprintf("strict-ascii-byte-0x%02X", c))
				}
			}
		}
		rest := append([]byte{}, lf.Bytes...)
		for i, c := range rest {
			if bad[c] {
				rest[i] = 'x'
			}
		}
		if !ok(&e5.Node{FC: e5.ASCII, Bytes: rest}) {
			if len(rest) == 0 {
				keys = append(keys, "strict-ascii-empty")
			} else {
				keys = append(keys, "strict-ascii-sequence")
			}
		}

		return keys
	case e5.Localized:
		var keys []string
		clean := []byte{}
		var inv, np []byte
		for s := lf.Bytes; len(s) > 0; {
			r, n := utf8.DecodeRune(s)
			switch {
			case r == utf8.RuneError && n == 1:
				if inv == nil {
					inv = []byte{'a', s[0], 'b'}
				}
				clean = append(clean, 'x')
			case !strconv.IsPrint(r):
				if np == nil {
					np = append(append([]byte{'a'}, s[:n]...), 'b')
				}
				clean = append(clean, 'x')
			default:
				clean = append(clean, s[:n]...)
			}
			s = s[n:]
		}
		if inv != nil && !ok(&e5.Node{FC: e5.Localized, LSH: 2, Bytes: inv}) {
			keys = append(keys, "localized-invalid-utf8-escaped")
		}
		if np != nil && !ok(&e5.Node{FC: e5.Localized, LSH: 2, Bytes: np}) {
			keys = append(keys, "localized-nonprintable-rune-escaped")
		}
		if !ok(&e5.Node{FC: e5.Localized, LSH: 2, Bytes: clean}) {
			keys = append(keys, "localized-text")
		}
		if len(keys) == 0 {
			keys = append(keys, "localized-header-or-combination")
		}

		return keys
	case e5.JIS8:
		for _, c := range lf.Bytes {
			if c >= 0x80 {
				return []string{"jis8-8bit-text"}
			}
		}

		return []string{"jis8-text"}
	case e5.F4, e5.F8:
		set := map[string]bool{}
		for i := range lf.Bits {
			one := &e5.Node{FC: lf.FC, Bits: []uint64{lf.Bits[i]}}
			if ok(one) {
				continue
			}
			f := lf.Float(i)
			cl := "finite"
			switch {
			case f != f:
				cl = "nan"
			case math.IsInf(f, 0):
				cl = "inf"
			case f == 0:
				cl = "zero"
			case (lf.FC == e5.F8 && math.Abs(f) < 2.2250738585072014e-308) || (lf.FC == e5.F4 && math.Abs(f) < 1.1754943508222875e-38):
				cl = "subnormal"
			}
			set[name+"-"+cl] = true
		}
		if len(set) == 0 {
			return []string{name + "-multi-value"}
		}
		var out []string
		for k := range set {
			out = append(out, k)
		}
		sort.Strings(out)

		return out
	}
	if lf.Count() == 0 {
		return []string{name + "-empty"}
	}

	return []string{name + "-value"}
}

// ---------------------------------------------------------------------------------------------
// phase parse-encode

func (st *c13State) textCase(i int64) {
	env := st.env
	r := env.RandAt("text", i)
	g := smltext.New(r, smltext.Style{Strict: true, Plain: i%7 == 0})
	nm := 1
	if r.IntN(4) == 0 {
		nm = 1 + r.IntN(3)
	}
	for m := 0; m < nm; m++ {
		var body *e5.Node
		switch r.IntN(8) {
		case 0:
			body = nil
		case 1:
			body = gen.Leaf(r, gen.LeafCodes[r.IntN(len(gen.LeafCodes))], gen.SmallCount(r))
		case 2:
			body = gen.Chain(r, 1+r.IntN(12))
		default:
			budget := 2 + r.IntN(24)
			body = gen.Tree(r, &budget, 0, 1+r.IntN(4))
		}
		if body != nil {
			smltext.Sanitize(r, body, 0)
		}
		stream, function, w := c13Header(i*3 + int64(m))
		name := ""
		if r.IntN(6) == 0 {
			name = []string{"AreYouThere", "msg_1", "x", "Reply2"}[r.IntN(4)]
		}
		g.Message(smltext.Msg{Name: name, Stream: int(stream), Function: int(function), W: w, Body: body})
	}
	text := g.T.String()
	family := "generated"
	if i%4 == 3 {
		// one token-level mutation: stays close to the grammar, often still accepted
		family = "mutated"
		var pick string
		n := 0
		smltext.Mutations(r, g.T, func(kind, in string) {
			if kind == "base" || strings.HasPrefix(kind, "truncate") {
				return
			}
			n++
			if r.IntN(n) == 0 {
				pick = in
			}
		})
		if pick != "" {
			text = pick
		}
	}
	env.Event("texts_generated", 1)
	var msgs []*hsms.DataMessage
	var err error
	if p, _ := catchStack(func() { msgs, err = sml.ParseStrict(text) }); p != nil {
		env.Event("texts_parser_panicked", 1) // totality is C14's property
		env.Eval(fw.HashStr("text", text), false)

		return
	}
	if err != nil || len(msgs) == 0 {
		env.Event("texts_rejected", 1)
		env.Eval(fw.HashStr("text", text), false)

		return
	}
	env.Eval(fw.HashStr("text", text), true)
	env.Event("texts_accepted", 1)
	env.Event("texts_accepted_"+family, 1)
	cs := c13Case{Index: i, Family: "text-" + family, Text: clipStr(text, 600)}
	env.Sample(cs)
	for mi, m := range msgs {
		item, ierr := m.Item()
		if ierr != nil || item == nil {
			env.Violate("accepted-message-without-body", fmt.Sprintf("message %d of an accepted text has no readable body: %v", mi, ierr), cs)
			continue
		}
		var node, norm *e5.Node
		if !item.IsEmpty() {
			var nerr error
			node, nerr = nodeFromItem(item)
			if nerr != nil {
				env.Violate("accepted-message-unreadable", fmt.Sprintf("message %d of an accepted text cannot be read through its accessors: %v", mi, nerr), cs)
				continue
			}
			if !c13Permitted(node) {
				env.Event("messages_outside_alphabet", 1)
				continue
			}
			norm = normalizeNode(node)
		}
		want := m.WithSessionID(0).WithSystemBytes([4]byte{})
		if norm != nil {
			// Equal must not depend on the two excluded things: compare against a rebuild from the canonicalised value
			if w2, werr := hsms.NewDataMessage(m.Stream(), m.Function(), m.WaitBit(), 0, [4]byte{}, plainBuild(norm)); werr == nil {
				want = w2
			}
		}
		env.Event("reencoded_messages", 1)
		cm := cs
		cm.Header = fmt.Sprintf("S%dF%d W=%v", m.Stream(), m.Function(), m.WaitBit())
		if node != nil {
			cm.Body = clipStr(node.String(), 300)
		}
		for oi, o := range st.opts {
			keys, desc, sml1 := st.roundtrip(m, want, norm, o, (int(i)+oi)%4 == 0, (int(i)+oi)%3 == 0)
			env.Event("roundtrips", 1)
			if len(keys) == 0 {
				continue
			}
			ckeys := st.classify(m.Stream(), m.Function(), m.WaitBit(), node, o)
			if len(ckeys) == 0 {
				ckeys = keys
			}
			cm.Option = o.Name
			for _, k := range ckeys {
				env.Event("violation_"+k, 1)
				if st.once.first(k) {
					env.Violate(k, "a message the strict parser accepted does not survive re-encoding: "+desc+"\nre-encoded: "+clipStr(sml1, 300), cm)
				}
			}

			break
		}
	}
}

// c13Permitted: every JIS-8 / localized leaf is inside the alphabet the property permits.
func c13Permitted(n *e5.Node) bool {
	switch n.FC {
	case e5.List:
		for _, k := range n.Kids {
			if !c13Permitted(k) {
				return false
			}
		}
	case e5.JIS8:
		return smltext.PermittedJIS8Text(n.Bytes)
	case e5.Localized:
		return smltext.PermittedLocalized(n.Bytes)
	}

	return true
}
