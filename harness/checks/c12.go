package checks

import (
	"encoding/binary"
	"fmt"
	"math/rand/v2"
	"runtime"
	"strings"
	"sync"
	"time"

	"github.com/arloliu/go-secs/v2/hsms"
	"github.com/arloliu/go-secs/v2/secs2"

	"verif/fw"
	"verif/gen"
	"verif/gen/tracked"
	"verif/mon/snapshot"
	"verif/ref/e5"
)

// C12 — items and messages are immutable, alias-free and safe for concurrent readers.
//
// Oracle: an object built from buffers the harness keeps mutating, and whose every returned slice
// the harness keeps mutating, must show the same complete accessor snapshot as a PRISTINE TWIN
// built the same way from untouched copies (the twin's snapshot is taken before anything is
// mutated). The headers of re-stamped / derived copies are additionally checked against the E37
// header layout computed by the harness.
func init() {
	fw.Register(&fw.Check{
		ID:    "C12",
		Level: "exploration",
		Rule: "case i (pure function of seed,i) = provenance (i mod 11: constructor shapes | secs2.Decode | secs2.DecodeOwned | DecodeHSMSMessage | DecodeHSMSPayload | " +
			"DecodeOwnedHSMSPayload | NewDataMessage/NewDataMessageFromHeader | WithSessionID/WithSystemBytes/WithID copies | Derive()...Build() | control-message " +
			"constructors and frames | secs2.NewMessage) x value tree (leaf x count 0/1/2/small, length-field boundary leaves, random trees, chains, slab-boundary lists) x " +
			"mode (observe-mutate-observe | mutate inputs before the first observation). Every case takes 2-3 complete snapshots (every Item method incl. iterators, " +
			"*At(-1..size), To* slices, ToBytes, AppendTo/AppendBinaryTo/AppendBodyTo into nil / spare-capacity / no-capacity buffers, ToSML, Get paths; every message accessor) " +
			"of every object of the case, mutating in between (a) every slice passed to a constructor or copying decode entry point and (b) every returned slice up to its " +
			"capacity; each snapshot must equal the pristine twin's. Concurrent phase (-race): 16 barrier-released readers take first-call snapshots of the same fresh object " +
			"(through their own With* copies for data messages) while a 17th goroutine mutates input buffers and previously returned slices. " +
			"distinct = hash(provenance, reference encoding, recipe); every case is non-trivial (every object returns at least one slice and, except for the documented " +
			"owning entry points, was built from at least one caller slice)",
		Assumptions: []string{
			"DecodeOwned / DecodeOwnedHSMSPayload document an ownership transfer of the input buffer: their inputs are never mutated by the harness, only their outputs",
			"constructors and decoders are deterministic, so a twin built from equal inputs is the counterfactual 'never mutated' object (C01/C02 judge the values themselves)",
			"lazy encode-once of a constructed body is observed through a delegating secs2.Item wrapper that counts AppendTo/ToBytes calls (c12_once.go: body lengths around 255/256 and 64 KiB, " +
				"ToBytes / Codec().MarshalBinary / AppendBodyTo on the message and its With* copies, one first caller or 8 concurrent ones); an encoder that bypasses the public Item interface is not seen",
		},
		Phases: func(tier string) []fw.Phase {
			return []fw.Phase{
				// 16 single-purpose children on a shared box: a small GOMAXPROCS keeps the GC workers
				// of the shards from fighting each other (the work per shard is sequential anyway)
				{Name: "plain", Shards: 16, Timeout: tierDur(tier, 6, 40), Env: []string{"GOMAXPROCS=2", "GOGC=200"}},
				{Name: "race", Race: true, Shards: 16, Timeout: tierDur(tier, 8, 40), Env: []string{"GOMAXPROCS=6"}},
			}
		},
		Worker: c12Worker,
		RequiredEvents: []string{"objects_checked", "snapshots", "input_slices_mutated", "output_slices_mutated", "item_identity_checks",
			"concurrent_cases", "concurrent_first_call_snapshots", "cases_with_overlapping_readers", "restamped_copies", "derived_messages", "encode_once_cases", "encode_once_cases_body_over_64k"},
	})
}

const c12Provs = 11

var c12ProvNames = [c12Provs]string{"ctor", "decode", "decode-owned", "hsms-frame", "hsms-payload", "hsms-owned-payload",
	"new-data-msg", "restamp", "derive", "control", "secs2-msg"}

type c12Desc struct {
	Index  int64  `json:"index"`
	Prov   string `json:"provenance"`
	Mode   string `json:"mode"`
	Tree   string `json:"tree"`
	Recipe string `json:"recipe,omitempty"`
	Hex    string `json:"encoding_hex,omitempty"`
}

// c12Meta describes one object of a case.
type c12Meta struct {
	name    string
	wantHdr *[10]byte // expected header by the E37 layout (messages)
	ident   bool      // member of the group of messages that must hand out ONE item identity
}

type c12Emit func(o any, m c12Meta)

func c12Worker(env *fw.Env) {
	if env.Phase == "race" {
		c12Concurrent(env)
		c12EncodeOnce(env)
		return
	}
	defer c12EncodeOnce(env)
	total := int64(env.Pick(15400, 300000))
	for i := int64(0); i < total; i++ {
		if !env.Mine(i) || !env.Want(i) {
			continue
		}
		if env.Stop() {
			break
		}
		c12Sequential(env, i)
	}
}

// c12Tree draws the value tree of case i (k = i / c12Provs selects the family).
func c12Tree(r *rand.Rand, k int64, small bool) *e5.Node {
	switch k % 8 {
	case 0, 1:
		return gen.Leaf(r, gen.LeafCodes[int(k/8)%len(gen.LeafCodes)], gen.SmallCount(r))
	case 2:
		fc := gen.LeafCodes[int(k/8)%len(gen.LeafCodes)]
		bc := gen.BoundaryCounts(fc)
		if !small && r.IntN(40) == 0 {
			return gen.Leaf(r, fc, bc[r.IntN(len(bc))]) // 64K length-field boundary (rare: costly)
		}

		return gen.Leaf(r, fc, bc[r.IntN(6)]) // 255/256 boundary
	case 3, 4:
		budget := 3 + r.IntN(40)
		if small {
			budget = 3 + r.IntN(14)
		}

		return gen.Tree(r, &budget, 0, 1+r.IntN(6))
	case 5:
		d := 1 + r.IntN(12)
		if !small && r.IntN(6) == 0 {
			d = 40 + r.IntN(25)
		}

		return gen.Chain(r, d)
	case 6:
		fc := gen.LeafCodes[int(k/8)%len(gen.LeafCodes)]
		ks := []int{1, 4, 5, 6, 20, 21, 22, 84, 85, 86}
		if small {
			ks = ks[:7]
		}

		return gen.ManyLeaves(r, fc, ks[r.IntN(len(ks))])
	default:
		budget := 2 + r.IntN(10)

		return gen.Tree(r, &budget, 0, 3)
	}
}

type c12Hdr struct {
	sid      uint16
	stream   uint8
	function uint8
	w        bool
	sys      [4]byte
}

func c12DrawHdr(r *rand.Rand) c12Hdr {
	h := c12Hdr{sid: uint16(r.IntN(65536)), stream: uint8(r.IntN(128)), function: uint8(r.IntN(256)), w: r.IntN(2) == 0}
	if h.w {
		h.function |= 1 // Q3: W only on primary (odd) functions
	}
	binary.BigEndian.PutUint32(h.sys[:], r.Uint32())
	switch r.IntN(6) {
	case 0:
		h.sid, h.sys = 0, [4]byte{}
	case 1:
		h.sid, h.sys = 0xFFFF, [4]byte{0xFF, 0xFF, 0xFF, 0xFF}
	}

	return h
}

func (h c12Hdr) bytes() [10]byte {
	var b [10]byte
	binary.BigEndian.PutUint16(b[0:2], h.sid)
	b[2] = h.stream & 0x7F
	if h.w {
		b[2] |= 0x80
	}
	b[3] = h.function
	copy(b[6:], h.sys[:])

	return b
}

// c12Body draws the SECS-II body bytes of a frame: mostly the encoding of node, sometimes
// empty, sometimes malformed (the lazy decode then memoizes an error).
func c12Body(r *rand.Rand, node *e5.Node) ([]byte, string) {
	enc := node.Encode(nil)
	switch r.IntN(14) {
	case 0:
		return nil, "empty-body"
	case 1:
		if len(enc) > 2 {
			return enc[:len(enc)-1], "truncated-body"
		}
	case 2:
		return append(enc, 0xA5, 0x01, 0x07), "body+trailing-item"
	}

	return enc, "body"
}

// c12Build creates the objects of case (prov, node) and emits each one right after it exists.
// It is a pure function of r; the twin and the object under test come from two calls with
// equally seeded generators and therefore use disjoint buffers.
func c12Build(prov int, r *rand.Rand, node *e5.Node, in *tracked.Inputs, emit c12Emit) (recipe string) { //nolint:gocyclo
	withSpare := func(b []byte) []byte {
		out := make([]byte, len(b), len(b)+r.IntN(8))
		copy(out, b)

		return out
	}
	frameOf := func(h [10]byte, body []byte) []byte {
		f := make([]byte, 4, 14+len(body)+r.IntN(8))
		binary.BigEndian.PutUint32(f, uint32(10+len(body)))
		f = append(f, h[:]...)

		return append(f, body...)
	}
	// a data message from one of the three message-producing provenances
	dataMsg := func(kind int) (*hsms.DataMessage, [10]byte, string) {
		h := c12DrawHdr(r)
		hb := h.bytes()
		switch kind {
		case 0: // constructed
			item, rec := tracked.Build(r, node, in)
			var m *hsms.DataMessage
			var err error
			if r.IntN(2) == 0 {
				m, err = hsms.NewDataMessage(h.stream, h.function, h.w, h.sid, h.sys, item)
				rec = "NewDataMessage(" + rec + ")"
			} else {
				m, err = hsms.NewDataMessageFromHeader(hb, item)
				rec = "NewDataMessageFromHeader(" + rec + ")"
			}
			if err != nil {
				panic(fmt.Sprintf("harness: %s failed on a valid item: %v", rec, err))
			}

			return m, hb, rec
		case 1: // DecodeHSMSMessage (copying)
			body, bk := c12Body(r, node)
			frame := frameOf(hb, body)
			in.Add(frame)
			if r.IntN(4) == 0 {
				// the encoding.BinaryUnmarshaler wrapper is one more copying decode entry point
				codec := &hsms.DataMessageCodec{}
				if err := codec.UnmarshalBinary(frame); err != nil {
					panic(fmt.Sprintf("harness: DataMessageCodec.UnmarshalBinary failed on a valid frame: %v", err))
				}

				return codec.Message, hb, "DataMessageCodec.UnmarshalBinary(" + bk + ")"
			}
			msg, err := hsms.DecodeHSMSMessage(frame)
			if err != nil {
				panic(fmt.Sprintf("harness: DecodeHSMSMessage failed on a valid frame: %v", err))
			}
			m, _ := msg.ToDataMessage()

			return m, hb, "DecodeHSMSMessage(" + bk + ")"
		default: // DecodeHSMSPayload (copying)
			body, bk := c12Body(r, node)
			payload := withSpare(append(hb[:], body...))
			in.Add(payload)
			msg, err := hsms.DecodeHSMSPayload(payload)
			if err != nil {
				panic(fmt.Sprintf("harness: DecodeHSMSPayload failed on a valid payload: %v", err))
			}
			m, _ := msg.ToDataMessage()

			return m, hb, "DecodeHSMSPayload(" + bk + ")"
		}
	}

	switch c12ProvNames[prov] {
	case "ctor":
		item, rec := tracked.Build(r, node, in)
		emit(item, c12Meta{name: "item"})

		return rec
	case "decode":
		buf := withSpare(node.Encode(nil))
		rec := "Decode(enc)"
		if r.IntN(4) == 0 {
			buf = append(buf, byte(r.IntN(256)), 0x01)
			rec = "Decode(enc+trailing)"
		}
		in.Add(buf)
		item, err := secs2.Decode(buf)
		if err != nil {
			panic(fmt.Sprintf("harness: Decode failed on a valid encoding: %v", err))
		}
		emit(item, c12Meta{name: "item"})

		return rec
	case "decode-owned":
		buf := withSpare(node.Encode(nil)) // ownership transfers: never recorded as a mutable input
		item, err := secs2.DecodeOwned(buf)
		if err != nil {
			panic(fmt.Sprintf("harness: DecodeOwned failed on a valid encoding: %v", err))
		}
		emit(item, c12Meta{name: "item"})

		return "DecodeOwned(enc)"
	case "hsms-frame":
		m, hb, rec := dataMsg(1)
		emit(m, c12Meta{name: "msg", wantHdr: &hb, ident: true})

		return rec
	case "hsms-payload":
		m, hb, rec := dataMsg(2)
		emit(m, c12Meta{name: "msg", wantHdr: &hb, ident: true})

		return rec
	case "hsms-owned-payload":
		h := c12DrawHdr(r)
		hb := h.bytes()
		body, bk := c12Body(r, node)
		payload := withSpare(append(hb[:], body...)) // ownership transfers: not a mutable input
		msg, err := hsms.DecodeOwnedHSMSPayload(payload)
		if err != nil {
			panic(fmt.Sprintf("harness: DecodeOwnedHSMSPayload failed on a valid payload: %v", err))
		}
		emit(msg, c12Meta{name: "msg", wantHdr: &hb, ident: true})

		return "DecodeOwnedHSMSPayload(" + bk + ")"
	case "new-data-msg":
		m, hb, rec := dataMsg(0)
		emit(m, c12Meta{name: "msg", wantHdr: &hb, ident: true})

		return rec
	case "restamp":
		base, hb, rec := dataMsg(r.IntN(3))
		emit(base, c12Meta{name: "base", wantHdr: &hb, ident: true})
		cur, curHdr := base, hb
		n := 1 + r.IntN(4)
		for k := 0; k < n; k++ {
			from := cur
			if r.IntN(3) == 0 {
				from, curHdr = base, hb // fan out from the base again
			}
			nh := curHdr
			var cp *hsms.DataMessage
			var how string
			switch r.IntN(3) {
			case 0:
				id := uint16(r.IntN(65536))
				cp = from.WithSessionID(id)
				binary.BigEndian.PutUint16(nh[0:2], id)
				how = "WithSessionID"
			case 1:
				var sb [4]byte
				binary.BigEndian.PutUint32(sb[:], r.Uint32())
				cp = from.WithSystemBytes(sb)
				copy(nh[6:], sb[:])
				how = "WithSystemBytes"
			default:
				id := r.Uint32()
				cp = from.WithID(id)
				binary.BigEndian.PutUint32(nh[6:], id)
				how = "WithID"
			}
			rec += "." + how
			h2 := nh
			emit(cp, c12Meta{name: "copy." + how, wantHdr: &h2, ident: true})
			cur, curHdr = cp, nh
		}

		return rec
	case "derive":
		base, hb, rec := dataMsg(r.IntN(3))
		emit(base, c12Meta{name: "base", wantHdr: &hb, ident: true})
		b := base.Derive()
		nh := hb
		rec += ".Derive()"
		if r.IntN(2) == 0 {
			h := c12DrawHdr(r)
			b = b.WithStream(h.stream).WithFunction(h.function).WithWaitBit(h.w)
			nh[2], nh[3] = h.bytes()[2], h.function
			rec += ".WithStream.WithFunction.WithWaitBit"
		}
		if r.IntN(2) == 0 {
			id := uint16(r.IntN(65536))
			b = b.WithSessionID(id)
			binary.BigEndian.PutUint16(nh[0:2], id)
			rec += ".WithSessionID"
		}
		switch r.IntN(3) {
		case 0:
			var sb [4]byte
			binary.BigEndian.PutUint32(sb[:], r.Uint32())
			b = b.WithSystemBytes(sb)
			copy(nh[6:], sb[:])
			rec += ".WithSystemBytes"
		case 1:
			id := r.Uint32()
			b = b.WithID(id)
			binary.BigEndian.PutUint32(nh[6:], id)
			rec += ".WithID"
		}
		if r.IntN(2) == 0 {
			budget := 2 + r.IntN(8)
			other := gen.Tree(r, &budget, 0, 3)
			item, irec := tracked.Build(r, other, in)
			b = b.WithItem(item)
			rec += ".WithItem(" + irec + ")"
		}
		d, err := b.Build()
		if err != nil {
			panic(fmt.Sprintf("harness: %s.Build() failed: %v", rec, err))
		}
		emit(d, c12Meta{name: "derived", wantHdr: &nh})

		return rec + ".Build()"
	case "control":
		h := c12DrawHdr(r)
		var m *hsms.ControlMessage
		var rec string
		var want [10]byte
		binary.BigEndian.PutUint16(want[0:2], h.sid)
		copy(want[6:], h.sys[:])
		switch r.IntN(8) {
		case 0:
			m, rec = hsms.NewSelectReq(h.sid, h.sys), "NewSelectReq"
			want[5] = 1
		case 1:
			req := hsms.NewSelectReq(h.sid, h.sys)
			m, _ = hsms.NewSelectRsp(req, h.function)
			rec = "NewSelectRsp"
			want[3], want[5] = h.function, 2
		case 2:
			m, rec = hsms.NewDeselectReq(h.sid, h.sys), "NewDeselectReq"
			want[5] = 3
		case 3:
			m, rec = hsms.NewLinktestReq(h.sys), "NewLinktestReq"
			want[0], want[1], want[5] = 0xFF, 0xFF, 5
		case 4:
			m, rec = hsms.NewSeparateReq(h.sid, h.sys), "NewSeparateReq"
			want[5] = 9
		case 5:
			m, rec = hsms.NewRejectReqRaw(h.sid, 0, h.stream, h.sys, 1+h.function%4), "NewRejectReqRaw"
			want[2], want[3], want[5] = h.stream, 1+h.function%4, 7
			if want[3] == 2 {
				want[2] = 0
			}
		default:
			// a control frame through the copying decoders (possibly with ignored trailing bytes)
			st := []byte{1, 2, 3, 4, 5, 6, 7, 9}[r.IntN(8)]
			want[2], want[3], want[5] = h.bytes()[2], h.function, st
			tail := make([]byte, r.IntN(4))
			var msg hsms.Message
			var err error
			if r.IntN(2) == 0 {
				f := frameOf(want, tail)
				in.Add(f)
				msg, err = hsms.DecodeHSMSMessage(f)
				rec = "DecodeHSMSMessage(control)"
			} else {
				p := withSpare(append(want[:], tail...))
				in.Add(p)
				msg, err = hsms.DecodeHSMSPayload(p)
				rec = "DecodeHSMSPayload(control)"
			}
			if err != nil {
				panic(fmt.Sprintf("harness: %s failed: %v", rec, err))
			}
			m, _ = msg.(*hsms.ControlMessage)
		}
		w0 := want
		emit(m, c12Meta{name: "control", wantHdr: &w0})
		if r.IntN(2) == 0 {
			id := uint16(r.IntN(65536))
			var sb [4]byte
			binary.BigEndian.PutUint32(sb[:], r.Uint32())
			c1 := m.WithSessionID(id)
			w1 := want
			binary.BigEndian.PutUint16(w1[0:2], id)
			emit(c1, c12Meta{name: "control.WithSessionID", wantHdr: &w1})
			c2 := c1.WithSystemBytes(sb)
			w2 := w1
			copy(w2[6:], sb[:])
			emit(c2, c12Meta{name: "control.WithSystemBytes", wantHdr: &w2})
			rec += ".WithSessionID.WithSystemBytes"
		}

		return rec
	default: // secs2-msg
		item, rec := tracked.Build(r, node, in)
		h := c12DrawHdr(r)
		emit(secs2.NewMessage(h.stream, h.function, h.w, item), c12Meta{name: "secs2msg"})

		return "secs2.NewMessage(" + rec + ")"
	}
}

func c12Snap(o any, opt snapshot.Options) (s *snapshot.Snap, p any) {
	defer func() { p = recover() }()
	switch v := o.(type) {
	case secs2.Item:
		return snapshot.Item(v, opt), nil
	case hsms.Message:
		return snapshot.Message(v, opt), nil
	case secs2.SECS2Message:
		return snapshot.SECS2(v, opt), nil
	}
	panic(fmt.Sprintf("harness: c12Snap: unexpected object %T", o))
}

func c12Opt(node *e5.Node) snapshot.Options {
	opt := snapshot.Options{}
	if node.EncodedLen() > 8192 {
		opt.Light = true
		opt.MaxAt = 40
	}

	return opt
}

// classKey strips nothing but is kept short: the accessor class without the child path.
func c12Key(prov, stage, class string) string {
	if i := strings.IndexByte(class, '('); i > 0 && !strings.HasPrefix(class, "Get") && !strings.HasPrefix(class, "Item") && !strings.HasPrefix(class, "Equal") {
		class = class[:i] // AppendTo(spare-cap) -> AppendTo
	}

	return prov + ":" + stage + ":" + class
}

// c12HeaderModel checks the header-derived observations of a message snapshot against the E37
// header layout the harness computed for it.
func c12HeaderModel(s *snapshot.Snap, want *[10]byte) string {
	if want == nil {
		return ""
	}
	exp := map[string]string{
		"HeaderBytes": fmt.Sprintf("%x", want[:]),
		"SystemBytes": fmt.Sprintf("%x", want[6:]),
		"SessionID":   fmt.Sprint(binary.BigEndian.Uint16(want[0:2])),
		"ID":          fmt.Sprint(binary.BigEndian.Uint32(want[6:])),
	}
	for _, e := range s.Entries {
		if e.Path != "" {
			break
		}
		if w, ok := exp[e.Class]; ok && e.Text != w {
			return fmt.Sprintf("%s = %s, E37 layout says %s", e.Class, e.Text, w)
		}
		if e.Class == "ToBytes" && (len(e.Text) < 28 || e.Text[8:28] != exp["HeaderBytes"]) {
			return fmt.Sprintf("ToBytes = %.40s…, header part should be %s", e.Text, exp["HeaderBytes"])
		}
	}

	return ""
}

func c12Sequential(env *fw.Env, i int64) {
	prov := int(i % c12Provs)
	k := i / c12Provs
	node := c12Tree(env.RandAt("tree", i), k, false)
	opt := c12Opt(node)
	mode := "observe-mutate-observe"
	if k%2 == 1 {
		mode = "mutate-before-first-observation"
	}
	desc := c12Desc{Index: i, Prov: c12ProvNames[prov], Mode: mode, Tree: node.String()}
	enc := node.Encode(nil)
	if len(enc) <= 48 {
		desc.Hex = fmt.Sprintf("%x", enc)
	}
	env.Begin(i, desc)
	pname := c12ProvNames[prov]

	// ---- pristine twin: every object is snapshotted the moment it exists
	var refs []*snapshot.Snap
	var twinPanic any
	var twinIn tracked.Inputs
	func() {
		defer func() {
			if p := recover(); p != nil {
				twinPanic = p
			}
		}()
		c12Build(prov, env.RandAt("build", i), node, &twinIn, func(o any, _ c12Meta) {
			s, p := c12Snap(o, opt)
			if p != nil {
				panic(p)
			}
			refs = append(refs, s)
		})
	}()
	if twinPanic != nil {
		env.Violate(pname+":panic", fmt.Sprintf("building / first observation panicked: %v", twinPanic), desc)
		return
	}

	// ---- object under test
	var objs []any
	var metas []c12Meta
	var in tracked.Inputs
	desc.Recipe = c12Build(prov, env.RandAt("build", i), node, &in, func(o any, m c12Meta) {
		objs = append(objs, o)
		metas = append(metas, m)
	})
	env.Eval(fw.Hash64([]byte(pname), enc, []byte(desc.Recipe), []byte(mode)), true)
	env.Sample(desc)
	env.Event("prov_"+pname, 1)
	env.Event("objects_checked", int64(len(objs)))
	for _, m := range metas {
		switch {
		case strings.HasPrefix(m.name, "copy."):
			env.Event("restamped_copies", 1)
		case m.name == "derived":
			env.Event("derived_messages", 1)
		case strings.HasPrefix(m.name, "control"):
			env.Event("control_messages", 1)
		}
	}

	var taken []*snapshot.Snap
	var idents []secs2.Item // identities handed out by the messages of the ident group
	observe := func(stage string) bool {
		ok := true
		for k, o := range objs {
			s, p := c12Snap(o, opt)
			if p != nil {
				env.Violate(pname+":panic", fmt.Sprintf("%s: snapshot (%s) panicked: %v", metas[k].name, stage, p), desc)
				return false
			}
			env.Event("snapshots", 1)
			env.Event("observations_compared", int64(len(s.Entries)))
			taken = append(taken, s)
			if d := snapshot.Compare(s, refs[k], nil); d != nil {
				env.Violate(c12Key(pname, stage, d.Class),
					fmt.Sprintf("%s (%s): observation %s at path %q is %q; the pristine twin shows %q", metas[k].name, stage, d.Class, d.Path, d.A, d.B), desc)
				ok = false
			}
			if msg := c12HeaderModel(s, metas[k].wantHdr); msg != "" {
				env.Violate(c12Key(pname, stage, "header-model"), metas[k].name+" ("+stage+"): "+msg, desc)
				ok = false
			}
			if metas[k].ident {
				idents = append(idents, s.Idents...)
			}
		}

		return ok
	}

	if mode == "observe-mutate-observe" {
		if !observe("first-observation") {
			return
		}
	}
	env.Event("input_slices_mutated", int64(in.Mutate()))
	if !observe("after-input-mutation") {
		return
	}
	nOut := 0
	for _, s := range taken {
		nOut += s.Outs.Mutate()
	}
	env.Event("output_slices_mutated", int64(nOut))
	if !observe("after-output-mutation") {
		return
	}
	// one decoded item identity per message family (base and its re-stamped copies)
	if len(idents) > 1 {
		env.Event("item_identity_checks", int64(len(idents)-1))
		for _, it := range idents[1:] {
			if it != idents[0] {
				env.Violate(pname+":item-identity", "two Item() calls on a message / its re-stamped copies returned different item identities (the body was decoded more than once)", desc)
				break
			}
		}
	}
}

// ---------------------------------------------------------------------------------------------
// concurrent phase

const c12Readers = 16

var c12ConcProvs = []int{0, 1, 2, 3, 4, 5, 6, 9, 3, 4, 6, 5}

func c12Concurrent(env *fw.Env) {
	total := int64(env.Pick(1920, 30000))
	for i := int64(0); i < total; i++ {
		if !env.Mine(i) || !env.Want(i) {
			continue
		}
		if env.Stop() {
			break
		}
		c12ConcOne(env, i)
	}
}

func c12ConcOne(env *fw.Env, i int64) {
	prov := c12ConcProvs[int(i)%len(c12ConcProvs)]
	pname := c12ProvNames[prov]
	k := i / int64(len(c12ConcProvs))
	node := c12Tree(env.RandAt("tree", i), k, true)
	opt := snapshot.Options{MaxAt: 40}
	desc := c12Desc{Index: i, Prov: pname, Mode: "concurrent-first-calls", Tree: node.String()}
	env.Begin(i, desc)

	// pristine twin (only the first object of the case is used in this phase)
	var ref *snapshot.Snap
	var tp any
	var twinIn tracked.Inputs
	func() {
		defer func() { tp = recover() }()
		c12Build(prov, env.RandAt("build", i), node, &twinIn, func(o any, _ c12Meta) {
			if ref == nil {
				ref, _ = c12Snap(o, opt)
			}
		})
	}()
	if tp != nil || ref == nil {
		env.Violate(pname+":panic", fmt.Sprintf("building / first observation panicked: %v", tp), desc)
		return
	}
	var obj any
	var in tracked.Inputs
	desc.Recipe = c12Build(prov, env.RandAt("build", i), node, &in, func(o any, _ c12Meta) {
		if obj == nil {
			obj = o
		}
	})
	env.Eval(fw.Hash64([]byte(pname), node.Encode(nil), []byte(desc.Recipe)), true)
	env.Sample(desc)
	env.Event("concurrent_cases", 1)
	env.Event("conc_prov_"+pname, 1)

	// slices returned BEFORE the readers start, obtained without touching lazily memoized state:
	// raw-frame messages: ToBytes / AppendBodyTo never decode; constructed messages: the harness'
	// own handle on the item (the message body has not been encoded yet); items: a full snapshot.
	// Every second case is COLD: nothing at all is called on the object before the barrier, so the readers' calls are
	// the very first ones on it (the pre-reader snapshot below necessarily sizes and encodes a constructed item once,
	// which would hide any lazily memoized state that is filled without synchronisation).
	cold := (i/int64(len(c12ConcProvs)))%2 == 1
	if cold {
		env.Event("concurrent_cases_cold", 1)
	}
	var pre snapshot.Outputs
	dm, isData := obj.(*hsms.DataMessage)
	var probe any = obj
	if cold {
		probe = nil
	}
	switch v := probe.(type) {
	case secs2.Item:
		s, _ := c12Snap(v, opt)
		if s != nil {
			pre = s.Outs
		}
	case *hsms.DataMessage:
		if pname == "new-data-msg" {
			// Item() of a constructed message is pre-seeded (not lazy); its body encoding is
			if it, _ := v.Item(); it != nil {
				s, _ := c12Snap(it, opt)
				if s != nil {
					pre = s.Outs
				}
			}
		} else {
			b := v.ToBytes()
			a := v.AppendBodyTo(make([]byte, 3, 3+v.BodyLen()+9))
			pre.Bytes = append(pre.Bytes, b[:cap(b)], a[:cap(a)])
		}
	case hsms.Message:
		b := v.ToBytes()
		pre.Bytes = append(pre.Bytes, b[:cap(b)])
	}

	snaps := make([]*snapshot.Snap, c12Readers)
	panics := make([]any, c12Readers)
	// per-reader begin/end instants (evidence only — "did first calls really overlap" —, never a
	// verdict; plain per-goroutine variables so that no synchronization is added between readers)
	t0 := time.Now()
	begins := make([]time.Duration, c12Readers)
	ends := make([]time.Duration, c12Readers)
	var ready, done sync.WaitGroup
	start := make(chan struct{})
	ready.Add(c12Readers + 1)
	done.Add(c12Readers + 1)
	for g := 0; g < c12Readers; g++ {
		go func(g int) {
			defer done.Done()
			ready.Done()
			<-start
			target := obj
			if isData {
				switch g % 4 {
				case 1:
					target = dm.WithSessionID(uint16(1000 + g))
				case 2:
					target = dm.WithSystemBytes([4]byte{byte(g), 2, 3, 4})
				case 3:
					target = dm.WithID(uint32(77 + g)).WithSessionID(uint16(g))
				}
			}
			o := opt
			o.Order = g
			begins[g] = time.Since(t0)
			snaps[g], panics[g] = c12Snap(target, o)
			ends[g] = time.Since(t0)
		}(g)
	}
	var nIn, nOut int
	go func() {
		defer done.Done()
		ready.Done()
		<-start
		for round := 0; round < 3; round++ {
			nIn += in.Mutate()
			nOut += pre.Mutate()
			runtime.Gosched()
		}
	}()
	ready.Wait()
	close(start)
	done.Wait()
	env.Event("input_slices_mutated", int64(nIn))
	env.Event("output_slices_mutated", int64(nOut))
	overlap := 0
	for a := 0; a < c12Readers; a++ {
		for b := a + 1; b < c12Readers; b++ {
			if begins[a] < ends[b] && begins[b] < ends[a] {
				overlap++
			}
		}
	}
	env.Event("overlapping_reader_pairs", int64(overlap))
	if overlap > 0 {
		env.Event("cases_with_overlapping_readers", 1)
	}

	var first secs2.Item
	haveFirst := false
	for g, s := range snaps {
		if panics[g] != nil || s == nil {
			env.Violate(pname+":panic", fmt.Sprintf("concurrent reader %d panicked: %v", g, panics[g]), desc)
			return
		}
		env.Event("concurrent_first_call_snapshots", 1)
		env.Event("snapshots", 1)
		env.Event("objects_checked", 1)
		var skip map[string]bool
		if isData && g%4 != 0 {
			skip = snapshot.HeaderClasses
			env.Event("restamped_copies", 1)
		}
		if d := snapshot.Compare(s, ref, skip); d != nil {
			env.Violate(c12Key(pname, "concurrent", d.Class),
				fmt.Sprintf("reader %d of %d concurrent first-call snapshots: observation %s at path %q is %q; the pristine twin shows %q", g, c12Readers, d.Class, d.Path, d.A, d.B), desc)
			return
		}
		for _, it := range s.Idents {
			if !haveFirst {
				first, haveFirst = it, true
				continue
			}
			env.Event("item_identity_checks", 1)
			if it != first {
				env.Violate(pname+":item-identity", fmt.Sprintf("concurrent reader %d received a different Item() identity than reader 0: the lazy decode ran more than once", g), desc)
				return
			}
		}
	}
	// derived_messages is a sequential-phase observation; keep the required-event list satisfied
	// per phase only where it applies
	_ = twinIn
}
