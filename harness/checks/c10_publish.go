package checks

import (
	"errors"
	"fmt"
	"strings"
	"sync/atomic"
	"time"

	"github.com/arloliu/go-secs/v2/hsms"

	"verif/fw"
	"verif/peer"
)

// c10CloseAfterPublish: Close lands while the reconnect loop has just PUBLISHED the next generation and has not yet
// started its transport (the loop is parked at the hsms.connectLoop.afterPublish point until Close is under way). Either
// Close tears that generation down or the loop abandons it; in both cases nothing of it may be left: no listener, no
// socket, no goroutine, no further dial or listen.

type c10PublishCase struct {
	Index  int64 `json:"index"`
	Active bool  `json:"active"`
}

func c10CloseAfterPublish(env *fw.Env, cs c10PublishCase) {
	env.Begin(cs.Index, cs)
	env.Sample(cs)
	env.Eval(fw.HashStr("c10publish", fmt.Sprint(cs.Active)), true)
	env.Event("close_after_publish_cases", 1)
	rg, err := newRig(rigOpts{Active: cs.Active, T5: 30 * time.Millisecond, BackoffInit: 5 * time.Millisecond, CloseTimeout: time.Second})
	if err != nil {
		env.Discard()
		return
	}
	var armed atomic.Bool
	parked := make(chan struct{}, 1)
	release := make(chan struct{})
	hsms.VerifSetHook("hsms.connectLoop.afterPublish", func(time.Duration) {
		if armed.CompareAndSwap(true, false) {
			parked <- struct{}{}
			select {
			case <-release:
			case <-time.After(5 * time.Second):
			}
		}
	})
	defer hsms.VerifSetHook("hsms.connectLoop.afterPublish", nil)
	pc, err := rg.Establish(func(*peer.Conn, peer.Frame) bool { return false })
	if err != nil {
		env.Discard()
		_ = rg.Shutdown()
		return
	}
	armed.Store(true)
	pc.Reset() // involuntary drop: the reconnect loop starts, publishes the next generation and parks
	select {
	case <-parked:
	case <-time.After(10 * time.Second):
		env.Discard()
		close(release)
		_ = rg.Shutdown()
		return
	}
	t0 := time.Now()
	done := make(chan error, 1)
	go func() { done <- rg.Conn.Close() }()
	time.Sleep(150 * time.Millisecond)
	close(release)
	select {
	case err := <-done:
		if el := time.Since(t0); el > 6*time.Second {
			env.Violate("close-too-slow-after-publish", fmt.Sprintf("Close took %v (close timeout 1 s)", el.Round(time.Millisecond)), cs)
		}
		if err != nil && !errors.Is(err, hsms.ErrCloseTimeout) {
			env.Violate("close-unexpected-error-after-publish", fmt.Sprintf("Close returned %v", err), cs)
		}
	case <-time.After(20 * time.Second):
		env.Violate("close-hangs-after-publish", "Close has not returned 20 s after the call\n"+strings.Join(libGoroutines(), "\n\n"), cs)
		return
	}
	if rg.L != nil {
		defer rg.L.Close()
	}
	d0, l0 := rg.Trk.DialCount(), rg.Trk.ListenCount()
	time.Sleep(150 * time.Millisecond)
	if d, l := rg.Trk.DialCount(), rg.Trk.ListenCount(); d != d0 || l != l0 {
		env.Violate("reconnect-after-close", fmt.Sprintf("after Close returned the library dialed/listened again (dials %d->%d, listens %d->%d)", d0, d, l0, l), cs)
	}
	if !waitFor(3*time.Second, func() bool { c, l := rg.Trk.Unclosed(); return c == 0 && l == 0 }) {
		c, l := rg.Trk.Unclosed()
		env.Violate("socket-leak", fmt.Sprintf("Close raced the reconnect loop right after it published the next generation: %d sockets and %d listeners handed to the library are still open", c, l), cs)
	}
	if !waitFor(5*time.Second, func() bool { return len(libGoroutines()) == 0 }) {
		env.Violate("goroutine-leak", "library goroutines still running 5 s after Close:\n"+strings.Join(libGoroutines(), "\n\n"), cs)
	} else {
		env.Event("close_after_publish_clean", 1)
	}
}
