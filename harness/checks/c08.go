package checks

import (
	"fmt"
	"os"
	"math/rand/v2"
	"strings"
	"time"

	"github.com/arloliu/go-secs/v2/hsms"

	"verif/fw"
	"verif/peer"
)

// C08 — HSMS-SS control procedures answer every peer frame sequence per SEMI E37.
func init() {
	fw.Register(&fw.Check{
		ID:    "C08",
		Level: "exploration",
		Rule: "case i = (role active|passive, equip|host, session-id validation on|off, supervisor-step delay injection on|off, a frame sequence of length 1..12 drawn from a grammar over every SType 0..255, " +
			"PType 0/non-0, header-only/with body, arbitrary session id / system bytes / status bytes, favouring state-changing prefixes; for the active role also answers/rejects/duplicates of the library's own open " +
			"Select transaction; written one-frame-per-segment or coalesced; optionally a second TCP connection to the passive endpoint). A fresh real hsmsss connection per case; the scripted peer reads the exact FIFO " +
			"outbound frame list fenced by a Linktest barrier. Oracle = reference E37 responder state machine (c08Model). distinct = hash(config, frame sequence); non-trivial = the sequence contains at least one " +
			"state-changing frame (select/deselect/separate) or at least one frame that must be rejected. Plus the complete product role x equip x {Select,Deselect,Linktest}.rsp x status {0,1,3} x timing " +
			"{library sender parked right behind its write, sender already waiting for the reply} of a control response carrying the system bytes of a DATA transaction the library has open: exactly one Reject.req " +
			"reason 3, link stays Selected, the genuine secondary still completes the transaction.",
		Assumptions: []string{
			"the responder table in c08Model is the reading of SEMI E37/E37.1 given in the property statement",
			"a duplicate Select.rsp that races the closing of the library's own Select transaction may be either discarded or answered Reject(3); both are accepted for that one frame",
			"reject frames are compared on reason, offending type byte and system bytes; responses on status, system bytes, session id (the request's; 0xFFFF for Linktest.rsp whatever the request carried) and header byte 2 = 0",
		},
		Phases: func(tier string) []fw.Phase {
			return []fw.Phase{{Name: "responder", Race: true, Shards: 16, Timeout: tierDur(tier, 6, 40), HangIsViolation: true}}
		},
		Worker:         c08Worker,
		RequiredEvents: []string{"sequences", "frames_sent", "frames_compared", "rejects_expected", "selects", "deselects", "second_conn_refused", "open_data_tx_cases", "open_data_tx_completed_by_secondary"},
	})
}

// ---- reference responder model ---------------------------------------------------------------

type c08Exp struct {
	SType    byte
	B2, B3   byte
	Sys      uint32
	Data     bool // an outbound DATA frame (S9F1) is expected; only stream/function compared
	Optional bool // may be absent (documented race)
	SessSet  bool   // responses: the session id the response must carry (the request's; 0xFFFF for Linktest.rsp)
	Sess     uint16
	Why      string
}

type c08Model struct {
	active     bool
	validate   bool
	session    uint16
	selected   bool
	openSelect bool   // active: the library's own Select.req is unanswered
	selectSys  uint32 // its system bytes
	closedOpen bool   // the library's select transaction was just completed (duplicate race window)
	ended      bool   // the connection must end (no further frames processed)
	endWhy     string
	deliver    []uint32
}

func c08ValidSType(s byte) bool { return s <= 7 || s == 9 }

// feed returns the frames the library must send in answer to f.
func (m *c08Model) feed(f peer.Frame) []c08Exp {
	if m.ended {
		return nil
	}
	body := len(f.Body) > 0
	switch {
	case f.PType != 0:
		return []c08Exp{{SType: peer.STRejectReq, B2: f.PType, B3: 2, Sys: f.Sys, Why: "unsupported PType"}}
	case !c08ValidSType(f.SType) || f.SType == 8:
		return []c08Exp{{SType: peer.STRejectReq, B2: f.SType, B3: 1, Sys: f.Sys, Why: "undefined SType"}}
	case f.SType != peer.STData && body:
		return []c08Exp{{SType: peer.STRejectReq, B2: f.SType, B3: 1, Sys: f.Sys, Why: "control frame with a body"}}
	}
	switch f.SType {
	case peer.STData:
		if !m.selected {
			return []c08Exp{{SType: peer.STRejectReq, B2: 0, B3: 4, Sys: f.Sys, Why: "data while not selected"}}
		}
		if m.validate && f.Session != m.session && !(f.Stream() == 9 && f.Function() == 1) {
			// the S9F1 notification is itself a data message sent through the async queue and is gated by the
			// Selected state at WRITE time, so a following Deselect/Separate may legitimately suppress it
			return []c08Exp{{Data: true, B2: 9, B3: 1, Optional: true, Why: "S9F1 for an unrecognized session id"}}
		}
		m.deliver = append(m.deliver, f.Sys)

		return nil
	case peer.STSelectReq:
		if !m.selected {
			m.selected = true
			return []c08Exp{{SType: peer.STSelectRsp, B3: 0, Sys: f.Sys, SessSet: true, Sess: f.Session, Why: "first select"}}
		}

		return []c08Exp{{SType: peer.STSelectRsp, B3: 1, Sys: f.Sys, SessSet: true, Sess: f.Session, Why: "already selected"}}
	case peer.STDeselectReq:
		if m.selected {
			m.selected = false
			return []c08Exp{{SType: peer.STDeselectRsp, B3: 0, Sys: f.Sys, SessSet: true, Sess: f.Session, Why: "deselect while selected"}}
		}

		return []c08Exp{{SType: peer.STDeselectRsp, B3: 1, Sys: f.Sys, SessSet: true, Sess: f.Session, Why: "deselect while not selected"}}
	case peer.STLinktestReq:
		return []c08Exp{{SType: peer.STLinktestRsp, Sys: f.Sys, SessSet: true, Sess: 0xFFFF, Why: "linktest"}}
	case peer.STSelectRsp, peer.STDeselectRsp, peer.STLinktestRsp:
		if m.openSelect && f.Sys == m.selectSys {
			// the library's own Select transaction is completed by ANY control response carrying its system bytes
			m.openSelect, m.closedOpen = false, true
			if f.SType == peer.STSelectRsp && (f.B3 == 0 || f.B3 == 1) {
				if f.B3 == 0 {
					m.selected = true
				}

				return nil
			}
			m.ended, m.endWhy = true, "the library's Select was not accepted"

			return nil
		}
		if m.closedOpen && f.Sys == m.selectSys {
			return []c08Exp{{SType: peer.STRejectReq, B2: f.SType, B3: 3, Sys: f.Sys, Optional: true, Why: "duplicate response racing the close of the select transaction"}}
		}

		return []c08Exp{{SType: peer.STRejectReq, B2: f.SType, B3: 3, Sys: f.Sys, Why: "response with no open transaction"}}
	case peer.STRejectReq:
		if m.openSelect && f.Sys == m.selectSys {
			m.openSelect = false
			m.ended, m.endWhy = true, "the library's Select was rejected"
		}

		return nil // an orphan Reject is dropped
	case peer.STSeparateReq:
		if m.selected {
			m.ended, m.endWhy = true, "Separate while selected"
		}

		return nil
	}

	return nil
}

// ---- case generation ---------------------------------------------------------------------------

type c08Case struct {
	Index     int64    `json:"index"`
	Active    bool     `json:"active"`
	Equip     bool     `json:"equip"`
	Validate  bool     `json:"validate_session"`
	Delays    bool     `json:"delay_injection"`
	Coalesce  bool     `json:"coalesced_write"`
	SecondAt  int      `json:"second_conn_after_frame"`
	Frames    []string `json:"frames"`
	AnswerSel string   `json:"answer_to_library_select"`
}

const c08Session = 0x1234

func c08GenFrame(r *rand.Rand, m *c08Model, sysCtr *uint32) peer.Frame {
	*sysCtr++
	sys := uint32(0x10000000) | *sysCtr<<8 | uint32(r.IntN(256))
	sess := uint16(c08Session)
	switch r.IntN(6) {
	case 0:
		sess = 0xFFFF
	case 1:
		sess = uint16(r.IntN(65536))
	case 2:
		sess = c08Session ^ 1<<r.IntN(16) // differs from the configured id in exactly one bit (any of the 16)
	}
	body := func() []byte {
		switch r.IntN(4) {
		case 0:
			return nil
		case 1:
			return []byte{0x41, 0x03, 'a', 'b', 'c'} // A "abc"
		case 2:
			return []byte{0x01, 0x02, 0xA5, 0x01, 0x07, 0x21, 0x01, 0xFF} // L[2] U1 7, B 0xFF
		default:
			return []byte{0x41, 0x7F, 'x'} // invalid SECS-II (truncated)
		}
	}
	data := func() peer.Frame {
		st := byte(1 + r.IntN(127))
		fn := byte(r.IntN(256))
		w := fn%2 == 1 && r.IntN(2) == 0
		if r.IntN(12) == 0 {
			st, fn, w = 9, 1, false
		}

		return peer.Data(st, fn, w, sess, sys, body())
	}
	k := r.IntN(100)
	switch {
	case k < 18:
		return peer.Control(peer.STSelectReq, sess, byte(r.IntN(2)*r.IntN(256)), byte(r.IntN(2)*r.IntN(256)), sys)
	case k < 32:
		return peer.Control(peer.STDeselectReq, sess, 0, byte(r.IntN(2)*r.IntN(256)), sys)
	case k < 40:
		if r.IntN(2) == 0 {
			return peer.Control(peer.STLinktestReq, sess, 0, 0, sys) // a session id other than 0xFFFF: the answer still carries 0xFFFF
		}

		return peer.Control(peer.STLinktestReq, 0xFFFF, 0, 0, sys)
	case k < 58:
		return data()
	case k < 66: // orphan responses
		st := []byte{peer.STSelectRsp, peer.STDeselectRsp, peer.STLinktestRsp}[r.IntN(3)]
		return peer.Control(st, sess, 0, byte(r.IntN(4)), sys)
	case k < 70: // orphan reject
		return peer.RejectReq(sess, byte(r.IntN(10)), byte(1+r.IntN(4)), sys)
	case k < 76:
		return peer.SeparateReq(sess, sys)
	case k < 84: // undefined SType
		for {
			st := byte(r.IntN(256))
			if st == 8 || st > 9 {
				f := peer.Control(st, sess, byte(r.IntN(256)), byte(r.IntN(256)), sys)
				if r.IntN(2) == 0 {
					f.Body = body()
				}

				return f
			}
		}
	case k < 91: // PType != 0, any SType
		f := peer.Control(byte(r.IntN(256)), sess, byte(r.IntN(256)), byte(r.IntN(256)), sys)
		f.PType = byte(1 + r.IntN(255))
		if r.IntN(2) == 0 {
			f.Body = body()
		}

		return f
	case k < 96: // control with body
		st := []byte{1, 2, 3, 4, 5, 6, 7, 9}[r.IntN(8)]
		f := peer.Control(st, sess, 0, 0, sys)
		f.Body = []byte{0x21, 0x01, 0x00}

		return f
	default: // something aimed at the library's open select transaction (active role)
		if m.active && (m.openSelect || m.closedOpen) {
			k := r.IntN(4)
			if m.closedOpen && k == 0 {
				// a duplicate status-0/1 Select.rsp that races the library's deregistration of its completed
				// Select transaction is either an orphan (Reject 3) or a second completion (re-commit):
				// scheduling decides, so no expected answer exists; not generated (see DESIGN.md C08)
				k = 1
			}
			switch k {
			case 0:
				return peer.SelectRsp(sess, byte(r.IntN(2)), m.selectSys)
			case 1:
				return peer.SelectRsp(sess, byte(2+r.IntN(200)), m.selectSys)
			case 2:
				return peer.RejectReq(sess, peer.STSelectReq, byte(1+r.IntN(4)), m.selectSys)
			default:
				return peer.Control(peer.STLinktestRsp, 0xFFFF, 0, 0, m.selectSys)
			}
		}

		return data()
	}
}

func c08Worker(env *fw.Env) {
	total := int64(env.Pick(1600, 24000))
	for i := int64(0); i < total; i++ {
		if !env.Mine(i) || !env.Want(i) {
			continue
		}
		if env.Stop() {
			break
		}
		c08One(env, i)
	}
	// control responses that collide with a data transaction the LIBRARY has open (c08_tx.go): the complete
	// product role x equip x response type x status x timing = 72 cases, repeated in the thorough tier
	for rep := 0; rep < env.Pick(1, 6); rep++ {
		for k := 0; k < 72; k++ {
			i := total + int64(rep*72+k)
			if !env.Mine(i) || !env.Want(i) {
				continue
			}
			if env.Stop() {
				return
			}
			c08OpenDataTx(env, i, k)
		}
	}
}

func c08One(env *fw.Env, i int64) {
	r := env.RandAt("seq", i)
	cs := c08Case{Index: i, Active: i%2 == 0, Equip: r.IntN(2) == 0, Validate: r.IntN(4) == 0, Delays: r.IntN(2) == 0, Coalesce: r.IntN(2) == 0, SecondAt: -1}
	n := 1 + r.IntN(12)
	if !cs.Active && r.IntN(3) == 0 {
		cs.SecondAt = r.IntN(n + 1)
	}
	env.Begin(i, cs)

	rg, err := newRig(rigOpts{Active: cs.Active, Equip: cs.Equip, ValidateSession: cs.Validate, SessionID: c08Session})
	if err != nil {
		env.Note("rig: %v", err)
		env.Discard()
		return
	}
	dl := &deliveryLog{}
	rg.Conn.AddDataMessageHandler(dl.handler(0))
	var undo func() int64
	if cs.Delays {
		undo = installDelays(env.Seed^uint64(i)*77, 1500*time.Microsecond, 5, "hsms.sup.beforeStep")
	}
	defer func() {
		if undo != nil {
			env.Event("delays_injected", undo())
		}
	}()
	if err := rg.Open(); err != nil {
		env.Violate("open-failed", fmt.Sprintf("Open(background) failed: %v", err), cs)
		return
	}
	defer func() { _ = rg.Shutdown() }()
	pc, err := rg.PeerConnect(10 * time.Second)
	if err != nil {
		env.Note("case %d: peer connect: %v", i, err)
		env.Discard()
		return
	}
	defer pc.Close()
	pc.Start()

	m := &c08Model{active: cs.Active, validate: cs.Validate, session: c08Session}
	var expected []c08Exp
	var sent []peer.Frame
	if cs.Active {
		f, _, err := pc.Expect(10*time.Second, func(f peer.Frame) bool { return f.SType == peer.STSelectReq && f.PType == 0 })
		if err != nil {
			env.Violate("active-no-select-req", fmt.Sprintf("active endpoint did not send Select.req after connect: %v", err), cs)
			return
		}
		m.openSelect, m.selectSys = true, f.Sys
		switch r.IntN(4) {
		case 0:
			cs.AnswerSel = "status0-first"
			sent = append(sent, peer.SelectRsp(f.Session, 0, f.Sys))
		case 1:
			cs.AnswerSel = "peer-selects-first-then-answers"
			sent = append(sent, peer.SelectReq(c08Session, 0x0A0A0A0A), peer.SelectRsp(f.Session, byte(r.IntN(2)), f.Sys))
		default:
			cs.AnswerSel = "unanswered-or-by-grammar"
		}
	}
	var sysCtr uint32
	// model pass over the forced prefix
	for _, f := range sent {
		expected = append(expected, m.feed(f)...)
	}
	for len(sent) < n+2 && len(sent) < 14 {
		// bias: reach Selected early in half the passive cases so the data/deselect rules are exercised
		var f peer.Frame
		if !cs.Active && len(sent) == 0 && r.IntN(2) == 0 {
			f = peer.SelectReq(c08Session, 0x0B0B0B0B)
		} else {
			f = c08GenFrame(r, m, &sysCtr)
		}
		sent = append(sent, f)
		expected = append(expected, m.feed(f)...)
		if m.ended {
			break
		}
	}
	// frames pipelined BEHIND a Separate.req that ended the session (same TCP write): the connection is over, nothing is
	// prescribed for them — no answer, no delivery. They are not fed to the model.
	trailing := 0
	if m.ended && m.endWhy == "Separate while selected" && r.IntN(3) != 0 {
		cs.Coalesce = true
		for k, nt := 0, 1+r.IntN(4); k < nt; k++ {
			switch r.IntN(3) {
			case 0:
				sent = append(sent, peer.Data(1, 1, true, c08Session, 0x7A110000|uint32(k), []byte{0x41, 0x01, 't'}))
			case 1:
				sent = append(sent, peer.LinktestReq(0x7A120000|uint32(k)))
			default:
				sent = append(sent, peer.SelectReq(c08Session, 0x7A130000|uint32(k)))
			}
			trailing++
		}
		env.Event("frames_pipelined_behind_a_separate", int64(trailing))
	}
	nontrivial := false
	for _, f := range sent {
		cs.Frames = append(cs.Frames, f.String())
		if f.PType != 0 || f.SType == peer.STSelectReq || f.SType == peer.STDeselectReq || f.SType == peer.STSeparateReq || !c08ValidSType(f.SType) {
			nontrivial = true
		}
	}
	for _, e := range expected {
		if e.SType == peer.STRejectReq {
			nontrivial = true
			env.Event("rejects_expected", 1)
		}
	}
	env.Begin(i, cs)
	env.Eval(fw.HashStr(fmt.Sprint(cs.Active, cs.Equip, cs.Validate), strings.Join(cs.Frames, "|")), nontrivial)
	env.Sample(cs)
	env.Event("sequences", 1)
	env.Event("frames_sent", int64(len(sent)))

	// ---- play the sequence ----
	var second *peer.Conn
	write := func(fs []peer.Frame) error {
		if cs.Coalesce {
			return pc.Send(fs...)
		}
		for _, f := range fs {
			if err := pc.Send(f); err != nil {
				return err
			}
		}

		return nil
	}
	openSecond := func() {
		if second != nil {
			return
		}
		addr, err := rg.Trk.ListenAddr(time.Second)
		if err != nil {
			return
		}
		c2, err := peer.Dial(addr, 99, 2*time.Second)
		if err != nil {
			// refused at TCP level is also "refused"
			env.Event("second_conn_refused", 1)
			return
		}
		second = c2.Start()
		_ = second.Send(peer.SelectReq(c08Session, 0x0C0C0C0C))
	}
	if m.ended && cs.SecondAt >= len(sent)-trailing-1 {
		cs.SecondAt = -1 // the session ends with the last frame: a later dial could reach the NEXT generation's listener
	}
	if cs.SecondAt >= 0 && cs.SecondAt < len(sent) {
		if err := write(sent[:cs.SecondAt]); err == nil {
			openSecond()
			if m.ended && second != nil {
				// the rest of the sequence ends the session: let the refusal happen while the session is still live
				// (otherwise the accept loop may see the second connection only after the end, as the NEXT session)
				second.WaitClosed(5 * time.Second)
			}
			err = write(sent[cs.SecondAt:])
			_ = err
		}
	} else {
		_ = write(sent)
		if cs.SecondAt >= 0 {
			openSecond()
		}
	}

	// ---- collect ----
	var got []peer.Frame
	if m.ended {
		if !pc.WaitClosed(10 * time.Second) {
			env.Violate("no-disconnect-"+strings.ReplaceAll(m.endWhy, " ", "-"), "the model says the connection ends ("+m.endWhy+") but the library kept it open for 10 s", cs)
			return
		}
		for {
			f, err := pc.Recv(time.Millisecond)
			if err != nil {
				break
			}
			got = append(got, f)
		}
		env.Event("connection_ended_as_expected", 1)
	} else {
		before, err := pc.Barrier(10 * time.Second)
		if err != nil {
			env.Violate("link-dropped-or-mute", fmt.Sprintf("after the sequence the library did not answer a Linktest barrier (%v): the link was dropped or the receive loop is stuck; the model expects the link to stay up", err), cs)
			return
		}
		got = before
	}
	// drop the active library's own Select.req if it is in the list (it was consumed above, so normally absent)
	if os.Getenv("C08_DEBUG") != "" {
		mt := rg.Conn.Metrics()
		fmt.Println("DEBUG metrics recv", mt.DataMsgRecvCount(), "send", mt.DataMsgSendCount(), "drop", mt.DataMsgDropNotSelectedCount(), "asyncErr", mt.AsyncSendErrCount(), "state", rg.Conn.State(), "warns", rg.Log.Lines(""))
	}
	c08Compare(env, cs, expected, got, m)

	// ---- state and deliveries ----
	if !m.ended {
		want := hsms.NotSelectedState
		if m.selected {
			want = hsms.SelectedState
		}
		if st := rg.Conn.State(); st != want {
			env.Violate("state-differs-from-model-"+want.String(), fmt.Sprintf("after the sequence State()=%v, the responder model says %v", st, want), cs)
		}
		if m.selected {
			env.Event("ends_selected", 1)
		}
		var gotD []uint32
		for _, d := range dl.snapshot() {
			gotD = append(gotD, d.Sys)
		}
		if fmt.Sprint(gotD) != fmt.Sprint(m.deliver) {
			env.Violate("deliveries-differ", fmt.Sprintf("handler deliveries (system bytes) %08x, model expects %08x", gotD, m.deliver), cs)
		}
		env.Event("deliveries_checked", int64(len(m.deliver)))
	} else if trailing > 0 {
		time.Sleep(20 * time.Millisecond)
		var gotD []uint32
		for _, d := range dl.snapshot() {
			gotD = append(gotD, d.Sys)
		}
		if fmt.Sprint(gotD) != fmt.Sprint(m.deliver) {
			env.Violate("delivered-after-separate", fmt.Sprintf("handler deliveries (system bytes) %08x, model expects %08x: data pipelined behind the Separate.req that ended the session was delivered", gotD, m.deliver), cs)
		}
	}
	for _, f := range sent {
		switch f.SType {
		case peer.STSelectReq:
			if f.PType == 0 {
				env.Event("selects", 1)
			}
		case peer.STDeselectReq:
			if f.PType == 0 {
				env.Event("deselects", 1)
			}
		}
	}
	// ---- second connection ----
	if second != nil {
		if !second.WaitClosed(5 * time.Second) {
			env.Violate("second-connection-served", "a second TCP connection to the passive endpoint stayed open for 5 s while a session was live", cs)
		} else {
			env.Event("second_conn_refused", 1)
			for _, ev := range second.Log() {
				env.Violate("second-connection-answered", "the library answered on the second TCP connection: "+ev.Frame.String(), cs)
				break
			}
		}
		second.Close()
		if !m.ended {
			if _, err := pc.Barrier(10 * time.Second); err != nil {
				env.Violate("second-connection-disturbed-session", fmt.Sprintf("after the refused second connection the first session no longer answers: %v", err), cs)
			}
		}
	}
}

func c08Compare(env *fw.Env, cs c08Case, exp []c08Exp, got []peer.Frame, m *c08Model) {
	gi := 0
	describe := func() string {
		var sb strings.Builder
		sb.WriteString("expected:")
		for _, e := range exp {
			if e.Data {
				fmt.Fprintf(&sb, " [data S%dF%d]", e.B2, e.B3)
			} else {
				opt := ""
				if e.Optional {
					opt = "?"
				}
				fmt.Fprintf(&sb, " [%s%s b2=%d b3=%d sys=%08x]", peer.Control(e.SType, 0, 0, 0, 0).Kind(), opt, e.B2, e.B3, e.Sys)
			}
		}
		sb.WriteString("\n     got:")
		for _, g := range got {
			fmt.Fprintf(&sb, " [%s]", g.String())
		}

		return sb.String()
	}
	for _, e := range exp {
		if gi >= len(got) {
			if e.Optional || m.ended {
				continue // after a disconnect the tail of the answers may be lost with the socket
			}
			env.Violate("missing-answer-"+c08KindKey(e), "the library did not send an expected frame ("+e.Why+")\n"+describe(), cs)

			return
		}
		g := got[gi]
		match := false
		if e.Data {
			match = g.IsData() && g.Stream() == e.B2 && g.Function() == e.B3
		} else {
			match = g.PType == 0 && g.SType == e.SType && g.Sys == e.Sys && g.B3 == e.B3 && (e.SType != peer.STRejectReq || g.B2 == e.B2) &&
				(!e.SessSet || (g.Session == e.Sess && g.B2 == 0))
		}
		if !match {
			if e.Optional {
				continue
			}
			env.Violate("wrong-answer-"+c08KindKey(e), fmt.Sprintf("answer %d differs (%s)\n%s", gi, e.Why, describe()), cs)

			return
		}
		gi++
		env.Event("frames_compared", 1)
	}
	if gi < len(got) {
		env.Violate("unexpected-frame-"+got[gi].Kind(), "the library sent a frame the model does not expect: "+got[gi].String()+"\n"+describe(), cs)
	}
}

func c08KindKey(e c08Exp) string {
	if e.Data {
		return "s9f1"
	}
	k := peer.Control(e.SType, 0, 0, 0, 0).Kind()
	if e.SType == peer.STRejectReq {
		return fmt.Sprintf("%s-reason%d", k, e.B3)
	}

	return fmt.Sprintf("%s-status%d", k, e.B3)
}
