package checks

import (
	"bytes"
	"fmt"
	"runtime"

	"github.com/arloliu/go-secs/v2/secs2"

	"verif/fw"
	"verif/gen"
	"verif/mon/itemcmp"
	"verif/ref/e5"
)

// C02 — the decoder is total, memory-bounded and faithful on arbitrary bytes.
func init() {
	fw.Register(&fw.Check{
		ID:    "C02",
		Level: "exploration",
		Rule: "inputs come in deterministic units: (E) EXHAUSTIVE all byte strings of length <=2 (quick) / <=3 (thorough); (M) for each generated valid encoding every truncation, " +
			"single-byte mutations at every header position and sampled payload positions, double-byte mutations, every length-field rewrite to {0,len-1,len+1,255,256,65535,65536,2^24-1} in 1/2/3-byte " +
			"(non-canonical) form, all 64 format codes, length-byte count 0; (B) length-claim bombs for all 64 format codes x 1..3 length bytes x huge claims x short tails, each metered; " +
			"(N) nesting 63/64/65/10^4/10^6; (R) random bytes. Oracle: independent total E5 decoder (accept/reject, values via every accessor, re-encoding == consumed prefix), " +
			"Decode vs DecodeOwned agreement, input left unmodified, allocation meter (TotalAlloc delta <= 2*(96*len+4096) per input for the two entry points + 256KiB slack per metered call or batch). " +
			"distinct = hash(input bytes); non-trivial = input is non-empty (every non-empty string exercises header parsing)",
		Assumptions: []string{
			"harness/ref/e5 is a faithful total decoder for the SEMI E5 item grammar incl. the documented depth limit 64",
			"memory bound constant: 96 bytes allocated per input byte plus 4 KiB per call is taken as 'a constant multiple of the input length' (honest worst case by inspection is ~40x for two-byte items)",
			"checkptr instrumentation is on in both builds (-d=checkptr / -race)",
		},
		Phases: func(tier string) []fw.Phase {
			return []fw.Phase{
				{Name: "plain", Shards: 16, Timeout: tierDur(tier, 6, 40), HangIsViolation: true},
				{Name: "race", Race: true, Shards: 8, Timeout: tierDur(tier, 6, 40), HangIsViolation: true},
			}
		},
		Worker:         c02Worker,
		RequiredEvents: []string{"accepted", "rejected", "bombs_metered", "exhaustive_inputs", "noncanonical_accepted"},
		Exhaustive:     func(string) bool { return false },
	})
}

type c02Unit struct {
	Unit  int64  `json:"unit"`
	Kind  string `json:"kind"`
	Input string `json:"input_hex,omitempty"`
	Note  string `json:"note,omitempty"`
}

type c02State struct {
	env      *fw.Env
	unit     c02Unit
	sumLen   int64
	nInputs  int64
	batch    [][]byte
	unitKind string
}

func c02Worker(env *fw.Env) {
	st := &c02State{env: env}
	units := c02Units(env)
	for _, u := range units {
		if !env.Mine(u) || !env.Want(u) {
			continue
		}
		if env.Stop() {
			break
		}
		st.runUnit(u)
	}
}

func c02Units(env *fw.Env) []int64 {
	var us []int64
	if env.Phase == "plain" {
		for b := int64(0); b <= 256; b++ { // 256 = the empty input
			us = append(us, b)
		}
		for k := int64(0); k < 192; k++ {
			us = append(us, 1000+k)
		}
		for k := int64(0); k < 6; k++ {
			us = append(us, 2000+k)
		}
		nm := int64(env.Pick(1500, 40000))
		for j := int64(0); j < nm; j++ {
			us = append(us, 10000+j)
		}
		nr := int64(env.Pick(150, 4000))
		for k := int64(0); k < nr; k++ {
			us = append(us, 1_000_000+k)
		}

		return us
	}
	// race phase (race detector implies checkptr): mutations, bombs and random bytes
	for k := int64(0); k < 192; k += 3 {
		us = append(us, 1000+k)
	}
	for k := int64(0); k < 4; k++ {
		us = append(us, 2000+k)
	}
	nm := int64(env.Pick(250, 8000))
	for j := int64(0); j < nm; j++ {
		us = append(us, 10000+j*5)
	}
	nr := int64(env.Pick(40, 800))
	for k := int64(0); k < nr; k++ {
		us = append(us, 1_000_000+k)
	}

	return us
}

func (st *c02State) runUnit(u int64) {
	env := st.env
	switch {
	case u <= 256:
		st.unit = c02Unit{Unit: u, Kind: "exhaustive"}
		env.Begin(u, st.unit)
		st.exhaustive(u)
	case u >= 1000 && u < 2000:
		st.unit = c02Unit{Unit: u, Kind: "bomb"}
		env.Begin(u, st.unit)
		st.bombs(u - 1000)
	case u >= 2000 && u < 3000:
		st.unit = c02Unit{Unit: u, Kind: "nesting"}
		env.Begin(u, st.unit)
		st.nesting(u - 2000)
	case u >= 10000 && u < 1_000_000:
		st.unit = c02Unit{Unit: u, Kind: "mutation"}
		env.Begin(u, st.unit)
		st.mutations(u - 10000)
	default:
		st.unit = c02Unit{Unit: u, Kind: "random"}
		env.Begin(u, st.unit)
		st.random(u - 1_000_000)
	}
	st.flush()
}

// add queues one input; the batch is metered (library calls only) and then judged.
func (st *c02State) add(in []byte) {
	if st.env.Stop() {
		return
	}
	st.batch = append(st.batch, in)
	if len(st.batch) >= 2048 {
		st.flush()
	}
}

func (st *c02State) flush() {
	if len(st.batch) == 0 {
		return
	}
	env := st.env
	// pass A: allocation meter around the two library entry points only (single goroutine)
	var sum int64
	copies := make([][]byte, len(st.batch))
	for i, in := range st.batch {
		copies[i] = append([]byte(nil), in...)
		sum += int64(len(in))
	}
	var m0, m1 runtime.MemStats
	runtime.ReadMemStats(&m0)
	func() {
		defer func() { _ = recover() }() // panics are judged (with the exact input) in pass B
		for i, in := range st.batch {
			_, _ = secs2.Decode(in)
			_, _ = secs2.DecodeOwned(copies[i])
		}
	}()
	runtime.ReadMemStats(&m1)
	delta := int64(m1.TotalAlloc - m0.TotalAlloc)
	bound := 2*(96*sum+4096*int64(len(st.batch))) + 256<<10
	env.Event("alloc_batches_metered", 1)
	if delta > bound {
		// find the culprit individually
		worst, worstD := -1, int64(0)
		for i, in := range st.batch {
			d := meterOne(in)
			if d > 2*(96*int64(len(in))+4096)+256<<10 && d > worstD {
				worst, worstD = i, d
			}
		}
		c := st.unit
		msg := fmt.Sprintf("batch of %d inputs (%d bytes) allocated %d bytes, bound %d", len(st.batch), sum, delta, bound)
		if worst >= 0 {
			c.Input = hexClip(st.batch[worst])
			msg = fmt.Sprintf("decoding a %d-byte input allocated %d bytes (bound %d): allocation follows the claimed length, not the input", len(st.batch[worst]), worstD, 2*(96*len(st.batch[worst])+4096))
		}
		env.Violate("alloc-unbounded", msg, c)
	}
	// pass B: full oracle
	for _, in := range st.batch {
		if env.Stop() {
			break
		}
		st.judge(in)
	}
	st.batch = st.batch[:0]
}

func meterOne(in []byte) int64 {
	cp := append([]byte(nil), in...)
	var m0, m1 runtime.MemStats
	runtime.ReadMemStats(&m0)
	func() {
		defer func() { _ = recover() }()
		_, _ = secs2.Decode(in)
		_, _ = secs2.DecodeOwned(cp)
	}()
	runtime.ReadMemStats(&m1)

	return int64(m1.TotalAlloc - m0.TotalAlloc)
}

func (st *c02State) judge(in []byte) {
	env := st.env
	env.Eval(fw.Hash64(in), len(in) > 0)
	cs := st.unit
	cs.Input = hexClip(in)
	if len(in) <= 24 {
		env.Sample(cs)
	}

	ref, consumed, refErr := e5.Decode(in)
	keep := append([]byte(nil), in...)

	var it secs2.Item
	var err error
	if p := catch(func() { it, err = secs2.Decode(in) }); p != nil {
		env.Violate("panic-decode", fmt.Sprintf("secs2.Decode panicked: %v", p), cs)
		return
	}
	if !bytes.Equal(in, keep) {
		env.Violate("input-modified", "secs2.Decode modified its input buffer", cs)
	}
	own := append([]byte(nil), in...)
	var it2 secs2.Item
	var err2 error
	if p := catch(func() { it2, err2 = secs2.DecodeOwned(own) }); p != nil {
		env.Violate("panic-decodeowned", fmt.Sprintf("secs2.DecodeOwned panicked: %v", p), cs)
		return
	}

	if len(in) == 0 {
		// documented: empty input yields the empty item
		if err != nil || it == nil || !it.IsEmpty() || err2 != nil || it2 == nil || !it2.IsEmpty() {
			env.Violate("empty-input", fmt.Sprintf("empty input: Decode=(%v,%v) DecodeOwned=(%v,%v), want the empty item", it, err, it2, err2), cs)
		}

		return
	}
	if (err == nil) != (err2 == nil) {
		env.Violate("entrypoints-disagree", fmt.Sprintf("Decode err=%v but DecodeOwned err=%v", err, err2), cs)
		return
	}
	if refErr != nil {
		env.Event("rejected", 1)
		env.Event("reject_"+string(refErr.Class), 1)
		if err == nil {
			env.Violate("accepts-invalid:"+string(refErr.Class), fmt.Sprintf("grammar rejects this input (%v) but Decode accepted it as %s", refErr, safeSML(it)), cs)
		}

		return
	}
	env.Event("accepted", 1)
	if consumed < len(in) {
		env.Event("accepted_with_trailing_bytes", 1)
	}
	if !bytes.Equal(ref.Encode(nil), in[:consumed]) {
		env.Event("noncanonical_accepted", 1)
	}
	if err != nil {
		env.Violate("rejects-valid", fmt.Sprintf("grammar accepts this input (%s, %d bytes consumed) but Decode returned %v", ref, consumed, err), cs)
		return
	}
	for name, x := range map[string]secs2.Item{"Decode": it, "DecodeOwned": it2} {
		if cerr := itemcmp.Compare(x, ref, itemcmp.Decoded); cerr != nil {
			env.Violate("wrong-value", name+": value differs from the grammar's reading: "+cerr.Error(), cs)
			return
		}
		back := x.ToBytes()
		if !bytes.Equal(back, in[:consumed]) {
			env.Violate("reencode-differs", fmt.Sprintf("%s: ToBytes() = %s, consumed prefix = %s", name, hexClip(back), hexClip(in[:consumed])), cs)
			return
		}
		if l := x.EncodedLen(); l != consumed {
			env.Violate("encodedlen", fmt.Sprintf("%s: EncodedLen()=%d, consumed=%d", name, l, consumed), cs)
		}
	}
	if !secs2.Equal(it, it2) {
		env.Violate("entrypoints-disagree", "Decode and DecodeOwned results are not Equal", cs)
	}
}

func catch(f func()) (p any) {
	defer func() { p = recover() }()
	f()

	return nil
}

func safeSML(it secs2.Item) (s string) {
	defer func() {
		if recover() != nil {
			s = "<unprintable>"
		}
	}()
	s = it.ToSML()
	if len(s) > 120 {
		s = s[:120] + "…"
	}

	return s
}

// (E) exhaustive short strings starting with byte b (b==256: the empty string)
func (st *c02State) exhaustive(b int64) {
	if b == 256 {
		st.add([]byte{})
		st.env.Event("exhaustive_inputs", 1)
		return
	}
	n := int64(0)
	st.add([]byte{byte(b)})
	n++
	for x := 0; x < 256; x++ {
		st.add([]byte{byte(b), byte(x)})
		n++
	}
	if !st.env.Quick() {
		for x := 0; x < 256; x++ {
			for y := 0; y < 256; y++ {
				st.add([]byte{byte(b), byte(x), byte(y)})
				n++
			}
		}
	}
	st.env.Event("exhaustive_inputs", n)
	st.env.Event("exhaustive_units_done", 1)
}

// (B) length-claim bombs: unit k = fc*3 + (nlb-1)
func (st *c02State) bombs(k int64) {
	fc, nlb := uint8(k/3), int(k%3)+1
	r := st.env.RandAt("bomb", k)
	maxClaim := 1<<(8*nlb) - 1
	claims := []int{maxClaim, maxClaim - 1, maxClaim / 2, maxClaim/8*8, 255, 256, 65535, 65536, 1 << 20, 1<<23 + 8}
	for _, c := range claims {
		if c > maxClaim || c < 0 {
			continue
		}
		for _, tail := range []int{0, 1, 2, 7, 8, 9, 16, 33} {
			in := []byte{fc<<2 | uint8(nlb)}
			for i := nlb - 1; i >= 0; i-- {
				in = append(in, byte(c>>(8*i)))
			}
			for j := 0; j < tail; j++ {
				if r.IntN(2) == 0 {
					in = append(in, []byte{0x01, 0x00}[j%2]) // looks like list headers
				} else {
					in = append(in, byte(r.IntN(256)))
				}
			}
			// meter each bomb individually
			d := meterOne(in)
			st.env.Event("bombs_metered", 1)
			if lim := int64(2*(96*len(in)+4096) + 256<<10); d > lim {
				cs := st.unit
				cs.Input = hexClip(in)
				st.env.Violate("alloc-unbounded", fmt.Sprintf("a %d-byte input claiming length %d (format code %o) made the decoder allocate %d bytes (bound %d)", len(in), c, fc, d, lim), cs)
			}
			st.add(in)
		}
	}
	// nested bombs: a valid outer list whose inner item makes the claim
	for _, c := range []int{maxClaim, 1 << 16} {
		if c > maxClaim {
			continue
		}
		inner := []byte{fc<<2 | uint8(nlb)}
		for i := nlb - 1; i >= 0; i-- {
			inner = append(inner, byte(c>>(8*i)))
		}
		in := append([]byte{0x01, 0x02, 0xA5, 0x01, 0x07}, inner...)
		d := meterOne(in)
		st.env.Event("bombs_metered", 1)
		if lim := int64(2*(96*len(in)+4096) + 256<<10); d > lim {
			cs := st.unit
			cs.Input = hexClip(in)
			st.env.Violate("alloc-unbounded", fmt.Sprintf("nested claim %d (format code %o): decoder allocated %d bytes for a %d-byte input", c, fc, d, len(in)), cs)
		}
		st.add(in)
	}
}

// (N) nesting
func (st *c02State) nesting(k int64) {
	depths := []int{63, 64, 65, 66, 10_000, 1_000_000}
	d := depths[k]
	for _, leaf := range [][]byte{nil, {0xA5, 0x01, 0x09}, {0x41, 0x00}} {
		in := make([]byte, 0, 2*d+4)
		for i := 0; i < d; i++ {
			if leaf == nil && i == d-1 {
				in = append(in, 0x01, 0x00)
			} else {
				in = append(in, 0x01, 0x01)
			}
		}
		in = append(in, leaf...)
		st.env.Event("nesting_inputs", 1)
		st.add(in)
		st.flush()
	}
}

// (M) every mutation family of one valid encoding
func (st *c02State) mutations(j int64) {
	env := st.env
	r := env.RandAt("mut", j)
	var node *e5.Node
	switch j % 5 {
	case 0:
		node = gen.Leaf(r, gen.LeafCodes[int(j/5)%len(gen.LeafCodes)], gen.SmallCount(r))
	case 1:
		budget := 3 + r.IntN(25)
		node = gen.Tree(r, &budget, 0, 1+r.IntN(5))
	case 2:
		node = gen.Chain(r, 1+r.IntN(8))
	case 3:
		fc := gen.LeafCodes[int(j/5)%len(gen.LeafCodes)]
		bc := gen.BoundaryCounts(fc)
		node = gen.Leaf(r, fc, bc[r.IntN(6)]) // around 255/256
	default:
		node = gen.Chain(r, 60+r.IntN(5))
	}
	enc := node.Encode(nil)
	env.Event("mutation_bases", 1)
	st.add(enc)
	// header positions of every item (walk with the reference decoder)
	hdrs := headerPositions(enc)
	// every truncation (sampled when long)
	if len(enc) <= 300 {
		for n := 0; n < len(enc); n++ {
			st.add(enc[:n:n])
		}
	} else {
		for k := 0; k < 96; k++ {
			n := r.IntN(len(enc))
			st.add(enc[:n:n])
		}
		for _, h := range hdrs {
			for _, n := range []int{h.pos, h.pos + 1, h.pos + 1 + h.nlb} {
				if n < len(enc) {
					st.add(enc[:n:n])
				}
			}
		}
	}
	// trailing bytes
	st.add(append(append([]byte{}, enc...), byte(r.IntN(256))))
	st.add(append(append([]byte{}, enc...), enc...))
	// single-byte mutations: every header byte, 64 sampled other positions
	mut1 := func(pos int, v byte) {
		if enc[pos] == v {
			return
		}
		m := append([]byte{}, enc...)
		m[pos] = v
		st.add(m)
	}
	for hi, h := range hdrs {
		if hi > 40 {
			break
		}
		for p := h.pos; p < h.pos+1+h.nlb && p < len(enc); p++ {
			for _, v := range []byte{0, 1, 2, 0x7f, 0x80, 0xff, enc[p] + 1, enc[p] - 1, enc[p] ^ 0x04, enc[p] ^ 0x03, byte(r.IntN(256))} {
				mut1(p, v)
			}
		}
	}
	for k := 0; k < 64 && len(enc) > 0; k++ {
		mut1(r.IntN(len(enc)), byte(r.IntN(256)))
	}
	// double-byte mutations
	for k := 0; k < 32 && len(enc) > 1; k++ {
		m := append([]byte{}, enc...)
		m[r.IntN(len(m))] = byte(r.IntN(256))
		m[r.IntN(len(m))] = byte(r.IntN(256))
		st.add(m)
	}
	// length-field rewrites (incl. non-canonical forms) and format-code rewrites on sampled headers
	for hi, h := range hdrs {
		if hi > 12 {
			break
		}
		rest := enc[h.pos+1+h.nlb:]
		pre := enc[:h.pos]
		fc := enc[h.pos] >> 2
		lens := []int{0, h.length - 1, h.length, h.length + 1, 255, 256, 65535, 65536, e5.MaxLen, h.length + e5.Width(fc), h.length * 2}
		for _, L := range lens {
			if L < 0 {
				continue
			}
			for nlb := 1; nlb <= 3; nlb++ {
				if L >= 1<<(8*nlb) {
					continue
				}
				m := append([]byte{}, pre...)
				m = append(m, fc<<2|uint8(nlb))
				for i := nlb - 1; i >= 0; i-- {
					m = append(m, byte(L>>(8*i)))
				}
				m = append(m, rest...)
				st.add(m)
			}
		}
		// length-byte count forced to 0
		m := append([]byte{}, enc...)
		m[h.pos] &^= 3
		st.add(m)
		if hi < 3 {
			for c := 0; c < 64; c++ {
				m := append([]byte{}, enc...)
				m[h.pos] = uint8(c)<<2 | (m[h.pos] & 3)
				st.add(m)
			}
		}
	}
}

type hdrPos struct{ pos, nlb, length int }

// headerPositions walks a VALID encoding and returns the header position of every item.
func headerPositions(b []byte) []hdrPos {
	var out []hdrPos
	var walk func(pos int) int
	walk = func(pos int) int {
		if pos >= len(b) {
			return pos
		}
		fc, nlb := b[pos]>>2, int(b[pos]&3)
		l := 0
		for i := 0; i < nlb; i++ {
			l = l<<8 | int(b[pos+1+i])
		}
		out = append(out, hdrPos{pos, nlb, l})
		p := pos + 1 + nlb
		if fc == e5.List {
			for i := 0; i < l; i++ {
				p = walk(p)
			}

			return p
		}

		return p + l
	}
	walk(0)

	return out
}

// (R) random bytes
func (st *c02State) random(k int64) {
	r := st.env.RandAt("rand", k)
	for i := 0; i < 256; i++ {
		n := r.IntN(48)
		if r.IntN(8) == 0 {
			n = r.IntN(600)
		}
		in := make([]byte, n)
		mode := r.IntN(3)
		for j := range in {
			switch mode {
			case 0:
				in[j] = byte(r.IntN(256))
			case 1: // header-like soup
				in[j] = []byte{0x01, 0x02, 0x00, 0xA5, 0x41, 0x21, 0x25, 0x49, 0xB1, 0x91, 0x71, 0x03, 0xFF}[r.IntN(13)]
			default:
				if j%2 == 0 {
					in[j] = e5.AllCodes[r.IntN(16)]<<2 | uint8(1+r.IntN(3))
				} else {
					in[j] = byte(r.IntN(6))
				}
			}
		}
		st.add(in)
	}
	st.env.Event("random_units", 1)
}
