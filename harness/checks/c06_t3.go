package checks

import (
	"context"
	"errors"
	"fmt"
	"sync"
	"sync/atomic"
	"time"

	"github.com/arloliu/go-secs/v2/hsms"
	"github.com/arloliu/go-secs/v2/secs2"

	"verif/fw"
	"verif/peer"
)

// C06, the T3 clause: "the T3 timeout error, no earlier than T3 after the primary was written". With a fast
// write the start of the call and the end of the write are the same instant; the clause only bites when the
// write itself takes long: the peer has stopped reading and the frame does not fit the socket buffers, or a small
// W-bit send queues behind another sender's stalled write. The instant the write returned is observed at the
// hsms.send.afterWrite hook (it sits between the write and the arming of the reply timer).

type c06T3Case struct {
	Index   int64  `json:"index"`
	Active  bool   `json:"active"`
	Variant string `json:"variant"`
	T3ms    int    `json:"t3_ms"`
	StallMs int    `json:"peer_stops_reading_ms"`
}

func c06SlowWrite(env *fw.Env, i int64, active bool, variant string) {
	t3 := 400 * time.Millisecond
	stall := 900 * time.Millisecond
	cs := c06T3Case{Index: i, Active: active, Variant: variant, T3ms: int(t3 / time.Millisecond), StallMs: int(stall / time.Millisecond)}
	env.Begin(i, cs)
	env.Sample(cs)
	env.Eval(fw.HashStr("c06t3", fmt.Sprint(active, variant)), true)
	env.Event("slow_write_t3_cases", 1)
	rg, err := newRig(rigOpts{Active: active, T3: t3, WriteTimeout: 20 * time.Second})
	if err != nil {
		env.Discard()
		return
	}
	var mu sync.Mutex
	var writes []time.Time
	hsms.VerifSetHook("hsms.send.afterWrite", func(time.Duration) {
		mu.Lock()
		writes = append(writes, time.Now())
		mu.Unlock()
	})
	defer hsms.VerifSetHook("hsms.send.afterWrite", nil)
	// the library's own write-lock seam tells when the large write HOLDS the write lock
	var armed atomic.Bool
	lockHeld := make(chan struct{}, 1)
	hsms.VerifSetConnHooks(rg.Core, func() {
		if armed.Load() {
			select {
			case lockHeld <- struct{}{}:
			default:
			}
		}
	}, nil)
	pc, err := rg.Establish(func(*peer.Conn, peer.Frame) bool { return false }) // the peer never replies to data
	if err != nil {
		env.Discard()
		_ = rg.Shutdown()
		return
	}
	defer pc.Close()
	defer func() { _ = rg.Shutdown() }()

	// a fixed small receive buffer at the peer (this also switches receive-buffer autotuning off, which would
	// otherwise grow to tcp_rmem's maximum and swallow the frame); the sender's buffer is bounded by tcp_wmem
	_ = pc.C.SetReadBuffer(64 << 10)
	big := secs2.B(make([]byte, 12<<20)) // larger than the socket buffers of both ends together
	_ = big.ToBytes()
	pc.StallReads(true)
	mu.Lock()
	writes = nil // control transactions of the establishment (Select.req of an active library) pass the same hook
	mu.Unlock()
	var resumed atomic.Int64
	type result struct {
		err error
		at  time.Time
	}
	res := make(chan result, 1)
	var bg sync.WaitGroup
	switch variant {
	case "own-write-blocked":
		go func() {
			_, err := rg.Conn.SendDataMessage(context.Background(), 1, 1, true, big)
			res <- result{err, time.Now()}
		}()
	default: // "queued-behind-stalled-write": another sender's large one-way message holds the write lock
		armed.Store(true)
		bg.Add(1)
		go func() {
			defer bg.Done()
			_, _ = rg.Conn.SendDataMessage(context.Background(), 1, 5, false, big)
		}()
		select {
		case <-lockHeld:
		case <-time.After(10 * time.Second):
			env.Discard()
			pc.StallReads(false)
			bg.Wait()
			return
		}
		armed.Store(false)
		time.Sleep(50 * time.Millisecond) // the large write now holds the lock and is filling the buffers
		go func() {
			_, err := rg.Conn.SendDataMessage(context.Background(), 1, 1, true, secs2.A("small"))
			res <- result{err, time.Now()}
		}()
	}
	time.Sleep(stall)
	mu.Lock()
	early := len(writes)
	mu.Unlock()
	resumed.Store(time.Now().UnixNano())
	pc.StallReads(false)
	var r result
	select {
	case r = <-res:
	case <-time.After(30 * time.Second):
		env.Violate("t3-send-never-returned", "a W-bit send whose write was held up by a peer that stopped reading for 900 ms did not return within 30 s (T3 400 ms, no reply)", cs)
		return
	}
	bg.Wait()
	if early != 0 {
		// premise not met: the write was NOT held up (the buffers took the whole frame): nothing to judge here
		env.Note("slow-write case %d (%s): the write completed before the peer resumed reading; premise not met (hook hits before the resume: %d, send result so far: %d)", i, variant, early, len(res))
		env.Discard()
		return
	}
	mu.Lock()
	ws := append([]time.Time(nil), writes...)
	mu.Unlock()
	if !errors.Is(r.err, hsms.ErrT3Timeout) {
		if r.err == nil {
			env.Violate("t3-nil-without-reply", "the peer never replied and the W-bit send returned nil", cs)
		} else {
			env.Note("slow-write case %d (%s): send returned %v (not T3): not judged", i, variant, r.err)
			env.Discard()
		}

		return
	}
	if len(ws) == 0 {
		env.Violate("t3-before-the-write-returned", fmt.Sprintf("ErrT3Timeout was returned %v after the peer resumed reading although the write of the primary had not returned yet (no afterWrite observed): T3 (%v) ran while the primary was still being written", r.at.Sub(time.Unix(0, resumed.Load())), t3), cs)
		return
	}
	last := ws[len(ws)-1]
	for _, w := range ws {
		if w.Before(r.at) {
			last = w
		}
	}
	if d := r.at.Sub(last); d < t3 {
		env.Violate("t3-earlier-than-t3-after-the-write", fmt.Sprintf("the write of the primary returned %v after the peer resumed reading, and ErrT3Timeout came only %v after that write (T3 = %v): the T3 clock started before the primary was written", last.Sub(time.Unix(0, resumed.Load())).Round(time.Millisecond), d.Round(time.Millisecond), t3), cs)
	} else {
		env.Event("t3_measured_from_the_end_of_a_slow_write", 1)
	}
}
