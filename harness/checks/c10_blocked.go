package checks

import (
	"context"
	"errors"
	"fmt"
	"net"
	"strings"
	"sync"
	"time"

	"github.com/arloliu/go-secs/v2/hsms"
	"github.com/arloliu/go-secs/v2/secs2"

	"verif/fw"
	"verif/peer"
)

// C10 under a peer that accepts nothing any more: "Close returns within the configured close timeout plus
// scheduling slack ... under any ... peer behaviour". Every write on the library's socket BLOCKS (peer.GateConn:
// zero window, full buffers — independent of kernel buffer sizes) when Close is called, for every documented
// write-timeout setting including WithWriteTimeout(0) = "no bound", with nothing in flight (the farewell
// Separate.req is then the write that meets the blocked socket) and with a sender already blocked in its write.

type c10BlockedCase struct {
	Index        int64  `json:"index"`
	Active       bool   `json:"active"`
	WriteTimeout string `json:"write_timeout"`
	InFlight     string `json:"in_flight_at_close"`
}

func c10Blocked(env *fw.Env, cs c10BlockedCase) {
	env.Begin(cs.Index, cs)
	env.Sample(cs)
	env.Eval(fw.HashStr("c10blocked", fmt.Sprint(cs.Active, cs.WriteTimeout, cs.InFlight)), true)
	env.Event("blocked_socket_close_cases", 1)
	closeTimeout := time.Second
	wt := map[string]time.Duration{"disabled": -1, "30s": 30 * time.Second, "200ms": 200 * time.Millisecond}[cs.WriteTimeout]
	rg, err := newRig(rigOpts{Active: cs.Active, T3: 30 * time.Second, T5: 30 * time.Millisecond, BackoffInit: 5 * time.Millisecond, CloseTimeout: closeTimeout, WriteTimeout: wt})
	if err != nil {
		env.Discard()
		return
	}
	var gmu sync.Mutex
	var gates []*peer.GateConn
	rg.Trk.Wrap = func(c net.Conn) net.Conn {
		g := peer.NewGateConn(c)
		gmu.Lock()
		gates = append(gates, g)
		gmu.Unlock()

		return g
	}
	block := func(on bool) {
		gmu.Lock()
		for _, g := range gates {
			g.BlockWrites(on)
		}
		gmu.Unlock()
	}
	pc, err := rg.Establish(func(c *peer.Conn, f peer.Frame) bool {
		if f.PType == 0 && f.SType == peer.STLinktestReq {
			_ = c.Send(peer.LinktestRsp(f.Sys))
		}

		return false
	})
	if err != nil {
		env.Discard()
		_ = rg.Shutdown()
		return
	}
	defer pc.Close()
	block(true)
	var swg sync.WaitGroup
	if cs.InFlight == "sender-blocked-in-write" {
		swg.Add(1)
		go func() {
			defer swg.Done()
			ctx, cancel := context.WithTimeout(context.Background(), 20*time.Second)
			defer cancel()
			_, _ = rg.Conn.SendDataMessage(ctx, 6, 11, false, secs2.A("blocked in the write"))
		}()
		blocked := func() bool {
			gmu.Lock()
			defer gmu.Unlock()
			for _, g := range gates {
				if g.BlockedWrites.Load() > 0 {
					return true
				}
			}

			return false
		}
		if !waitFor(5*time.Second, blocked) {
			env.Discard()
			block(false)
			_ = rg.Shutdown()
			swg.Wait()

			return
		}
		if cs.WriteTimeout == "200ms" {
			time.Sleep(20 * time.Millisecond) // Close lands while the write is still inside its own timeout
		}
	}
	t0 := time.Now()
	closed := make(chan error, 1)
	go func() { closed <- rg.Shutdown() }()
	bound := closeTimeout + 5*time.Second
	select {
	case err := <-closed:
		el := time.Since(t0)
		if el > bound {
			env.Violate("close-too-slow-blocked-socket", fmt.Sprintf("every write on the socket blocks (write timeout %s, %s): Close took %v, bound is close timeout %v + 5 s slack", cs.WriteTimeout, cs.InFlight, el.Round(time.Millisecond), closeTimeout), cs)
		} else {
			env.Event("close_returned_in_time_on_blocked_socket", 1)
		}
		if err != nil && !errors.Is(err, hsms.ErrCloseTimeout) {
			env.Violate("close-unexpected-error-blocked-socket", fmt.Sprintf("Close returned %v", err), cs)
		}
	case <-time.After(bound + 10*time.Second):
		var lib []string
		for _, g := range libGoroutines() {
			if strings.Contains(g, "Close") || strings.Contains(g, "react") || strings.Contains(g, "Farewell") {
				lib = append(lib, g)
			}
		}
		env.Violate("close-hangs-blocked-socket", fmt.Sprintf("every write on the socket blocks (write timeout %s, %s): Close has not returned %v after the call (close timeout %v)\n%s", cs.WriteTimeout, cs.InFlight, (bound + 10*time.Second), closeTimeout, strings.Join(lib, "\n\n")), cs)
		block(false) // let the process go on

		return
	}
	block(false)
	swg.Wait()
	// nothing of the library may be left running
	if !waitFor(5*time.Second, func() bool { return len(libGoroutines()) == 0 }) {
		env.Violate("goroutine-leak-after-close-on-blocked-socket", fmt.Sprintf("5 s after Close returned library goroutines are still running:\n%s", strings.Join(libGoroutines(), "\n\n")), cs)
	}
	if !waitFor(3*time.Second, func() bool { c, l := rg.Trk.Unclosed(); return c == 0 && l == 0 }) {
		c, l := rg.Trk.Unclosed()
		env.Violate("socket-leak-after-close-on-blocked-socket", fmt.Sprintf("%d sockets and %d listeners handed to the library were not closed", c, l), cs)
	}
}
