package checks

import (
	"context"
	"encoding/binary"
	"fmt"
	"net"
	"time"

	"github.com/arloliu/go-secs/v2/hsms"
	"github.com/arloliu/go-secs/v2/secs2"

	"verif/fw"
	"verif/peer/e4peer"
	"verif/ref/e4"
)

// C09 on the SECS-I receive side: a multi-block message whose first block arrived on TCP generation g is gone with
// that generation. Its remaining blocks, sent on generation g+1, have no open message to join: nothing is
// delivered to the handlers ("primary"), and a W-bit send made on g+1 is not completed by a "reply" whose first
// block was received on g ("reply": it ends at T3).

type c09S1PartialCase struct {
	Index int64  `json:"index"`
	Kind  string `json:"kind"` // primary | reply
	Equip bool   `json:"library_is_equipment"`
}

//nolint:gocyclo,cyclop // one scripted two-generation line history
func c09S1Partial(env *fw.Env, cs c09S1PartialCase) {
	env.Begin(cs.Index, cs)
	env.Sample(cs)
	env.Eval(fw.HashStr("c09s1partial", fmt.Sprint(cs.Kind, cs.Equip)), true)
	env.Event("s1_partial_across_generations_cases", 1)
	s1Quiet()
	ln, port, err := e4peer.Listen(s1Loop)
	if err != nil {
		env.Discard()
		return
	}
	defer ln.Close()
	acc := make(chan net.Conn, 4)
	go func() {
		for {
			c, err := ln.Accept()
			if err != nil {
				close(acc)
				return
			}
			acc <- c
		}
	}()
	const dev = 1
	lib, err := s1New(s1Opts{Equip: cs.Equip, Dev: dev, Active: true, Port: port, T1: 500 * time.Millisecond, T2: 3 * time.Second, T4: 30 * time.Second, Retry: 3})
	if err != nil {
		env.Discard()
		return
	}
	defer lib.Close()
	if err := lib.Open(); err != nil {
		env.Note("s1 partial case %d: open: %v", cs.Index, err)
		env.Discard()
		return
	}
	next := func() *e4peer.Peer {
		select {
		case c, ok := <-acc:
			if !ok || c == nil {
				return nil
			}

			return e4peer.New(c, !cs.Equip, 500*time.Millisecond, 3*time.Second)
		case <-time.After(15 * time.Second):
			return nil
		}
	}
	discard := func(why string, a ...any) {
		env.Note("s1 partial case %d (%s): %s", cs.Index, cs.Kind, fmt.Sprintf(why, a...))
		env.Discard()
	}
	p1 := next()
	if p1 == nil || !lib.WaitSelected(10*time.Second) {
		discard("generation 1 not established")
		return
	}
	defer p1.Close()
	toLib := e4.Header{Device: dev, R: !cs.Equip}
	send := func(p *e4peer.Peer, b e4.Block) e4.Resp {
		a, err := p.Line.Attempt([][]byte{b.Wire()}, nil, 3*time.Second)
		if err != nil {
			return e4.RespNone
		}

		return a.Resp
	}
	// recvOne services the line until the library has sent one valid block
	recvOne := func(p *e4peer.Peer, d time.Duration) (e4.Block, bool) {
		deadline := time.Now().Add(d)
		for time.Now().Before(deadline) {
			if _, err := p.Line.Idle(30 * time.Millisecond); err != nil {
				return e4.Block{}, false
			}
			for _, rx := range p.TakeReceived() {
				if rx.Err == e4.OK {
					return rx.Block, true
				}
			}
		}

		return e4.Block{}, false
	}
	body := make([]byte, e4.MaxBody+20)
	for i := range body {
		body[i] = 'S' // the part that travels on generation 1
		if i >= e4.MaxBody {
			body[i] = 'F'
		}
	}
	body[0], body[1], body[2], body[3] = 0x21, 0x00, 0, 0 // (not meant to be decodable; handlers record raw bytes)
	type sres struct {
		reply *hsms.DataMessage
		err   error
	}
	switch cs.Kind {
	case "primary":
		h := toLib
		h.Stream, h.Function, h.System = 5, 1, [4]byte{0xC9, 0x01, byte(cs.Index), 0x01}
		blocks := e4.Split(h, body)
		if r := send(p1, blocks[0]); r != e4.RespACK {
			discard("block 1 on generation 1 answered %v", r)
			return
		}
		p1.Close()
		if !waitFor(10*time.Second, func() bool { return lib.Conn.State() != hsms.SelectedState }) {
			discard("generation 1 did not end")
			return
		}
		p2 := next()
		if p2 == nil || !lib.WaitSelected(10*time.Second) {
			discard("generation 2 not established")
			return
		}
		defer p2.Close()
		r2 := send(p2, blocks[1])
		sh := toLib
		sh.Stream, sh.Function, sh.System = 6, 13, [4]byte{0xC9, 0x02, byte(cs.Index), 0x02}
		if r := send(p2, e4.Split(sh, []byte{0x41, 0x01, 'z'})[0]); r != e4.RespACK {
			discard("sentinel on generation 2 answered %v", r)
			return
		}
		if !waitFor(5*time.Second, func() bool {
			for _, d := range lib.Deliveries(0) {
				if d.Hdr[2]&0x7F == 6 {
					return true
				}
			}

			return false
		}) {
			env.Violate("secs1-sentinel-lost-after-reconnect", fmt.Sprintf("a single-block S6F13 sent on generation 2 (behind the orphan continuation block, answered %v) was not delivered within 5 s", r2), cs)
			return
		}
		for _, d := range lib.Deliveries(0) {
			if d.Hdr[2]&0x7F == 5 {
				env.Violate("secs1-message-assembled-across-generations", fmt.Sprintf("block 1 of a two-block S5F1 was received on generation 1, the TCP connection was replaced, block 2 was sent on generation 2: the handlers got a %d-byte S5F1 made of both (first byte on gen 1 %q … last byte on gen 2 %q)", len(d.Body), d.Body[len(d.Body)/4], d.Body[len(d.Body)-1]), cs)
				return
			}
		}
		env.Event("s1_orphan_continuation_not_delivered", 1)
	case "reply":
		res1 := make(chan sres, 1)
		go func() {
			ctx, cancel := context.WithTimeout(context.Background(), 20*time.Second)
			defer cancel()
			m, err := lib.Conn.SendDataMessage(ctx, 1, 1, true, secs2.A("generation 1"))
			res1 <- sres{m, err}
		}()
		q1, ok := recvOne(p1, 5*time.Second)
		if !ok {
			discard("the primary of generation 1 did not arrive")
			return
		}
		x2 := binary.BigEndian.Uint32(q1.System[:]) + 1
		h := toLib
		h.Stream, h.Function = 1, 2
		binary.BigEndian.PutUint32(h.System[:], x2)
		blocks := e4.Split(h, body)
		if r := send(p1, blocks[0]); r != e4.RespACK {
			discard("block 1 of the future reply answered %v on generation 1", r)
			return
		}
		p1.Close()
		select {
		case <-res1:
		case <-time.After(15 * time.Second):
			discard("the generation-1 send did not return")
			return
		}
		p2 := next()
		if p2 == nil || !lib.WaitSelected(10*time.Second) {
			discard("generation 2 not established")
			return
		}
		defer p2.Close()
		res2 := make(chan sres, 1)
		go func() {
			ctx, cancel := context.WithTimeout(context.Background(), 20*time.Second)
			defer cancel()
			m, err := lib.Conn.SendDataMessage(ctx, 1, 1, true, secs2.A("generation 2"))
			res2 <- sres{m, err}
		}()
		q2, ok := recvOne(p2, 5*time.Second)
		if !ok {
			discard("the primary of generation 2 did not arrive")
			return
		}
		if binary.BigEndian.Uint32(q2.System[:]) != x2 {
			discard("system bytes of the generation-2 primary are %x, predicted %08x: premise not met", q2.System, x2)
			return
		}
		_ = send(p2, blocks[1]) // the E-bit block alone
		select {
		case r := <-res2:
			if r.reply != nil {
				env.Violate("secs1-reply-assembled-across-generations", fmt.Sprintf("a W-bit send made on generation 2 (system bytes %08x) was completed by a %d-byte S%dF%d whose first block had been received on generation 1 and whose last block was sent on generation 2", x2, len(r.reply.AppendBodyTo(nil)), r.reply.Stream(), r.reply.Function()), cs)
				return
			}
			env.Event("s1_send_not_completed_by_a_cross_generation_reply", 1)
		case <-time.After(15 * time.Second):
			env.Violate("secs1-send-never-returned", "a W-bit send on generation 2 (T3 3 s) answered only by an orphan continuation block did not return within 15 s", cs)
		}
	}
}
