package checks

import (
	"fmt"
	"math"
	"runtime/debug"
	"strings"

	"github.com/arloliu/go-secs/v2/secs2"
	"github.com/arloliu/go-secs/v2/sml"

	"verif/ref/e5"
)

// Helpers shared by the SML checks C13, C14, C15.

// smlOpt is one encoder option combination.
type smlOpt struct {
	Name   string
	AQ, SQ sml.QuoteStyle
	Indent string
	Bin    sml.BinaryStyle
	Strict bool
}

func (o smlOpt) encoder() *sml.Encoder {
	return sml.NewEncoder(sml.WithEncoderStrictMode(o.Strict), sml.WithASCIIQuote(o.AQ), sml.WithSFQuote(o.SQ), sml.WithIndent(o.Indent), sml.WithBinaryStyle(o.Bin))
}

func quoteName(q sml.QuoteStyle) string {
	switch q {
	case sml.QuoteDouble:
		return "double"
	case sml.QuoteSingle:
		return "single"
	}

	return "none"
}

// smlStrictOptions enumerates every combination of what sml/options.go offers for a strict
// encoder: ASCII quote {double, single, none(=double)} x S/F quote {none, single, double} x
// indent {"", 2 spaces (default), tab, 4 spaces} x binary style {hex, literal} = 72.
func smlStrictOptions() []smlOpt {
	var out []smlOpt
	indents := []struct{ n, s string }{{"2sp", "  "}, {"none", ""}, {"tab", "\t"}, {"4sp", "    "}}
	for _, aq := range []sml.QuoteStyle{sml.QuoteDouble, sml.QuoteSingle, sml.QuoteNone} {
		for _, sq := range []sml.QuoteStyle{sml.QuoteNone, sml.QuoteSingle, sml.QuoteDouble} {
			for _, in := range indents {
				for _, b := range []sml.BinaryStyle{sml.BinaryHex, sml.BinaryLiteral} {
					bn := "hex"
					if b == sml.BinaryLiteral {
						bn = "literal"
					}
					out = append(out, smlOpt{
						Name: fmt.Sprintf("ascii=%s,sf=%s,indent=%s,binary=%s", quoteName(aq), quoteName(sq), in.n, bn),
						AQ:   aq, SQ: sq, Indent: in.s, Bin: b, Strict: true,
					})
				}
			}
		}
	}

	return out
}

// plainBuild constructs the library item of a model node deterministically (one constructor per type).
func plainBuild(n *e5.Node) secs2.Item {
	switch n.FC {
	case e5.List:
		kids := make([]secs2.Item, len(n.Kids))
		for i, k := range n.Kids {
			kids[i] = plainBuild(k)
		}

		return secs2.NewListItem(kids...)
	case e5.ASCII:
		return secs2.NewASCIIItem(string(n.Bytes))
	case e5.JIS8:
		return secs2.NewJIS8Item(string(n.Bytes))
	case e5.Localized:
		return secs2.NewLocalizedStrItem(n.LSH, string(n.Bytes))
	case e5.Binary:
		return secs2.NewBinaryItem(append([]byte{}, n.Bytes...))
	case e5.Boolean:
		b := make([]bool, len(n.Bytes))
		for i, v := range n.Bytes {
			b[i] = v != 0
		}

		return secs2.NewBooleanItem(b)
	case e5.I1, e5.I2, e5.I4, e5.I8:
		return secs2.NewIntItem(e5.Width(n.FC), append([]int64{}, n.Ints...))
	case e5.U1, e5.U2, e5.U4, e5.U8:
		return secs2.NewUintItem(e5.Width(n.FC), append([]uint64{}, n.Uints...))
	case e5.F4:
		f := make([]float32, len(n.Bits))
		for i, b := range n.Bits {
			f[i] = math.Float32frombits(uint32(b))
		}

		return secs2.NewFloatItem(4, f)
	case e5.F8:
		f := make([]float64, len(n.Bits))
		for i, b := range n.Bits {
			f[i] = math.Float64frombits(b)
		}

		return secs2.NewFloatItem(8, f)
	}
	panic("plainBuild: bad node")
}

// nodeFromItem reads an item into a model node through its public accessors only.
func nodeFromItem(it secs2.Item) (*e5.Node, error) {
	if it == nil {
		return nil, fmt.Errorf("nil item")
	}
	if err := it.Error(); err != nil {
		return nil, fmt.Errorf("item error: %w", err)
	}
	switch {
	case it.IsList():
		kids, err := it.ToList()
		if err != nil {
			return nil, err
		}
		n := &e5.Node{FC: e5.List}
		for _, k := range kids {
			kn, err := nodeFromItem(k)
			if err != nil {
				return nil, err
			}
			n.Kids = append(n.Kids, kn)
		}

		return n, nil
	case it.IsASCII():
		s, err := it.ToASCII()

		return &e5.Node{FC: e5.ASCII, Bytes: []byte(s)}, err
	case it.IsJIS8():
		s, err := it.ToJIS8()

		return &e5.Node{FC: e5.JIS8, Bytes: []byte(s)}, err
	case it.IsLocalizedStr():
		s, err := it.ToLocalizedStr()
		if err != nil {
			return nil, err
		}
		h, err := it.ToLocalizedStrHeader()

		return &e5.Node{FC: e5.Localized, Bytes: []byte(s), LSH: h}, err
	case it.IsBinary():
		b, err := it.ToBinary()

		return &e5.Node{FC: e5.Binary, Bytes: append([]byte{}, b...)}, err
	case it.IsBoolean():
		b, err := it.ToBoolean()
		n := &e5.Node{FC: e5.Boolean, Bytes: make([]byte, len(b))}
		for i, v := range b {
			if v {
				n.Bytes[i] = 1
			}
		}

		return n, err
	case it.IsInt8(), it.IsInt16(), it.IsInt32(), it.IsInt64():
		v, err := it.ToInt()
		fc := uint8(e5.I1)
		switch {
		case it.IsInt16():
			fc = e5.I2
		case it.IsInt32():
			fc = e5.I4
		case it.IsInt64():
			fc = e5.I8
		}

		return &e5.Node{FC: fc, Ints: append([]int64{}, v...)}, err
	case it.IsUint8(), it.IsUint16(), it.IsUint32(), it.IsUint64():
		v, err := it.ToUint()
		fc := uint8(e5.U1)
		switch {
		case it.IsUint16():
			fc = e5.U2
		case it.IsUint32():
			fc = e5.U4
		case it.IsUint64():
			fc = e5.U8
		}

		return &e5.Node{FC: fc, Uints: append([]uint64{}, v...)}, err
	case it.IsFloat32():
		v, err := it.ToFloat()
		n := &e5.Node{FC: e5.F4, Bits: make([]uint64, len(v))}
		for i, f := range v {
			n.Bits[i] = uint64(math.Float32bits(float32(f)))
		}

		return n, err
	case it.IsFloat64():
		v, err := it.ToFloat()
		n := &e5.Node{FC: e5.F8, Bits: make([]uint64, len(v))}
		for i, f := range v {
			n.Bits[i] = math.Float64bits(f)
		}

		return n, err
	}

	return nil, fmt.Errorf("item of unknown type %q", it.Type())
}

// Canonical NaN bit patterns (what strconv.ParseFloat("NaN") yields, narrowed for F4).
var (
	canonNaN64 = math.Float64bits(math.NaN())
	canonNaN32 = uint64(math.Float32bits(float32(math.NaN())))
)

// normalizeNode returns a deep copy with the two things C13 excludes made canonical: every NaN
// gets the canonical payload and every localized-string header becomes 2 (UTF-8, what the parser
// assigns).
func normalizeNode(n *e5.Node) *e5.Node {
	c := &e5.Node{FC: n.FC, LSH: n.LSH}
	switch n.FC {
	case e5.List:
		for _, k := range n.Kids {
			c.Kids = append(c.Kids, normalizeNode(k))
		}
	case e5.Localized:
		c.LSH = 2
		c.Bytes = append([]byte{}, n.Bytes...)
	case e5.F4:
		c.Bits = append([]uint64{}, n.Bits...)
		for i, b := range c.Bits {
			if f := math.Float32frombits(uint32(b)); f != f {
				c.Bits[i] = canonNaN32
			}
		}
	case e5.F8:
		c.Bits = append([]uint64{}, n.Bits...)
		for i, b := range c.Bits {
			if f := math.Float64frombits(b); f != f {
				c.Bits[i] = canonNaN64
			}
		}
	default:
		c.Bytes = append([]byte{}, n.Bytes...)
		c.Ints = append([]int64{}, n.Ints...)
		c.Uints = append([]uint64{}, n.Uints...)
	}
	if c.Bytes == nil && (n.FC == e5.Binary || n.FC == e5.Boolean || n.FC == e5.ASCII || n.FC == e5.JIS8 || n.FC == e5.Localized) {
		c.Bytes = []byte{}
	}

	return c
}

// leaves appends the leaf nodes of n in order.
func nodeLeaves(n *e5.Node, out []*e5.Node) []*e5.Node {
	if n.FC != e5.List {
		return append(out, n)
	}
	for _, k := range n.Kids {
		out = nodeLeaves(k, out)
	}

	return out
}

// panicSite names the innermost go-secs function on the stack of a recovered panic (stable
// classification of a panic by call site; no line numbers).
func panicSite(stack []byte) string {
	const marker = "github.com/arloliu/go-secs/v2/"
	for _, ln := range strings.Split(string(stack), "\n") {
		ln = strings.TrimSpace(ln)
		if strings.HasPrefix(ln, marker) {
			f := ln[len(marker):]
			if i := strings.LastIndex(f, "("); i > 0 {
				f = f[:i]
			}

			return f
		}
	}

	return "outside-library"
}

// catchStack runs f and returns the panic value and stack if it panicked.
func catchStack(f func()) (p any, stack []byte) {
	defer func() {
		if p = recover(); p != nil {
			stack = debug.Stack()
		}
	}()
	f()

	return nil, nil
}

// onceKeys limits Violate calls to one per key and shard: a known defect that many generated
// inputs hit must not exhaust the per-shard violation budget (fw.Env.Stop) and cut the workload short.
type onceKeys map[string]int

func (o onceKeys) first(key string) bool {
	o[key]++

	return o[key] == 1
}

func clipStr(s string, n int) string {
	if len(s) > n {
		return s[:n] + "…"
	}

	return s
}
