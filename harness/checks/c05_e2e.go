package checks

import (
	"context"
	"fmt"
	"strings"
	"sync"
	"sync/atomic"
	"time"

	"github.com/arloliu/go-secs/v2/hsms"
	"github.com/arloliu/go-secs/v2/secs2"

	"verif/fw"
	"verif/peer"
)

// C05 (b): end-to-end notification-chain / after-Close / T7 monitors on real connections.

type c05E2ECase struct {
	Index   int64    `json:"index"`
	Active  bool     `json:"active"`
	Script  []string `json:"peer_script"`
	Stall   bool     `json:"stalling_handler"`
	Delays  bool     `json:"delay_injection"`
	CloseAt string   `json:"close"`
}

type c05Notif struct {
	at         time.Duration
	prev, next hsms.ConnState
}

var c05PeerSteps = []string{"select", "deselect", "reselect-burst", "separate", "drop", "t7-expire", "select-late-within-t7", "toggle-storm"}

func c05E2E(env *fw.Env) {
	total := int64(env.Pick(60, 1500))
	for i := int64(0); i < total; i++ {
		if !env.Mine(i) || !env.Want(i) {
			continue
		}
		if env.Stop() {
			return
		}
		c05E2EOne(env, i)
	}
	// a receive goroutine that outlives its generation (wedged in a data handler past the close
	// timeout) must not take the NEXT generation down when it finally unwinds
	base := int64(1_000_000)
	for k := int64(0); k < int64(env.Pick(8, 80)); k++ {
		if !env.Mine(k) || !env.Want(base+k) {
			continue
		}
		c05Straggler(env, base+k, k%2 == 0, []string{"write-error", "close-reopen"}[(k/2)%2])
	}
}

// c05Straggler: a data handler blocks generation N's receive goroutine; generation N ends by another path
// (a write error after the peer reset, or Close) and its bounded teardown abandons the wedged goroutine; the
// connection comes back (generation N+1, Selected); only then does the handler return. From that moment on
// generation N+1 must stay Selected and no state notification may be delivered.
func c05Straggler(env *fw.Env, i int64, active bool, how string) {
	cs := c05E2ECase{Index: i, Active: active, Script: []string{"wedged-handler-straggler", how}}
	env.Begin(i, cs)
	env.Sample(cs)
	env.Eval(fw.HashStr("straggler", fmt.Sprint(active, how)), true)
	rg, err := newRig(rigOpts{Active: active, CloseTimeout: 300 * time.Millisecond, T5: 30 * time.Millisecond, BackoffInit: 5 * time.Millisecond, WriteTimeout: 300 * time.Millisecond})
	if err != nil {
		env.Discard()
		return
	}
	release := make(chan struct{})
	var wedged atomic.Bool
	rg.Conn.AddDataMessageHandler(func(m *hsms.DataMessage, _ hsms.SECS2Endpoint) {
		if m.Stream() == 99 && wedged.CompareAndSwap(false, true) {
			<-release
		}
	})
	var nmu sync.Mutex
	var notifs []c05Notif
	rg.Conn.AddConnStateChangeHandler(func(prev, next hsms.ConnState) {
		nmu.Lock()
		notifs = append(notifs, c05Notif{peer.Now(), prev, next})
		nmu.Unlock()
	})
	released := false
	defer func() {
		if !released {
			close(release)
		}
		_ = rg.Shutdown()
	}()
	if err := rg.Open(); err != nil {
		env.Violate("e2e-open-failed", err.Error(), cs)
		return
	}
	pc, _, err := rg.NextGenRetry(nil, 5)
	if err != nil {
		env.Discard()
		return
	}
	defer pc.Close()
	_ = pc.Send(peer.Data(99, 1, false, 0x1234, 0x57A66000, nil)) // wedges the receive goroutine in the handler
	if !waitFor(5*time.Second, func() bool { return wedged.Load() }) {
		env.Discard()
		return
	}
	switch how {
	case "write-error":
		pc.Reset()
		// the wedged receive goroutine cannot notice the reset; a send does
		waitFor(10*time.Second, func() bool {
			ctx, cancel := context.WithTimeout(context.Background(), time.Second)
			_, _ = rg.Conn.SendDataMessage(ctx, 1, 1, false, secs2.A("probe"))
			cancel()

			return rg.Conn.State() != hsms.SelectedState
		})
	case "close-reopen":
		_ = rg.Conn.Close() // returns ErrCloseTimeout after 300 ms: the receive goroutine is abandoned
		if err := rg.Open(); err != nil {
			env.Violate("e2e-reopen-failed", err.Error(), cs)
			return
		}
	}
	pc2, _, err := rg.NextGenRetry(nil, 6)
	if err != nil {
		env.Note("straggler %d: next generation: %v", i, err)
		env.Discard()
		return
	}
	defer pc2.Close()
	if _, err := pc2.Barrier(5 * time.Second); err != nil {
		env.Discard()
		return
	}
	nmu.Lock()
	before := len(notifs)
	nmu.Unlock()
	released = true
	close(release) // generation N's receive goroutine now unwinds (its socket was closed long ago)
	time.Sleep(600 * time.Millisecond)
	nmu.Lock()
	after := append([]c05Notif(nil), notifs[before:]...)
	nmu.Unlock()
	_, berr := pc2.Barrier(5 * time.Second)
	if st := rg.Conn.State(); st != hsms.SelectedState || len(after) != 0 || berr != nil {
		env.Violate("e2e-straggler-disturbs-next-generation", fmt.Sprintf("generation N's receive goroutine (wedged in a handler, abandoned by the bounded teardown, %s) unwound while generation N+1 was Selected: State()=%v, notifications since%s, barrier on N+1: %v",
			how, st, c05NotifString(after), berr), cs)
		return
	}
	env.Event("e2e_straggler_cases_clean", 1)
}

//nolint:gocyclo,cyclop // one e2e history and its monitors
func c05E2EOne(env *fw.Env, i int64) {
	r := env.RandAt("e2e", i)
	cs := c05E2ECase{Index: i, Active: i%2 == 0, Stall: r.IntN(3) == 0, Delays: r.IntN(2) == 0, CloseAt: []string{"quiescent", "during-connect", "while-selected"}[r.IntN(3)]}
	for k, n := 0, 2+r.IntN(5); k < n; k++ {
		cs.Script = append(cs.Script, c05PeerSteps[r.IntN(len(c05PeerSteps))])
	}
	env.Begin(i, cs)
	env.Sample(cs)
	t7 := 120 * time.Millisecond
	rg, err := newRig(rigOpts{Active: cs.Active, T7: t7, T6: 2 * time.Second, T5: 20 * time.Millisecond, BackoffInit: 5 * time.Millisecond, CloseTimeout: 2 * time.Second})
	if err != nil {
		env.Discard()
		return
	}
	fail := func(key, msg string) { env.Violate("e2e-"+key, msg, cs) }
	var nmu sync.Mutex
	var notifs []c05Notif
	var stallOn atomic.Bool
	rg.Conn.AddConnStateChangeHandler(func(prev, next hsms.ConnState) {
		nmu.Lock()
		notifs = append(notifs, c05Notif{peer.Now(), prev, next})
		nmu.Unlock()
		if stallOn.Load() {
			time.Sleep(time.Duration(5+splitmix(uint64(i)+uint64(len(notifs)))%30) * time.Millisecond)
		}
	})
	if cs.Delays {
		undo := installDelays(env.Seed+uint64(i)*23, 1200*time.Microsecond, 4, "hsms.sup.beforeStep", "hsmsss.recv.beforeDispatch", "hsmsss.accept.adopted", "hsms.react.beforeTeardown", "hsms.connectLoop.afterPublish")
		defer func() { env.Event("delays_injected", undo()) }()
	}
	var gate atomic.Bool
	var closing, inHold atomic.Bool
	hold := func() {
		if gate.CompareAndSwap(true, false) {
			inHold.Store(true)
			if waitFor(300*time.Millisecond, func() bool { return closing.Load() }) {
				env.Event("e2e_connect_during_close", 1)
			}
		}
	}
	rg.Trk.SetDialDelay(func(int) time.Duration { hold(); return 0 })
	rg.Trk.AcceptGate = hold
	if err := rg.Open(); err != nil {
		fail("open-failed", err.Error())
		return
	}
	reachedSelected := false
	var pc *peer.Conn
	connect := func() bool {
		var err error
		pc, err = rg.PeerConnect(3 * time.Second)
		if err != nil {
			return false
		}
		pc.OnFrame = func(c *peer.Conn, f peer.Frame) bool {
			if f.PType == 0 && f.SType == peer.STLinktestReq {
				_ = c.Send(peer.LinktestRsp(f.Sys))
				return false
			}

			return true
		}
		pc.Start()

		return true
	}
	doSelect := func() bool {
		if _, err := rg.PeerSelect(pc, 2*time.Second); err != nil {
			return false
		}
		if waitState(rg.Conn, hsms.SelectedState, 3*time.Second) {
			reachedSelected = true
			return true
		}

		return false
	}
	sysN := uint32(0)
	nextSys := func() uint32 { sysN++; return 0xE2E00000 | sysN }
	for _, step := range cs.Script {
		if pc == nil || pc.ReadErr() != nil {
			if pc != nil {
				pc.Close()
			}
			if !connect() {
				break
			}
			if step != "t7-expire" && step != "select-late-within-t7" {
				if !doSelect() {
					continue
				}
			}
		}
		env.Event("e2e_peer_steps", 1)
		switch step {
		case "select":
			doSelect()
		case "deselect":
			_ = pc.Send(peer.DeselectReq(0x1234, nextSys()))
			_, _, _ = pc.Expect(2*time.Second, func(f peer.Frame) bool { return f.SType == peer.STDeselectRsp })
			_ = pc.Send(peer.SelectReq(0x1234, nextSys())) // re-select promptly so T7 does not interfere with the next step
			_, _, _ = pc.Expect(2*time.Second, func(f peer.Frame) bool { return f.SType == peer.STSelectRsp })
		case "reselect-burst":
			// deselect, select, deselect, select back-to-back in ONE segment
			_ = pc.Send(peer.DeselectReq(0x1234, nextSys()), peer.SelectReq(0x1234, nextSys()), peer.DeselectReq(0x1234, nextSys()), peer.SelectReq(0x1234, nextSys()))
			_, _ = pc.Barrier(3 * time.Second)
		case "toggle-storm":
			stallOn.Store(cs.Stall)
			for k := 0; k < 24; k++ {
				_ = pc.Send(peer.DeselectReq(0x1234, nextSys()), peer.SelectReq(0x1234, nextSys()))
			}
			_, _ = pc.Barrier(5 * time.Second)
			env.Event("e2e_toggle_storms", 1)
		case "separate":
			_ = pc.Send(peer.SeparateReq(0x1234, nextSys()))
			pc.WaitClosed(3 * time.Second)
		case "drop":
			if r.IntN(2) == 0 {
				pc.Reset()
			} else {
				pc.Close()
			}
			waitFor(3*time.Second, func() bool { return rg.Conn.State() != hsms.SelectedState })
		case "t7-expire":
			// connected, never selected: T7 must drop the link (the peer observes the close)
			if rg.Conn.State() == hsms.SelectedState {
				break
			}
			if !pc.WaitClosed(10 * time.Second) {
				fail("t7-not-enforced", fmt.Sprintf("TCP up without Select for 10 s (T7 %v) and the library kept the connection", t7))
			} else {
				env.Event("e2e_t7_drops", 1)
			}
		case "select-late-within-t7":
			if rg.Conn.State() == hsms.SelectedState {
				break
			}
			time.Sleep(t7 / 3)
			if !doSelect() {
				break // the select came too late on this run (T7 legitimately won): not judged
			}
			// the select was ACCEPTED: the T7 armed before it must never take this session down
			time.Sleep(3 * t7)
			if _, err := pc.Barrier(5 * time.Second); err != nil || rg.Conn.State() != hsms.SelectedState {
				fail("selected-session-dropped-by-t7", fmt.Sprintf("a session selected %v after TCP-up (T7 %v) was gone %v later: barrier err=%v state=%v", t7/3, t7, 3*t7, err, rg.Conn.State()))
			} else {
				env.Event("e2e_selected_survives_t7", 1)
			}
		}
	}
	// ---- Close (optionally racing a connect) ----
	switch cs.CloseAt {
	case "during-connect":
		if pc != nil {
			pc.Reset()
		}
		gate.Store(true)
		go func() {
			if c, err := rg.PeerConnect(time.Second); err == nil {
				c.Start()
				_ = c.Send(peer.SelectReq(0x1234, 0xC105E000))
				time.AfterFunc(2*time.Second, c.Close)
			}
		}()
		// wait (bounded) until the library's Accept / dial is being held, so Close really races the connect
		waitFor(time.Second, func() bool { return inHold.Load() })
		time.Sleep(time.Duration(r.IntN(1500)) * time.Microsecond)
	case "while-selected":
		if pc == nil || pc.ReadErr() != nil {
			if connect() {
				doSelect()
			}
		}
	}
	stallOn.Store(false)
	closing.Store(true)
	cerr := rg.Conn.Close()
	closedAt := peer.Now()
	st0 := rg.Conn.State()
	if rg.L != nil {
		rg.L.Close()
	}
	if pc != nil {
		pc.Close()
	}
	env.Eval(fw.HashStr("e2e", fmt.Sprint(cs)), reachedSelected || cs.CloseAt == "during-connect")
	env.Event("e2e_histories", 1)
	if cerr != nil {
		env.Event("e2e_close_errors", 1)
	}
	if st0 != hsms.NotConnectedState {
		fail("state-after-close-"+st0.String(), fmt.Sprintf("State()==%v immediately after Close returned", st0))
	}
	time.Sleep(300 * time.Millisecond)
	if st := rg.Conn.State(); st != hsms.NotConnectedState {
		fail("state-after-close-"+st.String(), fmt.Sprintf("State()==%v 300 ms after Close returned", st))
	}
	nmu.Lock()
	ns := append([]c05Notif(nil), notifs...)
	nmu.Unlock()
	coalesced := rg.Log.Lines("coalesced")
	var dropped uint64
	for _, l := range coalesced {
		for k := 0; k+1 < len(l.KV); k += 2 {
			if fmt.Sprint(l.KV[k]) == "dropped_total" {
				if v, ok := l.KV[k+1].(uint64); ok && v > dropped {
					dropped = v
				}
			}
		}
	}
	if len(coalesced) > 0 {
		env.Event("e2e_histories_with_coalescing", 1)
	}
	gaps := uint64(0)
	last := hsms.NotConnectedState
	for k, n := range ns {
		env.Event("e2e_notifications", 1)
		if n.prev == n.next {
			fail("self-transition-notification", fmt.Sprintf("notification %d is %v -> %v", k, n.prev, n.next))
		}
		if n.prev != last {
			gaps++
			if gaps > dropped {
				fail("notification-chain-broken", fmt.Sprintf("notification %d has prev=%v but the preceding one's next was %v; the library reported %d coalesced notification(s)\n%s", k, n.prev, last, dropped, c05NotifString(ns)))
				break
			}
		}
		if n.at > closedAt {
			fail("notification-after-close", fmt.Sprintf("notification %v -> %v was delivered %v after Close returned", n.prev, n.next, n.at-closedAt))
		}
		last = n.next
	}
	if len(ns) > 0 && last != hsms.NotConnectedState {
		fail("last-notification-not-final-state", fmt.Sprintf("after Close the last notification's next state is %v, State() is NotConnected\n%s", last, c05NotifString(ns)))
	}
}

func c05NotifString(ns []c05Notif) string {
	var sb strings.Builder
	for k, n := range ns {
		if k > 40 {
			sb.WriteString(" …")
			break
		}
		fmt.Fprintf(&sb, " [%v->%v]", n.prev, n.next)
	}

	return sb.String()
}
