package checks

import (
	"context"
	"errors"
	"fmt"
	"io"
	"net"
	"time"

	"github.com/arloliu/go-secs/v2/hsms"
	"github.com/arloliu/go-secs/v2/secs1"
	"github.com/arloliu/go-secs/v2/secs2"

	"verif/fw"
	"verif/peer"
)

// C09 on SECS-I: "when a generation ends, every send still waiting on it completes promptly with the
// connection-closed error". The waiter of interest is a send parked on the line engine: the engine runs
// data handlers inline, and during a slave contention yield it does so from INSIDE the outbound send; if
// that handler does not return, only the generation's own teardown signal can release the sender.

type c09S1Case struct {
	Index   int64  `json:"index"`
	Handler string `json:"handler"`
	End     string `json:"generation_end"`
	Role    string `json:"tcp_role"`
}

func c09S1Worker(env *fw.Env) {
	k := int64(0)
	for rep := 0; rep < env.Pick(2, 12); rep++ {
		for _, h := range []string{"blocks", "sends-inline"} {
			for _, end := range []string{"close"} {
				for _, role := range []string{"active", "passive"} {
					i := k
					k++
					if !env.Mine(i) || !env.Want(i) {
						continue
					}
					c09S1One(env, c09S1Case{Index: i, Handler: h, End: end, Role: role})
				}
			}
		}
	}
}

// e4 block as an equipment (master) would send it to the host: R-bit set, device 0, single block with E-bit
func c09S1Block(stream, function byte, sys uint32, body []byte) []byte {
	hdr := []byte{0x80, 0x00, stream & 0x7F, function, 0x80, 0x01, byte(sys >> 24), byte(sys >> 16), byte(sys >> 8), byte(sys)}
	out := append([]byte{byte(len(hdr) + len(body))}, hdr...)
	out = append(out, body...)
	var sum uint16
	for _, b := range out[1:] {
		sum += uint16(b)
	}

	return append(out, byte(sum>>8), byte(sum))
}

func c09S1One(env *fw.Env, cs c09S1Case) {
	env.Begin(cs.Index, cs)
	env.Sample(cs)
	env.Eval(fw.HashStr("c09s1", fmt.Sprint(cs.Handler, cs.End, cs.Role)), true)
	env.Event("s1_waiter_cases", 1)
	var ln net.Listener
	port := 1
	var err error
	opts := []secs1.Option{
		secs1.WithHost(), secs1.WithDeviceID(0), secs1.WithT1(300 * time.Millisecond), secs1.WithT2(5 * time.Second), secs1.WithT4(5 * time.Second),
		secs1.WithConnectionOption(hsms.WithT3(60 * time.Second)), // T3 must not be what releases the sender
		secs1.WithConnectionOption(hsms.WithCloseTimeout(500 * time.Millisecond)),
		secs1.WithConnectionOption(hsms.WithLogger(&peer.CapLogger{})),
	}
	trk := &peer.Tracker{}
	if cs.Role == "active" {
		if ln, err = net.Listen("tcp4", peer.LoopHost+":0"); err != nil {
			env.Discard()
			return
		}
		defer ln.Close()
		port = ln.Addr().(*net.TCPAddr).Port //nolint:forcetypeassert // tcp listener
		opts = append(opts, secs1.WithActive())
	} else {
		opts = append(opts, secs1.WithPassive(), secs1.WithListener(trk.ListenFunc))
	}
	cfg, err := secs1.NewConfig(peer.LoopHost, port, opts...)
	if err != nil {
		env.Discard()
		return
	}
	conn, err := secs1.New(cfg)
	if err != nil {
		env.Discard()
		return
	}
	release := make(chan struct{})
	inHandler := make(chan struct{}, 1)
	conn.AddDataMessageHandler(func(m *hsms.DataMessage, ep hsms.SECS2Endpoint) {
		if m.Stream() != 5 {
			return
		}
		select {
		case inHandler <- struct{}{}:
		default:
		}
		if cs.Handler == "sends-inline" {
			ctx, cancel := context.WithTimeout(context.Background(), 30*time.Second)
			_, _ = ep.SendDataMessage(ctx, 6, 11, false, secs2.A("from the handler"))
			cancel()

			return
		}
		<-release
	})
	defer close(release)
	if err := conn.Open(context.Background(), hsms.OpenBackground); err != nil {
		env.Discard()
		return
	}
	var pconn net.Conn
	if cs.Role == "active" {
		_ = ln.(*net.TCPListener).SetDeadline(time.Now().Add(10 * time.Second)) //nolint:forcetypeassert // tcp listener
		pconn, err = ln.Accept()
	} else {
		var addr string
		if addr, err = trk.ListenAddr(10 * time.Second); err == nil {
			pconn, err = net.DialTimeout("tcp4", addr, 5*time.Second)
		}
	}
	if err != nil || !waitFor(10*time.Second, func() bool { return conn.State() == hsms.SelectedState }) {
		env.Discard()
		_ = conn.Close()
		return
	}
	defer pconn.Close()
	readOne := func() (byte, error) {
		_ = pconn.SetReadDeadline(time.Now().Add(10 * time.Second))
		var b [1]byte
		_, err := io.ReadFull(pconn, b[:])

		return b[0], err
	}
	type result struct {
		err error
		at  time.Time
	}
	res := make(chan result, 1)
	go func() {
		_, err := conn.SendDataMessage(context.Background(), 1, 1, true, secs2.A("are you there"))
		res <- result{err, time.Now()}
	}()
	// contention: the library (host = slave) ENQs, the master ENQs back, the slave yields with EOT, the
	// master sends one block that completes a message, the slave ACKs it and runs the handler inline
	script := []struct {
		want byte
		send []byte
	}{{0x05, []byte{0x05}}, {0x04, c09S1Block(5, 1, 0x09090909, []byte{0x41, 0x02, 'h', 'i'})}, {0x06, nil}}
	for _, st := range script {
		b, err := readOne()
		if err != nil || b != st.want {
			env.Note("secs1 waiter case %d: line script expected %#x, got %#x err %v", cs.Index, st.want, b, err)
			env.Discard()
			_ = conn.Close()
			return
		}
		if st.send != nil {
			_, _ = pconn.Write(st.send)
		}
	}
	select {
	case <-inHandler:
	case <-time.After(10 * time.Second):
		env.Discard()
		_ = conn.Close()
		return
	}
	// the generation ends while the sender is parked behind the inline handler
	closed := make(chan error, 1)
	t0 := time.Now()
	go func() { closed <- conn.Close() }()
	select {
	case r := <-res:
		if errors.Is(r.err, net.ErrClosed) {
			// the engine resumed this send after the handler returned and wrote its ENQ onto the socket Close had
			// just closed: the transport's own write error, accepted like a write on a dying socket in the hsmsss
			// phase (the library's Write documents either outcome); what is judged is that the sender came back
			env.Event("s1_waiters_released_with_write_error", 1)
		} else if !errors.Is(r.err, hsms.ErrConnClosed) && !errors.Is(r.err, secs1.ErrSendFailed) {
			env.Violate("secs1-waiter-wrong-error", fmt.Sprintf("a send parked on a SECS-I generation that ended (Close) returned %v after %v, want the connection-closed error", r.err, r.at.Sub(t0)), cs)
		} else {
			env.Event("s1_waiters_released", 1)
		}
	case <-time.After(10 * time.Second):
		env.Violate("secs1-waiter-outlives-its-generation", fmt.Sprintf("10 s after Close (close timeout 500 ms, T3 60 s) the send parked behind the line engine's inline handler (%s) has not returned: it is tied to the handler, not to its generation", cs.Handler), cs)
	}
	select {
	case <-closed:
	case <-time.After(10 * time.Second):
		env.Violate("secs1-close-hangs", "Close did not return within 10 s (close timeout 500 ms)", cs)
	}
}
