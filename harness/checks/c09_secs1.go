package checks

import (
	"context"
	"errors"
	"fmt"
	"io"
	"net"
	"time"

	"github.com/arloliu/go-secs/v2/hsms"
	"github.com/arloliu/go-secs/v2/secs1"
	"github.com/arloliu/go-secs/v2/secs2"

	"verif/fw"
	"verif/peer"
)

// C09 on SECS-I: "when a generation ends, every send still waiting on it completes promptly with the
// connection-closed error". The waiter of interest is a send parked on the line engine: the engine runs
// data handlers inline, and during a slave contention yield it does so from INSIDE the outbound send; if
// that handler does not return, only the generation's own teardown signal can release the sender.

type c09S1Case struct {
	Index   int64  `json:"index"`
	Handler string `json:"handler"`
	End     string `json:"generation_end"`
	Role    string `json:"tcp_role"`
}

func c09S1Worker(env *fw.Env) {
	k := int64(0)
	for rep := 0; rep < env.Pick(2, 12); rep++ {
		// the HSMS-SS counterpart: the receive path is wedged in a data handler, a W-bit sender waits for a reply
		// that cannot arrive, and the generation ends by Close or by a linktest failure
		for _, end := range []string{"close", "linktest-failure"} {
			for _, role := range []string{"active", "passive"} {
				i := k
				k++
				if !env.Mine(i) || !env.Want(i) {
					continue
				}
				c09WedgedHSMS(env, c09S1Case{Index: i, Handler: "blocks (hsmsss)", End: end, Role: role})
			}
		}
		// senders queued on the write lock when the generation ends (c09_queued.go)
		for _, end := range []string{"close", "peer-reset"} {
			i := k
			k++
			if !env.Mine(i) || !env.Want(i) {
				continue
			}
			c09QueuedWriters(env, c09QueuedCase{Index: i, Active: (i+int64(rep))%2 == 1, End: end})
		}
		// a waiter on a generation that Close ends while the socket accepts no write (c09_farewell.go)
		for _, wt := range []int{10_000, 30_000} {
			i := k
			k++
			if !env.Mine(i) || !env.Want(i) {
				continue
			}
			c09BlockedFarewell(env, c09FarewellCase{Index: i, Active: (i+int64(rep))%2 == 0, WriteTimeoutMs: wt})
		}
		// fire-and-forget senders parked on a full send queue (c09_async.go)
		for _, end := range []string{"close", "peer-reset"} {
			for _, recvPark := range []bool{true, false} {
				i := k
				k++
				if !env.Mine(i) || !env.Want(i) {
					continue
				}
				c09ParkedAsync(env, c09AsyncCase{Index: i, Active: (i+int64(rep))%2 == 0, End: end, RecvPark: recvPark})
			}
		}
		// SECS-I: a partial multi-block message does not survive its TCP generation (c09_s1partial.go)
		for _, kind := range []string{"primary", "reply"} {
			for _, equip := range []bool{false, true} {
				i := k
				k++
				if !env.Mine(i) || !env.Want(i) {
					continue
				}
				c09S1Partial(env, c09S1PartialCase{Index: i, Kind: kind, Equip: equip})
			}
		}
		for _, h := range []string{"blocks", "sends-inline"} {
			for _, end := range []string{"close"} {
				for _, role := range []string{"active", "passive"} {
					i := k
					k++
					if !env.Mine(i) || !env.Want(i) {
						continue
					}
					c09S1One(env, c09S1Case{Index: i, Handler: h, End: end, Role: role})
				}
			}
		}
	}
}

// e4 block as an equipment (master) would send it to the host: R-bit set, device 0, single block with E-bit
func c09S1Block(stream, function byte, sys uint32, body []byte) []byte {
	hdr := []byte{0x80, 0x00, stream & 0x7F, function, 0x80, 0x01, byte(sys >> 24), byte(sys >> 16), byte(sys >> 8), byte(sys)}
	out := append([]byte{byte(len(hdr) + len(body))}, hdr...)
	out = append(out, body...)
	var sum uint16
	for _, b := range out[1:] {
		sum += uint16(b)
	}

	return append(out, byte(sum>>8), byte(sum))
}

func c09S1One(env *fw.Env, cs c09S1Case) {
	env.Begin(cs.Index, cs)
	env.Sample(cs)
	env.Eval(fw.HashStr("c09s1", fmt.Sprint(cs.Handler, cs.End, cs.Role)), true)
	env.Event("s1_waiter_cases", 1)
	var ln net.Listener
	port := 1
	var err error
	opts := []secs1.Option{
		secs1.WithHost(), secs1.WithDeviceID(0), secs1.WithT1(300 * time.Millisecond), secs1.WithT2(5 * time.Second), secs1.WithT4(5 * time.Second),
		secs1.WithConnectionOption(hsms.WithT3(60 * time.Second)), // T3 must not be what releases the sender
		secs1.WithConnectionOption(hsms.WithCloseTimeout(500 * time.Millisecond)),
		secs1.WithConnectionOption(hsms.WithLogger(&peer.CapLogger{})),
	}
	trk := &peer.Tracker{}
	if cs.Role == "active" {
		if ln, err = net.Listen("tcp4", peer.LoopHost+":0"); err != nil {
			env.Discard()
			return
		}
		defer ln.Close()
		port = ln.Addr().(*net.TCPAddr).Port //nolint:forcetypeassert // tcp listener
		opts = append(opts, secs1.WithActive())
	} else {
		opts = append(opts, secs1.WithPassive(), secs1.WithListener(trk.ListenFunc))
	}
	cfg, err := secs1.NewConfig(peer.LoopHost, port, opts...)
	if err != nil {
		env.Discard()
		return
	}
	conn, err := secs1.New(cfg)
	if err != nil {
		env.Discard()
		return
	}
	release := make(chan struct{})
	inHandler := make(chan struct{}, 1)
	conn.AddDataMessageHandler(func(m *hsms.DataMessage, ep hsms.SECS2Endpoint) {
		if m.Stream() != 5 {
			return
		}
		select {
		case inHandler <- struct{}{}:
		default:
		}
		if cs.Handler == "sends-inline" {
			ctx, cancel := context.WithTimeout(context.Background(), 30*time.Second)
			_, _ = ep.SendDataMessage(ctx, 6, 11, false, secs2.A("from the handler"))
			cancel()

			return
		}
		<-release
	})
	defer close(release)
	if err := conn.Open(context.Background(), hsms.OpenBackground); err != nil {
		env.Discard()
		return
	}
	var pconn net.Conn
	if cs.Role == "active" {
		_ = ln.(*net.TCPListener).SetDeadline(time.Now().Add(10 * time.Second)) //nolint:forcetypeassert // tcp listener
		pconn, err = ln.Accept()
	} else {
		var addr string
		if addr, err = trk.ListenAddr(10 * time.Second); err == nil {
			pconn, err = net.DialTimeout("tcp4", addr, 5*time.Second)
			if err == nil && peer.IsSelfConn(pconn) {
				_ = pconn.Close()
				err = peer.ErrSelfConnect
			}
		}
	}
	if err != nil || !waitFor(10*time.Second, func() bool { return conn.State() == hsms.SelectedState }) {
		env.Discard()
		_ = conn.Close()
		return
	}
	defer pconn.Close()
	readOne := func() (byte, error) {
		_ = pconn.SetReadDeadline(time.Now().Add(10 * time.Second))
		var b [1]byte
		_, err := io.ReadFull(pconn, b[:])

		return b[0], err
	}
	type result struct {
		err error
		at  time.Time
	}
	res := make(chan result, 1)
	go func() {
		_, err := conn.SendDataMessage(context.Background(), 1, 1, true, secs2.A("are you there"))
		res <- result{err, time.Now()}
	}()
	// contention: the library (host = slave) ENQs, the master ENQs back, the slave yields with EOT, the
	// master sends one block that completes a message, the slave ACKs it and runs the handler inline
	script := []struct {
		want byte
		send []byte
	}{{0x05, []byte{0x05}}, {0x04, c09S1Block(5, 1, 0x09090909, []byte{0x41, 0x02, 'h', 'i'})}, {0x06, nil}}
	for _, st := range script {
		b, err := readOne()
		if err != nil || b != st.want {
			env.Note("secs1 waiter case %d: line script expected %#x, got %#x err %v", cs.Index, st.want, b, err)
			env.Discard()
			_ = conn.Close()
			return
		}
		if st.send != nil {
			_, _ = pconn.Write(st.send)
		}
	}
	select {
	case <-inHandler:
	case <-time.After(10 * time.Second):
		env.Discard()
		_ = conn.Close()
		return
	}
	// the generation ends while the sender is parked behind the inline handler
	closed := make(chan error, 1)
	t0 := time.Now()
	go func() { closed <- conn.Close() }()
	select {
	case r := <-res:
		if errors.Is(r.err, net.ErrClosed) {
			// the engine resumed this send after the handler returned and wrote its ENQ onto the socket Close had
			// just closed: the transport's own write error, accepted like a write on a dying socket in the hsmsss
			// phase (the library's Write documents either outcome); what is judged is that the sender came back
			env.Event("s1_waiters_released_with_write_error", 1)
		} else if !errors.Is(r.err, hsms.ErrConnClosed) && !errors.Is(r.err, secs1.ErrSendFailed) {
			env.Violate("secs1-waiter-wrong-error", fmt.Sprintf("a send parked on a SECS-I generation that ended (Close) returned %v after %v, want the connection-closed error", r.err, r.at.Sub(t0)), cs)
		} else {
			env.Event("s1_waiters_released", 1)
		}
	case <-time.After(10 * time.Second):
		env.Violate("secs1-waiter-outlives-its-generation", fmt.Sprintf("10 s after Close (close timeout 500 ms, T3 60 s) the send parked behind the line engine's inline handler (%s) has not returned: it is tied to the handler, not to its generation", cs.Handler), cs)
	}
	select {
	case <-closed:
	case <-time.After(10 * time.Second):
		env.Violate("secs1-close-hangs", "Close did not return within 10 s (close timeout 500 ms)", cs)
	}
}

// c09WedgedHSMS: HSMS-SS, the receive path is wedged inside a data handler (handlers run inline on the receive
// goroutine), a W-bit sender whose primary the peer has read waits for a reply that cannot be delivered, and the
// generation ends. The waiter belongs to its generation: it must come back with the connection-closed error when the
// generation's teardown starts — not with the handler, not with the bounded join of the wedged receive loop, not at T3.
func c09WedgedHSMS(env *fw.Env, cs c09S1Case) {
	env.Begin(cs.Index, cs)
	env.Sample(cs)
	env.Eval(fw.HashStr("c09wedged", cs.End, cs.Role), true)
	env.Event("wedged_handler_waiter_cases", 1)
	o := rigOpts{Active: cs.Role == "active", T3: 60 * time.Second, T5: 30 * time.Millisecond, BackoffInit: 5 * time.Millisecond, CloseTimeout: 500 * time.Millisecond}
	if cs.End == "linktest-failure" {
		off := false
		o.Linktest, o.T6, o.LinktestFails, o.Suppress = 60*time.Millisecond, 150*time.Millisecond, 2, &off
	}
	rg, err := newRig(o)
	if err != nil {
		env.Discard()
		return
	}
	release := make(chan struct{})
	inHandler := make(chan struct{}, 1)
	rg.Conn.AddDataMessageHandler(func(m *hsms.DataMessage, _ hsms.SECS2Endpoint) {
		if m.Stream() != 5 {
			return
		}
		select {
		case inHandler <- struct{}{}:
		default:
		}
		<-release
	})
	onFrame := func(c *peer.Conn, f peer.Frame) bool {
		if f.PType == 0 && f.SType == peer.STLinktestReq {
			_ = c.Send(peer.LinktestRsp(f.Sys)) // always answered: once the receive path is wedged the answers are not read
		}

		return false
	}
	pc, err := rg.Establish(onFrame)
	if err != nil {
		env.Discard()
		_ = rg.Shutdown()
		return
	}
	defer pc.Close()
	shut := false
	defer func() {
		close(release)
		if !shut {
			_ = rg.Shutdown()
		}
	}()
	type result struct {
		err error
		at  time.Time
	}
	res := make(chan result, 1)
	go func() {
		_, err := rg.Conn.SendDataMessage(context.Background(), 1, 1, true, secs2.A("never answered"))
		res <- result{err, time.Now()}
	}()
	primaryRead := func() bool {
		for _, ev := range pc.Log() {
			if ev.Frame.IsData() {
				return true
			}
		}

		return false
	}
	if !waitFor(10*time.Second, primaryRead) {
		env.Discard()
		return
	}
	_ = pc.Send(peer.Data(5, 1, false, 0x1234, 0x09090001, nil))
	select {
	case <-inHandler:
	case <-time.After(10 * time.Second):
		env.Discard()
		return
	}
	t0 := time.Now()
	closed := make(chan error, 1)
	if cs.End == "close" {
		shut = true
		go func() { closed <- rg.Shutdown() }()
	}
	select {
	case r := <-res:
		if !errors.Is(r.err, hsms.ErrConnClosed) {
			env.Violate("wedged-handler-waiter-wrong-error", fmt.Sprintf("generation ended by %s while the receive path was wedged in a handler: the waiting W-bit send returned %v after %v, want the connection-closed error", cs.End, r.err, r.at.Sub(t0)), cs)
		} else {
			env.Event("wedged_handler_waiters_released", 1)
		}
	case <-time.After(15 * time.Second):
		env.Violate("wedged-handler-waiter-outlives-its-generation", fmt.Sprintf("15 s after the generation ended by %s (close timeout 500 ms, T3 60 s; linktest T6 150 ms x 2) the W-bit send whose primary the peer had read has not returned: it is tied to the wedged receive path, not to its generation", cs.End), cs)
	}
	if cs.End == "close" {
		select {
		case <-closed:
		case <-time.After(10 * time.Second):
			env.Violate("close-hangs-wedged-handler", "Close did not return within 10 s although the close timeout is 500 ms (a handler is wedged: the bounded join must give up)", cs)
		}
	}
}
