package checks

import (
	"bytes"
	"fmt"
	"math/rand/v2"

	"github.com/arloliu/go-secs/v2/hsms"
	"github.com/arloliu/go-secs/v2/secs2"

	"verif/fw"
	"verif/gen"
	"verif/mon/itemcmp"
	"verif/ref/e37"
	"verif/ref/e5"
)

// C03 — HSMS messages serialize to exact SEMI E37 frames and decode back unchanged.
//
// This file holds the pure codec half (phases "codec" and "codec-race"); the on-the-wire half is a
// separate phase dispatched from c03Worker.
func init() {
	fw.Register(&fw.Check{
		ID:    "C03",
		Level: "exploration",
		Rule: "codec phases, case i (pure function of seed,i): (D) data tuples — stream cycles through ALL 0..255, function through {0,1,2,127,128,254,255,random}, W through {0,1} " +
			"(every 4096 consecutive cases cover the full stream x function x W grid), session id with distinct high/low bytes, random system bytes, body from 10 families " +
			"(nil, EmptyItem, leaf, random tree, list chain depth 1..64, bodies that put the frame length at 255/256/257/65535/65536/65537, errored leaf, errored item nested 1..5 lists deep); " +
			"expected accept = stream<=127 && !(W && function even) && body.Error()==nil, straight from the property text; on accept ToBytes/HeaderBytes are compared with the independent " +
			"ref/e37 encoding of (fields, ref/e5 body), the frame is decoded by all entry points, every header accessor and the body (accessor-level vs the value tree + secs2.Equal) compared, and re-serialised; " +
			"(K) all nine control constructors x ALL 256 values of their status/reason byte (other kinds: the 256 values walk through every header byte position), each also built from a decoded request; " +
			"(R) NewRejectReqRaw x all 256 reasons x all 256 type bytes (EXHAUSTIVE, 65536) and NewRejectReq x 256 reasons x 18 rejected-message kinds; " +
			"(C) chains of 3..12 random WithSessionID/WithSystemBytes/WithID/Derive().With*().Build() steps over constructed and decoded messages against a field model, every earlier message re-checked for having stayed unchanged. " +
			"distinct = hash(kind, expected frame bytes or rejected tuple, recipe); every case is non-trivial (it runs at least one constructor against the model)",
		Assumptions: []string{
			"harness/ref/e37 is a faithful reading of the SEMI E37 message format (header byte positions, length field, nine STypes, Reject.req byte 2 = PType for reason 2 else SType)",
			"harness/ref/e5 is a faithful E5 encoder; an F4 NaN may have its signalling bit quieted by float conversions (any NaN payload accepted for an F4 NaN element)",
			"random bodies go up to 64 KiB; the documented 2^24-1 frame cap is probed by exactly two messages per run (frame length = cap and cap+1, plain build only)",
		},
		Phases: func(tier string) []fw.Phase {
			return []fw.Phase{
				// the codec workers are single-goroutine: a small GOMAXPROCS keeps 16 children from fighting over GC threads
				{Name: "codec", Shards: 16, Timeout: tierDur(tier, 6, 40), Env: []string{"GOMAXPROCS=2"}},
				{Name: "codec-race", Race: true, Shards: 8, Timeout: tierDur(tier, 6, 40), Env: []string{"GOMAXPROCS=2"}},
				// on-the-wire half (c03_wire.go): socket bytes of a real connection vs ToBytes / reference frames
				{Name: "wire", Race: true, Shards: 8, Timeout: tierDur(tier, 6, 40), HangIsViolation: true},
			}
		},
		Worker: c03Worker,
		RequiredEvents: []string{"data_accepted", "data_rejected_stream", "data_rejected_wbit", "data_rejected_body_error", "data_roundtrips",
			"control_checked", "reject_raw_checked", "chain_steps", "derive_builds", "derive_rejected", "wire_data_frames_compared", "wire_control_frames_compared"},
	})
}

func c03Worker(env *fw.Env) {
	switch env.Phase {
	case "codec", "codec-race":
		c03Codec(env)
	default:
		if f := c03ExtraPhases[env.Phase]; f != nil {
			f(env)
			return
		}
		env.Note("C03: no worker for phase %q", env.Phase)
	}
}

// c03ExtraPhases lets other files of this package add phases (the on-the-wire half).
var c03ExtraPhases = map[string]func(*fw.Env){}

const (
	c03CtlBase   = int64(0)          // 9 kinds x 256
	c03RejBase   = int64(10_000)     // 256 reasons x 256 type bytes
	c03CapBase   = int64(90_000)     // frames at / just above the documented 2^24-1 size cap
	c03DataBase  = int64(100_000)    // data tuples
	c03ChainBase = int64(50_000_000) // chains
)

func c03Codec(env *fw.Env) {
	race := env.Phase == "codec-race"
	c03BigBodies = !race
	nData := int64(env.Pick(61440, 1_228_800)) // multiples of 4096 = full stream x function x W grids
	nChain := int64(env.Pick(6000, 120_000))
	nRej := int64(65536)
	if race {
		nData = int64(env.Pick(4096, 61440))
		nChain = int64(env.Pick(600, 8000))
		nRej = int64(env.Pick(4096, 65536))
	}
	run := func(base, n int64, f func(i, k int64)) {
		for k := int64(0); k < n; k++ {
			i := base + k
			if !env.Mine(i) || !env.Want(i) {
				continue
			}
			if env.Stop() {
				return
			}
			f(i, k)
		}
	}
	run(c03CtlBase, 9*256, func(i, k int64) { c03Control(env, i, int(k/256), uint8(k%256)) })
	run(c03RejBase, nRej, func(i, k int64) { c03RejectRaw(env, i, uint8(k>>8), uint8(k)) })
	if !race { // 16 MiB messages cost GBs of shadow memory under the race detector
		run(c03CapBase, 2, func(i, k int64) { c03CapBoundary(env, i, k) })
	}
	run(c03DataBase, nData, func(i, k int64) { c03Data(env, i, k) })
	run(c03ChainBase, nChain, func(i, k int64) { c03Chain(env, i, k) })
}

type c03Case struct {
	Index    int64  `json:"index"`
	Kind     string `json:"kind"`
	Stream   int    `json:"stream,omitempty"`
	Function int    `json:"function,omitempty"`
	W        bool   `json:"w,omitempty"`
	Session  string `json:"session,omitempty"`
	System   string `json:"system,omitempty"`
	Body     string `json:"body,omitempty"`
	Tree     string `json:"tree,omitempty"`
	Recipe   string `json:"recipe,omitempty"`
	Detail   string `json:"detail,omitempty"`
	Ops      any    `json:"ops,omitempty"`
}

// c03Session draws a session id whose high and low bytes differ (so a byte swap is visible).
func c03Session(r *rand.Rand) uint16 {
	if r.IntN(4) == 0 {
		return []uint16{0x00FF, 0xFF00, 0x0100, 0x0001, 0x8000, 0x7FFF, 0x0080, 0xFFFE}[r.IntN(8)]
	}
	for {
		v := uint16(r.IntN(65536))
		if v>>8 != v&0xFF {
			return v
		}
	}
}

// c03System draws system bytes whose four bytes are pairwise different.
func c03System(r *rand.Rand) [4]byte {
	if r.IntN(8) == 0 {
		return [][4]byte{{0, 0, 0, 1}, {1, 0, 0, 0}, {0xFF, 0xFF, 0xFF, 0xFE}, {0x80, 0, 0, 0x7F}, {0, 0, 0, 0}, {0xFF, 0xFF, 0xFF, 0xFF}}[r.IntN(6)]
	}
	for {
		b := [4]byte{byte(r.IntN(256)), byte(r.IntN(256)), byte(r.IntN(256)), byte(r.IntN(256))}
		if b[0] != b[1] && b[0] != b[2] && b[0] != b[3] && b[1] != b[2] && b[1] != b[3] && b[2] != b[3] {
			return b
		}
	}
}

// ---------------------------------------------------------------------------------------------
// bodies

const c03BodyKinds = 10

// c03BigBodies: 64 KiB bodies are generated (off under the race detector, where they only cost shadow memory).
var c03BigBodies = true

var c03BodyKindNames = [c03BodyKinds]string{"nil", "empty-item", "leaf", "tree", "chain", "frame-length-boundary", "errored-leaf", "nested-errored", "leaf", "tree"}

// c03ErroredLeaf returns an item carrying a deferred constructor error.
func c03ErroredLeaf(r *rand.Rand) (secs2.Item, string) {
	switch r.IntN(12) {
	case 0:
		return secs2.NewIntItem(3, 1), "NewIntItem(3,1)"
	case 1:
		return secs2.NewIntItem(1, "zz"), `NewIntItem(1,"zz")`
	case 2:
		return secs2.NewUintItem(5, 1), "NewUintItem(5,1)"
	case 3:
		return secs2.NewUintItem(2, "x1"), `NewUintItem(2,"x1")`
	case 4:
		return secs2.NewFloatItem(3, 1.0), "NewFloatItem(3,1.0)"
	case 5:
		return secs2.NewFloatItem(4, "abc"), `NewFloatItem(4,"abc")`
	case 6:
		return secs2.NewBinaryItem(256), "NewBinaryItem(256)"
	case 7:
		return secs2.B("q"), `B("q")`
	case 8:
		return secs2.NewBooleanItem(3), "NewBooleanItem(3)"
	case 9:
		return secs2.NewIntItem(2, struct{}{}), "NewIntItem(2,struct{}{})"
	case 10:
		return secs2.U4(-1), "U4(-1)"
	}

	return secs2.I1("nope"), `I1("nope")`
}

// c03BodyOfLen builds a value tree whose canonical encoding is exactly n bytes (n >= 2).
func c03BodyOfLen(r *rand.Rand, n int) *e5.Node {
	for extra := -1; extra <= 3; extra++ { // -1: a single leaf; k>=0: L(leaf, k empty binaries)
		over := 0
		if extra >= 0 {
			over = 2 + 2*extra
		}
		for nlb := 1; nlb <= 3; nlb++ {
			p := n - over - 1 - nlb
			if p < 0 || e5.MinLenBytes(p) != nlb {
				continue
			}
			fc := []uint8{e5.Binary, e5.ASCII, e5.U1}[r.IntN(3)]
			leaf := gen.Leaf(r, fc, p)
			if extra < 0 {
				return leaf
			}
			l := &e5.Node{FC: e5.List, Kids: []*e5.Node{leaf}}
			for j := 0; j < extra; j++ {
				l.Kids = append(l.Kids, &e5.Node{FC: e5.Binary, Bytes: []byte{}})
			}

			return l
		}
	}
	panic(fmt.Sprintf("c03BodyOfLen(%d): no shape", n))
}

type c03Body struct {
	kind    string
	item    secs2.Item // nil = nil item argument
	node    *e5.Node   // logical value (nil for nil/empty/errored bodies)
	enc     []byte     // reference encoding (empty for nil/empty bodies)
	recipe  string
	errored bool // generator's intent; the verdict uses item.Error()
}

func c03MakeBody(r *rand.Rand, kind int) c03Body {
	b := c03Body{kind: c03BodyKindNames[kind]}
	switch kind {
	case 0:
		b.recipe = "nil"
		return b
	case 1:
		b.item, b.recipe = secs2.NewEmptyItem(), "NewEmptyItem()"
		return b
	case 2, 8:
		b.node = gen.Leaf(r, gen.LeafCodes[r.IntN(len(gen.LeafCodes))], gen.SmallCount(r))
		if r.IntN(10) == 0 {
			b.node = &e5.Node{FC: e5.List} // L[0]
		}
	case 3, 9:
		budget := 3 + r.IntN(60)
		b.node = gen.Tree(r, &budget, 0, 1+r.IntN(6))
	case 4:
		b.node = gen.Chain(r, 1+r.IntN(64))
	case 5:
		t := []int{255, 256, 257}[r.IntN(3)]
		if big := r.IntN(8) == 0; big && c03BigBodies {
			t = []int{65535, 65536, 65537}[r.IntN(3)]
		}
		b.node = c03BodyOfLen(r, t-e37.HeaderLen)
		b.kind = fmt.Sprintf("frame-length-%d", t)
	case 6:
		b.item, b.recipe = c03ErroredLeaf(r)
		b.errored = true
		return b
	case 7:
		bad, rec := c03ErroredLeaf(r)
		depth := 1 + r.IntN(5)
		cur := bad
		for d := 0; d < depth; d++ {
			var kids []secs2.Item
			nb := r.IntN(3)
			for j := 0; j < nb; j++ {
				it, _ := gen.Build(r, gen.Leaf(r, gen.LeafCodes[r.IntN(len(gen.LeafCodes))], gen.SmallCount(r)))
				kids = append(kids, it)
			}
			pos := r.IntN(len(kids) + 1)
			kids = append(kids[:pos], append([]secs2.Item{cur}, kids[pos:]...)...)
			cur = secs2.L(kids...)
			rec = "L(…" + rec + "…)"
		}
		b.item, b.recipe, b.errored = cur, rec, true

		return b
	}
	b.item, b.recipe = gen.Build(r, b.node)
	b.enc = b.node.Encode(nil)

	return b
}

// ---------------------------------------------------------------------------------------------
// (D) data tuples

var c03Functions = [7]uint8{0, 1, 2, 127, 128, 254, 255}

func c03Data(env *fw.Env, i, k int64) {
	r := env.RandAt("data", i)
	stream := uint8(k % 256)
	fidx := int(k/256) % 8
	w := (k/2048)%2 == 1
	function := uint8(r.IntN(256))
	if fidx < 7 {
		function = c03Functions[fidx]
	}
	kind := int((k/4096 + k%256 + int64(fidx)*3) % c03BodyKinds)
	session := c03Session(r)
	system := c03System(r)
	body := c03MakeBody(r, kind)
	cs := c03Case{Index: i, Kind: "data", Stream: int(stream), Function: int(function), W: w, Session: fmt.Sprintf("%#04x", session),
		System: fmt.Sprintf("%x", system), Body: body.kind, Recipe: body.recipe}
	if body.node != nil && len(body.enc) <= 256 {
		cs.Tree = body.node.String()
	}
	env.Sample(cs)

	bodyErr := body.item != nil && body.item.Error() != nil
	if body.errored && !bodyErr {
		env.Discard() // generator premise failed: the "errored" item carries no error
		env.Note("C03: generator produced an error-free item for %s", body.recipe)
		return
	}
	why := e37.DataInvalid(stream, function, w)
	valid := why == "" && !bodyErr
	env.Eval(fw.Hash64([]byte{stream, function, b2u(w), byte(session >> 8), byte(session)}, system[:], body.enc, []byte(body.recipe)), true)

	var msg *hsms.DataMessage
	var err error
	if p := catch(func() { msg, err = hsms.NewDataMessage(stream, function, w, session, system, body.item) }); p != nil {
		env.Violate("panic-newdatamessage", fmt.Sprintf("NewDataMessage panicked: %v", p), cs)
		return
	}
	if !valid {
		switch {
		case stream > 127:
			env.Event("data_rejected_stream", 1)
		case w && function%2 == 0:
			env.Event("data_rejected_wbit", 1)
		}
		if bodyErr {
			env.Event("data_rejected_body_error", 1)
		}
		if err == nil {
			key := "accepts-invalid:" + why
			if why == "" {
				key = "accepts-invalid:body-error"
			} else if bodyErr {
				key += "+body-error"
			}
			got := ""
			if msg != nil {
				_ = catch(func() { got = fmt.Sprintf(" and produced frame %s", hexClip(msg.ToBytes())) })
			}
			env.Violate(key, fmt.Sprintf("NewDataMessage(stream=%d, function=%d, W=%v, body error=%v) returned no error%s", stream, function, w, bodyErr, got), cs)
		}

		return
	}
	if err != nil || msg == nil {
		env.Violate("rejects-valid", fmt.Sprintf("NewDataMessage(stream=%d, function=%d, W=%v, error-free body) returned msg=%v err=%v", stream, function, w, msg != nil, err), cs)
		return
	}
	env.Event("data_accepted", 1)
	env.Event("body_"+c03BodyKindNames[kind], 1)
	model := e37.Data(session, stream, function, w, system, body.enc)
	if !c03CheckData(env, "constructed", msg, model, body.node, body.item, true, cs) {
		return
	}
	// NewDataMessageFromHeader with the model header must build the same message
	var m2 *hsms.DataMessage
	if p := catch(func() { m2, err = hsms.NewDataMessageFromHeader(model.Header(), body.item) }); p != nil {
		env.Violate("panic-newdatamessagefromheader", fmt.Sprintf("NewDataMessageFromHeader panicked: %v", p), cs)
		return
	}
	if err != nil || m2 == nil {
		env.Violate("rejects-valid:from-header", fmt.Sprintf("NewDataMessageFromHeader(%x) err=%v", model.Header(), err), cs)
	} else if !bytes.Equal(m2.ToBytes(), msg.ToBytes()) {
		env.Violate("from-header-differs", fmt.Sprintf("NewDataMessageFromHeader(%x) serialises to %s, NewDataMessage to %s", model.Header(), hexClip(m2.ToBytes()), hexClip(msg.ToBytes())), cs)
	}
}

func b2u(b bool) byte {
	if b {
		return 1
	}

	return 0
}

// c03CheckData compares a library data message with the model frame: serialisation, every header
// accessor, and (deep=true) the decode round trip through all entry points. node is the logical
// body value (nil = empty body), item the original body item (may be nil).
func c03CheckData(env *fw.Env, what string, msg *hsms.DataMessage, model e37.Frame, node *e5.Node, item secs2.Item, deep bool, cs any) bool {
	var got []byte
	if p := catch(func() { got = msg.ToBytes() }); p != nil {
		env.Violate("panic-tobytes", fmt.Sprintf("%s: ToBytes panicked: %v", what, p), cs)
		return false
	}
	// the slice the FIRST serialisation returned belongs to the caller: it is kept aside and written over below,
	// before the message is serialised again (a message that cached it would then re-serialise to something else)
	first := got
	got = append([]byte(nil), first...)
	want := model.Encode()
	if !bytes.Equal(got, want) {
		// the only tolerated difference: F4 NaN payload bits inside the body
		if len(got) != len(want) || !bytes.Equal(got[:14], want[:14]) || !equalModF4NaN(got[14:], want[14:]) {
			env.Violate(c03DiffKey(what, got, want), fmt.Sprintf("%s: ToBytes() differs from the E37 reference frame for %s\n got %s\nwant %s", what, model, hexClip(got), hexClip(want)), cs)
			return false
		}
		model.Body = append([]byte{}, got[14:]...)
		want = model.Encode()
	}
	if h := msg.HeaderBytes(); h != model.Header() {
		env.Violate("headerbytes", fmt.Sprintf("%s: HeaderBytes()=%x want %x", what, h, model.Header()), cs)
		return false
	}
	if bad := c03Accessors(msg, model); bad != "" {
		env.Violate("accessor:"+firstWord(bad), what+": "+bad, cs)
		return false
	}
	if n := msg.BodyLen(); n != len(model.Body) {
		env.Violate("bodylen", fmt.Sprintf("%s: BodyLen()=%d want %d", what, n, len(model.Body)), cs)
	}
	pre := []byte{0xEE, 0xDD}
	if ab := msg.AppendBodyTo(pre); !bytes.Equal(ab[:2], []byte{0xEE, 0xDD}) || !bytes.Equal(ab[2:], model.Body) {
		env.Violate("appendbodyto", fmt.Sprintf("%s: AppendBodyTo(eedd)=%s want eedd||%s", what, hexClip(ab), hexClip(model.Body)), cs)
	}
	for k := range first {
		first[k] ^= 0x5A
	}
	if again := msg.ToBytes(); !bytes.Equal(again, got) {
		env.Violate("nondeterministic-tobytes", fmt.Sprintf("%s: a second ToBytes() differs from the first one (whose result the caller had written over in between)\n 1st %s\n 2nd %s", what, hexClip(got), hexClip(again)), cs)
	}
	if !deep {
		return true
	}
	// model sanity: the reference acceptor must take the reference encoding back
	if f, c := e37.Decode(want); c != e37.Accept || !f.Equal(model) {
		env.Violate("harness:model-roundtrip", fmt.Sprintf("ref/e37 does not round-trip its own frame (%s)", c), cs)
		return false
	}
	type entry struct {
		name string
		f    func() (hsms.Message, error)
	}
	owned := append([]byte{}, got[4:]...)
	entries := []entry{
		{"DecodeHSMSMessage", func() (hsms.Message, error) { return hsms.DecodeHSMSMessage(got) }},
		{"DecodeHSMSPayload", func() (hsms.Message, error) { return hsms.DecodeHSMSPayload(got[4:]) }},
		{"DecodeOwnedHSMSPayload", func() (hsms.Message, error) { return hsms.DecodeOwnedHSMSPayload(owned) }},
		{"DataMessageCodec", func() (hsms.Message, error) {
			mb, err := msg.Codec().MarshalBinary()
			if err != nil {
				return nil, err
			}
			if !bytes.Equal(mb, got) {
				return nil, fmt.Errorf("MarshalBinary() = %s differs from ToBytes()", hexClip(mb))
			}
			c := &hsms.DataMessageCodec{}
			if err := c.UnmarshalBinary(mb); err != nil {
				return nil, err
			}

			return c.Message, nil
		}},
	}
	for _, e := range entries {
		var dm hsms.Message
		var derr error
		if p := catch(func() { dm, derr = e.f() }); p != nil {
			env.Violate("panic-decode", fmt.Sprintf("%s: %s panicked on the library's own frame: %v", what, e.name, p), cs)
			return false
		}
		if derr != nil || dm == nil {
			env.Violate("decode-of-own-frame", fmt.Sprintf("%s: %s(ToBytes()) failed: %v\nframe %s", what, e.name, derr, hexClip(got)), cs)
			return false
		}
		d, ok := dm.ToDataMessage()
		if !ok || d == nil || dm.Type() != hsms.DataMsgType {
			env.Violate("decode-wrong-kind", fmt.Sprintf("%s: %s returned a %T of type %v for a data frame", what, e.name, dm, dm.Type()), cs)
			return false
		}
		if h := d.HeaderBytes(); h != model.Header() {
			env.Violate("decode-changes-header", fmt.Sprintf("%s: %s: decoded HeaderBytes()=%x, frame header %x", what, e.name, h, model.Header()), cs)
			return false
		}
		if bad := c03Accessors(d, model); bad != "" {
			env.Violate("decode-accessor:"+firstWord(bad), fmt.Sprintf("%s: %s: decoded message: %s", what, e.name, bad), cs)
			return false
		}
		var it secs2.Item
		var ierr error
		if p := catch(func() { it, ierr = d.Item() }); p != nil {
			env.Violate("panic-item", fmt.Sprintf("%s: %s: Item() panicked: %v", what, e.name, p), cs)
			return false
		}
		if ierr != nil || it == nil || d.DecodeErr() != nil {
			env.Violate("decode-body-error", fmt.Sprintf("%s: %s: decoded Item() = (%v, %v), DecodeErr()=%v for the library's own body %s", what, e.name, it != nil, ierr, d.DecodeErr(), hexClip(model.Body)), cs)
			return false
		}
		if node == nil {
			if !it.IsEmpty() {
				env.Violate("decode-body-differs", fmt.Sprintf("%s: %s: empty body decoded to non-empty item %s", what, e.name, safeSML(it)), cs)
			}
		} else {
			wire, _, rerr := e5.Decode(model.Body)
			if rerr != nil {
				env.Violate("harness:e5-rejects-body", fmt.Sprintf("reference decoder rejects the body: %v", rerr), cs)
				return false
			}
			if cerr := itemcmp.Compare(it, wire, itemcmp.Decoded); cerr != nil {
				env.Violate("decode-body-differs", fmt.Sprintf("%s: %s: decoded body disagrees with the sent value: %v", what, e.name, cerr), cs)
			}
		}
		if item != nil {
			if !secs2.Equal(item, it) || !secs2.Equal(it, item) {
				env.Violate("decode-body-not-equal", fmt.Sprintf("%s: %s: secs2.Equal(original body, decoded body) is false", what, e.name), cs)
			}
		}
		if !msg.Equal(d) || !d.Equal(msg) {
			env.Violate("message-not-equal", fmt.Sprintf("%s: %s: DataMessage.Equal(original, decoded) is false", what, e.name), cs)
		}
		if back := d.ToBytes(); !bytes.Equal(back, got) {
			env.Violate("reserialise-differs", fmt.Sprintf("%s: %s: re-serialising the decoded message differs\n got %s\nwant %s", what, e.name, hexClip(back), hexClip(got)), cs)
		}
		env.Event("data_roundtrips", 1)
	}

	return true
}

// c03DiffKey classifies where a serialisation differs from the reference.
func c03DiffKey(what string, got, want []byte) string {
	pos := "body"
	switch {
	case len(got) < 14:
		pos = "short-frame"
	case !bytes.Equal(got[:4], want[:4]):
		pos = "length-field"
	case !bytes.Equal(got[4:6], want[4:6]):
		pos = "session-id"
	case got[6] != want[6]:
		pos = "header-byte-2"
	case got[7] != want[7]:
		pos = "header-byte-3"
	case got[8] != want[8]:
		pos = "ptype"
	case got[9] != want[9]:
		pos = "stype"
	case !bytes.Equal(got[10:14], want[10:14]):
		pos = "system-bytes"
	}
	if what != "constructed" && what != "control" {
		return "restamp-frame-mismatch:" + pos
	}

	return "frame-mismatch:" + pos
}

func firstWord(s string) string {
	for i, c := range s {
		if c == ' ' || c == '(' {
			return s[:i]
		}
	}

	return s
}

// c03Accessors compares every header accessor of a data message with the model.
func c03Accessors(m *hsms.DataMessage, f e37.Frame) string {
	switch {
	case m.Type() != hsms.DataMsgType:
		return fmt.Sprintf("Type()=%v want data", m.Type())
	case m.SessionID() != f.SessionID:
		return fmt.Sprintf("SessionID()=%#04x want %#04x", m.SessionID(), f.SessionID)
	case m.Stream() != f.Stream():
		return fmt.Sprintf("Stream()=%d want %d", m.Stream(), f.Stream())
	case m.Function() != f.Function():
		return fmt.Sprintf("Function()=%d want %d", m.Function(), f.Function())
	case m.WaitBit() != f.W():
		return fmt.Sprintf("WaitBit()=%v want %v", m.WaitBit(), f.W())
	case m.SystemBytes() != f.System:
		return fmt.Sprintf("SystemBytes()=%x want %x", m.SystemBytes(), f.System)
	case m.ID() != f.SystemU32():
		return fmt.Sprintf("ID()=%#x want %#x", m.ID(), f.SystemU32())
	}

	return ""
}

// ---------------------------------------------------------------------------------------------
// (K) control constructors

var c03CtlKinds = [9]string{"Select.req", "Select.rsp", "Deselect.req", "Deselect.rsp", "Linktest.req", "Linktest.rsp", "Separate.req", "Reject.req", "Reject.req(raw)"}

// c03Spread places v (and its complement / rotations) so that over v=0..255 every value visits
// every session and system byte position.
func c03Spread(r *rand.Rand, v uint8) (uint16, [4]byte) {
	sess := uint16(v)<<8 | uint16(^v)
	sys := [4]byte{v ^ 0x5A, v + 1, ^v, v}
	if r.IntN(2) == 0 {
		sess = uint16(^v)<<8 | uint16(v)
		sys = [4]byte{v, ^v, v + 0x80, v ^ 0xA5}
	}

	return sess, sys
}

func c03Control(env *fw.Env, i int64, kind int, v uint8) {
	r := env.RandAt("ctl", i)
	sess, sys := c03Spread(r, v)
	cs := c03Case{Index: i, Kind: c03CtlKinds[kind], Session: fmt.Sprintf("%#04x", sess), System: fmt.Sprintf("%x", sys), Detail: fmt.Sprintf("byte value %d", v)}
	env.Sample(cs)
	env.Eval(fw.HashStr("ctl", c03CtlKinds[kind], fmt.Sprint(v), cs.Session, cs.System), true)
	defer func() {
		if p := recover(); p != nil {
			env.Violate("panic-control", fmt.Sprintf("%s constructor/accessor panicked: %v", c03CtlKinds[kind], p), cs)
		}
	}()
	// the request a response is built from: once as constructed, once as decoded from its frame
	viaDecode := func(m *hsms.ControlMessage) []*hsms.ControlMessage {
		out := []*hsms.ControlMessage{m}
		if d, err := hsms.DecodeHSMSMessage(m.ToBytes()); err == nil {
			if c, ok := d.(*hsms.ControlMessage); ok {
				out = append(out, c)
			}
		}
		// a request that is not pristine: re-stamped twice (ending on the same session id and system bytes), and decoded
		// from a frame whose header bytes 2 and 3 - unused in a .req - carry junk, as a peer may send it. The response
		// is a frame of its own: those bytes must not leak into it.
		out = append(out, m.WithSessionID(^m.SessionID()).WithSystemBytes([4]byte{9, 9, 9, 9}).WithSessionID(m.SessionID()).WithSystemBytes(m.SystemBytes()))
		raw := m.ToBytes()
		raw[4+2], raw[4+3] = 0x5A, ^v
		if d, err := hsms.DecodeHSMSMessage(raw); err == nil {
			if c, ok := d.(*hsms.ControlMessage); ok {
				out = append(out, c)
				env.Event("responses_built_from_requests_with_junk_header_bytes", 1)
			}
		}

		return out
	}
	switch kind {
	case 0:
		c03CheckControl(env, r, hsms.NewSelectReq(sess, sys), e37.SelectReq(sess, sys), cs)
	case 1:
		reqM := e37.SelectReq(sess, sys)
		for _, req := range viaDecode(hsms.NewSelectReq(sess, sys)) {
			rsp, err := hsms.NewSelectRsp(req, v)
			if err != nil || rsp == nil {
				env.Violate("rejects-valid:select.rsp", fmt.Sprintf("NewSelectRsp(select.req, %d) err=%v", v, err), cs)
				return
			}
			c03CheckControl(env, r, rsp, e37.SelectRsp(reqM, v), cs)
		}
	case 2:
		c03CheckControl(env, r, hsms.NewDeselectReq(sess, sys), e37.DeselectReq(sess, sys), cs)
	case 3:
		reqM := e37.DeselectReq(sess, sys)
		for _, req := range viaDecode(hsms.NewDeselectReq(sess, sys)) {
			rsp, err := hsms.NewDeselectRsp(req, v)
			if err != nil || rsp == nil {
				env.Violate("rejects-valid:deselect.rsp", fmt.Sprintf("NewDeselectRsp(deselect.req, %d) err=%v", v, err), cs)
				return
			}
			c03CheckControl(env, r, rsp, e37.DeselectRsp(reqM, v), cs)
		}
	case 4:
		c03CheckControl(env, r, hsms.NewLinktestReq(sys), e37.LinktestReq(sys), cs)
	case 5:
		reqM := e37.LinktestReq(sys)
		for _, req := range viaDecode(hsms.NewLinktestReq(sys)) {
			rsp, err := hsms.NewLinktestRsp(req)
			if err != nil || rsp == nil {
				env.Violate("rejects-valid:linktest.rsp", fmt.Sprintf("NewLinktestRsp(linktest.req) err=%v", err), cs)
				return
			}
			c03CheckControl(env, r, rsp, e37.LinktestRsp(reqM), cs)
		}
		// a Linktest.req carrying a session id other than 0xFFFF (re-stamped, or as a peer sent it): the response still
		// carries 0xFFFF
		for _, req := range viaDecode(hsms.NewLinktestReq(sys).WithSessionID(sess)) {
			rsp, err := hsms.NewLinktestRsp(req)
			if err != nil || rsp == nil {
				env.Event("linktest_rsp_refused_for_request_with_session", 1)
				continue
			}
			c03CheckControl(env, r, rsp, e37.LinktestRsp(reqM), cs)
			env.Event("linktest_rsp_from_request_with_session", 1)
		}
	case 6:
		c03CheckControl(env, r, hsms.NewSeparateReq(sess, sys), e37.SeparateReq(sess, sys), cs)
	case 7:
		// Reject.req built from a rejected MESSAGE: reason v x every kind of rejected message
		for _, rj := range c03Rejectables(r, sess, sys) {
			c := cs
			c.Detail = fmt.Sprintf("reason %d, rejected message %s", v, rj.model)
			msg := hsms.NewRejectReq(rj.msg, v)
			c03CheckControl(env, r, msg, e37.RejectFor(rj.model, v), c)
			env.Event("reject_from_message_checked", 1)
		}
	case 8:
		// raw form with the byte value as PType / SType in turn (the full matrix is family R)
		for _, reason := range []uint8{0, 1, 2, 3, 4, 5, 255, uint8(r.IntN(256))} {
			c := cs
			c.Detail = fmt.Sprintf("reason %d ptype %d stype %d", reason, v, ^v)
			c03CheckControl(env, r, hsms.NewRejectReqRaw(sess, v, ^v, sys, reason), e37.RejectReq(sess, v, ^v, sys, reason), c)
		}
	}
}

type c03Rejectable struct {
	msg   hsms.Message
	model e37.Frame
}

// c03Rejectables returns one message of every kind (constructed and decoded) with its model.
func c03Rejectables(r *rand.Rand, sess uint16, sys [4]byte) []c03Rejectable {
	var out []c03Rejectable
	add := func(m hsms.Message, f e37.Frame) {
		out = append(out, c03Rejectable{m, f})
		if d, err := hsms.DecodeHSMSMessage(f.Encode()); err == nil {
			out = append(out, c03Rejectable{d, f})
		}
	}
	stream, function := uint8(1+r.IntN(127)), uint8(r.IntN(256))
	w := function%2 == 1 && r.IntN(2) == 0
	node := gen.Leaf(r, gen.LeafCodes[r.IntN(len(gen.LeafCodes))], 1+r.IntN(3))
	it, _ := gen.Build(r, node)
	if dm, err := hsms.NewDataMessage(stream, function, w, sess, sys, it); err == nil {
		add(dm, e37.Data(sess, stream, function, w, sys, it.ToBytes()))
	}
	sreq, dreq, lreq := hsms.NewSelectReq(sess, sys), hsms.NewDeselectReq(sess, sys), hsms.NewLinktestReq(sys)
	add(sreq, e37.SelectReq(sess, sys))
	if m, err := hsms.NewSelectRsp(sreq, 3); err == nil {
		add(m, e37.SelectRsp(e37.SelectReq(sess, sys), 3))
	}
	add(dreq, e37.DeselectReq(sess, sys))
	if m, err := hsms.NewDeselectRsp(dreq, 2); err == nil {
		add(m, e37.DeselectRsp(e37.DeselectReq(sess, sys), 2))
	}
	add(lreq, e37.LinktestReq(sys))
	if m, err := hsms.NewLinktestRsp(lreq); err == nil {
		add(m, e37.LinktestRsp(e37.LinktestReq(sys)))
	}
	add(hsms.NewSeparateReq(sess, sys), e37.SeparateReq(sess, sys))
	add(hsms.NewRejectReqRaw(sess, 9, 77, sys, 1), e37.RejectReq(sess, 9, 77, sys, 1))

	return out
}

func c03CtlAccessors(m *hsms.ControlMessage, f e37.Frame) string {
	switch {
	case m.Type() != hsms.MsgType(f.SType):
		return fmt.Sprintf("Type()=%v want %s", m.Type(), e37.STypeName(f.SType))
	case m.SessionID() != f.SessionID:
		return fmt.Sprintf("SessionID()=%#04x want %#04x", m.SessionID(), f.SessionID)
	case m.SystemBytes() != f.System:
		return fmt.Sprintf("SystemBytes()=%x want %x", m.SystemBytes(), f.System)
	case m.ID() != f.SystemU32():
		return fmt.Sprintf("ID()=%#x want %#x", m.ID(), f.SystemU32())
	case m.HeaderBytes() != f.Header():
		return fmt.Sprintf("HeaderBytes()=%x want %x", m.HeaderBytes(), f.Header())
	}
	if d, ok := m.ToDataMessage(); ok || d != nil {
		return "ToDataMessage() of a control message returned a data message"
	}
	if f.SType == e37.STRejectReq && f.Reason() >= 1 && f.Reason() <= 4 {
		if code, err := m.RejectReasonCode(); err != nil || code != f.Reason() {
			return fmt.Sprintf("RejectReasonCode()=(%d,%v) want %d", code, err, f.Reason())
		}
	}

	return ""
}

// c03CheckControl: serialisation, accessors, decode round trip and one re-stamp of each kind.
func c03CheckControl(env *fw.Env, r *rand.Rand, msg *hsms.ControlMessage, model e37.Frame, cs any) {
	env.Event("control_checked", 1)
	env.Event("control_"+e37.STypeName(model.SType), 1)
	got, want := msg.ToBytes(), model.Encode()
	if !bytes.Equal(got, want) {
		env.Violate("control-"+c03DiffKey("control", got, want), fmt.Sprintf("%s: ToBytes()=%x, E37 reference frame %x", e37.STypeName(model.SType), got, want), cs)
		return
	}
	if bad := c03CtlAccessors(msg, model); bad != "" {
		env.Violate("control-accessor:"+firstWord(bad), e37.STypeName(model.SType)+": "+bad, cs)
		return
	}
	for _, name := range []string{"DecodeHSMSMessage", "DecodeHSMSPayload", "DecodeOwnedHSMSPayload"} {
		var dm hsms.Message
		var err error
		switch name {
		case "DecodeHSMSMessage":
			dm, err = hsms.DecodeHSMSMessage(got)
		case "DecodeHSMSPayload":
			dm, err = hsms.DecodeHSMSPayload(got[4:])
		default:
			dm, err = hsms.DecodeOwnedHSMSPayload(append([]byte{}, got[4:]...))
		}
		if err != nil || dm == nil {
			env.Violate("control-decode-of-own-frame", fmt.Sprintf("%s(%x) failed: %v", name, got, err), cs)
			return
		}
		c, ok := dm.(*hsms.ControlMessage)
		if !ok {
			env.Violate("control-decode-wrong-kind", fmt.Sprintf("%s(%x) returned %T", name, got, dm), cs)
			return
		}
		if bad := c03CtlAccessors(c, model); bad != "" {
			env.Violate("control-decode-accessor:"+firstWord(bad), fmt.Sprintf("%s: decoded %s: %s", name, e37.STypeName(model.SType), bad), cs)
			return
		}
		if back := c.ToBytes(); !bytes.Equal(back, got) {
			env.Violate("control-reserialise-differs", fmt.Sprintf("%s: re-serialised %x, frame %x", name, back, got), cs)
		}
		env.Event("control_roundtrips", 1)
	}
	// re-stamps change only the bytes they name and leave the receiver alone
	ns, nb := c03Session(r), c03System(r)
	m1 := msg.WithSessionID(ns)
	f1 := model
	f1.SessionID = ns
	m2 := m1.WithSystemBytes(nb)
	f2 := f1
	f2.System = nb
	for _, p := range []struct {
		m *hsms.ControlMessage
		f e37.Frame
		n string
	}{{m1, f1, "WithSessionID"}, {m2, f2, "WithSessionID.WithSystemBytes"}, {msg, model, "receiver after re-stamps"}} {
		if g, w := p.m.ToBytes(), p.f.Encode(); !bytes.Equal(g, w) {
			env.Violate("control-"+c03DiffKey("restamp", g, w), fmt.Sprintf("%s %s: frame %x want %x", e37.STypeName(model.SType), p.n, g, w), cs)
			return
		}
	}
	env.Event("control_restamps", 2)
}

// (R) NewRejectReqRaw, the whole reason x type matrix.
func c03RejectRaw(env *fw.Env, i int64, reason, t uint8) {
	r := env.RandAt("rej", i)
	sess, sys := c03Session(r), c03System(r)
	// t is the byte that must be echoed; the other type byte is its complement (always different)
	ptype, stype := ^t, t
	if reason == e37.ReasonPTypeNotSupported {
		ptype, stype = t, ^t
	}
	cs := c03Case{Index: i, Kind: "Reject.req(raw)", Session: fmt.Sprintf("%#04x", sess), System: fmt.Sprintf("%x", sys), Detail: fmt.Sprintf("reason %d ptype %d stype %d", reason, ptype, stype)}
	env.Eval(fw.Hash64([]byte{reason, ptype, stype, byte(sess >> 8), byte(sess)}, sys[:]), true)
	env.Event("reject_raw_checked", 1)
	var msg *hsms.ControlMessage
	if p := catch(func() { msg = hsms.NewRejectReqRaw(sess, ptype, stype, sys, reason) }); p != nil || msg == nil {
		env.Violate("panic-control", fmt.Sprintf("NewRejectReqRaw panicked or returned nil: %v", p), cs)
		return
	}
	model := e37.RejectReq(sess, ptype, stype, sys, reason)
	got, want := msg.ToBytes(), model.Encode()
	if !bytes.Equal(got, want) {
		env.Violate("control-"+c03DiffKey("control", got, want), fmt.Sprintf("Reject.req: ToBytes()=%x, E37 reference frame %x", got, want), cs)
		return
	}
	if bad := c03CtlAccessors(msg, model); bad != "" {
		env.Violate("control-accessor:"+firstWord(bad), "Reject.req: "+bad, cs)
		return
	}
	dm, err := hsms.DecodeHSMSMessage(got)
	if err != nil || dm == nil {
		env.Violate("control-decode-of-own-frame", fmt.Sprintf("DecodeHSMSMessage(%x) failed: %v", got, err), cs)
		return
	}
	if c, ok := dm.(*hsms.ControlMessage); !ok || c03CtlAccessors(c, model) != "" || !bytes.Equal(c.ToBytes(), got) {
		env.Violate("control-reserialise-differs", fmt.Sprintf("decoded Reject.req %x does not reproduce its fields/frame", got), cs)
	}
}

// ---------------------------------------------------------------------------------------------
// (C) derive / re-stamp chains

type c03Held struct {
	msg  *hsms.DataMessage
	snap []byte
	step int
}

func c03Chain(env *fw.Env, i, k int64) {
	r := env.RandAt("chain", i)
	// a valid start message
	stream, function := uint8(r.IntN(128)), uint8(r.IntN(256))
	w := function%2 == 1 && r.IntN(2) == 0
	session, system := c03Session(r), c03System(r)
	body := c03MakeBody(r, []int{0, 1, 2, 3, 4, 5, 2, 3}[r.IntN(8)])
	cs := c03Case{Index: i, Kind: "chain", Stream: int(stream), Function: int(function), W: w, Session: fmt.Sprintf("%#04x", session),
		System: fmt.Sprintf("%x", system), Body: body.kind, Recipe: body.recipe}
	var ops []string
	defer func() {
		if p := recover(); p != nil {
			cs.Ops = ops
			env.Violate("panic-chain", fmt.Sprintf("re-stamp/derive chain panicked: %v", p), cs)
		}
	}()
	msg, err := hsms.NewDataMessage(stream, function, w, session, system, body.item)
	if err != nil {
		env.Violate("rejects-valid", fmt.Sprintf("NewDataMessage(stream=%d, function=%d, W=%v, error-free body) err=%v", stream, function, w, err), cs)
		return
	}
	model := e37.Data(session, stream, function, w, system, msg.AppendBodyTo(nil)) // body bytes are judged in family D
	curItem := body.item
	fromDecoded := k%2 == 1
	if fromDecoded {
		if k%8 == 3 { // a received frame whose (valid) body uses over-long length fields
			model.Body = c04Body(r, 3)
			cs.Body = "noncanonical-length"
			env.Event("chains_from_noncanonical_body", 1)
		}
		d, derr := hsms.DecodeHSMSMessage(model.Encode())
		if derr != nil {
			env.Violate("decode-of-own-frame", fmt.Sprintf("DecodeHSMSMessage of the reference frame failed: %v", derr), cs)
			return
		}
		msg, _ = d.ToDataMessage()
		ops = append(ops, "start=decoded")
		if r.IntN(2) == 0 {
			_, _ = msg.Item() // decode before the copies are made (else after)
			ops = append(ops, "Item()")
		}
	}
	held := []c03Held{{msg, msg.ToBytes(), 0}}
	steps := 3 + r.IntN(10)
	for s := 1; s <= steps; s++ {
		var next *hsms.DataMessage
		nm := model
		switch op := r.IntN(8); {
		case op <= 1:
			v := c03Session(r)
			next, nm.SessionID = msg.WithSessionID(v), v
			ops = append(ops, fmt.Sprintf("WithSessionID(%#04x)", v))
		case op <= 3:
			v := c03System(r)
			next, nm.System = msg.WithSystemBytes(v), v
			ops = append(ops, fmt.Sprintf("WithSystemBytes(%x)", v))
		case op == 4:
			v := r.Uint32()
			next, nm.System = msg.WithID(v), e37.SystemOf(v)
			ops = append(ops, fmt.Sprintf("WithID(%#x)", v))
		default:
			b := msg.Derive()
			ds, df, dw := nm.Stream(), nm.Function(), nm.W()
			desc := "Derive()"
			itemErr := false
			nset := r.IntN(4)
			for j := 0; j < nset; j++ {
				switch r.IntN(7) {
				case 0:
					ds = uint8(r.IntN(256))
					if r.IntN(3) > 0 {
						ds &= 0x7F
					}
					b = b.WithStream(ds)
					desc += fmt.Sprintf(".WithStream(%d)", ds)
				case 1:
					df = uint8(r.IntN(256))
					b = b.WithFunction(df)
					desc += fmt.Sprintf(".WithFunction(%d)", df)
				case 2:
					dw = r.IntN(2) == 0
					b = b.WithWaitBit(dw)
					desc += fmt.Sprintf(".WithWaitBit(%v)", dw)
				case 3:
					v := c03Session(r)
					nm.SessionID = v
					b = b.WithSessionID(v)
					desc += fmt.Sprintf(".WithSessionID(%#04x)", v)
				case 4:
					v := c03System(r)
					nm.System = v
					b = b.WithSystemBytes(v)
					desc += fmt.Sprintf(".WithSystemBytes(%x)", v)
				case 5:
					v := r.Uint32()
					nm.System = e37.SystemOf(v)
					b = b.WithID(v)
					desc += fmt.Sprintf(".WithID(%#x)", v)
				default:
					nb := c03MakeBody(r, []int{0, 1, 2, 3, 6, 7, 2, 3}[r.IntN(8)])
					b = b.WithItem(nb.item)
					desc += ".WithItem(" + nb.recipe + ")"
					itemErr = nb.item != nil && nb.item.Error() != nil
					nm.Body = nb.enc
					if !itemErr && nb.item != nil {
						nm.Body = nb.item.ToBytes() // item encoding is C01's subject; here only the envelope is judged
					}
					curItem = nb.item
				}
			}
			nm.Byte2, nm.Byte3 = ds&0x7F, df
			if dw {
				nm.Byte2 |= 0x80
			}
			why := e37.DataInvalid(ds, df, dw)
			valid := why == "" && !itemErr
			built, berr := b.Build()
			ops = append(ops, desc+".Build()")
			env.Event("derive_builds", 1)
			if !valid {
				env.Event("derive_rejected", 1)
				if berr == nil {
					cs.Ops = ops
					if why == "" {
						why = "body-error"
					}
					env.Violate("derive-accepts-invalid:"+why, fmt.Sprintf("%s returned no error (stream=%d function=%d W=%v body error=%v)", desc, ds, df, dw, itemErr), cs)
					return
				}
				if itemErr {
					return // the builder now carries an errored item; chain ends
				}
				next, nm = msg, model // refused: nothing changes

				break
			}
			if berr != nil || built == nil {
				cs.Ops = ops
				env.Violate("derive-rejects-valid", fmt.Sprintf("%s err=%v for stream=%d function=%d W=%v error-free body", desc, berr, ds, df, dw), cs)
				return
			}
			next = built
		}
		env.Event("chain_steps", 1)
		if !c03CheckData(env, "after "+ops[len(ops)-1], next, nm, nil, nil, false, c03WithOps(cs, ops)) {
			return
		}
		msg, model = next, nm
		held = append(held, c03Held{msg, msg.ToBytes(), s})
		// every earlier message must still serialise to what it did when it was made
		for _, h := range held {
			if now := h.msg.ToBytes(); !bytes.Equal(now, h.snap) {
				env.Violate("restamp-mutates-receiver", fmt.Sprintf("message made at step %d changed after step %d (%s)\n was %s\n now %s", h.step, s, ops[len(ops)-1], hexClip(h.snap), hexClip(now)), c03WithOps(cs, ops))
				return
			}
		}
	}
	// the final message must still decode to the model, with an equal body
	env.Eval(fw.Hash64(model.Encode(), []byte(fmt.Sprint(ops))), true)
	cs.Ops = ops
	env.Sample(cs)
	_ = curItem
	var node *e5.Node
	if len(model.Body) > 0 {
		n, _, rerr := e5.Decode(model.Body)
		if rerr != nil {
			env.Violate("harness:e5-rejects-body", fmt.Sprintf("reference decoder rejects the chained body: %v", rerr), cs)
			return
		}
		node = n
	}
	c03CheckData(env, "chain end", msg, model, node, nil, true, cs)
	env.Event("chains_completed", 1)
	if fromDecoded {
		env.Event("chains_from_decoded", 1)
	}
}

func c03WithOps(cs c03Case, ops []string) c03Case {
	cs.Ops = append([]string{}, ops...)
	return cs
}

// c03CapBoundary: a valid data message whose frame length is exactly the documented cap (k=0) or
// one byte above it (k=1). Both are valid messages by the property's definition (error-free body),
// so both must serialise exactly and decode back.
func c03CapBoundary(env *fw.Env, i, k int64) {
	r := env.RandAt("cap", i)
	frameLen := e37.DefaultCap + int(k)
	n := frameLen - e37.HeaderLen - 4 // one binary item with a 3-byte length field
	payload := make([]byte, n)
	for j := range payload {
		payload[j] = byte(j*13 + 5)
	}
	node := &e5.Node{FC: e5.Binary, Bytes: payload}
	item := secs2.NewBinaryItem(payload)
	session, system := c03Session(r), c03System(r)
	cs := c03Case{Index: i, Kind: "data", Stream: 7, Function: 3, W: true, Session: fmt.Sprintf("%#04x", session), System: fmt.Sprintf("%x", system),
		Body: fmt.Sprintf("frame-length-%d", frameLen), Recipe: fmt.Sprintf("NewBinaryItem(make([]byte,%d))", n)}
	env.Begin(i, cs)
	env.Eval(fw.HashStr("cap", fmt.Sprint(frameLen)), true)
	env.Event("cap_boundary_checked", 1)
	if item.Error() != nil {
		env.Discard() // not an error-free body: outside the property
		return
	}
	msg, err := hsms.NewDataMessage(7, 3, true, session, system, item)
	if err != nil || msg == nil {
		env.Violate("rejects-valid", fmt.Sprintf("NewDataMessage(S7F3 W, error-free %d-byte binary body) err=%v", n, err), cs)
		return
	}
	model := e37.Data(session, 7, 3, true, system, node.Encode(nil))
	if k == 0 {
		c03CheckData(env, "constructed", msg, model, node, item, true, cs)
		return
	}
	// above the cap: serialisation is judged as usual, the decode half gets its own key
	if !c03CheckData(env, "constructed", msg, model, node, item, false, cs) {
		return
	}
	frame := msg.ToBytes()
	for _, name := range []string{"DecodeHSMSMessage", "DecodeHSMSPayload", "DecodeOwnedHSMSPayload"} {
		var dm hsms.Message
		var derr error
		if p := catch(func() {
			switch name {
			case "DecodeHSMSMessage":
				dm, derr = hsms.DecodeHSMSMessage(frame)
			case "DecodeHSMSPayload":
				dm, derr = hsms.DecodeHSMSPayload(frame[4:])
			default:
				dm, derr = hsms.DecodeOwnedHSMSPayload(append([]byte(nil), frame[4:]...))
			}
		}); p != nil {
			env.Violate("panic-decode", fmt.Sprintf("%s panicked on the library's own frame: %v", name, p), cs)
			return
		}
		if derr != nil || dm == nil {
			env.Violate("frame-above-cap-not-decodable", fmt.Sprintf("a valid data message (error-free %d-byte binary item body, item.Error()==nil, NewDataMessage err==nil) serialises to a frame with length field %d; "+
				"%s refuses the library's own frame: %v", n, frameLen, name, derr), cs)
			return
		}
		d, ok := dm.ToDataMessage()
		if !ok || d.HeaderBytes() != model.Header() || !bytes.Equal(d.ToBytes(), frame) || !msg.Equal(d) {
			env.Violate("decode-changes-header", fmt.Sprintf("%s: above-cap frame decoded to a different message", name), cs)
			return
		}
	}
}
