package checks

import (
	"context"
	"fmt"
	"math"
	"time"

	"github.com/arloliu/go-secs/v2/hsms"
	"github.com/arloliu/go-secs/v2/secs2"

	"verif/fw"
	"verif/peer"
)

// C16 wire half: an item with a non-nil Error(), directly or nested, is refused by every send call of
// a live Selected connection and not one byte of it reaches the peer.
func init() { c16Wire = c16WirePhase }

type c16WireCase struct {
	Index  int64  `json:"index"`
	Active bool   `json:"active"`
	Item   string `json:"errored_item"`
	Depth  int    `json:"nesting_depth"`
	API    string `json:"api"`
}

// c16ErroredItems: items whose constructors report a deferred error, by different routes.
func c16ErroredItems() []struct {
	name string
	it   secs2.Item
} {
	type ch = chan int

	return []struct {
		name string
		it   secs2.Item
	}{
		{"I1(unparsable string)", secs2.I1("not-a-number")},
		{"U2(struct)", secs2.U2(struct{}{})},
		{"F4(chan)", secs2.F4(make(ch))},
		{"B(300)", secs2.B(300)},
		{"BOOLEAN(map)", secs2.BOOLEAN(map[string]int{})},
		{"NewIntItem(byteSize 3)", secs2.NewIntItem(3, 1)},
		{"NewUintItem(byteSize 0)", secs2.NewUintItem(0, 1)},
		{"NewFloatItem(byteSize 16)", secs2.NewFloatItem(16, 1.0)},
		{"U1(-1 documented error or clamp)", secs2.U1(nil)},
		{"A over the size cap", secs2.A(string(make([]byte, secs2.MaxByteSize+1)))},
		{"F8(NaN string garbage)", secs2.F8("1e-")},
		{"I8(float NaN)", secs2.I8(math.NaN())},
	}
}

func c16WirePhase(env *fw.Env) {
	apis := []string{"SendDataMessage-W", "SendDataMessage", "SendDataMessageAsync", "SendSECS2Message-W", "SendSECS2Message", "ReplyDataMessage"}
	items := c16ErroredItems()
	idx := int64(0)
	for _, active := range []bool{true, false} {
		if !env.Mine(idx/1000) && false {
			continue
		}
		var cases []c16WireCase
		for _, e := range items {
			for depth := 0; depth <= 5; depth++ {
				for _, api := range apis {
					cases = append(cases, c16WireCase{Index: idx, Active: active, Item: e.name, Depth: depth, API: api})
					idx++
				}
			}
		}
		// one connection per shard and role; the cases of this shard run on it
		var mine []c16WireCase
		for _, c := range cases {
			if env.Mine(c.Index) && env.Want(c.Index) {
				mine = append(mine, c)
			}
		}
		if len(mine) == 0 {
			continue
		}
		c16WireConn(env, active, mine, items)
		if env.Stop() {
			return
		}
	}
}

func c16WireConn(env *fw.Env, active bool, cases []c16WireCase, items []struct {
	name string
	it   secs2.Item
}) {
	rg, err := newRig(rigOpts{Active: active, T3: 300 * time.Millisecond})
	if err != nil {
		env.Discard()
		return
	}
	echo := func(c *peer.Conn, f peer.Frame) bool {
		if f.IsData() && f.WBit() {
			_ = c.Send(peer.Data(f.Stream(), f.Function()+1, false, f.Session, f.Sys, nil))
		}

		return !f.IsData()
	}
	pc, err := rg.Establish(echo)
	if err != nil {
		env.Note("establish: %v", err)
		env.Discard()
		_ = rg.Shutdown()
		return
	}
	defer func() { pc.Close(); _ = rg.Shutdown() }()
	byName := map[string]secs2.Item{}
	for _, e := range items {
		byName[e.name] = e.it
	}
	for _, cs := range cases {
		env.Begin(cs.Index, cs)
		env.Sample(cs)
		base := byName[cs.Item]
		if base.Error() == nil {
			env.Event("wire_item_not_errored_skipped", 1) // documented clamp instead of error: outside this half
			continue
		}
		it := base
		for d := 0; d < cs.Depth; d++ {
			switch d % 3 {
			case 0:
				it = secs2.L(secs2.A("ok"), it)
			case 1:
				it = secs2.L(it, secs2.U1(1), secs2.L())
			default:
				it = secs2.L(it)
			}
		}
		env.Eval(fw.HashStr("c16wire", fmt.Sprint(cs)), true)
		before := pc.LogLen()
		sendBefore := rg.Conn.Metrics().DataMsgSendCount()
		ctx, cancel := context.WithTimeout(context.Background(), 2*time.Second)
		var callErr error
		var rep *hsms.DataMessage
		switch cs.API {
		case "SendDataMessage-W":
			rep, callErr = rg.Conn.SendDataMessage(ctx, 1, 1, true, it)
		case "SendDataMessage":
			rep, callErr = rg.Conn.SendDataMessage(ctx, 1, 3, false, it)
		case "SendDataMessageAsync":
			callErr = rg.Conn.SendDataMessageAsync(ctx, 1, 5, false, it)
		case "SendSECS2Message-W":
			rep, callErr = rg.Conn.SendSECS2Message(ctx, secs2.NewMessage(2, 1, true, it))
		case "SendSECS2Message":
			rep, callErr = rg.Conn.SendSECS2Message(ctx, secs2.NewMessage(2, 3, false, it))
		case "ReplyDataMessage":
			prim, e := hsms.NewDataMessage(3, 1, true, 0x1234, sysb(uint32(0x16000000+cs.Index)), secs2.A("primary"))
			if e != nil {
				cancel()
				continue
			}
			callErr = rg.Conn.ReplyDataMessage(ctx, prim, it)
		}
		cancel()
		env.Event("wire_errored_sends", 1)
		if callErr == nil {
			env.Violate("errored-item-accepted-by-send:"+cs.API, fmt.Sprintf("%s accepted an item whose Error() is %q (nesting depth %d); reply=%v", cs.API, it.Error(), cs.Depth, rep), cs)
		} else {
			env.Event("wire_refused", 1)
		}
		if _, err := pc.Barrier(10 * time.Second); err != nil {
			env.Violate("wire-link-dropped", fmt.Sprintf("a send with an errored item dropped the link: %v", err), cs)
			return
		}
		for _, ev := range pc.Log()[before:] {
			if ev.Frame.IsData() {
				env.Violate("errored-item-on-the-wire:"+cs.API, fmt.Sprintf("%s with an errored item (%s, depth %d) put a data frame on the wire: %v", cs.API, cs.Item, cs.Depth, ev.Frame), cs)
			}
		}
		if d := rg.Conn.Metrics().DataMsgSendCount() - sendBefore; d != 0 {
			env.Violate("errored-item-counted-as-sent", fmt.Sprintf("DataMsgSendCount moved by %d for a refused errored item", d), cs)
		}
	}
	// a valid item still goes through on the same connection (the link was not harmed)
	ctx, cancel := context.WithTimeout(context.Background(), 5*time.Second)
	rep, err := rg.Conn.SendDataMessage(ctx, 1, 1, true, secs2.A("valid"))
	cancel()
	if err != nil || rep == nil {
		env.Violate("wire-valid-send-after-errored", fmt.Sprintf("after the refused sends a valid W-bit message failed: reply=%v err=%v", rep, err), nil)
	} else {
		env.Event("wire_valid_roundtrips", 1)
	}
}
