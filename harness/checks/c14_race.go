package checks

import (
	"fmt"
	"hash/fnv"
	"strings"
	"sync"
	"syscall"
	"unsafe"

	"github.com/arloliu/go-secs/v2/hsms"
	"github.com/arloliu/go-secs/v2/secs2"
	"github.com/arloliu/go-secs/v2/sml"

	"verif/fw"
	"verif/gen"
	"verif/gen/smltext"
	"verif/ref/e5"
)

// threadCPU returns the CPU time (user+system, seconds) consumed by the calling OS thread.
// It reads CLOCK_THREAD_CPUTIME_ID (scheduler run time, nanosecond resolution); getrusage's
// utime/stime are tick-sampled on this kernel and useless below ~10 ms.
func threadCPU() float64 {
	const clockThreadCPUTimeID = 3
	var ts syscall.Timespec
	if _, _, e := syscall.Syscall(syscall.SYS_CLOCK_GETTIME, clockThreadCPUTimeID, uintptr(unsafe.Pointer(&ts)), 0); e != 0 {
		return 0
	}

	return float64(ts.Sec) + float64(ts.Nsec)/1e9
}

func c14MsgSig(sb *strings.Builder, msgs []*hsms.DataMessage, err error) {
	if err != nil {
		sb.WriteString("E:" + err.Error())
		return
	}
	for _, m := range msgs {
		if m == nil {
			sb.WriteString("<nil>")
			continue
		}
		h := fnv.New64a()
		_, _ = h.Write(m.ToBytes())
		fmt.Fprintf(sb, "S%dF%dW%v:%x;", m.Stream(), m.Function(), m.WaitBit(), h.Sum64())
	}
	sb.WriteString("#")
}

type c14RaceCorpus struct {
	texts []string
	items []secs2.Item
	msgs  []*hsms.DataMessage
}

// c14RaceRun is the workload of one goroutine: its OWN parser and encoder instances, reused over
// the whole corpus, visiting the corpus in a rotation that depends on g. It returns one result
// signature per operation.
func c14RaceRun(c *c14RaceCorpus, g int) []string {
	p := sml.NewParser()
	ps := sml.NewParser(sml.WithParserStrictMode(true))
	encs := []*sml.Encoder{
		sml.NewEncoder(),
		sml.NewEncoder(sml.WithEncoderStrictMode(true)),
		sml.NewEncoder(sml.WithEncoderStrictMode(true), sml.WithASCIIQuote(sml.QuoteSingle), sml.WithSFQuote(sml.QuoteSingle), sml.WithIndent("\t"), sml.WithBinaryStyle(sml.BinaryLiteral)),
		sml.NewEncoder(sml.WithSFQuote(sml.QuoteDouble), sml.WithIndent("")),
	}
	out := make([]string, 0, len(c.texts)+len(c.items))
	one := func(f func(sb *strings.Builder)) {
		var sb strings.Builder
		func() {
			defer func() {
				if r := recover(); r != nil {
					fmt.Fprintf(&sb, "PANIC:%v", r)
				}
			}()
			f(&sb)
		}()
		out = append(out, sb.String())
	}
	single := func(sb *strings.Builder, m *hsms.DataMessage, err error) {
		if m == nil {
			c14MsgSig(sb, nil, err)
		} else {
			c14MsgSig(sb, []*hsms.DataMessage{m}, err)
		}
	}
	nt := len(c.texts)
	for k := 0; k < nt; k++ {
		t := c.texts[(k+g*7)%nt]
		one(func(sb *strings.Builder) {
			m, err := p.Parse(t)
			c14MsgSig(sb, m, err)
			m, err = ps.Parse(t)
			c14MsgSig(sb, m, err)
			m1, err := p.ParseMessage(t)
			single(sb, m1, err)
			m1, err = ps.ParseMessage(t)
			single(sb, m1, err)
			m1, err = ps.ParseHeader(t)
			single(sb, m1, err)
			m, err = sml.Parse(t)
			c14MsgSig(sb, m, err)
			m, err = sml.ParseStrict(t)
			c14MsgSig(sb, m, err)
		})
	}
	ni := len(c.items)
	for k := 0; k < ni; k++ {
		idx := (k + g*5) % ni
		it, msg := c.items[idx], c.msgs[idx]
		one(func(sb *strings.Builder) {
			for _, e := range encs {
				sb.WriteString(e.Encode(it))
				sb.WriteString("|")
				s, err := e.EncodeMessage(msg)
				sb.WriteString(s)
				if err != nil {
					sb.WriteString("E:" + err.Error())
				}
				sb.WriteString("|")
			}
			sb.WriteString(sml.Encode(it))
			sb.WriteString("|")
			sb.WriteString(sml.EncodeStrict(it))
			sb.WriteString("|")
			sb.WriteString(it.ToSML())
		})
	}

	return out
}

func c14Race(env *fw.Env) {
	if !env.Want(0) {
		return
	}
	r := env.Rand("race-corpus")
	c := &c14RaceCorpus{}
	nTexts, nItems := env.Pick(120, 800), env.Pick(60, 400)
	for len(c.texts) < nTexts {
		g := smltext.New(r, smltext.Style{Strict: r.IntN(2) == 0, Plain: r.IntN(4) == 0})
		for m := 0; m < 1+r.IntN(2); m++ {
			budget := 2 + r.IntN(20)
			body := gen.Tree(r, &budget, 0, 1+r.IntN(4))
			smltext.Sanitize(r, body, r.IntN(3))
			stream, function, w := c13Header(int64(len(c.texts)*3 + m))
			g.Message(smltext.Msg{Stream: int(stream), Function: int(function), W: w, Body: body})
		}
		c.texts = append(c.texts, g.T.String())
		// a few broken variants: error paths and error positions run concurrently too
		n := 0
		smltext.Mutations(r, g.T, func(kind, in string) {
			n++
			if n%97 == 0 && len(c.texts) < nTexts {
				c.texts = append(c.texts, in)
			}
		})
	}
	for len(c.items) < nItems {
		budget := 2 + r.IntN(30)
		var node *e5.Node
		if r.IntN(3) == 0 {
			node = gen.Leaf(r, gen.LeafCodes[r.IntN(len(gen.LeafCodes))], gen.SmallCount(r))
		} else {
			node = gen.Tree(r, &budget, 0, 1+r.IntN(5))
		}
		it, _ := gen.Build(r, node)
		stream, function, w := c13Header(int64(len(c.items)))
		msg, err := hsms.NewDataMessage(stream, function, w, 0, [4]byte{}, it)
		if err != nil {
			continue
		}
		c.items = append(c.items, it)
		c.msgs = append(c.msgs, msg)
	}
	for _, t := range c.texts {
		env.Eval(fw.HashStr("race-text", t), true)
	}
	const G = 16
	baseline := make([][]string, G)
	for g := 0; g < G; g++ {
		baseline[g] = c14RaceRun(c, g)
	}
	env.Event("sequential_baseline_operations", int64(G*len(baseline[0])))
	once := onceKeys{}
	rounds := env.Pick(3, 8)
	for round := 0; round < rounds; round++ {
		res := make([][]string, G)
		start := make(chan struct{})
		var wg sync.WaitGroup
		for g := 0; g < G; g++ {
			wg.Add(1)
			go func(g int) {
				defer wg.Done()
				<-start
				res[g] = c14RaceRun(c, g)
			}(g)
		}
		close(start)
		wg.Wait()
		for g := 0; g < G; g++ {
			for k := range baseline[g] {
				env.Event("concurrent_results_compared", 1)
				if k >= len(res[g]) || res[g][k] != baseline[g][k] {
					kind := "parse"
					if k >= len(c.texts) {
						kind = "encode"
					}
					got := "<missing>"
					if k < len(res[g]) {
						got = res[g][k]
					}
					env.Event("violation_concurrent-result-differs:"+kind, 1)
					if once.first("concurrent-result-differs:" + kind) {
						env.Violate("concurrent-result-differs:"+kind, fmt.Sprintf("goroutine %d, operation %d (%s) with its own Parser/Encoder instances gave a different result while 15 other goroutines were running\n sequential: %s\n concurrent: %s",
							g, k, kind, clipStr(baseline[g][k], 400), clipStr(got, 400)), c14Case{Unit: 0, Kind: "race", Recipe: fmt.Sprintf("round %d goroutine %d op %d", round, g, k)})
					}
				}
			}
		}
	}
	env.Event("concurrent_rounds", int64(rounds))
}
