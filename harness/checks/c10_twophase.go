package checks

import (
	"context"
	"errors"
	"fmt"
	"net"
	"sync"
	"sync/atomic"
	"time"

	"github.com/arloliu/go-secs/v2/hsms"
	"github.com/arloliu/go-secs/v2/secs2"

	"verif/fw"
	"verif/peer"
)

// C10, "Close returns within the configured close timeout": ONE close timeout for the whole teardown, however
// many of its phases hit their bound. Here two do: the receive side is inside a data handler that returns later
// than the close timeout, and the asynchronous sender — parked in a write the peer does not take — is released
// by the teardown's socket close into an async-send-error callback that is just as slow. Both callbacks return
// (the property's premise). The close timeout is long (8 s) so that "twice the timeout" is far outside the slack.

type c10TwoPhaseCase struct {
	Index  int64  `json:"index"`
	Active bool   `json:"active"`
	Slow   string `json:"slow_callbacks"`
}

func c10TwoPhase(env *fw.Env, cs c10TwoPhaseCase) {
	env.Begin(cs.Index, cs)
	env.Sample(cs)
	env.Eval(fw.HashStr("c10twophase", fmt.Sprint(cs.Active, cs.Slow)), true)
	env.Event("two_phase_close_cases", 1)
	closeTimeout := 8 * time.Second
	slow := 2*closeTimeout + 4*time.Second // longer than two close timeouts: a second full bound cannot hide behind the callbacks' return
	var inHandler, inAsyncErr atomic.Bool
	var cbs atomic.Int32 // callbacks still sleeping
	asyncErr := func(hsms.Message, error) {
		if cs.Slow == "handler-only" || !inAsyncErr.CompareAndSwap(false, true) {
			return
		}
		cbs.Add(1)
		defer cbs.Add(-1)
		time.Sleep(slow)
	}
	rg, err := newRig(rigOpts{Active: cs.Active, T3: 30 * time.Second, T5: 30 * time.Millisecond, BackoffInit: 5 * time.Millisecond, CloseTimeout: closeTimeout, WriteTimeout: -1,
		Extra: []hsms.ConnOption{hsms.WithAsyncSendErrorHandler(asyncErr)}})
	if err != nil {
		env.Discard()
		return
	}
	rg.Conn.AddDataMessageHandler(func(m *hsms.DataMessage, _ hsms.SECS2Endpoint) {
		if m.Stream() == 1 && m.Function() == 1 && inHandler.CompareAndSwap(false, true) {
			cbs.Add(1)
			defer cbs.Add(-1)
			time.Sleep(slow)
		}
	})
	var gmu sync.Mutex
	var gates []*peer.GateConn
	rg.Trk.Wrap = func(c net.Conn) net.Conn {
		g := peer.NewGateConn(c)
		gmu.Lock()
		gates = append(gates, g)
		gmu.Unlock()

		return g
	}
	block := func(on bool) {
		gmu.Lock()
		for _, g := range gates {
			g.BlockWrites(on)
		}
		gmu.Unlock()
	}
	pc, err := rg.Establish(nil)
	if err != nil {
		env.Discard()
		_ = rg.Shutdown()
		return
	}
	defer pc.Close()
	finish := func() {
		block(false)
		time.Sleep(50 * time.Millisecond)
		waitFor(slow+10*time.Second, func() bool { return cbs.Load() == 0 })
	}
	// the asynchronous sender parks in a write the socket does not take
	block(true)
	if err := rg.Conn.SendDataMessageAsync(context.Background(), 6, 11, false, secs2.A("parked in the write")); err != nil {
		env.Note("two-phase case %d: async send refused: %v", cs.Index, err)
		env.Discard()
		finish()
		_ = rg.Shutdown()
		return
	}
	blocked := func() bool {
		gmu.Lock()
		defer gmu.Unlock()
		for _, g := range gates {
			if g.BlockedWrites.Load() > 0 {
				return true
			}
		}

		return false
	}
	// the receive side enters the slow handler
	_ = pc.Send(peer.Data(1, 1, false, 0x1234, 0x10C10001, nil))
	if !waitFor(5*time.Second, func() bool { return blocked() && inHandler.Load() }) {
		env.Note("two-phase case %d: premise not met (write blocked: %v, handler entered: %v)", cs.Index, blocked(), inHandler.Load())
		env.Discard()
		finish()
		_ = rg.Shutdown()
		return
	}
	t0 := time.Now()
	closed := make(chan error, 1)
	go func() { closed <- rg.Shutdown() }()
	bound := closeTimeout + 5*time.Second
	select {
	case err := <-closed:
		el := time.Since(t0)
		env.Note("two-phase case %d (%s, active=%v): Close took %v and returned %v; async-error callback entered: %v", cs.Index, cs.Slow, cs.Active, el.Round(time.Millisecond), err, inAsyncErr.Load())
		switch {
		case el > bound:
			env.Violate("close-too-slow-two-slow-phases", fmt.Sprintf("a data handler and an async-send-error callback both return %v after they were entered (close timeout %v): Close took %v, bound is ONE close timeout + 5 s slack (async-error callback entered: %v)", slow, closeTimeout, el.Round(time.Millisecond), inAsyncErr.Load()), cs)
		default:
			env.Event("close_returned_within_one_timeout_with_two_slow_phases", 1)
		}
		if err != nil && !errors.Is(err, hsms.ErrCloseTimeout) {
			env.Violate("close-unexpected-error-two-slow-phases", fmt.Sprintf("Close returned %v", err), cs)
		}
		if inAsyncErr.Load() {
			env.Event("two_phase_async_error_callback_entered", 1)
		}
	case <-time.After(3*closeTimeout + 10*time.Second):
		env.Violate("close-hangs-two-slow-phases", fmt.Sprintf("Close has not returned %v after the call (close timeout %v; both slow callbacks return after %v)", 3*closeTimeout+10*time.Second, closeTimeout, slow), cs)
	}
	finish()
}
