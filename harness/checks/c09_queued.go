package checks

import (
	"context"
	"errors"
	"fmt"
	"sync"
	"sync/atomic"
	"time"

	"github.com/arloliu/go-secs/v2/hsms"
	"github.com/arloliu/go-secs/v2/secs2"

	"verif/fw"
	"verif/peer"
)

// c09QueuedWriters: reply-expected senders QUEUED ON THE WRITE LOCK of a generation (a large frame of another sender
// is stuck in its write to a peer that stopped reading) when that generation ends. They were accepted for sending on
// that generation, so each comes back promptly with the connection-closed error — not with the non-fatal
// "not selected" refusal, which says the link is still there.

type c09QueuedCase struct {
	Index  int64  `json:"index"`
	Active bool   `json:"active"`
	End    string `json:"generation_end"`
}

func c09QueuedWriters(env *fw.Env, cs c09QueuedCase) {
	env.Begin(cs.Index, cs)
	env.Sample(cs)
	env.Eval(fw.HashStr("c09queued", fmt.Sprint(cs.Active, cs.End)), true)
	env.Event("queued_writer_cases", 1)
	rg, err := newRig(rigOpts{Active: cs.Active, T3: 60 * time.Second, T5: 30 * time.Millisecond, BackoffInit: 5 * time.Millisecond,
		CloseTimeout: time.Second, WriteTimeout: 60 * time.Second})
	if err != nil {
		env.Discard()
		return
	}
	var armed atomic.Bool
	lockHeld := make(chan struct{}, 1)
	hsms.VerifSetConnHooks(rg.Core, func() {
		if armed.Load() {
			select {
			case lockHeld <- struct{}{}:
			default:
			}
		}
	}, nil)
	pc, err := rg.Establish(func(*peer.Conn, peer.Frame) bool { return false })
	if err != nil {
		env.Discard()
		_ = rg.Shutdown()
		return
	}
	defer pc.Close()
	shut := false
	defer func() {
		if !shut {
			_ = rg.Shutdown()
		}
	}()
	_ = pc.C.SetReadBuffer(64 << 10)
	big := secs2.B(make([]byte, 12<<20))
	_ = big.ToBytes()
	pc.StallReads(true)
	mt := rg.Conn.Metrics()
	drop0 := mt.DataMsgDropNotSelectedCount()
	armed.Store(true)
	var bg sync.WaitGroup
	bg.Add(1)
	go func() {
		defer bg.Done()
		_, _ = rg.Conn.SendDataMessage(context.Background(), 1, 5, false, big)
	}()
	select {
	case <-lockHeld:
	case <-time.After(10 * time.Second):
		env.Discard()
		pc.StallReads(false)
		return
	}
	armed.Store(false)
	time.Sleep(50 * time.Millisecond)
	const queued = 3
	type result struct {
		err error
		at  time.Time
	}
	res := make(chan result, queued)
	for k := 0; k < queued; k++ {
		go func(k int) {
			_, err := rg.Conn.SendDataMessage(context.Background(), 1, 1, true, secs2.A(fmt.Sprintf("queued-%d", k)))
			res <- result{err, time.Now()}
		}(k)
	}
	time.Sleep(150 * time.Millisecond) // they are now parked on the write lock (nothing of them has reached the peer)
	t0 := time.Now()
	closed := make(chan error, 1)
	if cs.End == "close" {
		shut = true
		go func() { closed <- rg.Shutdown() }()
	} else {
		pc.Reset()
	}
	for k := 0; k < queued; k++ {
		select {
		case r := <-res:
			switch {
			case errors.Is(r.err, hsms.ErrNotSelectedState) && cs.End != "close":
				// an INVOLUNTARY drop stores the new state before the teardown cancels the generation: a queued writer
				// that gets the lock inside that window is refused at the write boundary (C07's rule) — legitimate
				env.Event("queued_writers_refused_at_the_write_boundary_during_a_drop", 1)
			case errors.Is(r.err, hsms.ErrNotSelectedState):
				// Close cancels the generation BEFORE it closes the socket that releases the lock holder: the queued
				// writer meets an ended generation first
				env.Violate("queued-writer-refused-as-not-selected", fmt.Sprintf("generation ended by %s: a reply-expected send that was queued on the write lock of that generation returned %v after %v — the non-fatal not-selected refusal (drop counter moved by %d) instead of the connection-closed error", cs.End, r.err, r.at.Sub(t0).Round(time.Millisecond), mt.DataMsgDropNotSelectedCount()-drop0), cs)
				k = queued
			case r.at.Sub(t0) > 5*time.Second:
				env.Violate("queued-writer-released-late", fmt.Sprintf("generation ended by %s: a send queued on the write lock came back only %v later (%v)", cs.End, r.at.Sub(t0).Round(time.Millisecond), r.err), cs)
				k = queued
			case errors.Is(r.err, hsms.ErrConnClosed):
				env.Event("queued_writers_released_conn_closed", 1)
			default:
				// a write error on the dying socket (the sender got the lock while the socket was going down)
				env.Event("queued_writers_released_other_error", 1)
			}
		case <-time.After(75 * time.Second):
			env.Violate("queued-writer-never-released", fmt.Sprintf("generation ended by %s: a send queued on the write lock has not returned", cs.End), cs)
			k = queued
		}
	}
	if cs.End == "close" {
		select {
		case <-closed:
		case <-time.After(20 * time.Second):
		}
	}
	pc.StallReads(false)
	bg.Wait()
}
