package checks

import (
	"net"
	"context"
	"fmt"
	"sync"
	"sync/atomic"
	"time"

	"github.com/arloliu/go-secs/v2/hsms"
	"github.com/arloliu/go-secs/v2/hsmsss"
	"github.com/arloliu/go-secs/v2/secs2"

	"verif/fw"
	"verif/peer"
)

// C19 — linktest drops dead links in bounded probes and never drops a link showing life.
func init() {
	fw.Register(&fw.Check{
		ID:    "C19",
		Level: "exploration",
		Rule: "(pure) the two decision functions (verif export) vs a reference written from the documented rules, EXHAUSTIVELY over suppression x timestamps from a 5-point ordered domain x inflight {0,1,2} x fails 0..4; " +
			"then the whole failure-accounting loop folded over ALL observation histories of length <= 6 (quick) / <= 8 (thorough) over an 8-symbol observation alphabet x threshold 1..4 x suppression on/off, real reducer vs reference fold " +
			"(disconnect index and credit count), plus the two spec-level invariants (suppression off: disconnect exactly at the threshold-th consecutive timeout; on: never at an observation that showed life). " +
			"(e2e) scripted peers on real connections (interval 150 ms, T6 100 ms, threshold 1..3): silent, silent while the local side keeps sending, answering, alive-but-not-answering with suppression on and off, alive with a data handler that outlasts T6 (interval 200 ms, T6 300 ms), chatty, withheld reply. " +
			"distinct = hash(history or scenario); non-trivial = history with at least one timeout / every scenario.",
		Assumptions: []string{
			"'life' = a frame received after the probe was sent, or a reply outstanding (the documented suppression rules); the reference fold is written from those rules, not from the code",
			"e2e timing is decided one-sidedly: counts of probes seen by the peer, 'still connected after N cycles', and 'closed no earlier than threshold x T6 after the first probe' (timers never fire early); the chatty scenario requires a measured premise (max gap < interval/2) and is discarded otherwise",
		},
		Phases: func(tier string) []fw.Phase {
			return []fw.Phase{
				{Name: "pure", Shards: 8, Timeout: tierDur(tier, 4, 30)},
				{Name: "e2e", Race: true, Shards: 10, Parallel: 5, Timeout: tierDur(tier, 8, 45), HangIsViolation: true},
			}
		},
		Worker: func(env *fw.Env) {
			if env.Phase == "pure" {
				c19Pure(env)
			} else {
				c19E2E(env)
			}
		},
		RequiredEvents: []string{"reducer_points", "fold_histories", "fold_disconnects", "fold_credits", "e2e_scenarios", "silent_peer_dropped_after_threshold", "answering_peer_kept", "alive_peer_kept", "alive_peer_dropped_without_suppression", "dead_peer_dropped_despite_local_sends"},
		// (chatty_zero_probes / withheld_reply_zero_probes depend on a measured timing premise and may be
		// discarded on a loaded machine; they are reported when observed but not required)
	})
}

// ---- reference (from the documented rules) --------------------------------------------------------

// refFailure: outcome of one probe timeout. life-after-probe or an outstanding reply forgives the
// failure and ends the run; life since the previous counted failure restarts the run at this failure;
// otherwise the run grows. Without suppression every timeout counts.
func refFailure(suppress bool, recvNow, sentAt, inflight int64, fails int, recvAtLastFail int64) (int, int64, bool) {
	if !suppress {
		return fails + 1, recvNow, false
	}
	if recvNow > sentAt || inflight > 0 {
		return 0, recvAtLastFail, true
	}
	if fails > 0 && recvNow > recvAtLastFail {
		return 1, recvNow, false
	}

	return fails + 1, recvNow, false
}

func refRecheck(suppress bool, inflight, recvNow, sentAt int64) bool {
	return !suppress || (inflight <= 0 && recvNow <= sentAt)
}

// one observation fed to the accounting loop
type c19Obs struct {
	ok          bool // the probe was answered
	recvAfter   bool // a frame arrived after the probe was sent (before the timeout was evaluated)
	recvBetween bool // a frame arrived after the previous probe's evaluation and before this probe was sent
	inflight    bool // a reply is outstanding at evaluation
	lateLife    bool // life shows up only at the final pre-disconnect re-check
}

var c19Alphabet = []c19Obs{
	{ok: true},
	{},
	{recvAfter: true},
	{recvBetween: true},
	{inflight: true},
	{lateLife: true},
	{recvBetween: true, inflight: true},
	{recvBetween: true, lateLife: true},
}

type stepFn func(bool, int64, int64, int64, int, int64) (int, int64, bool)
type recheckFn func(bool, int64, int64, int64) bool

// c19Fold runs the accounting loop (as documented for runLinktest) over a history with the given
// decision functions and returns the index at which the link is dropped (-1: never) and the credits.
func c19Fold(h []c19Obs, threshold int, suppress bool, step stepFn, recheck recheckFn) (dropAt, credits int) {
	fails := 0
	recvAtLastFail := int64(0)
	clock := int64(10)
	lastRecv := int64(1)
	for i, o := range h {
		if o.recvBetween {
			clock += 5
			lastRecv = clock
		}
		clock += 5
		sentAt := clock
		clock += 5
		if o.ok {
			lastRecv = clock // the answer itself is a received frame
			fails = 0
			clock += 5

			continue
		}
		if o.recvAfter {
			lastRecv = clock
		}
		clock += 5
		inflight := int64(0)
		if o.inflight {
			inflight = 1
		}
		prev := recvAtLastFail
		var credited bool
		fails, recvAtLastFail, credited = step(suppress, lastRecv, sentAt, inflight, fails, recvAtLastFail)
		if credited {
			credits++
		}
		if fails >= threshold {
			finalRecv, finalInflight := lastRecv, inflight
			if o.lateLife {
				clock += 5
				finalRecv = clock
				lastRecv = clock
			}
			if recheck(suppress, finalInflight, finalRecv, sentAt) {
				return i, credits
			}
			recvAtLastFail = prev
			credits++
			fails = 0
		}
	}

	return -1, credits
}

func c19Pure(env *fw.Env) {
	// ---- the two functions, exhaustively over a small ordered domain ----
	if env.Shard == 0 {
		dom := []int64{0, 1, 2, 3, 4}
		for _, sup := range []bool{false, true} {
			for _, recvNow := range dom {
				for _, sentAt := range dom {
					for _, inflight := range []int64{0, 1, 2} {
						for fails := 0; fails <= 4; fails++ {
							for _, ralf := range dom {
								gf, gr, gc := hsmsss.VerifLinktestFailureStep(sup, recvNow, sentAt, inflight, fails, ralf)
								wf, wr, wc := refFailure(sup, recvNow, sentAt, inflight, fails, ralf)
								env.EvalN(1)
								env.Event("reducer_points", 1)
								if gf != wf || gr != wr || gc != wc {
									env.Violate("reducer-differs", fmt.Sprintf("linktestFailureStep(suppress=%v, recvNow=%d, sentAt=%d, inflight=%d, fails=%d, recvAtLastFail=%d) = (%d,%d,%v), documented rules give (%d,%d,%v)",
										sup, recvNow, sentAt, inflight, fails, ralf, gf, gr, gc, wf, wr, wc), nil)
								}
							}
						}
						if g, w := hsmsss.VerifLinktestDisconnectRecheck(sup, inflight, recvNow, sentAt), refRecheck(sup, inflight, recvNow, sentAt); g != w {
							env.Violate("recheck-differs", fmt.Sprintf("linktestDisconnectRecheck(suppress=%v, inflight=%d, recvNow=%d, sentAt=%d) = %v, documented rule gives %v", sup, inflight, recvNow, sentAt, g, w), nil)
						}
						env.Event("reducer_points", 1)
					}
				}
			}
		}
		env.Eval(fw.HashStr("reducer-grid"), true)
		env.Eval(fw.HashStr("recheck-grid"), true)
	}
	// ---- the fold over all histories ----
	maxLen := env.Pick(6, 8)
	a := len(c19Alphabet)
	var idx int64
	for n := 1; n <= maxLen; n++ {
		total := 1
		for k := 0; k < n; k++ {
			total *= a
		}
		for code := 0; code < total; code++ {
			i := idx
			idx++
			if !env.Mine(i) || !env.Want(i) {
				continue
			}
			h := make([]c19Obs, n)
			c := code
			timeouts := 0
			for k := 0; k < n; k++ {
				h[k] = c19Alphabet[c%a]
				if !h[k].ok {
					timeouts++
				}
				c /= a
			}
			env.Eval(fw.HashStr("hist", fmt.Sprint(n, code)), timeouts > 0)
			env.Event("fold_histories", 1)
			if i < 3 {
				env.Sample(map[string]any{"history": fmt.Sprintf("%+v", h)})
			}
			for thr := 1; thr <= 4; thr++ {
				for _, sup := range []bool{false, true} {
					gd, gc := c19Fold(h, thr, sup, hsmsss.VerifLinktestFailureStep, hsmsss.VerifLinktestDisconnectRecheck)
					wd, wc := c19Fold(h, thr, sup, refFailure, refRecheck)
					cs := map[string]any{"history": fmt.Sprintf("%+v", h), "threshold": thr, "suppression": sup}
					if gd != wd || gc != wc {
						env.Violate("fold-differs", fmt.Sprintf("accounting loop over the history: real reducer drops at %d with %d credits, documented rules drop at %d with %d credits", gd, gc, wd, wc), cs)
					}
					if gd >= 0 {
						env.Event("fold_disconnects", 1)
					}
					env.Event("fold_credits", int64(gc))
					// spec-level invariants, independent of either reducer
					if !sup {
						run, want := 0, -1
						for k, o := range h {
							if o.ok {
								run = 0
							} else if run++; run == thr {
								want = k
								break
							}
						}
						if gd != want {
							env.Violate("no-suppression-threshold", fmt.Sprintf("suppression off, threshold %d: link dropped at observation %d, the %d-th consecutive timeout is at %d", thr, gd, thr, want), cs)
						}
					} else if gd >= 0 {
						o := h[gd]
						if o.recvAfter || o.inflight || o.lateLife {
							env.Violate("dropped-a-link-showing-life", fmt.Sprintf("suppression on: link dropped at observation %d although it showed life there (%+v)", gd, o), cs)
						}
						silent := 0
						for k := gd; k >= 0 && !h[k].ok && !h[k].recvAfter && !h[k].inflight; k-- {
							silent++
							if h[k].recvBetween {
								break
							}
						}
						if silent < thr {
							env.Violate("dropped-before-threshold", fmt.Sprintf("suppression on, threshold %d: link dropped at observation %d after only %d consecutive timeouts in silence", thr, gd, silent), cs)
						}
					}
				}
			}
		}
	}
}

// ---- e2e ---------------------------------------------------------------------------------------

type c19Case struct {
	Index     int64  `json:"index"`
	Scenario  string `json:"scenario"`
	Active    bool   `json:"active"`
	Threshold int    `json:"threshold"`
	Suppress  bool   `json:"suppression"`
	LongT6    bool   `json:"t6_longer_than_interval,omitempty"` // interval 100 ms, T6 400 ms (default: 150 ms / 100 ms)
}

func c19E2E(env *fw.Env) {
	var cases []c19Case
	add := func(c c19Case) { c.Index = int64(len(cases)); cases = append(cases, c) }
	reps := env.Pick(1, 12)
	for rep := 0; rep < reps; rep++ {
		for thr := 1; thr <= 3; thr++ {
			for _, sup := range []bool{true, false} {
				add(c19Case{Scenario: "silent", Active: (thr+rep)%2 == 0, Threshold: thr, Suppress: sup})
			}
			add(c19Case{Scenario: "answering", Active: thr%2 == 1, Threshold: thr, Suppress: rep%2 == 0})
			// life shown by a frame whose (inline) data handler is still running when the probe times out
			add(c19Case{Scenario: "alive-slow-handler", Active: (thr+rep)%2 == 0, Threshold: thr, Suppress: true})
			if thr == 1 { // one uncredited timeout is fatal here: both roles
				add(c19Case{Scenario: "alive-slow-handler", Active: (thr+rep)%2 == 1, Threshold: thr, Suppress: true})
			}
			// life shown by a frame that makes the LOCAL side write something before the probe's timeout is evaluated
			add(c19Case{Scenario: "alive-own-linktest", Active: (thr+rep)%2 == 1, Threshold: thr, Suppress: true})
			add(c19Case{Scenario: "alive-primary-answered", Active: (thr+rep)%2 == 0, Threshold: thr, Suppress: true})
			if thr >= 2 {
				// a dead peer, but the LOCAL side writes a one-way message after every probe timeout: our own
				// traffic may postpone the next probe, it is never proof of peer life
				add(c19Case{Scenario: "silent-with-local-sends", Active: (thr+rep)%2 == 1, Threshold: thr, Suppress: true})
				add(c19Case{Scenario: "alive-not-answering", Active: (thr+rep)%2 == 1, Threshold: thr, Suppress: true})
				add(c19Case{Scenario: "alive-not-answering", Active: (thr+rep)%2 == 0, Threshold: thr, Suppress: false})
			}
		}
		// T6 LONGER than the interval: a probe is given T6 (not one interval) to be answered
		add(c19Case{Scenario: "silent", Active: rep%2 == 0, Threshold: 2, Suppress: rep%2 == 0, LongT6: true})
		add(c19Case{Scenario: "answering-slowly", Active: rep%2 == 1, Threshold: 1 + rep%2, Suppress: false, LongT6: true})
		add(c19Case{Scenario: "answering-slowly", Active: rep%2 == 0, Threshold: 1, Suppress: true, LongT6: true})
		add(c19Case{Scenario: "rejected-probe-then-dead", Active: rep%2 == 0, Threshold: 2, Suppress: true})
		add(c19Case{Scenario: "rejected-probe-then-dead", Active: rep%2 == 1, Threshold: 1 + rep%2, Suppress: false})
		add(c19Case{Scenario: "dead-after-slow-reply", Active: rep%2 == 0, Threshold: 1 + rep%2, Suppress: true})
		add(c19Case{Scenario: "dead-after-slow-reply", Active: rep%2 == 1, Threshold: 2 - rep%2, Suppress: true})
		add(c19Case{Scenario: "chatty", Active: rep%2 == 0, Threshold: 2, Suppress: true})
		add(c19Case{Scenario: "withheld-reply", Active: rep%2 == 1, Threshold: 1, Suppress: true})
		// a reply-expecting send that FAILED at the socket on an earlier connection is not an outstanding reply
		add(c19Case{Scenario: "dead-after-failed-send", Active: rep%2 == 0, Threshold: 1 + rep%2, Suppress: true})
		add(c19Case{Scenario: "dead-after-failed-send", Active: rep%2 == 1, Threshold: 2, Suppress: true})
	}
	for _, cs := range cases {
		if !env.Mine(cs.Index) || !env.Want(cs.Index) {
			continue
		}
		if env.Stop() {
			return
		}
		c19One(env, cs)
	}
}

//nolint:gocyclo,cyclop // one scripted-peer scenario
func c19One(env *fw.Env, cs c19Case) {
	env.Begin(cs.Index, cs)
	env.Sample(cs)
	env.Eval(fw.HashStr("c19", fmt.Sprint(cs)), true)
	env.Event("e2e_scenarios", 1)
	interval, t6 := 150*time.Millisecond, 100*time.Millisecond
	if cs.Scenario == "chatty" {
		interval = 600 * time.Millisecond // the premise (every gap < interval/2) must survive a loaded machine
	}
	if cs.Scenario == "alive-slow-handler" || cs.Scenario == "alive-own-linktest" || cs.Scenario == "alive-primary-answered" {
		interval, t6 = 200*time.Millisecond, 300*time.Millisecond
	}
	if cs.LongT6 {
		interval, t6 = 100*time.Millisecond, 400*time.Millisecond
	}
	sup := cs.Suppress
	t3 := 8 * time.Second
	if cs.Scenario == "dead-after-slow-reply" {
		t3 = 15 * time.Second
	}
	ro := rigOpts{Active: cs.Active, T3: t3, T6: t6, Linktest: interval, LinktestFails: cs.Threshold, Suppress: &sup}
	if cs.Scenario == "dead-after-failed-send" {
		ro.WriteTimeout, ro.T5, ro.BackoffInit = 150*time.Millisecond, 30*time.Millisecond, 5*time.Millisecond
	}
	rg, err := newRig(ro)
	if err != nil {
		env.Discard()
		return
	}
	var gmu sync.Mutex
	var gates []*peer.GateConn
	if cs.Scenario == "dead-after-failed-send" {
		rg.Trk.Wrap = func(c net.Conn) net.Conn {
			g := peer.NewGateConn(c)
			gmu.Lock()
			gates = append(gates, g)
			gmu.Unlock()

			return g
		}
	}
	fail := func(key, msg string) { env.Violate(key, msg, cs) }
	var probes atomic.Int64
	var firstProbe atomic.Int64
	var answers atomic.Int64
	var mode atomic.Int32 // 0 answer, 1 silent, 2 answer with a data frame instead
	var dataSeq atomic.Uint32
	var rejectedOnce atomic.Bool
	onFrame := func(c *peer.Conn, f peer.Frame) bool {
		if f.PType == 0 && f.SType == peer.STLinktestReq {
			probes.Add(1)
			firstProbe.CompareAndSwap(0, int64(peer.Now()))
			switch mode.Load() {
			case 0:
				answers.Add(1)
				_ = c.Send(peer.LinktestRsp(f.Sys))
			case 2:
				_ = c.Send(peer.Data(1, 1, false, 0x1234, 0x19190000|dataSeq.Add(1), nil))
			case 3: // life = the peer's OWN Linktest.req, which the library answers: a frame of ours leaves after the life was seen
				_ = c.Send(peer.LinktestReq(0x19300000 | dataSeq.Add(1)))
			case 6: // every probe is answered, but only after 2.5 intervals (inside T6 when T6 is the longer one)
				sys := f.Sys
				answers.Add(1)
				time.AfterFunc(interval*5/2, func() { _ = c.Send(peer.LinktestRsp(sys)) })
			case 5: // the first probe is REJECTED (a frame, i.e. life), every later one is ignored
				if rejectedOnce.CompareAndSwap(false, true) {
					_ = c.Send(peer.RejectReq(0xFFFF, peer.STLinktestReq, 1, f.Sys))
				}
			case 4: // life = a W-bit primary that the application answers from its handler
				_ = c.Send(peer.Data(1, 3, true, 0x1234, 0x19400000|dataSeq.Add(1), nil))
			}

			return false
		}

		return !f.IsData()
	}
	if cs.Scenario == "alive-slow-handler" {
		// handlers run inline on the receive path: the frame that proves life has been RECEIVED when the probe
		// times out even though the application is still busy with it
		rg.Conn.AddDataMessageHandler(func(m *hsms.DataMessage, _ hsms.SECS2Endpoint) {
			if m.Stream() == 1 && m.Function() == 1 {
				env.Event("slow_handler_invocations", 1)
				time.Sleep(t6 + t6/4)
			}
		})
	}
	if cs.Scenario == "alive-primary-answered" {
		rg.Conn.AddDataMessageHandler(func(m *hsms.DataMessage, ep hsms.SECS2Endpoint) {
			if m.Stream() == 1 && m.Function() == 3 && m.WaitBit() {
				ctx, cancel := context.WithTimeout(context.Background(), time.Second)
				_ = ep.ReplyDataMessage(ctx, m, secs2.A("answer"))
				cancel()
				env.Event("primaries_answered_by_handler", 1)
			}
		})
	}
	// the T6 of the select procedure is the same short T6: an active library needs its answer quickly
	if err := rg.Open(); err != nil {
		fail("open-failed", err.Error())
		return
	}
	defer func() { _ = rg.Shutdown() }()
	if cs.Scenario == "silent" || cs.Scenario == "silent-with-local-sends" {
		mode.Store(1) // silent from the very first probe
	}
	tsBefore := peer.Now()
	pc, _, err := rg.NextGenRetry(onFrame, 4)
	if err != nil {
		env.Note("scenario %d: establish: %v", cs.Index, err)
		env.Discard()
		return
	}
	defer pc.Close()
	cm := rg.Conn.ControlMetrics()
	switch cs.Scenario {
	case "silent":
		mode.Store(1)
		if !pc.WaitClosed(20 * time.Second) {
			fail("silent-peer-not-dropped", fmt.Sprintf("a peer that answers no Linktest.req (threshold %d) was still connected after 20 s", cs.Threshold))
			return
		}
		closedAt := peer.Now()
		if n := probes.Load(); n != int64(cs.Threshold) {
			fail("silent-peer-probe-count", fmt.Sprintf("the peer saw %d Linktest.req before the close, threshold is %d", n, cs.Threshold))
		} else if el := closedAt - tsBefore; el < time.Duration(cs.Threshold)*(t6+interval) {
			// sound direction only: tsBefore precedes the moment the library could enter Selected (and start the
			// linktest timer); threshold probe rounds of (interval wait + T6 timeout) cannot finish sooner
			fail("silent-peer-dropped-too-early", fmt.Sprintf("closed %v after the select exchange began; %d rounds of interval %v + T6 %v cannot have elapsed", el, cs.Threshold, interval, t6))
		} else if fp := time.Duration(firstProbe.Load()); fp > 0 && closedAt-fp > time.Duration(cs.Threshold)*(t6+interval)+3*time.Second {
			// upper bound ("about threshold x (interval + T6)"), from the first probe's arrival at the peer, 3 s of slack
			fail("silent-peer-dropped-late", fmt.Sprintf("the first unanswered probe reached the peer and the link was closed only %v later; threshold %d x (interval %v + T6 %v) = %v is prescribed", (closedAt - fp).Round(time.Millisecond), cs.Threshold, interval, t6, time.Duration(cs.Threshold)*(t6+interval)))
		} else {
			env.Event("silent_peer_dropped_after_threshold", 1)
		}
		waitFor(2*time.Second, func() bool { return cm.LinktestErrCount() >= uint64(cs.Threshold) })
		if cm.LinktestSendCount() != uint64(probes.Load()) || cm.LinktestErrCount() != uint64(cs.Threshold) || cm.LinktestRecvCount() != 0 {
			fail("linktest-counters-silent", fmt.Sprintf("ControlMetrics send=%d recv=%d err=%d; the peer saw %d probes and answered none (threshold %d)", cm.LinktestSendCount(), cm.LinktestRecvCount(), cm.LinktestErrCount(), probes.Load(), cs.Threshold))
		}
	case "silent-with-local-sends":
		mode.Store(1)
		stopSend := make(chan struct{})
		var swg sync.WaitGroup
		swg.Add(1)
		go func() {
			defer swg.Done()
			seen := int64(0)
			for {
				select {
				case <-stopSend:
					return
				case <-time.After(5 * time.Millisecond):
				}
				if n := probes.Load(); n > seen {
					seen = n
					// the probe just arrived at the peer; its timeout is evaluated T6 after it was sent: write a
					// one-way message shortly after that (if it lands elsewhere the expected outcome is the same)
					time.Sleep(t6 + 30*time.Millisecond)
					ctx, cancel := context.WithTimeout(context.Background(), time.Second)
					_, _ = rg.Conn.SendDataMessage(ctx, 6, 11, false, secs2.A("local traffic"))
					cancel()
					env.Event("local_sends_between_probe_timeouts", 1)
				}
			}
		}()
		dropped := pc.WaitClosed(25 * time.Second)
		close(stopSend)
		swg.Wait()
		if !dropped {
			fail("dead-peer-kept-alive-by-local-sends", fmt.Sprintf("suppression on, threshold %d: a peer that answers nothing and sends nothing was still connected after 25 s and %d probes; only the local side wrote a message after each probe timeout", cs.Threshold, probes.Load()))
			return
		}
		if n := probes.Load(); n != int64(cs.Threshold) {
			fail("dead-peer-probe-count-with-local-sends", fmt.Sprintf("the peer saw %d Linktest.req before the close, threshold is %d (local one-way sends must not reset the count)", n, cs.Threshold))
		} else {
			env.Event("dead_peer_dropped_despite_local_sends", 1)
		}
	case "answering-slowly":
		mode.Store(6)
		time.Sleep(time.Duration(3*cs.Threshold+3) * (interval*7/2 + 20*time.Millisecond))
		if _, err := pc.Barrier(10 * time.Second); err != nil {
			// premise: every answer left the peer clearly inside T6 after the probe was read
			sent := pc.SentLog()
			for _, ev := range pc.Log() {
				if ev.Frame.PType != 0 || ev.Frame.SType != peer.STLinktestReq {
					continue
				}
				turn := time.Duration(-1)
				for _, s := range sent {
					if s.Frame.SType == peer.STLinktestRsp && s.Frame.Sys == ev.Frame.Sys {
						turn = s.At - ev.At
						break
					}
				}
				if turn > t6*8/10 {
					env.Note("scenario %d: the harness peer answered a probe only after %v (T6 %v): premise not met", cs.Index, turn, t6)
					env.Discard()
					return
				}
			}
			fail("slow-answering-peer-dropped", fmt.Sprintf("suppression %v, threshold %d, interval %v, T6 %v: a peer that answers every probe after %v (inside T6) was disconnected after %d probes: %v", cs.Suppress, cs.Threshold, interval, t6, interval*5/2, probes.Load(), err))
			return
		}
		if probes.Load() == 0 {
			env.Discard()
			return
		}
		env.Event("slow_answering_peer_kept", 1)
	case "answering":
		time.Sleep(time.Duration(3*cs.Threshold+2) * (interval + 20*time.Millisecond))
		if _, err := pc.Barrier(10 * time.Second); err != nil {
			fail("answering-peer-dropped", fmt.Sprintf("a peer that answers every probe was disconnected (%v) after %d probes", err, probes.Load()))
			return
		}
		if probes.Load() == 0 {
			env.Discard()
			return
		}
		env.Event("answering_peer_kept", 1)
		waitFor(2*time.Second, func() bool { return cm.LinktestRecvCount() == uint64(answers.Load()) })
		if cm.LinktestRecvCount() != uint64(answers.Load()) || cm.LinktestErrCount() != 0 {
			fail("linktest-counters-answering", fmt.Sprintf("ControlMetrics send=%d recv=%d err=%d; the peer answered %d of %d probes", cm.LinktestSendCount(), cm.LinktestRecvCount(), cm.LinktestErrCount(), answers.Load(), probes.Load()))
		}
	case "alive-slow-handler", "alive-own-linktest", "alive-primary-answered":
		mode.Store(2)
		if cs.Scenario == "alive-own-linktest" {
			mode.Store(3)
		}
		if cs.Scenario == "alive-primary-answered" {
			mode.Store(4)
		}
		waitFor(30*time.Second, func() bool { return probes.Load() >= int64(3*cs.Threshold+2) || pc.WaitClosed(time.Millisecond) })
		if _, err := pc.Barrier(10 * time.Second); err != nil {
			// premise: the peer's own turnaround (probe parsed -> data frame written) stayed well inside T6
			sent := pc.SentLog()
			for _, ev := range pc.Log() {
				if ev.Frame.PType != 0 || ev.Frame.SType != peer.STLinktestReq {
					continue
				}
				turn := time.Duration(-1)
				for _, s := range sent {
					if (s.Frame.IsData() || s.Frame.SType == peer.STLinktestReq) && s.At >= ev.At {
						turn = s.At - ev.At
						break
					}
				}
				if turn < 0 || turn > t6/3 {
					env.Note("scenario %d: the harness peer answered a probe after %v (T6 %v): premise not met", cs.Index, turn, t6)
					env.Discard()
					return
				}
			}
			if cs.Scenario == "alive-primary-answered" {
				fail("alive-peer-dropped-primary-answered", fmt.Sprintf("suppression on, threshold %d: the peer never answers a probe but sends a W-bit primary right after every probe (interval %v, T6 %v), which the application's handler answers: life was shown inside every probe's window, yet the link was dropped after %d probes: %v", cs.Threshold, interval, t6, probes.Load(), err))
				return
			}
			if cs.Scenario == "alive-own-linktest" {
				fail("alive-peer-dropped-own-linktest", fmt.Sprintf("suppression on, threshold %d: the peer never answers a probe but sends its own Linktest.req right after every probe (interval %v, T6 %v), which the library answers: life was shown inside every probe's window, yet the link was dropped after %d probes: %v", cs.Threshold, interval, t6, probes.Load(), err))
				return
			}
			fail("alive-peer-dropped-slow-handler", fmt.Sprintf("suppression on, threshold %d: the peer sent a data frame right after every probe; the local handler for it takes %v (T6 %v), so the frame had arrived but was still being handled when the probe timed out; the link was dropped after %d probes: %v", cs.Threshold, t6+t6/4, t6, probes.Load(), err))
			return
		}
		if cs.Scenario == "alive-own-linktest" {
			env.Event("alive_peer_kept_own_linktest", 1)
		} else if cs.Scenario == "alive-primary-answered" {
			env.Event("alive_peer_kept_primary_answered", 1)
		} else {
			env.Event("alive_peer_kept_slow_handler", 1)
		}
	case "alive-not-answering":
		mode.Store(2)
		if cs.Suppress {
			waitFor(20*time.Second, func() bool { return probes.Load() >= int64(3*cs.Threshold+2) })
			if _, err := pcBarrierNoAnswer(pc, &mode); err != nil {
				fail("alive-peer-dropped", fmt.Sprintf("suppression on, threshold %d: a peer that sends a data frame after every probe (never a Linktest.rsp) was disconnected after %d probes: %v", cs.Threshold, probes.Load(), err))
				return
			}
			env.Event("alive_peer_kept", 1)
		} else {
			if !pc.WaitClosed(20 * time.Second) {
				fail("alive-peer-not-dropped-without-suppression", fmt.Sprintf("suppression off, threshold %d: unanswered probes must count even if data flows, but the link is still up after 20 s", cs.Threshold))
				return
			}
			if n := probes.Load(); n != int64(cs.Threshold) {
				fail("no-suppression-probe-count", fmt.Sprintf("suppression off: the peer saw %d probes before the close, threshold %d", n, cs.Threshold))
			} else {
				env.Event("alive_peer_dropped_without_suppression", 1)
			}
		}
	case "chatty":
		var maxGap time.Duration
		last := time.Now()
		end := last.Add(6 * interval)
		for time.Now().Before(end) {
			_ = pc.Send(peer.Data(1, 3, false, 0x1234, 0x19200000|dataSeq.Add(1), nil))
			now := time.Now()
			if g := now.Sub(last); g > maxGap {
				maxGap = g
			}
			last = now
			time.Sleep(interval / 4)
		}
		if maxGap >= interval/2 {
			env.Discard() // premise not met: the harness itself left a gap
			return
		}
		if n := probes.Load(); n != 0 {
			fail("chatty-peer-probed", fmt.Sprintf("suppression on: traffic every %v (max measured gap %v < interval %v) and still %d probes were sent", interval/4, maxGap, interval, n))
		} else {
			env.Event("chatty_zero_probes", 1)
		}
	case "rejected-probe-then-dead":
		// the peer answers the first probe with a Reject.req (some peers do not implement linktest) and then dies: the
		// probing must go on and drop the link after the threshold
		mode.Store(5)
		if !waitFor(10*time.Second, rejectedOnce.Load) {
			env.Discard()
			return
		}
		rejected := time.Now()
		bound := time.Duration(cs.Threshold+1)*(interval+t6) + 3*time.Second
		if !pc.WaitClosed(bound + 15*time.Second) {
			fail("dead-peer-not-dropped-after-rejected-probe", fmt.Sprintf("suppression %v, threshold %d: the peer rejected the first Linktest.req and then went silent; %v later the link is still up and the peer has seen %d probes in all: the probing stopped", cs.Suppress, cs.Threshold, bound+15*time.Second, probes.Load()))
			return
		}
		if el := time.Since(rejected); el > bound {
			fail("dead-peer-dropped-late-after-rejected-probe", fmt.Sprintf("threshold %d: the link was dropped %v after the rejected probe; about (threshold+1) x (interval %v + T6 %v) is prescribed", cs.Threshold, el.Round(time.Millisecond), interval, t6))
		} else {
			env.Event("dead_peer_dropped_after_rejected_probe", 1)
		}
	case "dead-after-slow-reply":
		// a transaction whose reply takes several intervals (the probe timer fires while the reply is outstanding and
		// is skipped), then the reply, then a dead peer: the drop must still come about threshold x (interval + T6)
		// later — the monitoring must not have gone to sleep for a T3 (15 s here)
		var wg sync.WaitGroup
		wg.Add(1)
		go func() {
			defer wg.Done()
			ctx, cancel := context.WithTimeout(context.Background(), 20*time.Second)
			defer cancel()
			_, _ = rg.Conn.SendDataMessage(ctx, 1, 1, true, secs2.A("slow reply"))
		}()
		var prim peer.Frame
		if !waitFor(5*time.Second, func() bool {
			for _, ev := range pc.Log() {
				if ev.Frame.IsData() && ev.Frame.WBit() {
					prim = ev.Frame
					return true
				}
			}

			return false
		}) {
			env.Discard()
			wg.Wait()
			return
		}
		time.Sleep(interval*5/2 + 20*time.Millisecond)
		mode.Store(1) // from now on the peer answers nothing
		before := probes.Load()
		_ = pc.Send(peer.Data(prim.Stream(), prim.Function()+1, false, prim.Session, prim.Sys, nil))
		replied := time.Now()
		wg.Wait()
		bound := interval + time.Duration(cs.Threshold)*(interval+t6) + 3*time.Second
		if !pc.WaitClosed(bound + 20*time.Second) {
			fail("dead-peer-not-dropped-after-slow-reply", fmt.Sprintf("threshold %d: the peer answered a slow transaction and then went silent; %v later the link is still up (%d probes since)", cs.Threshold, bound+20*time.Second, probes.Load()-before))
			return
		}
		if el := time.Since(replied); el > bound {
			fail("dead-peer-dropped-late-after-slow-reply", fmt.Sprintf("threshold %d, interval %v, T6 %v, T3 15 s: the peer's last frame (a reply that had been outstanding for %v) was followed by silence, and the link was dropped only %v later; about interval + threshold x (interval + T6) = %v is prescribed (bound used: that + 3 s)", cs.Threshold, interval, t6, interval*5/2, el.Round(time.Millisecond), interval+time.Duration(cs.Threshold)*(interval+t6)))
		} else if n := probes.Load() - before; n != int64(cs.Threshold) {
			fail("dead-peer-probe-count-after-slow-reply", fmt.Sprintf("the peer saw %d Linktest.req after its last frame before the close, threshold is %d", n, cs.Threshold))
		} else {
			env.Event("dead_peer_dropped_in_time_after_slow_reply", 1)
		}
	case "dead-after-failed-send":
		// generation 1: the socket stops taking bytes, a W-bit send runs into the write timeout and fails, the link is
		// re-established. Generation 2: the peer answers one probe and then dies. Nothing is outstanding (the failed
		// send returned an error long ago): the dead peer must be dropped after the threshold like any other.
		gmu.Lock()
		for _, g := range gates {
			g.BlockWrites(true)
		}
		gmu.Unlock()
		ctx, cancel := context.WithTimeout(context.Background(), 5*time.Second)
		_, serr := rg.Conn.SendDataMessage(ctx, 1, 1, true, secs2.A("into a socket that takes no bytes"))
		cancel()
		if serr == nil {
			env.Note("scenario %d: the send into the gated socket did not fail; premise not met", cs.Index)
			env.Discard()
			return
		}
		if !pc.WaitClosed(10 * time.Second) {
			env.Note("scenario %d: generation 1 not dropped after the write failure (%v)", cs.Index, serr)
			env.Discard()
			return
		}
		pc2, _, err := rg.NextGenRetry(onFrame, 6)
		if err != nil {
			env.Note("scenario %d: second generation: %v", cs.Index, err)
			env.Discard()
			return
		}
		defer pc2.Close()
		base := probes.Load()
		if !waitFor(10*time.Second, func() bool { return probes.Load() > base }) {
			fail("no-probe-after-failed-send", fmt.Sprintf("an idle Selected session (interval %v) saw no Linktest.req for 10 s on the connection that followed a failed W-bit send (send error: %v; in-flight gauge %d)", interval, serr, rg.Conn.Metrics().DataMsgInflightCount()))
			return
		}
		mode.Store(1)
		dead := time.Now()
		bound := interval + time.Duration(cs.Threshold+1)*(interval+t6) + 3*time.Second
		if !pc2.WaitClosed(bound + 10*time.Second) {
			fail("dead-peer-not-dropped-after-failed-send", fmt.Sprintf("threshold %d: %v after the peer went silent the link is still up (in-flight gauge %d, nothing is outstanding: the only W-bit send failed with %v on the previous connection)", cs.Threshold, bound+10*time.Second, rg.Conn.Metrics().DataMsgInflightCount(), serr))
			return
		}
		if el := time.Since(dead); el > bound {
			fail("dead-peer-dropped-late-after-failed-send", fmt.Sprintf("threshold %d: dropped %v after the peer went silent; about (threshold+1) x (interval %v + T6 %v) is prescribed", cs.Threshold, el.Round(time.Millisecond), interval, t6))
		} else {
			env.Event("dead_peer_dropped_after_failed_send", 1)
		}
	case "withheld-reply":
		var wg sync.WaitGroup
		wg.Add(1)
		go func() {
			defer wg.Done()
			ctx, cancel := context.WithTimeout(context.Background(), 10*time.Second)
			defer cancel()
			_, _ = rg.Conn.SendDataMessage(ctx, 1, 1, true, secs2.A("withheld"))
		}()
		if !waitFor(5*time.Second, func() bool { return rg.Conn.Metrics().DataMsgInflightCount() > 0 }) {
			env.Discard()
			wg.Wait()
			return
		}
		before := probes.Load()
		time.Sleep(5 * interval)
		if rg.Conn.Metrics().DataMsgInflightCount() > 0 {
			if n := probes.Load() - before; n != 0 {
				fail("probed-while-reply-outstanding", fmt.Sprintf("suppression on: %d probes were sent while a reply was outstanding", n))
			} else {
				env.Event("withheld_reply_zero_probes", 1)
			}
		} else {
			env.Discard()
		}
		// answer it so the sender returns
		for _, ev := range pc.Log() {
			if ev.Frame.IsData() && ev.Frame.WBit() {
				_ = pc.Send(peer.Data(ev.Frame.Stream(), ev.Frame.Function()+1, false, ev.Frame.Session, ev.Frame.Sys, nil))
			}
		}
		wg.Wait()
	}
	_ = hsms.SelectedState
}

// pcBarrierNoAnswer fences with a Linktest barrier (the peer's OWN Linktest.req, which the library answers).
func pcBarrierNoAnswer(pc *peer.Conn, _ *atomic.Int32) ([]peer.Frame, error) {
	return pc.Barrier(10 * time.Second)
}
