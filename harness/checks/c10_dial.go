package checks

import (
	"context"
	"errors"
	"fmt"
	"strings"
	"sync/atomic"
	"time"

	"github.com/arloliu/go-secs/v2/hsms"
	"github.com/arloliu/go-secs/v2/hsmsss"
	"github.com/arloliu/go-secs/v2/secs1"

	"verif/fw"
	"verif/peer"
)

// C10, Close while a dial is IN FLIGHT and nothing comes back (a black-holed SYN): no socket exists yet, so the
// generation's context is the only thing that can abort the dial. The connect timeout is set far above the close
// timeout (12 s vs 0.5 s): "Close returns within the configured close timeout plus scheduling slack" — from this
// state too, on both transports, for the first (cold, background) dial and for a reconnect dial after a drop.

type c10DialCase struct {
	Index     int64  `json:"index"`
	Transport string `json:"transport"`
	When      string `json:"dial_in_flight"`
}

func c10BlackholeDial(env *fw.Env, cs c10DialCase) {
	env.Begin(cs.Index, cs)
	env.Sample(cs)
	env.Eval(fw.HashStr("c10dial", cs.Transport, cs.When), true)
	env.Event("blackholed_dial_close_cases", 1)
	closeTimeout := 500 * time.Millisecond
	connectTimeout := 12 * time.Second
	trk := &peer.Tracker{}
	l, err := peer.Listen()
	if err != nil {
		env.Discard()
		return
	}
	defer l.Close()
	var hold atomic.Bool
	var held atomic.Int64
	trk.SetHoldDial(func(ctx context.Context, _ int) error {
		if !hold.Load() {
			return nil
		}
		held.Add(1)
		<-ctx.Done() // nothing comes back

		return ctx.Err()
	})
	var conn hsms.Connection
	co := []hsms.ConnOption{hsms.WithT5(30 * time.Millisecond), hsms.WithReconnectBackoff(5*time.Millisecond, 2), hsms.WithCloseTimeout(closeTimeout), hsms.WithLogger(&peer.CapLogger{})}
	if cs.Transport == "secs1" {
		opts := []secs1.Option{secs1.WithActive(), secs1.WithHost(), secs1.WithDialer(trk.DialFunc), secs1.WithConnectTimeout(connectTimeout)}
		for _, c := range co {
			opts = append(opts, secs1.WithConnectionOption(c))
		}
		cfg, err := secs1.NewConfig(peer.LoopHost, l.Port(), opts...)
		if err != nil {
			env.Discard()
			return
		}
		if conn, err = secs1.New(cfg); err != nil {
			env.Discard()
			return
		}
	} else {
		opts := []hsmsss.Option{hsmsss.WithActive(), hsmsss.WithHostRole(), hsmsss.WithDialer(trk.DialFunc), hsmsss.WithConnectTimeout(connectTimeout)}
		for _, c := range co {
			opts = append(opts, hsmsss.WithConnectionOption(c))
		}
		cfg, err := hsmsss.NewConfig(peer.LoopHost, l.Port(), opts...)
		if err != nil {
			env.Discard()
			return
		}
		if conn, err = hsmsss.New(cfg); err != nil {
			env.Discard()
			return
		}
	}
	if cs.When == "cold-open" {
		hold.Store(true)
	}
	if err := conn.Open(context.Background(), hsms.OpenBackground); err != nil {
		env.Violate("open-background-failed", "Open(background): "+err.Error(), cs)
		return
	}
	if cs.When == "reconnect" {
		// establish once, then drop the link and black-hole the re-dial
		pc, err := l.Accept(10 * time.Second)
		if err != nil {
			env.Discard()
			_ = conn.Close()
			return
		}
		if cs.Transport != "secs1" {
			pc.Start()
			if f, _, err := pc.Expect(10*time.Second, func(f peer.Frame) bool { return f.SType == peer.STSelectReq }); err == nil {
				_ = pc.Send(peer.SelectRsp(f.Session, 0, f.Sys))
			}
		}
		if !waitFor(10*time.Second, func() bool { return conn.State() == hsms.SelectedState }) {
			env.Discard()
			pc.Close()
			_ = conn.Close()
			return
		}
		hold.Store(true)
		pc.Reset()
	}
	if !waitFor(10*time.Second, func() bool { return held.Load() > 0 }) {
		env.Note("black-holed dial case %d: no dial was in flight within 10 s", cs.Index)
		env.Discard()
		hold.Store(false)
		_ = conn.Close()
		return
	}
	time.Sleep(20 * time.Millisecond)
	t0 := time.Now()
	done := make(chan error, 1)
	go func() { done <- conn.Close() }()
	bound := closeTimeout + 5*time.Second
	select {
	case err := <-done:
		if el := time.Since(t0); el > bound {
			env.Violate("close-waits-for-the-dial", fmt.Sprintf("%s, %s dial in flight with nothing coming back (connect timeout %v): Close took %v, bound is close timeout %v + 5 s slack", cs.Transport, cs.When, connectTimeout, el.Round(time.Millisecond), closeTimeout), cs)
		} else {
			env.Event("close_aborted_the_dial_in_time", 1)
		}
		if err != nil && !errors.Is(err, hsms.ErrCloseTimeout) {
			env.Violate("close-unexpected-error-during-dial", fmt.Sprintf("Close returned %v", err), cs)
		}
	case <-time.After(connectTimeout + 10*time.Second):
		env.Violate("close-hangs-during-dial", fmt.Sprintf("%s, %s dial in flight: Close has not returned %v after the call\n%s", cs.Transport, cs.When, connectTimeout+10*time.Second, strings.Join(libGoroutines(), "\n\n")), cs)
		hold.Store(false)

		return
	}
	hold.Store(false)
	d0 := trk.DialCount()
	time.Sleep(100 * time.Millisecond)
	if d := trk.DialCount(); d != d0 {
		env.Violate("dial-after-close", fmt.Sprintf("the library dialed again after Close returned (%d -> %d)", d0, d), cs)
	}
	if !waitFor(5*time.Second, func() bool { return len(libGoroutines()) == 0 }) {
		env.Violate("goroutine-leak-after-close-during-dial", fmt.Sprintf("5 s after Close returned library goroutines are still running:\n%s", strings.Join(libGoroutines(), "\n\n")), cs)
	}
}
