package checks

import (
	"context"
	"encoding/hex"
	"fmt"
	"net"
	"time"

	"github.com/arloliu/go-secs/v2/hsms"
	"github.com/arloliu/go-secs/v2/secs2"

	"verif/fw"
	"verif/peer/e4peer"
	"verif/ref/e4"
)

// C17 — SECS-I sends well-formed SEMI E4 blocks and delivers only complete messages.
//
// Phase "out": a real secs1 connection transmits messages to the independent E4 reference peer
// (verif/ref/e4 over a loopback socket); every transmission is parsed by the reference codec and the
// accepted blocks are checked against the message that was sent.
// Phase "in": the reference peer plays generated block sequences into a real secs1 connection; the
// handler deliveries must equal those of the reference E4 §9.4.4 receiver fed with the blocks the
// library ACKed, and the connection must stay Selected.
func init() {
	fw.Register(&fw.Check{
		ID:    "C17",
		Level: "exploration",
		Rule: "OUT: for each of 6 configurations (role host/equipment x device id 0/1/0x7FFF; TCP role alternating) every body length 0..500 (thorough 0..1000) plus 243/244/245/487/488/489/731/732/733/975/976/977, " +
			"10-100 KiB bodies, every stream 0..127, every function 0..255 with both W values, boundary system bytes, NAKed-then-retransmitted blocks (thorough: full stream x function x W cross product); " +
			"bodies built both through secs2 items (expected encoding hand-computed) and as raw frames; random session ids. Oracle: ref/e4 parse of every transmission + CheckMessage. " +
			"IN: message (1-4 blocks, distinct system bytes) perturbed by one fault of {none, duplicate block i, skipped block i, one header field changed in block i, wrong device, wrong direction, " +
			"bad checksum with/without retransmission, bad length byte (below 10, 255, larger/smaller than the data) with/without retransmission, lone block 0 with E-bit, block 0 at the start/in the middle, " +
			"3xT4 pause, short pause} followed by a clean sentinel message; oracle = reference E4 receiver fed with the ACKed blocks; a gap counts as 'within T4' only if measured < T4/2 and as expired only if measured > 1.5xT4, " +
			"an unmeasured gap forks the model and the case is judged only if all branches agree (else discarded); " +
			"a violating inbound case is re-executed on a fresh connection and reported only if it fails again. distinct = hash(case descriptor); non-trivial = at least one block crossed the line",
		Assumptions: []string{
			"harness/ref/e4 is a faithful reading of SEMI E4 block format (§8), block transfer (§7.8) and message receive algorithm (§9.4) as restated in the property text",
			"a single-block message numbered 0 with the E-bit is a valid message (E4 allows block number 0 or 1 for single-block messages; the package documents the same)",
			"library-end timers: inbound phase T1=40ms T2=300ms T4=400ms, outbound phase T1=1s T2=3s (no timer is waited on there); the reference peer uses generous own timers (T1=500ms, T2=3s) so it never NAKs a well-formed transmission for timing",
			"an inbound valid block counts as refused only if 4 consecutive transmissions of it were NAKed while the harness wrote it within T2/2 of its own ENQ",
		},
		Phases: func(tier string) []fw.Phase {
			return []fw.Phase{
				{Name: "out", Race: true, Shards: 12, Timeout: tierDur(tier, 5, 25), HangIsViolation: true},
				{Name: "in", Race: true, Shards: 16, Timeout: tierDur(tier, 5, 25), HangIsViolation: true},
			}
		},
		Worker:         c17Worker,
		RequiredEvents: []string{"out_messages", "out_blocks", "out_multiblock", "out_nak_retransmissions", "in_sequences", "in_deliveries_matched", "in_blocks_acked", "in_blocks_naked", "in_t4_expired_cases", "in_duplicates_sent"},
	})
}

// Library-end timers of the inbound phase (the outbound phase waits on no timer and uses 1s/3s so
// that a loaded machine cannot cause spurious retries).
const (
	c17T1 = 40 * time.Millisecond
	c17T2 = 300 * time.Millisecond
	c17T4 = 400 * time.Millisecond
)

type c17Cfg struct {
	Equip bool
	Dev   uint16
}

var c17Cfgs = []c17Cfg{{false, 0}, {true, 0}, {false, 1}, {true, 1}, {false, 0x7FFF}, {true, 0x7FFF}}

func (c c17Cfg) String() string {
	r := "host"
	if c.Equip {
		r = "equipment"
	}

	return fmt.Sprintf("%s/dev=%d", r, c.Dev)
}

func c17Worker(env *fw.Env) {
	s1Quiet()
	switch env.Phase {
	case "out":
		c17OutWorker(env)
	case "in":
		c17InWorker(env)
	}
}

// c17Link is a real secs1 connection joined to the reference peer.
type c17Link struct {
	lib  *s1End
	peer *e4peer.Peer
	ln   net.Listener
}

func c17Connect(cfg c17Cfg, active bool, retry int, t1, t2, t4 time.Duration) (*c17Link, error) {
	o := s1Opts{Equip: cfg.Equip, Dev: cfg.Dev, Active: active, T1: t1, T2: t2, T4: t4, Retry: retry}
	l := &c17Link{}
	var conn net.Conn
	if active {
		ln, port, err := e4peer.Listen(s1Loop)
		if err != nil {
			return nil, err
		}
		l.ln = ln
		o.Port = port
		lib, err := s1New(o)
		if err != nil {
			return nil, err
		}
		l.lib = lib
		acc := make(chan net.Conn, 1)
		go func() {
			c, _ := ln.Accept()
			acc <- c
		}()
		if err := lib.Open(); err != nil {
			return nil, fmt.Errorf("open active: %w", err)
		}
		select {
		case conn = <-acc:
		case <-time.After(10 * time.Second):
			return nil, fmt.Errorf("accept timed out")
		}
	} else {
		lib, err := s1New(o)
		if err != nil {
			return nil, err
		}
		l.lib = lib
		if err := lib.Open(); err != nil {
			return nil, fmt.Errorf("open passive: %w", err)
		}
		c, err := net.DialTimeout("tcp", fmt.Sprintf("%s:%d", s1Loop, lib.ListenPort()), 5*time.Second)
		if err != nil {
			return nil, err
		}
		conn = c
	}
	if conn == nil {
		return nil, fmt.Errorf("no connection")
	}
	l.peer = e4peer.New(conn, !cfg.Equip, 500*time.Millisecond, 3*time.Second)
	if !l.lib.WaitSelected(10 * time.Second) {
		return nil, fmt.Errorf("library end never reached Selected")
	}

	return l, nil
}

func (l *c17Link) Close() {
	if l.peer != nil {
		l.peer.Close()
	}
	if l.lib != nil {
		l.lib.Close()
	}
	if l.ln != nil {
		_ = l.ln.Close()
	}
}

// ---------------------------------------------------------------------------------------------
// outbound

type c17OutCase struct {
	G       int64  `json:"g"`
	Cfg     string `json:"cfg"`
	Active  bool   `json:"lib_tcp_active"`
	Kind    string `json:"kind"`
	Len     int    `json:"body_len"`
	S       uint8  `json:"s"`
	F       uint8  `json:"f"`
	W       bool   `json:"w"`
	Sys     string `json:"sys"`
	Path    string `json:"path"`
	NakAt   int    `json:"nak_at,omitempty"`
	Session uint16 `json:"session"`
	// structural parameters (before randomisation)
	fixS, fixF, fixW, fixSys int
	cfg                      int
}

var c17Boundaries = []int{243, 244, 245, 487, 488, 489, 731, 732, 733, 975, 976, 977}
var c17SysSpecial = [][4]byte{{0, 0, 0, 0}, {0xFF, 0xFF, 0xFF, 0xFF}, {0x80, 0, 0, 0}, {0, 0, 0, 1}, {0x7F, 0xFF, 0xFF, 0xFF}, {0x04, 0x05, 0x06, 0x15}, {0x05, 0x05, 0x05, 0x05}, {0, 0, 0xFF, 0}}

// c17OutList is the structural case list of one configuration (pure function of the tier).
func c17OutList(quick bool, cfg int) []c17OutCase {
	var cs []c17OutCase
	add := func(c c17OutCase) {
		c.cfg = cfg
		cs = append(cs, c)
	}
	free := c17OutCase{fixS: -1, fixF: -1, fixW: -1, fixSys: -1}
	maxLen := 500
	if !quick {
		maxLen = 1000
	}
	for l := 0; l <= maxLen; l++ {
		c := free
		c.Kind, c.Len = "len", l
		add(c)
	}
	for _, l := range c17Boundaries {
		c := free
		c.Kind, c.Len = "boundary", l
		add(c)
	}
	for s := 0; s < 128; s++ {
		c := free
		c.Kind, c.Len, c.fixS = "stream", -1, s
		add(c)
	}
	for f := 0; f < 256; f++ {
		for w := 0; w < 2; w++ {
			c := free
			c.Kind, c.Len, c.fixF, c.fixW = "function", -1, f, w
			add(c)
		}
	}
	for i := range c17SysSpecial {
		c := free
		c.Kind, c.Len, c.fixSys = "sys", -1, i
		add(c)
	}
	for i, l := range []int{30, 244, 245, 300, 488, 489, 600, 733, 900, 1000, 250, 500} {
		c := free
		c.Kind, c.Len, c.NakAt = "nak", l, 1+i%4
		if nb := (l + 243) / 244; c.NakAt > nb {
			c.NakAt = nb
		}
		add(c)
	}
	bigs := []int{10 * 1024, 100 * 1024}
	if !quick {
		bigs = []int{10 * 1024, 10*1024 + 1, 25000, 244 * 100, 244*100 + 1, 65538, 65539, 65540, 70000, 100 * 1024}
	}
	for i, l := range bigs {
		if quick && i%2 != cfg%2 {
			continue
		}
		c := free
		c.Kind, c.Len = "big", l
		add(c)
	}
	if !quick {
		for s := 0; s < 128; s++ {
			for f := 0; f < 256; f++ {
				if (s*256+f)%len(c17Cfgs) != cfg {
					continue
				}
				for w := 0; w < 2; w++ {
					c := free
					c.Kind, c.Len, c.fixS, c.fixF, c.fixW = "cross", -1, s, f, w
					add(c)
				}
			}
		}
	}

	return cs
}

const c17OutChunk = 96

func c17OutWorker(env *fw.Env) {
	u := int64(0)
	for cfg := range c17Cfgs {
		list := c17OutList(env.Quick(), cfg)
		for start := 0; start < len(list); start += c17OutChunk {
			end := start + c17OutChunk
			if end > len(list) {
				end = len(list)
			}
			unit := u
			u++
			if !env.Mine(unit) {
				continue
			}
			if env.Stop() {
				return
			}
			// replay filter: case index g = unit*1000 + k
			if env.ReplayIndex >= 0 && env.ReplayIndex/1000 != unit {
				continue
			}
			c17OutUnit(env, unit, cfg, list[start:end])
		}
	}
}

// c17Body returns (item or nil, raw body, path) for a body of exactly n bytes.
func c17Body(fill func([]byte), n int, preferRaw bool) (secs2.Item, []byte, string) {
	mk := func(k int) []byte {
		b := make([]byte, k)
		fill(b)

		return b
	}
	itemOK := n != 1 && n != 65539 // no single Binary item has a canonical encoding of 1 or 65539 bytes
	if preferRaw || !itemOK {
		return nil, mk(n), "raw"
	}
	switch {
	case n == 0:
		return nil, []byte{}, "item"
	case n <= 257:
		d := mk(n - 2)

		return secs2.B(d), append([]byte{0x21, byte(n - 2)}, d...), "item"
	case n == 258:
		d := mk(254)

		return secs2.L(secs2.B(d)), append([]byte{0x01, 0x01, 0x21, 254}, d...), "item"
	case n <= 65538:
		d := mk(n - 3)

		return secs2.B(d), append([]byte{0x22, byte((n - 3) >> 8), byte(n - 3)}, d...), "item"
	default:
		d := mk(n - 4)

		return secs2.B(d), append([]byte{0x23, byte((n - 4) >> 16), byte((n - 4) >> 8), byte(n - 4)}, d...), "item"
	}
}

func c17OutUnit(env *fw.Env, unit int64, cfgIdx int, cases []c17OutCase) {
	cfg := c17Cfgs[cfgIdx]
	active := unit%2 == 0
	env.Begin(unit*1000, map[string]any{"unit": unit, "cfg": cfg.String(), "phase": "out-connect"})
	link, err := c17Connect(cfg, active, 3, time.Second, 3*time.Second, 10*time.Second)
	if err != nil {
		env.Note("out unit %d (%s): connect failed: %v", unit, cfg, err)
		env.Discard()
		if link != nil {
			link.Close()
		}

		return
	}
	defer link.Close()
	ctx, cancel := context.WithCancel(context.Background())
	served := make(chan error, 1)
	go func() { served <- link.peer.Serve(ctx) }()
	defer func() {
		cancel()
		<-served
	}()

	for k := range cases {
		g := unit*1000 + int64(k)
		if !env.Want(g) {
			continue
		}
		if env.Stop() {
			return
		}
		c := cases[k]
		c.G, c.Cfg, c.Active = g, cfg.String(), active
		r := env.RandAt("out", g)
		if c.Len < 0 {
			c.Len = []int{0, 2, 5, 17, 100, 243, 244, 245, 300, 489}[r.IntN(10)]
		}
		c.S, c.F, c.W = uint8(r.IntN(128)), uint8(r.IntN(256)), r.IntN(2) == 0
		var sys [4]byte
		for i := range sys {
			sys[i] = byte(r.IntN(256))
		}
		if c.fixS >= 0 {
			c.S = uint8(c.fixS)
		}
		if c.fixF >= 0 {
			c.F = uint8(c.fixF)
		}
		if c.fixW >= 0 {
			c.W = c.fixW == 1
		}
		if c.fixSys >= 0 {
			sys = c17SysSpecial[c.fixSys]
		}
		c.Sys = hex.EncodeToString(sys[:])
		c.Session = uint16(r.IntN(0x10000))
		if r.IntN(3) == 0 {
			c.Session = cfg.Dev
		}
		fillMode := r.IntN(4)
		fill := func(b []byte) {
			for i := range b {
				switch fillMode {
				case 0:
					b[i] = byte(r.IntN(256))
				case 1:
					b[i] = []byte{e4.ENQ, e4.EOT, e4.ACK, e4.NAK, 0x00, 0xFF}[r.IntN(6)]
				case 2:
					b[i] = 0xFF
				default:
					b[i] = byte(i)
				}
			}
		}
		// W with an even function is only constructible as a raw frame
		needRaw := c.W && c.F%2 == 0
		item, body, path := c17Body(fill, c.Len, needRaw || r.IntN(3) == 0)
		c.Path = path
		env.Begin(g, c)

		var msg *hsms.DataMessage
		if path == "item" {
			m, err := hsms.NewDataMessage(c.S, c.F, c.W, c.Session, sys, item)
			if err != nil {
				env.Violate("harness:newdatamessage", fmt.Sprintf("NewDataMessage: %v", err), c)
				continue
			}
			msg = m
		} else {
			frame := make([]byte, 0, 10+len(body))
			frame = append(frame, byte(c.Session>>8), byte(c.Session), c.S&0x7F, c.F, 0, 0, sys[0], sys[1], sys[2], sys[3])
			if c.W {
				frame[2] |= 0x80
			}
			frame = append(frame, body...)
			m, err := hsms.DecodeHSMSPayload(frame)
			if err != nil {
				env.Violate("harness:decodepayload", fmt.Sprintf("DecodeHSMSPayload: %v", err), c)
				continue
			}
			dm, ok := m.ToDataMessage()
			if !ok {
				continue
			}
			msg = dm
		}

		link.peer.TakeReceived()
		nakSeen := 0
		if c.NakAt > 0 {
			n := 0
			link.peer.SetDecide(func(*e4.Rx) bool {
				n++

				return n != c.NakAt
			})
		} else {
			link.peer.SetDecide(nil)
		}
		sctx, scancel := context.WithTimeout(context.Background(), 60*time.Second)
		sendErr := link.lib.Conn.ForwardDataMessage(sctx, msg)
		scancel()
		rxs := link.peer.TakeReceived()

		want := e4.Header{Device: cfg.Dev, R: cfg.Equip, W: c.W, Stream: c.S, Function: c.F, System: sys}
		env.Eval(fw.HashStr("out", cfg.String(), fmt.Sprint(c.Len), fmt.Sprint(c.S), fmt.Sprint(c.F), fmt.Sprint(c.W), c.Sys, c.Path, fmt.Sprint(c.NakAt)), len(rxs) > 0)
		env.Sample(c)

		bad := false
		var accepted []e4.Block
		var acceptedRaw [][]byte
		var pendingNak []byte
		for i, rx := range rxs {
			if rx.Err != e4.OK {
				env.Violate("out:transmission-"+string(rx.Err), fmt.Sprintf("transmission %d of the message (%d bytes: %s) is not a valid E4 block: %s", i+1, len(rx.Raw), hexClip(rx.Raw), rx.Err), c)
				bad = true

				break
			}
			if pendingNak != nil {
				if string(pendingNak) != string(rx.Raw) {
					env.Violate("out:retransmission-differs", fmt.Sprintf("block NAKed by the peer was retransmitted with different bytes: %s then %s", hexClip(pendingNak), hexClip(rx.Raw)), c)
					bad = true

					break
				}
				nakSeen++
				pendingNak = nil
			}
			if !rx.Acked {
				pendingNak = rx.Raw

				continue
			}
			if n := len(accepted); n > 0 && accepted[n-1].Header == rx.Block.Header {
				// the library retransmitted after its own T2 (the peer's ACK was slow): E4 duplicate
				if string(acceptedRaw[n-1]) != string(rx.Raw) {
					env.Violate("out:retransmission-differs", "a retransmitted block (same header) carries different bytes", c)
					bad = true

					break
				}
				env.Event("out_timeout_retransmissions", 1)

				continue
			}
			accepted = append(accepted, rx.Block)
			acceptedRaw = append(acceptedRaw, rx.Raw)
		}
		if bad {
			continue
		}
		if sendErr != nil {
			if len(rxs) == 0 || pendingNak != nil {
				env.Violate("out:send-failed", fmt.Sprintf("ForwardDataMessage to a healthy peer failed: %v (transmissions seen: %d)", sendErr, len(rxs)), c)
			} else {
				env.Note("out case %d: send returned %v after %d transmissions (peer slow?) — discarded", g, sendErr, len(rxs))
				env.Discard()
			}
			// the link may be re-establishing: stop this unit
			return
		}
		if rule, detail := e4.CheckMessage(accepted, want, body); rule != "" {
			env.Violate("out:"+rule, fmt.Sprintf("%s (message S%dF%d W=%t sys=%s body %d bytes, %s, %d blocks seen)", detail, c.S, c.F, c.W, c.Sys, len(body), cfg, len(accepted)), c)

			continue
		}
		if c.NakAt > 0 && nakSeen == 0 {
			env.Violate("out:no-retransmission-after-nak", "the peer NAKed a block but the send returned nil without an identical retransmission", c)

			continue
		}
		env.Event("out_messages", 1)
		env.Event("out_blocks", int64(len(accepted)))
		if len(accepted) > 1 {
			env.Event("out_multiblock", 1)
		}
		if len(body) == 0 {
			env.Event("out_empty_body", 1)
		}
		if path == "raw" {
			env.Event("out_raw_frames", 1)
		}
		env.Event("out_nak_retransmissions", int64(nakSeen))
		if link.lib.Conn.State() != hsms.SelectedState {
			env.Violate("out:left-selected", "connection left Selected after a successful send", c)

			return
		}
	}
	env.Event("out_units", 1)
}
