package checks

import (
	"fmt"
	"math"

	"github.com/arloliu/go-secs/v2/secs2"

	"verif/fw"
)

// C01 for numeric items built from arguments WIDER than the item: whatever the constructor makes of a value that
// does not fit (the documented behaviour is clamping; C16 decides that), an error-free item is one logical value,
// and its bytes must be the encoding of THAT value: decoding the item's own bytes gives the values its accessors
// report, element by element. No assumption about clamping is made here.

func c01WideArgs(env *fw.Env) {
	type shape struct {
		name string
		args []any
	}
	k := int64(0)
	check := func(ctor string, w int, sh shape, it secs2.Item, vals func(secs2.Item) (string, error)) {
		idx := 2_100_000_000 + k
		k++
		env.Want(idx)
		env.Eval(fw.HashStr("wide", ctor, fmt.Sprint(w), sh.name), true)
		env.Event("wide_argument_items_checked", 1)
		if it.Error() != nil {
			env.Event("wide_argument_items_with_error", 1)
			return // not an error-free item: outside the property
		}
		cs := map[string]any{"constructor": fmt.Sprintf("%s(%d, %s)", ctor, w, sh.name)}
		b := it.ToBytes()
		if l := it.EncodedLen(); l != len(b) {
			env.Violate("encodedlen", fmt.Sprintf("%s(%d, %s): EncodedLen()=%d len(ToBytes())=%d", ctor, w, sh.name, l, len(b)), cs)
		}
		own, err := vals(it)
		if err != nil {
			env.Violate("wide-args-accessor-error", fmt.Sprintf("%s(%d, %s) is error-free but its accessor returns %v", ctor, w, sh.name, err), cs)
			return
		}
		dec, derr := secs2.Decode(b)
		if derr != nil {
			env.Violate("decode-of-own-encoding", fmt.Sprintf("%s(%d, %s) encodes as %x and Decode of that fails: %v", ctor, w, sh.name, b, derr), cs)
			return
		}
		got, _ := vals(dec)
		if got != own || !secs2.Equal(it, dec) {
			env.Violate("bytes-are-not-the-encoding-of-the-reported-value", fmt.Sprintf("%s(%d, %s): the item reports %s, its bytes %x decode to %s (Equal=%v)", ctor, w, sh.name, own, b, got, secs2.Equal(it, dec)), cs)
		}
	}
	uvals := func(it secs2.Item) (string, error) { v, err := it.ToUint(); return fmt.Sprint(v), err }
	ivals := func(it secs2.Item) (string, error) { v, err := it.ToInt(); return fmt.Sprint(v), err }
	fvals := func(it secs2.Item) (string, error) {
		v, err := it.ToFloat()
		s := ""
		for _, f := range v {
			s += fmt.Sprintf("%x ", math.Float64bits(f))
		}

		return s, err
	}
	// an F4 item holds float32 values: what it reports is compared at that precision (rounding 0.1 or 5e-324 to the
	// nearest float32 is the format, not a defect)
	f4vals := func(it secs2.Item) (string, error) {
		v, err := it.ToFloat()
		s := ""
		for _, f := range v {
			s += fmt.Sprintf("%x ", math.Float32bits(float32(f)))
		}

		return s, err
	}
	for _, w := range []int{1, 2, 4, 8} {
		umax := uint64(math.MaxUint64)
		if w < 8 {
			umax = 1<<(8*uint(w)) - 1
		}
		// values around the width's maximum, as every wider unsigned Go type can hold them
		us := []uint64{0, 1, umax - 1, umax, umax + 1, umax + 2, 2*umax + 1, umax<<4 | 0xF, math.MaxUint64}
		var shapes []shape
		for _, lead := range []bool{false, true} { // alone, and behind another argument
			pre := []any{}
			pn := ""
			if lead {
				pre, pn = []any{uint8(7)}, "uint8(7),"
			}
			var u16 []uint16
			var u32 []uint32
			var u64 []uint64
			var un []uint
			var in []int
			var i64 []int64
			var i32 []int32
			for _, v := range us {
				if v <= math.MaxUint16 {
					u16 = append(u16, uint16(v))
					shapes = append(shapes, shape{fmt.Sprintf("%suint16(%d)", pn, v), append(append([]any{}, pre...), uint16(v))})
				}
				if v <= math.MaxUint32 {
					u32 = append(u32, uint32(v))
					shapes = append(shapes, shape{fmt.Sprintf("%suint32(%d)", pn, v), append(append([]any{}, pre...), uint32(v))})
				}
				if v <= math.MaxInt32 {
					i32 = append(i32, int32(v))
				}
				if v <= math.MaxInt64 {
					in, i64 = append(in, int(v)), append(i64, int64(v))
					shapes = append(shapes, shape{fmt.Sprintf("%sint64(%d)", pn, v), append(append([]any{}, pre...), int64(v))})
				}
				u64, un = append(u64, v), append(un, uint(v))
				shapes = append(shapes, shape{fmt.Sprintf("%suint64(%d)", pn, v), append(append([]any{}, pre...), v)},
					shape{fmt.Sprintf("%sstring(%d)", pn, v), append(append([]any{}, pre...), fmt.Sprint(v))})
			}
			for _, sl := range []struct {
				n string
				v any
			}{{"[]uint16", u16}, {"[]uint32", u32}, {"[]uint64", u64}, {"[]uint", un}, {"[]int", in}, {"[]int64", i64}, {"[]int32", i32}} {
				shapes = append(shapes, shape{fmt.Sprintf("%s%s%v", pn, sl.n, sl.v), append(append([]any{}, pre...), sl.v)})
			}
		}
		for _, sh := range shapes {
			check("NewUintItem", w, sh, secs2.NewUintItem(w, sh.args...), uvals)
		}
		// signed
		imax, imin := int64(math.MaxInt64), int64(math.MinInt64)
		if w < 8 {
			imax = 1<<(8*uint(w)-1) - 1
			imin = -imax - 1
		}
		is := []int64{0, -1, imax - 1, imax, imin, imin + 1, math.MaxInt64, math.MinInt64}
		if w < 8 {
			is = append(is, imax+1, imin-1, 2*imax+1, 2*imin)
		}
		shapes = shapes[:0]
		for _, lead := range []bool{false, true} {
			pre := []any{}
			pn := ""
			if lead {
				pre, pn = []any{int8(-7)}, "int8(-7),"
			}
			var i16 []int16
			var i32 []int32
			var i64 []int64
			var in []int
			var u64 []uint64
			for _, v := range is {
				if v >= math.MinInt16 && v <= math.MaxInt16 {
					i16 = append(i16, int16(v))
				}
				if v >= math.MinInt32 && v <= math.MaxInt32 {
					i32 = append(i32, int32(v))
					shapes = append(shapes, shape{fmt.Sprintf("%sint32(%d)", pn, v), append(append([]any{}, pre...), int32(v))})
				}
				if v >= 0 {
					u64 = append(u64, uint64(v), uint64(v)+1)
				}
				i64, in = append(i64, v), append(in, int(v))
				shapes = append(shapes, shape{fmt.Sprintf("%sint64(%d)", pn, v), append(append([]any{}, pre...), v)},
					shape{fmt.Sprintf("%sstring(%d)", pn, v), append(append([]any{}, pre...), fmt.Sprint(v))})
			}
			for _, sl := range []struct {
				n string
				v any
			}{{"[]int16", i16}, {"[]int32", i32}, {"[]int64", i64}, {"[]int", in}, {"[]uint64", u64}} {
				shapes = append(shapes, shape{fmt.Sprintf("%s%s%v", pn, sl.n, sl.v), append(append([]any{}, pre...), sl.v)})
			}
		}
		for _, sh := range shapes {
			check("NewIntItem", w, sh, secs2.NewIntItem(w, sh.args...), ivals)
		}
	}
	// F4 from float64 arguments beyond the float32 range, in every position
	big := []float64{0, 1.5, math.MaxFloat32, -math.MaxFloat32, math.MaxFloat32 * 1.0000001, 1e39, -1e39, math.MaxFloat64, -math.MaxFloat64, math.SmallestNonzeroFloat64, 1e-46}
	var fshapes []shape
	for _, v := range big {
		fshapes = append(fshapes, shape{fmt.Sprintf("float64(%g)", v), []any{v}}, shape{fmt.Sprintf("0.5,float64(%g)", v), []any{0.5, v}},
			shape{fmt.Sprintf("[]float64{%g}", v), []any{[]float64{v}}}, shape{fmt.Sprintf("0.5,1.5,[]float64{%g,%g}", v, -v), []any{0.5, 1.5, []float64{v, -v}}},
			shape{fmt.Sprintf("[]float64{0.5},[]float64{%g}", v), []any{[]float64{0.5}, []float64{v}}}, shape{fmt.Sprintf("float32(2),[]float64{1,%g}", v), []any{float32(2), []float64{1, v}}})
	}
	fshapes = append(fshapes, shape{fmt.Sprintf("[]float64%v", big), []any{big}}, shape{fmt.Sprintf("1.0,[]float64%v", big), []any{1.0, big}})
	for _, sh := range fshapes {
		check("NewFloatItem", 4, sh, secs2.NewFloatItem(4, sh.args...), f4vals)
		check("NewFloatItem", 8, sh, secs2.NewFloatItem(8, sh.args...), fvals)
	}
}
