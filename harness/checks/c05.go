package checks

import (
	"verif/fw"
)

// C05 — connection state follows the E37 diagram under every interleaving.
func init() {
	fw.Register(&fw.Check{
		ID:    "C05",
		Level: "exploration",
		Rule: "(a) driver: schedules over the REAL supervisor (no goroutines) = sequences of atomic actions {TCPUp, CommitSelected, CommitSelectLost, TCPDown(recv|other), T7Expired, Close, " +
			"JoinComplete, Step, Step with a commit interposed at the load/store seam}, restricted by an environment model of what a transport can call; DFS over all schedules to a depth with " +
			"visited-state hashing + random walks of length 60 (a third with rarely-drained notifications to exercise coalescing). distinct = abstract state (state,lastReacted,closed,queue,env) for DFS, " +
			"schedule for walks; non-trivial = walk of >=6 actions / every DFS state. (b) e2e: randomized histories on real hsmsss connections against a scripted peer (select, deselect+reselect, " +
			"back-to-back reselect bursts in one segment, 24-fold toggle storms with a stalling handler, separate, drop, T7 expiry, late select inside T7, Close at a quiescent point / racing a connect / while selected) with " +
			"a StateChangeHandler chain monitor, after-Close monitors and the selected-session-survives-T7 monitor; distinct = history script hash; non-trivial = the history reached Selected at least once or raced Close with a connect.",
		Assumptions: []string{
			"environment model (c05_driver.go c05Env): TCPUp of generation g+1 only after generation g's teardown was joined and a reconnect loop exists; one receive path per generation; at most one further TCPDown from a non-receive goroutine; one Start may land after Close was requested",
			"a state change is attributed to the atomic action during which it was observed; Step of evTCPUp/evSelectAccepted/evSelectLost is 'later internal processing of an earlier event' and must not change State()",
			"e2e: a gap in the notification chain is accepted only up to the dropped_total the library itself reported in its 'coalesced' Warn",
		},
		Phases: func(tier string) []fw.Phase {
			return []fw.Phase{
				{Name: "driver-dfs", Shards: 16, Timeout: tierDur(tier, 5, 40)},
				{Name: "driver-walk", Shards: 8, Timeout: tierDur(tier, 5, 40)},
				{Name: "e2e", Race: true, Shards: 12, Timeout: tierDur(tier, 8, 45), HangIsViolation: true},
			}
		},
		Worker: func(env *fw.Env) {
			switch env.Phase {
			case "driver-dfs", "driver-walk":
				c05DriverWorker(env)
			case "e2e":
				c05E2E(env)
			}
		},
		RequiredEvents: []string{"dfs_transitions", "interposed_steps", "walk_steps", "dfs_distinct_states", "e2e_histories", "e2e_notifications", "e2e_toggle_storms", "e2e_selected_survives_t7", "e2e_connect_during_close"},
	})
}
