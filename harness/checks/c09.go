package checks

import (
	"context"
	"errors"
	"fmt"
	"os"
	"runtime"
	"strings"
	"sync"
	"sync/atomic"
	"time"

	"github.com/arloliu/go-secs/v2/hsms"
	"github.com/arloliu/go-secs/v2/secs2"

	"verif/fw"
	"verif/peer"
)

// C09 — nothing crosses TCP generations.
func init() {
	fw.Register(&fw.Check{
		ID:    "C09",
		Level: "fault_enumeration",
		Rule: "history i = (role, reconnect timing immediate|after back-off, 3..5 TCP generations each ended by one drop kind from the COMPLETE list {peer FIN, peer RST, peer stall + write timeout, Close + reopen, " +
			"linktest failure, T7 expiry after Deselect, T8 expiry inside a frame}, every kind occurring in every shard; 8 concurrent senders run across all drops (W-bit sync with answered and withheld replies, " +
			"no-W sync, async incl. 64 KiB frames queued behind a stalled peer), so drops land on sends that are queued, mid-write or awaiting a reply; every message carries a unique token and the harness generation " +
			"counter at call start/return; each generation's peer tags its replies and replays the previous generation's open system bytes as unsolicited secondaries). Oracle: token observed on generation G requires " +
			"start_gen <= G <= return_gen; a returned reply must carry the call's token and the tag of the generation that read the primary; no ErrT3Timeout (T3=30 s) and no unreturned call after the end. " +
			"distinct = hash(history descriptor); non-trivial = at least one drop happened while a transaction was open.",
		Assumptions: []string{
			"the harness generation counter is advanced when the peer's accept/dial returns, i.e. before the library can be Selected on that generation, which makes start_gen <= G <= return_gen a sound requirement",
			"'promptly' for released waiters is decided as: the call returned before T3 (30 s) and within 15 s of the final Close",
		},
		Phases: func(tier string) []fw.Phase {
			return []fw.Phase{
				{Name: "generations", Race: true, Shards: 8, Timeout: tierDur(tier, 8, 45), HangIsViolation: true},
				// SECS-I: senders parked on the line engine must be released by their generation's end (c09_secs1.go)
				{Name: "secs1-waiters", Race: true, Shards: 4, Timeout: tierDur(tier, 8, 45), HangIsViolation: true},
			}
		},
		Worker: func(env *fw.Env) {
			if env.Phase == "secs1-waiters" {
				c09S1Worker(env)
			} else {
				c09Worker(env)
			}
		},
		RequiredEvents: []string{"s1_waiter_cases", "s1_waiters_released", "senders_stalled_after_write", "generations", "frames_checked", "waiters_released_conn_closed", "drops_with_open_transactions", "replies_checked", "stale_secondaries_sent", "kind_fin", "kind_rst", "kind_stall", "kind_close-reopen", "kind_linktest", "kind_t7", "kind_t8"},
		Exhaustive:     func(string) bool { return true },
	})
}

var c09Kinds = []string{"fin", "rst", "stall", "close-reopen", "linktest", "t7", "t8"}

type c09Case struct {
	Index   int64    `json:"index"`
	Active  bool     `json:"active"`
	Backoff int      `json:"backoff_ms"`
	Kinds   []string `json:"drop_kinds"`
	Delays  bool     `json:"delay_injection"`
}

type c09Call struct {
	token      string
	shape      int // 0 W sync, 1 sync, 2 async
	genStart   int32
	genEnd     int32
	err        error
	replyBody  string
	replySys   uint32
	hasReply   bool
	start, end time.Duration
}

func c09Worker(env *fw.Env) {
	total := int64(env.Pick(40, 480))
	for i := int64(0); i < total; i++ {
		if !env.Mine(i) || !env.Want(i) {
			continue
		}
		if env.Stop() {
			return
		}
		c09One(env, i)
	}
}

//nolint:gocyclo,cyclop // one multi-generation history and its offline scan
func c09One(env *fw.Env, i int64) {
	r := env.RandAt("hist", i)
	cs := c09Case{Index: i, Active: (i/int64(env.Shards))%2 == 0, Backoff: []int{3, 60}[r.IntN(2)], Delays: r.IntN(2) == 0}
	ngen := 3 + r.IntN(3)
	// every kind appears in every shard: rotate the kind list by the per-shard case number
	base := int(i/int64(env.Shards)) * 3
	for g := 0; g < ngen; g++ {
		cs.Kinds = append(cs.Kinds, c09Kinds[(base+g)%len(c09Kinds)])
	}
	env.Begin(i, cs)
	env.Sample(cs)
	env.Eval(fw.HashStr("c09", fmt.Sprint(cs)), true)

	off := false
	rg, err := newRig(rigOpts{Active: cs.Active, T3: 30 * time.Second, T5: 200 * time.Millisecond, BackoffInit: time.Duration(cs.Backoff) * time.Millisecond,
		T6: 400 * time.Millisecond, T7: 500 * time.Millisecond, T8: 350 * time.Millisecond, WriteTimeout: 300 * time.Millisecond,
		Linktest: 70 * time.Millisecond, LinktestFails: 1, Suppress: &off, QueueSize: 8, CloseTimeout: 3 * time.Second})
	if err != nil {
		env.Discard()
		return
	}
	dl := &deliveryLog{}
	rg.Conn.AddDataMessageHandler(dl.handler(0))
	if cs.Delays {
		undo := installDelays(env.Seed+uint64(i)*13, 700*time.Microsecond, 3, "hsms.send.afterLoadEpoch", "hsms.send.afterRegister", "hsms.drain.beforeWrite", "hsms.async.beforeEnqueue",
			"hsms.teardown.afterCancel", "hsms.connectLoop.afterPublish", "hsms.react.beforeTeardown")
		defer func() { env.Event("delays_injected", undo()) }()
	}

	var genCtr atomic.Int32
	var muteLinktest atomic.Bool
	var mu sync.Mutex
	withheld := map[int][]peer.Frame{} // gen -> W primaries left unanswered
	mkOnFrame := func(gen int) func(*peer.Conn, peer.Frame) bool {
		return func(c *peer.Conn, f peer.Frame) bool {
			if f.PType == 0 && f.SType == peer.STLinktestReq {
				if !muteLinktest.Load() {
					_ = c.Send(peer.LinktestRsp(f.Sys))
				}

				return false
			}
			if !f.IsData() {
				return true
			}
			tok := c06Token(f)
			if f.WBit() && strings.HasPrefix(tok, "c09-") {
				if fw.HashStr("wh", tok)%3 == 0 {
					mu.Lock()
					withheld[gen] = append(withheld[gen], f)
					mu.Unlock()
				} else {
					_ = c.Send(peer.Data(f.Stream(), f.Function()+1, false, f.Session, f.Sys, c06Body(fmt.Sprintf("r:%d:%s", gen, tok))))
				}
			}

			return false
		}
	}

	if err := rg.Open(); err != nil {
		env.Violate("open-failed", err.Error(), cs)
		return
	}
	var conns []*peer.Conn
	closed := false
	defer func() {
		for _, c := range conns {
			c.Close()
		}
		if !closed {
			_ = rg.Shutdown()
		}
	}()
	nextGen := func() (*peer.Conn, error) {
		var last error
		for attempt := 0; attempt < 6; attempt++ {
			pc, err := rg.PeerConnect(15 * time.Second)
			if err != nil {
				return nil, err
			}
			genCtr.Store(int32(pc.Gen))
			conns = append(conns, pc)
			inner := mkOnFrame(pc.Gen)
			pc.OnFrame = func(c *peer.Conn, f peer.Frame) bool {
				if f.PType == 0 && (f.SType == peer.STSelectReq || f.SType == peer.STSelectRsp) {
					return true
				}

				return inner(c, f)
			}
			pc.Start()
			if _, err := rg.PeerSelect(pc, 3*time.Second); err != nil {
				// a generation the library already gave up on (e.g. its Select timed out in the listen
				// backlog, or the connect was refused by a generation still tearing down): take the next one
				last = err
				env.Event("generations_missed_by_peer", 1)
				pc.Close()

				continue
			}
			ok := waitFor(10*time.Second, func() bool {
				select {
				case <-pc.Done():
					return true
				default:
				}

				return rg.Conn.State() == hsms.SelectedState
			})
			if ok && rg.Conn.State() == hsms.SelectedState {
				return pc, nil
			}
			last = errors.New("not selected")
			env.Event("generations_missed_by_peer", 1)
			pc.Close()
		}

		return nil, last
	}

	// ---- senders (run across all generations) ----
	var stop atomic.Bool
	nsend := 8
	// per-sender call tracking for the "calls of a dead generation must return" monitor
	inCall := make([]atomic.Bool, nsend)
	startGen := make([]atomic.Int32, nsend)
	callSeq := make([]atomic.Int64, nsend)
	curTok := make([]atomic.Pointer[string], nsend)
	// the stalled-sender schedule: up to stallBudget senders are held right after their frame is on the wire
	// (vhook hsms.send.afterWrite — a goroutine may be descheduled there for any length of time) until the NEXT
	// generation is Selected, i.e. across the whole teardown + reconnect of their own generation
	var stallBudget atomic.Int32
	hsms.VerifSetHook("hsms.send.afterWrite", func(time.Duration) {
		for {
			b := stallBudget.Load()
			if b <= 0 {
				return
			}
			if stallBudget.CompareAndSwap(b, b-1) {
				break
			}
		}
		g0 := genCtr.Load()
		env.Event("senders_stalled_after_write", 1)
		waitFor(4*time.Second, func() bool { return genCtr.Load() > g0 && rg.Conn.State() == hsms.SelectedState })
	})
	defer hsms.VerifSetHook("hsms.send.afterWrite", nil)
	calls := make([][]*c09Call, nsend)
	var wg sync.WaitGroup
	big := strings.Repeat("B", 64<<10)
	for s := 0; s < nsend; s++ {
		wg.Add(1)
		go func(s int) {
			defer wg.Done()
			rr := env.RandAt(fmt.Sprintf("sender-%d", s), i)
			for k := 0; !stop.Load() && k < 4000; k++ {
				c := &c09Call{token: fmt.Sprintf("c09-%d-%d-%d", i, s, k), shape: rr.IntN(3)}
				payload := c.token
				isBig := c.shape == 2 && rr.IntN(4) == 0
				var item secs2.Item = secs2.A(payload)
				if isBig {
					item = secs2.L(secs2.A(payload), secs2.A(big))
				}
				ctx, cancel := context.WithTimeout(context.Background(), 40*time.Second)
				c.genStart = genCtr.Load()
				startGen[s].Store(c.genStart)
				curTok[s].Store(&c.token)
				inCall[s].Store(true)
				c.start = peer.Now()
				switch c.shape {
				case 0:
					var rep *hsms.DataMessage
					rep, c.err = rg.Conn.SendDataMessage(ctx, 1, 3, true, item)
					if rep != nil {
						c.hasReply = true
						sb := rep.SystemBytes()
						c.replySys = uint32(sb[0])<<24 | uint32(sb[1])<<16 | uint32(sb[2])<<8 | uint32(sb[3])
						if it, e := rep.Item(); e == nil {
							c.replyBody, _ = it.ToASCII()
						}
					}
				case 1:
					_, c.err = rg.Conn.SendDataMessage(ctx, 1, 5, false, item)
				default:
					c.err = rg.Conn.SendDataMessageAsync(ctx, 1, 7, false, item)
				}
				c.end = peer.Now()
				c.genEnd = genCtr.Load()
				inCall[s].Store(false)
				callSeq[s].Add(1)
				cancel()
				calls[s] = append(calls[s], c)
				if c.err != nil {
					time.Sleep(time.Duration(300+rr.IntN(1500)) * time.Microsecond)
				} else if c.shape != 0 {
					time.Sleep(time.Duration(rr.IntN(400)) * time.Microsecond)
				}
			}
		}(s)
	}
	finish := func() {
		stop.Store(true)
		done := make(chan struct{})
		go func() { wg.Wait(); close(done) }()
		select {
		case <-done:
		case <-time.After(15 * time.Second):
			env.Violate("waiter-not-released", "15 s after the final Close some send calls (T3=30 s) still have not returned: a waiter survived its generation", cs)
		}
	}

	// ---- generations ----
	var pc *peer.Conn
	for g, kind := range cs.Kinds {
		var err error
		pc, err = nextGen()
		if err != nil {
			env.Note("history %d generation %d (%s): %v; state=%v dials=%d listens=%d warns=%v", i, g+1, kind, err, rg.Conn.State(), rg.Trk.DialCount(), rg.Trk.ListenCount(), rg.Log.Lines(""))
			env.Discard()
			finish()
			return
		}
		env.Event("generations", 1)
		// Generation pc.Gen is Selected. Every call that STARTED while an earlier generation was current
		// belongs to a dead generation: it must return (T3 is 30 s) while this generation is still alive —
		// it is kept alive for as long as this monitor waits.
		type pend struct {
			s   int
			seq int64
		}
		// (a call "belongs to a dead generation" when its primary was READ by an earlier generation's peer;
		// the generation counter at call start is not enough: a call that read the counter just before this
		// generation was accepted may legitimately be sent — and wait for a withheld reply — on this one)
		seenOld := map[string]bool{}
		for _, c := range conns {
			if c.Gen >= pc.Gen {
				continue
			}
			for _, ev := range c.Log() {
				if ev.Frame.IsData() && ev.Frame.WBit() {
					seenOld[c06Token(ev.Frame)] = true
				}
			}
		}
		var old []pend
		for s := 0; s < nsend; s++ {
			seq := callSeq[s].Load()
			if tok := curTok[s].Load(); inCall[s].Load() && tok != nil && seenOld[*tok] && callSeq[s].Load() == seq {
				old = append(old, pend{s, seq})
			}
		}
		if len(old) > 0 {
			env.Event("dead_generation_calls_watched", int64(len(old)))
			if !waitFor(10*time.Second, func() bool {
				for _, p := range old {
					if callSeq[p.s].Load() == p.seq && inCall[p.s].Load() {
						return false
					}
				}

				return true
			}) {
				var who []string
				for _, p := range old {
					if callSeq[p.s].Load() == p.seq && inCall[p.s].Load() {
						who = append(who, fmt.Sprintf("sender %d (call started in generation %d)", p.s, startGen[p.s].Load()))
					}
				}
				buf := make([]byte, 4<<20)
				buf = buf[:runtime.Stack(buf, true)]
				dumpPath := fmt.Sprintf("%s/waiter-dump-%d.txt", env.OutDir, i)
				_ = os.WriteFile(dumpPath, buf, 0o644)
				who = append(who, "full goroutine dump: "+dumpPath)
				env.Violate("waiter-outlives-its-generation", fmt.Sprintf("generation %d is Selected and alive, yet send call(s) started in an earlier generation have not returned after 10 s (T3=30 s): they were not released when their generation ended: %v; goroutines:\n%s", pc.Gen, who, firstN(strings.Join(libGoroutines(), "\n\n"), 6000)), cs)
			}
		}
		// replay the previous generation's open transactions as unsolicited secondaries
		mu.Lock()
		prev := withheld[pc.Gen-1]
		mu.Unlock()
		for _, f := range prev {
			_ = pc.Send(peer.Data(f.Stream(), f.Function()+1, false, f.Session, f.Sys, c06Body(fmt.Sprintf("stale:%d", pc.Gen))))
			env.Event("stale_secondaries_sent", 1)
		}
		time.Sleep(time.Duration(15+r.IntN(50)) * time.Millisecond)
		mu.Lock()
		open := len(withheld[pc.Gen])
		mu.Unlock()
		if open > 0 {
			env.Event("drops_with_open_transactions", 1)
		}
		env.Event("kind_"+kind, 1)
		if kind == "fin" || kind == "rst" || kind == "t8" {
			stallBudget.Store(3) // hold up to 3 senders after their write, across the drop below
			time.Sleep(3 * time.Millisecond)
		}
		switch kind {
		case "fin":
			pc.Close()
		case "rst":
			pc.Reset()
		case "stall":
			pc.StallReads(true)
			if !waitFor(10*time.Second, func() bool { return rg.Conn.State() != hsms.SelectedState }) {
				env.Violate("stalled-peer-not-dropped", "the peer stopped reading for 10 s while 64 KiB frames were being sent (write timeout 300 ms) and the session is still Selected", cs)
			}
			pc.StallReads(false)
		case "close-reopen":
			if err := rg.Conn.Close(); err != nil {
				env.Violate("close-error", err.Error(), cs)
			}
			if err := rg.Open(); err != nil {
				env.Violate("reopen-failed", err.Error(), cs)
				finish()
				return
			}
		case "linktest":
			muteLinktest.Store(true)
			if !waitFor(10*time.Second, func() bool { return rg.Conn.State() != hsms.SelectedState }) {
				env.Violate("linktest-failure-not-dropped", "the peer stopped answering Linktest.req (threshold 1, T6 400 ms) for 10 s and the session is still Selected", cs)
			}
			muteLinktest.Store(false)
		case "t7":
			_ = pc.Send(peer.DeselectReq(0x1234, 0xD7000000|uint32(g)))
			if !waitFor(10*time.Second, func() bool { return rg.Conn.State() == hsms.NotConnectedState }) {
				env.Violate("t7-not-dropped", "10 s after Deselect (T7 500 ms) the connection is still up", cs)
			}
		case "t8":
			_ = pc.SendRaw([]byte{0, 0, 0, 20, 0x12, 0x34})
			if !waitFor(10*time.Second, func() bool { return rg.Conn.State() != hsms.SelectedState }) {
				env.Violate("t8-not-dropped", "10 s after a frame stalled mid-way (T8 350 ms) the session is still Selected", cs)
			}
		}
		stallBudget.Store(0) // never stall the next generation's own Select / Linktest writes
		pc.WaitClosed(5 * time.Second)
	}
	// final generation to prove recovery, then close
	if last, err := nextGen(); err == nil {
		env.Event("generations", 1)
		time.Sleep(10 * time.Millisecond)
		_, _ = last.Barrier(5 * time.Second)
	}
	stop.Store(true)
	closed = true
	if err := rg.Shutdown(); err != nil && !errors.Is(err, hsms.ErrCloseTimeout) {
		env.Violate("close-error", err.Error(), cs)
	}
	finish()
	for _, c := range conns {
		c.WaitClosed(2 * time.Second)
	}

	// ---- offline scan ----
	type seen struct {
		gen int
		sys uint32
	}
	at := map[string][]seen{}
	for _, c := range conns {
		for _, ev := range c.Log() {
			if !ev.Frame.IsData() {
				continue
			}
			b := ev.Frame.Body
			tok := c06Token(ev.Frame)
			if tok == "" && len(b) > 6 && b[0] == 0x01 { // L[2]{A token, A big}
				if b[2] == 0x41 {
					tok = string(b[4 : 4+int(b[3])])
				}
			}
			if strings.HasPrefix(tok, "c09-") {
				at[tok] = append(at[tok], seen{c.Gen, ev.Frame.Sys})
			}
		}
	}
	for s := range calls {
		for _, c := range calls[s] {
			obs := at[c.token]
			if len(obs) > 1 {
				env.Violate("frame-written-twice", fmt.Sprintf("%s reached the peer %d times: %v", c.token, len(obs), obs), cs)
			}
			for _, o := range obs {
				env.Event("frames_checked", 1)
				if int32(o.gen) < c.genStart || int32(o.gen) > c.genEnd {
					env.Violate("frame-crossed-generation", fmt.Sprintf("%s (shape %d): call ran while generations %d..%d existed, the frame arrived on generation %d (err=%v)", c.token, c.shape, c.genStart, c.genEnd, o.gen, c.err), cs)
				}
			}
			switch {
			case c.hasReply:
				env.Event("replies_checked", 1)
				if len(obs) != 1 {
					env.Violate("reply-without-primary", fmt.Sprintf("%s returned a reply but its primary was seen %d times", c.token, len(obs)), cs)
					break
				}
				want := fmt.Sprintf("r:%d:%s", obs[0].gen, c.token)
				if c.replyBody != want || c.replySys != obs[0].sys {
					env.Violate("reply-from-another-generation", fmt.Sprintf("%s (primary read on generation %d, sys %08x) returned reply body %q sys %08x, want %q", c.token, obs[0].gen, obs[0].sys, c.replyBody, c.replySys, want), cs)
				}
			case errors.Is(c.err, hsms.ErrT3Timeout):
				env.Violate("waiter-survived-generation", fmt.Sprintf("%s returned ErrT3Timeout after %v (T3=30 s): the waiter was not released when its generation ended", c.token, c.end-c.start), cs)
			case errors.Is(c.err, hsms.ErrConnClosed):
				if c.shape == 0 && len(obs) == 1 {
					env.Event("waiters_released_conn_closed", 1)
				}
			case c.err == nil && c.shape == 0:
				env.Violate("nil-reply-nil-error", c.token+" returned (nil, nil)", cs)
			}
		}
	}
	for _, d := range dl.snapshot() {
		if strings.HasPrefix(string(d.Body[min(2, len(d.Body)):]), "stale:") {
			env.Event("stale_secondaries_delivered_as_unsolicited", 1)
		}
	}
}
