package checks

import (
	"fmt"
	"math"
	"math/rand/v2"
	"strings"

	"github.com/arloliu/go-secs/v2/hsms"
	"github.com/arloliu/go-secs/v2/secs2"
	"github.com/arloliu/go-secs/v2/sml"

	"verif/fw"
	"verif/gen"
	"verif/mon/itemcmp"
	"verif/ref/e5"
)

// C15 — the configurable SML encoder with defaults is byte-identical to Item.ToSML.
func init() {
	fw.Register(&fw.Check{
		ID:    "C15",
		Level: "exploration",
		Rule: "case i (pure function of seed,i) = one error-free item tree: the eight C01 families (leaf x count 0/1/2/small; leaves at the 255/256/65535/65536 boundaries; random trees; list chains of every depth 1..65; " +
			"flat lists; lists of 254..257 children) plus every numeric edge value in three shapes (all in one item / one per item / single value), every empty item, lists holding EmptyItem children, the EmptyItem itself; " +
			"each tree is checked as built by randomly chosen public-constructor argument shapes AND as returned by secs2.Decode of its reference encoding (different internal storage) AND as decoded from an equivalent non-canonical encoding (TRUE as 0xFF/0x02/0x80/..., length fields wider than minimal). " +
			"oracle 1 (differential, stated by the property): sml.Encode(item), sml.NewEncoder().Encode(item), AppendEncode == item.ToSML() byte for byte. " +
			"oracle 2 (parse-back): every numeric / boolean / binary leaf's rendering by either renderer, wrapped as 'S1F1 W\\n<rendering>\\n.', parsed by sml.Parse and sml.ParseStrict, must give one message whose body " +
			"equals the model leaf through every public accessor (a NaN must come back as a NaN; F4 at float32 precision). distinct = hash(reference encoding, recipe, variant); every case is non-trivial",
		Assumptions: []string{
			"an item tree is identified with its harness/ref/e5 model value; 'reads back the same value' is judged through every public accessor (mon/itemcmp)",
			"NaN payload bits are not part of 'the same value' (SML has one NaN token)",
		},
		Phases: func(tier string) []fw.Phase {
			return []fw.Phase{{Name: "plain", Shards: 16, Timeout: tierDur(tier, 6, 40)}}
		},
		Worker:         c15Worker,
		RequiredEvents: []string{"trees_compared", "decoded_trees_compared", "noncanonical_decoded_trees_compared", "leaves_parsed_back", "empty_item_child_trees", "numeric_edge_trees"},
	})
}

type c15Case struct {
	Index   int64  `json:"index"`
	Family  string `json:"family"`
	Variant string `json:"variant"`
	Tree    string `json:"tree"`
	Recipe  string `json:"recipe,omitempty"`
}

type c15State struct {
	env  *fw.Env
	once onceKeys
	enc  *sml.Encoder
}

func c15Worker(env *fw.Env) {
	st := &c15State{env: env, once: onceKeys{}, enc: sml.NewEncoder()}
	total := int64(env.Pick(48000, 900000))
	for i := int64(0); i < total; i++ {
		if !env.Mine(i) || !env.Want(i) {
			continue
		}
		if env.Stop() {
			break
		}
		st.one(i)
	}
	if env.Shard == 0 && (env.ReplayIndex < 0 || env.ReplayIndex >= 2_000_000_000) {
		st.emptyChildren()
	}
}

func (st *c15State) one(i int64) {
	env := st.env
	var node *e5.Node
	var family string
	if i%10 == 9 {
		node, family = c13Edges(int(i/10)), "numeric-edges"
		env.Event("numeric_edge_trees", 1)
	} else {
		node, family = c01Node(env, i)
	}
	r := env.RandAt("build", i)
	item, recipe := gen.Build(r, node)
	enc := node.Encode(nil)
	cs := c15Case{Index: i, Family: family, Variant: "constructed", Tree: clipStr(node.String(), 300), Recipe: recipe}
	env.Eval(fw.Hash64(enc, []byte(recipe)), true)
	env.Sample(cs)
	env.Event("family_"+familyKey(family), 1)
	if err := item.Error(); err != nil {
		return // not an error-free item: outside the property (C01/C16 judge constructors)
	}
	env.Event("trees_compared", 1)
	st.compare(item, node, cs)
	// the same value in decoder storage
	if node.Depth() <= e5.MaxDepth {
		if dec, err := secs2.Decode(enc); err == nil && dec.Error() == nil {
			cs.Variant = "decoded"
			env.Eval(fw.Hash64(enc, []byte("decoded")), true)
			env.Event("decoded_trees_compared", 1)
			st.compare(dec, node, cs)
		}
		// the same value as another implementation may have put it on the wire: TRUE as any
		// non-zero byte, length fields wider than minimal (an item that retains such bytes is
		// still an error-free item, and both renderers must agree on it)
		wire, nonCanon := c15NonCanonical(env.RandAt("noncanon", i), node, nil)
		if nonCanon {
			if dec, err := secs2.Decode(wire); err == nil && dec.Error() == nil {
				cs.Variant = "decoded-noncanonical"
				env.Eval(fw.Hash64(wire, []byte("decoded-noncanonical")), true)
				env.Event("noncanonical_decoded_trees_compared", 1)
				st.compare(dec, node, cs)
			}
		}
	}
}

// c15NonCanonical appends an E5 encoding of n that differs from the canonical one without changing
// the value: every TRUE byte of a Boolean becomes some other non-zero byte, and length fields are
// (randomly) one or two bytes wider than needed. Reports whether anything differs.
func c15NonCanonical(r *rand.Rand, n *e5.Node, dst []byte) ([]byte, bool) {
	l := n.PayloadLen()
	nlb := e5.MinLenBytes(l)
	wide := nlb
	if r.IntN(3) == 0 {
		wide = nlb + 1 + r.IntN(3-nlb+1)
		wide = min(wide, 3)
	}
	changed := wide != nlb
	dst = append(dst, n.FC<<2|byte(wide))
	for k := wide - 1; k >= 0; k-- {
		dst = append(dst, byte(l>>(8*k)))
	}
	switch n.FC {
	case e5.List:
		for _, kid := range n.Kids {
			var c bool
			dst, c = c15NonCanonical(r, kid, dst)
			changed = changed || c
		}
	case e5.Boolean:
		trues := []byte{0xFF, 0x02, 0x80, 0x7F, 0x10}
		for _, b := range n.Bytes {
			if b != 0 && r.IntN(4) != 0 {
				b = trues[r.IntN(len(trues))]
				changed = true
			}
			dst = append(dst, b)
		}
	default:
		dst = append(dst, n.Encode(nil)[1+nlb:]...)
	}

	return dst, changed
}

func (st *c15State) violate(key, msg string, cs any) {
	st.env.Event("violation_"+key, 1)
	if st.once.first(key) {
		st.env.Violate(key, msg, cs)
	}
}

// compare runs both oracles on one item.
func (st *c15State) compare(item secs2.Item, node *e5.Node, cs c15Case) {
	var a, b, c string
	var d []byte
	if p, stack := catchStack(func() {
		a = sml.Encode(item)
		b = item.ToSML()
		c = st.enc.Encode(item)
		d = st.enc.AppendEncode([]byte("pre"), item)
	}); p != nil {
		st.violate("panic:"+panicSite(stack), fmt.Sprintf("rendering panicked: %v", p), cs)
		return
	}
	if a != b {
		st.violate("differ:"+st.diffClass(item, node), fmt.Sprintf("sml.Encode(item) != item.ToSML()\n Encode: %q\n ToSML:  %q\n first difference at byte %d", clipAround(a, b), clipAround(b, a), firstDiff(a, b)), cs)
	}
	if c != a || string(d) != "pre"+a {
		st.violate("encoder-entrypoints-differ", fmt.Sprintf("sml.Encode, Encoder.Encode and AppendEncode disagree:\n %q\n %q\n %q", clipStr(a, 200), clipStr(c, 200), clipStr(string(d), 200)), cs)
	}
	// parse-back of numeric / boolean / binary leaves
	leaves := nodeLeaves(node, nil)
	items := itemLeaves(item, nil)
	if len(items) != len(leaves) {
		return // structure is C01's business
	}
	step := 1
	if len(leaves) > 12 {
		step = len(leaves) / 12
	}
	for k := 0; k < len(leaves); k += step {
		lf, li := leaves[k], items[k]
		switch lf.FC {
		case e5.ASCII, e5.JIS8, e5.Localized:
			continue
		}
		if lf.Count() > 70000 {
			continue
		}
		st.env.Event("leaves_parsed_back", 1)
		st.parseBack("ToSML", li.ToSML(), lf, cs)
		if ae := sml.Encode(li); ae != li.ToSML() {
			st.parseBack("Encode", ae, lf, cs)
		}
	}
}

func (st *c15State) parseBack(renderer, text string, lf *e5.Node, cs c15Case) {
	in := "S1F1 W\n" + text + "\n."
	name := strings.ToLower(e5.Name(lf.FC))
	for _, strict := range []bool{false, true} {
		var msgs []*hsms.DataMessage
		var err error
		if p, stack := catchStack(func() {
			if strict {
				msgs, err = sml.ParseStrict(in)
			} else {
				msgs, err = sml.Parse(in)
			}
		}); p != nil {
			st.violate("parseback-panic:"+panicSite(stack), fmt.Sprintf("parsing %s's rendering panicked: %v\n%q", renderer, p, clipStr(in, 300)), cs)
			return
		}
		if err != nil || len(msgs) != 1 {
			st.violate("parseback-rejected-"+name, fmt.Sprintf("the parser (strict=%v) does not read %s's rendering of a %s element back: err=%v, %d messages\n%q", strict, renderer, name, err, len(msgs), clipStr(in, 300)), cs)
			return
		}
		body, berr := msgs[0].Item()
		if berr != nil || body == nil {
			st.violate("parseback-rejected-"+name, fmt.Sprintf("parsed message has no body: %v", berr), cs)
			return
		}
		if cerr := itemcmp.Compare(body, lf, itemcmp.Mode{F4AtFloat32: true, NaNLoose: true}); cerr != nil {
			st.violate("parseback-value-"+name+c15ValueClass(lf), fmt.Sprintf("%s renders a %s element so that the parser (strict=%v) reads back a different value: %v\nrendering: %q", renderer, name, strict, cerr, clipStr(text, 300)), cs)
			return
		}
	}
}

// c15ValueClass names the class of float values in a leaf ("" for non-floats).
func c15ValueClass(lf *e5.Node) string {
	if lf.FC != e5.F4 && lf.FC != e5.F8 {
		return ""
	}
	special := false
	for i := range lf.Bits {
		if f := lf.Float(i); f != f || math.IsInf(f, 0) || f == 0 {
			special = true
		}
	}
	if special {
		return "-with-special-values"
	}

	return "-finite"
}

func itemLeaves(it secs2.Item, out []secs2.Item) []secs2.Item {
	if !it.IsList() {
		return append(out, it)
	}
	for c := range it.Items() {
		out = itemLeaves(c, out)
	}

	return out
}

// diffClass names the component whose two renderings differ: the first leaf kind that differs on
// its own, else the list layout.
func (st *c15State) diffClass(item secs2.Item, node *e5.Node) string {
	leaves := nodeLeaves(node, nil)
	items := itemLeaves(item, nil)
	if len(items) == len(leaves) {
		for k, li := range items {
			if sml.Encode(li) != li.ToSML() {
				shape := "multi"
				switch leaves[k].Count() {
				case 0:
					shape = "empty"
				case 1:
					shape = "single"
				}
				if leaves[k].FC == e5.Localized && len(leaves[k].Bytes) == 0 {
					shape = "empty"
				}

				return "leaf-" + strings.ToLower(e5.Name(leaves[k].FC)) + "-" + shape
			}
		}
	}
	if node.FC == e5.List && len(node.Kids) == 0 {
		return "empty-list"
	}

	return "list-layout"
}

func firstDiff(a, b string) int {
	n := min(len(a), len(b))
	for i := 0; i < n; i++ {
		if a[i] != b[i] {
			return i
		}
	}

	return n
}

// clipAround shows a around its first difference with b.
func clipAround(a, b string) string {
	d := firstDiff(a, b)
	lo := max(0, d-60)
	hi := min(len(a), d+60)
	s := a[lo:hi]
	if lo > 0 {
		s = "…" + s
	}
	if hi < len(a) {
		s += "…"
	}

	return s
}

// emptyChildren: lists that hold EmptyItem children, and the EmptyItem itself (error-free trees
// from public constructors that the generator's model cannot express).
func (st *c15State) emptyChildren() {
	E := secs2.NewEmptyItem
	shapes := []struct {
		name string
		it   secs2.Item
	}{
		{"empty-item", E()},
		{"L(empty)", secs2.L(E())},
		{"L(empty,A)", secs2.L(E(), secs2.A("x"))},
		{"L(U1,empty,L())", secs2.L(secs2.U1(1), E(), secs2.L())},
		{"L(L(empty))", secs2.L(secs2.L(E()))},
		{"L(L(empty),empty,L(L(empty,I2)))", secs2.L(secs2.L(E()), E(), secs2.L(secs2.L(E(), secs2.I2(-2, 3))))},
		{"L(empty,empty)", secs2.L(E(), E())},
		{"L(F8,empty,BOOLEAN)", secs2.L(secs2.F8(1.5), E(), secs2.BOOLEAN(true))},
		{"L(nil,empty,nil)", secs2.L(nil, E(), nil)},
	}
	for k, s := range shapes {
		if !st.env.Want(int64(2_000_000_000 + k)) {
			continue
		}
		st.env.Eval(fw.HashStr("emptychild", s.name), true)
		if s.it.Error() != nil {
			continue
		}
		st.env.Event("empty_item_child_trees", 1)
		cs := c15Case{Index: int64(2_000_000_000 + k), Family: "empty-item-children", Variant: "constructed", Tree: s.name}
		var a, b string
		if p, stack := catchStack(func() { a, b = sml.Encode(s.it), s.it.ToSML() }); p != nil {
			st.violate("panic:"+panicSite(stack), fmt.Sprintf("rendering %s panicked: %v", s.name, p), cs)
			continue
		}
		if a != b {
			st.violate("differ:empty-item-child", fmt.Sprintf("%s: sml.Encode != ToSML\n Encode: %q\n ToSML:  %q", s.name, a, b), cs)
		}
	}
}
