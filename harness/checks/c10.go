package checks

import (
	"context"
	"errors"
	"fmt"
	"os"
	"runtime"
	"strings"
	"sync"
	"sync/atomic"
	"time"

	"github.com/arloliu/go-secs/v2/hsms"
	"github.com/arloliu/go-secs/v2/secs2"

	"verif/fw"
	"verif/peer"
)

// C10 — Open/Close are safe from any state: bounded, idempotent, leak-free, reopenable.
func init() {
	fw.Register(&fw.Check{
		ID:    "C10",
		Level: "exploration",
		Rule: "program i = (role, 2..5 goroutines each executing a seed-generated list of 4..10 operations from {Open(background), Open(wait-selected, short ctx), Close, SendDataMessage W/noW, SendDataMessageAsync, " +
			"UpdateConfigOptions, pause}, concurrently with a peer script from {serve (connect+select+echo), connect without selecting, drop, reset, stall reading, refuse dials, connect while Close runs (gated Accept / delayed dial return)}, " +
			"vhook delays at the lifecycle points). After the goroutines end: Close, Close again, leak meters (goroutines with a library frame, harness-owned sockets/listeners without Close, dial/listen after Close), " +
			"then double-Open guard, reopen + round trip, Close. distinct = hash(program); non-trivial = the program contains a Close that overlaps another operation or a peer fault.",
		Assumptions: []string{
			"Close latency bound = close timeout (500 ms) + 5 s scheduling slack; a Close that exceeds it is reported, a Close that never returns is the shard watchdog's goroutine dump",
			"a goroutine counts as library-owned when any of its frames is in github.com/arloliu/go-secs/v2/; it is a leak only if it persists for 10 s after the final Close",
			"handlers registered by the harness return immediately",
		},
		Phases: func(tier string) []fw.Phase {
			return []fw.Phase{
				{Name: "programs", Race: true, Shards: 12, Timeout: tierDur(tier, 8, 45), HangIsViolation: true},
				// the same programs on the SECS-I transport against a raw TCP peer (c10_secs1.go)
				{Name: "programs-secs1", Race: true, Shards: 8, Timeout: tierDur(tier, 8, 45), HangIsViolation: true},
			}
		},
		Worker: func(env *fw.Env) {
			if env.Phase == "programs-secs1" {
				c10S1Worker(env)
			} else {
				c10Worker(env)
			}
		},
		RequiredEvents: []string{"programs", "ops", "close_calls", "close_overlapping_ops", "leak_checks_clean", "reopen_roundtrips", "double_open_refused", "connect_during_close",
			"s1_programs", "s1_ops", "s1_close_calls", "s1_leak_checks_clean", "s1_reopen_enq_seen", "double_open_while_connect_pending", "double_open_recovered"},
	})
}

type c10Case struct {
	Index   int64      `json:"index"`
	Active  bool       `json:"active"`
	Threads [][]string `json:"threads"`
	Peer    []string   `json:"peer_script"`
	Delays  bool       `json:"delay_injection"`
	Handler string     `json:"data_handler,omitempty"`
}

var c10Ops = []string{"open-bg", "open-wait", "close", "send-w", "send", "send-async", "update-config", "pause", "close", "send-w"}

var c10PeerOps = []string{"serve", "serve", "connect-only", "drop", "reset", "stall", "refuse", "late-connect", "pause", "primary", "primary"}

// data handlers always return (the property's premise); "slow" ones take 5..80 ms (close timeout 500 ms), "sends"
// ones reply and send from inside the handler
var c10Handlers = []string{"immediate", "slow", "sends"}

func c10Worker(env *fw.Env) {
	total := int64(env.Pick(360, 4000))
	for i := int64(0); i < total; i++ {
		if !env.Mine(i) || !env.Want(i) {
			continue
		}
		if env.Stop() {
			return
		}
		c10One(env, i)
	}
	// "Open on an already-open connection fails with the already-open error and NO SIDE EFFECTS": the
	// refused Open is issued while a reconnect (or the initial background connect) is pending
	base := int64(1_000_000)
	n := int64(0)
	for rep := 0; rep < env.Pick(2, 20); rep++ {
		for _, sit := range []string{"reconnect-pending", "initial-connect-pending"} {
			for _, active := range []bool{true, false} {
				if sit == "initial-connect-pending" && !active {
					continue // a passive Open never waits for a peer
				}
				i := base + n
				n++
				if !env.Mine(n) || !env.Want(i) {
					continue
				}
				c10DoubleOpen(env, i, sit, active, rep%2 == 1)
			}
		}
	}
	// Close while every write on the socket blocks (c10_blocked.go): all write-timeout settings x what is in flight
	base, n = 2_000_000, 0
	for rep := 0; rep < env.Pick(1, 6); rep++ {
		for _, wt := range []string{"disabled", "30s", "200ms"} {
			for _, fl := range []string{"nothing", "sender-blocked-in-write"} {
				for _, active := range []bool{true, false} {
					i := base + n
					n++
					if !env.Mine(n) || !env.Want(i) {
						continue
					}
					c10Blocked(env, c10BlockedCase{Index: i, Active: active, WriteTimeout: wt, InFlight: fl})
				}
			}
		}
	}
	// Close right after the reconnect loop published the next generation (c10_publish.go)
	base, n = 4_000_000, 0
	for rep := 0; rep < env.Pick(2, 8); rep++ {
		for _, active := range []bool{false, true} {
			i := base + n
			n++
			if !env.Mine(n) || !env.Want(i) {
				continue
			}
			c10CloseAfterPublish(env, c10PublishCase{Index: i, Active: active})
		}
	}
	// Close while TWO teardown phases run into their bound (c10_twophase.go)
	base, n = 5_000_000, 0
	for rep := 0; rep < env.Pick(1, 3); rep++ {
		for _, active := range []bool{true, false} {
			for _, slow := range []string{"handler+async-error-callback", "handler-only"} {
				i := base + n
				n++
				if !env.Mine(n) || !env.Want(i) {
					continue
				}
				c10TwoPhase(env, c10TwoPhaseCase{Index: i, Active: active, Slow: slow})
			}
		}
	}
	// Close while a dial is in flight and nothing comes back (c10_dial.go)
	base, n = 3_000_000, 0
	for rep := 0; rep < env.Pick(1, 4); rep++ {
		for _, tr := range []string{"hsmsss", "secs1"} {
			for _, when := range []string{"cold-open", "reconnect"} {
				i := base + n
				n++
				if !env.Mine(n) || !env.Want(i) {
					continue
				}
				c10BlackholeDial(env, c10DialCase{Index: i, Transport: tr, When: when})
			}
		}
	}
}

func c10DoubleOpen(env *fw.Env, i int64, sit string, active, delays bool) {
	cs := c10Case{Index: i, Active: active, Delays: delays, Peer: []string{"double-open:" + sit}}
	env.Begin(i, cs)
	env.Sample(cs)
	env.Eval(fw.HashStr("c10-double-open", sit, fmt.Sprint(active, delays)), true)
	rg, err := newRig(rigOpts{Active: active, T5: 40 * time.Millisecond, BackoffInit: 5 * time.Millisecond})
	if err != nil {
		env.Discard()
		return
	}
	if delays {
		undo := installDelays(env.Seed+uint64(i)*31, 600*time.Microsecond, 3, "hsms.connectLoop.afterPublish", "hsms.react.beforeTeardown", "hsms.teardown.afterCancel")
		defer func() { env.Event("delays_injected", undo()) }()
	}
	echo := func(c *peer.Conn, f peer.Frame) bool {
		if f.IsData() && f.WBit() {
			_ = c.Send(peer.Data(f.Stream(), f.Function()+1, false, f.Session, f.Sys, nil))
		}

		return !f.IsData()
	}
	var blocked atomic.Bool
	rg.Trk.SetFailDial(func(int) error {
		if blocked.Load() {
			return errors.New("harness: refused")
		}

		return nil
	})
	rg.Trk.SetFailListen(func(int) error {
		if blocked.Load() {
			return errors.New("harness: listen failed")
		}

		return nil
	})
	defer func() { _ = rg.Shutdown() }()
	if sit == "initial-connect-pending" {
		blocked.Store(true)
		if err := rg.Open(); err != nil {
			env.Violate("open-background-failed", "Open(background) with an unreachable peer: "+err.Error(), cs)
			return
		}
	} else {
		if err := rg.Open(); err != nil {
			env.Violate("open-failed", err.Error(), cs)
			return
		}
		pc, _, err := rg.NextGenRetry(echo, 5)
		if err != nil {
			env.Discard()
			return
		}
		blocked.Store(true)
		pc.Reset()
		defer pc.Close()
	}
	// the loop must be visibly running: at least two refused attempts since the block began
	a0 := rg.Trk.DialCount() + rg.Trk.ListenCount()
	if !waitFor(10*time.Second, func() bool { return rg.Trk.DialCount()+rg.Trk.ListenCount() >= a0+2 }) {
		env.Discard()
		return
	}
	if err := rg.Conn.Open(context.Background(), hsms.OpenBackground); !errors.Is(err, hsms.ErrAlreadyOpen) {
		env.Violate("double-open-not-refused", fmt.Sprintf("Open while the %s returned %v, want ErrAlreadyOpen", sit, err), cs)
		return
	}
	env.Event("double_open_while_connect_pending", 1)
	time.Sleep(10 * time.Millisecond)
	blocked.Store(false) // the peer is reachable again: the pending loop must still be there to connect
	pc2, _, err := rg.NextGenRetry(echo, 6)
	if err != nil {
		env.Violate("double-open-side-effects:pending-connect-lost", fmt.Sprintf("an Open that was refused with ErrAlreadyOpen while the %s stopped the connection from ever connecting again: %v; State()=%v Reconnecting()=%d dials=%d listens=%d",
			sit, err, rg.Conn.State(), rg.Conn.Metrics().Reconnecting(), rg.Trk.DialCount(), rg.Trk.ListenCount()), cs)
		return
	}
	defer pc2.Close()
	ctx, cancel := context.WithTimeout(context.Background(), 5*time.Second)
	rep, err := rg.Conn.SendDataMessage(ctx, 1, 1, true, secs2.A("after-double-open"))
	cancel()
	if err != nil || rep == nil {
		env.Violate("double-open-side-effects:session-broken", fmt.Sprintf("round trip after the refused Open: reply=%v err=%v", rep, err), cs)
		return
	}
	env.Event("double_open_recovered", 1)
}

// libGoroutines returns the stacks of goroutines that have a library frame.
func libGoroutines() []string {
	buf := make([]byte, 1<<20)
	for {
		n := runtime.Stack(buf, true)
		if n < len(buf) {
			buf = buf[:n]
			break
		}
		buf = make([]byte, 2*len(buf))
	}
	var out []string
	for _, g := range strings.Split(string(buf), "\n\n") {
		if strings.Contains(g, "github.com/arloliu/go-secs/v2/") {
			out = append(out, g)
		}
	}

	return out
}

func socketFDs() int {
	ents, err := os.ReadDir("/proc/self/fd")
	if err != nil {
		return -1
	}
	n := 0
	for _, e := range ents {
		if l, err := os.Readlink("/proc/self/fd/" + e.Name()); err == nil && strings.HasPrefix(l, "socket:") {
			n++
		}
	}

	return n
}

//nolint:gocyclo,cyclop // one lifecycle program with its post-conditions
func c10One(env *fw.Env, i int64) {
	r := env.RandAt("prog", i)
	cs := c10Case{Index: i, Active: i%2 == 0, Delays: r.IntN(2) == 0}
	nthreads := 2 + r.IntN(4)
	hasClose := false
	for t := 0; t < nthreads; t++ {
		var ops []string
		for k, n := 0, 4+r.IntN(7); k < n; k++ {
			op := c10Ops[r.IntN(len(c10Ops))]
			if op == "close" {
				hasClose = true
			}
			ops = append(ops, op)
		}
		cs.Threads = append(cs.Threads, ops)
	}
	for k, n := 0, 3+r.IntN(6); k < n; k++ {
		cs.Peer = append(cs.Peer, c10PeerOps[r.IntN(len(c10PeerOps))])
	}
	cs.Handler = c10Handlers[r.IntN(len(c10Handlers))]
	env.Begin(i, cs)
	env.Sample(cs)
	env.Eval(fw.HashStr("c10", fmt.Sprint(cs)), hasClose)
	env.Event("programs", 1)

	fdBefore := socketFDs()
	closeTimeout := 500 * time.Millisecond
	rg, err := newRig(rigOpts{Active: cs.Active, T3: 300 * time.Millisecond, T5: 30 * time.Millisecond, BackoffInit: 5 * time.Millisecond, T6: 200 * time.Millisecond,
		T7: 300 * time.Millisecond, T8: 300 * time.Millisecond, CloseTimeout: closeTimeout, WriteTimeout: 300 * time.Millisecond, ConnectTimeout: 300 * time.Millisecond})
	if err != nil {
		env.Discard()
		return
	}
	rg.Conn.AddDataMessageHandler(func(m *hsms.DataMessage, ep hsms.SECS2Endpoint) {
		env.Event("handler_invocations", 1)
		switch cs.Handler {
		case "slow":
			sb := m.SystemBytes()
			time.Sleep(time.Duration(5+splitmix(uint64(sb[3])+uint64(i)*131)%76) * time.Millisecond)
		case "sends":
			ctx, cancel := context.WithTimeout(context.Background(), 200*time.Millisecond)
			if m.WaitBit() {
				_ = ep.ReplyDataMessage(ctx, m, secs2.A("reply from the handler"))
			}
			_, _ = ep.SendDataMessage(ctx, 6, 11, false, secs2.A("event from the handler"))
			cancel()
		}
	})
	rg.Conn.AddConnStateChangeHandler(func(_, _ hsms.ConnState) {})
	if cs.Delays {
		undo := installDelays(env.Seed+uint64(i)*19, 800*time.Microsecond, 3, "hsms.teardown.afterCancel", "hsms.connectLoop.afterPublish", "hsms.react.beforeTeardown",
			"hsms.sup.beforeStep", "hsmsss.accept.adopted", "hsms.send.afterLoadEpoch", "hsms.drain.beforeWrite")
		defer func() { env.Event("delays_injected", undo()) }()
	}

	// ---- peer script, concurrent with the program ----
	var stopPeer atomic.Bool
	var refuse atomic.Bool
	var lateGate atomic.Bool // hold the next Accept / dial return until a Close is in progress
	var closing atomic.Int32
	rg.Trk.SetFailDial(func(int) error {
		if refuse.Load() {
			return errors.New("harness: refused")
		}

		return nil
	})
	hold := func() {
		if lateGate.CompareAndSwap(true, false) {
			// release when a Close is running (or after a bounded wait)
			if waitFor(200*time.Millisecond, func() bool { return closing.Load() > 0 }) {
				env.Event("connect_during_close", 1)
			}
		}
	}
	rg.Trk.SetDialDelay(func(int) time.Duration { hold(); return 0 })
	rg.Trk.AcceptGate = hold
	var peerConns []*peer.Conn
	var pmu sync.Mutex
	echo := func(c *peer.Conn, f peer.Frame) bool {
		if f.IsData() && f.WBit() {
			_ = c.Send(peer.Data(f.Stream(), f.Function()+1, false, f.Session, f.Sys, nil))
		}
		if f.PType == 0 && f.SType == peer.STLinktestReq {
			_ = c.Send(peer.LinktestRsp(f.Sys))
		}

		return f.PType == 0 && (f.SType == peer.STSelectReq || f.SType == peer.STSelectRsp)
	}
	connectPeer := func(sel bool) *peer.Conn {
		var pc *peer.Conn
		var err error
		if cs.Active {
			pc, err = rg.L.Accept(60 * time.Millisecond)
		} else {
			addr, e := rg.Trk.ListenAddr(20 * time.Millisecond)
			if e != nil {
				return nil
			}
			pc, err = peer.Dial(addr, 0, 100*time.Millisecond)
		}
		if err != nil {
			return nil
		}
		pc.OnFrame = echo
		pc.Start()
		pmu.Lock()
		peerConns = append(peerConns, pc)
		pmu.Unlock()
		if sel {
			_, _ = rg.PeerSelect(pc, 150*time.Millisecond)
		}

		return pc
	}
	var pwg sync.WaitGroup
	pwg.Add(1)
	go func() {
		defer pwg.Done()
		var cur *peer.Conn
		for k := 0; !stopPeer.Load(); k++ {
			op := cs.Peer[k%len(cs.Peer)]
			switch op {
			case "serve":
				if c := connectPeer(true); c != nil {
					cur = c
					if cs.Handler != "immediate" { // give the handlers something to be busy with when the program closes
						_ = c.Send(peer.Data(1, 13, true, 0x1234, 0x10110000|uint32(k&0xFFFF), nil), peer.Data(1, 13, false, 0x1234, 0x10120000|uint32(k&0xFFFF), nil))
						env.Event("peer_primaries", 2)
					}
				}
			case "connect-only":
				if c := connectPeer(false); c != nil {
					cur = c
				}
			case "drop":
				if cur != nil {
					cur.Close()
				}
			case "reset":
				if cur != nil {
					cur.Reset()
				}
			case "stall":
				if cur != nil {
					cur.StallReads(true)
				}
			case "refuse":
				refuse.Store(true)
				time.Sleep(time.Duration(2+k%7) * time.Millisecond)
				refuse.Store(false)
			case "late-connect":
				lateGate.Store(true)
				if c := connectPeer(true); c != nil {
					cur = c
				}
			case "primary":
				if cur != nil {
					_ = cur.Send(peer.Data(1, 13, k%2 == 0, 0x1234, 0x10100000|uint32(k&0xFFFF), nil))
					env.Event("peer_primaries", 1)
				}
			default:
				time.Sleep(time.Duration(1+k%5) * time.Millisecond)
			}
			time.Sleep(time.Duration(500+splitmix(uint64(i)*31+uint64(k))%4000) * time.Microsecond)
		}
	}()

	// ---- the program ----
	var inOps atomic.Int32
	var wg sync.WaitGroup
	violate := func(key, msg string) { env.Violate(key, msg, cs) }
	var lastCloseErr atomic.Pointer[error]
	doClose := func(tag string) {
		overlapping := inOps.Load() > 1
		closing.Add(1)
		t0 := time.Now()
		err := rg.Conn.Close()
		el := time.Since(t0)
		closing.Add(-1)
		env.Event("close_calls", 1)
		if overlapping {
			env.Event("close_overlapping_ops", 1)
		}
		if el > closeTimeout+5*time.Second {
			violate("close-too-slow", fmt.Sprintf("%s: Close took %v (close timeout %v + 5 s slack)", tag, el, closeTimeout))
		}
		if err != nil && !errors.Is(err, hsms.ErrNotOpen) && !errors.Is(err, hsms.ErrCloseTimeout) {
			violate("close-unexpected-error", fmt.Sprintf("%s: Close returned %v", tag, err))
		}
		// ErrCloseTimeout is a documented Close result (the bounded 500 ms join expired: a stalled peer plus
		// the farewell write, or the harness's own late-connect gate, can use it up); the property bounds
		// latency and forbids leaks, both judged separately, so it is only counted.
		if errors.Is(err, hsms.ErrCloseTimeout) {
			env.Event("close_returned_close_timeout", 1)
		}
		lastCloseErr.Store(&err)
	}
	for t := range cs.Threads {
		wg.Add(1)
		go func(t int) {
			defer wg.Done()
			for k, op := range cs.Threads[t] {
				inOps.Add(1)
				env.Event("ops", 1)
				ctx, cancel := context.WithTimeout(context.Background(), 3*time.Second)
				t0 := time.Now()
				var err error
				switch op {
				case "open-bg":
					err = rg.Conn.Open(ctx, hsms.OpenBackground)
					if err != nil && !errors.Is(err, hsms.ErrAlreadyOpen) && !strings.Contains(err.Error(), "listen") && !strings.Contains(err.Error(), "dial") && !strings.Contains(err.Error(), "stopping") {
						violate("open-unexpected-error", fmt.Sprintf("Open(background) returned %v", err))
					}
				case "open-wait":
					octx, ocancel := context.WithTimeout(ctx, 80*time.Millisecond)
					err = rg.Conn.Open(octx, hsms.OpenWaitSelected)
					ocancel()
				case "close":
					doClose(fmt.Sprintf("thread %d op %d", t, k))
				case "send-w":
					_, err = rg.Conn.SendDataMessage(ctx, 1, 1, true, secs2.A("c10"))
					if err == nil {
						env.Event("roundtrips_during_program", 1)
					}
				case "send":
					_, err = rg.Conn.SendDataMessage(ctx, 1, 3, false, secs2.U4(uint32(k)))
				case "send-async":
					err = rg.Conn.SendDataMessageAsync(ctx, 1, 5, false, secs2.L())
				case "update-config":
					err = rg.Conn.UpdateConfigOptions(hsms.WithT3(time.Duration(250+10*k)*time.Millisecond), hsms.WithT8(300*time.Millisecond))
					if err != nil {
						violate("update-config-error", err.Error())
					}
				default:
					time.Sleep(time.Duration(200+splitmix(uint64(i)*7+uint64(t*100+k))%3000) * time.Microsecond)
				}
				cancel()
				if el := time.Since(t0); el > 8*time.Second {
					violate("api-call-blocked", fmt.Sprintf("%s blocked for %v (T3 300 ms, ctx 3 s, close timeout 500 ms)", op, el))
				}
				inOps.Add(-1)
			}
		}(t)
	}
	wg.Wait()
	stopPeer.Store(true)
	pwg.Wait()

	// ---- final Close, idempotence, leaks ----
	doClose("final")
	if st := rg.Conn.State(); st != hsms.NotConnectedState {
		env.ViolateFor("C05", "e2e-state-after-close-"+st.String(), fmt.Sprintf("State()==%v right after Close returned", st), cs)
	}
	t0 := time.Now()
	err2 := rg.Conn.Close()
	if el := time.Since(t0); el > 2*time.Second {
		violate("second-close-slow", fmt.Sprintf("a second Close took %v", el))
	}
	// idempotent: the second Close returns what the first (final) one returned
	if first := *lastCloseErr.Load(); (err2 == nil) != (first == nil) || (err2 != nil && err2.Error() != first.Error()) {
		violate("close-not-idempotent", fmt.Sprintf("the final Close returned %v, a second Close returned %v", first, err2))
	}
	dials, listens := rg.Trk.DialCount(), rg.Trk.ListenCount()
	var leaked []string
	if !waitFor(10*time.Second, func() bool { leaked = libGoroutines(); return len(leaked) == 0 }) {
		violate("goroutine-leak", fmt.Sprintf("%d goroutine(s) with library frames are still alive 10 s after Close returned, e.g.\n%s", len(leaked), firstN(leaked[0], 1200)))
	}
	pmu.Lock()
	for _, c := range peerConns {
		c.Close()
	}
	pmu.Unlock()
	if c, l := rg.Trk.Unclosed(); c != 0 || l != 0 {
		if !waitFor(3*time.Second, func() bool { c, l = rg.Trk.Unclosed(); return c == 0 && l == 0 }) {
			violate("socket-leak", fmt.Sprintf("after Close returned %d socket(s) and %d listener(s) handed to the library were never closed", c, l))
		}
	}
	time.Sleep(60 * time.Millisecond)
	if d, l := rg.Trk.DialCount(), rg.Trk.ListenCount(); d != dials || l != listens {
		violate("reconnect-after-close", fmt.Sprintf("after Close returned the library dialed/listened again (dials %d->%d, listens %d->%d)", dials, d, listens, l))
	}
	if len(leaked) == 0 {
		env.Event("leak_checks_clean", 1)
	}
	if st := rg.Conn.State(); st != hsms.NotConnectedState {
		env.ViolateFor("C05", "e2e-state-after-close-"+st.String(), fmt.Sprintf("State()==%v some time after Close returned", st), cs)
	}

	// ---- reopen: behaves like a fresh connection; double Open is refused without side effects ----
	rg.Trk.SetFailDial(nil)
	rg.Trk.SetDialDelay(nil)
	rg.Trk.AcceptGate = nil
	rg.listenSeen = rg.Trk.ListenCount()
	if rg.L != nil { // connections the library dialed during the program that the peer never accepted
		env.Event("stale_backlog_connections_drained", int64(rg.L.Drain()))
	}
	// the reopened connection is judged on function, not on the program's hostile timers
	// (a 300 ms write timeout expires between arming and writev when a loaded machine deschedules the sender that long)
	_ = rg.Conn.UpdateConfigOptions(hsms.WithT3(5*time.Second), hsms.WithT6(5*time.Second), hsms.WithT7(10*time.Second), hsms.WithT8(5*time.Second), hsms.WithWriteTimeout(10*time.Second))
	var pc *peer.Conn
	err = rg.Open()
	if err == nil {
		var missed int
		pc, missed, err = rg.NextGenRetry(echo, 8)
		env.Event("reopen_generations_missed_by_peer", int64(missed))
	}
	if err != nil {
		violate("reopen-failed", fmt.Sprintf("after the program and Close, Open + select did not yield a Selected session: %v", err))
		_ = rg.Shutdown()
		return
	}
	d0, l0 := rg.Trk.DialCount(), rg.Trk.ListenCount()
	if err := rg.Conn.Open(context.Background(), hsms.OpenBackground); !errors.Is(err, hsms.ErrAlreadyOpen) {
		violate("double-open-not-refused", fmt.Sprintf("Open on an open connection returned %v, want ErrAlreadyOpen", err))
	} else {
		env.Event("double_open_refused", 1)
	}
	ctx, cancel := context.WithTimeout(context.Background(), 5*time.Second)
	rep, err := rg.Conn.SendDataMessage(ctx, 1, 1, true, secs2.A("after-reopen"))
	cancel()
	if err != nil || rep == nil {
		violate("reopened-connection-broken", fmt.Sprintf("round trip on the reopened connection: reply=%v err=%v", rep, err))
	} else {
		env.Event("reopen_roundtrips", 1)
	}
	if d, l := rg.Trk.DialCount(), rg.Trk.ListenCount(); d != d0 || l != l0 {
		violate("double-open-side-effects", fmt.Sprintf("the refused second Open caused a dial/listen (dials %d->%d, listens %d->%d)", d0, d, l0, l))
	}
	doClose("after-reopen")
	pc.Close()
	if rg.L != nil {
		rg.L.Close()
	}
	if !waitFor(10*time.Second, func() bool { leaked = libGoroutines(); return len(leaked) == 0 }) {
		violate("goroutine-leak", fmt.Sprintf("%d library goroutine(s) alive 10 s after the last Close, e.g.\n%s", len(leaked), firstN(leaked[0], 1200)))
	}
	if fdAfter := socketFDs(); fdBefore >= 0 && fdAfter > fdBefore {
		if !waitFor(3*time.Second, func() bool { fdAfter = socketFDs(); return fdAfter <= fdBefore }) {
			violate("fd-leak", fmt.Sprintf("socket file descriptors of the process: %d before the program, %d after the last Close", fdBefore, fdAfter))
		}
	}
}

func firstN(s string, n int) string {
	if len(s) > n {
		return s[:n] + "…"
	}

	return s
}
