package checks

import (
	"bytes"
	"fmt"
	"sync"
	"sync/atomic"

	"github.com/arloliu/go-secs/v2/hsms"
	"github.com/arloliu/go-secs/v2/secs2"

	"verif/fw"
)

// Encode-at-most-once monitor ("lazy body ... encoding happens at most once per message however
// many copies and callers share it"). The body of a constructed message is a secs2.Item, which is
// a public interface: the harness hands NewDataMessage a wrapper that delegates everything to a
// real item and counts the calls of the two encoders (AppendTo, ToBytes). Whatever serializers run
// on the message and on its re-stamped copies, from however many goroutines, the wrapper must have
// been asked to encode at most once, and every body must be the item's own encoding.

const c12OnceBase = int64(3_000_000_000)

type c12CountingItem struct {
	secs2.Item
	n *atomic.Int64
}

func (c c12CountingItem) AppendTo(dst []byte) []byte {
	c.n.Add(1)

	return c.Item.AppendTo(dst)
}

func (c c12CountingItem) ToBytes() []byte {
	c.n.Add(1)

	return c.Item.ToBytes()
}

type c12OnceCase struct {
	Index   int64  `json:"index"`
	Kind    string `json:"kind"`
	Payload int    `json:"payload_bytes"`
	BodyLen int    `json:"body_len"`
	First   string `json:"first_serializer"`
	Readers int    `json:"goroutines"`
}

var c12OnceSizes = []int{0, 1, 4, 250, 251, 252, 255, 256, 300, 4000, 65000, 65529, 65530, 65531, 65532, 65533, 65534, 65535, 65536, 65537, 70000, 131072, 200000}

func c12EncodeOnce(env *fw.Env) {
	total := int64(env.Pick(192, 3200))
	kinds := []string{"binary", "ascii", "u4", "list-of-binary"}
	firsts := []string{"ToBytes", "MarshalBinary", "AppendBodyTo", "concurrent"}
	for j := int64(0); j < total; j++ {
		idx := c12OnceBase + j
		if !env.Mine(j) || !env.Want(idx) {
			continue
		}
		if env.Stop() {
			break
		}
		r := env.RandAt("once", j)
		size := c12OnceSizes[int(j)%len(c12OnceSizes)]
		if (j/int64(len(c12OnceSizes)))%3 == 2 {
			size = r.IntN(300000)
		}
		kind := kinds[int(j/3)%len(kinds)]
		first := firsts[int(j/5)%len(firsts)]
		payload := make([]byte, size)
		for k := range payload {
			payload[k] = byte(r.Uint32())
		}
		var inner secs2.Item
		switch kind {
		case "binary":
			inner = secs2.NewBinaryItem(payload)
		case "ascii":
			for k := range payload {
				payload[k] = 0x20 + payload[k]%0x5f
			}
			inner = secs2.NewASCIIItem(string(payload))
		case "u4":
			vals := make([]uint32, size/4)
			for k := range vals {
				vals[k] = r.Uint32()
			}
			inner = secs2.NewUintItem(4, vals)
		default:
			half := size / 2
			inner = secs2.NewListItem(secs2.NewBinaryItem(payload[:half]), secs2.NewListItem(), secs2.NewBinaryItem(payload[half:]))
		}
		if inner.Error() != nil {
			env.Discard()
			continue
		}
		want := inner.ToBytes()
		var n atomic.Int64
		msg, err := hsms.NewDataMessage(byte(1+r.IntN(127)), 1, true, uint16(r.IntN(0x8000)), [4]byte{0, 0, 0, byte(j)}, c12CountingItem{Item: inner, n: &n})
		cs := c12OnceCase{Index: idx, Kind: kind, Payload: size, BodyLen: len(want), First: first, Readers: 8}
		if err != nil {
			env.Violate("encode-once:constructor-refused", fmt.Sprintf("NewDataMessage refused an error-free item behind a delegating wrapper: %v", err), cs)
			continue
		}
		env.Eval(fw.Hash64([]byte(kind+first), []byte(fmt.Sprint(len(want)))), true)
		env.Sample(cs)
		env.Event("encode_once_cases", 1)
		if len(want) > 65536 {
			env.Event("encode_once_cases_body_over_64k", 1)
		}
		copies := []*hsms.DataMessage{msg, msg.WithID(uint32(j) + 7), msg.WithSessionID(9), msg.WithSystemBytes([4]byte{1, 2, 3, 4})}
		var bad atomic.Int64
		serial := func(m *hsms.DataMessage, which int) {
			var body []byte
			switch which % 3 {
			case 0:
				body = m.ToBytes()[14:]
			case 1:
				b, merr := m.Codec().MarshalBinary()
				if merr != nil || len(b) < 14 {
					bad.Add(1)
					return
				}
				body = b[14:]
			default:
				body = m.AppendBodyTo(nil)
			}
			if !bytes.Equal(body, want) {
				bad.Add(1)
			}
			env.Event("encode_once_serializations", 1)
		}
		switch first {
		case "ToBytes":
			serial(copies[r.IntN(len(copies))], 0)
		case "MarshalBinary":
			serial(copies[r.IntN(len(copies))], 1)
		case "AppendBodyTo":
			serial(copies[r.IntN(len(copies))], 2)
		}
		afterFirst := n.Load()
		var wg sync.WaitGroup
		start := make(chan struct{})
		for g := 0; g < cs.Readers; g++ {
			wg.Add(1)
			go func(g int) {
				defer wg.Done()
				<-start
				m := copies[g%len(copies)]
				for w := 0; w < 3; w++ {
					serial(m, g+w)
				}
			}(g)
		}
		close(start)
		wg.Wait()
		if got := n.Load(); got > 1 {
			key := "encode-once:body-encoded-more-than-once"
			if len(want) > 65536 {
				key += ":body-over-64k"
			}
			env.Violate(key, fmt.Sprintf("the item of one constructed message was asked to encode %d times (%d after the first serializer, then 8 goroutines x 3 serializers over the message and its WithID/WithSessionID/WithSystemBytes copies); at most once is allowed", got, afterFirst), cs)
		}
		if bad.Load() > 0 {
			env.Violate("encode-once:body-differs", fmt.Sprintf("%d serializations did not carry the item's own encoding", bad.Load()), cs)
		}
	}
}
