package checks

import (
	"context"
	"errors"
	"fmt"
	"math/rand/v2"
	"sync"
	"sync/atomic"
	"time"

	"github.com/arloliu/go-secs/v2/hsms"
	"github.com/arloliu/go-secs/v2/hsmsss"

	"verif/peer"
)

// rigOpts configures a real hsmsss connection wired to harness-owned sockets.
type rigOpts struct {
	Active          bool
	Equip           bool
	T3, T5, T6, T7  time.Duration
	T8              time.Duration
	Linktest        time.Duration
	LinktestFails   int
	Suppress        *bool
	CloseTimeout    time.Duration
	WriteTimeout    time.Duration
	BackoffInit     time.Duration
	BackoffMult     float64
	SessionID       uint16
	ValidateSession bool
	QueueSize       int
	ConnectTimeout  time.Duration
	Extra           []hsms.ConnOption
}

// rig is one library connection plus the scripted peer's side of the plumbing.
type rig struct {
	Conn hsmsss.Connection
	Core hsms.Connection
	Trk  *peer.Tracker
	Log  *peer.CapLogger
	L    *peer.Listener // active library: the peer listens here
	o    rigOpts
	gen  int

	listenSeen int // passive: ListenFunc calls consumed by earlier generations
}

func (o *rigOpts) defaults() {
	def := func(d *time.Duration, v time.Duration) {
		if *d == 0 {
			*d = v
		}
	}
	def(&o.T3, 10*time.Second)
	def(&o.T5, 50*time.Millisecond)
	def(&o.T6, 10*time.Second)
	def(&o.T7, 30*time.Second)
	def(&o.T8, 5*time.Second)
	def(&o.CloseTimeout, 3*time.Second)
	def(&o.WriteTimeout, 10*time.Second)
	def(&o.BackoffInit, 5*time.Millisecond)
	if o.BackoffMult == 0 {
		o.BackoffMult = 2
	}
	if o.SessionID == 0 {
		o.SessionID = 0x1234
	}
}

func newRig(o rigOpts) (*rig, error) {
	o.defaults()
	if o.WriteTimeout < 0 { // a negative value asks for the documented "no write bound" (WithWriteTimeout(0))
		o.WriteTimeout = 0
	}
	r := &rig{Trk: &peer.Tracker{}, Log: &peer.CapLogger{}, o: o}
	port := 1
	if o.Active {
		l, err := peer.Listen()
		if err != nil {
			return nil, err
		}
		r.L = l
		port = l.Port()
	}
	co := []hsms.ConnOption{
		hsms.WithT3(o.T3), hsms.WithT5(o.T5), hsms.WithT6(o.T6), hsms.WithT7(o.T7), hsms.WithT8(o.T8),
		hsms.WithCloseTimeout(o.CloseTimeout), hsms.WithWriteTimeout(o.WriteTimeout),
		hsms.WithReconnectBackoff(o.BackoffInit, o.BackoffMult), hsms.WithSessionID(o.SessionID),
		hsms.WithLogger(r.Log), hsms.WithLinktestInterval(o.Linktest), hsms.WithSessionIDValidation(o.ValidateSession),
	}
	if o.LinktestFails > 0 {
		co = append(co, hsms.WithLinktestFailThreshold(o.LinktestFails))
	}
	if o.Suppress != nil {
		co = append(co, hsms.WithLinktestSuppression(*o.Suppress))
	}
	if o.QueueSize > 0 {
		co = append(co, hsms.WithSenderQueueSize(o.QueueSize))
	}
	co = append(co, o.Extra...)
	opts := []hsmsss.Option{hsmsss.WithDialer(r.Trk.DialFunc), hsmsss.WithListener(r.Trk.ListenFunc)}
	if o.Active {
		opts = append(opts, hsmsss.WithActive())
	} else {
		opts = append(opts, hsmsss.WithPassive())
	}
	if o.Equip {
		opts = append(opts, hsmsss.WithEquipRole())
	} else {
		opts = append(opts, hsmsss.WithHostRole())
	}
	if o.ConnectTimeout > 0 {
		opts = append(opts, hsmsss.WithConnectTimeout(o.ConnectTimeout))
	}
	for _, c := range co {
		opts = append(opts, hsmsss.WithConnectionOption(c))
	}
	cfg, err := hsmsss.NewConfig(peer.LoopHost, port, opts...)
	if err != nil {
		return nil, fmt.Errorf("NewConfig: %w", err)
	}
	conn, err := hsmsss.New(cfg)
	if err != nil {
		return nil, fmt.Errorf("hsmsss.New: %w", err)
	}
	r.Conn = conn
	r.Core = hsmsss.VerifCore(conn)

	return r, nil
}

// PeerConnect establishes the next TCP generation from the peer's point of view (Conn not started).
func (r *rig) PeerConnect(d time.Duration) (*peer.Conn, error) {
	if r.o.Active {
		pc, err := r.L.Accept(d)
		if err != nil {
			return nil, err
		}
		r.gen++
		pc.Gen = r.gen

		return pc, nil
	}
	// each generation of a passive library is one ListenFunc call: wait for a listener that is newer
	// than the one the previous generation used (an older one may still be refusing in its teardown)
	if !waitFor(d, func() bool { return r.Trk.ListenCount() > r.listenSeen }) {
		return nil, errors.New("peer: the passive library did not listen again")
	}
	seen := r.Trk.ListenCount()
	addr, err := r.Trk.ListenAddr(d)
	if err != nil {
		return nil, err
	}
	var last error
	deadline := time.Now().Add(d)
	for time.Now().Before(deadline) {
		pc, err := peer.Dial(addr, r.gen+1, time.Second)
		if err == nil {
			r.gen++
			r.listenSeen = seen
			return pc, nil
		}
		last = err
		time.Sleep(2 * time.Millisecond)
	}

	return nil, fmt.Errorf("peer dial %s: %w", addr, last)
}

// PeerSelect completes the select procedure from the peer side on a STARTED Conn: for an active
// library it answers the library's Select.req with status 0; for a passive one it sends Select.req
// and waits for Select.rsp. It returns the library's Select.req system bytes (active) or 0.
func (r *rig) PeerSelect(pc *peer.Conn, d time.Duration) (uint32, error) {
	if r.o.Active {
		f, _, err := pc.Expect(d, func(f peer.Frame) bool { return f.PType == 0 && f.SType == peer.STSelectReq })
		if err != nil {
			return 0, fmt.Errorf("waiting for the library's Select.req: %w", err)
		}

		return f.Sys, pc.Send(peer.SelectRsp(f.Session, 0, f.Sys))
	}
	sys := uint32(0x5E1E0000) | uint32(pc.Gen)
	if err := pc.Send(peer.SelectReq(r.o.SessionID, sys)); err != nil {
		return 0, err
	}
	f, _, err := pc.Expect(d, func(f peer.Frame) bool { return f.PType == 0 && f.SType == peer.STSelectRsp && f.Sys == sys })
	if err != nil {
		return 0, fmt.Errorf("waiting for Select.rsp: %w", err)
	}
	if f.B3 != 0 {
		return 0, fmt.Errorf("Select.rsp status %d", f.B3)
	}

	return 0, nil
}

// Open opens the library side in the background.
func (r *rig) Open() error { return r.Conn.Open(context.Background(), hsms.OpenBackground) }

// Establish = Open + PeerConnect + Start + PeerSelect + wait Selected.
func (r *rig) Establish(onFrame func(*peer.Conn, peer.Frame) bool) (*peer.Conn, error) {
	if err := r.Open(); err != nil {
		return nil, fmt.Errorf("Open: %w", err)
	}

	return r.NextGen(onFrame)
}

// NextGen accepts/dials the next generation and selects it.
func (r *rig) NextGen(onFrame func(*peer.Conn, peer.Frame) bool) (*peer.Conn, error) {
	pc, err := r.PeerConnect(10 * time.Second)
	if err != nil {
		return nil, err
	}
	pc.OnFrame = onFrame
	if onFrame != nil {
		// the select exchange itself must be visible to PeerSelect: wrap so control frames are queued
		pc.OnFrame = func(c *peer.Conn, f peer.Frame) bool {
			if f.PType == 0 && (f.SType == peer.STSelectReq || f.SType == peer.STSelectRsp) {
				return true
			}

			return onFrame(c, f)
		}
	}
	pc.Start()
	if _, err := r.PeerSelect(pc, 10*time.Second); err != nil {
		pc.Close()
		return nil, err
	}
	if !waitState(r.Conn, hsms.SelectedState, 10*time.Second) {
		pc.Close()
		return nil, errors.New("library did not reach Selected")
	}

	return pc, nil
}

// NextGenRetry is NextGen tolerant of generations the library has already given up on (a connection
// that sat in the listen backlog past the library's timers, a connect refused by a generation that is
// still tearing down): it takes the next one, up to attempts times. missed counts the skipped ones.
func (r *rig) NextGenRetry(onFrame func(*peer.Conn, peer.Frame) bool, attempts int) (pc *peer.Conn, missed int, err error) {
	for a := 0; a < attempts; a++ {
		pc, err = r.PeerConnect(10 * time.Second)
		if err != nil {
			return nil, missed, err
		}
		inner := onFrame
		pc.OnFrame = func(c *peer.Conn, f peer.Frame) bool {
			if f.PType == 0 && (f.SType == peer.STSelectReq || f.SType == peer.STSelectRsp) {
				return true
			}
			if inner == nil {
				return true
			}

			return inner(c, f)
		}
		pc.Start()
		if _, err = r.PeerSelect(pc, 3*time.Second); err == nil {
			ok := waitFor(10*time.Second, func() bool {
				select {
				case <-pc.Done():
					return true
				default:
				}

				return r.Conn.State() == hsms.SelectedState
			})
			if ok && r.Conn.State() == hsms.SelectedState {
				return pc, missed, nil
			}
			err = errors.New("library did not reach Selected")
		}
		missed++
		pc.Close()
	}

	return nil, missed, err
}

// Shutdown closes the library connection and the peer listener.
func (r *rig) Shutdown() error {
	err := r.Conn.Close()
	if r.L != nil {
		r.L.Close()
	}

	return err
}

func waitState(c hsms.Connection, want hsms.ConnState, d time.Duration) bool {
	deadline := time.Now().Add(d)
	for {
		if c.State() == want {
			return true
		}
		if time.Now().After(deadline) {
			return false
		}
		time.Sleep(200 * time.Microsecond)
	}
}

func waitFor(d time.Duration, cond func() bool) bool {
	deadline := time.Now().Add(d)
	for {
		if cond() {
			return true
		}
		if time.Now().After(deadline) {
			return false
		}
		time.Sleep(300 * time.Microsecond)
	}
}

// ---------------------------------------------------------------------------------------------
// vhook delay scheduler: seed-determined 0..max sleeps at named points.

type hookDelays struct {
	ctr  atomic.Uint64
	seed uint64
	hits atomic.Int64
}

func splitmix(x uint64) uint64 {
	x += 0x9E3779B97F4A7C15
	x = (x ^ (x >> 30)) * 0xBF58476D1CE4E5B9
	x = (x ^ (x >> 27)) * 0x94D049BB133111EB

	return x ^ (x >> 31)
}

// installDelays installs a sleeping callback on each named point: with probability num/8 a sleep of
// 0..max. It returns a function that removes them and reports how many delays were injected.
func installDelays(seed uint64, max time.Duration, num int, points ...string) (remove func() int64) {
	h := &hookDelays{seed: seed}
	for _, p := range points {
		hsms.VerifSetHook(p, func(time.Duration) {
			x := splitmix(h.seed ^ h.ctr.Add(1))
			if int(x&7) >= num {
				return
			}
			h.hits.Add(1)
			d := time.Duration((x >> 8) % uint64(max+1))
			if d < 20*time.Microsecond {
				yieldNow()
				return
			}
			time.Sleep(d)
		})
	}

	return func() int64 {
		for _, p := range points {
			hsms.VerifSetHook(p, nil)
		}

		return h.hits.Load()
	}
}

func yieldNow() { time.Sleep(0) }

// ---------------------------------------------------------------------------------------------

// deliveryLog records handler invocations in order (handlers run inline on the receive goroutine).
type deliveryLog struct {
	mu  sync.Mutex
	evs []delivery
}

type delivery struct {
	At     time.Duration
	Sys    uint32
	Stream byte
	Func   byte
	W      bool
	Sess   uint16
	Body   []byte
}

func (d *deliveryLog) handler(id int) hsms.DataMessageHandler {
	return func(m *hsms.DataMessage, _ hsms.SECS2Endpoint) {
		sb := m.SystemBytes()
		ev := delivery{At: peer.Now(), Sys: uint32(sb[0])<<24 | uint32(sb[1])<<16 | uint32(sb[2])<<8 | uint32(sb[3]),
			Stream: m.Stream(), Func: m.Function(), W: m.WaitBit(), Sess: m.SessionID()}
		if b := m.ToBytes(); len(b) >= 14 {
			ev.Body = append([]byte(nil), b[14:]...)
		}
		d.mu.Lock()
		d.evs = append(d.evs, ev)
		d.mu.Unlock()
		_ = id
	}
}

func (d *deliveryLog) snapshot() []delivery {
	d.mu.Lock()
	defer d.mu.Unlock()

	return append([]delivery(nil), d.evs...)
}

func randBytes(r *rand.Rand, n int) []byte {
	b := make([]byte, n)
	for i := range b {
		b[i] = byte(r.IntN(256))
	}

	return b
}
