package checks

import (
	"bytes"
	"context"
	"fmt"
	"math/rand/v2"
	"runtime"
	"sort"
	"time"

	"github.com/arloliu/go-secs/v2/hsms"
	"github.com/arloliu/go-secs/v2/secs2"

	"verif/fw"
	"verif/peer"
)

// C04 stream half: a byte-level peer feeds a real connection with valid frame streams in hostile
// segmentations, idle gaps, in-frame stalls and adversarial length fields.
func init() { c04ExtraPhases["stream"] = c04Stream }

type c04StreamCase struct {
	Index  int64  `json:"index"`
	Kind   string `json:"kind"`
	Active bool   `json:"active"`
	Frames int    `json:"frames"`
	Bytes  int    `json:"stream_bytes"`
	Cuts   []int  `json:"cuts,omitempty"`
	Note   string `json:"note,omitempty"`
}

func c04Stream(env *fw.Env) {
	type job struct {
		kind string
		arg  int
	}
	var jobs []job
	for cut := 1; cut <= 14; cut++ { // every cut position inside the first 14 bytes
		jobs = append(jobs, job{"cut-prefix", cut})
	}
	for k := 0; k < env.Pick(10, 120); k++ {
		jobs = append(jobs, job{"random-splits", k})
	}
	for k := 0; k < env.Pick(3, 30); k++ {
		jobs = append(jobs, job{"dribble", k})
	}
	for k := 0; k < env.Pick(2, 12); k++ {
		jobs = append(jobs, job{"idle-gap", k})
	}
	for _, off := range []int{1, 2, 3, 4, 5, 9, 13, 14, 15, 40} { // in-frame stall offsets (1..3 are inside the length field)
		jobs = append(jobs, job{"stall", off})
	}
	for _, off := range []int{2, 4, 9, 40} {
		jobs = append(jobs, job{"stall+local-writes", off})
	}
	for k := 0; k < env.Pick(2, 8); k++ {
		jobs = append(jobs, job{"short-then-long-gap", k})
	}
	for k := 0; k < env.Pick(2, 10); k++ {
		jobs = append(jobs, job{"slow-steady", k})
	}
	for _, l := range []uint32{0, 1, 9, 1<<24 - 1 + 1, 1 << 28, 1<<31 - 1, 1 << 31, 1<<32 - 1} {
		jobs = append(jobs, job{"bad-length", int(l)})
	}
	// a too-short length field followed by that many bytes and then a perfectly valid frame: a reader that merely
	// skips the short "frame" resynchronises on the valid one and keeps the link
	for _, l := range []uint32{0, 1, 2, 4, 9} {
		jobs = append(jobs, job{"bad-length+valid-frame", int(l)})
	}
	// the two largest well-formed frames on a LIVE connection (the decode half holds the same inputs against the pure
	// decoders): a length field of cap-1 and of exactly cap = 2^24-1 is a valid frame and must be delivered
	for _, l := range []int{1<<24 - 2, 1<<24 - 1} {
		jobs = append(jobs, job{"cap-boundary", l})
	}
	for i, j := range jobs {
		if !env.Mine(int64(i)) || !env.Want(int64(i)) {
			continue
		}
		if env.Stop() {
			return
		}
		c04StreamOne(env, int64(i), j.kind, j.arg)
	}
}

// c04MakeStream builds n frames: data frames with bodies of varied size and a few Linktest.req.
func c04MakeStream(r *rand.Rand, n int, maxBody int) (stream []byte, data []peer.Frame, linktests []uint32) {
	for k := 0; k < n; k++ {
		if r.IntN(6) == 0 {
			sys := 0x17000000 | uint32(k)
			linktests = append(linktests, sys)
			stream = append(stream, peer.LinktestReq(sys).Bytes()...)

			continue
		}
		size := []int{0, 1, 10, 200, 4000, maxBody}[r.IntN(6)]
		var body []byte
		if size > 0 {
			payload := randBytes(r, size)
			switch {
			case size < 256:
				body = append([]byte{0x21, byte(size)}, payload...)
			case size < 65536:
				body = append([]byte{0x22, byte(size >> 8), byte(size)}, payload...)
			default:
				body = append([]byte{0x23, byte(size >> 16), byte(size >> 8), byte(size)}, payload...)
			}
		}
		fn := byte(r.IntN(256))
		f := peer.Data(byte(1+r.IntN(127)), fn, fn%2 == 1 && r.IntN(2) == 0, uint16(r.IntN(65536)), 0x18000000|uint32(k)<<8|uint32(r.IntN(256)), body)
		data = append(data, f)
		stream = append(stream, f.Bytes()...)
	}

	return stream, data, linktests
}

//nolint:gocyclo,cyclop // one stream scenario and its verdicts
func c04StreamOne(env *fw.Env, i int64, kind string, arg int) {
	r := env.RandAt("stream", i)
	cs := c04StreamCase{Index: i, Kind: kind, Active: i%2 == 0}
	t8 := 400 * time.Millisecond
	switch kind {
	case "idle-gap", "stall", "stall+local-writes":
		t8 = 100 * time.Millisecond
	case "slow-steady":
		t8 = 300 * time.Millisecond
	case "short-then-long-gap":
		t8 = 2 * time.Second // 7 % of it (140 ms) is the margin this case keeps to T8 on a loaded machine
	}
	rg, err := newRig(rigOpts{Active: cs.Active, T8: t8})
	if err != nil {
		env.Discard()
		return
	}
	dl := &deliveryLog{}
	rg.Conn.AddDataMessageHandler(dl.handler(0))
	pc, err := rg.Establish(nil)
	if err != nil {
		env.Note("establish: %v", err)
		env.Discard()
		_ = rg.Shutdown()
		return
	}
	defer func() { pc.Close(); _ = rg.Shutdown() }()
	fail := func(key, msg string) { env.Violate(key, msg, cs) }

	checkDelivered := func(want []peer.Frame) bool {
		got := dl.snapshot()
		if len(got) != len(want) {
			fail("stream-deliveries-differ:"+kind, fmt.Sprintf("%d messages delivered, %d sent", len(got), len(want)))
			return false
		}
		for k := range want {
			g, w := got[k], want[k]
			if g.Sys != w.Sys || g.Stream != w.Stream() || g.Func != w.Function() || g.W != w.WBit() || g.Sess != w.Session || !bytes.Equal(g.Body, w.Body) {
				fail("stream-message-altered:"+kind, fmt.Sprintf("delivery %d is S%dF%d sys %08x body %dB; sent %v", k, g.Stream, g.Func, g.Sys, len(g.Body), w))
				return false
			}
		}
		env.Event("stream_messages_delivered_identical", int64(len(want)))

		return true
	}

	switch kind {
	case "cap-boundary":
		bodyLen := arg - 10
		body := make([]byte, bodyLen) // one Binary item with a 3-byte length: 0x23 len len len payload
		body[0] = 0x23
		pl := bodyLen - 4
		body[1], body[2], body[3] = byte(pl>>16), byte(pl>>8), byte(pl)
		for k := 4; k < len(body); k += 4093 {
			body[k] = byte(k)
		}
		f := peer.Data(7, 3, false, 0x1234, 0xCA9B0000|uint32(arg&0xFFFF), body)
		cs.Frames, cs.Bytes, cs.Note = 1, arg+4, fmt.Sprintf("length field %d (cap = %d)", arg, 1<<24-1)
		env.Begin(i, cs)
		env.Sample(cs)
		env.Eval(fw.HashStr("cap-boundary", fmt.Sprint(arg)), true)
		if err := pc.Send(f); err != nil {
			fail("cap-boundary-link-dropped", fmt.Sprintf("writing a well-formed frame with length field %d (cap %d) failed: %v — the library dropped the link on a frame inside [10, cap]", arg, 1<<24-1, err))
			return
		}
		if _, err := pc.Barrier(30 * time.Second); err != nil {
			fail("cap-boundary-link-dropped", fmt.Sprintf("after a well-formed frame with length field %d (cap %d) the link no longer answers: %v", arg, 1<<24-1, err))
			return
		}
		if checkDelivered([]peer.Frame{f}) {
			env.Event("cap_boundary_frames_delivered", 1)
		}
	case "cut-prefix", "random-splits", "dribble":
		nf := 1 + r.IntN(20)
		maxBody := 300 << 10
		if kind == "dribble" {
			nf, maxBody = 1+r.IntN(3), 60
		}
		stream, data, lts := c04MakeStream(r, nf, maxBody)
		var cuts []int
		switch kind {
		case "cut-prefix":
			cuts = []int{arg}
			// plus the same offset inside a later frame when there is one
			if len(stream) > 14+arg {
				first := 4 + int(uint32(stream[0])<<24|uint32(stream[1])<<16|uint32(stream[2])<<8|uint32(stream[3]))
				if first+arg < len(stream) {
					cuts = append(cuts, first+arg)
				}
			}
		case "random-splits":
			for k, n := 0, 1+r.IntN(12); k < n; k++ {
				cuts = append(cuts, 1+r.IntN(len(stream)))
			}
		case "dribble":
			for k := 1; k < len(stream); k++ {
				cuts = append(cuts, k)
			}
		}
		sort.Ints(cuts)
		cs.Frames, cs.Bytes, cs.Cuts = nf, len(stream), cuts
		if len(cuts) > 24 {
			cs.Cuts = cuts[:24]
		}
		env.Begin(i, cs)
		env.Sample(cs)
		env.Eval(fw.Hash64(stream, []byte(fmt.Sprint(cuts))), true)
		maxGap, err := pc.SendSegments(stream, cuts, time.Duration(r.IntN(300))*time.Microsecond)
		if err != nil {
			fail("stream-write-failed:"+kind, fmt.Sprintf("the peer's write failed (%v): the library dropped the link mid-stream", err))
			return
		}
		if maxGap > t8/2 {
			env.Discard() // the harness itself stalled (loaded machine): premise not met
			return
		}
		before, err := pc.Barrier(20 * time.Second)
		if err != nil {
			fail("stream-link-dropped:"+kind, fmt.Sprintf("a valid frame stream in %d segments (max gap %v, T8 %v) dropped the link: %v", len(cuts)+1, maxGap, t8, err))
			return
		}
		var gotLT []uint32
		for _, f := range before {
			if f.SType == peer.STLinktestRsp {
				gotLT = append(gotLT, f.Sys)
			} else {
				fail("stream-unexpected-answer:"+kind, "the library answered a valid stream with "+f.String())
			}
		}
		if fmt.Sprint(gotLT) != fmt.Sprint(lts) {
			fail("stream-linktest-answers-differ", fmt.Sprintf("Linktest.rsp system bytes %08x, requests were %08x", gotLT, lts))
		}
		checkDelivered(data)
		env.Event("segmentations_checked", 1)
		env.Event("segments_written", int64(len(cuts)+1))
	case "idle-gap":
		stream, data, _ := c04MakeStream(r, 4, 500)
		frames, _ := peer.SplitStream(stream)
		cs.Frames, cs.Bytes = len(frames), len(stream)
		env.Begin(i, cs)
		env.Sample(cs)
		env.Eval(fw.Hash64(stream, []byte("idle")), true)
		for k, f := range frames {
			if k > 0 {
				time.Sleep(4 * t8) // an idle gap BETWEEN frames must never time out
			}
			_ = pc.SendRaw(append([]byte{byte(len(f) >> 24), byte(len(f) >> 16), byte(len(f) >> 8), byte(len(f))}, f...))
		}
		if _, err := pc.Barrier(20 * time.Second); err != nil {
			fail("idle-gap-dropped-link", fmt.Sprintf("idle gaps of %v between complete frames (T8 %v) dropped the link: %v", 4*t8, t8, err))
			return
		}
		var dataOnly []peer.Frame
		dataOnly = append(dataOnly, data...)
		checkDelivered(dataOnly)
		env.Event("idle_gaps_survived", int64(len(frames)-1))
	case "stall", "stall+local-writes":
		f := peer.Data(5, 5, false, 0x1234, 0x19000000|uint32(arg), append([]byte{0x21, 60}, randBytes(r, 60)...))
		b := f.Bytes()
		cs.Frames, cs.Bytes, cs.Cuts = 1, len(b), []int{arg}
		env.Begin(i, cs)
		env.Sample(cs)
		env.Eval(fw.Hash64(b, []byte(fmt.Sprint(kind, arg))), true)
		_ = pc.SendRaw(b[:arg])
		if kind == "stall+local-writes" {
			// the LOCAL side writes while its receiver sits inside the stalled frame: the send path (write deadline
			// armed and cleared around every write) must leave the receive path's T8 alone
			for k := 0; k < 3; k++ {
				time.Sleep(t8 / 5)
				ctx, cancel := context.WithTimeout(context.Background(), time.Second)
				_, _ = rg.Conn.SendDataMessage(ctx, 6, 11, false, secs2.A("local write inside the peer's stalled frame"))
				cancel()
				env.Event("local_writes_inside_a_stalled_frame", 1)
			}
		}
		// (every other timer of this rig is 10 s or more: the 3 s of slack also tell T8 from a wrong timer)
		if !pc.WaitClosed(6*t8 + 3*time.Second) {
			fail("in-frame-stall-not-dropped", fmt.Sprintf("the stream stalled after %d bytes of a frame (T8 %v) and %v later the link is still up", arg, t8, 6*t8+3*time.Second))
			return
		}
		_ = pc.SendRaw(b[arg:])
		time.Sleep(20 * time.Millisecond)
		if n := len(dl.snapshot()); n != 0 {
			fail("stalled-frame-delivered", "the remainder of a frame that stalled past T8 was accepted and delivered")
		}
		env.Event("in_frame_stalls_dropped", 1)
	case "short-then-long-gap":
		// T8 is measured PER GAP: a short pause (T8/5) followed by a long one (0.85 x T8) — together more than T8, each
		// of them less — must not time the frame out
		f := peer.Data(5, 9, false, 0x1234, 0x1B000000|uint32(arg), append([]byte{0x21, 40}, randBytes(r, 40)...))
		b := f.Bytes()
		cut1, cut2 := 2+arg%10, 17+arg%20
		cs.Frames, cs.Bytes, cs.Cuts = 1, len(b), []int{cut1, cut2}
		env.Begin(i, cs)
		env.Sample(cs)
		env.Eval(fw.Hash64(b, []byte(fmt.Sprint("short-long", arg))), true)
		_ = pc.SendRaw(b[:cut1])
		t1 := time.Now()
		time.Sleep(t8 / 5)
		_ = pc.SendRaw(b[cut1:cut2])
		t2 := time.Now()
		time.Sleep(t8 * 85 / 100)
		err := pc.SendRaw(b[cut2:])
		g1, g2 := t2.Sub(t1), time.Since(t2)
		if g2 >= t8*93/100 || g1 >= t8/4 {
			env.Discard() // the harness itself overslept: premise (every gap clearly inside T8) not met
			return
		}
		if err != nil {
			fail("gap-inside-t8-dropped", fmt.Sprintf("a frame in three segments with gaps %v and %v (T8 %v, each gap inside T8): the last write failed: %v", g1.Round(time.Millisecond), g2.Round(time.Millisecond), t8, err))
			return
		}
		if _, err := pc.Barrier(20 * time.Second); err != nil {
			fail("gap-inside-t8-dropped", fmt.Sprintf("a frame in three segments with gaps %v and %v (T8 %v; each gap is inside T8, only their sum exceeds it) dropped the link: %v", g1.Round(time.Millisecond), g2.Round(time.Millisecond), t8, err))
			return
		}
		if checkDelivered([]peer.Frame{f}) {
			env.Event("short_then_long_gap_frames_delivered", 1)
		}
	case "slow-steady":
		f := peer.Data(5, 7, false, 0x1234, 0x1A000000|uint32(arg), append([]byte{0x21, 40}, randBytes(r, 40)...))
		b := f.Bytes()
		var cuts []int
		for k := 1; k < 9; k++ {
			cuts = append(cuts, k*len(b)/9)
		}
		cs.Frames, cs.Bytes, cs.Cuts = 1, len(b), cuts
		env.Begin(i, cs)
		env.Sample(cs)
		env.Eval(fw.Hash64(b, []byte(fmt.Sprint("slow", arg))), true)
		maxGap, err := pc.SendSegments(b, cuts, t8/3) // total 8 x T8/3 > 2 x T8, every gap < T8
		if maxGap >= t8*6/10 {
			env.Discard() // premise (every gap clearly below T8) not met on this run
			return
		}
		if err != nil {
			fail("slow-stream-dropped", fmt.Sprintf("bytes every %v (max measured gap %v, T8 %v): the write failed: %v", t8/3, maxGap, t8, err))
			return
		}
		if _, err := pc.Barrier(20 * time.Second); err != nil {
			fail("slow-stream-dropped", fmt.Sprintf("a frame delivered in 9 segments %v apart (max measured gap %v < T8 %v, total > 2 x T8) dropped the link: %v", t8/3, maxGap, t8, err))
			return
		}
		checkDelivered([]peer.Frame{f})
		env.Event("slow_steady_frames_delivered", 1)
	case "bad-length", "bad-length+valid-frame":
		l := uint32(arg)
		cs.Note = fmt.Sprintf("length field %d", l)
		env.Begin(i, cs)
		env.Sample(cs)
		env.Eval(fw.HashStr("badlen", fmt.Sprint(kind, l, cs.Active)), true)
		var m0, m1 runtime.MemStats
		runtime.GC()
		runtime.ReadMemStats(&m0)
		hdr := []byte{byte(l >> 24), byte(l >> 16), byte(l >> 8), byte(l), 0x12, 0x34, 0x05, 0x05, 0, 0, 0, 0, 0, 9}
		if kind == "bad-length+valid-frame" {
			hdr = append(hdr[:4:4], make([]byte, l)...)
			hdr = append(hdr, peer.Data(1, 1, false, 0x1234, 0x0BAD1E00|l, []byte{0x41, 0x01, 'z'}).Bytes()...)
			env.Event("bad_lengths_followed_by_a_valid_frame", 1)
		}
		_ = pc.SendRaw(hdr)
		if !pc.WaitClosed(10 * time.Second) {
			fail("bad-length-not-dropped", fmt.Sprintf("a length field of %d (outside [10, 2^24-1]) did not drop the link within 10 s", l))
			return
		}
		runtime.ReadMemStats(&m1)
		if d := m1.TotalAlloc - m0.TotalAlloc; d > 4<<20 {
			fail("bad-length-allocated-claimed-size", fmt.Sprintf("a length field of %d: the process allocated %d bytes while handling it", l, d))
		}
		if n := len(dl.snapshot()); n != 0 {
			fail("bad-length-delivered", "a frame with an invalid length field was delivered")
		}
		env.Event("bad_lengths_dropped", 1)
	}
	_ = hsms.SelectedState
}
