package checks

import (
	"context"
	"errors"
	"fmt"
	"io"
	"math"
	"net"
	"sync"
	"time"

	"github.com/arloliu/go-secs/v2/hsms"
	"github.com/arloliu/go-secs/v2/secs2"

	"verif/fw"
	"verif/peer"
)

// C11 — after any link failure an open connection recovers to a working Selected session.
func init() {
	fw.Register(&fw.Check{
		ID:    "C11",
		Level: "fault_enumeration",
		Rule: "(faults) COMPLETE list per tier of single link faults, each on a fresh real connection: for the exchanges {library Select.req, peer Select.rsp, peer Select.req, library Select.rsp, library data primary, peer reply, " +
			"peer primary, library Linktest.req, peer Linktest.req -> library rsp} the peer cuts (FIN and RST) after reading / writing exactly k bytes for EVERY k in the 14-byte prefix (plus body offsets for data); " +
			"stalls covered by T6, T7, T8, write timeout and linktest; Select.rsp status 2..255; 0..8 consecutive refused dials / failed listens under a grid of back-off configurations. After the fault the peer is well " +
			"behaved; the connection must be Selected with a working round trip within 6 further connection opportunities. The requested reconnect delays (hook hsms.reconnect.sleep) must start at min(initial,T5), never decrease, never " +
			"exceed T5 and equal the reference sequence; a re-dial may not start sooner than the requested delay after the previous attempt ended; Reconnects() = successful (re)dials - 1; no dial/listen after Close. " +
			"(pure) VerifNextBackoffDelay over a grid incl. overflow/Inf/NaN multipliers. distinct = hash(case); every case is non-trivial (it injects a fault).",
		Assumptions: []string{
			"bounded-progress restatement of 'eventually': recovery within 6 connection opportunities offered by the peer after the fault",
			"the reference back-off sequence is d0=min(initial,T5), d(k+1)=min(T5, d(k)*m) evaluated in float64 like any Go implementation would",
		},
		Phases: func(tier string) []fw.Phase {
			return []fw.Phase{
				{Name: "pure", Shards: 1, Timeout: tierDur(tier, 3, 10)},
				{Name: "faults", Race: true, Shards: 16, Timeout: tierDur(tier, 8, 45), HangIsViolation: true},
			}
		},
		Worker: func(env *fw.Env) {
			if env.Phase == "pure" {
				c11Pure(env)
			} else {
				c11Faults(env)
			}
		},
		RequiredEvents: []string{"backoff_grid_points", "fault_cases", "recovered_roundtrips", "backoff_sequences_checked", "redial_gaps_checked", "cut_cases", "stall_cases", "streak_cases"},
		Exhaustive:     func(string) bool { return true },
	})
}

// ---- pure ---------------------------------------------------------------------------------------

func c11RefNext(cur time.Duration, m float64, ceil time.Duration) time.Duration {
	f := float64(cur) * m
	if math.IsNaN(f) || f <= 0 || f > float64(ceil) {
		return ceil
	}
	n := time.Duration(f)
	if n <= 0 || n > ceil {
		return ceil
	}

	return n
}

func c11Pure(env *fw.Env) {
	curs := []time.Duration{1, 999, time.Microsecond, time.Millisecond, 20 * time.Millisecond, 199 * time.Millisecond, 200 * time.Millisecond, 201 * time.Millisecond, time.Second, time.Hour, math.MaxInt64 / 2, math.MaxInt64}
	mults := []float64{1, 1.0000001, 1.5, 2, 3.7, 10, 1e9, 1e300, math.Inf(1), math.NaN(), 0.5, 0, -1, math.Inf(-1)}
	ceils := []time.Duration{1, 30 * time.Millisecond, 200 * time.Millisecond, 10 * time.Second, math.MaxInt64}
	for _, cur := range curs {
		for _, m := range mults {
			for _, ceil := range ceils {
				got := hsms.VerifNextBackoffDelay(cur, m, ceil)
				cs := map[string]any{"cur": cur.String(), "multiplier": fmt.Sprint(m), "ceil": ceil.String(), "got": got.String()}
				env.Eval(fw.HashStr("grid", fmt.Sprint(cur, m, ceil)), true)
				env.Event("backoff_grid_points", 1)
				if got <= 0 || got > ceil {
					env.Violate("backoff-out-of-range", fmt.Sprintf("nextBackoffDelay(%v, %v, %v) = %v: outside (0, ceil]", cur, m, ceil, got), cs)
					continue
				}
				if m >= 1 && !math.IsInf(m, 0) {
					if cur <= ceil && got < cur {
						env.Violate("backoff-decreases", fmt.Sprintf("nextBackoffDelay(%v, %v, %v) = %v < current delay", cur, m, ceil, got), cs)
					}
					if want := c11RefNext(cur, m, ceil); got != want {
						env.Violate("backoff-differs-from-reference", fmt.Sprintf("nextBackoffDelay(%v, %v, %v) = %v, reference %v", cur, m, ceil, got, want), cs)
					}
				}
			}
		}
	}
	env.Sample(map[string]any{"grid": fmt.Sprintf("%d currents x %d multipliers x %d ceilings", len(curs), len(mults), len(ceils))})
}

// ---- faults -------------------------------------------------------------------------------------

type c11Case struct {
	Index  int64   `json:"index"`
	Kind   string  `json:"kind"`
	Active bool    `json:"active"`
	K      int     `json:"k"`
	RST    bool    `json:"rst"`
	Streak int     `json:"streak"`
	InitMs float64 `json:"backoff_initial_ms"`
	Mult   float64 `json:"backoff_multiplier"`
	T5ms   int     `json:"t5_ms"`
	Status int     `json:"select_status"`
	Delays bool    `json:"delay_injection,omitempty"`
	ReOpen bool    `json:"redundant_open_during_outage,omitempty"`
}

func c11Cases(env *fw.Env) []c11Case {
	var cs []c11Case
	add := func(c c11Case) { c.Index = int64(len(cs)); cs = append(cs, c) }
	quick := env.Quick()
	for _, rst := range []bool{false, true} {
		for k := 0; k <= 14; k++ {
			add(c11Case{Kind: "cut-reading-lib-select-req", Active: true, K: k, RST: rst})
			add(c11Case{Kind: "cut-reading-lib-select-rsp", Active: false, K: k, RST: rst})
			add(c11Case{Kind: "cut-reading-lib-linktest-req", Active: k%2 == 0, K: k, RST: rst})
			add(c11Case{Kind: "cut-reading-lib-linktest-rsp", Active: k%2 == 1, K: k, RST: rst})
			if k < 14 {
				add(c11Case{Kind: "cut-writing-peer-select-rsp", Active: true, K: k, RST: rst})
				add(c11Case{Kind: "cut-writing-peer-select-req", Active: false, K: k, RST: rst})
			}
		}
		dataOffsets := []int{0, 1, 2, 3, 4, 5, 6, 7, 8, 9, 10, 11, 12, 13, 14, 15, 20, 33, 55}
		if !quick {
			dataOffsets = nil
			for k := 0; k <= 56; k++ {
				dataOffsets = append(dataOffsets, k)
			}
		}
		for _, k := range dataOffsets {
			add(c11Case{Kind: "cut-reading-lib-data-primary", Active: k%2 == 0, K: k, RST: rst})
			add(c11Case{Kind: "cut-writing-peer-reply", Active: k%2 == 1, K: k, RST: rst})
			add(c11Case{Kind: "cut-writing-peer-primary", Active: k%2 == 0, K: k, RST: rst})
		}
	}
	for _, a := range []bool{true, false} {
		for _, st := range []string{"stall-t6", "stall-t7", "stall-t8", "stall-write-timeout", "stall-write-timeout+short-ctx", "stall-control-write", "stall-linktest", "stall-linktest+local-sends"} {
			if (st == "stall-t6" && !a) || (st == "stall-t7" && a) {
				continue
			}
			if st == "stall-t8" {
				for k := 1; k <= 16; k++ { // every stall offset in the 14-byte prefix and two in the body
					add(c11Case{Kind: st, Active: a == (k%2 == 0), K: k})
				}

				continue
			}
			add(c11Case{Kind: st, Active: a})
		}
	}
	statuses := []int{2, 3, 4, 5, 6, 7, 127, 128, 255}
	if !quick {
		statuses = nil
		for s := 2; s <= 255; s++ {
			statuses = append(statuses, s)
		}
	}
	for _, s := range statuses {
		add(c11Case{Kind: "select-rejected", Active: true, Status: s})
	}
	type bo struct {
		init float64
		m    float64
		t5   int
	}
	grid := []bo{{1, 2, 30}, {20, 1, 30}, {20, 1.5, 200}, {30, 10, 30}, {50, 2, 30}, {1, 10, 200}, {5, 2, 200}}
	for gi, g := range grid {
		for streak := 0; streak <= 8; streak++ {
			if quick && (streak+gi)%3 != 0 {
				continue
			}
			add(c11Case{Kind: "refused-dials", Active: true, Streak: streak, InitMs: g.init, Mult: g.m, T5ms: g.t5})
			if streak <= 3 {
				add(c11Case{Kind: "failed-listens", Active: false, Streak: streak, InitMs: g.init, Mult: g.m, T5ms: g.t5})
			}
		}
	}
	// the outage during which the application calls Open again (documented: refused with the already-open error): the
	// recovery that was under way must still happen
	for gi, g := range grid[:3] {
		add(c11Case{Kind: "refused-dials", Active: true, Streak: 3 + gi, InitMs: g.init, Mult: g.m, T5ms: g.t5, ReOpen: true})
		add(c11Case{Kind: "failed-listens", Active: false, Streak: 2 + gi, InitMs: g.init, Mult: g.m, T5ms: g.t5, ReOpen: true})
	}
	if !quick {
		// thorough: every role-agnostic fault also in the other TCP role, and every single fault once more with
		// delays injected around teardown / publish / dispatch (the recovery machinery's own suspension points)
		base := len(cs)
		agnostic := map[string]bool{"cut-reading-lib-linktest-req": true, "cut-reading-lib-linktest-rsp": true, "cut-reading-lib-data-primary": true,
			"cut-writing-peer-reply": true, "cut-writing-peer-primary": true, "stall-t8": true, "stall-write-timeout": true, "stall-write-timeout+short-ctx": true, "stall-control-write": true, "stall-linktest": true, "stall-linktest+local-sends": true}
		for _, c := range cs[:base] {
			if agnostic[c.Kind] {
				c.Active = !c.Active
				add(c)
			}
		}
		for _, c := range cs[:len(cs):len(cs)] {
			if c.Kind != "refused-dials" && c.Kind != "failed-listens" { // those compare hook-reported sleeps: no injected delays
				c.Delays = true
				add(c)
			}
		}
	}

	return cs
}

func c11Faults(env *fw.Env) {
	for _, cs := range c11Cases(env) {
		if !env.Mine(cs.Index) || !env.Want(cs.Index) {
			continue
		}
		if env.Stop() {
			return
		}
		c11One(env, cs)
	}
}

func rawReadN(c *peer.Conn, n int, d time.Duration) error {
	if n == 0 {
		return nil
	}
	_ = c.C.SetReadDeadline(time.Now().Add(d))
	_, err := io.ReadFull(c.C, make([]byte, n))

	return err
}

func rawReadFrame(c *peer.Conn, d time.Duration) (peer.Frame, error) {
	_ = c.C.SetReadDeadline(time.Now().Add(d))
	var l [4]byte
	if _, err := io.ReadFull(c.C, l[:]); err != nil {
		return peer.Frame{}, err
	}
	n := int(l[0])<<24 | int(l[1])<<16 | int(l[2])<<8 | int(l[3])
	if n < 10 || n > 1<<24 {
		return peer.Frame{}, fmt.Errorf("bad length %d", n)
	}
	b := make([]byte, n)
	if _, err := io.ReadFull(c.C, b); err != nil {
		return peer.Frame{}, err
	}

	return peer.ParseFrame(b)
}

func cutConn(c *peer.Conn, rst bool) {
	if rst {
		c.Reset()
	} else {
		c.Close()
	}
}

// rawSelect performs the select exchange on a NOT-started peer conn.
func rawSelect(rg *rig, pc *peer.Conn) error {
	if rg.o.Active {
		f, err := rawReadFrame(pc, 10*time.Second)
		if err != nil {
			return err
		}
		if f.SType != peer.STSelectReq {
			return fmt.Errorf("expected Select.req, got %v", f)
		}
		if _, err := pc.C.Write(peer.SelectRsp(f.Session, 0, f.Sys).Bytes()); err != nil {
			return err
		}
	} else {
		if _, err := pc.C.Write(peer.SelectReq(0x1234, 0x11110000|uint32(pc.Gen)).Bytes()); err != nil {
			return err
		}
		f, err := rawReadFrame(pc, 10*time.Second)
		if err != nil {
			return err
		}
		if f.SType != peer.STSelectRsp || f.B3 != 0 {
			return fmt.Errorf("expected Select.rsp(0), got %v", f)
		}
	}
	if !waitState(rg.Conn, hsms.SelectedState, 10*time.Second) {
		return errors.New("not selected")
	}

	return nil
}

//nolint:gocyclo,cyclop // one fault case: setup, fault, recovery, post-conditions
func c11One(env *fw.Env, cs c11Case) {
	env.Begin(cs.Index, cs)
	env.Eval(fw.HashStr("c11", fmt.Sprint(cs)), true)
	env.Sample(cs)
	env.Event("fault_cases", 1)
	o := rigOpts{Active: cs.Active, T3: 5 * time.Second, T5: 30 * time.Millisecond, BackoffInit: 5 * time.Millisecond, T6: 5 * time.Second, T7: 10 * time.Second, T8: 5 * time.Second}
	switch cs.Kind {
	case "stall-t6":
		o.T6 = 150 * time.Millisecond
	case "stall-t7":
		o.T7 = 150 * time.Millisecond
	case "stall-t8":
		o.T8 = 150 * time.Millisecond
	case "stall-write-timeout", "stall-write-timeout+short-ctx":
		o.WriteTimeout = 200 * time.Millisecond
	case "stall-control-write":
		// the only thing the library writes is a control frame (Linktest.req); the write timeout covers its stall
		off := false
		o.Linktest, o.LinktestFails, o.Suppress, o.WriteTimeout = 60*time.Millisecond, 50, &off, 200*time.Millisecond
	case "stall-linktest+local-sends":
		on := true
		// (timers wide enough that "one local message between a probe's timeout and the next tick" survives a loaded
		// machine: the message goes out ~100 ms after the timeout and ~200 ms before the tick)
		o.Linktest, o.T6, o.LinktestFails, o.Suppress = 300*time.Millisecond, 500*time.Millisecond, 2, &on
	case "stall-linktest":
		off := false
		o.Linktest, o.T6, o.LinktestFails, o.Suppress = 40*time.Millisecond, 100*time.Millisecond, 2, &off
	case "cut-reading-lib-linktest-req":
		off := false
		o.Linktest, o.Suppress = 30*time.Millisecond, &off
	case "refused-dials", "failed-listens":
		o.T5 = time.Duration(cs.T5ms) * time.Millisecond
		o.BackoffInit = time.Duration(cs.InitMs * float64(time.Millisecond))
		o.BackoffMult = cs.Mult
	}
	rg, err := newRig(o)
	if err != nil {
		env.Discard()
		return
	}
	fail := func(key, msg string) { env.Violate(key, msg, cs) }
	var gmu sync.Mutex
	var gates []*peer.GateConn
	if cs.Kind == "stall-control-write" {
		rg.Trk.Wrap = func(c net.Conn) net.Conn {
			g := peer.NewGateConn(c)
			gmu.Lock()
			gates = append(gates, g)
			gmu.Unlock()

			return g
		}
	}
	if cs.Delays {
		undo := installDelays(env.Seed+uint64(cs.Index)*23, 2*time.Millisecond, 4, "hsms.react.beforeTeardown", "hsms.teardown.afterCancel", "hsms.connectLoop.afterPublish",
			"hsms.sup.beforeStep", "hsmsss.recv.beforeDispatch", "hsmsss.accept.adopted")
		defer func() { env.Event("delays_injected", undo()) }()
	}

	// requested reconnect delays, in order
	var smu sync.Mutex
	var sleeps []time.Duration
	hsms.VerifSetHook("hsms.reconnect.sleep", func(d time.Duration) {
		smu.Lock()
		sleeps = append(sleeps, d)
		smu.Unlock()
	})
	defer hsms.VerifSetHook("hsms.reconnect.sleep", nil)

	echo := func(c *peer.Conn, f peer.Frame) bool {
		if f.IsData() && f.WBit() {
			_ = c.Send(peer.Data(f.Stream(), f.Function()+1, false, f.Session, f.Sys, nil))
		}
		if f.PType == 0 && f.SType == peer.STLinktestReq {
			_ = c.Send(peer.LinktestRsp(f.Sys))
		}

		return false
	}
	if err := rg.Open(); err != nil {
		fail("open-failed", err.Error())
		return
	}
	closed := false
	defer func() {
		if !closed {
			_ = rg.Shutdown()
		}
	}()
	pc, err := rg.PeerConnect(10 * time.Second)
	if err != nil {
		env.Discard()
		return
	}
	defer pc.Close()
	needSelected := map[string]bool{"cut-reading-lib-data-primary": true, "cut-writing-peer-reply": true, "cut-writing-peer-primary": true, "cut-reading-lib-linktest-req": true,
		"cut-reading-lib-linktest-rsp": true, "stall-t8": true, "stall-write-timeout": true, "stall-write-timeout+short-ctx": true, "stall-control-write": true, "stall-linktest": true, "stall-linktest+local-sends": true, "refused-dials": true, "failed-listens": true}
	if needSelected[cs.Kind] {
		if err := rawSelect(rg, pc); err != nil {
			env.Note("case %d (%s): setup select: %v", cs.Index, cs.Kind, err)
			env.Discard()
			return
		}
	}
	var bg sync.WaitGroup
	sendW := func() {
		bg.Add(1)
		go func() {
			defer bg.Done()
			ctx, cancel := context.WithTimeout(context.Background(), 3*time.Second)
			defer cancel()
			_, _ = rg.Conn.SendDataMessage(ctx, 1, 13, true, secs2.A("0123456789012345678901234567890123456789"))
		}()
	}
	// everything before this point (the setup dial, any earlier sleeps) is not part of the fault's loop
	setupDials := rg.Trk.DialCount()
	smu.Lock()
	setupSleeps := len(sleeps)
	smu.Unlock()
	// ---- the fault ----
	switch cs.Kind {
	case "cut-reading-lib-select-req":
		_ = rawReadN(pc, cs.K, 5*time.Second)
		cutConn(pc, cs.RST)
		env.Event("cut_cases", 1)
	case "cut-writing-peer-select-rsp":
		f, err := rawReadFrame(pc, 10*time.Second)
		if err != nil {
			env.Discard()
			return
		}
		_, _ = pc.C.Write(peer.SelectRsp(f.Session, 0, f.Sys).Bytes()[:cs.K])
		cutConn(pc, cs.RST)
		env.Event("cut_cases", 1)
	case "cut-writing-peer-select-req":
		_, _ = pc.C.Write(peer.SelectReq(0x1234, 0x22220000).Bytes()[:cs.K])
		cutConn(pc, cs.RST)
		env.Event("cut_cases", 1)
	case "cut-reading-lib-select-rsp":
		_, _ = pc.C.Write(peer.SelectReq(0x1234, 0x22220001).Bytes())
		_ = rawReadN(pc, cs.K, 5*time.Second)
		cutConn(pc, cs.RST)
		env.Event("cut_cases", 1)
	case "cut-reading-lib-data-primary":
		sendW()
		_ = rawReadN(pc, cs.K, 5*time.Second)
		cutConn(pc, cs.RST)
		env.Event("cut_cases", 1)
	case "cut-writing-peer-reply":
		sendW()
		f, err := rawReadFrame(pc, 10*time.Second)
		if err != nil {
			env.Discard()
			return
		}
		rep := peer.Data(f.Stream(), f.Function()+1, false, f.Session, f.Sys, c06Body("0123456789012345678901234567890123456789")).Bytes()
		_, _ = pc.C.Write(rep[:min(cs.K, len(rep)-1)])
		cutConn(pc, cs.RST)
		env.Event("cut_cases", 1)
	case "cut-writing-peer-primary":
		prim := peer.Data(3, 3, true, 0x1234, 0x33330000, c06Body("0123456789012345678901234567890123456789")).Bytes()
		_, _ = pc.C.Write(prim[:min(cs.K, len(prim)-1)])
		cutConn(pc, cs.RST)
		env.Event("cut_cases", 1)
	case "cut-reading-lib-linktest-req":
		_ = rawReadN(pc, cs.K, 5*time.Second)
		cutConn(pc, cs.RST)
		env.Event("cut_cases", 1)
	case "cut-reading-lib-linktest-rsp":
		_, _ = pc.C.Write(peer.LinktestReq(0x44440000).Bytes())
		_ = rawReadN(pc, cs.K, 5*time.Second)
		cutConn(pc, cs.RST)
		env.Event("cut_cases", 1)
	case "stall-t6", "stall-t7":
		// the peer simply does nothing: the select never completes; the timer must drop the link
		// (every OTHER timer of this rig is 5 s or more: 4 s also tells the right timer from a wrong one)
		if !waitFor(4*time.Second, func() bool { return rawReadEOF(pc) }) {
			fail("stall-not-dropped-"+cs.Kind, "the peer stayed silent for 4 s (the timer that covers this stall is 150 ms, all others are >= 5 s) and the library kept the TCP connection")
			return
		}
		env.Event("stall_cases", 1)
	case "stall-t8":
		// a 30-byte frame that stalls after exactly K bytes (K = 1..3 inside the length field, 4 right after it,
		// 5..14 inside the header, beyond that in the body)
		full := append([]byte{0, 0, 0, 30, 0x12, 0x34, 0x81, 0x05, 0, 0, 0, 0, 0, 9}, make([]byte, 20)...)
		k := cs.K
		if k <= 0 || k >= len(full) {
			k = 7
		}
		_, _ = pc.C.Write(full[:k])
		if !waitFor(4*time.Second, func() bool { return rawReadEOF(pc) }) {
			fail("stall-not-dropped-t8", fmt.Sprintf("a frame stalled after %d bytes for 4 s (T8 150 ms, all other timers >= 5 s) and the library kept the TCP connection", k))
			return
		}
		env.Event("stall_cases", 1)
	case "stall-write-timeout":
		big := secs2.B(make([]byte, 2<<20)) // built before the clock starts (slow under the race detector)
		_ = big.ToBytes()
		bg.Add(1)
		go func() {
			defer bg.Done()
			ctx, cancel := context.WithTimeout(context.Background(), 25*time.Second)
			defer cancel()
			for n := 0; n < 64; n++ { // loopback socket buffers can swallow several MiB: keep writing until one blocks
				if _, err := rg.Conn.SendDataMessage(ctx, 1, 15, false, big); err != nil {
					return
				}
			}
		}()
		if !waitFor(30*time.Second, func() bool { return rg.Conn.State() != hsms.SelectedState }) {
			fail("stall-not-dropped-write-timeout", "128 MiB of writes to a peer that never reads (write timeout 200 ms) did not drop the link within 30 s")
			return
		}
		env.Event("stall_cases", 1)
	case "stall-write-timeout+short-ctx":
		// as above, but every call carries a deadline SHORTER than the write timeout: when the blocked write finally
		// runs into the write timeout the caller's context is long done. The stall is the link's, not the caller's:
		// the link must be dropped all the same.
		big := secs2.B(make([]byte, 2<<20))
		_ = big.ToBytes()
		bg.Add(1)
		stopSends := make(chan struct{})
		go func() {
			defer bg.Done()
			for n := 0; n < 200 && rg.Conn.State() == hsms.SelectedState; n++ {
				select {
				case <-stopSends: // the drop has been seen: nothing may be written into the NEXT generation from here
					return
				default:
				}
				ctx, cancel := context.WithTimeout(context.Background(), 50*time.Millisecond)
				_, _ = rg.Conn.SendDataMessage(ctx, 1, 15, false, big)
				cancel()
				env.Event("short_deadline_sends_into_a_stalled_socket", 1)
			}
		}()
		dropped := waitFor(30*time.Second, func() bool { return rg.Conn.State() != hsms.SelectedState })
		close(stopSends)
		if !dropped {
			fail("stall-not-dropped-write-timeout-short-ctx", "writes to a peer that never reads (write timeout 200 ms), each call with a 50 ms deadline, did not drop the link within 30 s: a write that ran into the write timeout after its caller's deadline left the dead link Selected")
			return
		}
		env.Event("stall_cases", 1)
	case "stall-control-write":
		// the socket stops taking bytes (a closed window): the next thing the library writes is a Linktest.req, a
		// CONTROL frame; its write must run into the write timeout (200 ms) like any other and the link be re-dialed
		go func() { _, _ = io.Copy(io.Discard, pc.C) }()
		gmu.Lock()
		for _, g := range gates {
			g.BlockWrites(true)
		}
		gmu.Unlock()
		if !waitFor(4*time.Second, func() bool { return rg.Conn.State() != hsms.SelectedState }) {
			fail("stall-not-dropped-control-write", "the socket accepted no more bytes for 4 s (write timeout 200 ms, linktest every 60 ms, T6 and all other timers >= 5 s): the blocked Linktest.req write was never timed out and the session is still Selected")
			gmu.Lock()
			for _, g := range gates {
				g.BlockWrites(false)
			}
			gmu.Unlock()

			return
		}
		env.Event("stall_cases", 1)
	case "stall-linktest+local-sends":
		// the peer is dead (reads, answers nothing) while the LOCAL application keeps writing one message after every
		// probe timeout: its own writes are no sign of peer life (suppression on), the stall must still be detected
		stopLocal := make(chan struct{})
		bg.Add(1)
		go func() {
			defer bg.Done()
			for {
				f, err := rawReadFrame(pc, 15*time.Second)
				if err != nil {
					return
				}
				if f.PType == 0 && f.SType == peer.STLinktestReq {
					select {
					case <-stopLocal:
						return
					case <-time.After(o.T6 + 100*time.Millisecond):
					}
					ctx, cancel := context.WithTimeout(context.Background(), time.Second)
					_, _ = rg.Conn.SendDataMessage(ctx, 6, 11, false, secs2.A("local traffic during the stall"))
					cancel()
					env.Event("local_sends_during_linktest_stall", 1)
				}
			}
		}()
		ok := waitFor(12*time.Second, func() bool { return rg.Conn.State() != hsms.SelectedState })
		close(stopLocal)
		if !ok {
			fail("stall-not-dropped-linktest", "the peer answered no Linktest.req for 12 s (interval 300 ms, T6 500 ms, threshold 2, suppression on) while the local side wrote one message after every probe timeout, and the session is still Selected")
			return
		}
		env.Event("stall_cases", 1)
	case "stall-linktest":
		// never answer Linktest.req; read and discard so that only the missing answers matter
		go func() { _, _ = io.Copy(io.Discard, pc.C) }()
		if !waitFor(10*time.Second, func() bool { return rg.Conn.State() != hsms.SelectedState }) {
			fail("stall-not-dropped-linktest", "Linktest.req went unanswered for 10 s (interval 40 ms, T6 100 ms, threshold 2) and the session is still Selected")
			return
		}
		env.Event("stall_cases", 1)
	case "select-rejected":
		f, err := rawReadFrame(pc, 10*time.Second)
		if err != nil {
			env.Discard()
			return
		}
		_, _ = pc.C.Write(peer.SelectRsp(f.Session, byte(cs.Status), f.Sys).Bytes())
		if !waitFor(10*time.Second, func() bool { return rawReadEOF(pc) }) {
			fail("select-rejection-not-dropped", fmt.Sprintf("Select.rsp status %d: the library kept the connection for 10 s", cs.Status))
			return
		}
		env.Event("select_rejections", 1)
	case "refused-dials":
		base := rg.Trk.DialCount()
		rg.Trk.SetFailDial(func(n int) error {
			if n < base+cs.Streak {
				return errors.New("harness: refused")
			}

			return nil
		})
		pc.Reset()
		env.Event("streak_cases", 1)
		if cs.ReOpen {
			waitFor(5*time.Second, func() bool { return rg.Trk.DialCount() > base })
			if err := rg.Conn.Open(context.Background(), hsms.OpenBackground); !errors.Is(err, hsms.ErrAlreadyOpen) {
				fail("redundant-open-not-refused", fmt.Sprintf("Open on an open connection (reconnect pending) returned %v, want the already-open error", err))
			}
			env.Event("redundant_opens_during_outage", 1)
		}
	case "failed-listens":
		base := rg.Trk.ListenCount()
		rg.Trk.SetFailListen(func(n int) error {
			if n < base+cs.Streak {
				return errors.New("harness: listen failed")
			}

			return nil
		})
		pc.Reset()
		env.Event("streak_cases", 1)
		if cs.ReOpen {
			waitFor(5*time.Second, func() bool { return rg.Trk.ListenCount() > base })
			if err := rg.Conn.Open(context.Background(), hsms.OpenBackground); !errors.Is(err, hsms.ErrAlreadyOpen) {
				fail("redundant-open-not-refused", fmt.Sprintf("Open on an open connection (re-listen pending) returned %v, want the already-open error", err))
			}
			env.Event("redundant_opens_during_outage", 1)
		}
	}

	// ---- recovery: the peer is now well behaved ----
	pc2, missed, err := rg.NextGenRetry(echo, 6)
	if err != nil {
		fail("no-recovery-"+cs.Kind, fmt.Sprintf("after the fault the connection did not return to Selected within 6 connection opportunities (%d taken): %v; State()=%v dials=%d listens=%d", missed, err, rg.Conn.State(), rg.Trk.DialCount(), rg.Trk.ListenCount()))
		return
	}
	defer pc2.Close()
	env.Event("generations_missed_by_peer", int64(missed))
	ctx, cancel := context.WithTimeout(context.Background(), 5*time.Second)
	rep, err := rg.Conn.SendDataMessage(ctx, 1, 1, true, secs2.A("recovered"))
	cancel()
	if err != nil || rep == nil {
		fail("recovered-session-not-working", fmt.Sprintf("round trip after recovery: reply=%v err=%v", rep, err))
		return
	}
	env.Event("recovered_roundtrips", 1)
	bg.Wait()

	// ---- back-off sequence, re-dial gaps, counters ----
	smu.Lock()
	var seq []time.Duration
	seq = append(seq, sleeps[setupSleeps:]...)
	smu.Unlock()
	if cs.Kind == "refused-dials" || cs.Kind == "failed-listens" {
		if len(seq) < cs.Streak+1 {
			fail("backoff-missing-sleeps", fmt.Sprintf("%d failed attempts + 1 success need at least %d back-off sleeps, hook saw %v", cs.Streak, cs.Streak+1, seq))
		} else {
			want := min(o.BackoffInit, o.T5)
			for k := 0; k <= cs.Streak; k++ {
				if seq[k] != want {
					fail("backoff-sequence-differs", fmt.Sprintf("requested reconnect delays %v; position %d should be %v (initial %v, multiplier %v, T5 %v)", seq, k, want, o.BackoffInit, o.BackoffMult, o.T5))
					break
				}
				if k > 0 && seq[k] < seq[k-1] {
					fail("backoff-decreases", fmt.Sprintf("requested reconnect delays decrease: %v", seq))
				}
				if seq[k] > o.T5 {
					fail("backoff-exceeds-t5", fmt.Sprintf("requested reconnect delay %v > T5 %v", seq[k], o.T5))
				}
				want = c11RefNext(want, o.BackoffMult, o.T5)
			}
			env.Event("backoff_sequences_checked", 1)
		}
	} else if len(seq) > 0 {
		if want := min(o.BackoffInit, o.T5); seq[0] != want {
			fail("backoff-first-delay", fmt.Sprintf("the first requested reconnect delay after the drop was %v, want min(initial,T5)=%v", seq[0], want))
		}
		for _, d := range seq {
			if d > o.T5 {
				fail("backoff-exceeds-t5", fmt.Sprintf("requested reconnect delay %v > T5 %v", d, o.T5))
			}
		}
		env.Event("backoff_sequences_checked", 1)
	}
	if cs.Active {
		dials := rg.Trk.Dials()
		okDials := int64(0)
		// attempts after the fault belong to one loop: attempt j was preceded by sleep seq[j]
		var post []peer.DialEvent
		for k, d := range dials {
			if d.Err == "" {
				okDials++
			}
			if k >= setupDials {
				post = append(post, d)
			}
		}
		if cs.Kind == "refused-dials" {
			for j := 1; j < len(post) && j < len(seq); j++ {
				if gap := post[j].Start - post[j-1].End; gap < seq[j] {
					fail("redial-sooner-than-requested", fmt.Sprintf("dial attempt %d started %v after the previous attempt ended, the requested delay was %v", j, gap, seq[j]))
				} else {
					env.Event("redial_gaps_checked", 1)
				}
			}
		}
		// the loop counts the re-dial right after Start returns; wait for the loop to have exited
		waitFor(5*time.Second, func() bool { return rg.Conn.Metrics().Reconnecting() == 0 })
		if got := int64(rg.Conn.Metrics().Reconnects()); got != okDials-1 {
			fail("reconnects-counter", fmt.Sprintf("Reconnects()=%d, successful dials in this Open cycle=%d (want dials-1)", got, okDials))
		}
	}
	closed = true
	if err := rg.Shutdown(); err != nil {
		fail("close-error", err.Error())
	}
	d, l := rg.Trk.DialCount(), rg.Trk.ListenCount()
	time.Sleep(80 * time.Millisecond)
	if d2, l2 := rg.Trk.DialCount(), rg.Trk.ListenCount(); d2 != d || l2 != l {
		fail("reconnect-after-close", fmt.Sprintf("after Close returned: dials %d->%d listens %d->%d", d, d2, l, l2))
	}
}

// rawReadEOF reports whether the library closed the connection (drains anything it sent).
func rawReadEOF(c *peer.Conn) bool {
	_ = c.C.SetReadDeadline(time.Now().Add(20 * time.Millisecond))
	buf := make([]byte, 4096)
	for {
		_, err := c.C.Read(buf)
		if err == nil {
			continue
		}
		var ne interface{ Timeout() bool }
		if errors.As(err, &ne) && ne.Timeout() {
			return false
		}

		return true
	}
}
