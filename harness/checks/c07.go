package checks

import (
	"bytes"
	"context"
	"errors"
	"fmt"
	"strings"
	"sync"
	"sync/atomic"
	"time"

	"github.com/arloliu/go-secs/v2/hsms"
	"github.com/arloliu/go-secs/v2/secs2"

	"verif/fw"
	"verif/peer"
)

// C07 — data flows only while Selected; pipelined data after select is accepted.
func init() {
	fw.Register(&fw.Check{
		ID:    "C07",
		Level: "fault_enumeration",
		Rule: "(gate) COMPLETE product of 10 not-selected situations {never-opened, closed, connecting, connected-not-selected, deselected, between-generations, after-separate, the two live-socket ones again after an orphan Select.rsp(0), and deselected by a Deselect.req that the peer wrote in one segment with its Select frame (repeated more often)} x 8 data-send entry points " +
			"{SendDataMessage W/!W, SendSECS2Message W/!W, SendDataMessageAsync, ReplyDataMessage, ForwardDataMessage, ForwardDataMessageAsync} x role {active, passive}, repeated with/without supervisor-step delays, " +
			"plus inbound data in the two situations with a live socket; (race) concurrent senders while the peer toggles Deselect/Select and the write-lock seam waits for a deselect, checked by conservation " +
			"(calls = frames at peer + counted drops + definite errors, one drop per refused call, no token of a refused call at the peer); (pipeline) Select.req+k data (passive) / Select.rsp+k data (active) " +
			"written in EVERY 1-cut segmentation (thorough: sampled 2-cuts too) of the concatenated bytes. distinct = hash(case descriptor); every case is non-trivial (each sends or receives data against a non-selected or just-selected session).",
		Assumptions: []string{
			"'connecting' for the active role = peer port refuses, for the passive role = listening with no peer",
			"a W-bit call that was written may end in reply/T3/closed; it counts as on-the-wire, never as refused",
		},
		Phases: func(tier string) []fw.Phase {
			return []fw.Phase{
				{Name: "gate", Race: true, Shards: 14, Timeout: tierDur(tier, 6, 40), HangIsViolation: true},
				{Name: "race", Race: true, Shards: 8, Timeout: tierDur(tier, 6, 40), HangIsViolation: true},
				{Name: "pipeline", Race: true, Shards: 16, Timeout: tierDur(tier, 6, 40), HangIsViolation: true},
			}
		},
		Worker: func(env *fw.Env) {
			switch env.Phase {
			case "gate":
				c07Gate(env)
			case "race":
				c07Race(env)
			case "pipeline":
				c07Pipeline(env)
			}
		},
		RequiredEvents: []string{"gate_calls", "gate_refused_with_one_drop", "inbound_rejected_reason4", "race_calls", "race_b2_window_hits", "pipeline_cases", "pipelined_data_delivered", "window_cases", "window_refused_with_one_drop"},
		Exhaustive:     func(string) bool { return true },
	})
}

var c07Situations = []string{"never-opened", "closed", "connecting", "connected-not-selected", "deselected", "between-generations", "after-separate",
	// the same two live-socket situations after the peer has sent a Select.rsp(status 0) that answers no open Select
	// transaction: it is rejected (reason 3) and selects nothing
	"connected-not-selected" + c07OrphanRsp, "deselected" + c07OrphanRsp,
	// selected and deselected again in ONE write of the peer (active: Select.rsp(0) + Deselect.req behind the library's
	// Select.req; passive: Select.req + Deselect.req): the session the peer has left stays left
	"deselected-pipelined"}

const c07OrphanRsp = "+orphan-select-rsp"

var c07Calls = []string{"SendDataMessage-W", "SendDataMessage", "SendSECS2Message-W", "SendSECS2Message", "SendDataMessageAsync", "ReplyDataMessage", "ForwardDataMessage", "ForwardDataMessageAsync"}

type c07Case struct {
	Index     int64  `json:"index"`
	Situation string `json:"situation,omitempty"`
	Active    bool   `json:"active"`
	Delays    bool   `json:"delay_injection"`
	Note      string `json:"note,omitempty"`
}

func sysb(v uint32) [4]byte { return [4]byte{byte(v >> 24), byte(v >> 16), byte(v >> 8), byte(v)} }

// c07Call issues one data-send call of the named shape carrying token.
func c07Call(c hsms.Connection, shape string, token string, sess uint16, sys uint32, ctx context.Context) error {
	item := secs2.A(token)
	switch shape {
	case "SendDataMessage-W":
		_, err := c.SendDataMessage(ctx, 3, 17, true, item)
		return err
	case "SendDataMessage":
		_, err := c.SendDataMessage(ctx, 3, 17, false, item)
		return err
	case "SendSECS2Message-W":
		_, err := c.SendSECS2Message(ctx, secs2.NewMessage(5, 1, true, item))
		return err
	case "SendSECS2Message":
		_, err := c.SendSECS2Message(ctx, secs2.NewMessage(5, 1, false, item))
		return err
	case "SendDataMessageAsync":
		return c.SendDataMessageAsync(ctx, 7, 3, false, item)
	case "ReplyDataMessage":
		prim, err := hsms.NewDataMessage(6, 11, true, sess, sysb(sys), secs2.A("primary"))
		if err != nil {
			return fmt.Errorf("harness: %w", err)
		}

		return c.ReplyDataMessage(ctx, prim, item)
	case "ForwardDataMessage", "ForwardDataMessageAsync":
		m, err := hsms.NewDataMessage(9, 9, false, sess, sysb(sys), item)
		if err != nil {
			return fmt.Errorf("harness: %w", err)
		}
		if shape == "ForwardDataMessage" {
			return c.ForwardDataMessage(ctx, m)
		}

		return c.ForwardDataMessageAsync(ctx, m)
	}

	return errors.New("harness: unknown shape")
}

// ---- gate -------------------------------------------------------------------------------------

func c07Gate(env *fw.Env) {
	reps := env.Pick(2, 40)
	idx := int64(0)
	for rep := 0; rep < reps; rep++ {
		for _, sit := range c07Situations {
			for _, active := range []bool{true, false} {
				i := idx
				idx++
				if !env.Mine(i) || !env.Want(i) {
					continue
				}
				if env.Stop() {
					return
				}
				c07GateOne(env, c07Case{Index: i, Situation: sit, Active: active, Delays: rep%2 == 1})
			}
		}
	}
	// the pipelined select/deselect depends on how the library's goroutines interleave: more attempts of that one
	for extra := 0; extra < env.Pick(8, 60); extra++ {
		for _, active := range []bool{true, false} {
			i := idx
			idx++
			if !env.Mine(i) || !env.Want(i) {
				continue
			}
			if env.Stop() {
				return
			}
			c07GateOne(env, c07Case{Index: i, Situation: "deselected-pipelined", Active: active, Delays: extra%2 == 1})
		}
	}
}

func c07GateOne(env *fw.Env, cs c07Case) {
	env.Begin(cs.Index, cs)
	env.Eval(fw.HashStr("gate", cs.Situation, fmt.Sprint(cs.Active, cs.Delays, cs.Index)), true)
	env.Sample(cs)
	o := rigOpts{Active: cs.Active, T3: 2 * time.Second}
	if cs.Situation == "between-generations" || cs.Situation == "after-separate" {
		o.T5, o.BackoffInit = 4*time.Second, 4*time.Second
	}
	rg, err := newRig(o)
	if err != nil {
		env.Note("rig: %v", err)
		env.Discard()
		return
	}
	dl := &deliveryLog{}
	rg.Conn.AddDataMessageHandler(dl.handler(0))
	if cs.Delays {
		undo := installDelays(env.Seed+uint64(cs.Index), time.Millisecond, 4, "hsms.sup.beforeStep", "hsmsss.recv.beforeDispatch")
		defer func() { env.Event("delays_injected", undo()) }()
	}
	var pc *peer.Conn
	opened := false
	defer func() {
		if pc != nil {
			pc.Close()
		}
		if opened {
			_ = rg.Shutdown()
		} else if rg.L != nil {
			rg.L.Close()
		}
	}()
	wantErr := hsms.ErrNotSelectedState
	wantDrop := uint64(1)
	fail := func(key, msg string) { env.Violate(key, msg, cs) }
	sit, orphan := strings.CutSuffix(cs.Situation, c07OrphanRsp)
	switch sit {
	case "never-opened":
		wantErr, wantDrop = hsms.ErrNotOpen, 0
	case "closed":
		opened = true
		if pc, err = rg.Establish(nil); err != nil {
			env.Note("establish: %v", err)
			env.Discard()
			return
		}
		if err := rg.Conn.Close(); err != nil {
			fail("close-error", "Close: "+err.Error())
		}
		pc.Close()
		pc = nil
	case "connecting":
		if cs.Active {
			rg.L.Close() // the port now refuses: Open(background) must retry in the background
		}
		opened = true
		if err := rg.Open(); err != nil {
			fail("open-background-failed", "Open(background) while the peer is unreachable: "+err.Error())
			return
		}
	case "connected-not-selected":
		opened = true
		if err := rg.Open(); err != nil {
			fail("open-failed", err.Error())
			return
		}
		if pc, err = rg.PeerConnect(10 * time.Second); err != nil {
			env.Discard()
			return
		}
		pc.Start()
		if cs.Active {
			if _, _, err := pc.Expect(10*time.Second, func(f peer.Frame) bool { return f.SType == peer.STSelectReq }); err != nil {
				fail("active-no-select-req", err.Error())
				return
			}
		}
		if !waitState(rg.Conn, hsms.NotSelectedState, 10*time.Second) {
			fail("not-in-notselected", "TCP is up but State() is "+rg.Conn.State().String())
			return
		}
	case "deselected-pipelined":
		opened = true
		if err := rg.Open(); err != nil {
			fail("open-failed", err.Error())
			return
		}
		if pc, err = rg.PeerConnect(10 * time.Second); err != nil {
			env.Discard()
			return
		}
		pc.Start()
		if cs.Active {
			f, _, err := pc.Expect(10*time.Second, func(f peer.Frame) bool { return f.SType == peer.STSelectReq })
			if err != nil {
				fail("active-no-select-req", err.Error())
				return
			}
			_ = pc.Send(peer.SelectRsp(f.Session, 0, f.Sys), peer.DeselectReq(0x1234, 0xD1D1D1D1))
		} else {
			_ = pc.Send(peer.SelectReq(0x1234, 0xD2D2D2D2), peer.DeselectReq(0x1234, 0xD1D1D1D1))
		}
		if f, _, err := pc.Expect(10*time.Second, func(f peer.Frame) bool { return f.SType == peer.STDeselectRsp }); err != nil || f.B3 != 0 {
			fail("deselect-not-accepted", fmt.Sprintf("Deselect.req pipelined behind the select: rsp=%v err=%v", f, err))
			return
		}
		if _, err := pc.Barrier(10 * time.Second); err != nil {
			fail("control-traffic-affected", fmt.Sprintf("Linktest barrier after select + pipelined deselect failed: %v", err))
			return
		}
		// whatever the library still has queued or pending internally for these two frames must not bring Selected back
		if waitFor(300*time.Millisecond, func() bool { return rg.Conn.State() != hsms.NotSelectedState }) {
			fail("not-in-notselected", fmt.Sprintf("the peer selected and deselected in one write (Deselect.rsp status 0 was sent), State() is %v", rg.Conn.State()))
			return
		}
		env.Event("deselected_pipelined_situations", 1)
	case "deselected":
		opened = true
		if pc, err = rg.Establish(nil); err != nil {
			env.Note("establish: %v", err)
			env.Discard()
			return
		}
		_ = pc.Send(peer.DeselectReq(0x1234, 0xD0D0D0D0))
		if f, _, err := pc.Expect(10*time.Second, func(f peer.Frame) bool { return f.SType == peer.STDeselectRsp }); err != nil || f.B3 != 0 {
			fail("deselect-not-accepted", fmt.Sprintf("Deselect.req while selected: rsp=%v err=%v", f, err))
			return
		}
		if !waitState(rg.Conn, hsms.NotSelectedState, 10*time.Second) {
			fail("not-in-notselected", "after Deselect.rsp(0) State() is "+rg.Conn.State().String())
			return
		}
	case "between-generations", "after-separate":
		opened = true
		if pc, err = rg.Establish(nil); err != nil {
			env.Note("establish: %v", err)
			env.Discard()
			return
		}
		if cs.Situation == "after-separate" {
			_ = pc.Send(peer.SeparateReq(0x1234, 0x5E5E5E5E))
		} else {
			pc.Reset()
		}
		if !waitState(rg.Conn, hsms.NotConnectedState, 10*time.Second) {
			fail("not-in-notconnected", "after the link ended State() is "+rg.Conn.State().String())
			return
		}
		pc.Close()
		pc = nil
	}
	if orphan && pc != nil {
		// system bytes the library never issued. (NOT a replay of the completed Select's own system bytes: until the
		// select goroutine has run its deferred deregistration — arbitrarily late on a loaded machine — such a frame is
		// a duplicate reply to a transaction that is still registered, and the library legitimately completes it again;
		// the first version of this case replayed them and raised one false alarm in a loaded thorough sweep.)
		sys := uint32(0x0BADBEEF)
		_ = pc.Send(peer.SelectRsp(0xFFFF, 0, sys))
		if _, err := pc.Barrier(10 * time.Second); err != nil {
			fail("control-traffic-affected", fmt.Sprintf("Linktest barrier after an orphan Select.rsp in situation %q failed: %v", cs.Situation, err))
			return
		}
		env.Event("orphan_select_rsp_sent_while_not_selected", 1)
		if st := rg.Conn.State(); st != hsms.NotSelectedState {
			fail("orphan-select-rsp-changed-state", fmt.Sprintf("a Select.rsp(0) that answers no open Select transaction (sys %08x) moved State() from NotSelected to %v", sys, st))
			return
		}
	}

	mt := rg.Conn.Metrics()
	logBefore := 0
	if pc != nil {
		logBefore = pc.LogLen()
	}
	for k, shape := range c07Calls {
		d0 := mt.DataMsgDropNotSelectedCount()
		ctx, cancel := context.WithTimeout(context.Background(), 5*time.Second)
		err := c07Call(rg.Conn, shape, fmt.Sprintf("c07-gate-%d-%d", cs.Index, k), 0x1234, uint32(0x70000000+k), ctx)
		cancel()
		env.Event("gate_calls", 1)
		if !errors.Is(err, wantErr) {
			fail("gate-wrong-error-"+cs.Situation+"-"+shape, fmt.Sprintf("%s in situation %q returned %v, want %v", shape, cs.Situation, err, wantErr))
			continue
		}
		if d := mt.DataMsgDropNotSelectedCount() - d0; d != wantDrop {
			fail("gate-drop-count-"+cs.Situation+"-"+shape, fmt.Sprintf("%s in situation %q moved the not-selected drop counter by %d, want %d", shape, cs.Situation, d, wantDrop))
			continue
		}
		if wantDrop == 1 {
			env.Event("gate_refused_with_one_drop", 1)
		} else {
			env.Event("gate_refused_not_open", 1)
		}
	}
	if mt.DataMsgSendCount() != 0 && sit != "closed" && sit != "between-generations" && sit != "after-separate" && sit != "deselected" {
		fail("gate-send-counter-moved", fmt.Sprintf("DataMsgSendCount()=%d although every call was refused", mt.DataMsgSendCount()))
	}
	if pc == nil {
		return
	}
	// live socket: nothing may have reached the wire; control traffic unaffected; inbound data rejected
	inbound := []peer.Frame{
		peer.Data(1, 1, true, 0x1234, 0xA0000001, []byte{0x41, 0x01, 'x'}),
		peer.Data(6, 11, false, 0xFFFF, 0xA0000002, nil),
		peer.Data(127, 254, false, 0x0042, 0xA0000003, []byte{0x41, 0x7F}),
		// message values a responder might single out: the stream 9 error notices, an abort (function 0), a
		// secondary nobody asked for
		peer.Data(9, 1, false, 0x1234, 0xA0000004, []byte{0x21, 0x0A, 0, 0, 0, 0, 0, 0, 0, 0, 0, 1}),
		peer.Data(9, 9, false, 0x1234, 0xA0000005, nil),
		peer.Data(9, 3, true, 0x1234, 0xA0000006, []byte{0x21, 0x01, 0x00}),
		peer.Data(1, 0, false, 0x1234, 0xA0000007, nil),
		peer.Data(1, 2, false, 0x1234, 0xA0000008, []byte{0x01, 0x00}),
	}
	_ = pc.Send(inbound...)
	before, err := pc.Barrier(10 * time.Second)
	if err != nil {
		fail("control-traffic-affected", fmt.Sprintf("Linktest barrier in situation %q failed: %v (control traffic must be unaffected and the link must stay up)", cs.Situation, err))
		return
	}
	env.Event("control_roundtrips_while_not_selected", 1)
	for _, ev := range pc.Log()[logBefore:] {
		if ev.Frame.IsData() {
			fail("gate-data-on-wire-"+cs.Situation, "a refused data send reached the wire: "+ev.Frame.String())
		}
	}
	var rej []peer.Frame
	for _, f := range before {
		if f.SType == peer.STRejectReq {
			rej = append(rej, f)
		}
	}
	if len(rej) != len(inbound) {
		fail("inbound-not-rejected", fmt.Sprintf("%d inbound data frames while not selected produced %d Reject.req: %v", len(inbound), len(rej), before))
		return
	}
	for k, in := range inbound {
		g := rej[k]
		if g.B3 != 4 || g.Sys != in.Sys || g.Session != in.Session {
			fail("inbound-reject-fields", fmt.Sprintf("inbound %v answered by %v; want Reject reason 4 echoing session id and system bytes", in, g))
		} else {
			env.Event("inbound_rejected_reason4", 1)
		}
	}
	if n := len(dl.snapshot()); n != 0 {
		fail("inbound-delivered-while-not-selected", fmt.Sprintf("%d inbound data messages were delivered to handlers while not selected", n))
	}
}

// ---- race --------------------------------------------------------------------------------------

type c07Rec struct {
	shape string
	token string
	err   error
}

func c07Race(env *fw.Env) {
	total := int64(env.Pick(24, 600))
	for i := int64(0); i < total; i++ {
		if !env.Mine(i) || !env.Want(i) {
			continue
		}
		if env.Stop() {
			return
		}
		c07RaceOne(env, i)
	}
	// the write-boundary window against every way of LEAVING Selected (not only Deselect)
	base := int64(1_000_000)
	k := int64(0)
	for rep := 0; rep < env.Pick(1, 10); rep++ {
		for _, trig := range []string{"close", "peer-separate", "peer-deselect"} {
			for _, shape := range c07Calls {
				i := base + k
				k++
				if !env.Mine(k) || !env.Want(i) {
					continue
				}
				if env.Stop() {
					return
				}
				c07WindowOne(env, i, shape, trig, k%2 == 0)
			}
		}
	}
}

// c07WindowOne parks ONE data send inside the write lock (existing after-write-lock seam), i.e. after it
// passed the pre-send gate while Selected, then makes the connection leave Selected by the given
// trigger, holds the supervisor's teardown back for a moment (vhook react.beforeTeardown) and lets the
// send continue once the harness itself has observed State() != Selected. From that moment the send
// is "a data-sending call while the connection is not Selected": nothing of it may reach the wire.
func c07WindowOne(env *fw.Env, i int64, shape, trig string, active bool) {
	cs := c07Case{Index: i, Situation: "write-boundary-window/" + trig, Active: active, Note: shape}
	env.Begin(i, cs)
	env.Eval(fw.HashStr("window", shape, trig, fmt.Sprint(active)), true)
	env.Sample(cs)
	rg, err := newRig(rigOpts{Active: active, T3: 500 * time.Millisecond, T7: 10 * time.Second})
	if err != nil {
		env.Discard()
		return
	}
	var armed, parked, released atomic.Bool
	var seen atomic.Int32 // State() the parked sender observed before it went on (+1), 0 = never parked
	hsms.VerifSetConnHooks(rg.Core, func() {
		if !armed.Load() || !parked.CompareAndSwap(false, true) {
			return // writes of the select exchange, and every write after the first parked one, pass
		}
		waitFor(3*time.Second, func() bool { return rg.Conn.State() != hsms.SelectedState })
		seen.Store(int32(rg.Conn.State()) + 1)
		released.Store(true)
	}, nil)
	hsms.VerifSetHook("hsms.react.beforeTeardown", func(time.Duration) { time.Sleep(40 * time.Millisecond) })
	defer hsms.VerifSetHook("hsms.react.beforeTeardown", nil)
	pc, err := rg.Establish(func(c *peer.Conn, f peer.Frame) bool { return !f.IsData() })
	if err != nil {
		env.Discard()
		_ = rg.Shutdown()
		return
	}
	defer func() { pc.Close(); _ = rg.Shutdown() }()
	mt := rg.Conn.Metrics()
	drop0 := mt.DataMsgDropNotSelectedCount()
	token := fmt.Sprintf("c07w-%d", i)
	armed.Store(true)
	done := make(chan error, 1)
	go func() {
		ctx, cancel := context.WithTimeout(context.Background(), 5*time.Second)
		defer cancel()
		done <- c07Call(rg.Conn, shape, token, 0x1234, uint32(0x72000000+i), ctx)
	}()
	if !waitFor(5*time.Second, func() bool { return parked.Load() }) {
		env.Discard() // the call never reached the write lock (should not happen on a Selected link)
		return
	}
	closeDone := make(chan struct{})
	switch trig {
	case "close":
		go func() { _ = rg.Conn.Close(); close(closeDone) }()
	case "peer-separate":
		_ = pc.Send(peer.SeparateReq(0x1234, 0x5E9A0000))
		close(closeDone)
	case "peer-deselect":
		_ = pc.Send(peer.DeselectReq(0x1234, 0xDE5E1EC7))
		close(closeDone)
	}
	var callErr error
	select {
	case callErr = <-done:
	case <-time.After(15 * time.Second):
		env.Violate("window-call-hung", fmt.Sprintf("%s parked at the write boundary while the connection left Selected (%s) did not return within 15 s", shape, trig), cs)
		return
	}
	<-closeDone
	if seen.Load() == 0 || hsms.ConnState(seen.Load()-1) == hsms.SelectedState {
		env.Discard() // the trigger did not take effect while the send was parked: premise not met
		return
	}
	env.Event("window_cases", 1)
	env.Event("window_"+trig, 1)
	// everything the library wrote on this connection is in the peer's log once the connection is closed
	// or (deselect) a barrier has been answered
	if trig == "peer-deselect" {
		if _, err := pc.Barrier(10 * time.Second); err != nil {
			env.Violate("window-link-dropped", err.Error(), cs)
			return
		}
		time.Sleep(10 * time.Millisecond)
		_, _ = pc.Barrier(10 * time.Second)
	} else {
		pc.WaitClosed(10 * time.Second)
	}
	for _, ev := range pc.Log() {
		if ev.Frame.IsData() && c06Token(ev.Frame) == token {
			env.Violate("data-written-while-not-selected:"+trig, fmt.Sprintf("%s passed the pre-send gate while Selected, reached the write boundary after State() had become %v (%s) and its frame was still written: %v (call returned %v)",
				shape, hsms.ConnState(seen.Load()-1), trig, ev.Frame, callErr), cs)
			return
		}
	}
	async := shape == "SendDataMessageAsync" || shape == "ReplyDataMessage" || shape == "ForwardDataMessageAsync"
	if !async {
		switch {
		case callErr == nil:
			env.Violate("window-call-succeeded:"+trig, fmt.Sprintf("%s returned nil although nothing of it reached the wire (state at the write boundary %v)", shape, hsms.ConnState(seen.Load()-1)), cs)
		case errors.Is(callErr, hsms.ErrNotSelectedState):
			if d := mt.DataMsgDropNotSelectedCount() - drop0; d != 1 {
				env.Violate("window-drop-count:"+trig, fmt.Sprintf("%s was refused at the write boundary with ErrNotSelectedState but the drop counter moved by %d", shape, d), cs)
			} else {
				env.Event("window_refused_with_one_drop", 1)
			}
		case errors.Is(callErr, hsms.ErrConnClosed):
			env.Event("window_conn_closed", 1)
		default:
			env.Violate("window-unexpected-error:"+trig, fmt.Sprintf("%s returned %v", shape, callErr), cs)
		}
	} else {
		env.Event("window_async_frame_suppressed", 1)
	}
}

func c07RaceOne(env *fw.Env, i int64) {
	r := env.RandAt("race", i)
	cs := c07Case{Index: i, Active: i%2 == 0, Delays: r.IntN(2) == 0}
	env.Begin(i, cs)
	env.Eval(fw.HashStr("race", fmt.Sprint(i, cs.Active, cs.Delays)), true)
	env.Sample(cs)
	rg, err := newRig(rigOpts{Active: cs.Active, T3: 400 * time.Millisecond})
	if err != nil {
		env.Discard()
		return
	}
	var deselectAsk atomic.Int32
	var b2hits atomic.Int64
	hsms.VerifSetConnHooks(rg.Core, func() {
		// inside writeMu, between the pre-send gate and the write-boundary re-check: ask the peer for a
		// Deselect and give it a moment to land (bounded; never a verdict)
		if splitmix(uint64(i)^uint64(b2hits.Add(1)))%4 != 0 {
			return
		}
		if rg.Conn.State() != hsms.SelectedState {
			return
		}
		deselectAsk.Add(1)
		waitFor(30*time.Millisecond, func() bool { return rg.Conn.State() != hsms.SelectedState })
	}, nil)
	if cs.Delays {
		undo := installDelays(env.Seed+uint64(i)*3, 800*time.Microsecond, 4, "hsms.sup.beforeStep", "hsmsss.recv.beforeDispatch", "hsms.send.afterLoadEpoch", "hsms.drain.beforeWrite", "hsms.async.beforeEnqueue")
		defer func() { env.Event("delays_injected", undo()) }()
	}
	// peer behaviour: reply to W primaries (same system bytes, function+1)
	onFrame := func(c *peer.Conn, f peer.Frame) bool {
		if f.IsData() && f.WBit() {
			_ = c.Send(peer.Data(f.Stream(), f.Function()+1, false, f.Session, f.Sys, nil))
		}

		return !f.IsData()
	}
	pc, err := rg.Establish(onFrame)
	if err != nil {
		env.Note("establish: %v", err)
		env.Discard()
		_ = rg.Shutdown()
		return
	}
	defer func() { pc.Close(); _ = rg.Shutdown() }()
	mt := rg.Conn.Metrics()
	drop0, aerr0 := mt.DataMsgDropNotSelectedCount(), mt.AsyncSendErrCount()

	stop := make(chan struct{})
	var togWG sync.WaitGroup
	togWG.Add(1)
	go func() { // the peer toggles the session
		defer togWG.Done()
		selected := true
		n := uint32(0)
		seen := int32(0)
		for {
			select {
			case <-stop:
				if !selected {
					_ = pc.Send(peer.SelectReq(0x1234, 0xE0000000|n))
				}

				return
			default:
			}
			ask := deselectAsk.Load()
			if selected && (ask != seen || n%3 == 0) {
				seen = ask
				_ = pc.Send(peer.DeselectReq(0x1234, 0xE1000000|n))
				selected = false
			} else if !selected {
				_ = pc.Send(peer.SelectReq(0x1234, 0xE0000000|n))
				selected = true
			}
			n++
			time.Sleep(time.Duration(200+splitmix(uint64(n))%1500) * time.Microsecond)
		}
	}()

	senders := 4
	per := 12
	recs := make([][]c07Rec, senders)
	var wg sync.WaitGroup
	for s := 0; s < senders; s++ {
		wg.Add(1)
		go func(s int) {
			defer wg.Done()
			rr := env.RandAt(fmt.Sprintf("race-sender-%d", s), i)
			for k := 0; k < per; k++ {
				shape := c07Calls[rr.IntN(len(c07Calls))]
				token := fmt.Sprintf("c07r-%d-%d-%d", i, s, k)
				ctx, cancel := context.WithTimeout(context.Background(), 5*time.Second)
				err := c07Call(rg.Conn, shape, token, 0x1234, uint32(0x71000000+s*1000+k), ctx)
				cancel()
				recs[s] = append(recs[s], c07Rec{shape, token, err})
			}
		}(s)
	}
	wg.Wait()
	close(stop)
	togWG.Wait()
	if _, err := pc.Barrier(10 * time.Second); err != nil {
		env.Violate("race-link-dropped", fmt.Sprintf("select/deselect toggling with concurrent sends dropped the link or wedged the receiver: %v", err), cs)
		return
	}
	// async queue drained? wait until the async sender has consumed everything: a second barrier after a short settle
	time.Sleep(20 * time.Millisecond)
	if _, err := pc.Barrier(10 * time.Second); err != nil {
		env.Violate("race-link-dropped", err.Error(), cs)
		return
	}
	atPeer := map[string]int{}
	for _, ev := range pc.Log() {
		if ev.Frame.IsData() {
			// token is the ASCII payload
			b := ev.Frame.Body
			if len(b) > 2 && b[0] == 0x41 {
				atPeer[string(b[2:])]++
			}
		}
	}
	var syncRefused, asyncRefused, asyncOK, asyncAtPeer int64
	for s := range recs {
		for _, rc := range recs[s] {
			env.Event("race_calls", 1)
			async := rc.shape == "SendDataMessageAsync" || rc.shape == "ReplyDataMessage" || rc.shape == "ForwardDataMessageAsync"
			n := atPeer[rc.token]
			switch {
			case errors.Is(rc.err, hsms.ErrNotSelectedState):
				if n != 0 {
					env.Violate("race-refused-call-on-wire", fmt.Sprintf("%s (%s) returned ErrNotSelectedState but its frame reached the peer %d time(s)", rc.shape, rc.token, n), cs)
				}
				if async {
					asyncRefused++
				} else {
					syncRefused++
				}
				env.Event("race_refused", 1)
			case async && rc.err == nil:
				asyncOK++
				asyncAtPeer += int64(n)
				if n > 1 {
					env.Violate("race-duplicate-frame", fmt.Sprintf("%s (%s) appeared %d times at the peer", rc.shape, rc.token, n), cs)
				}
			case rc.err == nil || errors.Is(rc.err, hsms.ErrT3Timeout):
				if n != 1 {
					env.Violate("race-accepted-call-not-on-wire", fmt.Sprintf("%s (%s) returned %v (accepted for sending) but appeared %d time(s) at the peer", rc.shape, rc.token, rc.err, n), cs)
				}
				env.Event("race_on_wire", 1)
			default:
				var re *hsms.RejectError
				if errors.As(rc.err, &re) {
					if n != 1 {
						env.Violate("race-accepted-call-not-on-wire", fmt.Sprintf("%s (%s) was rejected by the peer (so it was written) but appeared %d time(s)", rc.shape, rc.token, n), cs)
					}
					env.Event("race_on_wire", 1)
				} else {
					env.Violate("race-unexpected-error", fmt.Sprintf("%s (%s) returned %v", rc.shape, rc.token, rc.err), cs)
				}
			}
		}
	}
	drops := int64(mt.DataMsgDropNotSelectedCount() - drop0)
	aerrs := int64(mt.AsyncSendErrCount() - aerr0)
	lateDrops := asyncOK - asyncAtPeer
	if aerrs != lateDrops {
		env.Violate("race-async-conservation", fmt.Sprintf("async sends accepted=%d, frames at peer=%d, AsyncSendErrCount moved by %d (want %d)", asyncOK, asyncAtPeer, aerrs, lateDrops), cs)
	}
	if drops != syncRefused+asyncRefused+lateDrops {
		env.Violate("race-drop-conservation", fmt.Sprintf("drop counter moved by %d; refused sync calls=%d, refused async enqueues=%d, async frames dropped at the write boundary=%d", drops, syncRefused, asyncRefused, lateDrops), cs)
	}
	env.Event("race_b2_window_hits", int64(deselectAsk.Load()))
	env.Event("race_async_dropped_at_write_boundary", lateDrops)
}

// ---- pipeline ----------------------------------------------------------------------------------

func c07Pipeline(env *fw.Env) {
	// the byte string: [Select.req | Select.rsp] + k data frames; cut positions 1..len-1
	idx := int64(0)
	reps := env.Pick(1, 6)
	for rep := 0; rep < reps; rep++ {
		for _, active := range []bool{false, true} {
			k := 3
			total := 14 + k*(14+5)
			for cut := 0; cut < total; cut++ { // cut 0 = one segment
				i := idx
				idx++
				if !env.Mine(i) || !env.Want(i) {
					continue
				}
				if env.Stop() {
					return
				}
				cut2 := -1
				if !env.Quick() && rep >= 3 {
					cut2 = int(splitmix(uint64(i)*7+env.Seed) % uint64(total))
				}
				c07PipeOne(env, i, active, k, cut, cut2, rep%2 == 1)
			}
		}
	}
}

func c07PipeOne(env *fw.Env, i int64, active bool, k, cut, cut2 int, delays bool) {
	cs := c07Case{Index: i, Active: active, Delays: delays, Note: fmt.Sprintf("k=%d cut=%d cut2=%d", k, cut, cut2)}
	env.Begin(i, cs)
	env.Eval(fw.HashStr("pipe", fmt.Sprint(active, k, cut, cut2, delays)), true)
	env.Sample(cs)
	env.Event("pipeline_cases", 1)
	rg, err := newRig(rigOpts{Active: active})
	if err != nil {
		env.Discard()
		return
	}
	dl := &deliveryLog{}
	rg.Conn.AddDataMessageHandler(dl.handler(0))
	if delays {
		undo := installDelays(env.Seed+uint64(i)*5, 2*time.Millisecond, 6, "hsms.sup.beforeStep")
		defer func() { env.Event("delays_injected", undo()) }()
	}
	if err := rg.Open(); err != nil {
		env.Violate("open-failed", err.Error(), cs)
		return
	}
	defer func() { _ = rg.Shutdown() }()
	pc, err := rg.PeerConnect(10 * time.Second)
	if err != nil {
		env.Discard()
		return
	}
	defer pc.Close()
	pc.Start()
	var stream []byte
	if active {
		f, _, err := pc.Expect(10*time.Second, func(f peer.Frame) bool { return f.SType == peer.STSelectReq })
		if err != nil {
			env.Violate("active-no-select-req", err.Error(), cs)
			return
		}
		stream = append(stream, peer.SelectRsp(f.Session, 0, f.Sys).Bytes()...)
	} else {
		stream = append(stream, peer.SelectReq(0x1234, 0x51515151).Bytes()...)
	}
	var want []uint32
	for j := 0; j < k; j++ {
		sys := uint32(0x90000000 + j)
		want = append(want, sys)
		stream = append(stream, peer.Data(2, byte(1+2*j), false, 0x1234, sys, []byte{0x41, 0x03, 'p', 'i', byte('0' + j)}).Bytes()...)
	}
	var cuts []int
	if cut > 0 {
		cuts = append(cuts, cut)
	}
	if cut2 > 0 && cut2 != cut {
		cuts = append(cuts, cut2)
		if len(cuts) == 2 && cuts[0] > cuts[1] {
			cuts[0], cuts[1] = cuts[1], cuts[0]
		}
	}
	if _, err := pc.SendSegments(stream, cuts, 300*time.Microsecond); err != nil {
		env.Discard()
		return
	}
	before, err := pc.Barrier(10 * time.Second)
	if err != nil {
		env.Violate("pipeline-link-dropped", fmt.Sprintf("after select + pipelined data the link no longer answers: %v", err), cs)
		return
	}
	for _, f := range before {
		if f.SType == peer.STRejectReq {
			env.Violate("pipelined-data-rejected", fmt.Sprintf("data pipelined directly behind the select was answered with %v", f), cs)
			return
		}
	}
	var got []uint32
	for _, d := range dl.snapshot() {
		got = append(got, d.Sys)
	}
	if fmt.Sprint(got) != fmt.Sprint(want) {
		env.Violate("pipelined-data-lost", fmt.Sprintf("pipelined data deliveries %08x, want %08x", got, want), cs)
		return
	}
	for j, d := range dl.snapshot() {
		if !bytes.Equal(d.Body, []byte{0x41, 0x03, 'p', 'i', byte('0' + j)}) {
			env.Violate("pipelined-data-altered", fmt.Sprintf("delivery %d body %x", j, d.Body), cs)
		}
	}
	env.Event("pipelined_data_delivered", int64(len(got)))
}
