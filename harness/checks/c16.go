package checks

import (
	"bytes"
	"errors"
	"fmt"
	"math"
	"math/big"
	"math/rand/v2"
	"reflect"
	"strings"

	"github.com/arloliu/go-secs/v2/hsms"
	"github.com/arloliu/go-secs/v2/secs2"

	"verif/fw"
	"verif/ref/clamp"
	"verif/ref/e5"
)

// C16 — constructors never panic, clamp not wrap; errored items never reach the wire.
//
// This file holds the PURE (no network) half: phase "pure". The on-the-wire half (send calls on
// live connections) is a separate phase; the worker dispatches on env.Phase.
func init() {
	fw.Register(&fw.Check{
		ID:    "C16",
		Level: "exploration",
		Rule: "case i (pure function of seed,i) = constructor family (int|uint|float|binary|boolean|list+string) x byteSize in {-1,0,1,2,3,4,5,8,16} x a vector of 0..5 supplied " +
			"values drawn from the bounds of every width and every carrier Go type (b-2..b+2 for b in ±2^7,±2^15,±2^31,±2^63,2^8,2^16,2^32,2^64, ±2^53, 10^30; float: ±MaxFloat32 and its " +
			"float64 neighbours, the float32 rounding boundary, 2^128, ±MaxFloat64, subnormals, ±Inf, NaN, decimal literals beyond float64) rendered in up to 10 call shapes: all scalars " +
			"(drawn Go type that holds the value, or a decimal/hex/octal literal), one slice, decimal strings, []string, mixed scalars+slices, shortcut function (I1..F8,B,BOOLEAN), " +
			"empty forms, an undocumented-type argument inserted (nil, uintptr, named types, struct, map, chan, func, pointers, arrays, []any, complex, items, ...), a foreign numeric/bool " +
			"type inserted, an unparsable string inserted. Every call is recover-wrapped and judged against harness/ref/clamp (written from the property text and the constructor doc " +
			"comments): no panic; MustErr => Error()!=nil; otherwise exact values / clamp bounds through To*, *At, iterators, Size and the E5 reference encoding; shapes of one vector " +
			"that are error-free are pairwise Equal with identical ToBytes; every errored item goes through the errored battery (not Equal to itself / an identical errored twin / a valid " +
			"item / nil, alone and nested to depth 5 at first/middle/last position; refused by NewDataMessage, NewDataMessageFromHeader and Derive().WithItem().Build()). " +
			"distinct = hash(constructor, byteSize, rendered argument list); non-trivial = the call has at least one argument or an invalid byteSize",
		Assumptions: []string{
			"which Go types a constructor supports is defined by its doc comment (unnamed builtin types listed there, scalar or slice form); every other type is 'unsupported'",
			"where the docs explicitly say an out-of-range argument is an ERROR (negative for unsigned, |integer|>2^53 for float, byte outside [0,255]) both the clamp bound and an errored item are accepted, never another value",
			"a decimal literal beyond the float64 range (1e400) is accepted either as the clamp bound of the width or as an errored item (the docs do not settle it); strings with '+' sign likewise; strings with underscores, inf/nan, hex floats are judged for 'no panic' only",
			"F4 values are compared at float32 precision (the item documents narrowing at encode time); any NaN matches any NaN",
		},
		Phases: func(tier string) []fw.Phase {
			return []fw.Phase{
				{Name: "pure", Shards: 16, Timeout: tierDur(tier, 6, 40)},
				// on-the-wire half (c16_wire.go): errored items against every send call of a live connection
				{Name: "wire", Race: true, Shards: 6, Timeout: tierDur(tier, 6, 40), HangIsViolation: true},
			}
		},
		Worker: func(env *fw.Env) {
			switch env.Phase {
			case "pure":
				c16Pure(env)
			default:
				// the on-the-wire half registers its own phase names and is dispatched here
				if c16Wire != nil {
					c16Wire(env)
				}
			}
		},
		RequiredEvents: []string{"calls", "errored_items", "clamped_values_checked", "exact_items", "cross_shape_pairs", "equal_checks_on_errored",
			"refused_by_NewDataMessage", "refused_by_Derive_Build", "nested_errored_checked", "unsupported_type_args", "garbage_string_args", "invalid_bytesize_calls", "wire_errored_sends", "wire_refused", "wire_valid_roundtrips"},
	})
}

var c16TypedNilNoted bool

// c16Wire is set by the on-the-wire half (added separately).
var c16Wire func(env *fw.Env)

// (the last ones are invalid sizes that turn into a valid width when truncated to 32 or 8 bits)
var c16ByteSizes = []int{-1, 0, 1, 2, 3, 4, 5, 8, 16, 1<<32 + 1, 1<<32 + 2, 1<<32 + 4, 1<<32 + 8, -(1 << 32) + 4, 1<<33 + 8, 256 + 2, 65536 + 4}

type c16Call struct {
	Ctor     string `json:"ctor"`
	ByteSize int    `json:"byte_size"`
	Shape    string `json:"shape"`
	Args     string `json:"args"`
	args     []any
	fam      clamp.Family
	short    bool
}

type c16Case struct {
	Index int64   `json:"index"`
	Call  c16Call `json:"call"`
	Want  string  `json:"want,omitempty"`
}

func c16RenderArgs(args []any) string {
	var sb strings.Builder
	for i, a := range args {
		if i > 0 {
			sb.WriteString(", ")
		}
		if sb.Len() > 600 {
			sb.WriteString("…")
			break
		}
		switch v := a.(type) {
		case nil:
			sb.WriteString("nil")
		case string:
			if len(v) > 60 {
				fmt.Fprintf(&sb, "string(%q…[%d])", v[:60], len(v))
			} else {
				fmt.Fprintf(&sb, "%q", v)
			}
		case secs2.Item:
			fmt.Fprintf(&sb, "%T(item)", v)
		case float32:
			fmt.Fprintf(&sb, "float32(%v /*bits %08x*/)", v, math.Float32bits(v))
		case float64:
			fmt.Fprintf(&sb, "float64(%v /*bits %016x*/)", v, math.Float64bits(v))
		default:
			rv := reflect.ValueOf(a)
			switch rv.Kind() { //nolint:exhaustive
			case reflect.Chan, reflect.Func, reflect.Pointer, reflect.Map, reflect.UnsafePointer:
				fmt.Fprintf(&sb, "%T(…)", a)
			default:
				fmt.Fprintf(&sb, "%T(%v)", a, a)
			}
		}
	}

	return sb.String()
}

func c16Pure(env *fw.Env) {
	total := int64(env.Pick(10000, 1200000))
	for i := int64(0); i < total; i++ {
		if !env.Mine(i) || !env.Want(i) {
			continue
		}
		if env.Stop() {
			break
		}
		r := env.RandAt("case", i)
		switch i % 6 {
		case 0:
			c16Numeric(env, i, r, clamp.Int)
		case 1:
			c16Numeric(env, i, r, clamp.Uint)
		case 2:
			c16Numeric(env, i, r, clamp.Float)
		case 3:
			c16Numeric(env, i, r, clamp.Binary)
		case 4:
			c16Numeric(env, i, r, clamp.Boolean)
		default:
			c16ListString(env, i, r)
		}
	}
}

// ---- invoking ----------------------------------------------------------------------------------

func c16Invoke(c *c16Call) (it secs2.Item, p any) {
	defer func() { p = recover() }()
	bs := c.ByteSize
	if c.short {
		switch c.fam {
		case clamp.Int:
			return map[int]func(...any) secs2.Item{1: secs2.I1, 2: secs2.I2, 4: secs2.I4, 8: secs2.I8}[bs](c.args...), nil
		case clamp.Uint:
			return map[int]func(...any) secs2.Item{1: secs2.U1, 2: secs2.U2, 4: secs2.U4, 8: secs2.U8}[bs](c.args...), nil
		case clamp.Float:
			return map[int]func(...any) secs2.Item{4: secs2.F4, 8: secs2.F8}[bs](c.args...), nil
		case clamp.Binary:
			return secs2.B(c.args...), nil
		case clamp.Boolean:
			return secs2.BOOLEAN(c.args...), nil
		}
	}
	switch c.fam {
	case clamp.Int:
		return secs2.NewIntItem(bs, c.args...), nil
	case clamp.Uint:
		return secs2.NewUintItem(bs, c.args...), nil
	case clamp.Float:
		return secs2.NewFloatItem(bs, c.args...), nil
	case clamp.Binary:
		return secs2.NewBinaryItem(c.args...), nil
	default:
		return secs2.NewBooleanItem(c.args...), nil
	}
}

func c16CtorName(fam clamp.Family, bs int, short bool) string {
	if short {
		switch fam {
		case clamp.Int:
			return fmt.Sprintf("I%d", bs)
		case clamp.Uint:
			return fmt.Sprintf("U%d", bs)
		case clamp.Float:
			return fmt.Sprintf("F%d", bs)
		case clamp.Binary:
			return "B"
		default:
			return "BOOLEAN"
		}
	}

	return [...]string{"NewIntItem", "NewUintItem", "NewFloatItem", "NewBinaryItem", "NewBooleanItem"}[fam]
}

// ---- numeric / boolean / binary families --------------------------------------------------------

type c16Built struct {
	call c16Call
	want clamp.Want
	item secs2.Item
	err  error
}

func c16Numeric(env *fw.Env, i int64, r *rand.Rand, fam clamp.Family) { //nolint:gocyclo
	bs := c16ByteSizes[int(i/6)%len(c16ByteSizes)]
	if fam == clamp.Binary || fam == clamp.Boolean {
		bs = 1
	}
	// a few more cases on the valid widths than on the invalid ones
	if !clamp.ValidByteSize(fam, bs) && r.IntN(3) > 0 {
		bs = []int{1, 2, 4, 8}[r.IntN(4)]
		if fam == clamp.Float {
			bs = []int{4, 8}[r.IntN(2)]
		}
	}
	n := []int{0, 1, 1, 1, 2, 2, 3, 4, 5}[r.IntN(9)]

	// ---- the supplied value vector and its renderings
	var shapes []c16Call
	add := func(shape string, args []any) {
		shapes = append(shapes, c16Call{ByteSize: bs, Shape: shape, args: args, fam: fam})
	}
	var scalars func() []any
	var slice func(lo, hi int) any
	switch fam {
	case clamp.Int, clamp.Uint, clamp.Binary:
		vs := make([]*big.Int, n)
		for k := range vs {
			vs[k] = c16DrawInt(r)
			if fam == clamp.Uint && r.IntN(3) > 0 {
				vs[k] = new(big.Int).Abs(vs[k])
			}
			if fam == clamp.Binary && r.IntN(4) > 0 {
				vs[k] = big.NewInt(int64(r.IntN(256)))
			}
		}
		scalars = func() []any {
			out := make([]any, n)
			for k, v := range vs {
				out[k] = c16IntScalar(r, v, fam)
			}

			return out
		}
		slice = func(lo, hi int) any { return c16IntSlice(r, vs[lo:hi], fam) }
		decs := make([]any, n)
		strs := make([]string, n)
		for k, v := range vs {
			decs[k] = v.Text(10)
			strs[k] = c16IntString(r, v, "dx0o")
		}
		add("decimal-strings", decs)
		lits := make([]any, n)
		for k, v := range vs {
			if fam == clamp.Binary {
				lits[k] = c16IntString(r, v, "dx0ob")
			} else {
				lits[k] = c16IntString(r, v, "dx0o")
			}
		}
		add("literal-strings", lits)
		if fam != clamp.Binary {
			add("[]string", []any{strs})
		}
	case clamp.Float:
		vs := make([]c16FVal, n)
		for k := range vs {
			vs[k] = c16DrawFVal(r)
		}
		scalars = func() []any {
			out := make([]any, n)
			for k, v := range vs {
				out[k] = c16FloatScalar(r, v)
			}

			return out
		}
		slice = func(lo, hi int) any { return c16FloatSlice(r, vs[lo:hi]) }
	case clamp.Boolean:
		vs := make([]bool, n)
		for k := range vs {
			vs[k] = r.IntN(2) == 0
		}
		scalars = func() []any {
			out := make([]any, n)
			for k, v := range vs {
				out[k] = v
			}

			return out
		}
		slice = func(lo, hi int) any { return append([]bool{}, vs[lo:hi]...) }
	}
	add("scalars", scalars())
	add("scalars-2", scalars())
	if s := slice(0, n); s != nil {
		add("one-slice", []any{s})
	}
	if n >= 2 {
		// mixed: scalars and slices interleaved
		var args []any
		sc := scalars()
		for k := 0; k < n; {
			if r.IntN(2) == 0 {
				args = append(args, sc[k])
				k++

				continue
			}
			m := 1 + r.IntN(n-k)
			if s := slice(k, k+m); s != nil {
				args = append(args, s)
			} else {
				args = append(args, sc[k:k+m]...)
			}
			k += m
		}
		add("mixed", args)
	}
	if n == 0 {
		// empty forms
		add("no-args", nil)
		empties := map[clamp.Family][]any{
			clamp.Int:     {[]int{}, []int64(nil), []string{}, []uint8{}, []int8(nil)},
			clamp.Uint:    {[]uint{}, []uint64(nil), []string{}, []int32{}, []uint16(nil)},
			clamp.Float:   {[]float64{}, []float32(nil), []string{}, []int{}, []uint64(nil)},
			clamp.Binary:  {[]byte{}, []byte(nil)},
			clamp.Boolean: {[]bool{}, []bool(nil)},
		}[fam]
		add("empty-slice", []any{empties[r.IntN(len(empties))]})
		add("two-empty-slices", []any{empties[r.IntN(len(empties))], empties[r.IntN(len(empties))]})
	}
	// hostile insertions into the scalar shape
	insert := func(base []any, x any) []any {
		pos := r.IntN(len(base) + 1)
		out := append([]any{}, base[:pos]...)
		out = append(out, x)

		return append(out, base[pos:]...)
	}
	add("undocumented-type-inserted", insert(scalars(), c16Other(r)))
	add("foreign-type-inserted", insert(scalars(), c16Foreign(fam, r)))
	if fam != clamp.Boolean {
		g := c16Garbage[r.IntN(len(c16Garbage))]
		if fam != clamp.Float && r.IntN(4) == 0 {
			g = c16NotAnInt[r.IntN(len(c16NotAnInt))]
		}
		if r.IntN(3) == 0 && fam != clamp.Binary {
			add("garbage-in-[]string", insert(scalars(), []string{"1", g}))
		} else {
			add("garbage-string-inserted", insert(scalars(), g))
		}
		if r.IntN(4) == 0 {
			add("plus-signed-string", insert(scalars(), "+7"))
		}
		if r.IntN(6) == 0 {
			add("undecided-string", insert(scalars(), []string{"1_0", "inf", "NaN", "0x1p4", "Infinity", "0b101", "08"}[r.IntN(7)]))
		}
	}
	// shortcut twins
	if clamp.ValidByteSize(fam, bs) {
		k := len(shapes)
		for j := 0; j < k; j++ {
			if r.IntN(3) == 0 {
				s := shapes[j]
				s.short = true
				s.Shape += "/shortcut"
				shapes = append(shapes, s)
			}
		}
	}

	// ---- call and judge each shape
	var built []c16Built
	for k := range shapes {
		c := &shapes[k]
		c.Ctor = c16CtorName(fam, bs, c.short)
		c.Args = c16RenderArgs(c.args)
		cs := c16Case{Index: i, Call: *c}
		env.Want(i)
		nontrivial := len(c.args) > 0 || !clamp.ValidByteSize(fam, bs)
		env.Eval(fw.HashStr(c.Ctor, fmt.Sprint(bs), c.Args), nontrivial)
		env.Event("calls", 1)
		want := clamp.Expect(fam, bs, c.args)
		cs.Want = c16WantString(fam, &want)
		env.Sample(cs)
		if !clamp.ValidByteSize(fam, bs) {
			env.Event("invalid_bytesize_calls", 1)
		}
		if strings.HasPrefix(want.Why, "unsupported argument type") {
			env.Event("unsupported_type_args", 1)
		}
		if strings.HasPrefix(want.Why, "unparsable string") {
			env.Event("garbage_string_args", 1)
		}
		it, p := c16Invoke(c)
		if p != nil {
			env.Violate("panic:"+c.Ctor+":"+c16ArgClass(c.args), fmt.Sprintf("%s(%s) panicked: %v", c16CallString(c), c.Args, p), cs)
			continue
		}
		if it == nil {
			env.Violate("nil-item:"+c.Ctor, fmt.Sprintf("%s(%s) returned a nil item", c16CallString(c), c.Args), cs)
			continue
		}
		b := c16Built{call: *c, want: want, item: it}
		if p := catch(func() { b.err = it.Error() }); p != nil {
			env.Violate("panic:Error:"+c.Ctor, fmt.Sprintf("Error() of %s(%s) panicked: %v", c16CallString(c), c.Args, p), cs)
			continue
		}
		c16Judge(env, &b, cs)
		built = append(built, b)
	}

	// ---- cross-shape: error-free shapes of the same vector with the same expectation are Equal
	var ref *c16Built
	for k := range built {
		b := &built[k]
		if b.err != nil || b.want.MustErr || b.want.Unknown || b.want.MayErr {
			continue
		}
		if ref == nil {
			ref = b
			continue
		}
		if !c16SameWant(fam, &ref.want, &b.want) {
			continue
		}
		env.Event("cross_shape_pairs", 1)
		cs := c16Case{Index: i, Call: b.call, Want: "Equal to " + c16CallString(&ref.call) + "(" + ref.call.Args + ")"}
		var eq1, eq2 bool
		if p := catch(func() { eq1, eq2 = secs2.Equal(ref.item, b.item), secs2.Equal(b.item, ref.item) }); p != nil {
			env.Violate("panic:Equal", fmt.Sprintf("Equal panicked: %v", p), cs)
			continue
		}
		if !eq1 || !eq2 {
			env.Violate("shapes-not-equal:"+fam.String(), fmt.Sprintf("%s(%s) and %s(%s) denote the same values but Equal = %v/%v",
				c16CallString(&ref.call), ref.call.Args, c16CallString(&b.call), b.call.Args, eq1, eq2), cs)
		}
		if x, y := ref.item.ToBytes(), b.item.ToBytes(); !bytes.Equal(x, y) && !c16HasNaN(&b.want) {
			env.Violate("shapes-encode-differently:"+fam.String(), fmt.Sprintf("%s(%s) encodes as %x but %s(%s) as %x",
				c16CallString(&ref.call), ref.call.Args, x, c16CallString(&b.call), b.call.Args, y), cs)
		}
	}
}

func c16HasNaN(w *clamp.Want) bool {
	for _, f := range w.Floats {
		if f != f {
			return true
		}
	}

	return false
}

func c16CallString(c *c16Call) string {
	if c.short || c.fam == clamp.Binary || c.fam == clamp.Boolean {
		return c.Ctor
	}

	return fmt.Sprintf("%s[byteSize=%d]", c.Ctor, c.ByteSize)
}

// c16ArgClass names the argument types of a call (key material: stable, no values).
func c16ArgClass(args []any) string {
	seen := map[string]bool{}
	var out []string
	for _, a := range args {
		t := clamp.TypeName(a)
		if !seen[t] {
			seen[t] = true
			out = append(out, t)
		}
	}
	if len(out) > 3 {
		out = out[:3]
	}

	return strings.Join(out, ",")
}

func c16WantString(fam clamp.Family, w *clamp.Want) string {
	switch {
	case w.MustErr:
		return "Error()!=nil (" + w.Why + ")"
	case w.Unknown:
		return "no panic (undecided string form)"
	}
	var v string
	switch fam {
	case clamp.Int:
		v = fmt.Sprint(w.Ints)
	case clamp.Uint:
		v = fmt.Sprint(w.Uints)
	case clamp.Float:
		v = fmt.Sprint(w.Floats)
	case clamp.Binary:
		v = fmt.Sprintf("%x", w.Bytes)
	default:
		v = fmt.Sprint(w.Bools)
	}
	if len(v) > 200 {
		v = v[:200] + "…"
	}
	if w.MayErr {
		return v + " or Error()!=nil (" + w.Why + ")"
	}

	return v
}

func c16SameWant(fam clamp.Family, a, b *clamp.Want) bool {
	switch fam {
	case clamp.Int:
		return reflect.DeepEqual(a.Ints, b.Ints)
	case clamp.Uint:
		return reflect.DeepEqual(a.Uints, b.Uints)
	case clamp.Float:
		if len(a.Floats) != len(b.Floats) {
			return false
		}
		for i := range a.Floats {
			if math.Float64bits(a.Floats[i]) != math.Float64bits(b.Floats[i]) {
				return false
			}
		}

		return true
	case clamp.Binary:
		return bytes.Equal(a.Bytes, b.Bytes)
	default:
		return reflect.DeepEqual(a.Bools, b.Bools)
	}
}

// c16Judge compares one constructed item with the reference expectation.
func c16Judge(env *fw.Env, b *c16Built, cs c16Case) { //nolint:gocyclo
	c, w, it := &b.call, &b.want, b.item
	fam := c.fam
	callStr := c16CallString(c) + "(" + c.Args + ")"
	if w.MustErr {
		if b.err == nil {
			why := w.Why
			if strings.HasPrefix(why, "unsupported argument type ") {
				why = "unsupported-type:" + strings.TrimPrefix(why, "unsupported argument type ")
				if i := strings.Index(why, " for "); i > 0 {
					why = why[:i]
				}
			} else if strings.HasPrefix(why, "unparsable") {
				why = "unparsable-string"
			} else {
				why = "invalid-byte-size"
			}
			env.Violate("no-error:"+fam.String()+":"+why, fmt.Sprintf("%s has Error()==nil; expected a deferred error (%s); item is %s", callStr, w.Why, safeSML(it)), cs)

			return
		}
		env.Event("errored_items", 1)
		c16ErroredBattery(env, b, cs)

		return
	}
	if b.err != nil {
		env.Event("errored_items", 1)
		c16ErroredBattery(env, b, cs)
		if w.Unknown || w.MayErr {
			env.Event("documented_error_instead_of_clamp", 1)
			return
		}
		env.Violate("unexpected-error:"+fam.String()+":"+c16ArgClass(c.args), fmt.Sprintf("%s has Error()=%v; every argument is a documented type with a valid value, expected %s", callStr, b.err, cs.Want), cs)

		return
	}
	if w.Unknown {
		env.Event("undecided_string_calls", 1)
		return
	}
	// ---- values
	bad := func(kind string, idx int, got, want any) {
		key := "wrong-value:" + fam.String()
		msg := fmt.Sprintf("%s: %s[%d] = %v, expected %v", callStr, kind, idx, got, want)
		if idx >= 0 && idx < len(w.Clamped) && w.Clamped[idx] {
			key = "not-clamped:" + fam.String()
			msg += " (the supplied value is outside the target range: the clamp bound is required)"
			if idx < len(w.Raw) && w.Raw[idx] != nil {
				ws, wu := clamp.Wrapped(fam, c.ByteSize, w.Raw[idx])
				if fmt.Sprint(got) == fmt.Sprint(ws) || fmt.Sprint(got) == fmt.Sprint(wu) {
					key = "wrapped:" + fam.String()
					msg += fmt.Sprintf(" — the value is the two's-complement truncation of %s: WRAPPED", w.Raw[idx])
				}
			}
		}
		if idx >= 0 && idx < len(w.ArgType) {
			key += ":" + w.ArgType[idx]
		}
		if fam != clamp.Binary && fam != clamp.Boolean {
			key += fmt.Sprintf("->w%d", c.ByteSize)
		}
		env.Violate(key, msg, cs)
	}
	var node *e5.Node
	var count int
	ok := true
	clamped := int64(0)
	for _, cl := range w.Clamped {
		if cl {
			clamped++
		}
	}
	switch fam {
	case clamp.Int:
		count = len(w.Ints)
		got, err := it.ToInt()
		if err != nil || len(got) != count {
			env.Violate("wrong-count:int", fmt.Sprintf("%s: ToInt() = %v, %v; expected %v", callStr, got, err, w.Ints), cs)
			return
		}
		k := 0
		for v := range it.Ints() {
			if k < count && v != w.Ints[k] {
				bad("Ints()", k, v, w.Ints[k])
				ok = false
			}
			k++
		}
		for k := range got {
			at, aerr := it.IntAt(k)
			if got[k] != w.Ints[k] {
				bad("ToInt()", k, got[k], w.Ints[k])
				ok = false
			} else if aerr != nil || at != w.Ints[k] {
				bad("IntAt", k, at, w.Ints[k])
				ok = false
			}
		}
		node = &e5.Node{FC: map[int]uint8{1: e5.I1, 2: e5.I2, 4: e5.I4, 8: e5.I8}[c.ByteSize], Ints: w.Ints}
	case clamp.Uint:
		count = len(w.Uints)
		got, err := it.ToUint()
		if err != nil || len(got) != count {
			env.Violate("wrong-count:uint", fmt.Sprintf("%s: ToUint() = %v, %v; expected %v", callStr, got, err, w.Uints), cs)
			return
		}
		k := 0
		for v := range it.Uints() {
			if k < count && v != w.Uints[k] {
				bad("Uints()", k, v, w.Uints[k])
				ok = false
			}
			k++
		}
		for k := range got {
			at, aerr := it.UintAt(k)
			if got[k] != w.Uints[k] {
				bad("ToUint()", k, got[k], w.Uints[k])
				ok = false
			} else if aerr != nil || at != w.Uints[k] {
				bad("UintAt", k, at, w.Uints[k])
				ok = false
			}
		}
		node = &e5.Node{FC: map[int]uint8{1: e5.U1, 2: e5.U2, 4: e5.U4, 8: e5.U8}[c.ByteSize], Uints: w.Uints}
	case clamp.Float:
		count = len(w.Floats)
		got, err := it.ToFloat()
		if err != nil || len(got) != count {
			env.Violate("wrong-count:float", fmt.Sprintf("%s: ToFloat() = %v, %v; expected %v", callStr, got, err, w.Floats), cs)
			return
		}
		same := func(g, e float64) bool {
			if e != e {
				return g != g
			}
			if c.ByteSize == 4 {
				return math.Float32bits(float32(g)) == math.Float32bits(float32(e))
			}

			return math.Float64bits(g) == math.Float64bits(e)
		}
		k := 0
		for v := range it.Floats() {
			if k < count && !same(v, w.Floats[k]) {
				bad("Floats()", k, v, w.Floats[k])
				ok = false
			}
			k++
		}
		node = &e5.Node{FC: e5.F8}
		if c.ByteSize == 4 {
			node.FC = e5.F4
		}
		for k := range got {
			at, aerr := it.FloatAt(k)
			if !same(got[k], w.Floats[k]) {
				bad("ToFloat()", k, got[k], w.Floats[k])
				ok = false
			} else if aerr != nil || !same(at, w.Floats[k]) {
				bad("FloatAt", k, at, w.Floats[k])
				ok = false
			}
			if c.ByteSize == 4 {
				node.Bits = append(node.Bits, uint64(math.Float32bits(float32(w.Floats[k]))))
			} else {
				node.Bits = append(node.Bits, math.Float64bits(w.Floats[k]))
			}
		}
		if c16HasNaN(w) {
			node = nil // NaN payloads may be quieted by float32<->float64 conversions
		}
	case clamp.Binary:
		count = len(w.Bytes)
		got, err := it.ToBinary()
		if err != nil || len(got) != count {
			env.Violate("wrong-count:binary", fmt.Sprintf("%s: ToBinary() = %x, %v; expected %x", callStr, got, err, w.Bytes), cs)
			return
		}
		for k := range got {
			at, aerr := it.ByteAt(k)
			if got[k] != w.Bytes[k] {
				bad("ToBinary()", k, got[k], w.Bytes[k])
				ok = false
			} else if aerr != nil || at != w.Bytes[k] {
				bad("ByteAt", k, at, w.Bytes[k])
				ok = false
			}
		}
		node = &e5.Node{FC: e5.Binary, Bytes: w.Bytes}
	default:
		count = len(w.Bools)
		got, err := it.ToBoolean()
		if err != nil || len(got) != count {
			env.Violate("wrong-count:boolean", fmt.Sprintf("%s: ToBoolean() = %v, %v; expected %v", callStr, got, err, w.Bools), cs)
			return
		}
		raw := make([]byte, count)
		for k := range got {
			at, aerr := it.BoolAt(k)
			if got[k] != w.Bools[k] || aerr != nil || at != w.Bools[k] {
				bad("ToBoolean()/BoolAt", k, got[k], w.Bools[k])
				ok = false
			}
			if w.Bools[k] {
				raw[k] = 1
			}
		}
		node = &e5.Node{FC: e5.Boolean, Bytes: raw}
	}
	if !ok {
		return
	}
	if it.Size() != count {
		env.Violate("wrong-count:"+fam.String(), fmt.Sprintf("%s: Size() = %d, expected %d", callStr, it.Size(), count), cs)
		return
	}
	if node != nil {
		if got, exp := it.ToBytes(), node.Encode(nil); !bytes.Equal(got, exp) {
			key := "wrong-encoding:" + fam.String()
			if clamped > 0 {
				key = "wrapped-on-the-wire:" + fam.String()
			}
			env.Violate(key, fmt.Sprintf("%s: ToBytes() = %x, the E5 encoding of the expected values %s is %x", callStr, got, cs.Want, exp), cs)
			return
		}
	}
	env.Event("exact_items", 1)
	env.Event("clamped_values_checked", clamped)
	env.Event("values_checked", int64(count))
	// a valid item is Equal to itself (contrast for the errored battery)
	if !secs2.Equal(it, it) {
		env.Violate("valid-item-not-equal-to-itself:"+fam.String(), callStr+": Error()==nil but Equal(item,item) is false", cs)
	}
}

// ---- errored items -------------------------------------------------------------------------------

var (
	c16BaseMsg, _ = hsms.NewDataMessage(1, 3, true, 7, [4]byte{0, 0, 0, 9}, secs2.A("ok"))
	c16RawMsg     = func() *hsms.DataMessage {
		m, err := hsms.DecodeHSMSMessage([]byte{0, 0, 0, 13, 0, 7, 0x81, 3, 0, 0, 0, 0, 0, 9, 0x41, 0x01, 'x'})
		if err != nil {
			panic(err)
		}
		dm, _ := m.ToDataMessage()

		return dm
	}()
)

// c16ErroredBattery: an errored item is not Equal to anything and is refused by every message
// constructor, directly and nested to depth 5.
func c16ErroredBattery(env *fw.Env, b *c16Built, cs c16Case) {
	e := b.item
	callStr := c16CallString(&b.call) + "(" + b.call.Args + ")"
	twin, p := c16Invoke(&b.call)
	if p != nil || twin == nil {
		return // judged by the caller on the first invocation
	}
	var valid secs2.Item
	switch b.call.fam {
	case clamp.Int:
		valid = secs2.I1()
	case clamp.Uint:
		valid = secs2.U1()
	case clamp.Float:
		valid = secs2.F4()
	case clamp.Binary:
		valid = secs2.B()
	default:
		valid = secs2.BOOLEAN()
	}
	wrapOnce := func(x secs2.Item, r *rand.Rand) secs2.Item {
		sib := []secs2.Item{secs2.A("s"), secs2.U2(1, 2), secs2.L(), secs2.BOOLEAN(true)}
		kids := []secs2.Item{}
		pos := r.IntN(3)
		for k := 0; k < 3; k++ {
			if k == pos {
				kids = append(kids, x)
			} else if r.IntN(2) == 0 {
				kids = append(kids, sib[r.IntN(len(sib))])
			}
		}
		if r.IntN(2) == 0 {
			return secs2.L(kids...)
		}

		return secs2.NewListItem(kids...)
	}
	x, y, v := e, twin, valid
	for depth := 0; depth <= 5; depth++ {
		where := "direct"
		if depth > 0 {
			where = "nested"
			// the same sibling choices for the three trees: three equally seeded generators
			mk := func() *rand.Rand { return rand.New(rand.NewPCG(uint64(cs.Index), uint64(1600+depth))) }
			x, y, v = wrapOnce(x, mk()), wrapOnce(y, mk()), wrapOnce(v, mk())
			env.Event("nested_errored_checked", 1)
		}
		var xerr error
		if p := catch(func() { xerr = x.Error() }); p != nil {
			env.Violate("panic:Error:nested-list", fmt.Sprintf("Error() of a depth-%d list around %s panicked: %v", depth, callStr, p), cs)
			return
		}
		if xerr == nil {
			env.Violate("errored-child-not-aggregated:"+where, fmt.Sprintf("a list nesting the errored item %s at depth %d has Error()==nil", callStr, depth), cs)
			return
		}
		// Equal
		type pair struct {
			name string
			a, b secs2.Item
		}
		for _, pr := range []pair{{"itself", x, x}, {"identical-errored-twin", x, y}, {"twin-reversed", y, x}, {"valid-item-same-shape", x, v}, {"valid-item-reversed", v, x}} {
			var eq bool
			if p := catch(func() { eq = secs2.Equal(pr.a, pr.b) }); p != nil {
				env.Violate("panic:Equal", fmt.Sprintf("Equal panicked on errored item %s (depth %d): %v", callStr, depth, p), cs)
				return
			}
			env.Event("equal_checks_on_errored", 1)
			if eq {
				env.Violate("errored-item-equal:"+where+":"+pr.name, fmt.Sprintf("secs2.Equal reports the errored item %s (nesting depth %d, Error()=%v) equal to %s", callStr, depth, xerr, pr.name), cs)
				return
			}
		}
		if secs2.Equal(x, nil) || secs2.Equal(nil, x) {
			env.Violate("errored-item-equal:"+where+":nil", "secs2.Equal(errored, nil) is true", cs)
		}
		// message constructors
		var m *hsms.DataMessage
		var err error
		if p := catch(func() { m, err = hsms.NewDataMessage(1, 1, true, 1, [4]byte{1, 2, 3, 4}, x) }); p != nil {
			env.Violate("panic:NewDataMessage", fmt.Sprintf("NewDataMessage panicked on errored item %s: %v", callStr, p), cs)
			return
		}
		if err == nil || m != nil {
			env.Violate("errored-item-accepted:NewDataMessage:"+where, fmt.Sprintf("hsms.NewDataMessage accepted the errored item %s (nesting depth %d): msg=%v err=%v", callStr, depth, m != nil, err), cs)
			return
		}
		env.Event("refused_by_NewDataMessage", 1)
		if p := catch(func() {
			m, err = hsms.NewDataMessageFromHeader([10]byte{0, 1, 0x81, 1, 0, 0, 1, 2, 3, 4}, x)
		}); p != nil || err == nil || m != nil {
			env.Violate("errored-item-accepted:NewDataMessageFromHeader:"+where, fmt.Sprintf("hsms.NewDataMessageFromHeader accepted / panicked on the errored item %s (depth %d): panic=%v err=%v", callStr, depth, p, err), cs)
			return
		}
		for _, base := range []*hsms.DataMessage{c16BaseMsg, c16RawMsg} {
			if p := catch(func() { m, err = base.Derive().WithItem(x).Build() }); p != nil || err == nil || m != nil {
				env.Violate("errored-item-accepted:Derive.WithItem.Build:"+where, fmt.Sprintf("Derive().WithItem(errored %s, depth %d).Build() did not refuse: panic=%v msg=%v err=%v", callStr, depth, p, m != nil, err), cs)
				return
			}
			if p := catch(func() {
				m, err = base.Derive().WithItem(x).WithStream(5).WithFunction(7).WithWaitBit(false).WithSessionID(3).WithSystemBytes([4]byte{9}).Build()
			}); p != nil || err == nil || m != nil {
				env.Violate("errored-item-accepted:Derive.WithItem.Build:"+where, fmt.Sprintf("Derive().WithItem(errored).With…().Build() did not refuse: panic=%v err=%v", p, err), cs)
				return
			}
			env.Event("refused_by_Derive_Build", 2)
		}
		// contrast: the valid tree of the same shape IS accepted (the refusal is about the error)
		if depth > 0 && depth%2 == 1 {
			if vm, verr := hsms.NewDataMessage(1, 1, true, 1, [4]byte{}, v); verr != nil || vm == nil {
				// lists with an empty-item child etc. never occur here; a refusal of a valid tree is a harness premise failure
				env.Note("valid contrast tree refused: %v", verr)
			} else {
				env.Event("valid_contrast_accepted", 1)
			}
		}
	}
}

// ---- list and string constructors -----------------------------------------------------------------

func c16ListString(env *fw.Env, i int64, r *rand.Rand) { //nolint:gocyclo
	// strings: any Go string is a valid argument
	strCtors := []struct {
		name string
		fc   uint8
		f    func(string) secs2.Item
	}{
		{"A", e5.ASCII, secs2.A}, {"NewASCIIItem", e5.ASCII, secs2.NewASCIIItem}, {"J", e5.JIS8, secs2.J}, {"NewJIS8Item", e5.JIS8, secs2.NewJIS8Item},
		{"W", e5.Localized, secs2.W}, {"NewUTF8StrItem", e5.Localized, secs2.NewUTF8StrItem},
	}
	mkStr := func() string {
		n := []int{0, 1, 2, 7, 255, 256, 300, 70000}[r.IntN(8)]
		if n > 300 && r.IntN(4) > 0 {
			n = r.IntN(40)
		}
		b := make([]byte, n)
		for k := range b {
			switch r.IntN(4) {
			case 0:
				b[k] = byte(r.IntN(256))
			case 1:
				b[k] = "\x00\"'<>\\\n\xff\x80"[r.IntN(9)]
			default:
				b[k] = byte(0x20 + r.IntN(0x5f))
			}
		}

		return string(b)
	}
	for k := 0; k < 3; k++ {
		sc := strCtors[r.IntN(len(strCtors))]
		s := mkStr()
		lsh := uint16(2)
		useLSH := sc.fc == e5.Localized && r.IntN(2) == 0
		call := c16Call{Ctor: sc.name, Shape: "string", Args: fmt.Sprintf("string[%d]", len(s))}
		if useLSH {
			lsh = []uint16{0, 1, 2, 14, 0xFFFF, uint16(r.IntN(65536))}[r.IntN(6)]
			call.Ctor = "NewLocalizedStrItem"
			call.Args = fmt.Sprintf("%d, string[%d]", lsh, len(s))
		}
		cs := c16Case{Index: i, Call: call, Want: fmt.Sprintf("%x", c16ClipBytes([]byte(s)))}
		env.Eval(fw.HashStr(call.Ctor, fmt.Sprint(lsh), s), true)
		env.Event("calls", 1)
		env.Event("string_ctor_calls", 1)
		var it secs2.Item
		if p := catch(func() {
			if useLSH {
				it = secs2.NewLocalizedStrItem(lsh, s)
			} else {
				it = sc.f(s)
			}
		}); p != nil || it == nil {
			env.Violate("panic:"+call.Ctor+":string", fmt.Sprintf("%s panicked / returned nil: %v", call.Ctor, p), cs)
			continue
		}
		if err := it.Error(); err != nil {
			env.Violate("unexpected-error:string:"+call.Ctor, fmt.Sprintf("%s(%d-byte string) has Error()=%v", call.Ctor, len(s), err), cs)
			continue
		}
		node := &e5.Node{FC: sc.fc, Bytes: []byte(s), LSH: lsh}
		var got string
		var gerr error
		switch sc.fc {
		case e5.ASCII:
			got, gerr = it.ToASCII()
		case e5.JIS8:
			got, gerr = it.ToJIS8()
		default:
			got, gerr = it.ToLocalizedStr()
			if h, herr := it.ToLocalizedStrHeader(); herr != nil || h != lsh {
				env.Violate("wrong-value:string-lsh", fmt.Sprintf("%s: ToLocalizedStrHeader()=%d,%v expected %d", call.Ctor, h, herr, lsh), cs)
			}
		}
		if gerr != nil || got != s || !bytes.Equal(it.ToBytes(), node.Encode(nil)) {
			env.Violate("wrong-value:string:"+call.Ctor, fmt.Sprintf("%s: value/encoding differs from the supplied %d-byte string (err %v)", call.Ctor, len(s), gerr), cs)
			continue
		}
		env.Event("exact_items", 1)
	}

	// lists: nil children are skipped; an errored child anywhere makes the list errored
	mkChild := func() (secs2.Item, bool, string) {
		switch r.IntN(10) {
		case 9:
			// an Item implementation from outside the package that reports a deferred error
			return c16ExtItem{Item: secs2.A("ext"), err: errors.New("external item error")}, true, "external-errored-item"
		case 0:
			return nil, false, "nil"
		case 1:
			return secs2.I1("not-a-number"), true, "I1(garbage)"
		case 2:
			return secs2.NewUintItem(3, 1), true, "NewUintItem(3,1)"
		case 3:
			return secs2.B(300), true, "B(300)"
		case 4:
			return secs2.L(secs2.A("x"), secs2.F4(true)), true, "L(A,F4(true))"
		case 5:
			return secs2.L(), false, "L()"
		case 6:
			return secs2.L(secs2.U1(1), secs2.L(secs2.A("deep"))), false, "L(U1,L(A))"
		case 7:
			return secs2.BOOLEAN(true, false), false, "BOOLEAN"
		default:
			return secs2.A("leaf"), false, "A"
		}
	}
	for k := 0; k < 3; k++ {
		n := r.IntN(6)
		kids := make([]secs2.Item, n)
		var nonNil []secs2.Item
		anyErr := false
		desc := ""
		for j := range kids {
			var e bool
			var d string
			kids[j], e, d = mkChild()
			anyErr = anyErr || e
			desc += d + ","
			if kids[j] != nil {
				nonNil = append(nonNil, kids[j])
			}
		}
		name := "L"
		ctor := secs2.L
		if r.IntN(2) == 0 {
			name, ctor = "NewListItem", secs2.NewListItem
		}
		call := c16Call{Ctor: name, Shape: "list", Args: desc}
		cs := c16Case{Index: i, Call: call}
		env.Eval(fw.HashStr(name, desc), n > 0)
		env.Event("calls", 1)
		env.Event("list_ctor_calls", 1)
		var it secs2.Item
		var err error
		if p := catch(func() { it = ctor(kids...); err = it.Error() }); p != nil || it == nil {
			env.Violate("panic:"+name+":items", fmt.Sprintf("%s(%s) panicked / returned nil: %v", name, desc, p), cs)
			continue
		}
		if (err != nil) != anyErr {
			key := "errored-child-not-aggregated:direct"
			if !anyErr {
				key = "unexpected-error:list"
			}
			env.Violate(key, fmt.Sprintf("%s(%s): Error()=%v but errored child present = %v", name, desc, err, anyErr), cs)
			continue
		}
		if it.Size() != len(nonNil) {
			env.Violate("wrong-count:list", fmt.Sprintf("%s(%s): Size()=%d, expected %d (nil children skipped)", name, desc, it.Size(), len(nonNil)), cs)
			continue
		}
		if !anyErr {
			for j, kid := range nonNil {
				if at, aerr := it.ItemAt(j); aerr != nil || at != kid {
					env.Violate("wrong-value:list", fmt.Sprintf("%s(%s): ItemAt(%d) is not the supplied child (err %v)", name, desc, j, aerr), cs)
				}
			}
			env.Event("exact_items", 1)
		} else {
			env.Event("errored_items", 1)
			b := c16Built{item: it, err: err}
			c16ErroredList(env, &b, ctor, kids, cs)
		}
	}

	// typed-nil pointers of the concrete item types are outside the statement (not items with a
	// non-nil Error(), and the constructor itself returns): recorded, not judged.
	if i%96 == 5 {
		p := catch(func() { _ = secs2.L((*secs2.IntItem)(nil)) })
		env.Event("typed_nil_child_calls", 1)
		if p != nil {
			env.Violate("panic:L:typed-nil-pointer", fmt.Sprintf("L((*IntItem)(nil)) panicked in the constructor: %v", p), c16Case{Index: i})
		}
		if q := catch(func() { _ = secs2.L((*secs2.IntItem)(nil)).Error() }); q != nil {
			env.Event("typed_nil_child_Error_panics_not_judged", 1)
			if !c16TypedNilNoted {
				c16TypedNilNoted = true
				env.Note("not judged (outside the statement): secs2.L((*secs2.IntItem)(nil)) returns, but its Error() — and hsms.NewDataMessage on it — panics with a nil dereference: %v", q)
			}
		}
	}
}

// c16ErroredList runs the Equal / refusal battery on an errored list built by the list case.
func c16ErroredList(env *fw.Env, b *c16Built, ctor func(...secs2.Item) secs2.Item, kids []secs2.Item, cs c16Case) {
	x := b.item
	twin := ctor(kids...)
	for _, pr := range [][2]secs2.Item{{x, x}, {x, twin}, {twin, x}, {x, secs2.L()}, {secs2.L(), x}} {
		env.Event("equal_checks_on_errored", 1)
		if secs2.Equal(pr[0], pr[1]) {
			env.Violate("errored-item-equal:nested:list", "secs2.Equal reports an errored list ("+cs.Call.Args+") equal to something", cs)
			return
		}
	}
	m, err := hsms.NewDataMessage(1, 1, true, 1, [4]byte{}, x)
	if err == nil || m != nil {
		env.Violate("errored-item-accepted:NewDataMessage:nested", "hsms.NewDataMessage accepted an errored list ("+cs.Call.Args+")", cs)
		return
	}
	env.Event("refused_by_NewDataMessage", 1)
	m, err = c16BaseMsg.Derive().WithItem(x).Build()
	if err == nil || m != nil {
		env.Violate("errored-item-accepted:Derive.WithItem.Build:nested", "Derive().WithItem(errored list).Build() accepted ("+cs.Call.Args+")", cs)
		return
	}
	env.Event("refused_by_Derive_Build", 1)
}

// c16ExtItem is an Item implemented outside secs2: a valid item whose Error() is non-nil.
type c16ExtItem struct {
	secs2.Item
	err error
}

func (e c16ExtItem) Error() error { return e.err }

func c16ClipBytes(b []byte) []byte {
	if len(b) > 24 {
		return b[:24]
	}

	return b
}
