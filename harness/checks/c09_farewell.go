package checks

import (
	"context"
	"errors"
	"fmt"
	"net"
	"sync"
	"time"

	"github.com/arloliu/go-secs/v2/hsms"
	"github.com/arloliu/go-secs/v2/secs2"

	"verif/fw"
	"verif/peer"
)

// C09 on a graceful Close towards a peer that accepts nothing any more: the courtesy Separate.req that Close writes
// before the teardown meets a socket whose writes block (peer.GateConn), while a reply-expected send is still
// waiting on the generation. Close ENDS the generation: the waiter must come back with the connection-closed error
// promptly — the farewell is bounded by its own short deadline, whatever the (long) write timeout is.

type c09FarewellCase struct {
	Index          int64 `json:"index"`
	Active         bool  `json:"active"`
	WriteTimeoutMs int   `json:"write_timeout_ms"`
}

func c09BlockedFarewell(env *fw.Env, cs c09FarewellCase) {
	env.Begin(cs.Index, cs)
	env.Sample(cs)
	env.Eval(fw.HashStr("c09farewell", fmt.Sprint(cs.Active, cs.WriteTimeoutMs)), true)
	env.Event("blocked_farewell_cases", 1)
	rg, err := newRig(rigOpts{Active: cs.Active, T3: 60 * time.Second, T5: 30 * time.Millisecond, BackoffInit: 5 * time.Millisecond,
		CloseTimeout: time.Second, WriteTimeout: time.Duration(cs.WriteTimeoutMs) * time.Millisecond})
	if err != nil {
		env.Discard()
		return
	}
	var gmu sync.Mutex
	var gates []*peer.GateConn
	rg.Trk.Wrap = func(c net.Conn) net.Conn {
		g := peer.NewGateConn(c)
		gmu.Lock()
		gates = append(gates, g)
		gmu.Unlock()

		return g
	}
	block := func(on bool) {
		gmu.Lock()
		for _, g := range gates {
			g.BlockWrites(on)
		}
		gmu.Unlock()
	}
	pc, err := rg.Establish(func(*peer.Conn, peer.Frame) bool { return false })
	if err != nil {
		env.Discard()
		_ = rg.Shutdown()
		return
	}
	defer pc.Close()
	type result struct {
		err error
		at  time.Time
	}
	res := make(chan result, 1)
	go func() {
		_, err := rg.Conn.SendDataMessage(context.Background(), 1, 1, true, secs2.A("never answered"))
		res <- result{err, time.Now()}
	}()
	if !waitFor(10*time.Second, func() bool {
		for _, ev := range pc.Log() {
			if ev.Frame.IsData() {
				return true
			}
		}

		return false
	}) {
		env.Discard()
		_ = rg.Shutdown()
		return
	}
	block(true) // from now on nothing can be written: the farewell Separate.req will sit in its write
	t0 := time.Now()
	closed := make(chan error, 1)
	go func() { closed <- rg.Shutdown() }()
	bound := 3 * time.Second // farewell deadline 0.5 s + teardown, generous slack
	select {
	case r := <-res:
		el := r.at.Sub(t0)
		switch {
		case !errors.Is(r.err, hsms.ErrConnClosed):
			env.Violate("waiter-wrong-error-on-close-blocked-socket", fmt.Sprintf("Close on a socket whose writes block: the waiting W-bit send returned %v after %v, want the connection-closed error", r.err, el.Round(time.Millisecond)), cs)
		case el > bound:
			env.Violate("waiter-released-late-on-close-blocked-socket", fmt.Sprintf("Close was called on a socket whose writes block (write timeout %d ms): the W-bit send waiting on that generation came back only %v later (the farewell write is bounded by 500 ms; bound used %v)", cs.WriteTimeoutMs, el.Round(time.Millisecond), bound), cs)
		default:
			env.Event("waiters_released_on_close_blocked_socket", 1)
		}
	case <-time.After(time.Duration(cs.WriteTimeoutMs)*time.Millisecond + 15*time.Second):
		env.Violate("waiter-never-released-on-close-blocked-socket", "the W-bit send waiting on the closed generation has not returned", cs)
	}
	select {
	case <-closed:
	case <-time.After(time.Duration(cs.WriteTimeoutMs)*time.Millisecond + 15*time.Second):
		env.Violate("close-hangs-blocked-socket", "Close did not return", cs)
	}
	block(false)
}
