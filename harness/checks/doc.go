// Package checks holds one driver per property (C01..C20); each registers itself with fw.
package checks
