// Package checks holds one driver per property (C01..C20); each registers itself with fw.
package checks

import "time"

// tierDur returns q minutes in the quick tier and t minutes in the thorough tier.
func tierDur(tier string, q, t int) time.Duration {
	if tier == "thorough" {
		return time.Duration(t) * time.Minute
	}

	return time.Duration(q) * time.Minute
}
