package checks

import (
	"bytes"
	"fmt"
	"math"

	"github.com/arloliu/go-secs/v2/secs2"

	"verif/fw"
	"verif/gen"
	"verif/mon/itemcmp"
	"verif/ref/e5"
)

// C01 — items encode to exact E5 bytes and decode back equal.
func init() {
	fw.Register(&fw.Check{
		ID:    "C01",
		Level: "exploration",
		Rule: "case i (pure function of seed,i) = value tree from one of 8 families (leaf x count 0/1/2/small; leaf at the 255/256/65535/65536 length-field " +
			"boundaries; random trees; list chains of every depth 1..64; flat lists crossing the decoder slab sizes 1/5/21/85/213/341; depth 65; giants 2^24-1 and 2^24; " +
			"empty-item child) built through randomly chosen public-constructor argument shapes; oracle = independent E5 reference encoder + accessor-level compare; " +
			"distinct = hash(reference encoding, recipe); every case is non-trivial (it exercises encode+decode of a concrete tree)",
		Assumptions: []string{
			"the reference encoder/decoder in harness/ref/e5 is a faithful reading of SEMI E5 §9",
			"an F4 NaN built from a Go float may have its signalling bit quieted by the float32<->float64 conversion; any NaN is accepted where the value is an F4 NaN",
		},
		Phases: func(tier string) []fw.Phase {
			return []fw.Phase{
				{Name: "plain", Shards: 16, Timeout: tierDur(tier, 6, 40)},
				{Name: "race", Race: true, Shards: 4, Timeout: tierDur(tier, 6, 40)},
			}
		},
		Worker:         c01Worker,
		RequiredEvents: []string{"trees_checked", "decode_roundtrips", "depth64_ok", "depth65_rejected"},
	})
}

func c01Total(env *fw.Env) int64 {
	if env.Phase == "race" {
		return int64(env.Pick(4000, 120000))
	}

	return int64(env.Pick(40000, 1500000))
}

type c01Case struct {
	Index  int64  `json:"index"`
	Family string `json:"family"`
	Tree   string `json:"tree"`
	Recipe string `json:"recipe"`
	Hex    string `json:"expected_hex,omitempty"`
}

func c01Worker(env *fw.Env) {
	total := c01Total(env)
	for i := int64(0); i < total; i++ {
		if !env.Mine(i) || !env.Want(i) {
			continue
		}
		if env.Stop() {
			break
		}
		c01One(env, i)
	}
	if env.Shard == 0 && env.ReplayIndex < 0 {
		if !env.Race { // 2^24-element items under the race detector cost GBs of shadow memory
			c01Giants(env)
		}
		c01EmptyChild(env)
		c01WideArgs(env)
	}
}

func c01Node(env *fw.Env, i int64) (*e5.Node, string) {
	r := env.RandAt("tree", i)
	switch i % 8 {
	case 0, 1:
		fc := gen.LeafCodes[int(i/8)%len(gen.LeafCodes)]
		return gen.Leaf(r, fc, gen.SmallCount(r)), "leaf"
	case 2:
		fc := gen.LeafCodes[int(i/8)%len(gen.LeafCodes)]
		bc := gen.BoundaryCounts(fc)
		// big boundary leaves are costly: mostly the 255/256 ones, 1 in 6 the 64K ones
		var cnt int
		if r.IntN(6) == 0 {
			cnt = bc[r.IntN(len(bc))]
		} else {
			cnt = bc[r.IntN(6)]
		}

		return gen.Leaf(r, fc, cnt), "length-boundary-leaf"
	case 3, 4:
		budget := 3 + r.IntN(80)
		return gen.Tree(r, &budget, 0, 1+r.IntN(7)), "random-tree"
	case 5:
		d := 1 + int(i/8)%64
		return gen.Chain(r, d), fmt.Sprintf("chain-depth-%d", d)
	case 6:
		if int(i/8)%3 == 0 {
			// many EMPTY lists decoded before (and next to) a deep part: the depth account of a decoder is touched
			// once per list entered and must come back down for every one of them, the empty ones included
			root := &e5.Node{FC: e5.List}
			e := []int{1, 2, 30, 62, 63, 64, 65, 100, 300}[r.IntN(9)]
			for j := 0; j < e; j++ {
				root.Kids = append(root.Kids, &e5.Node{FC: e5.List})
			}
			if r.IntN(2) == 0 {
				root.Kids = append(root.Kids, gen.Chain(r, 63)) // root + 63 = the deepest list sits at the allowed depth 64
			}

			return root, "empty-lists-before-depth"
		}
		fc := gen.LeafCodes[int(i/8)%len(gen.LeafCodes)]
		ks := []int{1, 4, 5, 6, 20, 21, 22, 84, 85, 86, 212, 213, 214, 340, 341, 342}
		return gen.ManyLeaves(r, fc, ks[r.IntN(len(ks))]), "slab-boundary-list"
	default:
		if int(i/8)%4 == 0 {
			return gen.Chain(r, 65), "chain-depth-65"
		}
		// list whose child count crosses the 255/256 boundary
		l := &e5.Node{FC: e5.List}
		k := []int{254, 255, 256, 257}[r.IntN(4)]
		for j := 0; j < k; j++ {
			l.Kids = append(l.Kids, gen.Leaf(r, gen.LeafCodes[r.IntN(len(gen.LeafCodes))], r.IntN(3)))
		}

		return l, "list-count-boundary"
	}
}

func c01One(env *fw.Env, i int64) {
	node, family := c01Node(env, i)
	r := env.RandAt("build", i)
	item, recipe := gen.Build(r, node)
	exp := node.Encode(nil)
	cs := c01Case{Index: i, Family: family, Tree: node.String(), Recipe: recipe}
	if len(exp) <= 64 {
		cs.Hex = fmt.Sprintf("%x", exp)
	}
	env.Eval(fw.Hash64(exp, []byte(recipe)), true)
	env.Sample(cs)
	env.Event("trees_checked", 1)
	env.Event("family_"+familyKey(family), 1)
	c01CheckItem(env, item, node, exp, family, cs, r.Uint64())
}

func familyKey(f string) string {
	if len(f) > 12 && f[:12] == "chain-depth-" && f != "chain-depth-65" {
		return "chain-depth-1..64"
	}

	return f
}

func c01CheckItem(env *fw.Env, item secs2.Item, node *e5.Node, exp []byte, family string, cs any, salt uint64) {
	if err := item.Error(); err != nil {
		env.Violate("constructor-error", fmt.Sprintf("constructors reported %v for a valid in-range tree", err), cs)
		return
	}
	got := item.ToBytes()
	if !bytes.Equal(got, exp) && !equalModF4NaN(got, exp) {
		env.Violate("encode-mismatch", fmt.Sprintf("ToBytes() differs from the E5 reference encoding\n got %s\nwant %s", hexClip(got), hexClip(exp)), cs)
		return
	}
	if l := item.EncodedLen(); l != len(got) {
		env.Violate("encodedlen", fmt.Sprintf("EncodedLen()=%d but len(ToBytes())=%d", l, len(got)), cs)
	}
	if again := item.ToBytes(); !bytes.Equal(again, got) {
		env.Violate("nondeterministic-encode", "two ToBytes() calls differ", cs)
	}
	// AppendTo leaves the prefix untouched and appends exactly the encoding
	plen := int(salt % 9)
	prefix := make([]byte, plen, plen+int(salt>>8%3)*(len(got)+8))
	for j := range prefix {
		prefix[j] = byte(0xA0 + j)
	}
	keep := append([]byte{}, prefix...)
	out := item.AppendTo(prefix)
	if len(out) != plen+len(got) || !bytes.Equal(out[:plen], keep) || !bytes.Equal(out[plen:], got) {
		env.Violate("appendto", fmt.Sprintf("AppendTo(prefix %x) = %s; want prefix||%s", keep, hexClip(out), hexClip(got)), cs)
	}
	if err := itemcmp.Compare(item, node, itemcmp.Constructed); err != nil {
		env.Violate("constructed-accessor", "constructed item disagrees with its logical value: "+err.Error(), cs)
	}

	// decode
	dec, derr := secs2.Decode(got)
	if family == "chain-depth-65" {
		if derr == nil {
			env.Violate("depth65-accepted", "a 65-deep list encoding was accepted by Decode", cs)
		} else {
			env.Event("depth65_rejected", 1)
		}

		return
	}
	if derr != nil {
		env.Violate("decode-of-own-encoding", fmt.Sprintf("Decode(ToBytes()) failed: %v", derr), cs)
		return
	}
	if node.Depth() == 64 {
		env.Event("depth64_ok", 1)
	}
	env.Event("decode_roundtrips", 1)
	wire, _, rerr := e5.Decode(got)
	if rerr != nil {
		env.Violate("reference-rejects", fmt.Sprintf("reference decoder rejects the library's own encoding: %v", rerr), cs)
		return
	}
	if err := itemcmp.Compare(dec, wire, itemcmp.Decoded); err != nil {
		env.Violate("decoded-accessor", "decoded item disagrees with the wire value: "+err.Error(), cs)
	}
	if !secs2.Equal(item, dec) || !secs2.Equal(dec, item) {
		env.Violate("roundtrip-not-equal", "secs2.Equal(original, Decode(ToBytes())) is false", cs)
	}
	if back := dec.ToBytes(); !bytes.Equal(back, got) {
		env.Violate("reencode-mismatch", fmt.Sprintf("re-encoding the decoded item differs\n got %s\nwant %s", hexClip(back), hexClip(got)), cs)
	}
	if l := dec.EncodedLen(); l != len(got) {
		env.Violate("encodedlen", fmt.Sprintf("decoded EncodedLen()=%d want %d", l, len(got)), cs)
	}
}

// equalModF4NaN: both byte strings parse (reference grammar) to the same tree, where two F4 NaN
// elements are considered the same value whatever their payload.
func equalModF4NaN(a, b []byte) bool {
	na, ca, ea := e5.DecodeAnyDepth(a)
	nb, cb, eb := e5.DecodeAnyDepth(b)
	if ea != nil || eb != nil || ca != len(a) || cb != len(b) || len(a) != len(b) {
		return false
	}

	return nodeEqLoose(na, nb)
}

func nodeEqLoose(a, b *e5.Node) bool {
	if a.FC != b.FC || a.Count() != b.Count() {
		return false
	}
	switch a.FC {
	case e5.List:
		for i := range a.Kids {
			if !nodeEqLoose(a.Kids[i], b.Kids[i]) {
				return false
			}
		}

		return true
	case e5.F4:
		for i := range a.Bits {
			x, y := math.Float32frombits(uint32(a.Bits[i])), math.Float32frombits(uint32(b.Bits[i]))
			if x != x && y != y {
				continue
			}
			if a.Bits[i] != b.Bits[i] {
				return false
			}
		}

		return true
	}

	return bytes.Equal(a.Encode(nil), b.Encode(nil))
}

func hexClip(b []byte) string {
	if len(b) > 96 {
		return fmt.Sprintf("%x…(%d bytes)", b[:96], len(b))
	}

	return fmt.Sprintf("%x", b)
}

// c01Giants: the E5 size cap. 2^24-1 payload bytes must encode/decode; 2^24 must be refused by
// the constructor (deferred error), never silently truncated.
func c01Giants(env *fw.Env) {
	r := env.Rand("giants")
	type g struct {
		name string
		node *e5.Node
	}
	big := make([]byte, e5.MaxLen)
	for i := range big {
		big[i] = byte(r.IntN(256))
	}
	ints := make([]int64, e5.MaxLen)
	for i := range ints {
		ints[i] = int64(int8(big[i]))
	}
	kids := make([]*e5.Node, 65536)
	for i := range kids {
		kids[i] = &e5.Node{FC: e5.U1, Uints: []uint64{uint64(i & 0xff)}}
	}
	cases := []g{
		{"binary-2^24-1", &e5.Node{FC: e5.Binary, Bytes: big}},
		{"ascii-2^24-1", &e5.Node{FC: e5.ASCII, Bytes: big}},
		{"i1-2^24-1", &e5.Node{FC: e5.I1, Ints: ints}},
		{"i8-(2^24-8)/8", &e5.Node{FC: e5.I8, Ints: ints[:(e5.MaxLen-7)/8]}},
		{"list-65536-children", &e5.Node{FC: e5.List, Kids: kids}},
	}
	for k, c := range cases {
		idx := int64(1_000_000_000 + k)
		env.Want(idx)
		var item secs2.Item
		switch c.node.FC {
		case e5.Binary:
			item = secs2.NewBinaryItem(c.node.Bytes)
		case e5.ASCII:
			item = secs2.NewASCIIItem(string(c.node.Bytes))
		case e5.I1:
			item = secs2.NewIntItem(1, c.node.Ints)
		case e5.I8:
			item = secs2.NewIntItem(8, c.node.Ints)
		default:
			item, _ = gen.Build(r, c.node)
		}
		exp := c.node.Encode(nil)
		env.Eval(fw.HashStr("giant", c.name), true)
		env.Event("giants_checked", 1)
		c01CheckItem(env, item, c.node, exp, "giant", map[string]any{"giant": c.name}, 3)
	}
	// one byte over the cap: constructor must defer an error
	over := []struct {
		name string
		it   secs2.Item
	}{
		{"binary-2^24", secs2.NewBinaryItem(make([]byte, e5.MaxLen+1))},
		{"ascii-2^24", secs2.NewASCIIItem(string(make([]byte, e5.MaxLen+1)))},
		{"i2-2^23", secs2.NewIntItem(2, make([]int64, (e5.MaxLen+1)/2))},
		{"localized-2^24-2", secs2.NewLocalizedStrItem(2, string(make([]byte, e5.MaxLen-1)))},
	}
	for _, o := range over {
		env.Eval(fw.HashStr("over", o.name), true)
		env.Event("over_cap_checked", 1)
		if o.it.Error() == nil {
			env.Violate("over-cap-accepted", o.name+": an item whose payload exceeds 2^24-1 bytes has Error()==nil", map[string]any{"giant": o.name})
		}
	}
}

// c01EmptyChild: a list that holds an EmptyItem child is an error-free tree from public constructors.
func c01EmptyChild(env *fw.Env) {
	shapes := []struct {
		name string
		it   secs2.Item
	}{
		{"L(empty)", secs2.L(secs2.NewEmptyItem())},
		{"L(empty,A)", secs2.L(secs2.NewEmptyItem(), secs2.A("x"))},
		{"L(U1,empty,L())", secs2.L(secs2.U1(1), secs2.NewEmptyItem(), secs2.L())},
		{"L(L(empty))", secs2.L(secs2.L(secs2.NewEmptyItem()))},
	}
	for k, s := range shapes {
		env.Want(int64(2_000_000_000 + k))
		env.Eval(fw.HashStr("emptychild", s.name), true)
		env.Event("empty_child_checked", 1)
		if s.it.Error() != nil {
			continue // not an error-free tree: outside the property
		}
		b := s.it.ToBytes()
		cs := map[string]any{"tree": s.name, "encoding": fmt.Sprintf("%x", b)}
		if l := s.it.EncodedLen(); l != len(b) {
			env.Violate("encodedlen", fmt.Sprintf("%s: EncodedLen()=%d len(ToBytes())=%d", s.name, l, len(b)), cs)
		}
		dec, err := secs2.Decode(b)
		if err != nil || !secs2.Equal(s.it, dec) {
			env.Violate("list-with-empty-item-child",
				fmt.Sprintf("%s is error-free, encodes as %x (child count includes the empty child, which emits no bytes) and Decode of that gives err=%v", s.name, b, err), cs)
		}
	}
}
