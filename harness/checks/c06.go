package checks

import (
	"context"
	"errors"
	"fmt"
	"sort"
	"strings"
	"sync"
	"sync/atomic"
	"time"

	"github.com/arloliu/go-secs/v2/hsms"
	"github.com/arloliu/go-secs/v2/secs2"

	"verif/fw"
	"verif/peer"
)

// C06 — every reply-expected send gets exactly its own reply or one definite error.
func init() {
	fw.Register(&fw.Check{
		ID:    "C06",
		Level: "exploration",
		Rule: "history i = (role, T3 short|long, 1..64 concurrent senders x 3..8 W-bit calls each with a unique token, a per-token peer behaviour {reply now, delayed, permuted across the open set, twice, never, " +
			"Reject.req(reason 1..255), colliding PRIMARY with the same system bytes then reply, colliding control response (Linktest/Select/Deselect.rsp) then reply, reply with an undecodable body}, unsolicited " +
			"primaries/secondaries from the peer, random caller-context cancellation, optional link drop mid-flight, vhook delays at send.afterRegister/afterWrite and recv.beforeDispatch). Oracle = scan of the call/return " +
			"history joined with the peer's read and write logs by token and system bytes (exactly-once, ownership, order). distinct = hash(history descriptor); non-trivial = at least 2 transactions overlapped in time.",
		Assumptions: []string{
			"a send that starts while the link is already down may be refused (not-selected / not-open) and a write on a dying socket may return the transport's write error; both are accepted only if the frame did not reach the peer more than once and the link was dropped in that history",
			"T3 lower bound is decided in the sound direction only (timers never fire early): ErrT3Timeout earlier than T3 after the call STARTED is a violation",
		},
		Phases: func(tier string) []fw.Phase {
			return []fw.Phase{{Name: "histories", Race: true, Shards: 10, Timeout: tierDur(tier, 8, 45), HangIsViolation: true}}
		},
		Worker:         c06Worker,
		RequiredEvents: []string{"calls", "own_reply", "reject_error", "t3_timeout", "overlap_ge2", "handler_deliveries", "collide_primary", "collide_control"},
	})
}

type c06Case struct {
	Index   int64  `json:"index"`
	Active  bool   `json:"active"`
	T3ms    int    `json:"t3_ms"`
	Senders int    `json:"senders"`
	PerCall int    `json:"calls_per_sender"`
	Drop    bool   `json:"link_drop_midflight"`
	Delays  bool   `json:"delay_injection"`
	Note    string `json:"note,omitempty"`
}

type c06Call struct {
	token    string
	beh      int
	start    time.Duration
	end      time.Duration
	reply    *hsms.DataMessage
	err      error
	canceled bool
	deadline bool // the caller's context carried a deadline shorter than T3
	secs2API bool
}

const (
	bNow = iota
	bDelayed
	bPermuted
	bTwice
	bNever
	bReject
	bCollidePrimary
	bCollideControl
	bUndecodable
	bNum
)

var c06BehNames = [...]string{"reply-now", "reply-delayed", "reply-permuted", "reply-twice", "never", "reject", "collide-primary", "collide-control", "undecodable-reply"}

func c06Token(f peer.Frame) string {
	b := f.Body
	if len(b) > 2 && b[0] == 0x41 && int(b[1]) == len(b)-2 {
		return string(b[2:])
	}

	return ""
}

func c06Body(tok string) []byte { return append([]byte{0x41, byte(len(tok))}, tok...) }

func c06Worker(env *fw.Env) {
	total := int64(env.Pick(40, 1500))
	for i := int64(0); i < total; i++ {
		if !env.Mine(i) || !env.Want(i) {
			continue
		}
		if env.Stop() {
			return
		}
		c06One(env, i)
	}
	// the T3 clause under a slow write (c06_t3.go)
	k := total
	for rep := 0; rep < env.Pick(1, 6); rep++ {
		for _, variant := range []string{"own-write-blocked", "queued-behind-stalled-write"} {
			for _, active := range []bool{true, false} {
				i := k
				k++
				if !env.Mine(i) || !env.Want(i) {
					continue
				}
				if env.Stop() {
					return
				}
				c06SlowWrite(env, i, active, variant)
			}
		}
	}
	// system bytes across data transactions and the automatic linktest (c06_lt.go)
	for rep := 0; rep < env.Pick(1, 4); rep++ {
		for _, idle := range []int{0, 3, 7} {
			for _, active := range []bool{true, false} {
				i := k
				k++
				if !env.Mine(i) || !env.Want(i) {
					continue
				}
				if env.Stop() {
					return
				}
				c06LinktestSys(env, i, active, idle+rep)
			}
		}
	}
}

//nolint:gocyclo,cyclop // one history: workload, peer program and the offline scan
func c06One(env *fw.Env, i int64) {
	r := env.RandAt("hist", i)
	cs := c06Case{Index: i, Active: i%2 == 0, Senders: []int{1, 2, 4, 8, 16, 32, 64}[r.IntN(7)], PerCall: 3 + r.IntN(6), Drop: r.IntN(5) == 0, Delays: r.IntN(2) == 0}
	shortT3 := r.IntN(2) == 0
	t3 := 10 * time.Second
	if shortT3 {
		t3 = 250 * time.Millisecond
	}
	cs.T3ms = int(t3 / time.Millisecond)
	env.Begin(i, cs)
	env.Sample(cs)

	rg, err := newRig(rigOpts{Active: cs.Active, T3: t3})
	if err != nil {
		env.Discard()
		return
	}
	h1, h2 := &deliveryLog{}, &deliveryLog{}
	rg.Conn.AddDataMessageHandler(h1.handler(1), h2.handler(2))
	if cs.Delays {
		undo := installDelays(env.Seed+uint64(i)*11, 600*time.Microsecond, 3, "hsms.send.afterRegister", "hsms.send.afterWrite", "hsmsss.recv.beforeDispatch", "hsms.send.afterLoadEpoch")
		defer func() { env.Event("delays_injected", undo()) }()
	}

	// ---- peer behaviour program ----
	behOf := func(tok string) int {
		h := fw.HashStr("beh", tok, fmt.Sprint(env.Seed))
		b := int(h % uint64(bNum))
		if b == bNever && !shortT3 {
			b = bNow
		}

		return b
	}
	var pmu sync.Mutex
	var pending []peer.Frame // primaries held for permuted replies
	rejectReason := func(tok string) byte { return byte(1 + fw.HashStr("rr", tok)%255) }
	var unsolN uint32
	var bgPending atomic.Int64 // delayed replies still to be written (an atomic, not a WaitGroup: the peer's reader adds while the main goroutine may already be waiting)
	onFrame := func(c *peer.Conn, f peer.Frame) bool {
		if !f.IsData() {
			return true
		}
		tok := c06Token(f)
		if !f.WBit() || !strings.HasPrefix(tok, "c06-") {
			return false
		}
		reply := peer.Data(f.Stream(), f.Function()+1, false, f.Session, f.Sys, c06Body("r:"+tok))
		switch behOf(tok) {
		case bNow:
			_ = c.Send(reply)
		case bDelayed:
			bgPending.Add(1)
			go func() {
				defer bgPending.Add(-1)
				time.Sleep(time.Duration(2+fw.HashStr("d", tok)%40) * time.Millisecond)
				_ = c.Send(reply)
			}()
		case bPermuted:
			pmu.Lock()
			pending = append(pending, reply)
			var flush []peer.Frame
			if len(pending) >= 3 {
				flush = pending
				pending = nil
			}
			pmu.Unlock()
			for k := len(flush) - 1; k >= 0; k-- {
				_ = c.Send(flush[k])
			}
		case bTwice:
			_ = c.Send(reply, reply)
		case bNever:
		case bReject:
			_ = c.Send(peer.RejectReq(f.Session, 0, rejectReason(tok), f.Sys))
		case bCollidePrimary:
			// a peer PRIMARY that happens to reuse the same system bytes, then the genuine reply
			// (a primary = odd function or W-bit set; every kind of it, the stream 9 error notices included, whose
			// system bytes come from the peer's own generator and therefore collide as a matter of course)
			shapes := []struct {
				s, f byte
				w    bool
			}{{11, 3, true}, {11, 3, false}, {9, 1, false}, {9, 9, false}, {9, 13, false}, {9, 3, false}, {5, 1, true}, {6, 11, false}, {1, 2, true}, {9, 7, true}}
			sh := shapes[fw.HashStr("w", tok)%uint64(len(shapes))]
			_ = c.Send(peer.Data(sh.s, sh.f, sh.w, f.Session, f.Sys, c06Body("P:"+tok)), reply)
		case bCollideControl:
			var cf peer.Frame
			switch fw.HashStr("c", tok) % 3 {
			case 0:
				cf = peer.LinktestRsp(f.Sys)
			case 1:
				cf = peer.SelectRsp(f.Session, 0, f.Sys)
			default:
				cf = peer.DeselectRsp(f.Session, 0, f.Sys)
			}
			_ = c.Send(cf, reply)
		case bUndecodable:
			bad := peer.Data(f.Stream(), f.Function()+1, false, f.Session, f.Sys, []byte{0x41, 0x7F, 'x'})
			_ = c.Send(bad)
		}
		// now and then an unsolicited primary / orphan secondary from the peer
		if fw.HashStr("u", tok)%5 == 0 {
			pmu.Lock()
			unsolN++
			n := unsolN
			pmu.Unlock()
			fn := []byte{1, 2, 0, 1, 2, 254}[n%6] // primary, orphan secondary, orphan abort (SxF0), …, an even function at the top
			_ = c.Send(peer.Data(21, fn, false, f.Session, 0xC6000000|n, c06Body(fmt.Sprintf("U:%d", n))))
		}

		return false
	}
	pc, err := rg.Establish(onFrame)
	if err != nil {
		env.Note("establish: %v", err)
		env.Discard()
		_ = rg.Shutdown()
		return
	}
	defer func() { pc.Close(); _ = rg.Shutdown() }()

	// ---- senders ----
	calls := make([][]*c06Call, cs.Senders)
	var wg sync.WaitGroup
	dropAt := time.Duration(5+r.IntN(60)) * time.Millisecond
	var dropped time.Duration
	if cs.Drop {
		wg.Add(1)
		go func() {
			defer wg.Done()
			time.Sleep(dropAt)
			dropped = peer.Now()
			pc.Reset()
		}()
	}
	for s := 0; s < cs.Senders; s++ {
		wg.Add(1)
		go func(s int) {
			defer wg.Done()
			rr := env.RandAt(fmt.Sprintf("sender-%d", s), i)
			for k := 0; k < cs.PerCall; k++ {
				c := &c06Call{token: fmt.Sprintf("c06-%d-%d-%d", i, s, k), secs2API: rr.IntN(2) == 0}
				c.beh = behOf(c.token)
				ctx, cancel := context.WithCancel(context.Background())
				switch rr.IntN(14) {
				case 0, 1:
					c.canceled = true
					d := time.Duration(rr.IntN(3000)) * time.Microsecond
					time.AfterFunc(d, cancel)
				case 2, 3:
					// the caller's own DEADLINE, shorter than T3: when it lapses first the outcome is the caller's
					// context error, not the protocol timeout (T3 is still running)
					cancel()
					c.deadline = true
					ctx, cancel = context.WithTimeout(context.Background(), min(t3/4, 300*time.Millisecond))
				}
				item := secs2.A(c.token)
				c.start = peer.Now()
				if c.secs2API {
					c.reply, c.err = rg.Conn.SendSECS2Message(ctx, secs2.NewMessage(byte(1+s%100), byte(1+2*(k%60)), true, item))
				} else {
					c.reply, c.err = rg.Conn.SendDataMessage(ctx, byte(1+s%100), byte(1+2*(k%60)), true, item)
				}
				c.end = peer.Now()
				cancel()
				calls[s] = append(calls[s], c)
				if cs.Drop && c.err != nil && rg.Conn.State() != hsms.SelectedState {
					time.Sleep(time.Millisecond) // do not spin against a dead link
				}
			}
		}(s)
	}
	wg.Wait()
	// release held permuted replies (their callers have timed out or are about to)
	pmu.Lock()
	flush := pending
	pending = nil
	pmu.Unlock()
	for _, f := range flush {
		_ = pc.Send(f)
	}
	linkUp := !cs.Drop
	if linkUp {
		// quiescence (never a verdict): a starved peer reader may still be working through primaries whose callers have
		// long timed out, and it answers them (P:/reply frames) as it goes. Wait until it has read every data frame the
		// library wrote, fence its reader with one barrier (its OnFrame calls are sequential), let delayed replies go out,
		// and only then fence the LIBRARY's processing of everything the peer wrote with the final barrier.
		sent := rg.Conn.Metrics()
		waitFor(20*time.Second, func() bool {
			n := uint64(0)
			for _, ev := range pc.Log() {
				if ev.Frame.IsData() {
					n++
				}
			}

			return n >= sent.DataMsgSendCount()
		})
		if _, err := pc.Barrier(15 * time.Second); err != nil {
			env.Violate("link-dropped", fmt.Sprintf("the link did not survive the history (no fault injected): %v", err), cs)
			return
		}
	}
	waitFor(10*time.Second, func() bool { return bgPending.Load() == 0 })
	if linkUp {
		if _, err := pc.Barrier(15 * time.Second); err != nil {
			env.Violate("link-dropped", fmt.Sprintf("the link did not survive the history (no fault injected): %v", err), cs)
			return
		}
	}

	// ---- offline scan ----
	sysOf := map[string]uint32{}
	seenAtPeer := map[string]int{}
	for _, ev := range pc.Log() {
		if ev.Frame.IsData() {
			if tok := c06Token(ev.Frame); strings.HasPrefix(tok, "c06-") {
				sysOf[tok] = ev.Frame.Sys
				seenAtPeer[tok]++
			}
		}
	}
	var all []*c06Call
	for s := range calls {
		all = append(all, calls[s]...)
	}
	// overlap depth (sweep)
	type pt struct {
		t time.Duration
		d int
	}
	var pts []pt
	for _, c := range all {
		pts = append(pts, pt{c.start, 1}, pt{c.end, -1})
	}
	sort.Slice(pts, func(a, b int) bool { return pts[a].t < pts[b].t || (pts[a].t == pts[b].t && pts[a].d < pts[b].d) })
	depth, maxDepth := 0, 0
	for _, p := range pts {
		depth += p.d
		if depth > maxDepth {
			maxDepth = depth
		}
	}
	env.Eval(fw.HashStr("c06", fmt.Sprint(cs)), maxDepth >= 2)
	if maxDepth >= 2 {
		env.Event("overlap_ge2", 1)
	}
	if maxDepth >= 8 {
		env.Event("overlap_ge8", 1)
	}
	// unique system bytes among concurrently open transactions
	bySys := map[uint32][]*c06Call{}
	for _, c := range all {
		if sys, ok := sysOf[c.token]; ok {
			bySys[sys] = append(bySys[sys], c)
		}
	}
	for sys, cl := range bySys {
		for a := 0; a < len(cl); a++ {
			for b := a + 1; b < len(cl); b++ {
				if cl[a].start < cl[b].end && cl[b].start < cl[a].end {
					env.Violate("duplicate-system-bytes", fmt.Sprintf("two overlapping transactions (%s, %s) used system bytes %08x", cl[a].token, cl[b].token, sys), cs)
				}
			}
		}
	}

	returnedReplies := map[string]bool{}
	for _, c := range all {
		env.Event("calls", 1)
		env.Event("beh_"+c06BehNames[c.beh], 1)
		sys, atPeer := sysOf[c.token]
		if seenAtPeer[c.token] > 1 {
			env.Violate("primary-written-twice", fmt.Sprintf("%s reached the peer %d times", c.token, seenAtPeer[c.token]), cs)
		}
		desc := fmt.Sprintf("call %s (peer behaviour %s, sys %08x, took %v)", c.token, c06BehNames[c.beh], sys, c.end-c.start)
		var re *hsms.RejectError
		switch {
		case c.err == nil && c.reply == nil:
			env.Violate("nil-reply-nil-error-"+c06BehNames[c.beh], desc+" returned (nil, nil)", cs)
		case c.reply != nil && (c.err == nil || c.beh == bUndecodable):
			sb := c.reply.SystemBytes()
			gotSys := uint32(sb[0])<<24 | uint32(sb[1])<<16 | uint32(sb[2])<<8 | uint32(sb[3])
			switch {
			case !atPeer:
				env.Violate("reply-without-primary", desc+" returned a reply although its primary never reached the peer", cs)
			case gotSys != sys:
				env.Violate("foreign-reply-sysbytes", fmt.Sprintf("%s returned a reply with system bytes %08x", desc, gotSys), cs)
			case c.reply.WaitBit() || c.reply.Function()%2 != 0:
				env.Violate("reply-is-a-primary", fmt.Sprintf("%s returned S%dF%d W=%v, which is not a secondary", desc, c.reply.Stream(), c.reply.Function(), c.reply.WaitBit()), cs)
			case c.beh == bUndecodable:
				if c.err == nil {
					env.Violate("undecodable-reply-no-error", desc+" returned an undecodable reply with a nil error", cs)
				} else {
					env.Event("undecodable_reply_error", 1)
				}
			default:
				it, derr := c.reply.Item()
				if derr != nil {
					env.Violate("own-reply-decode", desc+": "+derr.Error(), cs)
					break
				}
				if s, e := it.ToASCII(); e != nil || s != "r:"+c.token {
					env.Violate("foreign-reply-body", fmt.Sprintf("%s returned a reply whose body is %q, want %q", desc, s, "r:"+c.token), cs)
					break
				}
				env.Event("own_reply", 1)
				returnedReplies[c.token] = true
				if c.beh == bCollidePrimary {
					env.Event("collide_primary", 1)
				}
				if c.beh == bCollideControl {
					env.Event("collide_control", 1)
				}
			}
		case errors.As(c.err, &re):
			if c.beh != bReject {
				env.Violate("reject-error-without-reject", fmt.Sprintf("%s returned %v but the peer never rejected it", desc, c.err), cs)
			} else if re.Reason != rejectReason(c.token) {
				env.Violate("reject-reason-differs", fmt.Sprintf("%s returned reject reason %d, the peer sent %d", desc, re.Reason, rejectReason(c.token)), cs)
			} else {
				env.Event("reject_error", 1)
			}
		case errors.Is(c.err, hsms.ErrT3Timeout):
			if c.end-c.start < t3 {
				env.Violate("t3-timeout-too-early", fmt.Sprintf("%s returned ErrT3Timeout %v after the call started, T3=%v", desc, c.end-c.start, t3), cs)
			}
			if !shortT3 && linkUp && (c.beh == bNow || c.beh == bTwice) {
				env.Violate("lost-reply", desc+" timed out after 10 s although the peer answered immediately", cs)
			}
			env.Event("t3_timeout", 1)
		case errors.Is(c.err, hsms.ErrConnClosed):
			if linkUp {
				env.Violate("conn-closed-without-drop", desc+" returned ErrConnClosed but the link was never dropped", cs)
			}
			env.Event("conn_closed", 1)
		case errors.Is(c.err, context.DeadlineExceeded):
			if !c.deadline {
				env.Violate("ctx-error-without-cancel", desc+" returned context.DeadlineExceeded but its context had no deadline", cs)
			}
			env.Event("ctx_deadline", 1)
		case errors.Is(c.err, context.Canceled):
			if !c.canceled {
				env.Violate("ctx-error-without-cancel", desc+" returned context.Canceled but its context was never cancelled", cs)
			}
			env.Event("ctx_cancel", 1)
		case errors.Is(c.err, hsms.ErrNotSelectedState):
			if linkUp || atPeer {
				env.Violate("not-selected-on-live-session", fmt.Sprintf("%s returned ErrNotSelectedState (link dropped in this history: %v, frame at peer: %v)", desc, !linkUp, atPeer), cs)
			}
			env.Event("refused_after_drop", 1)
		default:
			if linkUp {
				env.Violate("undefined-outcome", fmt.Sprintf("%s returned (%v, %v), which is none of reply / RejectError / ErrT3Timeout / ErrConnClosed / ctx error", desc, c.reply, c.err), cs)
			} else {
				env.Event("write_error_on_dying_link", 1)
			}
		}
	}
	_ = dropped

	// ---- inbound data: exactly one recipient, handlers in arrival order ----
	if !linkUp {
		return // frames in flight when the link died have no defined fate
	}
	type need struct {
		sys  uint32
		body string
		must bool // must reach the handlers (false: may — duplicate reply / reply to an abandoned call)
	}
	callByTok := map[string]*c06Call{}
	for _, c := range all {
		callByTok[c.token] = c
	}
	var needs []need
	seenReply := map[string]int{}
	for _, ev := range pc.SentLog() {
		f := ev.Frame
		if !f.IsData() {
			continue
		}
		tok := c06Token(f)
		switch {
		case strings.HasPrefix(tok, "r:"):
			t := tok[2:]
			seenReply[t]++
			if returnedReplies[t] && seenReply[t] == 1 {
				continue // consumed by its caller
			}
			needs = append(needs, need{f.Sys, tok, false}) // duplicate, or the caller gave up: handlers or discarded
		case strings.HasPrefix(tok, "P:"), strings.HasPrefix(tok, "U:"):
			needs = append(needs, need{f.Sys, tok, true})
		default:
			// undecodable reply: consumed by its caller (returned with an error) or, if the caller gave up, handlers
			needs = append(needs, need{f.Sys, "", false})
		}
	}
	for hi, h := range []*deliveryLog{h1, h2} {
		got := h.snapshot()
		gi := 0
		for _, n := range needs {
			if gi < len(got) && got[gi].Sys == n.sys && (n.body == "" || string(got[gi].Body) == string(c06Body(n.body))) {
				gi++
				env.Event("handler_deliveries", 1)
				continue
			}
			if n.must {
				env.Violate("handler-missed-or-misordered", fmt.Sprintf("handler %d: inbound %q (sys %08x) was not delivered at its place in arrival order (next delivery: %v)", hi+1, n.body, n.sys, c06Next(got, gi)), cs)
				return
			}
		}
		if gi < len(got) {
			env.Violate("handler-extra-delivery", fmt.Sprintf("handler %d received a message no inbound frame accounts for (second recipient or duplicate): sys %08x body %q", hi+1, got[gi].Sys, got[gi].Body), cs)
			return
		}
	}
}

func c06Next(got []delivery, gi int) string {
	if gi >= len(got) {
		return "none"
	}

	return fmt.Sprintf("sys %08x body %q", got[gi].Sys, got[gi].Body)
}
