package checks

import (
	"errors"
	"fmt"
	"math"
	"runtime"
	"runtime/debug"
	"strings"
	"unicode/utf8"

	"github.com/arloliu/go-secs/v2/hsms"
	"github.com/arloliu/go-secs/v2/sml"

	"verif/fw"
	"verif/gen"
	"verif/gen/smltext"
	"verif/ref/e5"
)

// C14 — the SML parser is total on any text, resource-bounded, with accurate error positions.
func init() {
	fw.Register(&fw.Check{
		ID:    "C14",
		Level: "exploration",
		Rule: "every input goes to six entry points (sml.Parse, sml.ParseStrict, Parser.ParseMessage and Parser.ParseHeader in both modes) inside plain-build child processes capped at 4 GiB of address space. " +
			"phase inputs, deterministic units: (E) EXHAUSTIVE all strings of 1..2 (thorough: 1..3) symbols over a 40-symbol alphabet of structural characters / token representatives / hostile bytes, embedded in 22 grammar contexts; " +
			"(M) grammar-directed mutations of generated valid SML: every truncation, token drop/duplicate/swap, unbalanced brackets, unterminated or mis-quoted strings in A/J/W items, 39 hostile size hints on every item " +
			"(0, 1, 10^5, 2^31, 2^32, 2^63-2..2^63, 2^64, negative, [..n], [n..], malformed), NUL / multi-byte / invalid-UTF-8 inserts at every token boundary, unterminated comments, byte flips; (H) size hints 0..10^6 on all 16 item types, each metered; " +
			"(N) nesting 1..10^5 in five shapes; (L) long inputs; (R) random bytes. Inputs of phase inputs whose size hint may be read as a claim above 2*10^6 elements are diverted (counted) to the danger shards. phase danger-scaling, shards 0..12 (danger): one shard per family of inputs that may need resources unrelated to the input length (size hints up to 2^31-1 in every form, nesting 5*10^5..10^7), " +
			"ascending, each written to disk before it runs, so that a process death is attributed to the input and the other shards still complete. the remaining 12 shards (scaling): 12 input families at n,2n,4n,8n, thread CPU time (CLOCK_THREAD_CPUTIME_ID). " +
			"phase race: 16 goroutines with their own Parser/Encoder instances against per-goroutine sequential baselines. " +
			"Oracles: no panic, no process death, no hang; nil error => every message non-nil, stream<=127, W only on odd functions, error-free body (ParseHeader: empty body), ParseMessage never (nil,nil); " +
			"*ParseError: 0<=Offset<=len(input), Line = 1+count of '\\n' before Offset, Col = 1+bytes (or runes) since the last '\\n'; allocation meter: TotalAlloc for the six calls <= 64KiB+1KiB*n+4*n^2 bytes; " +
			"CPU: violation only if the growth exponent stays >3 over three doublings and the last point took >2 s; concurrency: results identical to the sequential baseline and no race report. " +
			"distinct = hash(input); non-trivial = non-empty input",
		Assumptions: []string{
			"resource bound: a parse may not need memory that is not polynomially bounded by the input length; concretely the six calls on an n-byte input may allocate at most 64 KiB + 1 KiB*n + 4*n^2 bytes, and every child runs under ulimit -v 4 GiB (an allocation proportional to a CLAIMED size rather than to the input must not be needed)",
			"Line/Col consistency: lines are separated by '\\n'; Col may count bytes or runes",
			"time bound: growth exponent <= 3 (measured over three doublings) or less than 2 s of thread CPU at the largest size",
			"stack bound: the danger shards of the quick tier run with debug.SetMaxStack(128 MiB) (thorough tier: Go's default 1 GB); unbounded recursion exceeds either, the cap only shortens the run",
		},
		Phases: func(tier string) []fw.Phase {
			return []fw.Phase{
				{Name: "inputs", Shards: 16, Timeout: tierDur(tier, 3, 40), HangIsViolation: true, MemLimitKB: 4 << 20},
				// shards 0..len(danger)-1: one danger family each; the remaining shards: one scaling family each
				{Name: "danger-scaling", Shards: len(c14DangerFamilies) + len(c14ScalingFamilies), Parallel: 16, Timeout: tierDur(tier, 4, 20), HangIsViolation: true, MemLimitKB: 4 << 20},
				{Name: "race", Race: true, Shards: 2, Timeout: tierDur(tier, 4, 30), HangIsViolation: true},
			}
		},
		Worker: c14Worker,
		RequiredEvents: []string{"inputs_judged", "exhaustive_inputs", "mutation_inputs", "size_hint_inputs_metered", "nesting_inputs", "parse_errors_position_checked",
			"accepted_results_checked", "scaling_families_measured", "concurrent_results_compared"},
	})
}

type c14Case struct {
	Unit     int64  `json:"unit"`
	Kind     string `json:"kind"`
	Entry    string `json:"entry,omitempty"`
	Input    string `json:"input,omitempty"`
	InputLen int    `json:"input_len,omitempty"`
	Recipe   string `json:"recipe,omitempty"`
	CrashKey string `json:"crash_key,omitempty"`
}

type c14Entry struct {
	name string
	call func(in string) ([]*hsms.DataMessage, error, bool) // messages, error, single (ParseMessage/ParseHeader)
	head bool
}

func c14Entries() []c14Entry {
	single := func(m *hsms.DataMessage, err error) ([]*hsms.DataMessage, error, bool) {
		if m == nil {
			return nil, err, true
		}

		return []*hsms.DataMessage{m}, err, true
	}

	return []c14Entry{
		{name: "Parse", call: func(in string) ([]*hsms.DataMessage, error, bool) { m, e := sml.Parse(in); return m, e, false }},
		{name: "ParseStrict", call: func(in string) ([]*hsms.DataMessage, error, bool) { m, e := sml.ParseStrict(in); return m, e, false }},
		{name: "Parser.ParseMessage", call: func(in string) ([]*hsms.DataMessage, error, bool) { return single(sml.NewParser().ParseMessage(in)) }},
		{name: "Parser(strict).ParseMessage", call: func(in string) ([]*hsms.DataMessage, error, bool) {
			return single(sml.NewParser(sml.WithParserStrictMode(true)).ParseMessage(in))
		}},
		{name: "Parser.ParseHeader", head: true, call: func(in string) ([]*hsms.DataMessage, error, bool) { return single(sml.NewParser().ParseHeader(in)) }},
		{name: "Parser(strict).ParseHeader", head: true, call: func(in string) ([]*hsms.DataMessage, error, bool) {
			return single(sml.NewParser(sml.WithParserStrictMode(true)).ParseHeader(in))
		}},
	}
}

type c14Input struct {
	kind    string
	in      string
	metered bool // already metered on its own
}

type c14State struct {
	env     *fw.Env
	entries []c14Entry
	once    onceKeys
	unit    int64
	batch   []c14Input
}

func c14Worker(env *fw.Env) {
	st := &c14State{env: env, entries: c14Entries(), once: onceKeys{}}
	switch env.Phase {
	case "danger-scaling":
		if env.Shard < len(c14DangerFamilies) {
			st.danger()
		} else {
			st.scaling(env.Shard - len(c14DangerFamilies))
		}
	case "race":
		c14Race(env)
	default:
		for _, u := range c14Units(env) {
			if !env.Mine(u) || !env.Want(u) {
				continue
			}
			if env.Stop() {
				break
			}
			st.runUnit(u)
		}
	}
}

func (st *c14State) violate(key, msg string, cs c14Case) {
	st.env.Event("violation_"+key, 1)
	if st.once.first(key) {
		st.env.Violate(key, msg, cs)
	}
}

func c14AllocBound(n int) int64 {
	return 64<<10 + 1024*int64(n) + 4*int64(n)*int64(n)
}

// ---------------------------------------------------------------------------------------------
// phase inputs

const (
	c14UHints    = 10_000
	c14UNesting  = 20_000
	c14ULong     = 30_000
	c14UMutation = 100_000
	c14URandom   = 1_000_000
)

func c14Units(env *fw.Env) []int64 {
	var us []int64
	for u := 0; u < len(smltext.Contexts)*len(smltext.Symbols); u++ {
		us = append(us, int64(u))
	}
	for k := 0; k < len(e5.AllCodes); k++ {
		us = append(us, int64(c14UHints+k))
	}
	for k := 0; k < len(c14NestDepths)-env.Pick(1, 0); k++ { // the deepest one only in the thorough tier
		us = append(us, int64(c14UNesting+k))
	}
	for k := 0; k < c14LongCount; k++ {
		us = append(us, int64(c14ULong+k))
	}
	for j := 0; j < env.Pick(110, 9000); j++ {
		us = append(us, int64(c14UMutation+j))
	}
	for k := 0; k < env.Pick(40, 3000); k++ {
		us = append(us, int64(c14URandom+k))
	}

	return us
}

func (st *c14State) runUnit(u int64) {
	st.unit = u
	env := st.env
	t0 := threadCPU()
	switch {
	case u < c14UHints:
		env.Begin(u, c14Case{Unit: u, Kind: "exhaustive"})
		st.exhaustive(int(u))
	case u < c14UNesting:
		env.Begin(u, c14Case{Unit: u, Kind: "size-hints"})
		st.hints(int(u - c14UHints))
	case u < c14ULong:
		env.Begin(u, c14Case{Unit: u, Kind: "nesting"})
		st.nesting(int(u - c14UNesting))
	case u < c14UMutation:
		env.Begin(u, c14Case{Unit: u, Kind: "long"})
		st.long(int(u - c14ULong))
	case u < c14URandom:
		env.Begin(u, c14Case{Unit: u, Kind: "mutation"})
		st.mutations(u - c14UMutation)
	default:
		env.Begin(u, c14Case{Unit: u, Kind: "random"})
		st.random(u - c14URandom)
	}
	st.flush()
	if d := threadCPU() - t0; d > 3 {
		env.Note("unit %d used %.1fs of CPU (informational)", u, d)
	}
}

func (st *c14State) add(kind, in string) {
	if st.env.Stop() {
		return
	}
	st.batch = append(st.batch, c14Input{kind: kind, in: in})
	if len(st.batch) >= 1024 {
		st.flush()
	}
}

// meter returns the bytes allocated by the six entry points on in (panics are judged later).
func (st *c14State) meter(in string) int64 {
	var m0, m1 runtime.MemStats
	runtime.ReadMemStats(&m0)
	for _, e := range st.entries {
		func() {
			defer func() { _ = recover() }()
			_, _, _ = e.call(in)
		}()
	}
	runtime.ReadMemStats(&m1)

	return int64(m1.TotalAlloc - m0.TotalAlloc)
}

func (st *c14State) allocViolation(kind, in string, got int64) {
	cs := c14Case{Unit: st.unit, Kind: kind, Input: quoteClip(in), InputLen: len(in)}
	key := "alloc-unbounded"
	if c14HasBigHint(in) {
		key = "size-hint-preallocation"
	}
	st.violate(key, fmt.Sprintf("parsing a %d-byte input through the six entry points allocated %d bytes (bound %d = 64KiB+1KiB*n+4n^2): "+
		"the allocation follows a size the text merely claims, not the input; with the largest hint the grammar admits (2147483647) the same path asks for 2 to 32 GiB and the process dies under any address-space cap (see phase danger)",
		len(in), got, c14AllocBound(len(in))), cs)
}

// c14HasBigHint: the input contains a size hint "[...]" with a number >= 10000.
func c14HasBigHint(in string) bool {
	for i := 0; i < len(in); i++ {
		if in[i] != '[' {
			continue
		}
		j := i + 1
		for j < len(in) && in[j] != ']' && in[j] != '>' && in[j] != '<' {
			j++
		}
		digits := 0
		for k := i + 1; k < j; k++ {
			if in[k] >= '0' && in[k] <= '9' {
				digits++
				if digits >= 5 {
					return true
				}
			} else {
				digits = 0
			}
		}
	}

	return false
}

// c14Dangerous reports whether the text holds, inside a size-hint bracket, a number that the
// parser may read as a claim of more than 2*10^6 elements (up to the grammar's maximum 2^31-1).
// On the pinned tree such a claim is pre-allocated (F3) and can kill the process under the 4 GiB
// cap, so these inputs are kept out of phase inputs (a dead shard would silently lose the rest of
// its workload) and are represented by the explicit ladders of the danger shards instead.
// After "[." the parser skips two characters, so the number it reads may be the digit run without
// its first digit ("[.2147483648" is read as 147483648); both readings are considered.
func c14Dangerous(in string) bool {
	claim := func(d string) bool {
		for len(d) > 1 && d[0] == '0' {
			d = d[1:]
		}
		if len(d) < 7 || len(d) > 10 {
			return false // below 10^6, or beyond int32 (rejected by the parser)
		}
		var v int64
		for i := 0; i < len(d); i++ {
			v = v*10 + int64(d[i]-'0')
		}

		return v >= 2_000_000 && v <= math.MaxInt32
	}
	for i := 0; i < len(in); i++ {
		if in[i] != '[' {
			continue
		}
		dot := false
		for j := i + 1; j < len(in) && in[j] != ']' && in[j] != '>' && in[j] != '<'; {
			c := in[j]
			if c == '.' {
				dot = true
			}
			if c < '0' || c > '9' {
				j++
				continue
			}
			k := j
			for k < len(in) && in[k] >= '0' && in[k] <= '9' {
				k++
			}
			if claim(in[j:k]) || (dot && claim(in[j+1:k])) {
				return true
			}
			j = k
		}
	}

	return false
}

func (st *c14State) flush() {
	if len(st.batch) == 0 {
		return
	}
	env := st.env
	// keep inputs that can kill the process on the pinned tree out of this phase (see c14Dangerous)
	kept := st.batch[:0]
	for _, b := range st.batch {
		if c14Dangerous(b.in) {
			env.Event("inputs_diverted_to_danger_phase", 1)
			continue
		}
		kept = append(kept, b)
	}
	st.batch = kept
	if len(st.batch) == 0 {
		return
	}
	var sumBound int64
	var m0, m1 runtime.MemStats
	runtime.ReadMemStats(&m0)
	n := 0
	for _, b := range st.batch {
		if b.metered {
			continue
		}
		n++
		sumBound += c14AllocBound(len(b.in))
		for _, e := range st.entries {
			func() {
				defer func() { _ = recover() }()
				_, _, _ = e.call(b.in)
			}()
		}
	}
	runtime.ReadMemStats(&m1)
	env.Event("alloc_batches_metered", 1)
	if delta := int64(m1.TotalAlloc - m0.TotalAlloc); n > 0 && delta > sumBound {
		for _, b := range st.batch {
			if b.metered {
				continue
			}
			if d := st.meter(b.in); d > c14AllocBound(len(b.in)) {
				st.allocViolation(b.kind, b.in, d)
			}
		}
	}
	for _, b := range st.batch {
		if env.Stop() {
			break
		}
		st.judge(b.kind, b.in)
	}
	st.batch = st.batch[:0]
}

func quoteClip(s string) string {
	if len(s) > 240 {
		return fmt.Sprintf("%q…(%d bytes)…%q", s[:160], len(s), s[len(s)-60:])
	}

	return fmt.Sprintf("%q", s)
}

// judge runs the full oracle on one input.
func (st *c14State) judge(kind, in string) {
	env := st.env
	env.Eval(fw.HashStr(in), len(in) > 0)
	env.Event("inputs_judged", 1)
	cs := c14Case{Unit: st.unit, Kind: kind, Input: quoteClip(in), InputLen: len(in)}
	if len(in) <= 40 {
		env.Sample(cs)
	}
	for _, e := range st.entries {
		var msgs []*hsms.DataMessage
		var err error
		var single bool
		p, stack := catchStack(func() { msgs, err, single = e.call(in) })
		c := cs
		c.Entry = e.name
		if p != nil {
			st.violate("panic:"+panicSite(stack), fmt.Sprintf("%s panicked: %v", e.name, p), c)
			continue
		}
		if err != nil {
			env.Event("rejected", 1)
			st.checkErr(in, err, c)

			continue
		}
		env.Event("accepted", 1)
		env.Event("accepted_results_checked", 1)
		if single && len(msgs) != 1 {
			st.violate("nil-message-nil-error", e.name+" returned (nil, nil)", c)
			continue
		}
		for k, m := range msgs {
			if m == nil {
				st.violate("nil-message-in-result", fmt.Sprintf("%s returned a nil message at index %d with a nil error", e.name, k), c)
				continue
			}
			if m.Stream() > 127 || (m.WaitBit() && m.Function()%2 == 0) {
				st.violate("invalid-message-accepted", fmt.Sprintf("%s returned S%dF%d W=%v, which is not a valid data message header", e.name, m.Stream(), m.Function(), m.WaitBit()), c)
			}
			it, ierr := m.Item()
			switch {
			case ierr != nil || it == nil:
				st.violate("message-without-body", fmt.Sprintf("%s returned a message whose Item() is (%v, %v)", e.name, it, ierr), c)
			case it.Error() != nil:
				st.violate("errored-body-accepted", fmt.Sprintf("%s returned a message whose body carries the error %v", e.name, it.Error()), c)
			case e.head && !it.IsEmpty():
				st.violate("header-parse-with-body", e.name+" returned a message with a non-empty body", c)
			}
		}
	}
}

// checkErr: a *ParseError must point into the input and its line/column must follow from the offset.
func (st *c14State) checkErr(in string, err error, c c14Case) {
	var pe *sml.ParseError
	if !errors.As(err, &pe) {
		st.env.Event("non_syntax_errors", 1)
		return
	}
	st.env.Event("parse_errors_position_checked", 1)
	if pe.Offset < 0 || pe.Offset > len(in) {
		st.violate("error-offset-out-of-range", fmt.Sprintf("%s: ParseError.Offset=%d for an input of %d bytes (%v)", c.Entry, pe.Offset, len(in), err), c)
		return
	}
	line := 1 + strings.Count(in[:pe.Offset], "\n")
	start := strings.LastIndexByte(in[:pe.Offset], '\n') + 1
	colB := pe.Offset - start + 1
	colR := utf8.RuneCountInString(in[start:pe.Offset]) + 1
	if pe.Line != line || (pe.Col != colB && pe.Col != colR) {
		st.violate("error-line-col-inconsistent", fmt.Sprintf("%s: ParseError{Offset:%d Line:%d Col:%d}, but offset %d is line %d, column %d (bytes) / %d (runes)", c.Entry, pe.Offset, pe.Line, pe.Col, pe.Offset, line, colB, colR), c)
	}
	if colB != colR {
		st.env.Event("error_positions_after_multibyte_runes", 1)
	}
	if line > 1 {
		st.env.Event("error_positions_beyond_line_1", 1)
	}
}

// (E) exhaustive: unit = context*len(Symbols) + first symbol
func (st *c14State) exhaustive(u int) {
	ctx := smltext.Contexts[u/len(smltext.Symbols)]
	s1 := smltext.Symbols[u%len(smltext.Symbols)]
	n := int64(0)
	emit := func(s string) {
		st.add("exhaustive", ctx[0]+s+ctx[1])
		n++
	}
	emit(s1)
	if u%len(smltext.Symbols) == 0 {
		emit("") // the bare context
	}
	for _, s2 := range smltext.Symbols {
		emit(s1 + s2)
		if !st.env.Quick() {
			for _, s3 := range smltext.Symbols {
				emit(s1 + s2 + s3)
			}
		}
	}
	st.env.Event("exhaustive_inputs", n)
}

// (H) size hints on one item type, each input metered on its own.
func (st *c14State) hints(k int) {
	fc := e5.AllCodes[k]
	tn := smltext.TypeName(fc)
	value := "1"
	switch fc {
	case e5.List:
		value = ""
	case e5.ASCII, e5.JIS8, e5.Localized:
		value = `"x"`
	case e5.Boolean:
		value = "T"
	case e5.Binary:
		value = "0x01"
	case e5.F4, e5.F8:
		value = "1.5"
	}
	hs := []string{"0", "1", "2", "255", "65536", "100000", "1000000", "..100000", "0..100000", "100000..", "1..100000", "2147483648", "4294967295", "4294967296",
		"18446744073709551615", "18446744073709551616", "-1", "100000..1", " 100000 ",
		"2147483649", "4294967297", "9223372036854775806", "9223372036854775807", "9223372036854775808", "..9223372036854775807", "0..9223372036854775807",
		"1..9223372036854775807", "9223372036854775807..", "0009223372036854775807"}
	for _, h := range hs {
		for _, form := range []string{"S1F1 W\n<%s[%s] %s>\n.", "S1F1 W\n<L <%s[%s] %s> <U1 1>>\n.", "S1F1 W\n<%s[%s] %s"} {
			in := fmt.Sprintf(form, tn, h, value)
			d := st.meter(in)
			st.env.Event("size_hint_inputs_metered", 1)
			if d > c14AllocBound(len(in)) {
				st.allocViolation("size-hint", in, d)
			}
			st.batch = append(st.batch, c14Input{kind: "size-hint", in: in, metered: true})
		}
	}
}

var c14NestDepths = []int{1, 2, 3, 10, 63, 64, 65, 100, 1000, 10_000, 30_000, 100_000}

// (N) nesting: five shapes at one depth
func (st *c14State) nesting(k int) {
	d := c14NestDepths[k]
	open, cl := strings.Repeat("<L", d), strings.Repeat(">", d)
	shapes := []string{
		"S1F1 W\n" + open + cl + "\n.",                                          // balanced
		"S1F1 W\n" + open,                                                       // never closed
		"S1F1 W\n" + open + cl[:d/2] + "\n.",                                    // half closed
		"S1F1 W\n" + strings.Repeat("<L[1] ", d) + "<U1 1>" + cl + "\n.",        // hints + leaf
		"S1F1 W\n" + strings.Repeat("<L <A \"a\">", d) + cl + "\n.",             // a leaf at every level
		"S1F1 W\n" + open + cl + ">" + "\n.",                                    // one close too many
		strings.Repeat("S1F1 W\n<L", d) + cl + "\n.",                            // headers inside
		"S1F1 W\n" + strings.Repeat("<L\n", d) + strings.Repeat(">\n", d) + ".", // newlines (line counting in errors)
	}
	for _, s := range shapes {
		st.env.Event("nesting_inputs", 1)
		st.add("nesting", s)
		st.flush()
	}
	if k == 0 {
		// error positions computed BACKWARDS from the scan position (position - length of a collected token): a token
		// of invalid UTF-8 bytes grows by 3 bytes (U+FFFD) per input byte when it is collected rune by rune, so the
		// subtraction can run past the start of the input. Unquoted runs of 1..40 invalid bytes, as early as possible.
		for n := 1; n <= 40; n++ {
			for _, bad := range []string{"\xff", "\x80", "\xc3", "\xe2\x82"} {
				run := strings.Repeat(bad, n)
				for _, form := range []string{"S1F1<A%s>.", "S1F1\n<A %s>\n.", "S1F1 W\n<L <A %s 0x41> <J %s> <W %s>>\n.", "S1F1<B %s>.", "S1F1<U1 %s>.", "S1F1<BOOLEAN %s>."} {
					st.add("backward-position", strings.ReplaceAll(form, "%s", run))
				}
			}
			st.flush()
		}
		st.env.Event("backward_position_inputs", 40*4*6)
	}
}

const c14LongCount = 10

// (L) long inputs (totality only; time is the scaling phase's business)
func (st *c14State) long(k int) {
	n := st.env.Pick(40_000, 120_000) // some of these are quadratic in the parser (legitimately: exponent 2)
	var in string
	switch k {
	case 0:
		in = "S1F1 W\n<A \"" + strings.Repeat("a", n) + "\">\n."
	case 1:
		in = "S1F1 W\n<A \"" + strings.Repeat("a", n) // unterminated
	case 2:
		in = "S1F1 W\n<A \"" + strings.Repeat("\"", n) + "\">\n."
	case 3:
		in = "S1F1 W\n<J \"" + strings.Repeat(">", n) + "\">\n."
	case 4:
		in = "S1F1 W\n<J '" + strings.Repeat("'", n)
	case 5:
		in = "S1F1 W\n<U1 " + strings.Repeat("1 ", n/2) + ">\n."
	case 6:
		in = "S1F1 W\n/* " + strings.Repeat("c", n) // unterminated comment
	case 7:
		in = "S1F1 W\n<A " + strings.Repeat("\\", n) + ">\n."
	case 8:
		in = strings.Repeat("\n", n) + "S1F1 W\n<L <X>>\n." // an error far down: line counting
	default:
		in = "S1F1 W\n<W \"" + strings.Repeat("é", n/2) + "\" >\n." // multi-byte text, then a space before '>'
	}
	st.env.Event("long_inputs", 1)
	st.add("long", in)
}

// (M) all mutations of one generated valid text
func (st *c14State) mutations(j int64) {
	r := st.env.RandAt("mut", j)
	g := smltext.New(r, smltext.Style{Strict: j%2 == 0, Plain: j%5 == 0})
	nm := 1 + r.IntN(2)
	for m := 0; m < nm; m++ {
		var body *e5.Node
		switch j % 4 {
		case 0:
			body = gen.Leaf(r, gen.LeafCodes[int(j/4)%len(gen.LeafCodes)], 1+r.IntN(4))
		case 1:
			budget := 3 + r.IntN(12)
			body = gen.Tree(r, &budget, 0, 1+r.IntN(3))
		case 2:
			body = gen.Chain(r, 1+r.IntN(5))
		default:
			body = &e5.Node{FC: e5.List, Kids: []*e5.Node{
				gen.Leaf(r, e5.ASCII, r.IntN(8)), gen.Leaf(r, e5.JIS8, r.IntN(6)), gen.Leaf(r, e5.Localized, r.IntN(6)), gen.Leaf(r, e5.Binary, r.IntN(4)), gen.Leaf(r, e5.F4, r.IntN(3)),
			}}
		}
		smltext.Sanitize(r, body, int(j/4)%3)
		stream, function, w := c13Header(j*2 + int64(m))
		name := ""
		if r.IntN(4) == 0 {
			name = "name"
		}
		g.Message(smltext.Msg{Name: name, Stream: int(stream), Function: int(function), W: w, Body: body})
	}
	st.env.Event("mutation_bases", 1)
	hintsMetered := 0
	smltext.Mutations(r, g.T, func(kind, in string) {
		st.env.Event("mutation_inputs", 1)
		if kind == "size-hint" {
			// the library pre-allocates from the hint, which makes these the costliest inputs of the
			// phase: meter three big ones per base individually and keep the rest out of the batch meter
			if hintsMetered < 3 && c14HasBigHint(in) && !c14Dangerous(in) {
				hintsMetered++
				st.env.Event("size_hint_inputs_metered", 1)
				if d := st.meter(in); d > c14AllocBound(len(in)) {
					st.allocViolation(kind, in, d)
				}
			}
			st.batch = append(st.batch, c14Input{kind: kind, in: in, metered: true})
			if len(st.batch) >= 1024 {
				st.flush()
			}

			return
		}
		st.add(kind, in)
	})
}

// (R) random bytes and token soup
func (st *c14State) random(k int64) {
	r := st.env.RandAt("rand", k)
	for i := 0; i < 256; i++ {
		n := r.IntN(40)
		if r.IntN(8) == 0 {
			n = r.IntN(500)
		}
		var sb strings.Builder
		if r.IntN(2) == 0 {
			sb.WriteString("S1F1 W\n")
		}
		switch r.IntN(3) {
		case 0:
			for j := 0; j < n; j++ {
				sb.WriteByte(byte(r.IntN(256)))
			}
		case 1:
			for j := 0; j < n; j++ {
				sb.WriteString(smltext.Symbols[r.IntN(len(smltext.Symbols))])
			}
		default:
			const soup = "<>[]\"'\\. \n\tLABJUIF0123456789x/*:-WS"
			for j := 0; j < n; j++ {
				sb.WriteByte(soup[r.IntN(len(soup))])
			}
		}
		st.add("random", sb.String())
	}
	st.env.Event("random_units", 1)
}

// ---------------------------------------------------------------------------------------------
// phase danger: inputs that may need resources unrelated to their length. One family per shard,
// ascending; env.Begin before every input.

type c14Danger struct {
	name     string
	crashKey string
	steps    func(quick bool) []func() (desc, in string)
}

func c14HintSteps(form string, hints ...string) func(bool) []func() (string, string) {
	return func(bool) []func() (string, string) {
		var out []func() (string, string)
		for _, h := range hints {
			in := strings.ReplaceAll(form, "%", h)
			out = append(out, func() (string, string) { return in, in })
		}

		return out
	}
}

func c14DepthSteps(prefix, unit, leaf, closer, suffix string) func(bool) []func() (string, string) {
	return func(quick bool) []func() (string, string) {
		var out []func() (string, string)
		depths := []int{500_000, 2_000_000, 10_000_000}
		if quick {
			depths = []int{100_000, 1_000_000, 10_000_000} // goroutine stacks are capped at 128 MiB in the quick tier
		}
		for _, d := range depths {
			out = append(out, func() (string, string) {
				return fmt.Sprintf("%q + %q x %d + %q + %q x %d + %q", prefix, unit, d, leaf, closer, d, suffix),
					prefix + strings.Repeat(unit, d) + leaf + strings.Repeat(closer, d) + suffix
			})
		}

		return out
	}
}

const c14MaxHint = "2147483647"

var c14DangerFamilies = []c14Danger{
	{"list-size-hint", "size-hint-preallocation", c14HintSteps("S1F1 W\n<L[%]>\n.", "1000000", "10000000", c14MaxHint)},
	{"i8-size-hint", "size-hint-preallocation", c14HintSteps("S1F1 W\n<I8[%] 1>\n.", "1000000", "10000000", c14MaxHint)},
	{"f4-size-hint", "size-hint-preallocation", c14HintSteps("S1F1 W\n<F4[%] 1.5>\n.", "1000000", "10000000", c14MaxHint)},
	{"u1-size-hint", "size-hint-preallocation", c14HintSteps("S1F1 W\n<U1[%] 1>\n.", "1000000", "10000000", c14MaxHint)},
	{"binary-size-hints-in-list", "size-hint-preallocation", c14HintSteps("S1F1 W\n<L <B[%] 1> <B[%] 2> <B[%] 3> <BOOLEAN[%] T> <B[%] 5>>\n.", "1000000", "10000000", c14MaxHint)},
	{"ascii-size-hints-in-list", "size-hint-preallocation", c14HintSteps("S1F1 W\n<L <A[%] \"a\"> <A[%] \"b\"> <A[%] \"c\"> <A[%] \"d\">>\n.", "1000000", "10000000", c14MaxHint)},
	{"range-size-hints", "size-hint-preallocation", c14HintSteps("S1F1 W\n<L[%]>\n.", "0..1000000", "..10000000", "0.."+c14MaxHint, ".."+c14MaxHint, c14MaxHint+"..")},
	{"nested-size-hint", "size-hint-preallocation", c14HintSteps("S1F1 W\n<L <L <L[1] <U8[%] 1>>>>\n.", "1000000", "10000000", c14MaxHint)},
	// "[." makes the parser skip two characters: ".2147483648" is read as the claim 147483648 (found by the exhaustive 3-symbol enumeration)
	{"skipped-digit-size-hint", "size-hint-preallocation", c14HintSteps("S1F1 W\n<L[%", ".21000000]>\n.", ".2147483648", ".2147483648]>\n.")},
	{"deep-unclosed-lists", "unbounded-list-recursion", c14DepthSteps("S1F1 W\n", "<L", "", "", "")},
	{"deep-balanced-lists", "unbounded-list-recursion", c14DepthSteps("S1F1 W\n", "<L", "", ">", "\n.")},
	{"deep-hinted-lists-with-leaf", "unbounded-list-recursion", c14DepthSteps("S1F1 W\n", "<L[1] ", "<U1 1>", ">", "\n.")},
	{"deep-lists-newline-separated", "unbounded-list-recursion", c14DepthSteps("S1F1 W\n", "<L\n", "", ">\n", ".")},
	// every level first CLOSES something (an empty list, a leaf item) before it descends: a depth account that is
	// kept on open and close events drifts here and nowhere else
	{"deep-lists-after-closed-list-sibling", "unbounded-list-recursion", c14DepthSteps("S1F1 W\n", "<L<L> ", "", ">", "\n.")},
	{"deep-lists-after-closed-leaf-sibling", "unbounded-list-recursion", c14DepthSteps("S1F1 W\n", "<L <U1 1> <A \"x\"> ", "", ">", "\n.")},
	{"deep-unclosed-lists-after-closed-sibling", "unbounded-list-recursion", c14DepthSteps("S1F1 W\n", "<L<L>", "", "", "")},
}

func (st *c14State) danger() {
	env := st.env
	fam := c14DangerFamilies[env.Shard]
	if env.Quick() {
		// quick tier: cap goroutine stacks at 128 MiB instead of the default 1 GB. Unbounded recursion
		// overflows either; the lower cap only moves the lethal nesting depth from ~1.6*10^6 to
		// ~4*10^5 and saves the ~30 s the runtime needs to grow (and repeatedly GC-scan) a 512 MiB stack.
		debug.SetMaxStack(128 << 20)
	}
	for k, step := range fam.steps(env.Quick()) {
		// indices start at 1: the runner's crash violations carry index 0, and a replay with index 0
		// re-runs the whole ladder of the shard (which is what reproduces the death)
		idx := int64(env.Shard*100 + k + 1)
		if !env.Want(idx) && env.ReplayIndex != 0 {
			continue
		}
		if env.Stop() {
			break
		}
		desc, in := step()
		st.unit = idx
		// entry points one at a time, the case on disk before each call
		for _, e := range st.entries {
			if e.head {
				continue
			}
			cs := c14Case{Unit: idx, Kind: "danger:" + fam.name, Entry: e.name, Recipe: clipStr(desc, 300), InputLen: len(in), CrashKey: fam.crashKey}
			env.Begin(idx, cs)
			var m0, m1 runtime.MemStats
			runtime.ReadMemStats(&m0)
			var msgs []*hsms.DataMessage
			var err error
			p, stack := catchStack(func() { msgs, err, _ = e.call(in) })
			runtime.ReadMemStats(&m1)
			env.Event("danger_calls_survived", 1)
			if p != nil {
				st.violate("panic:"+panicSite(stack), fmt.Sprintf("%s panicked: %v", e.name, p), cs)
				continue
			}
			if d := int64(m1.TotalAlloc - m0.TotalAlloc); d > c14AllocBound(len(in)) {
				cs.Input = quoteClip(in)
				st.violate(fam.crashKey, fmt.Sprintf("%s on a %d-byte input allocated %d bytes (bound %d)", e.name, len(in), d, c14AllocBound(len(in))), cs)
			}
			if err != nil {
				st.checkErr(in, err, cs)
			}
			_ = msgs
			msgs = nil
			runtime.GC()
		}
		env.Eval(fw.HashStr("danger", fam.name, desc), true)
		env.Event("danger_inputs_survived", 1)
	}
}

// ---------------------------------------------------------------------------------------------
// phase scaling

type c14Scaling struct {
	name   string
	strict bool
	n0     int
	build  func(n int) string
}

var c14ScalingFamilies = []c14Scaling{
	{"deep-lists", false, 12_500, func(n int) string { return "S1F1 W\n" + strings.Repeat("<L", n) + strings.Repeat(">", n) + "\n." }},
	{"long-ascii", false, 500_000, func(n int) string { return "S1F1 W\n<A \"" + strings.Repeat("a", n) + "\">\n." }},
	{"long-ascii-strict", true, 250_000, func(n int) string { return "S1F1 W\n<A \"" + strings.Repeat("ab\\\"", n/4) + "\">\n." }},
	{"many-quotes", false, 250_000, func(n int) string { return "S1F1 W\n<A \"" + strings.Repeat("\" ", n/2) + "\">\n." }},
	{"many-quotes-jis8", false, 250_000, func(n int) string { return "S1F1 W\n<J \"" + strings.Repeat("\"", n) + "x\">\n." }},
	{"many-gt", false, 250_000, func(n int) string { return "S1F1 W\n<J \"" + strings.Repeat(">", n) + "\">\n." }},
	{"many-gt-localized-unterminated", true, 250_000, func(n int) string { return "S1F1 W\n<W '" + strings.Repeat("'>x", n/3) }},
	{"many-messages-without-body", false, 4_000, func(n int) string { return strings.Repeat("S1F1.\n", n) }},
	{"many-messages-with-body", true, 20_000, func(n int) string { return strings.Repeat("S1F1 W\n<L <A \"a\"> <U1 1>>\n.\n", n) }},
	{"long-numeric-token-strict-ascii", true, 5_000, func(n int) string { return "S1F1 W\n<A " + strings.Repeat("0", n) + ">\n." }},
	{"many-values", false, 125_000, func(n int) string { return "S1F1 W\n<I4 " + strings.Repeat("-12 ", n) + ">\n." }},
	{"many-flat-items-then-error", true, 60_000, func(n int) string { return "S1F1 W\n<L\n" + strings.Repeat("<B 0x01>\n", n) + "<X>\n>\n." }},
}

func (st *c14State) scaling(k int) {
	env := st.env
	fam := c14ScalingFamilies[k]
	// a family is one case: any replay of this shard re-measures the whole family
	runtime.LockOSThread()
	defer runtime.UnlockOSThread()
	var times [4]float64
	reps := env.Pick(2, 3)
	for k := 0; k < 4; k++ {
		n := fam.n0 << k
		in := fam.build(n)
		cs := c14Case{Unit: int64(env.Shard*10 + k), Kind: "scaling:" + fam.name, Recipe: fmt.Sprintf("family %s at n=%d", fam.name, n), InputLen: len(in)}
		env.Begin(cs.Unit, cs)
		best := math.Inf(1)
		for rep := 0; rep < reps; rep++ {
			runtime.GC()
			t0 := threadCPU()
			p, stack := catchStack(func() {
				if fam.strict {
					_, _ = sml.ParseStrict(in)
				} else {
					_, _ = sml.Parse(in)
				}
			})
			dt := threadCPU() - t0
			if p != nil {
				st.violate("panic:"+panicSite(stack), fmt.Sprintf("parse panicked: %v", p), cs)
				return
			}
			best = math.Min(best, dt)
		}
		times[k] = best
		env.Eval(fw.HashStr("scaling", fam.name, fmt.Sprint(n)), true)
	}
	var exps [3]float64
	all := true
	for k := 0; k < 3; k++ {
		exps[k] = math.Log2(math.Max(times[k+1], 1e-6) / math.Max(times[k], 1e-6))
		if exps[k] <= 3 {
			all = false
		}
	}
	env.Event("scaling_families_measured", 1)
	env.Note("scaling %s n0=%d: cpu %.4fs %.4fs %.4fs %.4fs, growth exponents %.2f %.2f %.2f", fam.name, fam.n0, times[0], times[1], times[2], times[3], exps[0], exps[1], exps[2])
	if all && times[3] > 2 {
		st.violate("superpolynomial-time:"+fam.name, fmt.Sprintf("family %s: thread CPU %.3fs, %.3fs, %.3fs, %.3fs at n=%d,2n,4n,8n: growth exponents %.2f, %.2f, %.2f all exceed 3 and the last point exceeds 2 s",
			fam.name, times[0], times[1], times[2], times[3], fam.n0, exps[0], exps[1], exps[2]),
			c14Case{Unit: int64(env.Shard), Kind: "scaling:" + fam.name})
	}
}
