package checks

import (
	"fmt"
	"math"
	"math/big"
	"math/rand/v2"
	"strconv"
	"time"

	"github.com/arloliu/go-secs/v2/secs2"

	"verif/ref/clamp"
)

// ---- named / exotic argument types -----------------------------------------------------------

type (
	c16MyInt    int
	c16MyInt8   int8
	c16MyUint64 uint64
	c16MyFloat  float64
	c16MyString string
	c16MyBool   bool
	c16MyBytes  []byte
	c16Struct   struct{ A int }
)

var (
	c16Chan = make(chan int, 1)
	c16Func = func() int { return 1 }
	c16Int  = 7
	c16Ints = []int{1, 2}
)

// c16Other returns argument k of the "no constructor documents this type" pool.
func c16Other(r *rand.Rand) any {
	pool := []any{
		nil, uintptr(5), c16MyInt(3), c16MyInt8(-3), c16MyUint64(9), c16MyFloat(1.5), c16MyString("12"), c16MyBool(true), c16MyBytes{1, 2},
		time.Duration(5), struct{}{}, c16Struct{A: 1}, &c16Struct{A: 2}, map[string]int{"a": 1}, map[int]int(nil), c16Chan, (chan int)(nil), c16Func, (func())(nil),
		&c16Int, (*int)(nil), &c16Ints, []any{1, 2}, []any(nil), [3]int{1, 2, 3}, [0]int{}, [][]int{{1}}, []*int{&c16Int}, []c16MyInt{1, 2}, []uintptr{1},
		complex(1, 2), complex64(3), fmt.Errorf("an error value"), secs2.I1(1), []secs2.Item{secs2.U1(1)}, secs2.NewEmptyItem(), big.NewInt(5), *big.NewInt(6),
		[]struct{}{{}}, []map[string]int{nil}, any(nil), []error{nil}, 'x' /* rune = int32: documented */, "", []string{""},
	}

	return pool[r.IntN(len(pool))]
}

// familyForeign returns a value of a Go type that is a perfectly good numeric/bool type, just not
// one the documentation of family f lists.
func c16Foreign(f clamp.Family, r *rand.Rand) any {
	var pool []any
	switch f {
	case clamp.Int, clamp.Uint:
		pool = []any{float32(1), float64(2), 1.5, true, false, []float64{1}, []float32{2}, []bool{true}, math.NaN(), math.Inf(1)}
	case clamp.Float:
		pool = []any{true, false, []bool{true, false}}
	case clamp.Binary:
		pool = []any{int8(5), int16(5), int32(5), int64(5), uint(5), uint16(5), uint32(5), uint64(5), float64(5), float32(5), true, []int{1, 2}, []string{"1"},
			[]uint16{3}, []int8{1}, []int64{200}, []uint64{7}, []bool{true}}
	case clamp.Boolean:
		pool = []any{0, 1, int8(1), uint8(1), byte(0), "true", "false", "1", "T", []int{1}, []string{"true"}, []byte{1, 0}, 1.0, uint64(1)}
	}

	return pool[r.IntN(len(pool))]
}

var c16Garbage = []string{"", "abc", "12x", "x12", "1.5.2", "--1", "1e", "0x", "0xZZ", " 1", "1 ", "１２", "1,000", "true", "nil", "\x00", "1e+", "-", "+", ".",
	"e5", "0x1G", "0o8", "- 1", "1-", "12 34", "0x-1", "++1", "1..2", "\t5", "5\n", "٣", "#12", "12h", "1/2", "(1)", "0x", "0o", "1e5e5", "1.e.5", "$1"}

// integer-only garbage (a float literal is not an integer literal)
var c16NotAnInt = []string{"1.5", "1e3", "-0.5", "2.", ".5", "1E2", "-1e-2", "0.0"}

// ---- integer value pool ------------------------------------------------------------------------

var c16IntEdges = func() []*big.Int {
	var out []*big.Int
	add := func(v *big.Int) { out = append(out, v) }
	for _, x := range []int64{0, 1, -1, 2, -2, 5, 100, 127, 128, 129, 254, 255, 256, 257, -127, -128, -129, -255, -256, 1000, 1 << 24, 1<<24 + 1, -(1<<24 + 1)} {
		add(big.NewInt(x))
	}
	for _, w := range []uint{1, 2, 4, 8} {
		s := new(big.Int).Lsh(big.NewInt(1), 8*w-1)
		u := new(big.Int).Lsh(big.NewInt(1), 8*w)
		for _, d := range []int64{-2, -1, 0, 1, 2} {
			add(new(big.Int).Add(s, big.NewInt(d)))
			add(new(big.Int).Add(new(big.Int).Neg(s), big.NewInt(d)))
			add(new(big.Int).Add(u, big.NewInt(d)))
			add(new(big.Int).Add(new(big.Int).Neg(u), big.NewInt(d)))
		}
	}
	t53 := new(big.Int).Lsh(big.NewInt(1), 53)
	for _, d := range []int64{-1, 0, 1, 2} {
		add(new(big.Int).Add(t53, big.NewInt(d)))
		add(new(big.Int).Neg(new(big.Int).Add(t53, big.NewInt(d))))
	}
	huge, _ := new(big.Int).SetString("1000000000000000000000000000000", 10)
	add(huge)
	add(new(big.Int).Neg(huge))
	add(new(big.Int).Lsh(big.NewInt(1), 100))

	return out
}()

func c16DrawInt(r *rand.Rand) *big.Int {
	if r.IntN(10) < 7 {
		return c16IntEdges[r.IntN(len(c16IntEdges))]
	}
	bits := 1 + r.IntN(70)
	v := new(big.Int).SetUint64(r.Uint64())
	if bits > 64 {
		v.Lsh(v, uint(bits-64))
		v.Add(v, big.NewInt(int64(r.IntN(1000))))
	} else {
		v.Rsh(v, uint(64-bits))
	}
	if r.IntN(2) == 0 {
		v.Neg(v)
	}

	return v
}

type c16Carrier struct {
	name   string
	lo, hi *big.Int
	scalar func(v *big.Int) any
	slice  func(vs []*big.Int) any
}

func c16Big(s string) *big.Int {
	v, _ := new(big.Int).SetString(s, 10)

	return v
}

var c16Carriers = []c16Carrier{
	{"int", c16Big("-9223372036854775808"), c16Big("9223372036854775807"), func(v *big.Int) any { return int(v.Int64()) }, func(vs []*big.Int) any {
		o := make([]int, len(vs))
		for i, v := range vs {
			o[i] = int(v.Int64())
		}

		return o
	}},
	{"int8", big.NewInt(math.MinInt8), big.NewInt(math.MaxInt8), func(v *big.Int) any { return int8(v.Int64()) }, func(vs []*big.Int) any {
		o := make([]int8, len(vs))
		for i, v := range vs {
			o[i] = int8(v.Int64())
		}

		return o
	}},
	{"int16", big.NewInt(math.MinInt16), big.NewInt(math.MaxInt16), func(v *big.Int) any { return int16(v.Int64()) }, func(vs []*big.Int) any {
		o := make([]int16, len(vs))
		for i, v := range vs {
			o[i] = int16(v.Int64())
		}

		return o
	}},
	{"int32", big.NewInt(math.MinInt32), big.NewInt(math.MaxInt32), func(v *big.Int) any { return int32(v.Int64()) }, func(vs []*big.Int) any {
		o := make([]int32, len(vs))
		for i, v := range vs {
			o[i] = int32(v.Int64())
		}

		return o
	}},
	{"int64", c16Big("-9223372036854775808"), c16Big("9223372036854775807"), func(v *big.Int) any { return v.Int64() }, func(vs []*big.Int) any {
		o := make([]int64, len(vs))
		for i, v := range vs {
			o[i] = v.Int64()
		}

		return o
	}},
	{"uint", big.NewInt(0), c16Big("18446744073709551615"), func(v *big.Int) any { return uint(v.Uint64()) }, func(vs []*big.Int) any {
		o := make([]uint, len(vs))
		for i, v := range vs {
			o[i] = uint(v.Uint64())
		}

		return o
	}},
	{"uint8", big.NewInt(0), big.NewInt(math.MaxUint8), func(v *big.Int) any { return uint8(v.Uint64()) }, func(vs []*big.Int) any {
		o := make([]uint8, len(vs))
		for i, v := range vs {
			o[i] = uint8(v.Uint64())
		}

		return o
	}},
	{"uint16", big.NewInt(0), big.NewInt(math.MaxUint16), func(v *big.Int) any { return uint16(v.Uint64()) }, func(vs []*big.Int) any {
		o := make([]uint16, len(vs))
		for i, v := range vs {
			o[i] = uint16(v.Uint64())
		}

		return o
	}},
	{"uint32", big.NewInt(0), big.NewInt(math.MaxUint32), func(v *big.Int) any { return uint32(v.Uint64()) }, func(vs []*big.Int) any {
		o := make([]uint32, len(vs))
		for i, v := range vs {
			o[i] = uint32(v.Uint64())
		}

		return o
	}},
	{"uint64", big.NewInt(0), c16Big("18446744073709551615"), func(v *big.Int) any { return v.Uint64() }, func(vs []*big.Int) any {
		o := make([]uint64, len(vs))
		for i, v := range vs {
			o[i] = v.Uint64()
		}

		return o
	}},
}

func (c *c16Carrier) holds(v *big.Int) bool { return v.Cmp(c.lo) >= 0 && v.Cmp(c.hi) <= 0 }

func (c *c16Carrier) holdsAll(vs []*big.Int) bool {
	for _, v := range vs {
		if !c.holds(v) {
			return false
		}
	}

	return true
}

// c16IntString renders v as an integer literal in a drawn base.
func c16IntString(r *rand.Rand, v *big.Int, bases string) string {
	neg := v.Sign() < 0
	abs := new(big.Int).Abs(v)
	var s string
	switch bases[r.IntN(len(bases))] {
	case 'x':
		s = "0x" + abs.Text(16)
		if r.IntN(2) == 0 {
			s = "0X" + abs.Text(16)
		}
	case 'o':
		s = "0o" + abs.Text(8)
	case '0':
		s = "0" + abs.Text(8)
	case 'b':
		s = "0b" + abs.Text(2)
	default:
		s = abs.Text(10)
	}
	if neg {
		s = "-" + s
	}

	return s
}

// c16IntScalar renders v as a drawn scalar argument: a Go integer type that holds it, or a string.
// docOnly restricts the carriers to those a binary item documents (byte, int, string).
func c16IntScalar(r *rand.Rand, v *big.Int, fam clamp.Family) any {
	bases := "dddx0o"
	switch fam { //nolint:exhaustive
	case clamp.Binary:
		bases = "ddx0ob"
	case clamp.Float:
		bases = "d" // a float item documents DECIMAL literals only
	}
	for try := 0; try < 8; try++ {
		k := r.IntN(len(c16Carriers) + 3)
		if k >= len(c16Carriers) {
			break
		}
		c := &c16Carriers[k]
		if fam == clamp.Binary && c.name != "int" && c.name != "uint8" {
			continue
		}
		if c.holds(v) {
			return c.scalar(v)
		}
	}

	return c16IntString(r, v, bases)
}

// c16IntSlice renders vs as one slice argument (nil when no documented slice type holds them).
func c16IntSlice(r *rand.Rand, vs []*big.Int, fam clamp.Family) any {
	if fam == clamp.Binary {
		c := &c16Carriers[6] // uint8
		if c.holdsAll(vs) {
			return c.slice(vs)
		}

		return nil
	}
	start := r.IntN(len(c16Carriers) + 2)
	for k := 0; k < len(c16Carriers)+2; k++ {
		j := (start + k) % (len(c16Carriers) + 2)
		if j >= len(c16Carriers) {
			bases := "ddx0o"
			if fam == clamp.Float {
				bases = "d"
			}
			out := make([]string, len(vs))
			for i, v := range vs {
				out[i] = c16IntString(r, v, bases)
			}

			return out
		}
		if c16Carriers[j].holdsAll(vs) {
			return c16Carriers[j].slice(vs)
		}
	}

	return nil
}

// ---- float value pool --------------------------------------------------------------------------

// a float-family supplied value: an integer (any integer carrier, float, or string) or a float.
type c16FVal struct {
	i *big.Int // non-nil: integer-valued
	f float64
	s string // non-empty: string-only special (beyond float64)
}

var c16FloatEdges = []float64{
	0, math.Copysign(0, -1), 1, -1, 0.5, 0.1, 1.5, -2.75, 1e10, 123456.789,
	math.MaxFloat32, -math.MaxFloat32,
	math.Nextafter(math.MaxFloat32, math.Inf(1)), math.Nextafter(-math.MaxFloat32, math.Inf(-1)),
	math.Nextafter(math.MaxFloat32, 0), math.Float64frombits(0x47EFFFFFF0000000), // MaxFloat32 + half ulp: float32() of it overflows
	math.Float64frombits(0x47EFFFFFEFFFFFFF), // just below the rounding boundary
	0x1p128, -0x1p128, 1e39, -1e39, 1e300, -1e300, math.MaxFloat64, -math.MaxFloat64,
	math.SmallestNonzeroFloat32, math.SmallestNonzeroFloat64, -math.SmallestNonzeroFloat64, 1e-50, 0x1p-126, 0x1p-149, 0x1p-150,
	math.Inf(1), math.Inf(-1), math.NaN(), 16777217, 16777216, 9007199254740992, 9007199254740994,
}

var c16FloatBeyond = []string{"1e400", "-1e400", "1e309", "-1.8e308", "1.8e308", "2e308", "1e1000", "-1e99999",
	"179769313486231580793728971405303415079934132710037826936173778980444968292764750946649017977587207096330286416692887910946555547851940402630657488671505820681908902000708383676273854845817711531764475730270069855571366959622842914819860834936475292719074168444365510704342711559699508093042880177904174497792"}

func c16DrawFVal(r *rand.Rand) c16FVal {
	switch k := r.IntN(20); {
	case k < 6:
		// integer-valued: edges of the integer carriers and the 2^53 exactness boundary
		return c16FVal{i: c16DrawInt(r)}
	case k < 15:
		return c16FVal{f: c16FloatEdges[r.IntN(len(c16FloatEdges))]}
	case k < 16:
		return c16FVal{s: c16FloatBeyond[r.IntN(len(c16FloatBeyond))]}
	case k < 18:
		return c16FVal{f: float64(math.Float32frombits(r.Uint32()))}
	default:
		return c16FVal{f: math.Float64frombits(r.Uint64())}
	}
}

// c16FloatScalar renders a float-family value as a drawn scalar argument that denotes exactly it.
func c16FloatScalar(r *rand.Rand, v c16FVal) any {
	if v.s != "" {
		return v.s
	}
	if v.i != nil {
		if r.IntN(3) > 0 {
			return c16IntScalar(r, v.i, clamp.Float) // integer carrier or integer string
		}

		return v.i.Text(10)
	}
	f := v.f
	switch r.IntN(4) {
	case 0:
		if f != f || float64(float32(f)) == f {
			return float32(f)
		}
	case 1:
		if f == f && !math.IsInf(f, 0) {
			if r.IntN(2) == 0 {
				return strconv.FormatFloat(f, 'g', -1, 64)
			}

			return strconv.FormatFloat(f, 'e', -1, 64)
		}
	}

	return f
}

// c16FloatSlice renders the values as one []float64 / []float32 / integer slice, or nil.
func c16FloatSlice(r *rand.Rand, vs []c16FVal) any {
	allInt, anyStr := true, false
	for _, v := range vs {
		if v.i == nil {
			allInt = false
		}
		if v.s != "" {
			anyStr = true
		}
	}
	if anyStr {
		return nil
	}
	if allInt {
		ints := make([]*big.Int, len(vs))
		for i, v := range vs {
			ints[i] = v.i
		}

		return c16IntSlice(r, ints, clamp.Float)
	}
	f64 := make([]float64, len(vs))
	f32ok := true
	for i, v := range vs {
		if v.i != nil {
			f, acc := new(big.Float).SetInt(v.i).Float64()
			if acc != big.Exact {
				return nil // the integer is not a float64: no float slice denotes the same values
			}
			f64[i] = f
		} else {
			f64[i] = v.f
		}
		if f64[i] == f64[i] && float64(float32(f64[i])) != f64[i] {
			f32ok = false
		}
	}
	if f32ok && r.IntN(2) == 0 {
		out := make([]float32, len(f64))
		for i, f := range f64 {
			out[i] = float32(f)
		}

		return out
	}

	return f64
}
