package checks

import (
	"bytes"
	"fmt"
	"math/rand/v2"
	"strings"
	"time"

	"github.com/arloliu/go-secs/v2/hsms"

	"verif/fw"
	"verif/ref/e4"
)

// ---------------------------------------------------------------------------------------------
// inbound: generated block sequences played into a real secs1 connection

type c17InCase struct {
	G          int64  `json:"g"`
	Cfg        string `json:"cfg"`
	Active     bool   `json:"lib_tcp_active"`
	Fault      string `json:"fault"`
	K          int    `json:"blocks"`
	I          int    `json:"target_block"`
	Detail     string `json:"detail,omitempty"`
	Retransmit bool   `json:"retransmit,omitempty"`
	LastLen    int    `json:"last_block_body"`
	SentinelK  int    `json:"sentinel_blocks"`
	Seq        string `json:"sequence"`
}

type c17Step struct {
	Raw    []byte
	Blk    e4.Block    // what a receiver reads out of Raw when Err == OK
	Err    e4.ParseErr // reference verdict on the transmission
	PreGap time.Duration
	Tag    string
}

var c17InFaults = []string{
	"none", "dup", "skip", "field", "wrong-device", "wrong-direction", "bad-checksum", "bad-length",
	"lone-block0", "block0-start", "block0-mid", "t4-gap", "short-pause", "ebit-early", "ebit-missing", "paced",
	// a complete foreign single-block message (checksum-valid, E-bit set) INSERTED between two blocks of M: it is not
	// for this end (wrong direction / another device), so it is dropped and M goes on undisturbed
	"stray-wrong-direction", "stray-wrong-device",
	// a stray block numbered 0 WITHOUT the E-bit (not a valid first block: dropped) that carries the very header
	// fields of the message that follows it, complete and in order
	"stray-block0-same-header",
	// the sender gives up after two blocks, stays silent for longer than T4 and sends the SAME message again from
	// block 1: the stale partial is discarded, the restarted message is complete and in order and is delivered
	"t4-gap-restart",
	// the sender stays silent for longer than T4 after block 1 and then RETRANSMITS block 1 (identical header) before
	// going on with block 2..k: the stale partial is discarded, the retransmission is a duplicate of the last accepted
	// block (that record outlives the partial), and the continuation blocks have no open message to join
	"t4-gap-dup",
	// a full-size first block whose length character is corrupted DOWNWARDS to 50: the receiver takes 53 characters for
	// the block, finds the checksum wrong and must listen until the line is silent before it answers NAK. The rest of
	// the transmission (already on the line) contains an ENQ followed by the image of a valid single-block S5F1 for
	// this receiver: it is part of the bad transmission, not line traffic
	"bad-length-short-enq-tail",
}

func c17InTotal(env *fw.Env) int64 { return int64(env.Pick(1024, 24000)) }

const c17InPerUnit = 16

func c17InWorker(env *fw.Env) {
	total := c17InTotal(env)
	units := (total + c17InPerUnit - 1) / c17InPerUnit
	for u := int64(0); u < units; u++ {
		if !env.Mine(u) {
			continue
		}
		if env.ReplayIndex >= 0 && env.ReplayIndex/c17InPerUnit != u {
			continue
		}
		if env.Stop() {
			return
		}
		c17InUnit(env, u, total)
	}
}

type c17InLink struct {
	*c17Link
	rcv  *e4.Receiver
	seen int // deliveries already consumed
}

func c17InConnect(cfg c17Cfg, active bool) (*c17InLink, error) {
	l, err := c17Connect(cfg, active, 3, c17T1, c17T2, c17T4)
	if err != nil {
		if l != nil {
			l.Close()
		}

		return nil, err
	}

	return &c17InLink{c17Link: l, rcv: &e4.Receiver{Device: cfg.Dev, IsEquip: cfg.Equip}}, nil
}

func c17InUnit(env *fw.Env, unit, total int64) {
	cfgIdx := int(unit % int64(len(c17Cfgs)))
	cfg := c17Cfgs[cfgIdx]
	active := (unit/int64(len(c17Cfgs)))%2 == 0
	var link *c17InLink
	defer func() {
		if link != nil {
			link.Close()
		}
	}()
	for k := int64(0); k < c17InPerUnit; k++ {
		g := unit*c17InPerUnit + k
		if g >= total {
			break
		}
		if !env.Want(g) {
			continue
		}
		if env.Stop() {
			return
		}
		c, steps := c17InGen(env.RandAt("in", g), g, cfg)
		c.Cfg, c.Active = cfg.String(), active
		env.Begin(g, c)
		if link == nil {
			l, err := c17InConnect(cfg, active)
			if err != nil {
				env.Note("in unit %d: connect failed: %v", unit, err)
				env.Discard()

				continue
			}
			link = l
		}
		res := c17InRun(link, cfg, steps)
		if res.key != "" {
			// confirm on fresh connections: a deterministic defect reproduces, a timing fluke does not
			confirmed := true
			for rep := 0; rep < 2 && confirmed; rep++ {
				link.Close()
				link = nil
				l, err := c17InConnect(cfg, active)
				if err != nil {
					confirmed = false

					break
				}
				link = l
				r2 := c17InRun(link, cfg, steps)
				if r2.key != res.key {
					confirmed = false
					env.Event("in_unconfirmed_reruns", 1)
					env.Note("in case %d: %s (%s) did not reproduce on rerun %d (got %q discard=%t)", g, res.key, firstLine(res.msg), rep+1, r2.key, r2.discard)
				}
			}
			if confirmed {
				env.Eval(fw.HashStr("in", c.Cfg, c.Seq), true)
				env.Violate("in:"+c.Fault+":"+res.key, res.msg+"\nsequence: "+c.Seq+"\ntranscript: "+res.transcript, c)
			} else {
				env.Discard()
			}
			if link != nil {
				link.Close()
				link = nil
			}

			continue
		}
		if res.discard {
			env.Discard()
			env.Event("in_discard_"+res.why, 1)
			env.Note("in case %d (%s) discarded: %s %s", g, c.Seq, res.why, res.msg)
			link.Close()
			link = nil

			continue
		}
		env.Eval(fw.HashStr("in", c.Cfg, c.Seq), res.acked+res.naked > 0)
		env.Sample(c)
		env.Event("in_sequences", 1)
		env.Event("in_fault_"+c.Fault, 1)
		env.Event("in_deliveries_matched", int64(res.delivered))
		env.Event("in_blocks_acked", int64(res.acked))
		env.Event("in_blocks_naked", int64(res.naked))
		env.Event("in_s9_blocks_from_library", int64(res.s9))
		env.Event("in_peer_contention_yields", int64(res.yields))
		if res.t4Expired {
			env.Event("in_t4_expired_cases", 1)
		}
		if res.within > 0 {
			env.Event("in_within_t4_continuations", int64(res.within))
		}
		if c.Fault == "dup" {
			env.Event("in_duplicates_sent", 1)
		}
		for _, d := range res.dispositions {
			env.Event("in_model_"+d, 1)
		}
	}
	if link != nil {
		m := link.lib.Conn.BlockMetrics()
		env.Event("in_metric_dup_drop", int64(m.BlockDupDropCount()))
		env.Event("in_metric_t4_timeout", int64(m.PartialTimeoutCount()))
		env.Event("in_metric_dir_drop", int64(m.BlockDirDropCount()))
		env.Event("in_metric_dev_mismatch", int64(m.DeviceIDMismatchCount()))
		env.Event("in_metric_num_mismatch", int64(m.BlockNumberMismatchCount()))
		env.Event("in_metric_invalid_first", int64(m.InvalidFirstBlockCount()))
		env.Event("in_metric_nak_sent", int64(m.BlockNAKSentCount()))
	}
}

func firstLine(s string) string {
	if i := strings.IndexByte(s, '\n'); i >= 0 {
		return s[:i]
	}

	return s
}

// c17InGen builds the block sequence of case g: message M with one fault, then a clean sentinel.
func c17InGen(r *rand.Rand, g int64, cfg c17Cfg) (c17InCase, []c17Step) {
	c := c17InCase{G: g}
	c.Fault = c17InFaults[int(g)%len(c17InFaults)]
	toLib := e4.Header{Device: cfg.Dev, R: !cfg.Equip} // the host sends R=0, the equipment R=1
	newMsg := func(k, last int, n uint32) []e4.Block {
		h := toLib
		h.Stream, h.Function, h.W = uint8(r.IntN(128)), uint8(r.IntN(256)), r.IntN(2) == 0
		h.System = [4]byte{byte(g >> 16), byte(g >> 8), byte(g), byte(n)}
		h.System[0] ^= byte(r.IntN(256))
		body := make([]byte, (k-1)*e4.MaxBody+last)
		for i := range body {
			body[i] = byte(r.IntN(256))
		}

		return e4.Split(h, body)
	}
	// shape of M and the target block i (1-based), fixed before the sequence is built
	k := 1 + r.IntN(4)
	switch c.Fault {
	case "field", "t4-gap", "short-pause", "ebit-early", "ebit-missing", "block0-start", "stray-wrong-direction", "stray-wrong-device":
		k = 2 + r.IntN(3)
	case "block0-mid", "t4-gap-restart":
		k = 3 + r.IntN(2)
	case "t4-gap-dup", "bad-length-short-enq-tail":
		k = 2 + r.IntN(3)
	case "lone-block0":
		k = 1
	case "paced":
		k = 8 // 7 gaps of 0.2 x T4 = 1.4 x T4 from the first block to the last
	}
	last := 1 + r.IntN(e4.MaxBody)
	if k == 1 && r.IntN(6) == 0 {
		last = 0
	}
	if r.IntN(5) == 0 {
		last = e4.MaxBody
	}
	m := newMsg(k, last, 1)
	c.K, c.LastLen = k, last
	i := 1 + r.IntN(k)
	switch c.Fault {
	case "block0-start", "lone-block0", "stray-block0-same-header", "bad-length-short-enq-tail":
		i = 1
	case "block0-mid":
		i = 2 + r.IntN(k-2) // never the E-bit block: a block 0 with E-bit is a lone single-block message
	case "t4-gap", "short-pause", "stray-wrong-direction", "stray-wrong-device":
		i = 2 + r.IntN(k-1)
	case "ebit-early":
		i = 1 + r.IntN(k-1)
	case "ebit-missing":
		i = k
	}
	var steps []c17Step
	valid := func(b e4.Block, tag string) c17Step {
		raw := b.Wire()
		blk, perr := e4.ReceiverView(raw)

		return c17Step{Raw: raw, Blk: blk, Err: perr, Tag: tag}
	}
	rawStep := func(raw []byte, tag string) c17Step {
		blk, perr := e4.ReceiverView(raw)

		return c17Step{Raw: raw, Blk: blk, Err: perr, Tag: tag}
	}
	c.Retransmit = r.IntN(2) == 0
	if c.Fault == "t4-gap-restart" {
		steps = append(steps, valid(m[0], "M1"), valid(m[1], "M2"))
		// a block for another device right behind M2: it changes nothing, but the receiver's EOT for it is an
		// observable instant shortly after M2 was accepted (without it "M2 arrived within T4 of M1" cannot be measured)
		x := newMsg(1, 3, 3)[0]
		for x.Device == cfg.Dev {
			x.Device = (cfg.Dev + 1) & 0x7FFF
		}
		steps = append(steps, valid(x, "X(other device, timing probe)"))
		for n, b := range m {
			s := valid(b, fmt.Sprintf("M%d(restarted)", n+1))
			if n == 0 {
				s.PreGap = 3 * c17T4
				s.Tag += fmt.Sprintf("(after %s)", s.PreGap)
			}
			steps = append(steps, s)
		}
		m = nil // the generic per-block loop below has nothing left to do
	}
	if c.Fault == "t4-gap-dup" {
		steps = append(steps, valid(m[0], "M1"))
		x := newMsg(1, 3, 3)[0]
		for x.Device == cfg.Dev {
			x.Device = (cfg.Dev + 1) & 0x7FFF
		}
		steps = append(steps, valid(x, "X(other device, timing probe)"))
		for n, b := range m {
			s := valid(b, fmt.Sprintf("M%d", n+1))
			if n == 0 {
				s.PreGap = 3 * c17T4
				s.Tag = fmt.Sprintf("M1(retransmitted after %s)", s.PreGap)
			}
			steps = append(steps, s)
		}
		m = nil
	}
	for n, b := range m {
		n1 := n + 1
		tag := fmt.Sprintf("M%d", n1)
		if c.Fault == "paced" {
			// every block after the first arrives 0.2 x T4 after its predecessor: each gap is within T4, but
			// the last block arrives more than T4 after the FIRST one (T4 is an inter-block timer)
			s := valid(b, tag)
			if n1 > 1 {
				s.PreGap = c17T4 * 2 / 10 // (the gap premise needs twice the pause to stay below T4/2)
				s.Tag += fmt.Sprintf("(after %s)", s.PreGap)
			}
			steps = append(steps, s)

			continue
		}
		if n1 != i {
			steps = append(steps, valid(b, tag))

			continue
		}
		switch c.Fault {
		case "none":
			steps = append(steps, valid(b, tag))
		case "lone-block0", "block0-start", "block0-mid":
			mb := b
			mb.Block = 0
			steps = append(steps, valid(mb, tag+"(numbered 0)"))
		case "dup":
			steps = append(steps, valid(b, tag), valid(b, tag+"(dup)"))
		case "skip":
			// not transmitted
		case "field":
			mb := b
			switch f := r.IntN(4); f {
			case 0:
				mb.Stream = (mb.Stream + 1 + uint8(r.IntN(126))) & 0x7F
				c.Detail = "stream"
			case 1:
				mb.Function += 1 + uint8(r.IntN(255))
				c.Detail = "function"
			case 2:
				mb.W = !mb.W
				c.Detail = "w-bit"
			default:
				mb.System[r.IntN(4)] ^= byte(1 + r.IntN(255))
				c.Detail = "system-bytes"
			}
			steps = append(steps, valid(mb, tag+"("+c.Detail+" changed)"))
		case "wrong-device":
			mb := b
			for mb.Device == cfg.Dev {
				mb.Device = []uint16{cfg.Dev ^ 1, (cfg.Dev + 1) & 0x7FFF, 0x7FFF - cfg.Dev, uint16(r.IntN(0x8000))}[r.IntN(4)]
			}
			c.Detail = fmt.Sprintf("device %d", mb.Device)
			steps = append(steps, valid(mb, tag+"(wrong device)"))
		case "wrong-direction":
			mb := b
			mb.R = !mb.R
			steps = append(steps, valid(mb, tag+"(wrong direction)"))
		case "stray-block0-same-header":
			x := b
			x.Block, x.E = 0, false
			steps = append(steps, valid(x, "X(block 0, E clear, same header)"), valid(b, tag))
		case "stray-wrong-direction", "stray-wrong-device":
			x := newMsg(1, 1+r.IntN(40), 3)[0]
			if c.Fault == "stray-wrong-direction" {
				x.R = !x.R
				steps = append(steps, valid(x, "X(foreign single block, wrong direction)"))
			} else {
				for x.Device == cfg.Dev {
					x.Device = []uint16{cfg.Dev ^ 1, (cfg.Dev + 1) & 0x7FFF, 0x7FFF - cfg.Dev}[r.IntN(3)]
				}
				steps = append(steps, valid(x, fmt.Sprintf("X(foreign single block, device %d)", x.Device)))
			}
			steps = append(steps, valid(b, tag))
		case "bad-checksum":
			raw := b.Wire()
			p := 1 + r.IntN(len(raw)-1)
			raw[p] ^= byte(1 + r.IntN(255))
			c.Detail = fmt.Sprintf("byte %d of %d changed", p, len(raw))
			steps = append(steps, rawStep(raw, tag+"(bad checksum)"))
			if c.Retransmit {
				steps = append(steps, valid(b, tag+"(retransmitted)"))
			}
		case "bad-length":
			raw := b.Wire()
			n := int(raw[0])
			var lb int
			switch v := r.IntN(4); {
			case v == 0:
				lb = r.IntN(10)
			case v == 1:
				lb = 255
			case v == 2 && n < e4.MaxLen:
				lb = n + 1 + r.IntN(e4.MaxLen-n)
			default:
				lb = n
				if n > e4.MinLen {
					lb = e4.MinLen + r.IntN(n-e4.MinLen)
				}
			}
			if lb == n { // header-only block and "smaller" drawn: use an out-of-range value instead
				lb = r.IntN(10)
			}
			raw[0] = byte(lb)
			if _, perr := e4.ReceiverView(raw); perr == e4.OK { // a shortened view that still checks out is not a detectable fault
				raw[0] = 255
				lb = 255
			}
			c.Detail = fmt.Sprintf("length byte %d for %d", lb, n)
			steps = append(steps, rawStep(raw, tag+"(bad length)"))
			if c.Retransmit {
				steps = append(steps, valid(b, tag+"(retransmitted)"))
			}
		case "bad-length-short-enq-tail":
			ph := e4.Block{Header: e4.Header{Device: cfg.Dev, R: toLib.R, Stream: 5, Function: 1, E: true, Block: 1, System: [4]byte{0xFA, 0x17, byte(g >> 8), byte(g)}}, Body: []byte{0x41, 0x01, 'P'}}
			copy(b.Body[100:], append([]byte{e4.ENQ}, ph.Wire()...)) // (the block is a full one: 244 body bytes; this IS the message's content)
			raw := b.Wire()
			raw[0] = 50
			if _, perr := e4.ReceiverView(raw); perr == e4.OK {
				raw[0] = 51
			}
			c.Detail = "length byte 50 for 254, ENQ + valid block image at body offset 100"
			steps = append(steps, rawStep(raw, tag+"(length lowered, ENQ+block image in the rest)"))
			if c.Retransmit {
				steps = append(steps, valid(b, tag+"(retransmitted)"))
			}
		case "t4-gap", "short-pause":
			s := valid(b, tag)
			if c.Fault == "t4-gap" {
				s.PreGap = 3 * c17T4
			} else {
				s.PreGap = c17T4 / 10
			}
			s.Tag += fmt.Sprintf("(after %s)", s.PreGap)
			steps = append(steps, s)
		case "ebit-early":
			mb := b
			mb.E = true
			steps = append(steps, valid(mb, tag+"(E set)"))
		case "ebit-missing":
			mb := b
			mb.E = false
			steps = append(steps, valid(mb, tag+"(E cleared)"))
		}
	}
	c.I = i
	// sentinel
	sk := 1 + r.IntN(2)
	c.SentinelK = sk
	for n, b := range newMsg(sk, 1+r.IntN(e4.MaxBody), 2) {
		steps = append(steps, valid(b, fmt.Sprintf("S%d", n+1)))
	}
	var sb strings.Builder
	for n, s := range steps {
		if n > 0 {
			sb.WriteString(" ")
		}
		sb.WriteString(s.Tag)
	}
	c.Seq = sb.String()

	return c, steps
}

type c17InResult struct {
	key, msg     string
	discard      bool
	why          string
	transcript   string
	delivered    int
	acked, naked int
	s9, yields   int
	t4Expired    bool
	within       int
	dispositions []string
}

type c17Acc struct {
	blk                      e4.Block
	tEnq, tEot, tWrit, tResp time.Time
	preGap                   time.Duration
}

// c17InRun plays steps into the link and judges the deliveries against the reference receiver.
func c17InRun(link *c17InLink, cfg c17Cfg, steps []c17Step) c17InResult {
	var res c17InResult
	var tr strings.Builder
	line := link.peer.Line
	var acc []c17Acc
	var eots []time.Time // every EOT read, in order
	base := time.Now()
	ms := func(t time.Time) string { return fmt.Sprintf("%.1fms", float64(t.Sub(base).Microseconds())/1000) }
	fail := func(key, msg string) c17InResult {
		res.key, res.msg, res.transcript = key, msg, tr.String()

		return res
	}
	for si, st := range steps {
		if st.PreGap > 0 {
			if _, err := line.Idle(st.PreGap); err != nil {
				return fail("link-dropped", fmt.Sprintf("the line was closed by the library while the peer paused before step %d (%s): %v", si+1, st.Tag, err))
			}
		}
		refused := 0
		premiseOK := true
		for {
			a, err := line.Attempt([][]byte{st.Raw}, nil, 3*time.Second)
			res.yields += a.Yields
			if err != nil {
				return fail("link-dropped", fmt.Sprintf("the line was closed by the library during step %d (%s): %v", si+1, st.Tag, err))
			}
			fmt.Fprintf(&tr, "[%s %s->%s", st.Tag, ms(a.TEnq), a.Resp)
			if a.Resp != e4.RespNoEOT {
				eots = append(eots, a.TEot)
				fmt.Fprintf(&tr, "@%s", ms(a.TResp))
			}
			tr.WriteString("] ")
			if a.Resp == e4.RespNoEOT {
				refused++
				if refused >= 3 {
					return fail("line-unresponsive", fmt.Sprintf("the library did not answer ENQ with EOT within 3 s, three times in a row, at step %d (%s)", si+1, st.Tag))
				}

				continue
			}
			if st.Err != e4.OK {
				// a transmission the reference receiver refuses
				if a.Resp == e4.RespACK {
					return fail("corrupt-block-acked", fmt.Sprintf("the library ACKed a transmission the E4 receiver rules refuse (%s) at step %d (%s): %s", st.Err, si+1, st.Tag, hexClip(st.Raw)))
				}
				res.naked++

				break
			}
			if a.Resp == e4.RespACK {
				res.acked++
				acc = append(acc, c17Acc{blk: st.Blk, tEnq: a.TEnq, tEot: a.TEot, tWrit: a.TWritten, tResp: a.TResp, preGap: st.PreGap})

				break
			}
			// valid block not ACKed
			refused++
			if a.TWritten.Sub(a.TEnq) >= c17T2/2 {
				premiseOK = false
			}
			if refused >= 4 {
				if !premiseOK {
					res.discard, res.why = true, "slow-peer-write"

					return res
				}

				return fail("valid-block-refused", fmt.Sprintf("a valid block (%s, step %d) was answered %s four times although each transmission completed within T2/2 of its ENQ", st.Tag, si+1, a.Resp))
			}
		}
	}

	// expected number of deliveries assuming the intended gap classes, to know how long to poll
	intended := func(a c17Acc) e4.Gap {
		if a.preGap >= 3*c17T4 {
			return e4.Expired
		}

		return e4.Within
	}
	{
		probe := *link.rcv
		n := 0
		for _, a := range acc {
			if d, _ := probe.Accept(a.blk, intended(a)); d != nil {
				n++
			}
		}
		deadline := time.Now().Add(6 * time.Second)
		for link.lib.NDeliveries()-link.seen < n && time.Now().Before(deadline) {
			if _, err := line.Idle(3 * time.Millisecond); err != nil {
				return fail("link-dropped", fmt.Sprintf("the line was closed by the library after the sequence: %v", err))
			}
		}
		// settle: anything the library still has to say (S9 notifications) and late deliveries
		if _, err := line.Idle(8 * time.Millisecond); err != nil {
			return fail("link-dropped", fmt.Sprintf("the line was closed by the library after the sequence: %v", err))
		}
	}
	got := link.lib.Deliveries(link.seen)
	link.seen += len(got)
	// delivered messages are immutable: what the handler was given earlier on this link must not have changed under
	// the blocks that arrived since (the retained messages are re-read)
	if alt := link.lib.AlteredLater(); len(alt) > 0 {
		return fail("delivered-message-altered-later", fmt.Sprintf("%d message(s) delivered earlier on this link changed afterwards; first: %s", len(alt), alt[0]))
	}

	// Measured gap classes. A gap that is neither certainly < T4 nor certainly > T4 forks the model;
	// the case is judged only if every branch yields the same deliveries and the same final state.
	type branch struct {
		rcv   *e4.Receiver
		want  []*e4.Delivered
		disps []string
	}
	branches := []*branch{{rcv: link.rcv.Clone()}}
	step := func(b *branch, blk e4.Block, gap e4.Gap) {
		d, disp := b.rcv.Accept(blk, gap)
		b.disps = append(b.disps, strings.ReplaceAll(strings.ReplaceAll(disp, ";", "+"), ":", "_"))
		if d != nil {
			b.want = append(b.want, d)
		}
	}
	for n, a := range acc {
		known, gap := true, e4.Within
		if n > 0 {
			prev := acc[n-1]
			lower := a.tEnq.Sub(prev.tResp)
			// upper bound on (library's T4 check of this block) - (library's acceptance of the previous one)
			var upperEnd time.Time
			for _, t := range eots {
				if t.After(a.tResp) {
					upperEnd = t

					break
				}
			}
			for _, d := range got {
				if d.At.After(a.tEot) && (upperEnd.IsZero() || d.At.Before(upperEnd)) {
					upperEnd = d.At

					break
				}
			}
			switch {
			case lower > c17T4+c17T4/2:
				gap = e4.Expired
			case !upperEnd.IsZero() && upperEnd.Sub(prev.tEnq) < c17T4/2:
				gap = e4.Within
			default:
				known = false
				fmt.Fprintf(&tr, "{block %d unmeasured: lower %s, upperKnown=%t upper %s} ", n+1, lower, !upperEnd.IsZero(), upperEnd.Sub(prev.tEnq))
			}
		}
		anyOpen := false
		for _, b := range branches {
			anyOpen = anyOpen || b.rcv.Open()
		}
		if anyOpen && known && n > 0 {
			if gap == e4.Expired {
				res.t4Expired = true
			} else {
				res.within++
			}
		}
		if known || !anyOpen {
			for _, b := range branches {
				step(b, a.blk, gap)
			}

			continue
		}
		var next []*branch
		seen := map[string]bool{}
		for _, b := range branches {
			for _, g := range []e4.Gap{e4.Within, e4.Expired} {
				nb := &branch{rcv: b.rcv.Clone(), want: append([]*e4.Delivered(nil), b.want...), disps: append([]string(nil), b.disps...)}
				step(nb, a.blk, g)
				k := nb.rcv.Key() + fmt.Sprint(len(nb.want))
				for _, d := range nb.want {
					k += fmt.Sprintf("|%v%x", d.Header, d.Body)
				}
				if !seen[k] {
					seen[k] = true
					next = append(next, nb)
				}
			}
		}
		branches = next
		if len(branches) > 32 {
			res.discard, res.why = true, "t4-premise-unmeasured"

			return res
		}
	}
	for _, b := range branches[1:] {
		same := b.rcv.Key() == branches[0].rcv.Key() && len(b.want) == len(branches[0].want)
		for i := 0; same && i < len(b.want); i++ {
			same = b.want[i].Header == branches[0].want[i].Header && bytes.Equal(b.want[i].Body, branches[0].want[i].Body)
		}
		if !same {
			res.discard, res.why = true, "t4-premise-unmeasured"
			res.msg = fmt.Sprintf("%d model branches disagree; %s", len(branches), tr.String())

			return res
		}
	}
	want := branches[0].want
	res.dispositions = branches[0].disps
	*link.rcv = *branches[0].rcv

	for _, rx := range link.peer.TakeReceived() {
		if rx.Err == e4.OK && rx.Block.Stream == 9 {
			res.s9++
		}
	}

	// compare
	wantHdr := func(d *e4.Delivered) [10]byte {
		var h [10]byte
		h[0], h[1] = byte(d.Header.Device>>8), byte(d.Header.Device)
		h[2] = d.Header.Stream
		if d.Header.W {
			h[2] |= 0x80
		}
		h[3] = d.Header.Function
		copy(h[6:], d.Header.System[:])

		return h
	}
	desc := func(h [10]byte, body []byte) string {
		return fmt.Sprintf("S%dF%d W=%t sys=%x body=%dB", h[2]&0x7F, h[3], h[2]&0x80 != 0, h[6:10], len(body))
	}
	for n := 0; n < len(want) || n < len(got); n++ {
		switch {
		case n >= len(got):
			return fail("missing-delivery", fmt.Sprintf("the E4 receiver rules deliver %d message(s) for the ACKed blocks, the handler saw %d; missing: %s", len(want), len(got), desc(wantHdr(want[n]), want[n].Body)))
		case n >= len(want):
			return fail("extra-delivery", fmt.Sprintf("the handler saw %d message(s), the E4 receiver rules deliver %d for the ACKed blocks; extra: %s", len(got), len(want), desc(got[n].Hdr, got[n].Body)))
		}
		wh := wantHdr(want[n])
		if got[n].Hdr != wh || !bytes.Equal(got[n].Body, want[n].Body) {
			// distinguish a wrong message from an altered one
			if got[n].Hdr == wh {
				return fail("altered-delivery", fmt.Sprintf("delivery %d has the expected header (%s) but a different body: got %d bytes, want %d bytes", n+1, desc(wh, want[n].Body), len(got[n].Body), len(want[n].Body)))
			}

			return fail("wrong-delivery", fmt.Sprintf("delivery %d is %s, the E4 receiver rules deliver %s", n+1, desc(got[n].Hdr, got[n].Body), desc(wh, want[n].Body)))
		}
	}
	res.delivered = len(got)
	if st := link.lib.Conn.State(); st != hsms.SelectedState {
		return fail("left-selected", fmt.Sprintf("after the sequence the connection state is %v, not Selected", st))
	}
	if link.peer.Err() != nil {
		return fail("link-dropped", "the line was closed by the library after the sequence")
	}
	res.transcript = tr.String()

	return res
}
