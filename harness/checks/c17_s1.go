package checks

import (
	"bytes"
	"context"
	"errors"
	"fmt"
	"net"
	"os"
	"sync"
	"sync/atomic"
	"time"

	"github.com/arloliu/go-secs/v2/hsms"
	"github.com/arloliu/go-secs/v2/logger"
	"github.com/arloliu/go-secs/v2/secs1"
)

// s1Delivery is one message handed to a DataMessageHandler of a real secs1 connection.
type s1Delivery struct {
	Hdr  [10]byte
	Body []byte
	At   time.Time
	// the delivered message itself is retained, as an application may do: a delivered message is immutable, so what
	// it says at the end of the scenario must be what it said in the handler (Hdr, Body are copies taken there)
	Msg *hsms.DataMessage
}

// AlteredLater re-reads every retained message and reports those whose header or body no longer equal the copy
// taken inside the handler.
func (e *s1End) AlteredLater() []string {
	e.mu.Lock()
	defer e.mu.Unlock()
	var out []string
	for k, d := range e.got {
		if d.Msg == nil {
			continue
		}
		hdr, body := d.Msg.HeaderBytes(), d.Msg.AppendBodyTo(nil)
		if body == nil {
			body = []byte{}
		}
		if hdr != d.Hdr || !bytes.Equal(body, d.Body) {
			out = append(out, fmt.Sprintf("delivery %d (S%dF%d, sys %x): the handler saw %d body bytes %s, the retained message now holds %d body bytes %s", k, d.Hdr[2]&0x7F, d.Hdr[3], d.Hdr[6:10], len(d.Body), hexClip(d.Body), len(body), hexClip(body)))
		}
	}

	return out
}

// s1Opts configures one real secs1 connection used by C17/C18.
type s1Opts struct {
	Equip      bool
	Dev        uint16
	Active     bool // TCP role of the library end
	Port       int  // active: port to dial
	T1, T2, T4 time.Duration
	Retry      int
}

// s1End is a real secs1 connection plus the harness-side record of its handler deliveries.
type s1End struct {
	Conn secs1.Connection
	Opts s1Opts

	mu  sync.Mutex
	got []s1Delivery

	port atomic.Int64 // passive: port of the most recent listener
	lns  atomic.Int64 // passive: listeners created so far
}

func s1Quiet() { logger.SetLevel(logger.FatalLevel) }

// s1Loop is a loopback address that is unique to this process (any 127/8 address is local on Linux).
// Other workloads on the machine listen on 127.0.0.1; binding and dialling a private address means a
// dial to a port whose listener has just gone away is refused instead of reaching a foreign listener
// that happened to pick up the same ephemeral port.
var s1Loop = fmt.Sprintf("127.%d.%d.%d", 64+os.Getpid()>>16&63, 1+os.Getpid()>>8&0xFF%254, 1+os.Getpid()&0xFF%254)

func s1New(o s1Opts) (*s1End, error) {
	e := &s1End{Opts: o}
	opts := []secs1.Option{
		secs1.WithDeviceID(o.Dev), secs1.WithT1(o.T1), secs1.WithT2(o.T2), secs1.WithT4(o.T4), secs1.WithRetryLimit(o.Retry),
		secs1.WithConnectionOption(hsms.WithT3(3 * time.Second)),
		secs1.WithConnectionOption(hsms.WithCloseTimeout(5 * time.Second)),
		secs1.WithConnectionOption(hsms.WithReconnectBackoff(30*time.Millisecond, 1.5)),
		secs1.WithConnectionOption(hsms.WithT5(300 * time.Millisecond)),
		secs1.WithConnectTimeout(3 * time.Second),
	}
	if o.Equip {
		opts = append(opts, secs1.WithEquipment())
	} else {
		opts = append(opts, secs1.WithHost())
	}
	if o.Active {
		opts = append(opts, secs1.WithActive())
	} else {
		opts = append(opts, secs1.WithPassive(), secs1.WithListener(func(ctx context.Context, network, _ string) (net.Listener, error) {
			ln, err := (&net.ListenConfig{}).Listen(ctx, network, s1Loop+":0")
			if err != nil {
				return nil, err
			}
			e.port.Store(int64(ln.Addr().(*net.TCPAddr).Port))
			e.lns.Add(1)

			return ln, nil
		}))
	}
	cfg, err := secs1.NewConfig(s1Loop, o.Port, opts...)
	if err != nil {
		return nil, err
	}
	conn, err := secs1.New(cfg)
	if err != nil {
		return nil, err
	}
	conn.AddDataMessageHandler(func(msg *hsms.DataMessage, _ hsms.SECS2Endpoint) {
		d := s1Delivery{Hdr: msg.HeaderBytes(), Body: msg.AppendBodyTo(nil), At: time.Now(), Msg: msg}
		if d.Body == nil {
			d.Body = []byte{}
		}
		e.mu.Lock()
		e.got = append(e.got, d)
		e.mu.Unlock()
	})
	e.Conn = conn

	return e, nil
}

// Open starts the connection; passive ends return as soon as the listener exists.
func (e *s1End) Open() error {
	if e.Opts.Active {
		ctx, cancel := context.WithTimeout(context.Background(), 20*time.Second)
		defer cancel()

		return e.Conn.Open(ctx, hsms.OpenWaitSelected)
	}
	if err := e.Conn.Open(context.Background(), hsms.OpenBackground); err != nil {
		return err
	}
	deadline := time.Now().Add(10 * time.Second)
	for e.lns.Load() == 0 {
		if time.Now().After(deadline) {
			return errors.New("passive secs1 end never listened")
		}
		time.Sleep(time.Millisecond)
	}

	return nil
}

// ListenPort returns the port of the passive end's current listener.
func (e *s1End) ListenPort() int { return int(e.port.Load()) }

// WaitSelected polls State() up to d.
func (e *s1End) WaitSelected(d time.Duration) bool {
	deadline := time.Now().Add(d)
	for {
		if e.Conn.State() == hsms.SelectedState {
			return true
		}
		if time.Now().After(deadline) {
			return false
		}
		time.Sleep(2 * time.Millisecond)
	}
}

// Deliveries returns a copy of the deliveries from index from.
func (e *s1End) Deliveries(from int) []s1Delivery {
	e.mu.Lock()
	defer e.mu.Unlock()
	if from > len(e.got) {
		from = len(e.got)
	}

	return append([]s1Delivery(nil), e.got[from:]...)
}

// NDeliveries returns the number of deliveries so far.
func (e *s1End) NDeliveries() int {
	e.mu.Lock()
	defer e.mu.Unlock()

	return len(e.got)
}

func (e *s1End) Close() { _ = e.Conn.Close() }

func s1MetricsLine(m *secs1.ConnectionMetrics) string {
	return fmt.Sprintf("send=%d recv=%d retry=%d sendFailed=%d nakSent=%d yield=%d dup=%d t4=%d dir=%d dev=%d numMismatch=%d invalidFirst=%d",
		m.BlockSendCount(), m.BlockRecvCount(), m.BlockRetryCount(), m.BlockSendFailedCount(), m.BlockNAKSentCount(), m.ContentionYieldCount(),
		m.BlockDupDropCount(), m.PartialTimeoutCount(), m.BlockDirDropCount(), m.DeviceIDMismatchCount(), m.BlockNumberMismatchCount(), m.InvalidFirstBlockCount())
}
