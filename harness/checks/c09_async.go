package checks

import (
	"context"
	"fmt"
	"sync"
	"sync/atomic"
	"time"

	"github.com/arloliu/go-secs/v2/secs2"

	"verif/fw"
	"verif/peer"
)

// C09, fire-and-forget sends parked on a FULL per-generation send queue: "when a generation ends, every send
// still waiting on it completes promptly". The peer has stopped reading, the generation's async sender is wedged
// in its write, the 2-slot queue is full and N callers of SendDataMessageAsync are parked on the enqueue; a
// Linktest.req from the peer parks the receive loop on the same queue (its answer goes out through it). Then the
// generation ends. The parked callers belong to the generation: they come back when its teardown STARTS, not when
// the bounded join of its goroutines (one of which is parked next to them) gives up.

type c09AsyncCase struct {
	Index    int64  `json:"index"`
	Active   bool   `json:"active"`
	End      string `json:"generation_end"`
	RecvPark bool   `json:"receive_loop_parked_too"`
}

func c09ParkedAsync(env *fw.Env, cs c09AsyncCase) {
	env.Begin(cs.Index, cs)
	env.Sample(cs)
	env.Eval(fw.HashStr("c09async", fmt.Sprint(cs.Active, cs.End, cs.RecvPark)), true)
	env.Event("parked_async_cases", 1)
	closeTimeout := 5 * time.Second
	rg, err := newRig(rigOpts{Active: cs.Active, T3: 60 * time.Second, T5: 30 * time.Millisecond, BackoffInit: 5 * time.Millisecond,
		CloseTimeout: closeTimeout, WriteTimeout: 60 * time.Second, QueueSize: 2})
	if err != nil {
		env.Discard()
		return
	}
	pc, err := rg.Establish(func(*peer.Conn, peer.Frame) bool { return false })
	if err != nil {
		env.Discard()
		_ = rg.Shutdown()
		return
	}
	defer pc.Close()
	shut := false
	defer func() {
		if !shut {
			_ = rg.Shutdown()
		}
	}()
	_ = pc.C.SetReadBuffer(64 << 10)
	pc.StallReads(true)

	const senders = 8
	body := secs2.B(make([]byte, 1<<20))
	_ = body.ToBytes()
	var done atomic.Int64     // completed calls
	var inCall [senders]int64 // unix nanos of the call in progress, 0 = none
	var stop atomic.Bool
	type ret struct {
		at  time.Time
		err error
	}
	last := make([]ret, senders)
	var wg sync.WaitGroup
	for s := 0; s < senders; s++ {
		wg.Add(1)
		go func(s int) {
			defer wg.Done()
			for !stop.Load() {
				atomic.StoreInt64(&inCall[s], time.Now().UnixNano())
				err := rg.Conn.SendDataMessageAsync(context.Background(), 6, 11, false, body)
				atomic.StoreInt64(&inCall[s], 0)
				last[s] = ret{time.Now(), err}
				done.Add(1)
				if err != nil {
					return
				}
			}
		}(s)
	}
	allParked := func() bool {
		now := time.Now().UnixNano()
		for s := 0; s < senders; s++ {
			t := atomic.LoadInt64(&inCall[s])
			if t == 0 || now-t < int64(400*time.Millisecond) {
				return false
			}
		}

		return true
	}
	if !waitFor(20*time.Second, allParked) {
		env.Note("parked-async case %d: the %d senders never all parked (completed calls %d): premise not met", cs.Index, senders, done.Load())
		env.Discard()
		stop.Store(true)
		pc.StallReads(false)
		shut = true
		_ = rg.Shutdown()
		wg.Wait()

		return
	}
	if cs.RecvPark {
		_ = pc.Send(peer.LinktestReq(0x09A50001)) // the answer has to go through the full queue: the receive loop parks too
		time.Sleep(200 * time.Millisecond)
	}
	stop.Store(true)
	t0 := time.Now()
	closed := make(chan error, 1)
	switch cs.End {
	case "close":
		shut = true
		go func() { closed <- rg.Shutdown() }()
	default: // "peer-reset": the wedged write fails, the generation is torn down as an involuntary drop
		pc.Reset()
	}
	released := make(chan struct{})
	go func() { wg.Wait(); close(released) }()
	bound := 2 * time.Second
	select {
	case <-released:
		worst := time.Duration(0)
		for s := 0; s < senders; s++ {
			if d := last[s].at.Sub(t0); d > worst {
				worst = d
			}
		}
		if worst > bound {
			env.Violate("parked-async-send-released-late", fmt.Sprintf("generation ended by %s: the slowest of %d SendDataMessageAsync calls parked on the full send queue returned %v later (close timeout %v): parked senders are released by the END of the bounded teardown join, not by the end of their generation", cs.End, senders, worst.Round(time.Millisecond), closeTimeout), cs)
		} else {
			env.Event("parked_async_senders_released_promptly", senders)
		}
	case <-time.After(closeTimeout + 10*time.Second):
		env.Violate("parked-async-send-never-released", fmt.Sprintf("generation ended by %s: %d s later some of the %d SendDataMessageAsync calls parked on the full send queue have still not returned", cs.End, int((closeTimeout+10*time.Second)/time.Second), senders), cs)
		pc.StallReads(false)

		return
	}
	if cs.End == "close" {
		select {
		case err := <-closed:
			// Close's own latency and result belong to C10; here they are only recorded
			env.Note("parked-async case %d: Close returned %v after %v", cs.Index, err, time.Since(t0).Round(time.Millisecond))
		case <-time.After(closeTimeout + 10*time.Second):
			env.Violate("close-hangs-parked-async", "Close did not return", cs)
		}
	}
	pc.StallReads(false)
}
