// Package snapshot takes a COMPLETE observation snapshot of a go-secs item or message through
// every public accessor, serializer and append helper, and keeps hold of every slice the library
// handed back (at its full capacity) so that a check can mutate those slices afterwards and
// re-observe. Two snapshots of an immutable, alias-free object are identical entry by entry.
//
// The snapshot is a list of (path, accessor class, rendered value) entries. The rendering is
// value-only (numbers, bytes, error texts, booleans, identity relations between accessors of the
// same snapshot); it never contains addresses, so snapshots of two equal objects compare equal.
package snapshot

import (
	"fmt"
	"hash/fnv"
	"math"
	"strconv"
	"strings"

	"github.com/arloliu/go-secs/v2/hsms"
	"github.com/arloliu/go-secs/v2/secs2"
)

// Entry is one observation.
type Entry struct {
	Path  string // child path inside the object ("" = the object itself, "item/0/2" = nested child)
	Class string // accessor class (method name, plus the call shape for append helpers)
	Hash  uint64 // hash of the complete rendered value
	Text  string // rendering (complete up to 4 KiB, else a prefix; diagnostics)
}

// Outputs are the slices an object's accessors returned, each widened to its full capacity.
type Outputs struct {
	Bytes  [][]byte
	Ints   [][]int64
	Uints  [][]uint64
	Floats [][]float64
	Bools  [][]bool
	Items  [][]secs2.Item
}

// Count is the number of returned slices (with non-zero capacity) held.
func (o *Outputs) Count() int {
	return len(o.Bytes) + len(o.Ints) + len(o.Uints) + len(o.Floats) + len(o.Bools) + len(o.Items)
}

// Sentinel is what Mutate stores into returned []secs2.Item slices.
var Sentinel = secs2.A("<<mutated-by-harness>>")

// Mutate overwrites every element (up to capacity) of every returned slice with a different
// value and returns the number of slices touched.
func (o *Outputs) Mutate() int {
	n := 0
	for _, b := range o.Bytes {
		for i := range b {
			b[i] ^= 0xFF
		}
		n++
	}
	for _, s := range o.Ints {
		for i := range s {
			s[i] = ^s[i]
		}
		n++
	}
	for _, s := range o.Uints {
		for i := range s {
			s[i] = ^s[i]
		}
		n++
	}
	for _, s := range o.Floats {
		for i := range s {
			s[i] = math.Float64frombits(^math.Float64bits(s[i]))
		}
		n++
	}
	for _, s := range o.Bools {
		for i := range s {
			s[i] = !s[i]
		}
		n++
	}
	for _, s := range o.Items {
		for i := range s {
			s[i] = Sentinel
		}
		n++
	}

	return n
}

// Snap is a complete observation snapshot.
type Snap struct {
	Entries []Entry
	Outs    Outputs
	// Idents are the item identities a message's Item() handed out during this snapshot.
	Idents []secs2.Item
}

// Options tune a snapshot.
type Options struct {
	// MaxAt bounds the number of indices probed by the *At accessors per item (always includes
	// -1, 0, size-1 and size). 0 means 96.
	MaxAt int
	// Order rotates the order in which the lazily-memoizing accessors of a message are first
	// called (Item / DecodeErr / ToBytes / AppendBodyTo), so concurrent first calls differ.
	Order int
	// Light skips the per-child re-serialization (ToBytes/AppendTo/ToSML of every nested child),
	// keeping them only on the root; used for very large trees.
	Light bool
}

func (o Options) maxAt() int {
	if o.MaxAt <= 0 {
		return 96
	}

	return o.MaxAt
}

type rec struct {
	s   *Snap
	opt Options
}

// clipText keeps the complete rendering when it is short (so a difference can be located
// exactly) and a prefix otherwise (the hash still covers all of it).
func clipText(t string) string {
	if len(t) > 4096 {
		return t[:4096] + "…"
	}

	return t
}

// window returns the parts of a and b around their first difference.
func window(a, b string) (string, string) {
	i := 0
	for i < len(a) && i < len(b) && a[i] == b[i] {
		i++
	}
	cut := func(s string) string {
		lo, hi := i-24, i+40
		pre, post := "…", "…"
		if lo <= 0 {
			lo, pre = 0, ""
		}
		if hi >= len(s) {
			hi, post = len(s), ""
		}
		if lo > hi {
			lo = hi
		}

		return pre + s[lo:hi] + post
	}

	return cut(a), cut(b)
}

func (r *rec) add(path, class, val string) {
	h := fnv.New64a()
	h.Write([]byte(val))
	r.s.Entries = append(r.s.Entries, Entry{Path: path, Class: class, Hash: h.Sum64(), Text: clipText(val)})
}

func errText(err error) string {
	if err == nil {
		return "<nil>"
	}

	return "err:" + err.Error()
}

func (r *rec) keepBytes(b []byte) {
	if cap(b) > 0 {
		r.s.Outs.Bytes = append(r.s.Outs.Bytes, b[:cap(b)])
	}
}

// indices returns the indices probed by the *At accessors: -1..size when small, a spread otherwise.
func (r *rec) indices(size int) []int {
	m := r.opt.maxAt()
	if size+2 <= m {
		out := make([]int, 0, size+2)
		for i := -1; i <= size; i++ {
			out = append(out, i)
		}

		return out
	}
	out := []int{-1, 0, 1, size / 3, size / 2, size - 2, size - 1, size, size + 1}
	step := size / (m - len(out))
	if step < 1 {
		step = 1
	}
	for i := 2; i < size-2; i += step {
		out = append(out, i)
	}

	return out
}

const prefixLen = 5

func patterned(n, capacity int) []byte {
	b := make([]byte, n, capacity)
	for i := range b {
		b[i] = byte(0xC0 + i)
	}

	return b
}

// appendShapes runs an append helper against dst buffers of three shapes: nil, a prefixed buffer
// with spare capacity beyond what is needed (so the result shares the caller's array and has
// capacity left), and a prefixed buffer with no capacity at all (forces reallocation).
func (r *rec) appendShapes(path, class string, need int, f func(dst []byte) []byte) {
	out := f(nil)
	r.add(path, class+"(nil)", fmt.Sprintf("%x", out))
	r.keepBytes(out)

	dst := patterned(prefixLen, prefixLen+need+17)
	out = f(dst)
	r.add(path, class+"(spare-cap)", fmt.Sprintf("%x", out))
	r.keepBytes(out)

	dst = patterned(prefixLen, prefixLen)
	out = f(dst)
	r.add(path, class+"(no-cap)", fmt.Sprintf("%x", out))
	r.keepBytes(out)
	r.keepBytes(dst)
}

// Item takes a complete snapshot of an item.
func Item(it secs2.Item, opt Options) *Snap {
	r := &rec{s: &Snap{}, opt: opt}
	r.item("", it, 0)

	return r.s
}

// ItemInto appends the snapshot of it (under path) to s.
func ItemInto(s *Snap, path string, it secs2.Item, opt Options) {
	r := &rec{s: s, opt: opt}
	r.item(path, it, 0)
}

func (r *rec) item(path string, it secs2.Item, depth int) { //nolint:gocyclo
	if it == nil {
		r.add(path, "nil-item", "nil")
		return
	}
	r.add(path, "Type", it.Type())
	size := it.Size()
	r.add(path, "Size", strconv.Itoa(size))
	r.add(path, "Error", errText(it.Error()))
	encLen := it.EncodedLen()
	r.add(path, "EncodedLen", strconv.Itoa(encLen))
	preds := []bool{it.IsEmpty(), it.IsList(), it.IsBinary(), it.IsBoolean(), it.IsASCII(), it.IsJIS8(), it.IsLocalizedStr(),
		it.IsInt8(), it.IsInt16(), it.IsInt32(), it.IsInt64(), it.IsUint8(), it.IsUint16(), it.IsUint32(), it.IsUint64(), it.IsFloat32(), it.IsFloat64()}
	r.add(path, "Is*", fmt.Sprint(preds))

	self, err := it.Get()
	r.add(path, "Get()", fmt.Sprintf("self=%v %s", self == it, errText(err)))

	// ---- list family
	kidsRet, err := it.ToList()
	kids := append([]secs2.Item(nil), kidsRet...) // private copy: kidsRet is handed to the mutator
	r.add(path, "ToList", fmt.Sprintf("n=%d nil=%v %s", len(kidsRet), kidsRet == nil, errText(err)))
	if cap(kidsRet) > 0 {
		r.s.Outs.Items = append(r.s.Outs.Items, kidsRet[:cap(kidsRet)])
	}
	{
		n, same := 0, true
		for c := range it.Items() {
			if n >= len(kids) || c != kids[n] {
				same = false
			}
			n++
		}
		r.add(path, "Items", fmt.Sprintf("n=%d sameAsToList=%v", n, same))
	}
	{
		var val strings.Builder
		for _, i := range r.indices(size) {
			c, err := it.ItemAt(i)
			same := err == nil && i >= 0 && i < len(kids) && c == kids[i]
			fmt.Fprintf(&val, "%d:%v,%v,%s;", i, c == nil, same, errText(err))
			g, gerr := it.Get(i)
			gsame := gerr == nil && i >= 0 && i < len(kids) && g == kids[i]
			fmt.Fprintf(&val, "G%v,%v,%s;", g == nil, gsame, errText(gerr))
		}
		r.add(path, "ItemAt/Get(i)", val.String())
	}
	if len(kids) > 0 {
		// nested Get paths: first-child chain, and (i,j) for the first grandchildren
		var chain []int
		var val strings.Builder
		cur := it
		for d := 0; d < 70; d++ {
			l, err := cur.ToList()
			if err != nil || len(l) == 0 {
				break
			}
			chain = append(chain, len(l)-1)
			cur = l[len(l)-1]
			g, gerr := it.Get(chain...)
			fmt.Fprintf(&val, "%v:%v,%s;", chain, g == cur, errText(gerr))
		}
		bad := append(append([]int(nil), chain...), 0, 0)
		g, gerr := it.Get(bad...)
		fmt.Fprintf(&val, "bad:%v,%s", g == nil, errText(gerr))
		r.add(path, "Get(path)", val.String())
	}

	// ---- binary family
	bin, err := it.ToBinary()
	r.add(path, "ToBinary", fmt.Sprintf("%x nil=%v %s", bin, bin == nil, errText(err)))
	r.keepBytes(bin)
	r.appendShapes(path, "AppendBinaryTo", size, it.AppendBinaryTo)
	{
		var val strings.Builder
		for _, i := range r.indices(size) {
			v, err := it.ByteAt(i)
			fmt.Fprintf(&val, "%d:%02x,%s;", i, v, errText(err))
		}
		r.add(path, "ByteAt", val.String())
	}

	// ---- boolean family
	bools, err := it.ToBoolean()
	r.add(path, "ToBoolean", fmt.Sprintf("%v nil=%v %s", bools, bools == nil, errText(err)))
	if cap(bools) > 0 {
		r.s.Outs.Bools = append(r.s.Outs.Bools, bools[:cap(bools)])
	}
	{
		var bb []byte
		for v := range it.Bools() {
			if v {
				bb = append(bb, 'T')
			} else {
				bb = append(bb, 'F')
			}
		}
		r.add(path, "Bools", string(bb))
		var val strings.Builder
		for _, i := range r.indices(size) {
			v, err := it.BoolAt(i)
			fmt.Fprintf(&val, "%d:%v,%s;", i, v, errText(err))
		}
		r.add(path, "BoolAt", val.String())
	}

	// ---- signed
	ints, err := it.ToInt()
	r.add(path, "ToInt", fmt.Sprintf("%v nil=%v %s", ints, ints == nil, errText(err)))
	if cap(ints) > 0 {
		r.s.Outs.Ints = append(r.s.Outs.Ints, ints[:cap(ints)])
	}
	{
		var buf []byte
		for v := range it.Ints() {
			buf = strconv.AppendInt(buf, v, 10)
			buf = append(buf, ' ')
		}
		r.add(path, "Ints", string(buf))
		var val strings.Builder
		for _, i := range r.indices(size) {
			v, err := it.IntAt(i)
			fmt.Fprintf(&val, "%d:%d,%s;", i, v, errText(err))
		}
		r.add(path, "IntAt", val.String())
	}

	// ---- unsigned
	uints, err := it.ToUint()
	r.add(path, "ToUint", fmt.Sprintf("%v nil=%v %s", uints, uints == nil, errText(err)))
	if cap(uints) > 0 {
		r.s.Outs.Uints = append(r.s.Outs.Uints, uints[:cap(uints)])
	}
	{
		var buf []byte
		for v := range it.Uints() {
			buf = strconv.AppendUint(buf, v, 10)
			buf = append(buf, ' ')
		}
		r.add(path, "Uints", string(buf))
		var val strings.Builder
		for _, i := range r.indices(size) {
			v, err := it.UintAt(i)
			fmt.Fprintf(&val, "%d:%d,%s;", i, v, errText(err))
		}
		r.add(path, "UintAt", val.String())
	}

	// ---- float (rendered as raw bits: NaN payloads and signed zeros are observations too)
	floats, err := it.ToFloat()
	{
		var buf []byte
		for _, v := range floats {
			buf = strconv.AppendUint(buf, math.Float64bits(v), 16)
			buf = append(buf, ' ')
		}
		r.add(path, "ToFloat", fmt.Sprintf("%s nil=%v %s", buf, floats == nil, errText(err)))
		if cap(floats) > 0 {
			r.s.Outs.Floats = append(r.s.Outs.Floats, floats[:cap(floats)])
		}
		buf = buf[:0]
		for v := range it.Floats() {
			buf = strconv.AppendUint(buf, math.Float64bits(v), 16)
			buf = append(buf, ' ')
		}
		r.add(path, "Floats", string(buf))
		var val strings.Builder
		for _, i := range r.indices(size) {
			v, err := it.FloatAt(i)
			fmt.Fprintf(&val, "%d:%x,%s;", i, math.Float64bits(v), errText(err))
		}
		r.add(path, "FloatAt", val.String())
	}

	// ---- strings
	s, err := it.ToASCII()
	r.add(path, "ToASCII", fmt.Sprintf("%x %s", s, errText(err)))
	s, err = it.ToJIS8()
	r.add(path, "ToJIS8", fmt.Sprintf("%x %s", s, errText(err)))
	s, err = it.ToLocalizedStr()
	r.add(path, "ToLocalizedStr", fmt.Sprintf("%x %s", s, errText(err)))
	h, err := it.ToLocalizedStrHeader()
	r.add(path, "ToLocalizedStrHeader", fmt.Sprintf("%d %s", h, errText(err)))

	// ---- serializers
	if depth == 0 || !r.opt.Light {
		b := it.ToBytes()
		r.add(path, "ToBytes", fmt.Sprintf("%x", b))
		r.keepBytes(b)
		r.appendShapes(path, "AppendTo", encLen, it.AppendTo)
		r.add(path, "ToSML", it.ToSML())
	}

	for i, k := range kids {
		r.item(path+"/"+strconv.Itoa(i), k, depth+1)
	}
}

// Message takes a complete snapshot of an HSMS message (control or data). For a data message the
// decoded item is snapshotted under path "item".
func Message(m hsms.Message, opt Options) *Snap {
	r := &rec{s: &Snap{}, opt: opt}
	r.message(m)

	return r.s
}

func (r *rec) message(m hsms.Message) {
	if m == nil {
		r.add("", "nil-message", "nil")
		return
	}
	dm, isData := m.ToDataMessage()
	r.add("", "ToDataMessage", fmt.Sprintf("%v same=%v", isData, isData && hsms.Message(dm) == m))

	var item secs2.Item
	lazy := []func(){
		func() {
			it, err := dm.Item()
			item = it
			r.s.Idents = append(r.s.Idents, it)
			r.add("", "Item", fmt.Sprintf("nil=%v %s", it == nil, errText(err)))
		},
		func() { r.add("", "DecodeErr", errText(dm.DecodeErr())) },
		func() {
			b := m.ToBytes()
			r.add("", "ToBytes", fmt.Sprintf("%x", b))
			r.keepBytes(b)
		},
		func() {
			r.appendShapes("", "AppendBodyTo", dm.BodyLen(), dm.AppendBodyTo)
		},
	}
	if isData {
		// the lazily memoizing accessors first, in a rotated order; entries are re-sorted into a
		// canonical order afterwards so snapshots taken in different orders still compare equal
		start := len(r.s.Entries)
		n := len(lazy)
		groups := make([][]Entry, n)
		for k := 0; k < n; k++ {
			idx := (k + r.opt.Order) % n
			before := len(r.s.Entries)
			lazy[idx]()
			groups[idx] = append([]Entry(nil), r.s.Entries[before:]...)
		}
		r.s.Entries = r.s.Entries[:start]
		for _, g := range groups {
			r.s.Entries = append(r.s.Entries, g...)
		}
	} else {
		lazy[2]()
	}

	r.add("", "Type", fmt.Sprint(uint8(m.Type())))
	r.add("", "SessionID", fmt.Sprint(m.SessionID()))
	sb := m.SystemBytes()
	r.add("", "SystemBytes", fmt.Sprintf("%x", sb[:]))
	hb := m.HeaderBytes()
	r.add("", "HeaderBytes", fmt.Sprintf("%x", hb[:]))
	// the returned arrays are values: scribbling on them must be invisible
	for i := range sb {
		sb[i] ^= 0xFF
	}
	for i := range hb {
		hb[i] ^= 0xFF
	}

	if cm, ok := m.(*hsms.ControlMessage); ok {
		r.add("", "WaitBit", fmt.Sprint(cm.WaitBit()))
		r.add("", "ID", fmt.Sprint(cm.ID()))
		rc, err := cm.RejectReasonCode()
		r.add("", "RejectReasonCode", fmt.Sprintf("%d %s", rc, errText(err)))

		return
	}
	if !isData {
		return
	}
	r.add("", "Stream", fmt.Sprint(dm.Stream()))
	r.add("", "Function", fmt.Sprint(dm.Function()))
	r.add("", "WaitBit", fmt.Sprint(dm.WaitBit()))
	r.add("", "ID", fmt.Sprint(dm.ID()))
	r.add("", "BodyLen", fmt.Sprint(dm.BodyLen()))
	it2, err2 := dm.Item()
	r.s.Idents = append(r.s.Idents, it2)
	r.add("", "Item(again)", fmt.Sprintf("sameIdentity=%v %s", it2 == item, errText(err2)))
	r.add("", "Equal(self)", fmt.Sprint(dm.Equal(dm)))
	mb, err := dm.Codec().MarshalBinary()
	r.add("", "Codec.MarshalBinary", fmt.Sprintf("%x %s", mb, errText(err)))
	r.keepBytes(mb)
	if item != nil {
		r.item("item", item, 0)
	}
}

// SECS2 takes a snapshot of a transport-agnostic secs2.SECS2Message.
func SECS2(m secs2.SECS2Message, opt Options) *Snap {
	r := &rec{s: &Snap{}, opt: opt}
	r.add("", "StreamCode", fmt.Sprint(m.StreamCode()))
	r.add("", "FunctionCode", fmt.Sprint(m.FunctionCode()))
	r.add("", "WaitBit", fmt.Sprint(m.WaitBit()))
	it := m.Item()
	r.s.Idents = append(r.s.Idents, it)
	r.add("", "Item(again)", fmt.Sprintf("sameIdentity=%v", m.Item() == it))
	if it != nil {
		r.item("item", it, 0)
	}

	return r.s
}

// Diff describes the first difference between two snapshots.
type Diff struct {
	Path, Class string
	A, B        string
}

func (d *Diff) String() string {
	return fmt.Sprintf("%s %s: %q vs %q", d.Path, d.Class, d.A, d.B)
}

// Compare returns nil when a and b hold the same observations in the same order. skip names
// accessor classes (at path "") that are left out (header-dependent observations of re-stamped
// message copies).
func Compare(a, b *Snap, skip map[string]bool) *Diff {
	ea, eb := filter(a.Entries, skip), filter(b.Entries, skip)
	for i := 0; i < len(ea) && i < len(eb); i++ {
		x, y := ea[i], eb[i]
		if x.Path != y.Path || x.Class != y.Class {
			return &Diff{Path: x.Path, Class: x.Class, A: x.Path + ":" + x.Class, B: "(shape) " + y.Path + ":" + y.Class}
		}
		if x.Hash != y.Hash {
			wa, wb := window(x.Text, y.Text)

			return &Diff{Path: x.Path, Class: x.Class, A: wa, B: wb}
		}
	}
	if len(ea) != len(eb) {
		return &Diff{Class: "entry-count", A: strconv.Itoa(len(ea)), B: strconv.Itoa(len(eb))}
	}

	return nil
}

func filter(es []Entry, skip map[string]bool) []Entry {
	if len(skip) == 0 {
		return es
	}
	out := make([]Entry, 0, len(es))
	for _, e := range es {
		if e.Path == "" && skip[e.Class] {
			continue
		}
		out = append(out, e)
	}

	return out
}

// HeaderClasses are the message-level observations that legitimately differ between a data
// message and a re-stamped copy of it.
var HeaderClasses = map[string]bool{
	"SessionID": true, "SystemBytes": true, "HeaderBytes": true, "ToBytes": true, "ID": true, "Codec.MarshalBinary": true,
}
