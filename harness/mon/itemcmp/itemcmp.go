// Package itemcmp compares a go-secs item against the reference model through EVERY public
// accessor of the Item interface (type predicates, Size, To*, *At incl. out-of-range, iterators,
// Get), so a divergence in any one accessor path is observed.
package itemcmp

import (
	"bytes"
	"fmt"
	"math"

	"github.com/arloliu/go-secs/v2/secs2"

	"verif/ref/e5"
)

// Mode tunes float comparison.
type Mode struct {
	// F4AtFloat32: compare F4 accessor values after narrowing to float32 (constructed items hold
	// the caller's float64 until encode time; the library documents F4 equality at wire precision).
	F4AtFloat32 bool
	// NaNLoose: any NaN matches any NaN (F4 values pass through float32<->float64 conversions
	// which may quiet a signalling NaN).
	NaNLoose bool
}

// Decoded is the mode for items that came out of a decoder (exact bits, except that an F4 NaN is
// widened to float64 and so compared as NaN).
var Decoded = Mode{F4AtFloat32: true, NaNLoose: false}

// Constructed is the mode for items built by constructors.
var Constructed = Mode{F4AtFloat32: true, NaNLoose: true}

func typeName(fc uint8) string {
	switch fc {
	case e5.List:
		return secs2.ListType
	case e5.Binary:
		return secs2.BinaryType
	case e5.Boolean:
		return secs2.BooleanType
	case e5.ASCII:
		return secs2.ASCIIType
	case e5.JIS8:
		return secs2.JIS8Type
	case e5.Localized:
		return secs2.LocalizedStrType
	case e5.I1:
		return secs2.Int8Type
	case e5.I2:
		return secs2.Int16Type
	case e5.I4:
		return secs2.Int32Type
	case e5.I8:
		return secs2.Int64Type
	case e5.U1:
		return secs2.Uint8Type
	case e5.U2:
		return secs2.Uint16Type
	case e5.U4:
		return secs2.Uint32Type
	case e5.U8:
		return secs2.Uint64Type
	case e5.F4:
		return secs2.Float32Type
	case e5.F8:
		return secs2.Float64Type
	}

	return "?"
}

// Compare returns nil when it agrees with n on every accessor.
func Compare(it secs2.Item, n *e5.Node, m Mode) error {
	return compare(it, n, m, "")
}

func compare(it secs2.Item, n *e5.Node, m Mode, path string) error { //nolint:gocyclo
	if it == nil {
		return fmt.Errorf("%s: nil item", path)
	}
	if err := it.Error(); err != nil {
		return fmt.Errorf("%s: Error()=%v on an error-free value", path, err)
	}
	if got, want := it.Type(), typeName(n.FC); got != want {
		return fmt.Errorf("%s: Type()=%q want %q", path, got, want)
	}
	if got, want := it.Size(), n.Count(); got != want {
		return fmt.Errorf("%s: Size()=%d want %d", path, got, want)
	}
	// predicates: exactly one true, the right one
	preds := map[uint8]bool{
		e5.List: it.IsList(), e5.Binary: it.IsBinary(), e5.Boolean: it.IsBoolean(), e5.ASCII: it.IsASCII(),
		e5.JIS8: it.IsJIS8(), e5.Localized: it.IsLocalizedStr(), e5.I1: it.IsInt8(), e5.I2: it.IsInt16(),
		e5.I4: it.IsInt32(), e5.I8: it.IsInt64(), e5.U1: it.IsUint8(), e5.U2: it.IsUint16(), e5.U4: it.IsUint32(),
		e5.U8: it.IsUint64(), e5.F4: it.IsFloat32(), e5.F8: it.IsFloat64(),
	}
	for fc, v := range preds {
		if v != (fc == n.FC) {
			return fmt.Errorf("%s: Is-predicate for %s = %v on a %s item", path, e5.Name(fc), v, e5.Name(n.FC))
		}
	}
	if it.IsEmpty() {
		return fmt.Errorf("%s: IsEmpty()=true on a %s item", path, e5.Name(n.FC))
	}
	// Get() with no indices is only checked on lists: the interface doc promises "the receiver
	// itself" for every item, but leaf items return a not-supported error on the pinned tree; that
	// is outside every given property, so it is not judged.
	if n.FC == e5.List {
		if self, err := it.Get(); err != nil || self != it {
			return fmt.Errorf("%s: Get() = (%v,%v), want the item itself", path, self, err)
		}
	}

	// accessors of OTHER kinds must fail / yield nothing
	if n.FC != e5.List {
		if _, err := it.ToList(); err == nil {
			return fmt.Errorf("%s: ToList() succeeded on a %s item", path, e5.Name(n.FC))
		}
		for range it.Items() {
			return fmt.Errorf("%s: Items() yielded on a %s item", path, e5.Name(n.FC))
		}
	}
	if n.FC != e5.Binary {
		if _, err := it.ToBinary(); err == nil {
			return fmt.Errorf("%s: ToBinary() succeeded on a %s item", path, e5.Name(n.FC))
		}
		if out := it.AppendBinaryTo([]byte{7}); !bytes.Equal(out, []byte{7}) {
			return fmt.Errorf("%s: AppendBinaryTo changed dst on a %s item", path, e5.Name(n.FC))
		}
	}
	isInt := n.FC == e5.I1 || n.FC == e5.I2 || n.FC == e5.I4 || n.FC == e5.I8
	isUint := n.FC == e5.U1 || n.FC == e5.U2 || n.FC == e5.U4 || n.FC == e5.U8
	isFloat := n.FC == e5.F4 || n.FC == e5.F8
	if !isInt {
		if _, err := it.ToInt(); err == nil {
			return fmt.Errorf("%s: ToInt() succeeded on a %s item", path, e5.Name(n.FC))
		}
		for range it.Ints() {
			return fmt.Errorf("%s: Ints() yielded on a %s item", path, e5.Name(n.FC))
		}
	}
	if !isUint {
		if _, err := it.ToUint(); err == nil {
			return fmt.Errorf("%s: ToUint() succeeded on a %s item", path, e5.Name(n.FC))
		}
		for range it.Uints() {
			return fmt.Errorf("%s: Uints() yielded on a %s item", path, e5.Name(n.FC))
		}
	}
	if !isFloat {
		if _, err := it.ToFloat(); err == nil {
			return fmt.Errorf("%s: ToFloat() succeeded on a %s item", path, e5.Name(n.FC))
		}
		for range it.Floats() {
			return fmt.Errorf("%s: Floats() yielded on a %s item", path, e5.Name(n.FC))
		}
	}
	if n.FC != e5.Boolean {
		if _, err := it.ToBoolean(); err == nil {
			return fmt.Errorf("%s: ToBoolean() succeeded on a %s item", path, e5.Name(n.FC))
		}
		for range it.Bools() {
			return fmt.Errorf("%s: Bools() yielded on a %s item", path, e5.Name(n.FC))
		}
	}
	if n.FC != e5.ASCII {
		if _, err := it.ToASCII(); err == nil {
			return fmt.Errorf("%s: ToASCII() succeeded on a %s item", path, e5.Name(n.FC))
		}
	}
	if n.FC != e5.JIS8 {
		if _, err := it.ToJIS8(); err == nil {
			return fmt.Errorf("%s: ToJIS8() succeeded on a %s item", path, e5.Name(n.FC))
		}
	}
	if n.FC != e5.Localized {
		if _, err := it.ToLocalizedStr(); err == nil {
			return fmt.Errorf("%s: ToLocalizedStr() succeeded on a %s item", path, e5.Name(n.FC))
		}
		if _, err := it.ToLocalizedStrHeader(); err == nil {
			return fmt.Errorf("%s: ToLocalizedStrHeader() succeeded on a %s item", path, e5.Name(n.FC))
		}
	}

	cnt := n.Count()
	switch {
	case n.FC == e5.List:
		kids, err := it.ToList()
		if err != nil || len(kids) != len(n.Kids) {
			return fmt.Errorf("%s: ToList() = %d items, err %v; want %d", path, len(kids), err, len(n.Kids))
		}
		i := 0
		for c := range it.Items() {
			if i >= len(kids) || c != kids[i] {
				return fmt.Errorf("%s: Items()[%d] differs from ToList()[%d]", path, i, i)
			}
			i++
		}
		if i != len(kids) {
			return fmt.Errorf("%s: Items() yielded %d of %d", path, i, len(kids))
		}
		for i, k := range n.Kids {
			at, err := it.ItemAt(i)
			if err != nil || at != kids[i] {
				return fmt.Errorf("%s: ItemAt(%d) differs from ToList (err %v)", path, i, err)
			}
			g, err := it.Get(i)
			if err != nil || g != kids[i] {
				return fmt.Errorf("%s: Get(%d) differs from ToList (err %v)", path, i, err)
			}
			if err := compare(kids[i], k, m, fmt.Sprintf("%s/%d", path, i)); err != nil {
				return err
			}
		}
		if _, err := it.ItemAt(-1); err == nil {
			return fmt.Errorf("%s: ItemAt(-1) succeeded", path)
		}
		if _, err := it.ItemAt(cnt); err == nil {
			return fmt.Errorf("%s: ItemAt(size) succeeded", path)
		}
		if _, err := it.Get(cnt); err == nil {
			return fmt.Errorf("%s: Get(size) succeeded", path)
		}
	case n.FC == e5.Binary:
		b, err := it.ToBinary()
		if err != nil || !bytes.Equal(b, n.Bytes) {
			return fmt.Errorf("%s: ToBinary()=%x err %v want %x", path, clip(b), err, clip(n.Bytes))
		}
		if out := it.AppendBinaryTo([]byte{9}); len(out) != 1+len(n.Bytes) || out[0] != 9 || !bytes.Equal(out[1:], n.Bytes) {
			return fmt.Errorf("%s: AppendBinaryTo mismatch", path)
		}
		for _, i := range probe(cnt) {
			v, err := it.ByteAt(i)
			if err != nil || v != n.Bytes[i] {
				return fmt.Errorf("%s: ByteAt(%d)=%x err %v want %x", path, i, v, err, n.Bytes[i])
			}
		}
		if _, err := it.ByteAt(-1); err == nil {
			return fmt.Errorf("%s: ByteAt(-1) succeeded", path)
		}
		if _, err := it.ByteAt(cnt); err == nil {
			return fmt.Errorf("%s: ByteAt(size) succeeded", path)
		}
	case n.FC == e5.Boolean:
		b, err := it.ToBoolean()
		if err != nil || len(b) != cnt {
			return fmt.Errorf("%s: ToBoolean() len %d err %v want %d", path, len(b), err, cnt)
		}
		i := 0
		for v := range it.Bools() {
			if i >= cnt || v != (n.Bytes[i] != 0) {
				return fmt.Errorf("%s: Bools()[%d]=%v, wire byte %x", path, i, v, n.Bytes[min(i, cnt-1)])
			}
			i++
		}
		if i != cnt {
			return fmt.Errorf("%s: Bools() yielded %d of %d", path, i, cnt)
		}
		for i := range b {
			if b[i] != (n.Bytes[i] != 0) {
				return fmt.Errorf("%s: ToBoolean()[%d]=%v, wire byte %x", path, i, b[i], n.Bytes[i])
			}
		}
		for _, i := range probe(cnt) {
			v, err := it.BoolAt(i)
			if err != nil || v != (n.Bytes[i] != 0) {
				return fmt.Errorf("%s: BoolAt(%d)=%v err %v", path, i, v, err)
			}
		}
		if _, err := it.BoolAt(-1); err == nil {
			return fmt.Errorf("%s: BoolAt(-1) succeeded", path)
		}
		if _, err := it.BoolAt(cnt); err == nil {
			return fmt.Errorf("%s: BoolAt(size) succeeded", path)
		}
	case n.FC == e5.ASCII:
		s, err := it.ToASCII()
		if err != nil || s != string(n.Bytes) {
			return fmt.Errorf("%s: ToASCII()=%q err %v want %q", path, clips(s), err, clip(n.Bytes))
		}
	case n.FC == e5.JIS8:
		s, err := it.ToJIS8()
		if err != nil || s != string(n.Bytes) {
			return fmt.Errorf("%s: ToJIS8()=%q err %v want %q", path, clips(s), err, clip(n.Bytes))
		}
	case n.FC == e5.Localized:
		s, err := it.ToLocalizedStr()
		if err != nil || s != string(n.Bytes) {
			return fmt.Errorf("%s: ToLocalizedStr()=%q err %v want %q", path, clips(s), err, clip(n.Bytes))
		}
		h, err := it.ToLocalizedStrHeader()
		if err != nil || h != n.LSH {
			return fmt.Errorf("%s: ToLocalizedStrHeader()=%d err %v want %d", path, h, err, n.LSH)
		}
	case isInt:
		v, err := it.ToInt()
		if err != nil || len(v) != cnt {
			return fmt.Errorf("%s: ToInt() len %d err %v want %d", path, len(v), err, cnt)
		}
		i := 0
		for x := range it.Ints() {
			if i >= cnt || x != n.Ints[i] {
				return fmt.Errorf("%s: Ints()[%d]=%d want %d", path, i, x, n.Ints[min(i, cnt-1)])
			}
			i++
		}
		if i != cnt {
			return fmt.Errorf("%s: Ints() yielded %d of %d", path, i, cnt)
		}
		for i := range v {
			if v[i] != n.Ints[i] {
				return fmt.Errorf("%s: ToInt()[%d]=%d want %d", path, i, v[i], n.Ints[i])
			}
		}
		for _, i := range probe(cnt) {
			x, err := it.IntAt(i)
			if err != nil || x != n.Ints[i] {
				return fmt.Errorf("%s: IntAt(%d)=%d err %v want %d", path, i, x, err, n.Ints[i])
			}
		}
		if _, err := it.IntAt(-1); err == nil {
			return fmt.Errorf("%s: IntAt(-1) succeeded", path)
		}
		if _, err := it.IntAt(cnt); err == nil {
			return fmt.Errorf("%s: IntAt(size) succeeded", path)
		}
	case isUint:
		v, err := it.ToUint()
		if err != nil || len(v) != cnt {
			return fmt.Errorf("%s: ToUint() len %d err %v want %d", path, len(v), err, cnt)
		}
		i := 0
		for x := range it.Uints() {
			if i >= cnt || x != n.Uints[i] {
				return fmt.Errorf("%s: Uints()[%d]=%d want %d", path, i, x, n.Uints[min(i, cnt-1)])
			}
			i++
		}
		if i != cnt {
			return fmt.Errorf("%s: Uints() yielded %d of %d", path, i, cnt)
		}
		for i := range v {
			if v[i] != n.Uints[i] {
				return fmt.Errorf("%s: ToUint()[%d]=%d want %d", path, i, v[i], n.Uints[i])
			}
		}
		for _, i := range probe(cnt) {
			x, err := it.UintAt(i)
			if err != nil || x != n.Uints[i] {
				return fmt.Errorf("%s: UintAt(%d)=%d err %v want %d", path, i, x, err, n.Uints[i])
			}
		}
		if _, err := it.UintAt(-1); err == nil {
			return fmt.Errorf("%s: UintAt(-1) succeeded", path)
		}
		if _, err := it.UintAt(cnt); err == nil {
			return fmt.Errorf("%s: UintAt(size) succeeded", path)
		}
	case isFloat:
		v, err := it.ToFloat()
		if err != nil || len(v) != cnt {
			return fmt.Errorf("%s: ToFloat() len %d err %v want %d", path, len(v), err, cnt)
		}
		i := 0
		for x := range it.Floats() {
			if i >= cnt || !floatEq(n, i, x, m) {
				return fmt.Errorf("%s: Floats()[%d]=%v (bits %x) want bits %x", path, i, x, math.Float64bits(x), n.Bits[min(i, cnt-1)])
			}
			i++
		}
		if i != cnt {
			return fmt.Errorf("%s: Floats() yielded %d of %d", path, i, cnt)
		}
		for i := range v {
			if !floatEq(n, i, v[i], m) {
				return fmt.Errorf("%s: ToFloat()[%d]=%v (bits %x) want bits %x", path, i, v[i], math.Float64bits(v[i]), n.Bits[i])
			}
		}
		for _, i := range probe(cnt) {
			x, err := it.FloatAt(i)
			if err != nil || !floatEq(n, i, x, m) {
				return fmt.Errorf("%s: FloatAt(%d)=%v err %v want bits %x", path, i, x, err, n.Bits[i])
			}
		}
		if _, err := it.FloatAt(-1); err == nil {
			return fmt.Errorf("%s: FloatAt(-1) succeeded", path)
		}
		if _, err := it.FloatAt(cnt); err == nil {
			return fmt.Errorf("%s: FloatAt(size) succeeded", path)
		}
	}

	return nil
}

func floatEq(n *e5.Node, i int, got float64, m Mode) bool {
	if n.FC == e5.F4 {
		want := math.Float32frombits(uint32(n.Bits[i]))
		if want != want { // NaN
			if m.NaNLoose {
				return got != got
			}
			// decoded: widened NaN; float64(float32 NaN) keeps sign+payload (quiet bit may be set)
			return got != got
		}
		if m.F4AtFloat32 {
			return math.Float32bits(float32(got)) == uint32(n.Bits[i])
		}

		return math.Float64bits(got) == math.Float64bits(float64(want))
	}
	want := math.Float64frombits(n.Bits[i])
	if want != want && m.NaNLoose {
		return got != got
	}

	return math.Float64bits(got) == n.Bits[i]
}

// probe returns the indices to test with the *At accessors: all for small items, a spread for big.
func probe(n int) []int {
	if n <= 64 {
		out := make([]int, n)
		for i := range out {
			out[i] = i
		}

		return out
	}
	out := []int{0, 1, n / 3, n / 2, n - 2, n - 1}
	for i := 7; i < n; i += n / 23 {
		out = append(out, i)
	}

	return out
}

func clip(b []byte) []byte {
	if len(b) > 32 {
		return b[:32]
	}

	return b
}

func clips(s string) string {
	if len(s) > 32 {
		return s[:32]
	}

	return s
}
