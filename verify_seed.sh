#!/bin/bash
# verify_seed.sh <ID> "<demo command>" : confirms a seeded change in /tmp/seed-<ID> (change applied there):
#   build, demo fails with the change, demo passes without it, the library's suite passes with it.
ID=$1; DEMO=$2; WT=/tmp/seed-$ID
export GOFLAGS=-mod=mod GOPROXY=off
cd $WT || exit 9
files=$(python3 -c "import json;print(' '.join(json.load(open('seeded_out/meta.json'))['files_changed']))")
echo "[$ID] files: $files"
go build ./... || { echo "[$ID] BUILD FAILED"; exit 1; }
bash -c "$DEMO" > /tmp/seed-$ID.demo_with.log 2>&1; w=$?
git stash push -q -- $files
bash -c "$DEMO" > /tmp/seed-$ID.demo_without.log 2>&1; wo=$?
git stash pop -q
echo "[$ID] demo with change exit=$w (want !=0), without change exit=$wo (want 0)"
pkgs=$(go list ./... | grep -v seeded_demo)
go test -vet=off -count=1 -timeout 25m $pkgs > /tmp/seed-$ID.suite.log 2>&1; s=$?
echo "[$ID] suite exit=$s; failing: $(grep -E '^(FAIL|--- FAIL)' /tmp/seed-$ID.suite.log | head -5 | tr '\n' ' ')"
